// Package stx is the shared kit of the store-level checks: generated store
// configurations, a reference model of the committed KV history, and helpers
// to drive embedded/store.
package stx

import (
	"bytes"
	"context"
	"crypto/sha256"
	"fmt"
	"sort"
	"time"

	"github.com/codenotary/immudb/embedded/appendable"
	"github.com/codenotary/immudb/embedded/logger"
	"github.com/codenotary/immudb/embedded/store"
	"pgregory.net/rapid"
)

// fixed instants: expirations never depend on the wall clock of the run
var (
	PastExpiry   = time.Date(2001, 1, 1, 0, 0, 0, 0, time.UTC)
	FutureExpiry = time.Date(2999, 1, 1, 0, 0, 0, 0, time.UTC)
)

// Entry is the model of one KV entry of a transaction.
type Entry struct {
	Key          []byte
	Value        []byte
	Deleted      bool
	NonIndexable bool
	Expire       int // 0 none, 1 expired long ago, 2 expires in the far future
}

func (e Entry) String() string {
	f := ""
	if e.Deleted {
		f += "D"
	}
	if e.NonIndexable {
		f += "N"
	}
	if e.Expire == 1 {
		f += "X"
	}
	if e.Expire == 2 {
		f += "F"
	}
	return fmt.Sprintf("%s=%s%s", short(e.Key), short(e.Value), f)
}

func short(b []byte) string {
	if len(b) <= 12 {
		return fmt.Sprintf("%q", b)
	}
	return fmt.Sprintf("%q..(%d)", b[:8], len(b))
}

// MD builds the KV metadata of the entry (nil when it has no attribute).
func (e Entry) MD() *store.KVMetadata {
	if !e.Deleted && !e.NonIndexable && e.Expire == 0 {
		return nil
	}
	md := store.NewKVMetadata()
	if e.Deleted {
		md.AsDeleted(true)
	}
	if e.NonIndexable {
		md.AsNonIndexable(true)
	}
	switch e.Expire {
	case 1:
		md.ExpiresAt(PastExpiry)
	case 2:
		md.ExpiresAt(FutureExpiry)
	}
	return md
}

// Live reports whether a lookup must return the entry (not deleted, not expired).
func (e Entry) Live() bool { return !e.Deleted && e.Expire != 1 }

// TxRec is one committed transaction of the model.
type TxRec struct {
	ID      uint64
	Entries []Entry
	Hdr     *store.TxHeader
}

// Model is the committed history in commit order (Txs[i].ID == i+1).
type Model struct {
	Txs []*TxRec
}

func (m *Model) Add(hdr *store.TxHeader, entries []Entry) *TxRec {
	r := &TxRec{ID: hdr.ID, Entries: entries, Hdr: hdr}
	m.Txs = append(m.Txs, r)
	return r
}

func (m *Model) N() uint64 { return uint64(len(m.Txs)) }

// Ver is one version of a key in an index.
type Ver struct {
	Tx uint64
	HC uint64 // revision, 1-based
	E  Entry
}

// Versions lists the indexed versions of key k (identity-mapped index) up to tx upTo.
func (m *Model) Versions(k []byte, upTo uint64) []Ver {
	var out []Ver
	for _, t := range m.Txs {
		if t.ID > upTo {
			break
		}
		for _, e := range t.Entries {
			if !e.NonIndexable && bytes.Equal(e.Key, k) {
				out = append(out, Ver{Tx: t.ID, HC: uint64(len(out) + 1), E: e})
			}
		}
	}
	return out
}

// Keys returns the sorted distinct indexed keys with the given prefix up to tx upTo.
func (m *Model) Keys(prefix []byte, upTo uint64) [][]byte {
	seen := map[string]bool{}
	var out [][]byte
	for _, t := range m.Txs {
		if t.ID > upTo {
			break
		}
		for _, e := range t.Entries {
			if e.NonIndexable || !bytes.HasPrefix(e.Key, prefix) || seen[string(e.Key)] {
				continue
			}
			seen[string(e.Key)] = true
			out = append(out, e.Key)
		}
	}
	sort.Slice(out, func(i, j int) bool { return bytes.Compare(out[i], out[j]) < 0 })
	return out
}

// ---------------------------------------------------------------------------
// store configuration

// Cfg is a generated store configuration (only public options).
type Cfg struct {
	Synced         bool
	SyncFreqMs     int
	Embedded       bool
	Prealloc       bool
	HdrVersion     int
	IOConc         int
	FileSize       int
	TxLogCache     int
	MaxActiveTx    int
	MaxKeyLen      int
	MaxValueLen    int
	MaxTxEntries   int
	Compression    int
	WriteBuf       int
	VLogCache      int
	MultiIndexing  bool
	BulkSize       int
	AdaptiveBulk   bool
	FlushThld      int
	SyncThld       int
	MaxNodeSize    int
	IdxCache       int
	CleanupPct     float32
	CompactionThld int
	AHTSyncThld    int
	MaxBuffered    int
	ExternalAllow  bool
}

// GenCfg draws a configuration. Small file sizes force chunk rotation inside records.
func GenCfg(rt *rapid.T) Cfg {
	c := Cfg{
		Synced:         rapid.IntRange(0, 3).Draw(rt, "synced") == 0,
		SyncFreqMs:     1,
		Embedded:       rapid.IntRange(0, 3).Draw(rt, "embedded") == 0,
		Prealloc:       rapid.IntRange(0, 5).Draw(rt, "prealloc") == 0,
		HdrVersion:     rapid.SampledFrom([]int{1, 1, 1, 0}).Draw(rt, "hdrVersion"),
		IOConc:         rapid.IntRange(1, 3).Draw(rt, "ioConc"),
		FileSize:       rapid.SampledFrom([]int{256, 512, 1024, 4096, 1 << 20}).Draw(rt, "fileSize"),
		TxLogCache:     rapid.SampledFrom([]int{1, 2, 10, 1000}).Draw(rt, "txLogCache"),
		MaxActiveTx:    rapid.SampledFrom([]int{4, 16, 1000}).Draw(rt, "maxActiveTx"),
		MaxKeyLen:      rapid.SampledFrom([]int{64, 256, 1024}).Draw(rt, "maxKeyLen"),
		MaxValueLen:    rapid.SampledFrom([]int{64, 512, 4096}).Draw(rt, "maxValueLen"),
		MaxTxEntries:   rapid.SampledFrom([]int{8, 64, 1024}).Draw(rt, "maxTxEntries"),
		Compression:    appendable.NoCompression,
		WriteBuf:       rapid.SampledFrom([]int{64, 512, 1 << 16}).Draw(rt, "writeBuf"),
		VLogCache:      rapid.SampledFrom([]int{0, 0, 2, 100}).Draw(rt, "vlogCache"),
		BulkSize:       rapid.SampledFrom([]int{1, 1, 2, 3, 4, 8}).Draw(rt, "bulkSize"),
		AdaptiveBulk:   rapid.Bool().Draw(rt, "adaptiveBulk"),
		FlushThld:      rapid.SampledFrom([]int{1, 3, 10, 50, 100000}).Draw(rt, "flushThld"),
		MaxNodeSize:    rapid.SampledFrom([]int{0, 0, 1, 4096}).Draw(rt, "nodeSizeClass"),
		IdxCache:       rapid.SampledFrom([]int{1, 2, 10, 100}).Draw(rt, "idxCache"),
		CleanupPct:     float32(rapid.SampledFrom([]int{0, 0, 10, 50, 100}).Draw(rt, "cleanupPct")),
		CompactionThld: rapid.SampledFrom([]int{1, 2}).Draw(rt, "compactionThld"),
		AHTSyncThld:    rapid.SampledFrom([]int{1, 2, 5, 100000}).Draw(rt, "ahtSyncThld"),
		MaxBuffered:    rapid.SampledFrom([]int{1 << 12, 1 << 16, 1 << 25}).Draw(rt, "maxBuffered"),
	}
	if c.Embedded {
		c.IOConc = 1
	}
	if rapid.IntRange(0, 4).Draw(rt, "compress") == 0 {
		c.Compression = rapid.SampledFrom([]int{appendable.FlateCompression, appendable.GZipCompression, appendable.LZWCompression, appendable.ZLibCompression}).Draw(rt, "compression")
	}
	c.SyncThld = c.FlushThld * rapid.IntRange(1, 3).Draw(rt, "syncThldMul")
	return c
}

func (c Cfg) String() string {
	return fmt.Sprintf("{sync=%v emb=%v pre=%v hv=%d io=%d fs=%d tlc=%d mat=%d mk=%d mv=%d mte=%d cmp=%d wb=%d vc=%d mi=%v bulk=%d/%v fl=%d/%d ns=%d ic=%d cl=%.0f ct=%d aht=%d mb=%d ext=%v}",
		c.Synced, c.Embedded, c.Prealloc, c.HdrVersion, c.IOConc, c.FileSize, c.TxLogCache, c.MaxActiveTx, c.MaxKeyLen, c.MaxValueLen, c.MaxTxEntries,
		c.Compression, c.WriteBuf, c.VLogCache, c.MultiIndexing, c.BulkSize, c.AdaptiveBulk, c.FlushThld, c.SyncThld, c.MaxNodeSize, c.IdxCache, c.CleanupPct,
		c.CompactionThld, c.AHTSyncThld, c.MaxBuffered, c.ExternalAllow)
}

// MinNodeSize is the smallest MaxNodeSize tbtree accepts for the key/value sizes of c
// (see tbtree.requiredNodeSize: 2*(maxKeySize+maxValueSize+...)); computed generously.
func (c Cfg) nodeSize() int {
	// indexed value: vLen(4)+vOff(8)+hVal(32)+txmdLen(2)+txmd(<=...)+kvmdLen(2)+kvmd
	maxIndexedValue := 4 + 8 + 32 + 2 + 256 + 2 + 64
	min := 2*(c.MaxKeyLen+maxIndexedValue+64) + 64
	switch c.MaxNodeSize {
	case 0:
		return 4096 + min // default-ish
	case 1:
		return min // deep trees
	default:
		if c.MaxNodeSize < min {
			return min
		}
		return c.MaxNodeSize
	}
}

var counter int64

// Options translates the configuration. now is the TimeFunc (a harness counter, not the wall clock).
func (c Cfg) Options() *store.Options {
	idx := store.DefaultIndexOptions().
		WithMaxBulkSize(c.BulkSize).
		WithAdaptiveBulkSize(c.AdaptiveBulk).
		WithBulkPreparationTimeout(5 * time.Millisecond).
		WithFlushThld(c.FlushThld).
		WithSyncThld(c.SyncThld).
		WithMaxNodeSize(c.nodeSize()).
		WithCacheSize(c.IdxCache).
		WithCleanupPercentage(c.CleanupPct).
		WithCompactionThld(c.CompactionThld).
		WithMaxBufferedDataSize(c.MaxBuffered).
		WithMaxActiveSnapshots(100)
	aht := store.DefaultAHTOptions().WithSyncThld(c.AHTSyncThld).WithWriteBufferSize(4096) // default is 16 MiB per log: far too slow to clear per case
	o := store.DefaultOptions().
		WithSynced(c.Synced).
		WithSyncFrequency(time.Duration(c.SyncFreqMs) * time.Millisecond).
		WithEmbeddedValues(c.Embedded).
		WithPreallocFiles(c.Prealloc).
		WithWriteTxHeaderVersion(c.HdrVersion).
		WithMaxIOConcurrency(c.IOConc).
		WithFileSize(c.FileSize).
		WithTxLogCacheSize(c.TxLogCache).
		WithMaxActiveTransactions(c.MaxActiveTx).
		WithMaxKeyLen(c.MaxKeyLen).
		WithMaxValueLen(c.MaxValueLen).
		WithMaxTxEntries(c.MaxTxEntries).
		WithCompressionFormat(c.Compression).
		WithWriteBufferSize(c.WriteBuf).
		WithVLogCacheSize(c.VLogCache).
		WithMultiIndexing(c.MultiIndexing).
		WithExternalCommitAllowance(c.ExternalAllow).
		WithIndexOptions(idx).
		WithAHTOptions(aht).
		WithLogger(logger.NewMemoryLoggerWithLevel(logger.LogError))
	return o
}

// ---------------------------------------------------------------------------
// driving the store

// Commit writes the entries as one write-only transaction.
func Commit(st *store.ImmuStore, entries []Entry, waitIndex bool) (*store.TxHeader, error) {
	tx, err := st.NewWriteOnlyTx(context.Background())
	if err != nil {
		return nil, err
	}
	for _, e := range entries {
		if err := tx.Set(e.Key, e.MD(), e.Value); err != nil {
			tx.Cancel()
			return nil, err
		}
	}
	if waitIndex {
		return tx.Commit(context.Background())
	}
	return tx.AsyncCommit(context.Background())
}

// Dedup applies the "last write to a key inside one tx wins, position of the first" rule of OngoingTx.
func Dedup(entries []Entry) []Entry {
	pos := map[string]int{}
	var out []Entry
	for _, e := range entries {
		if i, ok := pos[string(e.Key)]; ok {
			out[i] = e
			continue
		}
		pos[string(e.Key)] = len(out)
		out = append(out, e)
	}
	return out
}

// HashOf is sha256 of the value.
func HashOf(v []byte) [sha256.Size]byte { return sha256.Sum256(v) }
