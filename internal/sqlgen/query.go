package sqlgen

import (
	"fmt"
	"strings"
)

// Access says how one table reference (identified by its alias) is reached in
// a rendering of a query: through the twin table, with a forced index, or as
// a derived table (SELECT * FROM t) that keeps the planner from using indexes
// and hash joins on it.
type Access struct {
	Twin     bool
	Index    []string // USE INDEX ON (...); nil = planner's choice
	Subquery bool
}

// RenderCtx maps alias -> Access; aliases not present use the plain table.
type RenderCtx struct {
	Access map[string]Access
}

func (rc *RenderCtx) access(alias string) Access {
	if rc == nil {
		return Access{}
	}
	return rc.Access[alias]
}

// From is one table reference of a query.
type From struct {
	T     *Table
	Alias string
	// History renders (HISTORY OF t); Period is a rendered period clause such
	// as "BEFORE TX 7" (both are served by the primary index only).
	History bool
	Period  string
}

func (f From) render(rc *RenderCtx) string {
	a := rc.access(f.Alias)
	name := f.T.Name
	if a.Twin {
		name = TwinName(name)
	}
	if f.History {
		s := fmt.Sprintf("(HISTORY OF %s) AS %s", name, f.Alias)
		if len(a.Index) > 0 {
			s += " USE INDEX ON (" + strings.Join(a.Index, ", ") + ")"
		}
		return s
	}
	if a.Subquery {
		return fmt.Sprintf("(SELECT * FROM %s) AS %s", name, f.Alias)
	}
	s := name
	if f.Period != "" {
		s += " " + f.Period
	}
	s += " AS " + f.Alias
	if len(a.Index) > 0 {
		s += " USE INDEX ON (" + strings.Join(a.Index, ", ") + ")"
	}
	return s
}

// Join is an INNER or LEFT join.
type Join struct {
	Kind string // "INNER" | "LEFT"
	From
	On Expr
}

// Target is one output column: a column, or an aggregate over a column / *.
type Target struct {
	Agg      string // "", COUNT, SUM, MIN, MAX, AVG
	C        *Col   // nil for COUNT(*)
	Distinct bool   // COUNT(DISTINCT c)
	Rev      string // alias whose _rev pseudo column is selected (history queries)
}

func (t Target) render(rc *RenderCtx) string {
	switch {
	case t.Rev != "":
		return t.Rev + "._rev"
	case t.Agg == "":
		return t.C.Render(rc)
	case t.C == nil:
		return t.Agg + "(*)"
	case t.Distinct:
		return t.Agg + "(DISTINCT " + t.C.Render(rc) + ")"
	}
	return t.Agg + "(" + t.C.Render(rc) + ")"
}

// Type of the output column.
func (t Target) Type() Type {
	switch {
	case t.Rev != "", t.Agg == "COUNT":
		return TInt
	}
	return t.C.C.Type
}

// Ord is one ORDER BY key; it refers to a target by position.
type Ord struct {
	Target int
	Desc   bool
	Nulls  string // "", "FIRST", "LAST"
	ByPos  bool   // render as the 1-based output position instead of the expression
}

// HavingCond is `AGG(...) op constant`.
type HavingCond struct {
	T  Target
	Op string
	V  Value
}

// Query is a SELECT of the dialect.
type Query struct {
	Distinct bool
	Targets  []Target
	From     From
	Joins    []Join
	Where    Expr
	GroupBy  []*Col
	Having   *HavingCond
	OrderBy  []Ord
	Limit    int // -1 = none
	Offset   int // -1 = none
	// Union, when set, is appended as UNION [ALL] <Union>; ORDER BY/LIMIT are then not generated.
	Union    *Query
	UnionAll bool
	// Shape names the generator that produced the query (for labels only).
	Shape string
}

// Refs lists the table references of the query itself (not of subqueries).
func (q *Query) Refs() []From {
	out := []From{q.From}
	for _, j := range q.Joins {
		out = append(out, j.From)
	}
	return out
}

// AllRefs also includes the references inside subqueries and union branches.
func (q *Query) AllRefs() []From {
	out := q.Refs()
	visit := func(e Expr) {
		if e == nil {
			return
		}
		e.walk(func(n Expr) {
			if s, ok := n.(*SubQ); ok {
				out = append(out, s.Q.AllRefs()...)
			}
		})
	}
	visit(q.Where)
	for _, j := range q.Joins {
		visit(j.On)
	}
	if q.Union != nil {
		out = append(out, q.Union.AllRefs()...)
	}
	return out
}

// ColumnsUsed lists, as "table.column", the columns the query itself (not its
// subqueries) reads: targets, WHERE, join conditions, GROUP BY.
func (q *Query) ColumnsUsed() map[string]bool {
	byAlias := map[string]*Table{}
	for _, r := range q.Refs() {
		byAlias[r.Alias] = r.T
	}
	out := map[string]bool{}
	add := func(c *Col) {
		if c != nil {
			if t := byAlias[c.Alias]; t != nil {
				out[t.Name+"."+c.C.Name] = true
			}
		}
	}
	for _, t := range q.Targets {
		add(t.C)
	}
	for _, g := range q.GroupBy {
		add(g)
	}
	exprs := []Expr{q.Where}
	for _, j := range q.Joins {
		exprs = append(exprs, j.On)
	}
	for _, e := range exprs {
		if e != nil {
			e.walk(func(n Expr) {
				if c, ok := n.(*Col); ok {
					add(c)
				}
			})
		}
	}
	if q.Union != nil {
		for k := range q.Union.ColumnsUsed() {
			out[k] = true
		}
	}
	return out
}

// Params collects the named parameters used anywhere in the query.
func (q *Query) Params() Params {
	p := Params{}
	var rec func(q *Query)
	rec = func(q *Query) {
		exprs := []Expr{q.Where}
		for _, j := range q.Joins {
			exprs = append(exprs, j.On)
		}
		for _, e := range exprs {
			if e == nil {
				continue
			}
			CollectParams(p, e)
			e.walk(func(n Expr) {
				if s, ok := n.(*SubQ); ok {
					rec(s.Q)
				}
			})
		}
		if q.Union != nil {
			rec(q.Union)
		}
	}
	rec(q)
	return p
}

// SQL renders the query with the default access to every table.
func (q *Query) SQL() string { return q.Render(nil) }

// Render renders the query; rc selects twin tables / forced indexes per alias.
func (q *Query) Render(rc *RenderCtx) string {
	var sb strings.Builder
	sb.WriteString("SELECT ")
	if q.Distinct {
		sb.WriteString("DISTINCT ")
	}
	for i, t := range q.Targets {
		if i > 0 {
			sb.WriteString(", ")
		}
		sb.WriteString(t.render(rc))
	}
	sb.WriteString(" FROM " + q.From.render(rc))
	for _, j := range q.Joins {
		sb.WriteString(" " + j.Kind + " JOIN " + j.From.render(rc))
		sb.WriteString(" ON " + j.On.Render(rc))
	}
	if q.Where != nil {
		sb.WriteString(" WHERE " + q.Where.Render(rc))
	}
	if len(q.GroupBy) > 0 {
		sb.WriteString(" GROUP BY ")
		for i, g := range q.GroupBy {
			if i > 0 {
				sb.WriteString(", ")
			}
			sb.WriteString(g.Render(rc))
		}
	}
	if q.Having != nil {
		sb.WriteString(" HAVING " + q.Having.T.render(rc) + " " + q.Having.Op + " " + q.Having.V.SQL())
	}
	if q.Union != nil {
		sb.WriteString(" UNION ")
		if q.UnionAll {
			sb.WriteString("ALL ")
		}
		sb.WriteString(q.Union.Render(rc))
		return sb.String()
	}
	if len(q.OrderBy) > 0 {
		sb.WriteString(" ORDER BY ")
		for i, o := range q.OrderBy {
			if i > 0 {
				sb.WriteString(", ")
			}
			if o.ByPos {
				fmt.Fprintf(&sb, "%d", o.Target+1)
			} else {
				sb.WriteString(q.Targets[o.Target].render(rc))
			}
			if o.Desc {
				sb.WriteString(" DESC")
			}
			if o.Nulls != "" {
				sb.WriteString(" NULLS " + o.Nulls)
			}
		}
	}
	if q.Limit >= 0 {
		fmt.Fprintf(&sb, " LIMIT %d", q.Limit)
	}
	if q.Offset >= 0 {
		fmt.Fprintf(&sb, " OFFSET %d", q.Offset)
	}
	return sb.String()
}

// OrdKeys are the ORDER BY keys as positions of the output.
func (q *Query) OrdKeys() []OrdKey {
	out := make([]OrdKey, len(q.OrderBy))
	for i, o := range q.OrderBy {
		out[i] = OrdKey{Pos: o.Target, Desc: o.Desc, Nulls: o.Nulls}
	}
	return out
}

// TotalOrder reports whether the ORDER BY keys determine the output order
// completely: for a grouped query they cover every GROUP BY column, for a
// DISTINCT query every target, otherwise the primary keys of every table of
// the FROM clause (history queries: plus the revision).
func (q *Query) TotalOrder() bool {
	if len(q.OrderBy) == 0 || q.Union != nil {
		return false
	}
	has := func(alias, col string) bool {
		for _, o := range q.OrderBy {
			t := q.Targets[o.Target]
			if t.Agg == "" && t.Rev == "" && t.C.Alias == alias && t.C.C.Name == col {
				return true
			}
		}
		return false
	}
	if len(q.GroupBy) > 0 {
		for _, g := range q.GroupBy {
			if !has(g.Alias, g.C.Name) {
				return false
			}
		}
		return true
	}
	if q.aggregated() {
		return true // one row
	}
	if q.Distinct {
		covered := map[int]bool{}
		for _, o := range q.OrderBy {
			covered[o.Target] = true
		}
		return len(covered) == len(q.Targets)
	}
	for _, r := range q.Refs() {
		for _, pk := range r.T.PK {
			if !has(r.Alias, pk) {
				return false
			}
		}
		if r.History {
			found := false
			for _, o := range q.OrderBy {
				if q.Targets[o.Target].Rev == r.Alias {
					found = true
				}
			}
			if !found {
				return false
			}
		}
	}
	return true
}

func (q *Query) aggregated() bool {
	for _, t := range q.Targets {
		if t.Agg != "" {
			return true
		}
	}
	return false
}

// SubQ is a subquery predicate: `E [NOT] IN (q)`, `EXISTS (q)`, or a scalar
// comparison `E op (q)`. The naive executor does not model it.
type SubQ struct {
	Kind string // "IN" | "NOT IN" | "EXISTS" | "CMP"
	Op   string // for CMP
	E    Expr
	Q    *Query
}

func (e *SubQ) Render(rc *RenderCtx) string {
	switch e.Kind {
	case "EXISTS":
		return "EXISTS (" + e.Q.Render(rc) + ")"
	case "CMP":
		return "(" + e.E.Render(rc) + " " + e.Op + " (" + e.Q.Render(rc) + "))"
	}
	return "(" + e.E.Render(rc) + " " + e.Kind + " (" + e.Q.Render(rc) + "))"
}
func (e *SubQ) walk(f func(Expr)) {
	f(e)
	if e.E != nil {
		e.E.walk(f)
	}
}
func (e *SubQ) Eval(Env) (Value, bool, error) { return Value{}, false, ErrNoEval }
