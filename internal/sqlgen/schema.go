package sqlgen

import (
	"fmt"
	"math"
	"strings"
	"time"

	"pgregory.net/rapid"
)

// Column of a generated table. Pool is the small set of values DML and query
// constants for this column are (mostly) drawn from.
type Column struct {
	Name    string
	Type    Type
	MaxLen  int // VARCHAR / BLOB only; 0 = unbounded (not indexable)
	NotNull bool
	AutoInc bool // single INTEGER primary key column only
	Pool    []Value
	// WildFloat: the pool contains values whose sums depend on the order of
	// addition; SUM/AVG are not generated over such columns.
	WildFloat bool
	// noNegZero: -0.0 is never produced for this column (SchemaOpts.NoNegZero).
	noNegZero bool
	onExclude func(string)
}

// Index is a secondary index.
type Index struct {
	Cols   []string
	Unique bool
}

func (ix Index) Name() string { return strings.Join(ix.Cols, ",") }

// Table of a generated schema.
type Table struct {
	Name    string
	Cols    []*Column
	PK      []string
	Indexes []Index
}

// Schema is what GenSchema returns.
type Schema struct {
	Tables []*Table
}

func (t *Table) Col(name string) *Column {
	for _, c := range t.Cols {
		if c.Name == name {
			return c
		}
	}
	return nil
}

func (t *Table) IsPK(name string) bool {
	for _, p := range t.PK {
		if p == name {
			return true
		}
	}
	return false
}

// Indexed reports whether name is a column of the primary key or of any secondary index.
func (t *Table) Indexed(name string) bool {
	if t.IsPK(name) {
		return true
	}
	for _, ix := range t.Indexes {
		for _, c := range ix.Cols {
			if c == name {
				return true
			}
		}
	}
	return false
}

func (c *Column) typeSQL() string {
	s := c.Type.String()
	if c.Type.VarSized() && c.MaxLen > 0 {
		s += fmt.Sprintf("[%d]", c.MaxLen)
	}
	return s
}

// CreateSQL is the CREATE TABLE statement (without secondary indexes).
func (t *Table) CreateSQL() string { return t.createSQL(t.Name) }

func (t *Table) createSQL(name string) string {
	var sb strings.Builder
	fmt.Fprintf(&sb, "CREATE TABLE %s (", name)
	for i, c := range t.Cols {
		if i > 0 {
			sb.WriteString(", ")
		}
		sb.WriteString(c.Name + " " + c.typeSQL())
		if c.NotNull && !t.IsPK(c.Name) {
			sb.WriteString(" NOT NULL")
		}
		if c.AutoInc {
			sb.WriteString(" AUTO_INCREMENT")
		}
	}
	if len(t.PK) == 1 {
		fmt.Fprintf(&sb, ", PRIMARY KEY %s)", t.PK[0])
	} else {
		fmt.Fprintf(&sb, ", PRIMARY KEY (%s))", strings.Join(t.PK, ", "))
	}
	return sb.String()
}

// CreateSQL is the CREATE INDEX statement of ix on table.
func (ix Index) CreateSQL(table string) string {
	u := ""
	if ix.Unique {
		u = "UNIQUE "
	}
	return fmt.Sprintf("CREATE %sINDEX ON %s (%s)", u, table, strings.Join(ix.Cols, ", "))
}

// TwinName is the name of the index-free copy of a table.
func TwinName(table string) string { return table + "nx" }

// Twin returns the same table (sharing the columns) under TwinName with no
// secondary indexes.
func (t *Table) Twin() *Table {
	return &Table{Name: TwinName(t.Name), Cols: t.Cols, PK: t.PK}
}

// SchemaOpts bounds GenSchema.
type SchemaOpts struct {
	MaxTables  int  // default 3
	MaxCols    int  // non-key columns per table, default 5
	MaxIndexes int  // secondary indexes per table, default 4
	AutoInc    bool // allow AUTO_INCREMENT single-column INTEGER keys
	// NoNegZero leaves -0.0 out of FLOAT pools (known finding K6).
	NoNegZero bool
	// NoEmptyVar leaves ''/x'' out of VARCHAR/BLOB pools (known finding K5).
	NoEmptyVar bool
	// OnExclude is called once per value left out because of the two options above.
	OnExclude func(what string)
}

func (o *SchemaOpts) defaults() {
	if o.MaxTables == 0 {
		o.MaxTables = 3
	}
	if o.MaxCols == 0 {
		o.MaxCols = 5
	}
	if o.MaxIndexes == 0 {
		o.MaxIndexes = 4
	}
}

// GenSchema draws a schema: 1..MaxTables tables t1..tn; each with a primary key
// of 1-2 columns of indexable types, 1..MaxCols further columns of any type
// (about 70 % nullable), and 0..MaxIndexes secondary indexes over 1-3 columns,
// some UNIQUE. Tables after the first get a column that shares type and pool
// with a column of t1, so that equi-joins have matches.
func GenSchema(rt *rapid.T, o SchemaOpts) *Schema {
	o.defaults()
	s := &Schema{}
	nt := rapid.IntRange(1, o.MaxTables).Draw(rt, "nTables")
	// column names are the same in every table (k1, c1, ...: think "id") or distinct per table
	sameNames := rapid.Bool().Draw(rt, "sameColumnNames")
	for ti := 1; ti <= nt; ti++ {
		t := &Table{Name: fmt.Sprintf("t%d", ti)}
		sfx := ""
		if !sameNames && ti > 1 {
			sfx = string(rune('a' + ti - 1))
		}
		// primary key
		npk := rapid.SampledFrom([]int{1, 1, 1, 2}).Draw(rt, "nPK")
		for k := 0; k < npk; k++ {
			typ := rapid.SampledFrom([]Type{TInt, TInt, TInt, TVarchar, TVarchar, TUUID, TTimestamp, TBlob, TFloat, TBool}).Draw(rt, "pkType")
			if typ == TBool && npk == 1 {
				typ = TInt // a one-column BOOLEAN key holds two rows at most
			}
			c := &Column{Name: fmt.Sprintf("k%d%s", k+1, sfx), Type: typ, NotNull: true}
			fillColumn(rt, c, true, o)
			t.Cols = append(t.Cols, c)
			t.PK = append(t.PK, c.Name)
		}
		if o.AutoInc && npk == 1 && t.Cols[0].Type == TInt && rapid.IntRange(0, 3).Draw(rt, "autoInc") == 0 {
			t.Cols[0].AutoInc = true
		}
		nc := rapid.IntRange(1, o.MaxCols).Draw(rt, "nCols")
		for k := 0; k < nc; k++ {
			var c *Column
			if ti > 1 && k == 0 {
				// join column: same type and pool as a column of t1
				src := s.Tables[0].Cols[rapid.IntRange(0, len(s.Tables[0].Cols)-1).Draw(rt, "joinSrc")]
				if src.Type != TJSON {
					c = &Column{Name: "c1" + sfx, Type: src.Type, MaxLen: src.MaxLen, Pool: src.Pool, WildFloat: src.WildFloat, noNegZero: src.noNegZero, onExclude: src.onExclude}
				}
			}
			if c == nil {
				typ := rapid.SampledFrom([]Type{TInt, TInt, TVarchar, TVarchar, TBool, TFloat, TFloat, TTimestamp, TBlob, TUUID, TJSON}).Draw(rt, "colType")
				c = &Column{Name: fmt.Sprintf("c%d%s", k+1, sfx), Type: typ}
				fillColumn(rt, c, false, o)
			}
			c.NotNull = rapid.IntRange(0, 9).Draw(rt, "notNull") < 3
			t.Cols = append(t.Cols, c)
		}
		// secondary indexes
		var cand []*Column
		for _, c := range t.Cols {
			if c.Type != TJSON && (!c.Type.VarSized() || c.MaxLen > 0) {
				cand = append(cand, c)
			}
		}
		ni := rapid.IntRange(0, o.MaxIndexes).Draw(rt, "nIndexes")
		seen := map[string]bool{strings.Join(t.PK, ","): true}
		for k := 0; k < ni; k++ {
			n := rapid.SampledFrom([]int{1, 1, 1, 2, 2, 3}).Draw(rt, "ixCols")
			if n > len(cand) {
				n = len(cand)
			}
			perm := rapid.Permutation(cand).Draw(rt, "ixPerm")
			var cols []string
			for _, c := range perm[:n] {
				cols = append(cols, c.Name)
			}
			ix := Index{Cols: cols, Unique: rapid.IntRange(0, 5).Draw(rt, "unique") == 0}
			if seen[ix.Name()] {
				continue
			}
			seen[ix.Name()] = true
			t.Indexes = append(t.Indexes, ix)
		}
		s.Tables = append(s.Tables, t)
	}
	return s
}

// fillColumn picks MaxLen and the value pool of a column.
func fillColumn(rt *rapid.T, c *Column, key bool, o SchemaOpts) {
	c.noNegZero, c.onExclude = o.NoNegZero, o.OnExclude
	if c.Type.VarSized() {
		c.MaxLen = rapid.SampledFrom([]int{1, 3, 4, 8, 16, 40}).Draw(rt, "maxLen")
		if !key && rapid.IntRange(0, 5).Draw(rt, "unbounded") == 0 {
			c.MaxLen = 0
		}
	}
	n := rapid.IntRange(3, 9).Draw(rt, "poolSize")
	cands := candidates(c, o)
	if key {
		n += 4
	}
	seen := map[string]bool{}
	for len(c.Pool) < n && len(seen) < len(cands) {
		v := cands[rapid.IntRange(0, len(cands)-1).Draw(rt, "poolPick")]
		if seen[v.Key()+fmt.Sprint(math.Signbit(v.F))] {
			continue
		}
		seen[v.Key()+fmt.Sprint(math.Signbit(v.F))] = true
		if c.Type == TFloat && !niceFloat(v.F) {
			c.WildFloat = true
		}
		c.Pool = append(c.Pool, v)
	}
}

// niceFloat: sums of such values are exact whatever the order.
func niceFloat(f float64) bool {
	return math.Abs(f) < 1e12 && f*4 == math.Trunc(f*4)
}

var baseTime = time.Date(2024, 2, 29, 23, 59, 59, 0, time.UTC)

// candidates lists the values a pool of column c can hold: edge values of the
// type first, then ordinary ones.
func candidates(c *Column, o SchemaOpts) []Value {
	excl := func(what string) {
		if o.OnExclude != nil {
			o.OnExclude(what)
		}
	}
	var out []Value
	switch c.Type {
	case TInt:
		for _, i := range []int64{0, 1, -1, 2, 3, 5, 7, 10, 100, -100, 255, 256, 65536, math.MaxInt32, math.MinInt32,
			math.MaxInt64, math.MinInt64, math.MaxInt64 - 1, math.MinInt64 + 1, 1 << 53, 1<<53 + 1, 42, -42, 4, 6, 8, 9} {
			out = append(out, Int(i))
		}
	case TBool:
		out = []Value{Bool(false), Bool(true)}
	case TFloat:
		for _, f := range []float64{0, 1, -1, 0.5, -0.5, 1.5, 2.25, -2.25, 3, 10, 100.75, -100.75, 1e9, -1e9, 0.25, 7, 2, -3,
			math.MaxFloat64, -math.MaxFloat64, math.SmallestNonzeroFloat64, -math.SmallestNonzeroFloat64, 0.1, -0.1, 1e-7, 123456.789, 1e300, -1e300, 9007199254740993, 3.0000000000000004} {
			out = append(out, Float(f))
		}
		if o.NoNegZero {
			excl("float -0.0")
		} else {
			out = append(out, Float(math.Copysign(0, -1)))
		}
	case TVarchar, TBlob:
		strs := []string{"a", "b", "ab", "abc", "A", "B", "aB", "a b", " ", " a", "a ", "z", "zz", "0", "1", "10", "9", "%", "_", "a%", "a_c",
			"it's", "\"q\"", "é", "ü", "日本", "\x01", "a\x00", "a\x00b", "~", "null", "NULL", "-", "--x", ";", "\\", "a\\%b"}
		if o.NoEmptyVar {
			excl("empty " + c.Type.String())
		} else {
			strs = append(strs, "")
		}
		for _, s := range strs {
			if c.MaxLen > 0 && len(s) > c.MaxLen {
				continue
			}
			out = append(out, c.strVal(s))
		}
		if c.MaxLen > 0 { // values of exactly the maximum length
			out = append(out, c.strVal(strings.Repeat("m", c.MaxLen)), c.strVal(strings.Repeat("m", c.MaxLen-1)+"n"))
			if c.Type == TBlob {
				out = append(out, Blob(bytesOf(0xff, c.MaxLen)), Blob(bytesOf(0, c.MaxLen)), Blob([]byte{0xff}), Blob([]byte{0xfe}))
			}
		}
	case TTimestamp:
		for _, d := range []time.Duration{0, time.Microsecond, -time.Microsecond, time.Second, -time.Second, time.Hour, 24 * time.Hour, -24 * time.Hour,
			365 * 24 * time.Hour, -365 * 24 * time.Hour, 1234567 * time.Microsecond} {
			out = append(out, Timestamp(baseTime.Add(d)))
		}
		// the window in which index keys (UnixNano) are representable: 1678..2262; see Assumptions of the checks
		out = append(out, Timestamp(time.Date(1970, 1, 1, 0, 0, 0, 0, time.UTC)), Timestamp(time.Date(1969, 12, 31, 23, 59, 59, 999999000, time.UTC)),
			Timestamp(time.Date(1700, 1, 1, 0, 0, 0, 0, time.UTC)), Timestamp(time.Date(2200, 12, 31, 0, 0, 0, 0, time.UTC)))
	case TUUID:
		for _, u := range []string{"00000000-0000-0000-0000-000000000000", "00000000-0000-0000-0000-000000000001", "ffffffff-ffff-ffff-ffff-ffffffffffff",
			"12345678-1234-5678-1234-567812345678", "80000000-0000-0000-0000-000000000000", "7fffffff-ffff-ffff-ffff-ffffffffffff",
			"0a0b0c0d-0e0f-1011-1213-141516171819", "a0b0c0d0-e0f0-0011-2233-445566778899", "00000000-0000-0000-0000-000000000100", "01000000-0000-0000-0000-000000000000"} {
			out = append(out, UUID(u))
		}
	case TJSON:
		for _, j := range []string{`{}`, `{"a":1}`, `{"a":"x","b":[1,2]}`, `[1,2,3]`, `"s"`, `1`, `true`, `{"n":null}`} {
			out = append(out, JSON(j))
		}
	}
	return out
}

func bytesOf(b byte, n int) []byte {
	out := make([]byte, n)
	for i := range out {
		out[i] = b
	}
	return out
}

func (c *Column) strVal(s string) Value {
	if c.Type == TBlob {
		return Blob([]byte(s))
	}
	return Varchar(s)
}

// GenValue draws a value for column c: mostly from the pool, NULL for nullable
// columns about one time in six, sometimes a fresh neighbour of a pool value.
func GenValue(rt *rapid.T, c *Column) Value {
	if !c.NotNull && rapid.IntRange(0, 5).Draw(rt, "null") == 0 {
		return Null(c.Type)
	}
	return GenNonNull(rt, c)
}

// GenNonNull draws a non-NULL value of column c's type that fits the column.
func GenNonNull(rt *rapid.T, c *Column) Value {
	v := genNonNull(rt, c)
	if c.noNegZero && v.T == TFloat && v.F == 0 && math.Signbit(v.F) {
		if c.onExclude != nil {
			c.onExclude("float -0.0")
		}
		v.F = 0
	}
	return v
}

func genNonNull(rt *rapid.T, c *Column) Value {
	v := c.Pool[rapid.IntRange(0, len(c.Pool)-1).Draw(rt, "pool")]
	if rapid.IntRange(0, 7).Draw(rt, "fresh") != 0 {
		return v
	}
	switch c.Type {
	case TInt:
		d := rapid.SampledFrom([]int64{1, -1, 2, -2, 1000, -1000}).Draw(rt, "dInt")
		if (d > 0 && v.I > math.MaxInt64-d) || (d < 0 && v.I < math.MinInt64-d) {
			return v
		}
		return Int(v.I + d)
	case TFloat:
		if !c.WildFloat {
			return Float(v.F + rapid.SampledFrom([]float64{0.25, -0.25, 1, -1, 16}).Draw(rt, "dFloat"))
		}
		if f := math.Nextafter(v.F, rapid.SampledFrom([]float64{math.Inf(1), math.Inf(-1)}).Draw(rt, "dir")); !math.IsInf(f, 0) {
			return Float(f)
		}
		return v
	case TTimestamp:
		return Timestamp(v.Ts.Add(time.Duration(rapid.SampledFrom([]int64{1, -1, 1000, -1000000, 86400000000}).Draw(rt, "dTs")) * time.Microsecond))
	case TVarchar, TBlob:
		s := v.S
		if c.Type == TBlob {
			s = string(v.Bs)
		}
		ext := s + rapid.SampledFrom([]string{"a", "\x00", "z", " "}).Draw(rt, "ext")
		if c.MaxLen == 0 || len(ext) <= c.MaxLen {
			return c.strVal(ext)
		}
		if len(s) > 1 {
			return c.strVal(s[:len(s)-1])
		}
	}
	return v
}
