package sqlgen

import (
	"fmt"
	"strings"
	"unicode"
)

// Env binds "alias.column" to the value of the current (joined) row.
type Env map[string]Value

// Expr is a node of the typed expression grammar. SQL renders it; Eval
// evaluates it the way the engine documents (two-valued logic, NULL lowest).
// hinge reports that the outcome depends on how a NULL compares — under
// three-valued SQL the predicate would be UNKNOWN — so that a reference
// oracle can treat the row as optional instead of asserting the dialect's
// choice. Eval returns ErrNoEval for node kinds it does not model (SubQ).
type Expr interface {
	// Render writes the expression as SQL; rc (may be nil) says how tables
	// referenced by nested subqueries are accessed (twin table, forced index).
	Render(rc *RenderCtx) string
	Eval(env Env) (v Value, hinge bool, err error)
	walk(func(Expr))
}

// SQL renders e with the default access to every table.
func SQL(e Expr) string { return e.Render(nil) }

// ErrNoEval is returned by Eval for expressions outside the modelled subset.
var ErrNoEval = fmt.Errorf("expression is outside the naive executor's subset")

// Col is a column reference, always qualified by the table alias.
type Col struct {
	Alias string
	C     *Column
}

func (e *Col) Render(rc *RenderCtx) string {
	if e.Alias == "" {
		return e.C.Name // DML predicates: the statement's only table
	}
	return e.Alias + "." + e.C.Name
}
func (e *Col) walk(f func(Expr)) { f(e) }
func (e *Col) Eval(env Env) (Value, bool, error) {
	v, ok := env[e.Alias+"."+e.C.Name]
	if !ok {
		return Value{}, false, fmt.Errorf("unbound column %s", e.Render(nil))
	}
	return v, false, nil
}

// Lit is a constant; with Param != "" it is passed as the named parameter @Param.
type Lit struct {
	V     Value
	Param string
}

func (e *Lit) Render(rc *RenderCtx) string {
	if e.Param != "" {
		return "@" + e.Param
	}
	return e.V.SQL()
}
func (e *Lit) walk(f func(Expr))             { f(e) }
func (e *Lit) Eval(Env) (Value, bool, error) { return e.V, false, nil }

// Const is a constant arithmetic expression over literals, e.g. (2 + 3): the
// planner folds it when it derives index ranges. V is its value.
type Const struct {
	Text string
	V    Value
}

func (e *Const) Render(rc *RenderCtx) string   { return e.Text }
func (e *Const) walk(f func(Expr))             { f(e) }
func (e *Const) Eval(Env) (Value, bool, error) { return e.V, false, nil }

// Cmp is a comparison: Op is one of = <> != < <= > >=.
type Cmp struct {
	Op   string
	L, R Expr
}

func (e *Cmp) Render(rc *RenderCtx) string {
	return "(" + e.L.Render(rc) + " " + e.Op + " " + e.R.Render(rc) + ")"
}
func (e *Cmp) walk(f func(Expr)) {
	f(e)
	e.L.walk(f)
	e.R.walk(f)
}
func (e *Cmp) Eval(env Env) (Value, bool, error) {
	l, h1, err := e.L.Eval(env)
	if err != nil {
		return Value{}, false, err
	}
	r, h2, err := e.R.Eval(env)
	if err != nil {
		return Value{}, false, err
	}
	c := Compare(l, r)
	var b bool
	switch e.Op {
	case "=":
		b = c == 0
	case "<>", "!=":
		b = c != 0
	case "<":
		b = c < 0
	case "<=":
		b = c <= 0
	case ">":
		b = c > 0
	case ">=":
		b = c >= 0
	default:
		return Value{}, false, fmt.Errorf("unknown operator %q", e.Op)
	}
	return Bool(b), h1 || h2 || l.Null || r.Null, nil
}

// IsNull is `E IS [NOT] NULL`.
type IsNull struct {
	E   Expr
	Not bool
}

func (e *IsNull) Render(rc *RenderCtx) string {
	if e.Not {
		return "(" + e.E.Render(rc) + " IS NOT NULL)"
	}
	return "(" + e.E.Render(rc) + " IS NULL)"
}
func (e *IsNull) walk(f func(Expr)) {
	f(e)
	e.E.walk(f)
}
func (e *IsNull) Eval(env Env) (Value, bool, error) {
	v, h, err := e.E.Eval(env)
	if err != nil {
		return Value{}, false, err
	}
	return Bool(v.Null != e.Not), h, nil
}

// Bin is AND / OR over boolean operands that cannot be NULL.
type Bin struct {
	Op   string // "AND" | "OR"
	L, R Expr
}

func (e *Bin) Render(rc *RenderCtx) string {
	return "(" + e.L.Render(rc) + " " + e.Op + " " + e.R.Render(rc) + ")"
}
func (e *Bin) walk(f func(Expr)) {
	f(e)
	e.L.walk(f)
	e.R.walk(f)
}
func (e *Bin) Eval(env Env) (Value, bool, error) {
	l, h1, err := e.L.Eval(env)
	if err != nil {
		return Value{}, false, err
	}
	r, h2, err := e.R.Eval(env)
	if err != nil {
		return Value{}, false, err
	}
	if l.Null || r.Null || l.T != TBool || r.T != TBool {
		return Value{}, false, fmt.Errorf("%s over non-boolean operands", e.Op)
	}
	if e.Op == "AND" {
		return Bool(l.B && r.B), h1 || h2, nil
	}
	return Bool(l.B || r.B), h1 || h2, nil
}

// Not negates a boolean operand that cannot be NULL.
type Not struct{ E Expr }

func (e *Not) Render(rc *RenderCtx) string { return "(NOT " + e.E.Render(rc) + ")" }
func (e *Not) walk(f func(Expr)) {
	f(e)
	e.E.walk(f)
}
func (e *Not) Eval(env Env) (Value, bool, error) {
	v, h, err := e.E.Eval(env)
	if err != nil {
		return Value{}, false, err
	}
	if v.Null || v.T != TBool {
		return Value{}, false, fmt.Errorf("NOT over a non-boolean operand")
	}
	return Bool(!v.B), h, nil
}

// InList is `E [NOT] IN (v1, ...)`.
type InList struct {
	E    Expr
	Vals []Expr
	Not  bool
}

func (e *InList) Render(rc *RenderCtx) string {
	parts := make([]string, len(e.Vals))
	for i, v := range e.Vals {
		parts[i] = v.Render(rc)
	}
	op := " IN ("
	if e.Not {
		op = " NOT IN ("
	}
	return "(" + e.E.Render(rc) + op + strings.Join(parts, ", ") + "))"
}
func (e *InList) walk(f func(Expr)) {
	f(e)
	e.E.walk(f)
	for _, v := range e.Vals {
		v.walk(f)
	}
}
func (e *InList) Eval(env Env) (Value, bool, error) {
	v, h, err := e.E.Eval(env)
	if err != nil {
		return Value{}, false, err
	}
	h = h || v.Null
	found := false
	for _, x := range e.Vals {
		xv, hx, err := x.Eval(env)
		if err != nil {
			return Value{}, false, err
		}
		h = h || hx || xv.Null
		if Compare(v, xv) == 0 {
			found = true
		}
	}
	return Bool(found != e.Not), h, nil
}

// Like is `E [NOT] LIKE 'pattern'` over a VARCHAR operand (% and _ wildcards
// over characters, backslash escapes). A NULL operand gives FALSE for LIKE and TRUE for NOT
// LIKE in the engine; such rows are hinge rows.
type Like struct {
	E       Expr
	Pattern string
	Not     bool
	ILike   bool
}

func (e *Like) Render(rc *RenderCtx) string {
	op := " LIKE "
	if e.ILike {
		op = " ILIKE "
	}
	if e.Not {
		op = " NOT" + op
	}
	return "(" + e.E.Render(rc) + op + quote(e.Pattern) + ")"
}
func (e *Like) walk(f func(Expr)) {
	f(e)
	e.E.walk(f)
}
func (e *Like) Eval(env Env) (Value, bool, error) {
	v, h, err := e.E.Eval(env)
	if err != nil {
		return Value{}, false, err
	}
	if v.Null {
		return Bool(e.Not), true, nil
	}
	m := likeMatch([]rune(e.Pattern), []rune(v.S), e.ILike)
	return Bool(m != e.Not), h, nil
}

// Between is `E BETWEEN Lo AND Hi`.
type Between struct{ E, Lo, Hi Expr }

func (e *Between) Render(rc *RenderCtx) string {
	return "(" + e.E.Render(rc) + " BETWEEN " + e.Lo.Render(rc) + " AND " + e.Hi.Render(rc) + ")"
}
func (e *Between) walk(f func(Expr)) {
	f(e)
	e.E.walk(f)
	e.Lo.walk(f)
	e.Hi.walk(f)
}
func (e *Between) Eval(env Env) (Value, bool, error) {
	return (&Bin{Op: "AND", L: &Cmp{Op: ">=", L: e.E, R: e.Lo}, R: &Cmp{Op: "<=", L: e.E, R: e.Hi}}).Eval(env)
}

// Arith is + - * over INTEGER operands that cannot be NULL (wrapping int64,
// as in the engine).
type Arith struct {
	Op   string
	L, R Expr
}

func (e *Arith) Render(rc *RenderCtx) string {
	return "(" + e.L.Render(rc) + " " + e.Op + " " + e.R.Render(rc) + ")"
}
func (e *Arith) walk(f func(Expr)) {
	f(e)
	e.L.walk(f)
	e.R.walk(f)
}
func (e *Arith) Eval(env Env) (Value, bool, error) {
	l, _, err := e.L.Eval(env)
	if err != nil {
		return Value{}, false, err
	}
	r, _, err := e.R.Eval(env)
	if err != nil {
		return Value{}, false, err
	}
	if l.Null || r.Null || l.T != TInt || r.T != TInt {
		return Value{}, false, fmt.Errorf("arithmetic over NULL or non-integer operands")
	}
	switch e.Op {
	case "+":
		return Int(l.I + r.I), false, nil
	case "-":
		return Int(l.I - r.I), false, nil
	case "*":
		return Int(l.I * r.I), false, nil
	}
	return Value{}, false, fmt.Errorf("unknown arithmetic operator %q", e.Op)
}

// likeMatch is SQL LIKE over characters (not bytes): % matches any sequence of
// characters, _ exactly one character (newlines included), a backslash makes
// the next pattern character literal; fold compares case-insensitively (ILIKE).
func likeMatch(p, s []rune, fold bool) bool {
	type tok struct {
		r    rune
		kind byte // 'c' literal, '_' one character, '%' any sequence
	}
	var toks []tok
	for i := 0; i < len(p); i++ {
		switch {
		case p[i] == '\\' && i+1 < len(p):
			i++
			toks = append(toks, tok{p[i], 'c'})
		case p[i] == '%':
			toks = append(toks, tok{0, '%'})
		case p[i] == '_':
			toks = append(toks, tok{0, '_'})
		default:
			toks = append(toks, tok{p[i], 'c'})
		}
	}
	eq := func(a, b rune) bool {
		if a == b {
			return true
		}
		if !fold {
			return false
		}
		for r := unicode.SimpleFold(a); r != a; r = unicode.SimpleFold(r) {
			if r == b {
				return true
			}
		}
		return false
	}
	// reach[j]: the first j characters of s can be consumed by the tokens seen so far
	reach := make([]bool, len(s)+1)
	reach[0] = true
	for _, t := range toks {
		next := make([]bool, len(s)+1)
		switch t.kind {
		case '%':
			on := false
			for j := 0; j <= len(s); j++ {
				on = on || reach[j]
				next[j] = on
			}
		default:
			for j := 0; j < len(s); j++ {
				if reach[j] && (t.kind == '_' || eq(t.r, s[j])) {
					next[j+1] = true
				}
			}
		}
		reach = next
	}
	return reach[len(s)]
}

// CollectParams gathers the named parameters of the expressions.
func CollectParams(p Params, exprs ...Expr) Params {
	if p == nil {
		p = Params{}
	}
	for _, e := range exprs {
		if e == nil {
			continue
		}
		e.walk(func(n Expr) {
			if l, ok := n.(*Lit); ok && l.Param != "" {
				if pv, ok := l.V.Param(); ok {
					p[l.Param] = pv
				}
			}
		})
	}
	return p
}

// Has reports whether any node of e satisfies pred.
func Has(e Expr, pred func(Expr) bool) bool {
	if e == nil {
		return false
	}
	found := false
	e.walk(func(n Expr) {
		if pred(n) {
			found = true
		}
	})
	return found
}
