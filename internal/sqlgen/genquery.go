package sqlgen

import (
	"fmt"
	"math"

	"pgregory.net/rapid"
)

// QueryOpts steers GenQuery / GenPred.
type QueryOpts struct {
	NoParams   bool // literals only
	NoSubquery bool
	NoJoin     bool
	NoHistory  bool
	NoUnion    bool
	// LastTx is the id of the last committed transaction (period queries use
	// TX instants in 1..LastTx); 0 disables period queries.
	LastTx uint64
	// Exclusions for known findings; OnExclude(what) is called each time the
	// generator leaves out (or rewrites) one construct because of them.
	NoNullsOrder bool // ORDER BY ... NULLS FIRST/LAST
	// NoMixedJoin: no equi-join between an INTEGER and a FLOAT column.
	NoMixedJoin bool
	// NoMixedInJoin: no INTEGER-column-vs-FLOAT-constant comparison (or vice
	// versa) inside join conditions, WHERE clauses of joins and subqueries.
	NoMixedInJoin bool
	// NoNonEquiJoin: no join condition with a non-equality comparison between the two tables.
	NoNonEquiJoin bool
	// NoBigMixedCompare: no INTEGER-vs-FLOAT comparison with a magnitude of 2^52 or more.
	NoBigMixedCompare bool
	// NoCountStarSubquery: a bare SELECT COUNT(*) FROM t WHERE ... has no subquery in its WHERE.
	NoCountStarSubquery bool
	// NoLenMismatch: columns of different tables are compared only when their
	// maximum lengths agree (VARCHAR/BLOB).
	NoLenMismatch     bool
	NoOrderByPosition bool // ORDER BY <n>
	// NoNullsOrderGrouped: no NULLS FIRST/LAST in the ORDER BY of a GROUP BY query.
	NoNullsOrderGrouped bool
	// NoDistinctTopN: DISTINCT + ORDER BY + LIMIT gets an OFFSET 0, which keeps
	// the engine from using its top-N heap.
	NoDistinctTopN bool
	// NoJoinedOrderClash: no ORDER BY key on a joined table's column that has
	// the name of a column of the FROM table.
	NoJoinedOrderClash bool
	NoNotInReduce      bool // NOT IN (list) where the engine rewrites the condition per outer row
	OnExclude          func(what string)
}

func (o *QueryOpts) excluded(what string) {
	if o.OnExclude != nil {
		o.OnExclude(what)
	}
}

// Gen carries the state of one query generation (parameter numbering, aliases).
type Gen struct {
	rt     *rapid.T
	o      QueryOpts
	nparam int
	nalias int
	// reduced is true while generating expressions the engine evaluates
	// through per-outer-row rewriting (join conditions, WHERE of joins and
	// of subqueries).
	reduced bool
	// nullExt lists the aliases of LEFT-joined tables: their NOT NULL columns
	// can be NULL in the joined row.
	nullExt map[string]bool
	// skipCol, when set, keeps columns out of generated predicates.
	skipCol func(*Column) bool
}

// notNull reports whether the column reference can never evaluate to NULL.
func (g *Gen) notNull(c *Col) bool { return c.C.NotNull && !g.nullExt[c.Alias] }

func NewGen(rt *rapid.T, o QueryOpts) *Gen { return &Gen{rt: rt, o: o} }

func (g *Gen) alias() string {
	g.nalias++
	return string(rune('a'+(g.nalias-1)%26)) + fmt.Sprint((g.nalias-1)/26+1)
}

func (g *Gen) lit(v Value) Expr {
	if !g.o.NoParams && rapid.IntRange(0, 7).Draw(g.rt, "asParam") == 0 {
		if _, ok := v.Param(); ok && !v.Null {
			g.nparam++
			return &Lit{V: v, Param: fmt.Sprintf("p%d", g.nparam)}
		}
	}
	return &Lit{V: v}
}

var cmpOps = []string{"=", "=", "<>", "!=", "<", "<=", ">", ">="}

// weightedCol picks a column of the references, indexed columns three times
// as often; pred filters candidates.
func (g *Gen) weightedCol(refs []From, pred func(*Column) bool) *Col {
	var cands []*Col
	for _, r := range refs {
		for _, c := range r.T.Cols {
			if (pred != nil && !pred(c)) || (g.skipCol != nil && g.skipCol(c)) {
				continue
			}
			n := 1
			if r.T.Indexed(c.Name) {
				n = 3
			}
			for i := 0; i < n; i++ {
				cands = append(cands, &Col{Alias: r.Alias, C: c})
			}
		}
	}
	if len(cands) == 0 {
		return nil
	}
	return cands[rapid.IntRange(0, len(cands)-1).Draw(g.rt, "col")]
}

func notJSON(c *Column) bool { return c.Type != TJSON }

// GenPred draws a boolean expression over the columns of refs whose
// evaluation cannot fail for any row: every comparison is between values of
// one type (INTEGER/FLOAT may mix only when the column is NOT NULL), NOT/AND/OR
// are applied to comparisons only, arithmetic to NOT NULL INTEGER columns.
func (g *Gen) GenPred(refs []From, depth int) Expr {
	if depth > 0 {
		switch rapid.IntRange(0, 9).Draw(g.rt, "predShape") {
		case 0, 1, 2:
			return &Bin{Op: "AND", L: g.GenPred(refs, depth-1), R: g.GenPred(refs, depth-1)}
		case 3, 4:
			return &Bin{Op: "OR", L: g.GenPred(refs, depth-1), R: g.GenPred(refs, depth-1)}
		case 5:
			return &Not{E: g.GenPred(refs, depth-1)}
		case 6:
			if e := g.indexShaped(refs); e != nil {
				return e
			}
		}
	}
	return g.leaf(refs)
}

// indexShaped: equality on a prefix of an index (or of the primary key) and a
// comparison on the next column — the shape range derivation is made for.
func (g *Gen) indexShaped(refs []From) Expr {
	r := refs[rapid.IntRange(0, len(refs)-1).Draw(g.rt, "ixRef")]
	keys := [][]string{r.T.PK}
	for _, ix := range r.T.Indexes {
		keys = append(keys, ix.Cols)
	}
	cols := keys[rapid.IntRange(0, len(keys)-1).Draw(g.rt, "ixPick")]
	n := rapid.IntRange(1, len(cols)).Draw(g.rt, "ixPrefix")
	if g.skipCol != nil {
		for _, name := range cols[:n] {
			if g.skipCol(r.T.Col(name)) {
				return nil
			}
		}
	}
	var out Expr
	for i := 0; i < n; i++ {
		c := r.T.Col(cols[i])
		op := "="
		if i == n-1 {
			op = rapid.SampledFrom(cmpOps).Draw(g.rt, "ixOp")
		}
		var e Expr = &Cmp{Op: op, L: &Col{Alias: r.Alias, C: c}, R: g.lit(GenNonNull(g.rt, c))}
		if !c.NotNull && rapid.IntRange(0, 9).Draw(g.rt, "ixNull") == 0 {
			e = &IsNull{E: &Col{Alias: r.Alias, C: c}}
		}
		if out == nil {
			out = e
		} else {
			out = &Bin{Op: "AND", L: out, R: e}
		}
	}
	return out
}

func (g *Gen) leaf(refs []From) Expr {
	col := g.weightedCol(refs, notJSON)
	if col == nil {
		// tables always have a non-JSON key column; unreachable
		return &Cmp{Op: "=", L: &Lit{V: Int(1)}, R: &Lit{V: Int(1)}}
	}
	c := col.C
	kind := rapid.IntRange(0, 19).Draw(g.rt, "leafKind")
	switch {
	case kind <= 7: // column vs constant
		op := rapid.SampledFrom(cmpOps).Draw(g.rt, "op")
		var e Expr = &Cmp{Op: op, L: col, R: g.lit(GenNonNull(g.rt, c))}
		if rapid.IntRange(0, 5).Draw(g.rt, "flip") == 0 {
			e = &Cmp{Op: flipOp(op), L: e.(*Cmp).R, R: col}
		}
		return e
	case kind == 8: // IS [NOT] NULL
		return &IsNull{E: col, Not: rapid.Bool().Draw(g.rt, "isNot")}
	case kind == 9 || kind == 10: // IN list
		n := rapid.IntRange(1, 4).Draw(g.rt, "inN")
		vals := make([]Expr, n)
		for i := range vals {
			vals[i] = g.lit(GenNonNull(g.rt, c))
		}
		if !g.notNull(col) && rapid.IntRange(0, 9).Draw(g.rt, "inNull") == 0 {
			vals = append(vals, &Lit{V: Null(c.Type)})
		}
		e := &InList{E: col, Vals: vals, Not: rapid.IntRange(0, 3).Draw(g.rt, "notIn") == 0}
		if e.Not && g.reduced && g.o.NoNotInReduce {
			g.o.excluded("NOT IN in a per-row reduced condition")
			e.Not = false
			return &Not{E: e}
		}
		return e
	case kind == 11: // BETWEEN
		lo, hi := GenNonNull(g.rt, c), GenNonNull(g.rt, c)
		if Compare(lo, hi) > 0 && rapid.IntRange(0, 4).Draw(g.rt, "emptyBetween") != 0 {
			lo, hi = hi, lo
		}
		return &Between{E: col, Lo: g.lit(lo), Hi: g.lit(hi)}
	case kind == 12 && c.Type == TVarchar: // LIKE
		rs := []rune(GenNonNull(g.rt, c).S) // patterns are cut on character boundaries
		var pat string
		switch rapid.IntRange(0, 5).Draw(g.rt, "likeKind") {
		case 0:
			pat = likeEscape(string(rs))
		case 1:
			pat = likeEscape(string(rs[:len(rs)/2])) + "%"
		case 2:
			pat = "%" + likeEscape(string(rs[len(rs)/2:]))
		case 3:
			pat = "_%"
		case 4:
			pat = "%"
		default:
			if len(rs) > 0 {
				pat = "_" + likeEscape(string(rs[1:]))
			} else {
				pat = "_"
			}
		}
		return &Like{E: col, Pattern: pat, Not: rapid.IntRange(0, 3).Draw(g.rt, "notLike") == 0, ILike: rapid.IntRange(0, 5).Draw(g.rt, "ilike") == 0}
	case kind == 13: // column vs column of the same type
		c2 := g.weightedCol(refs, func(o *Column) bool { return o.Type == c.Type && o != c })
		if c2 != nil && g.o.NoLenMismatch && c2.Alias != col.Alias && c.Type.VarSized() && c2.C.MaxLen != c.MaxLen {
			g.o.excluded("length mismatch between compared columns of two tables")
			c2 = nil
		}
		if c2 != nil {
			return &Cmp{Op: rapid.SampledFrom(cmpOps).Draw(g.rt, "op2"), L: col, R: c2}
		}
	case kind == 14 && c.Type.Numeric() && g.notNull(col): // INTEGER column vs FLOAT constant and vice versa
		if g.reduced && g.o.NoMixedInJoin {
			g.o.excluded("INTEGER/FLOAT constant comparison in a join or subquery")
			break
		}
		v := GenNonNull(g.rt, c)
		if g.o.NoBigMixedCompare && ((c.Type == TInt && (v.I >= 1<<52 || v.I <= -(1<<52))) || (c.Type == TFloat && math.Abs(v.F) >= 1<<52)) {
			g.o.excluded("INTEGER/FLOAT comparison beyond 2^52")
			break
		}
		var k Value
		if c.Type == TInt {
			f := float64(v.I)
			if math.Abs(f) < 1e15 {
				f += rapid.SampledFrom([]float64{0, 0.5, -0.5, 0.25}).Draw(g.rt, "frac")
			}
			k = Float(f)
		} else {
			if math.Abs(v.F) > 1e15 {
				break
			}
			k = Int(int64(v.F))
		}
		return &Cmp{Op: rapid.SampledFrom(cmpOps).Draw(g.rt, "opMixed"), L: col, R: &Lit{V: k}}
	case kind == 15 && c.Type == TInt && g.notNull(col): // arithmetic over a NOT NULL integer column
		d := rapid.SampledFrom([]int64{1, 2, -1, 10}).Draw(g.rt, "arithK")
		op := rapid.SampledFrom([]string{"+", "-", "*"}).Draw(g.rt, "arithOp")
		return &Cmp{Op: rapid.SampledFrom(cmpOps).Draw(g.rt, "op3"), L: &Arith{Op: op, L: col, R: &Lit{V: Int(d)}}, R: g.lit(GenNonNull(g.rt, c))}
	case kind == 16 && c.Type == TInt: // constant-folded bound
		v := GenNonNull(g.rt, c)
		d := rapid.SampledFrom([]int64{1, 2, 3, 100}).Draw(g.rt, "foldK")
		if v.I > math.MinInt64+1000 && v.I < math.MaxInt64-1000 {
			return &Cmp{Op: rapid.SampledFrom(cmpOps).Draw(g.rt, "op4"), L: col,
				R: &Const{Text: fmt.Sprintf("(%d + %d)", v.I-d, d), V: v}}
		}
	case kind == 17 && c.Type == TBool: // boolean column
		if g.notNull(col) && rapid.Bool().Draw(g.rt, "bare") {
			return col // a NOT NULL boolean column is a predicate by itself
		}
		return &Cmp{Op: rapid.SampledFrom([]string{"=", "<>"}).Draw(g.rt, "opB"), L: col, R: &Lit{V: Bool(rapid.Bool().Draw(g.rt, "bv"))}}
	}
	return &Cmp{Op: rapid.SampledFrom(cmpOps).Draw(g.rt, "opD"), L: col, R: g.lit(GenNonNull(g.rt, c))}
}

func flipOp(op string) string {
	switch op {
	case "<":
		return ">"
	case "<=":
		return ">="
	case ">":
		return "<"
	case ">=":
		return "<="
	}
	return op
}

func likeEscape(s string) string {
	out := make([]byte, 0, len(s)+2)
	for i := 0; i < len(s); i++ {
		if s[i] == '%' || s[i] == '_' || s[i] == '\\' {
			out = append(out, '\\')
		}
		out = append(out, s[i])
	}
	return string(out)
}

// GenQuery draws one SELECT over the schema.
func (g *Gen) GenQuery(s *Schema) *Query {
	shape := rapid.IntRange(0, 22).Draw(g.rt, "queryShape")
	t := s.Tables[rapid.IntRange(0, len(s.Tables)-1).Draw(g.rt, "table")]
	switch {
	case shape <= 6:
		return g.simple(s, t)
	case shape <= 8:
		return g.globalAgg(s, t)
	case shape <= 11:
		return g.grouped(s, t)
	case shape <= 15 && !g.o.NoJoin && len(s.Tables) > 1:
		return g.joined(s, t)
	case shape == 16 && !g.o.NoHistory:
		return g.history(t)
	case shape == 17 && !g.o.NoHistory && g.o.LastTx > 1:
		return g.period(t)
	case shape == 18 && !g.o.NoUnion:
		return g.union(s, t)
	case shape >= 19 && shape <= 21:
		if q := g.eqPrefix(s, t); q != nil {
			return q
		}
	}
	return g.simple(s, t)
}

// eqPrefix draws the shape in which the planner takes a composite secondary
// index for its equality-fixed leading column(s) although the query asks for
// an order (or a grouping) on OTHER columns: WHERE fixes a proper prefix of a
// composite index by equality; ORDER BY is the primary key, or columns outside
// the index, one direction or mixed, with or without LIMIT/OFFSET; or the
// query groups by a prefix of the primary key. The scan then yields the rows in
// (remaining index columns, primary key) order, which is neither.
func (g *Gen) eqPrefix(s *Schema, t *Table) *Query {
	composite := func(t *Table) []Index {
		var out []Index
		for _, ix := range t.Indexes {
			if len(ix.Cols) > 1 {
				out = append(out, ix)
			}
		}
		return out
	}
	if len(composite(t)) == 0 {
		for _, o := range s.Tables {
			if len(composite(o)) > 0 {
				t = o
				break
			}
		}
	}
	ixs := composite(t)
	if len(ixs) == 0 {
		return nil
	}
	ix := ixs[rapid.IntRange(0, len(ixs)-1).Draw(g.rt, "eqIx")]
	r := From{T: t, Alias: g.alias()}
	q := &Query{From: r, Limit: -1, Offset: -1, Shape: "eq-prefix"}
	k := rapid.IntRange(1, len(ix.Cols)-1).Draw(g.rt, "eqPrefixLen")
	for i := 0; i < k; i++ {
		c := t.Col(ix.Cols[i])
		var e Expr = &Cmp{Op: "=", L: &Col{Alias: r.Alias, C: c}, R: g.lit(GenNonNull(g.rt, c))}
		if !c.NotNull && rapid.IntRange(0, 5).Draw(g.rt, "eqNull") == 0 {
			e = &IsNull{E: &Col{Alias: r.Alias, C: c}} // `c IS NULL` is an equality for the planner too
		}
		if q.Where == nil {
			q.Where = e
		} else {
			q.Where = &Bin{Op: "AND", L: q.Where, R: e}
		}
	}
	if rapid.IntRange(0, 3).Draw(g.rt, "eqExtra") == 0 {
		q.Where = &Bin{Op: "AND", L: q.Where, R: g.leaf([]From{r})}
	}
	inIndex := func(name string) bool {
		for _, c := range ix.Cols {
			if c == name {
				return true
			}
		}
		return false
	}
	if rapid.IntRange(0, 3).Draw(g.rt, "eqGroup") == 0 {
		// GROUP BY a prefix of the primary key: grouping by streaming needs the key order
		n := rapid.IntRange(1, len(t.PK)).Draw(g.rt, "eqGroupLen")
		for _, pk := range t.PK[:n] {
			c := &Col{Alias: r.Alias, C: t.Col(pk)}
			q.GroupBy = append(q.GroupBy, c)
			q.Targets = append(q.Targets, Target{C: c})
		}
		q.Targets = append(q.Targets, Target{Agg: "COUNT"})
		if rapid.Bool().Draw(g.rt, "eqGroupOrd") {
			desc := rapid.Bool().Draw(g.rt, "eqGroupDesc")
			for i := range q.GroupBy {
				q.OrderBy = append(q.OrderBy, Ord{Target: i, Desc: desc})
			}
		}
		return q
	}
	q.Targets = g.colTargets(r, true)
	desc := rapid.Bool().Draw(g.rt, "eqDesc")
	switch rapid.IntRange(0, 3).Draw(g.rt, "eqOrd") {
	case 0, 1: // the primary key, one direction
		for _, pk := range t.PK {
			q.OrderBy = append(q.OrderBy, Ord{Target: q.ensureTarget(r.Alias, t.Col(pk)), Desc: desc})
		}
	case 2: // a prefix of the primary key, or the key in mixed directions
		n := rapid.IntRange(1, len(t.PK)).Draw(g.rt, "eqPKLen")
		for _, pk := range t.PK[:n] {
			q.OrderBy = append(q.OrderBy, Ord{Target: q.ensureTarget(r.Alias, t.Col(pk)), Desc: rapid.Bool().Draw(g.rt, "eqMixed")})
		}
	default: // a column outside the index, then the key
		c := g.weightedCol([]From{r}, func(c *Column) bool { return c.Type != TJSON && !inIndex(c.Name) })
		if c != nil {
			q.OrderBy = append(q.OrderBy, Ord{Target: q.ensureTarget(r.Alias, c.C), Desc: desc})
		}
		g.totalize(q)
	}
	g.limits(q)
	return q
}

func (g *Gen) maybeWhere(s *Schema, refs []From, p int) Expr {
	if rapid.IntRange(0, 9).Draw(g.rt, "hasWhere") >= p {
		return nil
	}
	w := g.GenPred(refs, rapid.IntRange(0, 3).Draw(g.rt, "depth"))
	if !g.o.NoSubquery && s != nil && rapid.IntRange(0, 7).Draw(g.rt, "subq") == 0 {
		if sq := g.subquery(s, refs); sq != nil {
			w = &Bin{Op: rapid.SampledFrom([]string{"AND", "AND", "OR"}).Draw(g.rt, "subqOp"), L: w, R: sq}
		}
	}
	return w
}

// colTargets picks output columns: all of them or a subset, always including
// the primary key when withPK is set.
func (g *Gen) colTargets(r From, withPK bool) []Target {
	var out []Target
	all := rapid.IntRange(0, 2).Draw(g.rt, "allCols") == 0
	for _, c := range r.T.Cols {
		if all || (withPK && r.T.IsPK(c.Name)) || rapid.Bool().Draw(g.rt, "pickCol") {
			out = append(out, Target{C: &Col{Alias: r.Alias, C: c}})
		}
	}
	if len(out) == 0 {
		out = append(out, Target{C: &Col{Alias: r.Alias, C: r.T.Cols[0]}})
	}
	return out
}

// orderBy draws ORDER BY keys over the targets (columns and aggregates of
// non-JSON type). One direction for all keys most of the time: that is when
// an index can serve the order.
func (g *Gen) orderBy(q *Query, max int) {
	var cand []int
	for i, t := range q.Targets {
		if t.Type() == TJSON {
			continue
		}
		if g.o.NoJoinedOrderClash && t.C != nil && t.C.Alias != q.From.Alias && q.From.T.Col(t.C.C.Name) != nil {
			g.o.excluded("ORDER BY joined column with a clashing name")
			continue
		}
		cand = append(cand, i)
	}
	if len(cand) == 0 {
		return
	}
	n := rapid.IntRange(1, max).Draw(g.rt, "nOrd")
	if n > len(cand) {
		n = len(cand)
	}
	perm := rapid.Permutation(cand).Draw(g.rt, "ordPerm")
	// bias: lead with indexed columns in index order now and then
	desc := rapid.Bool().Draw(g.rt, "desc")
	mixed := rapid.IntRange(0, 4).Draw(g.rt, "mixedDir") == 0
	for _, ti := range perm[:n] {
		o := Ord{Target: ti, Desc: desc}
		if mixed {
			o.Desc = rapid.Bool().Draw(g.rt, "desc2")
		}
		if rapid.IntRange(0, 7).Draw(g.rt, "nullsOrd") == 0 {
			if g.o.NoNullsOrder {
				g.o.excluded("ORDER BY ... NULLS FIRST/LAST")
			} else if g.o.NoNullsOrderGrouped && len(q.GroupBy) > 0 {
				g.o.excluded("NULLS FIRST/LAST with GROUP BY")
			} else {
				o.Nulls = rapid.SampledFrom([]string{"FIRST", "LAST"}).Draw(g.rt, "nulls")
			}
		}
		if rapid.IntRange(0, 11).Draw(g.rt, "byPos") == 0 {
			if g.o.NoOrderByPosition {
				g.o.excluded("ORDER BY <position>")
			} else {
				o.ByPos = true
			}
		}
		q.OrderBy = append(q.OrderBy, o)
	}
}

// indexOrder makes the ORDER BY follow the columns of the primary key or of a
// secondary index (a prefix, one direction) so that the planner can serve it
// from that index; the columns are added to the targets when missing.
func (g *Gen) indexOrder(q *Query, r From, full bool) {
	keys := [][]string{r.T.PK}
	for _, ix := range r.T.Indexes {
		keys = append(keys, ix.Cols)
	}
	cols := keys[rapid.IntRange(0, len(keys)-1).Draw(g.rt, "ordIx")]
	n := len(cols)
	if !full {
		n = rapid.IntRange(1, len(cols)).Draw(g.rt, "ordIxPrefix")
	}
	desc := rapid.Bool().Draw(g.rt, "ordIxDesc")
	q.OrderBy = nil
	for _, name := range cols[:n] {
		q.OrderBy = append(q.OrderBy, Ord{Target: q.ensureTarget(r.Alias, r.T.Col(name)), Desc: desc})
	}
}

func (q *Query) ensureTarget(alias string, c *Column) int {
	for i, t := range q.Targets {
		if t.Agg == "" && t.Rev == "" && t.C.Alias == alias && t.C.C == c {
			return i
		}
	}
	q.Targets = append(q.Targets, Target{C: &Col{Alias: alias, C: c}})
	return len(q.Targets) - 1
}

// totalize appends the missing primary key columns to ORDER BY.
func (g *Gen) totalize(q *Query) {
	dir := false
	if len(q.OrderBy) > 0 {
		dir = q.OrderBy[len(q.OrderBy)-1].Desc
	}
	for _, r := range q.Refs() {
		for _, pk := range r.T.PK {
			if g.o.NoJoinedOrderClash && r.Alias != q.From.Alias && q.From.T.Col(pk) != nil {
				g.o.excluded("ORDER BY joined column with a clashing name")
				continue
			}
			ti := q.ensureTarget(r.Alias, r.T.Col(pk))
			found := false
			for _, o := range q.OrderBy {
				if o.Target == ti {
					found = true
				}
			}
			if !found {
				q.OrderBy = append(q.OrderBy, Ord{Target: ti, Desc: dir})
			}
		}
	}
}

func (g *Gen) limits(q *Query) {
	q.Limit, q.Offset = -1, -1
	if rapid.IntRange(0, 2).Draw(g.rt, "hasLimit") == 0 {
		q.Limit = rapid.SampledFrom([]int{1, 2, 3, 5, 10, 1000, 1001}).Draw(g.rt, "limit")
	}
	if rapid.IntRange(0, 4).Draw(g.rt, "hasOffset") == 0 {
		q.Offset = rapid.SampledFrom([]int{0, 1, 2, 5, 50}).Draw(g.rt, "offset")
	}
	if g.o.NoDistinctTopN && q.Distinct && len(q.OrderBy) > 0 && q.Limit >= 0 && q.Offset < 0 {
		g.o.excluded("DISTINCT with ORDER BY and LIMIT without OFFSET")
		q.Offset = 0
	}
}

func (g *Gen) simple(s *Schema, t *Table) *Query {
	r := From{T: t, Alias: g.alias()}
	q := &Query{From: r, Limit: -1, Offset: -1}
	q.Distinct = rapid.IntRange(0, 5).Draw(g.rt, "distinct") == 0
	q.Targets = g.colTargets(r, !q.Distinct)
	q.Where = g.maybeWhere(s, []From{r}, 8)
	switch rapid.IntRange(0, 5).Draw(g.rt, "ordKind") {
	case 0:
	case 1, 2:
		g.orderBy(q, 3)
	case 3, 4:
		if !q.Distinct {
			g.indexOrder(q, r, false)
		} else {
			g.orderBy(q, 2)
		}
	case 5:
		if !q.Distinct {
			g.indexOrder(q, r, true)
		}
	}
	if len(q.OrderBy) > 0 && !q.Distinct && rapid.IntRange(0, 2).Draw(g.rt, "totalize") == 0 {
		g.totalize(q)
	}
	g.limits(q)
	return q
}

func (g *Gen) aggTargets(r From, max int) []Target {
	out := []Target{}
	n := rapid.IntRange(1, max).Draw(g.rt, "nAgg")
	for i := 0; i < n; i++ {
		fn := rapid.SampledFrom([]string{"COUNT*", "COUNT*", "COUNT", "MIN", "MAX", "SUM", "AVG", "COUNTD"}).Draw(g.rt, "aggFn")
		switch fn {
		case "COUNT*":
			out = append(out, Target{Agg: "COUNT"})
		case "COUNT", "COUNTD":
			c := g.weightedCol([]From{r}, notJSON)
			out = append(out, Target{Agg: "COUNT", C: c, Distinct: fn == "COUNTD"})
		case "MIN", "MAX":
			c := g.weightedCol([]From{r}, notJSON)
			out = append(out, Target{Agg: fn, C: c})
		default:
			c := g.weightedCol([]From{r}, func(c *Column) bool { return c.Type == TInt || (c.Type == TFloat && !c.WildFloat) })
			if c == nil {
				out = append(out, Target{Agg: "COUNT"})
			} else {
				out = append(out, Target{Agg: fn, C: c})
			}
		}
	}
	// the engine keeps one output column per aggregate selector, and COUNT(c) and
	// COUNT(DISTINCT c) share a selector
	seen := map[string]bool{}
	uniq := out[:0]
	for _, t := range out {
		k := Target{Agg: t.Agg, C: t.C}.render(nil)
		if !seen[k] {
			seen[k] = true
			uniq = append(uniq, t)
		}
	}
	return uniq
}

func (g *Gen) globalAgg(s *Schema, t *Table) *Query {
	r := From{T: t, Alias: g.alias()}
	q := &Query{From: r, Limit: -1, Offset: -1}
	if rapid.IntRange(0, 2).Draw(g.rt, "countStar") == 0 {
		// the COUNT(*) fast paths (index-only count with a key filter)
		q.Targets = []Target{{Agg: "COUNT"}}
		if rapid.IntRange(0, 4).Draw(g.rt, "csWhere") != 0 {
			if e := g.indexShaped([]From{r}); e != nil && rapid.Bool().Draw(g.rt, "csShaped") {
				q.Where = e
			} else {
				q.Where = g.GenPred([]From{r}, rapid.IntRange(0, 2).Draw(g.rt, "csDepth"))
			}
		}
		return q
	}
	q.Targets = g.aggTargets(r, 3)
	q.Where = g.maybeWhere(s, []From{r}, 7)
	if g.o.NoCountStarSubquery && len(q.Targets) == 1 && q.Targets[0].Agg == "COUNT" && q.Targets[0].C == nil &&
		Has(q.Where, func(n Expr) bool { _, ok := n.(*SubQ); return ok }) {
		g.o.excluded("COUNT(*) with a subquery in WHERE")
		q.Where = g.GenPred([]From{r}, 1)
	}
	return q
}

func (g *Gen) grouped(s *Schema, t *Table) *Query {
	r := From{T: t, Alias: g.alias()}
	q := &Query{From: r, Limit: -1, Offset: -1}
	ng := rapid.SampledFrom([]int{1, 1, 1, 2}).Draw(g.rt, "nGroup")
	seen := map[*Column]bool{}
	for i := 0; i < ng; i++ {
		c := g.weightedCol([]From{r}, notJSON)
		if seen[c.C] {
			continue
		}
		seen[c.C] = true
		q.GroupBy = append(q.GroupBy, c)
		q.Targets = append(q.Targets, Target{C: c})
	}
	q.Targets = append(q.Targets, g.aggTargets(r, 3)...)
	q.Where = g.maybeWhere(s, []From{r}, 6)
	if rapid.IntRange(0, 3).Draw(g.rt, "having") == 0 {
		for _, t := range q.Targets {
			if t.Agg == "COUNT" {
				q.Having = &HavingCond{T: t, Op: rapid.SampledFrom([]string{">", ">=", "=", "<", "<>"}).Draw(g.rt, "havOp"), V: Int(int64(rapid.IntRange(0, 3).Draw(g.rt, "havN")))}
				break
			}
		}
	}
	switch rapid.IntRange(0, 3).Draw(g.rt, "gOrd") {
	case 1: // by the group columns, one direction: mergeable with the grouping order
		desc := rapid.Bool().Draw(g.rt, "gDesc")
		for i := range q.GroupBy {
			q.OrderBy = append(q.OrderBy, Ord{Target: i, Desc: desc})
		}
	case 2:
		g.orderBy(q, 2)
	}
	if len(q.OrderBy) > 0 {
		g.limits(q)
	}
	return q
}

// joinCols finds pairs of same-typed columns of a and b; columns sharing a
// pool (the generated join column) come first.
func (g *Gen) joinCols(a, b *Table) (shared, typed [][2]*Column) {
	for _, ca := range a.Cols {
		for _, cb := range b.Cols {
			if ca.Type != cb.Type && ca.Type.Numeric() && cb.Type.Numeric() && ca.NotNull && cb.NotNull && smallInts(ca) && smallInts(cb) {
				// INTEGER = FLOAT over NOT NULL columns (a NULL of one type cannot be compared with the other)
				if g.o.NoMixedJoin {
					g.o.excluded("INTEGER = FLOAT equi-join")
				} else {
					typed = append(typed, [2]*Column{ca, cb})
				}
				continue
			}
			if ca.Type != cb.Type || ca.Type == TJSON {
				continue
			}
			if g.o.NoLenMismatch && ca.Type.VarSized() && ca.MaxLen != cb.MaxLen {
				g.o.excluded("length mismatch between compared columns of two tables")
				continue
			}
			if len(ca.Pool) > 0 && len(cb.Pool) > 0 && &ca.Pool[0] == &cb.Pool[0] {
				shared = append(shared, [2]*Column{ca, cb})
			} else {
				typed = append(typed, [2]*Column{ca, cb})
			}
		}
	}
	return
}

// smallInts: every pool value is exactly representable as a float64.
func smallInts(c *Column) bool {
	for _, v := range c.Pool {
		if (c.Type == TInt && (v.I >= 1<<52 || v.I <= -(1<<52))) || (c.Type == TFloat && math.Abs(v.F) >= 1<<52) {
			return false
		}
	}
	return true
}

func (g *Gen) joined(s *Schema, t *Table) *Query {
	var others []*Table
	for _, o := range s.Tables {
		if o != t {
			others = append(others, o)
		}
	}
	u := others[rapid.IntRange(0, len(others)-1).Draw(g.rt, "joinTable")]
	a, b := From{T: t, Alias: g.alias()}, From{T: u, Alias: g.alias()}
	q := &Query{From: a, Limit: -1, Offset: -1}
	g.reduced = true
	defer func() { g.reduced = false }()

	shared, typed := g.joinCols(t, u)
	pairs := append(append([][2]*Column{}, shared...), shared...)
	pairs = append(pairs, typed...)
	var on Expr
	if len(pairs) > 0 {
		p := pairs[rapid.IntRange(0, len(pairs)-1).Draw(g.rt, "joinPair")]
		on = &Cmp{Op: "=", L: &Col{Alias: a.Alias, C: p[0]}, R: &Col{Alias: b.Alias, C: p[1]}}
		if rapid.IntRange(0, 5).Draw(g.rt, "swapEq") == 0 {
			on = &Cmp{Op: "=", L: on.(*Cmp).R, R: on.(*Cmp).L}
		}
		if rapid.IntRange(0, 4).Draw(g.rt, "secondEq") == 0 {
			p2 := pairs[rapid.IntRange(0, len(pairs)-1).Draw(g.rt, "joinPair2")]
			on = &Bin{Op: "AND", L: on, R: &Cmp{Op: "=", L: &Col{Alias: a.Alias, C: p2[0]}, R: &Col{Alias: b.Alias, C: p2[1]}}}
		}
		switch rapid.IntRange(0, 7).Draw(g.rt, "onExtra") {
		case 0: // inner-only residual
			on = &Bin{Op: "AND", L: on, R: g.noLike(func() Expr { return g.leaf([]From{b}) })}
		case 1: // outer-only residual
			on = &Bin{Op: "AND", L: on, R: g.noLike(func() Expr { return g.leaf([]From{a}) })}
		case 2: // non-equi join
			if rapid.Bool().Draw(g.rt, "nonEqui") {
				if g.o.NoNonEquiJoin {
					g.o.excluded("non-equi join condition")
				} else if c, ok := on.(*Cmp); ok {
					c.Op = rapid.SampledFrom([]string{"<", "<=", ">", "<>"}).Draw(g.rt, "nonEquiOp")
				}
			}
		}
	} else {
		on = g.noLike(func() Expr { return g.leaf([]From{b}) })
	}
	kind := rapid.SampledFrom([]string{"INNER", "INNER", "LEFT"}).Draw(g.rt, "joinKind")
	q.Joins = []Join{{Kind: kind, From: b, On: on}}
	if kind == "LEFT" {
		g.nullExt = map[string]bool{b.Alias: true}
		defer func() { g.nullExt = nil }()
	}
	q.Targets = append(g.colTargets(a, true), g.colTargets(b, true)...)
	if rapid.IntRange(0, 9).Draw(g.rt, "joinWhere") < 6 {
		switch rapid.IntRange(0, 2).Draw(g.rt, "joinWhereOn") {
		case 0:
			q.Where = g.GenPred([]From{b}, 1) // inner-only: pushed into the join by the planner
		case 1:
			q.Where = g.GenPred([]From{a}, 1)
		default:
			q.Where = g.GenPred([]From{a, b}, 2)
		}
	}
	if rapid.IntRange(0, 5).Draw(g.rt, "joinAgg") == 0 {
		q.Targets = []Target{{Agg: "COUNT"}}
		return q
	}
	if rapid.IntRange(0, 1).Draw(g.rt, "joinOrd") == 0 {
		g.orderBy(q, 2)
		if rapid.Bool().Draw(g.rt, "joinTotal") {
			g.totalize(q)
		}
		g.limits(q)
	}
	return q
}

// noLike redraws until the expression has no LIKE (the engine does not bind
// outer columns under LIKE when it rewrites a join condition per outer row).
func (g *Gen) noLike(f func() Expr) Expr {
	for i := 0; ; i++ {
		e := f()
		if i > 20 || !Has(e, func(n Expr) bool { _, ok := n.(*Like); return ok }) {
			return e
		}
	}
}

func (g *Gen) subquery(s *Schema, outer []From) Expr {
	u := s.Tables[rapid.IntRange(0, len(s.Tables)-1).Draw(g.rt, "subTable")]
	b := From{T: u, Alias: g.alias()}
	o := outer[rapid.IntRange(0, len(outer)-1).Draw(g.rt, "subOuter")]
	shared, typed := g.joinCols(o.T, u)
	pairs := append(append([][2]*Column{}, shared...), typed...)
	if len(pairs) == 0 {
		return nil
	}
	p := pairs[rapid.IntRange(0, len(pairs)-1).Draw(g.rt, "subPair")]
	sub := &Query{From: b, Limit: -1, Offset: -1, Targets: []Target{{C: &Col{Alias: b.Alias, C: p[1]}}}}
	// no parameters inside subqueries: EXISTS and scalar subqueries are resolved without them
	was, wasNP := g.reduced, g.o.NoParams
	g.reduced, g.o.NoParams = true, true
	defer func() { g.reduced, g.o.NoParams = was, wasNP }()
	if rapid.IntRange(0, 2).Draw(g.rt, "subWhere") != 0 {
		sub.Where = g.noLike(func() Expr { return g.GenPred([]From{b}, 1) })
	}
	oc := &Col{Alias: o.Alias, C: p[0]}
	switch rapid.IntRange(0, 3).Draw(g.rt, "subKind") {
	case 0:
		return &SubQ{Kind: "IN", E: oc, Q: sub}
	case 1:
		return &SubQ{Kind: "NOT IN", E: oc, Q: sub}
	case 2: // correlated EXISTS
		corr := Expr(&Cmp{Op: "=", L: &Col{Alias: b.Alias, C: p[1]}, R: oc})
		if sub.Where != nil {
			corr = &Bin{Op: "AND", L: corr, R: sub.Where}
		}
		sub.Where = corr
		return &SubQ{Kind: "EXISTS", Q: sub}
	}
	// scalar: compare with MIN/MAX of the other table (one row, possibly NULL)
	sub.Targets = []Target{{Agg: rapid.SampledFrom([]string{"MIN", "MAX"}).Draw(g.rt, "subAgg"), C: &Col{Alias: b.Alias, C: p[1]}}}
	return &SubQ{Kind: "CMP", Op: rapid.SampledFrom([]string{"=", "<", ">=", "<>"}).Draw(g.rt, "subOp"), E: oc, Q: sub}
}

func (g *Gen) history(t *Table) *Query {
	r := From{T: t, Alias: g.alias(), History: true}
	q := &Query{From: r, Limit: -1, Offset: -1}
	q.Targets = append([]Target{{Rev: r.Alias}}, g.colTargets(r, true)...)
	if rapid.Bool().Draw(g.rt, "histWhere") {
		q.Where = g.GenPred([]From{r}, 1)
	}
	if rapid.Bool().Draw(g.rt, "histOrd") {
		g.orderBy(q, 2)
	}
	return q
}

func (g *Gen) period(t *Table) *Query {
	r := From{T: t, Alias: g.alias()}
	tx := func(l string) uint64 { return uint64(rapid.IntRange(1, int(g.o.LastTx)).Draw(g.rt, l)) }
	switch rapid.IntRange(0, 4).Draw(g.rt, "periodKind") {
	case 0:
		r.Period = fmt.Sprintf("BEFORE TX %d", 1+tx("ptx"))
	case 1:
		r.Period = fmt.Sprintf("UNTIL TX %d", tx("ptx"))
	case 2:
		r.Period = fmt.Sprintf("SINCE TX %d", tx("ptx"))
	case 3:
		r.Period = fmt.Sprintf("AFTER TX %d", tx("ptx"))
	default:
		a, b := tx("ptx1"), tx("ptx2")
		if a > b {
			a, b = b, a
		}
		r.Period = fmt.Sprintf("SINCE TX %d UNTIL TX %d", a, b)
	}
	q := &Query{From: r, Limit: -1, Offset: -1}
	q.Targets = g.colTargets(r, true)
	if rapid.Bool().Draw(g.rt, "perWhere") {
		q.Where = g.GenPred([]From{r}, 1)
	}
	return q
}

func (g *Gen) union(s *Schema, t *Table) *Query {
	// two selections of the same columns of one table
	r1 := From{T: t, Alias: g.alias()}
	q1 := &Query{From: r1, Limit: -1, Offset: -1, Targets: g.colTargets(r1, false)}
	q1.Where = g.maybeWhere(nil, []From{r1}, 8)
	r2 := From{T: t, Alias: g.alias()}
	q2 := &Query{From: r2, Limit: -1, Offset: -1}
	for _, tg := range q1.Targets {
		q2.Targets = append(q2.Targets, Target{C: &Col{Alias: r2.Alias, C: tg.C.C}})
	}
	q2.Where = g.maybeWhere(nil, []From{r2}, 8)
	q1.Union = q2
	q1.UnionAll = rapid.Bool().Draw(g.rt, "unionAll")
	return q1
}
