package sqlgen

import (
	"context"
	"errors"
	"fmt"
	"sort"
	"strings"

	"github.com/codenotary/immudb/embedded/logger"
	"github.com/codenotary/immudb/embedded/sql"
	"github.com/codenotary/immudb/embedded/store"
)

// Params are named statement parameters (@name).
type Params map[string]interface{}

// DBOpts configures the engine (zero values = engine defaults).
type DBOpts struct {
	SortBufferSize         int // rows sorted in memory before ORDER BY spills to a temp file
	DistinctSpillThreshold int // >0: DISTINCT spills to a temp file after that many digests
	DistinctLimit          int
	// low index flush thresholds so that index flushes happen with few rows
	SmallIndexNodes bool
}

func (o DBOpts) engineOptions() *sql.Options {
	eo := sql.DefaultOptions().WithPrefix([]byte{2})
	if o.SortBufferSize > 0 {
		eo = eo.WithSortBufferSize(o.SortBufferSize)
	}
	if o.DistinctSpillThreshold > 0 {
		eo = eo.WithDistinctSpillThreshold(o.DistinctSpillThreshold)
	}
	if o.DistinctLimit > 0 {
		eo = eo.WithDistinctLimit(o.DistinctLimit)
	}
	return eo
}

// DB is an embedded store plus one SQL engine on top of it.
type DB struct {
	Dir  string
	St   *store.ImmuStore
	Eng  *sql.Engine
	Opts DBOpts
}

func storeOptions(o DBOpts) *store.Options {
	so := store.DefaultOptions().WithMultiIndexing(true).WithSynced(false).
		WithLogger(logger.NewMemoryLoggerWithLevel(logger.LogError)).
		WithMaxConcurrency(4).WithMaxIOConcurrency(1).WithFileSize(1 << 20).
		// the defaults (4 MB per log, 16 MB for the hash tree) dominate the cost of opening a small store
		WithWriteBufferSize(1 << 16).WithAHTOptions(store.DefaultAHTOptions().WithWriteBufferSize(1 << 14)).
		WithMaxTxEntries(1 << 10).WithTxLogCacheSize(64).WithVLogCacheSize(64)
	io := store.DefaultIndexOptions().WithCacheSize(256).WithMaxActiveSnapshots(64)
	if o.SmallIndexNodes {
		io = io.WithFlushThld(8).WithSyncThld(16)
	}
	return so.WithIndexOptions(io)
}

// Open opens (or creates) a store in dir with a SQL engine on it.
func Open(dir string, o DBOpts) (*DB, error) {
	st, err := store.Open(dir, storeOptions(o))
	if err != nil {
		return nil, fmt.Errorf("store.Open: %w", err)
	}
	eng, err := sql.NewEngine(st, o.engineOptions())
	if err != nil {
		st.Close()
		return nil, fmt.Errorf("sql.NewEngine: %w", err)
	}
	return &DB{Dir: dir, St: st, Eng: eng, Opts: o}, nil
}

// Close closes the store.
func (db *DB) Close() error {
	if db.St == nil {
		return nil
	}
	err := db.St.Close()
	db.St = nil
	return err
}

// Reopen closes the store and opens it again (a restart) with engine options o.
func (db *DB) Reopen(o DBOpts) error {
	if err := db.Close(); err != nil {
		return fmt.Errorf("close: %w", err)
	}
	n, err := Open(db.Dir, o)
	if err != nil {
		return err
	}
	*db = *n
	return nil
}

// NewEngine returns a second engine over the same store with other options.
// Its catalog cache is its own: create it after the DDL is done.
func (db *DB) NewEngine(o DBOpts) (*sql.Engine, error) {
	return sql.NewEngine(db.St, o.engineOptions())
}

// Exec runs statements in autocommit mode on the DB's engine.
func (db *DB) Exec(sqlText string, params Params) error {
	_, _, err := db.Eng.Exec(context.Background(), nil, sqlText, params)
	return err
}

// Tx is an explicit SQL transaction (BEGIN ... COMMIT/ROLLBACK).
type Tx struct {
	db  *DB
	tx  *sql.SQLTx
	Err error // the statement error that cancelled the transaction, if any
}

// Begin opens an explicit read-write transaction.
func (db *DB) Begin() (*Tx, error) {
	ntx, _, err := db.Eng.Exec(context.Background(), nil, "BEGIN TRANSACTION", nil)
	if err != nil {
		return nil, err
	}
	if ntx == nil {
		return nil, errors.New("BEGIN TRANSACTION returned no transaction")
	}
	return &Tx{db: db, tx: ntx}, nil
}

// Exec runs one statement inside the transaction. The engine cancels the
// whole transaction when a statement fails; Tx.Err then holds that error.
func (t *Tx) Exec(sqlText string, params Params) error {
	if t.Err != nil {
		return fmt.Errorf("transaction already cancelled: %w", t.Err)
	}
	ntx, _, err := t.db.Eng.Exec(context.Background(), t.tx, sqlText, params)
	if err != nil {
		t.Err = err
		if !t.tx.Closed() { // e.g. a parse error: the engine did not get to cancel it
			t.tx.Cancel()
		}
		return err
	}
	if ntx != nil {
		t.tx = ntx
	}
	return nil
}

// Query runs a SELECT inside the transaction (sees its own writes).
func (t *Tx) Query(sqlText string, params Params) (*Result, error) {
	if t.Err != nil {
		return nil, fmt.Errorf("transaction already cancelled: %w", t.Err)
	}
	return QueryEngine(t.db.Eng, t.tx, sqlText, params)
}

// Commit commits; on a cancelled transaction it returns the cancelling error.
func (t *Tx) Commit() error {
	if t.Err != nil {
		return t.Err
	}
	_, _, err := t.db.Eng.Exec(context.Background(), t.tx, "COMMIT", nil)
	if err != nil {
		t.Err = err
	}
	return err
}

// Rollback abandons the transaction.
func (t *Tx) Rollback() error {
	if t.Err != nil {
		return nil
	}
	_, _, err := t.db.Eng.Exec(context.Background(), t.tx, "ROLLBACK", nil)
	t.Err = errors.New("rolled back")
	return err
}

// Query runs a SELECT in its own read-only transaction on the DB's engine.
func (db *DB) Query(sqlText string, params Params) (*Result, error) {
	return QueryEngine(db.Eng, nil, sqlText, params)
}

// Result is a materialised result set.
type Result struct {
	Cols []string
	Rows [][]Value
	// Index is the name of the index the outermost table scan used ("" when
	// the source is not a table scan), PK whether it is the primary one.
	Index string
	PK    bool
}

// QueryEngine runs a SELECT on eng (tx may be nil) and reads every row.
func QueryEngine(eng *sql.Engine, tx *sql.SQLTx, sqlText string, params Params) (res *Result, err error) {
	ctx := context.Background()
	r, err := eng.Query(ctx, tx, sqlText, params)
	if err != nil {
		return nil, err
	}
	defer func() {
		if cerr := r.Close(); cerr != nil && err == nil {
			err = fmt.Errorf("reader close: %w", cerr)
		}
	}()
	res = &Result{}
	cols, err := r.Columns(ctx)
	if err != nil {
		return nil, fmt.Errorf("columns: %w", err)
	}
	for _, c := range cols {
		res.Cols = append(res.Cols, c.Selector())
	}
	func() {
		defer func() { recover() }() // ScanSpecs of composite readers may be nil-backed
		if ss := r.ScanSpecs(); ss != nil && ss.Index != nil && len(ss.Index.Cols()) > 0 {
			res.Index = ss.Index.Name()
			res.PK = ss.Index.IsPrimary()
		}
	}()
	for {
		row, err := r.Read(ctx)
		if errors.Is(err, sql.ErrNoMoreRows) {
			break
		}
		if err != nil {
			return nil, err
		}
		vals := make([]Value, len(row.ValuesByPosition))
		for i, tv := range row.ValuesByPosition {
			vals[i] = FromTyped(tv)
		}
		res.Rows = append(res.Rows, vals)
	}
	return res, nil
}

// RowKey is the canonical text of a row.
func RowKey(row []Value) string {
	var sb strings.Builder
	for i, v := range row {
		if i > 0 {
			sb.WriteByte('|')
		}
		sb.WriteString(v.Key())
	}
	return sb.String()
}

// Multiset counts the rows by RowKey.
func (r *Result) Multiset() map[string]int {
	m := make(map[string]int, len(r.Rows))
	for _, row := range r.Rows {
		m[RowKey(row)]++
	}
	return m
}

// Keys are the RowKeys in output order.
func (r *Result) Keys() []string {
	out := make([]string, len(r.Rows))
	for i, row := range r.Rows {
		out[i] = RowKey(row)
	}
	return out
}

// DiffMultiset returns "" when a and b hold the same rows with the same
// multiplicities, else a short description of the difference.
func DiffMultiset(a, b *Result) string {
	ma, mb := a.Multiset(), b.Multiset()
	var only []string
	for k, n := range ma {
		if mb[k] != n {
			only = append(only, fmt.Sprintf("%s ×%d vs ×%d", k, n, mb[k]))
		}
	}
	for k, n := range mb {
		if _, ok := ma[k]; !ok {
			only = append(only, fmt.Sprintf("%s ×0 vs ×%d", k, n))
		}
	}
	if len(only) == 0 {
		return ""
	}
	sort.Strings(only)
	if len(only) > 6 {
		only = append(only[:6], fmt.Sprintf("… %d more", len(only)-6))
	}
	return fmt.Sprintf("%d vs %d rows; differing: %s", len(a.Rows), len(b.Rows), strings.Join(only, "; "))
}

// DiffSeq returns "" when a and b hold the same rows in the same order.
func DiffSeq(a, b *Result) string {
	ka, kb := a.Keys(), b.Keys()
	if len(ka) != len(kb) {
		return fmt.Sprintf("%d vs %d rows (%s)", len(ka), len(kb), DiffMultiset(a, b))
	}
	for i := range ka {
		if ka[i] != kb[i] {
			return fmt.Sprintf("row %d: %s vs %s", i, ka[i], kb[i])
		}
	}
	return ""
}

// OrdKey is one ORDER BY key over the output: column position, direction and
// NULL placement ("" = the engine default: NULLs first when ascending, last when descending).
type OrdKey struct {
	Pos   int
	Desc  bool
	Nulls string // "", "FIRST", "LAST"
}

// CompareRows compares two output rows by keys under the SQL comparison.
func CompareRows(a, b []Value, keys []OrdKey) int {
	for _, k := range keys {
		x, y := a[k.Pos], b[k.Pos]
		if x.Null || y.Null {
			if x.Null && y.Null {
				continue
			}
			first := !k.Desc
			if k.Nulls == "FIRST" {
				first = true
			} else if k.Nulls == "LAST" {
				first = false
			}
			if x.Null == first {
				return -1
			}
			return 1
		}
		c := Compare(x, y)
		if c != 0 {
			if k.Desc {
				return -c
			}
			return c
		}
	}
	return 0
}

// Unsorted returns "" when the rows are in non-decreasing order of keys, else
// a description of the first inversion.
func (r *Result) Unsorted(keys []OrdKey) string {
	for i := 1; i < len(r.Rows); i++ {
		if CompareRows(r.Rows[i-1], r.Rows[i], keys) > 0 {
			return fmt.Sprintf("rows %d and %d out of order: %s then %s", i-1, i, RowKey(r.Rows[i-1]), RowKey(r.Rows[i]))
		}
	}
	return ""
}

// Project keeps the given column positions (used to compare ORDER BY key
// multisets of LIMITed outputs).
func (r *Result) Project(pos []int) *Result {
	out := &Result{}
	for _, p := range pos {
		out.Cols = append(out.Cols, r.Cols[p])
	}
	for _, row := range r.Rows {
		nr := make([]Value, len(pos))
		for i, p := range pos {
			nr[i] = row[p]
		}
		out.Rows = append(out.Rows, nr)
	}
	return out
}
