package sqlgen

import (
	"bytes"
	"encoding/hex"
	"fmt"
	"math"
	"strconv"
	"strings"
	"time"

	"github.com/codenotary/immudb/embedded/sql"
)

// Type is a column / value type of the engine.
type Type int

const (
	TInt Type = iota
	TBool
	TVarchar
	TBlob
	TTimestamp
	TFloat
	TUUID
	TJSON
	tAny // only for NULL literals of unknown type and aggregate results
)

// AllTypes lists every column type the engine supports.
var AllTypes = []Type{TInt, TBool, TVarchar, TBlob, TTimestamp, TFloat, TUUID, TJSON}

// IndexableTypes can be part of a primary key or of a secondary index.
var IndexableTypes = []Type{TInt, TBool, TVarchar, TBlob, TTimestamp, TFloat, TUUID}

func (t Type) String() string {
	switch t {
	case TInt:
		return "INTEGER"
	case TBool:
		return "BOOLEAN"
	case TVarchar:
		return "VARCHAR"
	case TBlob:
		return "BLOB"
	case TTimestamp:
		return "TIMESTAMP"
	case TFloat:
		return "FLOAT"
	case TUUID:
		return "UUID"
	case TJSON:
		return "JSON"
	}
	return "ANY"
}

// Numeric reports whether arithmetic and SUM/AVG apply.
func (t Type) Numeric() bool { return t == TInt || t == TFloat }

// VarSized types take a maximum length in DDL.
func (t Type) VarSized() bool { return t == TVarchar || t == TBlob }

// Value is one SQL value. The zero Value is not valid; use Null(t) for NULL.
type Value struct {
	T    Type
	Null bool
	I    int64
	F    float64
	B    bool
	S    string // VARCHAR, UUID (canonical text), JSON (text)
	Bs   []byte
	Ts   time.Time
}

func Null(t Type) Value      { return Value{T: t, Null: true} }
func Int(i int64) Value      { return Value{T: TInt, I: i} }
func Float(f float64) Value  { return Value{T: TFloat, F: f} }
func Bool(b bool) Value      { return Value{T: TBool, B: b} }
func Varchar(s string) Value { return Value{T: TVarchar, S: s} }
func Blob(b []byte) Value    { return Value{T: TBlob, Bs: b} }
func Timestamp(t time.Time) Value {
	return Value{T: TTimestamp, Ts: t.UTC().Truncate(time.Microsecond)}
}
func UUID(s string) Value { return Value{T: TUUID, S: strings.ToLower(s)} }
func JSON(s string) Value { return Value{T: TJSON, S: s} }

const tsLayout = "2006-01-02 15:04:05.999999"

func quote(s string) string { return "'" + strings.ReplaceAll(s, "'", "''") + "'" }

// FloatLit renders a float constant the lexer accepts (digits '.' digits, no
// exponent); negative values become the constant expression the parser builds
// for unary minus anyway.
func FloatLit(f float64) string {
	if f == 0 && math.Signbit(f) {
		return "(0.0 * -1)" // the only way to spell -0.0 in SQL text
	}
	s := strconv.FormatFloat(math.Abs(f), 'f', -1, 64)
	if !strings.Contains(s, ".") {
		s += ".0"
	}
	if f < 0 {
		return "-" + s
	}
	return s
}

// SQL renders the value as a literal (constant expression) of the dialect.
func (v Value) SQL() string {
	if v.Null {
		return "NULL"
	}
	switch v.T {
	case TInt:
		return strconv.FormatInt(v.I, 10)
	case TFloat:
		return FloatLit(v.F)
	case TBool:
		if v.B {
			return "TRUE"
		}
		return "FALSE"
	case TVarchar:
		return quote(v.S)
	case TBlob:
		return "x'" + hex.EncodeToString(v.Bs) + "'"
	case TTimestamp:
		return "CAST(" + quote(v.Ts.UTC().Format(tsLayout)) + " AS TIMESTAMP)"
	case TUUID:
		return "CAST(" + quote(v.S) + " AS UUID)"
	case TJSON:
		return "CAST(" + quote(v.S) + " AS JSON)"
	}
	return "NULL"
}

// Param is the Go value to bind for a named parameter carrying v; ok is false
// for types that have no parameter form (UUID, JSON).
func (v Value) Param() (interface{}, bool) {
	if v.Null {
		return nil, true
	}
	switch v.T {
	case TInt:
		return v.I, true
	case TFloat:
		return v.F, true
	case TBool:
		return v.B, true
	case TVarchar:
		return v.S, true
	case TBlob:
		return append([]byte(nil), v.Bs...), true
	case TTimestamp:
		return v.Ts, true
	}
	return nil, false
}

// Key is a canonical text form: two values have the same key iff they are the
// same SQL value (0.0 and -0.0 compare equal in SQL and share a key).
func (v Value) Key() string {
	if v.Null {
		return "∅"
	}
	switch v.T {
	case TInt:
		return "i" + strconv.FormatInt(v.I, 10)
	case TFloat:
		f := v.F
		if f == 0 {
			f = 0
		}
		return "f" + strconv.FormatFloat(f, 'g', -1, 64)
	case TBool:
		if v.B {
			return "bT"
		}
		return "bF"
	case TVarchar:
		return "s" + strconv.Quote(v.S)
	case TBlob:
		return "x" + hex.EncodeToString(v.Bs)
	case TTimestamp:
		return "t" + strconv.FormatInt(v.Ts.UnixMicro(), 10)
	case TUUID:
		return "u" + v.S
	case TJSON:
		return "j" + v.S
	}
	return "?" + v.S
}

func (v Value) String() string {
	if v.Null {
		return "NULL"
	}
	switch v.T {
	case TFloat:
		return strconv.FormatFloat(v.F, 'g', -1, 64)
	case TTimestamp:
		return v.Ts.UTC().Format(tsLayout)
	case TVarchar:
		return strconv.Quote(v.S)
	case TUUID, TJSON:
		return v.S
	}
	return v.SQL()
}

// Comparable reports whether the engine can compare values of types a and b.
func Comparable(a, b Type) bool {
	return a == b || (a.Numeric() && b.Numeric())
}

// Compare is the engine's documented value ordering: NULL is the smallest
// value of every type and equals NULL; INTEGER and FLOAT compare numerically;
// VARCHAR and BLOB bytewise; BOOLEAN false < true. It panics on values of
// incomparable types (generators never produce such comparisons).
func Compare(a, b Value) int {
	if a.Null || b.Null {
		switch {
		case a.Null && b.Null:
			return 0
		case a.Null:
			return -1
		}
		return 1
	}
	if a.T != b.T {
		if a.T.Numeric() && b.T.Numeric() {
			// exact: an INTEGER beyond 2^53 is not equal to the nearest FLOAT
			if a.T == TInt {
				return -cmpFloatInt(b.F, a.I)
			}
			return cmpFloatInt(a.F, b.I)
		}
		panic(fmt.Sprintf("sqlgen.Compare: %v vs %v", a.T, b.T))
	}
	switch a.T {
	case TInt:
		switch {
		case a.I < b.I:
			return -1
		case a.I > b.I:
			return 1
		}
		return 0
	case TFloat:
		return cmpFloat(a.F, b.F)
	case TBool:
		switch {
		case a.B == b.B:
			return 0
		case !a.B:
			return -1
		}
		return 1
	case TVarchar, TUUID, TJSON:
		if a.T == TUUID {
			ab, _ := hex.DecodeString(strings.ReplaceAll(a.S, "-", ""))
			bb, _ := hex.DecodeString(strings.ReplaceAll(b.S, "-", ""))
			return bytes.Compare(ab, bb)
		}
		return strings.Compare(a.S, b.S)
	case TBlob:
		return bytes.Compare(a.Bs, b.Bs)
	case TTimestamp:
		switch {
		case a.Ts.Before(b.Ts):
			return -1
		case a.Ts.After(b.Ts):
			return 1
		}
		return 0
	}
	return 0
}

func (v Value) num() float64 {
	if v.T == TInt {
		return float64(v.I)
	}
	return v.F
}

// cmpFloatInt compares a float with an integer without rounding either.
func cmpFloatInt(f float64, i int64) int {
	switch {
	case f >= 9223372036854775808.0: // 2^63
		return 1
	case f < -9223372036854775808.0:
		return -1
	}
	t := math.Trunc(f)
	if ti := int64(t); ti != i {
		if ti < i {
			return -1
		}
		return 1
	}
	return cmpFloat(f, t)
}

func cmpFloat(a, b float64) int {
	switch {
	case a < b:
		return -1
	case a > b:
		return 1
	}
	return 0
}

// FromTyped converts a value returned by the engine.
func FromTyped(tv sql.TypedValue) Value {
	if tv == nil {
		return Null(tAny)
	}
	t := typeOf(tv.Type())
	if tv.IsNull() {
		return Null(t)
	}
	switch raw := tv.RawValue().(type) {
	case nil:
		return Null(t)
	case int64:
		return Int(raw)
	case float64:
		return Float(raw)
	case bool:
		return Bool(raw)
	case string:
		if t == TJSON {
			return JSON(raw)
		}
		return Varchar(raw)
	case []byte:
		return Blob(append([]byte(nil), raw...))
	case time.Time:
		return Timestamp(raw)
	}
	if t == TUUID {
		return UUID(fmt.Sprint(tv.RawValue()))
	}
	if t == TJSON {
		return JSON(tv.String())
	}
	return Value{T: tAny, S: fmt.Sprintf("%T:%v", tv.RawValue(), tv.RawValue())}
}

func typeOf(t sql.SQLValueType) Type {
	switch t {
	case sql.IntegerType:
		return TInt
	case sql.BooleanType:
		return TBool
	case sql.VarcharType:
		return TVarchar
	case sql.BLOBType:
		return TBlob
	case sql.TimestampType:
		return TTimestamp
	case sql.Float64Type:
		return TFloat
	case sql.UUIDType:
		return TUUID
	case sql.JSONType:
		return TJSON
	}
	return tAny
}
