package sqlgen

import (
	"fmt"
	"sort"
)

// TableData is the content of a table as read by a plain primary-key scan:
// Rows hold the values in the order of T.Cols.
type TableData struct {
	T    *Table
	Rows [][]Value
}

// NaiveResult is what the reference executor computes. Rows that qualify
// whatever a NULL comparison yields are Definite; rows whose membership hinges
// on how NULL compares (UNKNOWN under three-valued logic, decided one way by
// this dialect) are Optional: a correct result holds every Definite row and
// nothing outside Definite ∪ Optional.
type NaiveResult struct {
	Definite [][]Value
	Optional [][]Value
}

// ErrNaiveUnsupported marks queries outside the modelled subset.
var ErrNaiveUnsupported = fmt.Errorf("query is outside the naive executor's subset")

// Naive evaluates q by nested loops over data (table name -> content). It
// covers: one table or INNER/LEFT joins, WHERE over the Expr grammar without
// subqueries, DISTINCT, GROUP BY / global aggregates with COUNT, COUNT(col),
// MIN, MAX and SUM over INTEGER, HAVING. ORDER BY / LIMIT / OFFSET are left
// to the caller (the result is a multiset). HISTORY/period queries, UNION,
// AVG, float SUM and COUNT(DISTINCT) return ErrNaiveUnsupported, and so do
// aggregations over inputs with hinge rows or over empty inputs (the dialect
// returns zero values there instead of NULL).
func Naive(q *Query, data map[string]*TableData) (*NaiveResult, error) {
	if q.Union != nil || q.From.History || q.From.Period != "" {
		return nil, ErrNaiveUnsupported
	}
	for _, t := range q.Targets {
		if t.Rev != "" || t.Agg == "AVG" || t.Distinct || (t.Agg == "SUM" && t.C.C.Type != TInt) {
			return nil, ErrNaiveUnsupported
		}
	}
	type jrow struct {
		env   Env
		hinge bool
	}
	bind := func(env Env, f From, row []Value) {
		for i, c := range f.T.Cols {
			if row == nil {
				env[f.Alias+"."+c.Name] = Null(c.Type)
			} else {
				env[f.Alias+"."+c.Name] = row[i]
			}
		}
	}
	td := data[q.From.T.Name]
	if td == nil {
		return nil, fmt.Errorf("no data for table %s", q.From.T.Name)
	}
	var rows []jrow
	for _, r := range td.Rows {
		env := Env{}
		bind(env, q.From, r)
		rows = append(rows, jrow{env: env})
	}
	for _, j := range q.Joins {
		if j.History || j.Period != "" {
			return nil, ErrNaiveUnsupported
		}
		jd := data[j.T.Name]
		if jd == nil {
			return nil, fmt.Errorf("no data for table %s", j.T.Name)
		}
		var next []jrow
		for _, l := range rows {
			matched := false
			for _, r := range jd.Rows {
				env := Env{}
				for k, v := range l.env {
					env[k] = v
				}
				bind(env, j.From, r)
				v, h, err := j.On.Eval(env)
				if err != nil {
					return nil, err
				}
				if h && j.Kind == "LEFT" {
					// whether the outer row is NULL-extended would hinge on a NULL comparison
					return nil, ErrNaiveUnsupported
				}
				if v.T == TBool && !v.Null && v.B {
					matched = true
					next = append(next, jrow{env: env, hinge: l.hinge || h})
				}
			}
			if !matched && j.Kind == "LEFT" {
				env := Env{}
				for k, v := range l.env {
					env[k] = v
				}
				bind(env, j.From, nil)
				next = append(next, jrow{env: env, hinge: l.hinge})
			}
		}
		rows = next
	}
	if q.Where != nil {
		var next []jrow
		for _, r := range rows {
			v, h, err := q.Where.Eval(r.env)
			if err != nil {
				return nil, err
			}
			if h {
				// either outcome is acceptable for this row
				next = append(next, jrow{env: r.env, hinge: true})
				continue
			}
			if v.Null && v.T == TBool {
				continue // a NULL boolean column as the whole predicate: row skipped
			}
			if v.T != TBool {
				return nil, fmt.Errorf("WHERE evaluated to %v", v.T)
			}
			if v.B {
				next = append(next, r)
			}
		}
		rows = next
	}
	res := &NaiveResult{}
	if len(q.GroupBy) == 0 && !q.aggregated() {
		for _, r := range rows {
			out := make([]Value, len(q.Targets))
			for i, t := range q.Targets {
				out[i] = r.env[t.C.Alias+"."+t.C.C.Name]
			}
			if r.hinge {
				res.Optional = append(res.Optional, out)
			} else {
				res.Definite = append(res.Definite, out)
			}
		}
		if q.Distinct {
			res.Definite = dedup(res.Definite)
			res.Optional = dedup(res.Optional)
		}
		return res, nil
	}
	// aggregation
	for _, r := range rows {
		if r.hinge {
			return nil, ErrNaiveUnsupported
		}
	}
	if len(rows) == 0 && len(q.GroupBy) == 0 {
		for _, t := range q.Targets {
			if t.Agg != "COUNT" {
				return nil, ErrNaiveUnsupported
			}
		}
	}
	type group struct {
		key  []Value
		rows []Env
	}
	groups := map[string]*group{}
	var order []string
	for _, r := range rows {
		key := make([]Value, len(q.GroupBy))
		for i, g := range q.GroupBy {
			key[i] = r.env[g.Alias+"."+g.C.Name]
		}
		k := RowKey(key)
		if groups[k] == nil {
			groups[k] = &group{key: key}
			order = append(order, k)
		}
		groups[k].rows = append(groups[k].rows, r.env)
	}
	if len(q.GroupBy) == 0 {
		g := &group{}
		for _, r := range rows {
			g.rows = append(g.rows, r.env)
		}
		groups = map[string]*group{"": g}
		order = []string{""}
	}
	sort.Strings(order)
	aggregate := func(t Target, g *group) Value {
		switch t.Agg {
		case "":
			return g.rows[0][t.C.Alias+"."+t.C.C.Name]
		case "COUNT":
			if t.C == nil {
				return Int(int64(len(g.rows)))
			}
			n := int64(0)
			for _, e := range g.rows {
				if !e[t.C.Alias+"."+t.C.C.Name].Null {
					n++
				}
			}
			return Int(n)
		}
		acc := Null(t.C.C.Type)
		for _, e := range g.rows {
			v := e[t.C.Alias+"."+t.C.C.Name]
			if v.Null {
				continue
			}
			switch {
			case acc.Null:
				acc = v
			case t.Agg == "MIN" && Compare(v, acc) < 0:
				acc = v
			case t.Agg == "MAX" && Compare(v, acc) > 0:
				acc = v
			case t.Agg == "SUM":
				acc = Int(acc.I + v.I)
			}
		}
		return acc
	}
	for _, k := range order {
		g := groups[k]
		if q.Having != nil {
			hv := aggregate(q.Having.T, g)
			c := Compare(hv, q.Having.V)
			ok := false
			switch q.Having.Op {
			case "=":
				ok = c == 0
			case "<>":
				ok = c != 0
			case "<":
				ok = c < 0
			case "<=":
				ok = c <= 0
			case ">":
				ok = c > 0
			case ">=":
				ok = c >= 0
			}
			if !ok {
				continue
			}
		}
		out := make([]Value, len(q.Targets))
		for i, t := range q.Targets {
			out[i] = aggregate(t, g)
		}
		res.Definite = append(res.Definite, out)
	}
	if q.Distinct {
		res.Definite = dedup(res.Definite)
	}
	return res, nil
}

func dedup(rows [][]Value) [][]Value {
	seen := map[string]bool{}
	var out [][]Value
	for _, r := range rows {
		k := RowKey(r)
		if !seen[k] {
			seen[k] = true
			out = append(out, r)
		}
	}
	return out
}

// Check compares an actual result (as a multiset; set when distinct) with the
// reference. It returns "" when actual holds every Definite row and nothing
// outside Definite ∪ Optional.
func (n *NaiveResult) Check(actual *Result, distinct bool) string {
	def, opt := map[string]int{}, map[string]int{}
	for _, r := range n.Definite {
		def[RowKey(r)]++
	}
	for _, r := range n.Optional {
		opt[RowKey(r)]++
	}
	act := actual.Multiset()
	for k, c := range def {
		if act[k] < c && !(distinct && act[k] >= 1) {
			return fmt.Sprintf("row %s expected ×%d, result has ×%d", k, c, act[k])
		}
	}
	for k, c := range act {
		max := def[k] + opt[k]
		if distinct && max > 1 {
			max = 1
		}
		if c > max {
			return fmt.Sprintf("row %s appears ×%d, at most ×%d expected (definite ×%d, NULL-dependent ×%d)", k, c, max, def[k], opt[k])
		}
	}
	return ""
}
