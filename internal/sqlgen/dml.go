package sqlgen

import (
	"fmt"
	"strings"

	"pgregory.net/rapid"
)

// StmtKind enumerates the generated DML statements.
type StmtKind int

const (
	SInsert       StmtKind = iota // INSERT INTO ... VALUES
	SUpsert                       // UPSERT INTO ... VALUES
	SInsertIgnore                 // INSERT ... ON CONFLICT DO NOTHING
	SInsertUpdate                 // INSERT ... ON CONFLICT DO UPDATE SET
	SUpdate                       // UPDATE ... SET ... WHERE
	SDelete                       // DELETE FROM ... WHERE
)

func (k StmtKind) String() string {
	return [...]string{"insert", "upsert", "insert-ignore", "insert-on-conflict-update", "update", "delete"}[k]
}

// Assign is `col = value` or, with Incr != 0, `col = col + Incr`.
type Assign struct {
	C    *Column
	V    Value
	Incr int64
}

func (a Assign) sql() string {
	if a.Incr != 0 {
		return fmt.Sprintf("%s = %s + %d", a.C.Name, a.C.Name, a.Incr)
	}
	return a.C.Name + " = " + a.V.SQL()
}

// Stmt is one DML statement on table T.
type Stmt struct {
	Kind  StmtKind
	T     *Table
	Cols  []*Column // INSERT/UPSERT column list
	Rows  [][]Value
	Set   []Assign // UPDATE / ON CONFLICT DO UPDATE
	Where Expr     // UPDATE / DELETE; columns are unqualified
	// UseIndex forces the scan of an UPDATE/DELETE (rendered only for the
	// table itself, never for the twin, unless it is the primary key).
	UseIndex []string
}

// Modifies reports whether the statement may change or remove existing rows.
func (s *Stmt) Modifies() bool { return s.Kind != SInsert && s.Kind != SInsertIgnore }

// SQL renders the statement for the table (twin=false) or its twin.
func (s *Stmt) SQL(twin bool) string {
	name := s.T.Name
	if twin {
		name = TwinName(name)
	}
	var sb strings.Builder
	switch s.Kind {
	case SInsert, SUpsert, SInsertIgnore, SInsertUpdate:
		if s.Kind == SUpsert {
			sb.WriteString("UPSERT INTO ")
		} else {
			sb.WriteString("INSERT INTO ")
		}
		sb.WriteString(name + " (")
		for i, c := range s.Cols {
			if i > 0 {
				sb.WriteString(", ")
			}
			sb.WriteString(c.Name)
		}
		sb.WriteString(") VALUES ")
		for i, row := range s.Rows {
			if i > 0 {
				sb.WriteString(", ")
			}
			sb.WriteString("(")
			for j, v := range row {
				if j > 0 {
					sb.WriteString(", ")
				}
				sb.WriteString(v.SQL())
			}
			sb.WriteString(")")
		}
		switch s.Kind {
		case SInsertIgnore:
			sb.WriteString(" ON CONFLICT DO NOTHING")
		case SInsertUpdate:
			sb.WriteString(" ON CONFLICT DO UPDATE SET " + assigns(s.Set))
		}
	case SUpdate:
		sb.WriteString("UPDATE " + name + " SET " + assigns(s.Set))
	case SDelete:
		sb.WriteString("DELETE FROM " + name)
	}
	if s.Kind == SUpdate || s.Kind == SDelete {
		if s.Where != nil {
			sb.WriteString(" WHERE " + s.Where.Render(nil))
		}
		if len(s.UseIndex) > 0 && (!twin || strings.Join(s.UseIndex, ",") == strings.Join(s.T.PK, ",")) {
			sb.WriteString(" USE INDEX ON (" + strings.Join(s.UseIndex, ", ") + ")")
		}
	}
	return sb.String()
}

// Params of the statement's WHERE clause.
func (s *Stmt) Params() Params { return CollectParams(nil, s.Where) }

func assigns(set []Assign) string {
	parts := make([]string, len(set))
	for i, a := range set {
		parts[i] = a.sql()
	}
	return strings.Join(parts, ", ")
}

// KeySet is the generator's belief about which primary keys exist in a table
// (exact as long as the caller records committed inserts; deletes are not
// tracked, which only makes fresh keys a little rarer).
type KeySet map[string]bool

func pkKey(t *Table, cols []*Column, row []Value) string {
	var parts []string
	for _, pk := range t.PK {
		for i, c := range cols {
			if c.Name == pk {
				parts = append(parts, row[i].Key())
			}
		}
	}
	return strings.Join(parts, "|")
}

// StmtOpts steers GenStmt.
type StmtOpts struct {
	MaxRows int // rows per INSERT, default 6
	// NoScan restricts the kinds to the INSERT family (INSERT, UPSERT, ON
	// CONFLICT): statements that locate rows by primary key only. Forcing the
	// primary index with USE INDEX ON is not enough to keep a scan away from
	// the secondary indexes: the planner overrides it when the WHERE clause
	// has an equality on the leading column of a secondary index.
	NoScan bool
	// InsertOnly restricts the kinds to plain INSERT.
	InsertOnly bool
	// NoOwnIndexScan keeps an UPDATE from scanning an index that contains a
	// column it sets: no such index is forced, and the WHERE clause does not
	// mention the leading column of such an index (the planner picks an index
	// by itself when its leading column is fixed by an equality). OnOwnIndex
	// is called when the option changed the statement.
	NoOwnIndexScan bool
	OnOwnIndex     func()
	// Pred carries the exclusions to apply to generated WHERE clauses.
	Pred QueryOpts
}

// GenStmt draws one DML statement for table t. used is updated with the keys
// of the rows the statement tries to insert.
func GenStmt(rt *rapid.T, t *Table, used KeySet, o StmtOpts) *Stmt {
	if o.MaxRows == 0 {
		o.MaxRows = 6
	}
	kinds := []StmtKind{SInsert, SInsert, SInsert, SUpsert, SInsertIgnore, SInsertUpdate, SUpdate, SUpdate, SDelete}
	kind := SInsert
	switch {
	case o.InsertOnly:
	case o.NoScan:
		kind = rapid.SampledFrom(kinds[:6]).Draw(rt, "stmtKind")
	default:
		kind = rapid.SampledFrom(kinds).Draw(rt, "stmtKind")
	}
	s := &Stmt{Kind: kind, T: t}
	po := o.Pred
	po.NoParams, po.NoSubquery = true, true
	g := NewGen(rt, po)
	self := From{T: t, Alias: ""}
	forcible := t.Indexes // indexes an UPDATE/DELETE may be forced through
	var settable []*Column
	for _, c := range t.Cols {
		if !t.IsPK(c.Name) {
			settable = append(settable, c)
		}
	}
	genSet := func() []Assign {
		if len(settable) == 0 {
			return nil
		}
		n := rapid.IntRange(1, min(2, len(settable))).Draw(rt, "nSet")
		perm := rapid.Permutation(settable).Draw(rt, "setPerm")
		var out []Assign
		for _, c := range perm[:n] {
			if c.Type == TInt && c.NotNull && !t.Indexed(c.Name) && rapid.IntRange(0, 3).Draw(rt, "incr") == 0 {
				out = append(out, Assign{C: c, Incr: rapid.SampledFrom([]int64{1, -1, 10}).Draw(rt, "incrBy")})
				continue
			}
			out = append(out, Assign{C: c, V: GenValue(rt, c)})
		}
		return out
	}
	switch kind {
	case SInsert, SUpsert, SInsertIgnore, SInsertUpdate:
		// column list: the key and NOT NULL columns always, the others mostly
		for _, c := range t.Cols {
			if t.IsPK(c.Name) || c.NotNull || rapid.IntRange(0, 5).Draw(rt, "withCol") != 0 {
				s.Cols = append(s.Cols, c)
			}
		}
		if rapid.IntRange(0, 3).Draw(rt, "shuffleCols") == 0 {
			s.Cols = rapid.Permutation(s.Cols).Draw(rt, "colPerm")
		}
		n := rapid.IntRange(1, o.MaxRows).Draw(rt, "nRows")
		wantDup := kind != SInsert || rapid.IntRange(0, 11).Draw(rt, "dupKey") == 0
		inStmt := map[string]bool{}
		for i := 0; i < n; i++ {
			var row []Value
			for try := 0; try < 8; try++ {
				row = row[:0]
				for _, c := range s.Cols {
					if c.AutoInc {
						row = append(row, GenNonNull(rt, c))
						continue
					}
					row = append(row, GenValue(rt, c))
				}
				k := pkKey(t, s.Cols, row)
				if inStmt[k] {
					continue // the same key twice in one statement always fails
				}
				if wantDup == used[k] || (wantDup && try > 2) {
					break
				}
			}
			k := pkKey(t, s.Cols, row)
			if inStmt[k] {
				continue
			}
			inStmt[k] = true
			used[k] = true
			s.Rows = append(s.Rows, append([]Value(nil), row...))
		}
		if len(s.Rows) == 0 {
			s.Kind = SDelete
			s.Where = &Cmp{Op: "=", L: &Lit{V: Int(0)}, R: &Lit{V: Int(1)}}
			return s
		}
		if kind == SInsertUpdate {
			s.Set = genSet()
			if s.Set == nil {
				s.Kind = SInsertIgnore
			}
		}
	case SUpdate:
		s.Set = genSet()
		if s.Set == nil {
			s.Kind = SDelete
		}
		if o.NoOwnIndexScan && s.Kind == SUpdate {
			own := func(ix Index) bool { // the index holds a column the statement sets
				for _, a := range s.Set {
					for _, c := range ix.Cols {
						if c == a.C.Name {
							return true
						}
					}
				}
				return false
			}
			lead := map[string]bool{}
			for _, ix := range t.Indexes {
				if own(ix) {
					lead[ix.Cols[0]] = true
				}
			}
			if len(lead) > 0 {
				if o.OnOwnIndex != nil {
					o.OnOwnIndex()
				}
				g.skipCol = func(c *Column) bool { return lead[c.Name] }
				var free []Index
				for _, ix := range t.Indexes {
					if !own(ix) {
						free = append(free, ix)
					}
				}
				forcible = free
			}
		}
		fallthrough
	case SDelete:
		if rapid.IntRange(0, 9).Draw(rt, "dmlWhere") != 0 {
			s.Where = g.GenPred([]From{self}, rapid.IntRange(0, 2).Draw(rt, "dmlDepth"))
		}
		if len(forcible) > 0 && rapid.IntRange(0, 3).Draw(rt, "dmlIndex") == 0 {
			s.UseIndex = forcible[rapid.IntRange(0, len(forcible)-1).Draw(rt, "dmlIx")].Cols
		}
	}
	return s
}
