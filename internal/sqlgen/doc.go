// Package sqlgen holds the reusable SQL pieces of the /verif checks that drive
// immudb's embedded SQL engine (C11 plan independence, C12 constraints, C13
// transactions): rapid generators for schemas, typed values, DML histories and
// SELECT statements of the engine's own dialect, an embedded store+engine
// helper living in a vk.Dir(), result-set helpers (multisets, SQL ordering) and
// a small naive executor used as a reference for the unambiguous subset.
//
// # Overview of the API
//
//	Schema / Table / Column / Index    generated schema; Table.CreateSQL(), Index.CreateSQL(table);
//	                                   Table.Twin() is the same table without secondary indexes
//	GenSchema(rt, SchemaOpts)          1..n tables, all column types, composite PKs, 0..4 indexes
//	Value                              one SQL value (NULL included); Value.SQL() literal, Value.Param() Go value,
//	                                   Compare(a,b) = the engine's documented ordering (NULL lowest)
//	GenValue / Column.Pool             values are drawn from small per-column pools so that duplicates,
//	                                   NULLs and range hits are frequent; edge values are always candidates
//	Stmt (Insert/Upsert/Update/Delete) structured DML; Stmt.SQL(twin) renders it for the table or for its twin
//	GenStmt(rt, table, keys, opts)     one DML statement; KeySet tracks which primary keys are believed to exist
//	Expr (Col, Lit, Const, Cmp, Bin, Not, IsNull, InList, Like, Between, Arith, SubQ)
//	                                   typed predicate grammar; SQL(e) / e.Render(rc); Eval(env) for the naive executor
//	Query                              SELECT AST: targets, FROM [HISTORY OF], USE INDEX ON, joins, WHERE,
//	                                   GROUP BY/HAVING, ORDER BY, LIMIT/OFFSET, DISTINCT; Query.SQL()
//	NewGen(rt, QueryOpts).GenQuery     a query the grammar accepts and whose evaluation cannot fail row-dependently;
//	                                   GenPred draws a predicate; QueryOpts carries the exclusions of known findings
//	DB                                 Open(dir, opts) / Reopen / Close; Exec, Begin, Query -> *Result
//	Result                             column names + [][]Value + index scanned; DiffMultiset, DiffSeq, Unsorted(keys), Project
//	Naive(q, tables)                   nested-loop reference evaluation (returns definite and optional rows)
//	RenderCtx / Access                 per table reference: twin table, forced index, derived table
//
// Everything random is a rapid draw; nothing here reads the clock or depends
// on map iteration order.
//
// # Dialect notes the generators rely on (read from embedded/sql)
//
//   - comparisons are two-valued: NULL is the smallest value of every type and
//     NULL = NULL is true (`x IS NULL` is parsed as `x = NULL`);
//   - NOT / AND / OR fail at run time on a NULL boolean operand and arithmetic
//     fails on a NULL operand, so generated predicates apply them only to
//     operands that cannot be NULL (comparisons, NOT NULL columns): a generated
//     query can fail only for reasons that do not depend on which rows a plan
//     visits;
//   - negative float literals are `0 - x` constant expressions; -0.0 can only
//     be produced through a parameter;
//   - secondary UNIQUE indexes can only be created on empty tables; plain
//     indexes can be created on populated ones;
//   - HISTORY OF and period queries are served by the primary index only.
package sqlgen
