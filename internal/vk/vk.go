// Package vk is the common kit of the /verif property checks: tier/seed
// plumbing, a rapid wrapper that counts and classifies generated cases,
// evidence parts, known-finding probes, replay files and scratch space.
//
// Every check package has
//
//	func TestMain(m *testing.M) { vk.Main(m, vk.Config{Property: "Cxx", ...}) }
//
// and states its properties through vk.Check (rapid) or vk.Enum (plain
// enumeration). The driver (cmd/vcheck) runs the compiled test binary once per
// shard, collects the part files and writes evidence/<id>.json.
package vk

import (
	"context"
	"encoding/json"
	"flag"
	"fmt"
	"hash/fnv"
	"os"
	"os/exec"
	"path/filepath"
	"runtime/debug"
	"sort"
	"strconv"
	"strings"
	"sync"
	"testing"
	"time"

	"pgregory.net/rapid"
)

// Config describes one property's check package.
type Config struct {
	Property    string
	Level       string // MANIFEST category; default "exploration"
	Rule        string // how cases are generated and what makes one non-trivial / distinct
	Assumptions []string
	Probes      []Probe
}

// Probe is a pinned deterministic reproduction of a finding. Present reports
// whether the defect is (still) there on the tree under test.
type Probe struct {
	ID      string
	Present func() (bool, string)
}

// Part is what one process (shard) of a check reports to the driver.
type Part struct {
	Property      string              `json:"property"`
	Level         string              `json:"level"`
	Tier          string              `json:"tier"`
	Seed          int64               `json:"seed"`
	Shard         int                 `json:"shard"`
	Shards        int                 `json:"shards"`
	Evaluations   int64               `json:"evaluations"`
	Hashes        []uint64            `json:"hashes"`
	Labels        map[string]int64    `json:"labels"`
	Samples       []json.RawMessage   `json:"samples"`
	Violations    int                 `json:"violations"`
	Replays       []string            `json:"replays"`
	KnownFindings []string            `json:"known_findings"`
	Excluded      map[string]int64    `json:"excluded_by_known_finding"`
	Tests         map[string]TestStat `json:"tests"`
	Rule          string              `json:"rule"`
	Assumptions   []string            `json:"assumptions"`
	WallS         float64             `json:"wall_s"`
	Exhaustive    map[string]bool     `json:"exhaustive,omitempty"`
}

type TestStat struct {
	Requested   int     `json:"requested"`
	Evaluations int64   `json:"evaluations"`
	NonTrivial  int64   `json:"nontrivial"`
	WallS       float64 `json:"wall_s"`
}

var (
	mu        sync.Mutex
	cfg       Config
	part      Part
	hashes    = map[uint64]struct{}{}
	excluded  = map[string]bool{}
	known     map[string]KFEntry
	started   time.Time
	scratch   string
	root      string
	maxSample = 12
)

// KFEntry is one record of /verif/known_findings.json.
type KFEntry struct {
	ID       string `json:"id"`
	Property string `json:"property"`
	Status   string `json:"status"` // "known" | "fixed"
	Commit   string `json:"commit,omitempty"`
	What     string `json:"what"`
	// ScheduleDependent marks a finding whose pinned reproduction is a bounded stress loop
	// that may not fire on every run: its generator class stays excluded while it is listed
	// as known, whether or not the probe fired this time (the KNOWN-FINDING line is printed
	// only when it did).
	ScheduleDependent bool `json:"schedule_dependent,omitempty"`
}

// Root is /verif (or $VERIF_ROOT).
func Root() string {
	if root != "" {
		return root
	}
	if r := os.Getenv("VERIF_ROOT"); r != "" {
		root = r
		return root
	}
	// walk up from cwd until go.mod of module verif
	d, _ := os.Getwd()
	for d != "/" && d != "." {
		if b, err := os.ReadFile(filepath.Join(d, "go.mod")); err == nil && strings.HasPrefix(string(b), "module verif") {
			root = d
			return root
		}
		d = filepath.Dir(d)
	}
	root = "/verif"
	return root
}

func Tier() string {
	if t := os.Getenv("VERIF_TIER"); t == "thorough" {
		return "thorough"
	}
	return "quick"
}

func Thorough() bool { return Tier() == "thorough" }

func envInt(name string, def int64) int64 {
	if s := os.Getenv(name); s != "" {
		if v, err := strconv.ParseInt(s, 10, 64); err == nil {
			return v
		}
	}
	return def
}

// Seed is VERIF_SEED (default 1).
func Seed() int64 { return envInt("VERIF_SEED", 1) }
func Shard() int  { return int(envInt("VERIF_SHARD", 0)) }
func Shards() int {
	n := int(envInt("VERIF_SHARDS", 1))
	if n < 1 {
		n = 1
	}
	return n
}

// Replaying reports whether this process was started to replay a saved case.
func Replaying() bool { return os.Getenv("VERIF_REPLAY") != "" }

func splitmix(x uint64) uint64 {
	x += 0x9E3779B97F4A7C15
	x = (x ^ (x >> 30)) * 0xBF58476D1CE4E5B9
	x = (x ^ (x >> 27)) * 0x94D049BB133111EB
	return x ^ (x >> 31)
}

// SeedFor derives a non-zero PRNG value from VERIF_SEED, the shard and a name.
func SeedFor(name string) uint64 {
	h := fnv.New64a()
	h.Write([]byte(name))
	s := splitmix(uint64(Seed())*0x100000001B3 ^ h.Sum64() ^ splitmix(uint64(Shard())+1))
	if s == 0 {
		s = 1
	}
	return s
}

// N picks the per-process case count for the tier (thorough counts are split
// over the shards).
func N(quick, thorough int) int {
	if !Thorough() {
		n := quick * int(envInt("VERIF_QUICK_SCALE", 1)) / Shards()
		if n < 1 {
			n = 1
		}
		return n
	}
	n := thorough / Shards()
	if n < 1 {
		n = 1
	}
	return n
}

// Dir returns a fresh scratch directory (on tmpfs when available) that is
// removed when the process ends.
func Dir() string {
	mu.Lock()
	defer mu.Unlock()
	if scratch == "" {
		base := os.Getenv("VERIF_SCRATCH")
		if base == "" {
			if st, err := os.Stat("/dev/shm"); err == nil && st.IsDir() {
				base = "/dev/shm"
			} else {
				base = os.TempDir()
			}
		}
		scratch = filepath.Join(base, fmt.Sprintf("verif-%s-%d", cfg.Property, os.Getpid()))
		os.RemoveAll(scratch)
		if err := os.MkdirAll(scratch, 0o755); err != nil {
			panic(err)
		}
	}
	d, err := os.MkdirTemp(scratch, "d")
	if err != nil {
		panic(err)
	}
	return d
}

// loadKnown reads /verif/known_findings.json and, if present, the package's
// own known_findings.json (cwd of a test binary is its package directory).
// Both are committed files; nothing is ever written to them at run time.
func loadKnown() {
	known = map[string]KFEntry{}
	for _, path := range []string{filepath.Join(Root(), "known_findings.json"), "known_findings.json"} {
		b, err := os.ReadFile(path)
		if err != nil {
			continue
		}
		var f struct {
			Findings []KFEntry `json:"findings"`
		}
		if err := json.Unmarshal(b, &f); err != nil {
			fmt.Printf("INFRA: %s unreadable: %v\n", path, err)
			os.Exit(2)
		}
		for _, e := range f.Findings {
			known[e.ID] = e
		}
	}
}

// Excluded reports whether the generator class of known finding id must be
// left out (the finding is listed as known AND its probe still fires).
func Excluded(id string) bool {
	mu.Lock()
	defer mu.Unlock()
	return excluded[id]
}

// CountExcluded records that a generator dropped one instance because of a
// known finding.
func CountExcluded(id string) {
	mu.Lock()
	defer mu.Unlock()
	if part.Excluded == nil {
		part.Excluded = map[string]int64{}
	}
	part.Excluded[id]++
}

// Main runs probes, then the tests, then writes the part file.
func Main(m *testing.M, c Config) {
	cfg = c
	if cfg.Level == "" {
		cfg.Level = "exploration"
	}
	started = time.Now()
	flag.Parse()
	loadKnown()
	part = Part{Property: c.Property, Level: cfg.Level, Tier: Tier(), Seed: Seed(), Shard: Shard(), Shards: Shards(),
		Labels: map[string]int64{}, Tests: map[string]TestStat{}, Rule: c.Rule, Assumptions: c.Assumptions,
		Excluded: map[string]int64{}, Exhaustive: map[string]bool{}}
	debug.SetTraceback("all")

	if IsChild() {
		os.Exit(m.Run())
	}
	for id, e := range known {
		if e.Status == "known" && e.ScheduleDependent && e.Property == cfg.Property {
			excluded[id] = true
		}
	}
	for _, p := range c.Probes {
		runProbe(p)
	}
	code := m.Run()
	finish()
	if part.Violations > 0 && code == 0 {
		code = 1
	}
	os.Exit(code)
}

func runProbe(p Probe) {
	var present bool
	var detail string
	func() {
		defer func() {
			if r := recover(); r != nil {
				present, detail = true, fmt.Sprintf("panic: %v", r)
			}
		}()
		present, detail = p.Present()
	}()
	if !present {
		return
	}
	e, ok := known[p.ID]
	if ok && e.Status == "known" && e.Property == cfg.Property {
		fmt.Printf("KNOWN-FINDING: property=%s %s: %s [%s]\n", cfg.Property, p.ID, e.What, oneLine(detail))
		mu.Lock()
		excluded[p.ID] = true
		part.KnownFindings = append(part.KnownFindings, p.ID)
		mu.Unlock()
		return
	}
	// not listed (or listed as fixed and back again): a violation
	what := "pinned reproduction " + p.ID + " fails"
	if ok && e.Status == "fixed" {
		what += " (listed as fixed in " + e.Commit + ": regression)"
	}
	ReportViolation("probe-"+p.ID, map[string]any{"probe": p.ID, "what": what, "detail": detail})
}

func oneLine(s string) string {
	s = strings.ReplaceAll(s, "\n", " | ")
	if len(s) > 300 {
		s = s[:300] + "…"
	}
	return s
}

func finish() {
	mu.Lock()
	defer mu.Unlock()
	part.WallS = time.Since(started).Seconds()
	part.Hashes = part.Hashes[:0]
	for h := range hashes {
		part.Hashes = append(part.Hashes, h)
	}
	sort.Slice(part.Hashes, func(i, j int) bool { return part.Hashes[i] < part.Hashes[j] })
	if out := os.Getenv("VERIF_PART_OUT"); out != "" {
		b, _ := json.Marshal(&part)
		os.MkdirAll(filepath.Dir(out), 0o755)
		if err := os.WriteFile(out, b, 0o644); err != nil {
			fmt.Printf("INFRA: cannot write part file: %v\n", err)
		}
	}
	if scratch != "" {
		os.RemoveAll(scratch)
	}
}

// ---------------------------------------------------------------------------
// cases

// Case records what one generated case looked like.
type Case struct {
	mu         sync.Mutex
	test       string
	desc       strings.Builder
	descTrunc  bool
	h          uint64
	labels     map[string]int64
	nontrivial bool
	sample     any
}

const descCap = 1500

func newCase(test string) *Case {
	return &Case{test: test, h: 14695981039346656037, labels: map[string]int64{}}
}

// Descf appends to the case descriptor (hashed for distinctness; the first
// part is kept as the written-out sample).
func (c *Case) Descf(format string, args ...any) {
	s := fmt.Sprintf(format, args...)
	c.mu.Lock()
	defer c.mu.Unlock()
	for i := 0; i < len(s); i++ {
		c.h ^= uint64(s[i])
		c.h *= 1099511628211
	}
	c.h ^= 0xff
	c.h *= 1099511628211
	if c.desc.Len() < descCap {
		if c.desc.Len() > 0 {
			c.desc.WriteByte(' ')
		}
		if c.desc.Len()+len(s) > descCap {
			s = s[:descCap-c.desc.Len()] + "…"
			c.descTrunc = true
		}
		c.desc.WriteString(s)
	}
}

// Label counts a class this case belongs to (reported as a histogram).
func (c *Case) Label(l string) {
	c.mu.Lock()
	c.labels[l]++
	c.mu.Unlock()
}

// Has reports whether label l was set on this case.
func (c *Case) Has(l string) bool {
	c.mu.Lock()
	defer c.mu.Unlock()
	return c.labels[l] > 0
}

// NonTrivial marks the case as non-trivial by the property's stated rule.
func (c *Case) NonTrivial() {
	c.mu.Lock()
	c.nontrivial = true
	c.mu.Unlock()
}

// Sample overrides the written-out form of the case (default: the descriptor).
func (c *Case) Sample(v any) {
	c.mu.Lock()
	c.sample = v
	c.mu.Unlock()
}

func (c *Case) String() string {
	c.mu.Lock()
	defer c.mu.Unlock()
	return c.desc.String()
}

func (c *Case) commit() {
	c.mu.Lock()
	defer c.mu.Unlock()
	mu.Lock()
	defer mu.Unlock()
	part.Evaluations++
	ts := part.Tests[c.test]
	ts.Evaluations++
	for l, n := range c.labels {
		if n > 0 {
			part.Labels[c.test+"/"+l]++
		}
	}
	if c.nontrivial {
		ts.NonTrivial++
		if _, ok := hashes[c.h]; !ok {
			hashes[c.h] = struct{}{}
			// keep a few samples per test, spread out
			cnt := 0
			for _, s := range part.Samples {
				if strings.Contains(string(s), `"test":"`+c.test+`"`) {
					cnt++
				}
			}
			if cnt < 3 && len(part.Samples) < maxSample {
				var v any = c.desc.String()
				if c.sample != nil {
					v = c.sample
				}
				ls := make([]string, 0, len(c.labels))
				for l := range c.labels {
					ls = append(ls, l)
				}
				sort.Strings(ls)
				b, err := json.Marshal(map[string]any{"test": c.test, "case": v, "labels": ls})
				if err == nil {
					part.Samples = append(part.Samples, b)
				}
			}
		}
	}
	part.Tests[c.test] = ts
}

// lastFailure keeps what the property said when it last failed.
type failure struct {
	Test    string `json:"test"`
	Message string `json:"message"`
	Case    string `json:"case"`
	Dump    any    `json:"dump,omitempty"`
}

var (
	firstFail *failure
	lastFail  *failure
)

// Failf records the failing case (descriptor + optional dump) and fails the
// rapid case.
func (c *Case) Failf(rt *rapid.T, dump any, format string, args ...any) {
	f := &failure{Test: c.test, Message: fmt.Sprintf(format, args...), Case: c.String(), Dump: dump}
	mu.Lock()
	if firstFail == nil {
		firstFail = f
	}
	lastFail = f
	mu.Unlock()
	rt.Fatalf("%s", f.Message)
}

// ---------------------------------------------------------------------------
// rapid wrapper

type capTB struct {
	name   string
	mu     sync.Mutex
	logs   []string
	failed bool
}

type failNow struct{}

func (c *capTB) Helper()      {}
func (c *capTB) Name() string { return c.name }
func (c *capTB) add(s string) {
	c.mu.Lock()
	if len(c.logs) < 4000 {
		c.logs = append(c.logs, s)
	}
	c.mu.Unlock()
}
func (c *capTB) Logf(format string, args ...any) { c.add(fmt.Sprintf(format, args...)) }
func (c *capTB) Log(args ...any)                 { c.add(fmt.Sprint(args...)) }
func (c *capTB) Skipf(format string, args ...any) {
	c.add(fmt.Sprintf(format, args...))
	panic(failNow{})
}
func (c *capTB) Skip(args ...any) { c.add(fmt.Sprint(args...)); panic(failNow{}) }
func (c *capTB) SkipNow()         { panic(failNow{}) }
func (c *capTB) Errorf(format string, args ...any) {
	c.add(fmt.Sprintf(format, args...))
	c.mu.Lock()
	c.failed = true
	c.mu.Unlock()
}
func (c *capTB) Error(args ...any) {
	c.add(fmt.Sprint(args...))
	c.mu.Lock()
	c.failed = true
	c.mu.Unlock()
}
func (c *capTB) Fatalf(format string, args ...any) { c.Errorf(format, args...); panic(failNow{}) }
func (c *capTB) Fatal(args ...any)                 { c.Error(args...); panic(failNow{}) }
func (c *capTB) FailNow() {
	c.mu.Lock()
	c.failed = true
	c.mu.Unlock()
	panic(failNow{})
}
func (c *capTB) Fail() {
	c.mu.Lock()
	c.failed = true
	c.mu.Unlock()
}
func (c *capTB) Failed() bool {
	c.mu.Lock()
	defer c.mu.Unlock()
	return c.failed
}

// Check states a property over rapid-generated cases. quickN/thoroughN are the
// total case counts per tier (split over shards). A failure is shrunk by
// rapid, written to replays/_new and printed as a VIOLATION line.
func Check(t *testing.T, quickN, thoroughN int, prop func(rt *rapid.T, c *Case)) {
	t.Helper()
	name := t.Name()
	n := N(quickN, thoroughN)
	if s := os.Getenv("VERIF_CHECKS"); s != "" {
		if v, err := strconv.Atoi(s); err == nil && v > 0 {
			n = v
		}
	}
	failfile := ""
	if Replaying() {
		failfile = os.Getenv("VERIF_REPLAY_FAILFILE")
		n = 1
	}
	seed := SeedFor(name)
	flag.Set("rapid.checks", strconv.Itoa(n))
	flag.Set("rapid.seed", strconv.FormatUint(seed, 10))
	flag.Set("rapid.failfile", failfile)
	st := envInt("VERIF_SHRINK_S", 20)
	flag.Set("rapid.shrinktime", fmt.Sprintf("%ds", st))
	os.RemoveAll(filepath.Join("testdata", "rapid", name))

	mu.Lock()
	firstFail, lastFail = nil, nil
	ts := part.Tests[name]
	ts.Requested += n
	part.Tests[name] = ts
	mu.Unlock()

	tb := &capTB{name: name}
	t0 := time.Now()
	func() {
		defer func() {
			if r := recover(); r != nil {
				if _, ok := r.(failNow); !ok {
					panic(r)
				}
			}
		}()
		rapid.Check(tb, func(rt *rapid.T) {
			c := newCase(name)
			prop(rt, c)
			c.commit()
		})
	}()
	mu.Lock()
	ts = part.Tests[name]
	ts.WallS += time.Since(t0).Seconds()
	part.Tests[name] = ts
	mu.Unlock()

	for _, l := range tb.logs {
		if strings.HasPrefix(l, "[rapid] only generated") {
			// generator health problem, not a violation of the property
			fmt.Printf("INFRA: %s: %s\n", name, l)
			t.Fail()
			return
		}
	}
	if !tb.Failed() {
		for _, l := range tb.logs {
			if strings.HasPrefix(l, "[rapid] OK") {
				t.Log(l)
			}
		}
		return
	}
	// failure: build the replay file
	rep := map[string]any{
		"property":   cfg.Property,
		"test":       name,
		"tier":       Tier(),
		"verif_seed": Seed(),
		"shard":      Shard(),
		"rapid_seed": seed,
		"rapid_log":  tb.logs,
	}
	mu.Lock()
	if firstFail != nil {
		rep["first_failure"] = firstFail
	}
	if lastFail != nil {
		rep["minimal_failure"] = lastFail
	}
	mu.Unlock()
	// copy rapid's fail file next to it
	matches, _ := filepath.Glob(filepath.Join("testdata", "rapid", name, "*.fail"))
	var failBytes []byte
	if len(matches) > 0 {
		failBytes, _ = os.ReadFile(matches[len(matches)-1])
	} else if failfile != "" {
		failBytes, _ = os.ReadFile(failfile)
	}
	path := writeReplay(name, rep, failBytes)
	os.RemoveAll(filepath.Join("testdata", "rapid", name))
	fmt.Printf("VIOLATION property=%s replay=%s\n", cfg.Property, path)
	mu.Lock()
	part.Violations++
	part.Replays = append(part.Replays, path)
	mu.Unlock()
	for i, l := range tb.logs {
		if i > 60 {
			t.Logf("… (%d more lines in %s)", len(tb.logs)-i, path)
			break
		}
		t.Log(l)
	}
	t.Fail()
}

func writeReplay(name string, rep map[string]any, failBytes []byte) string {
	dir := filepath.Join(Root(), "replays", "_new")
	os.MkdirAll(dir, 0o755)
	b, _ := json.MarshalIndent(rep, "", " ")
	h := fnv.New32a()
	h.Write(b)
	base := fmt.Sprintf("%s-%s-%08x", cfg.Property, sanitize(name), h.Sum32())
	path := filepath.Join(dir, base+".json")
	if failBytes != nil {
		ff := filepath.Join(dir, base+".fail")
		os.WriteFile(ff, failBytes, 0o644)
		rep["rapid_failfile"] = ff
		b, _ = json.MarshalIndent(rep, "", " ")
	}
	os.WriteFile(path, b, 0o644)
	return path
}

func sanitize(s string) string {
	var sb strings.Builder
	for _, r := range s {
		if r >= 'a' && r <= 'z' || r >= 'A' && r <= 'Z' || r >= '0' && r <= '9' || r == '-' || r == '_' {
			sb.WriteRune(r)
		} else {
			sb.WriteByte('_')
		}
	}
	return sb.String()
}

// ReportViolation is for violations found outside rapid (enumerations, probes,
// fuzz-corpus replays): writes a replay file, prints the VIOLATION line.
func ReportViolation(name string, detail map[string]any) string {
	detail["property"] = cfg.Property
	detail["test"] = name
	detail["tier"] = Tier()
	detail["verif_seed"] = Seed()
	path := writeReplay(name, detail, nil)
	fmt.Printf("VIOLATION property=%s replay=%s\n", cfg.Property, path)
	mu.Lock()
	part.Violations++
	part.Replays = append(part.Replays, path)
	mu.Unlock()
	return path
}

// Enum is the non-rapid counterpart of a case: one enumerated / replayed
// input. Call e := vk.NewEnum(t); ...; e.Done() for each.
type Enum struct{ *Case }

func NewEnum(test string) Enum { return Enum{newCase(test)} }
func (e Enum) Done()           { e.commit() }

// Failf for enumerations.
func (e Enum) Failf(t *testing.T, dump any, format string, args ...any) {
	msg := fmt.Sprintf(format, args...)
	ReportViolation(e.test, map[string]any{"message": msg, "case": e.String(), "dump": dump})
	t.Errorf("%s", msg)
}

// SetExhaustive records that sub-space name was enumerated completely.
func SetExhaustive(name string) {
	mu.Lock()
	part.Exhaustive[name] = true
	mu.Unlock()
}

// AddLabel counts a global label outside a case.
func AddLabel(l string, n int64) {
	mu.Lock()
	part.Labels[l] += n
	mu.Unlock()
}

// RunChild re-runs this test binary with -test.run ^name$ in a child process
// (env VERIF_CHILD=1) and reports whether it exited cleanly. It is meant for
// pinned reproductions whose failure mode is a crash of a background goroutine,
// which would otherwise take the whole check down.
func RunChild(name string, timeout time.Duration) (ok bool, output string) {
	ctx, cancel := context.WithTimeout(context.Background(), timeout)
	defer cancel()
	cmd := exec.CommandContext(ctx, os.Args[0], "-test.run", "^"+name+"$", "-test.count", "1")
	cmd.Env = append(os.Environ(), "VERIF_CHILD=1", "VERIF_PART_OUT=")
	out, err := cmd.CombinedOutput()
	s := string(out)
	if len(s) > 400 {
		s = s[:400] + "…"
	}
	return err == nil, s
}

// IsChild reports whether this process was started by RunChild.
func IsChild() bool { return os.Getenv("VERIF_CHILD") != "" }
