// Package refmodel holds the small, obviously-correct reference models the
// checks compare immudb against.
package refmodel

import "crypto/sha256"

type Hash = [sha256.Size]byte

// LeafHash is H(0x00 || d).
func LeafHash(d []byte) Hash {
	b := make([]byte, 1+len(d))
	copy(b[1:], d)
	return sha256.Sum256(b)
}

// NodeHash is H(0x01 || l || r).
func NodeHash(l, r Hash) Hash {
	var b [1 + 2*sha256.Size]byte
	b[0] = 1
	copy(b[1:], l[:])
	copy(b[1+sha256.Size:], r[:])
	return sha256.Sum256(b[:])
}

// MerkleRoot is the RFC 6962 tree hash over leaf hashes: a tree of n>1 leaves
// splits at the largest power of two strictly smaller than n. It is defined
// for n >= 1.
func MerkleRoot(leaves []Hash) Hash {
	n := len(leaves)
	if n == 1 {
		return leaves[0]
	}
	k := 1
	for k<<1 < n {
		k <<= 1
	}
	return NodeHash(MerkleRoot(leaves[:k]), MerkleRoot(leaves[k:]))
}

// Roots returns MerkleRoot(leaves[:k]) for k = 1..n at index k (index 0 unused),
// computed incrementally but independently of immudb's node layout (stack of
// perfect subtrees).
func Roots(leaves []Hash) []Hash {
	out := make([]Hash, len(leaves)+1)
	type st struct {
		h    Hash
		size int
	}
	var stack []st
	for i, l := range leaves {
		stack = append(stack, st{l, 1})
		for len(stack) >= 2 && stack[len(stack)-1].size == stack[len(stack)-2].size {
			a, b := stack[len(stack)-2], stack[len(stack)-1]
			stack = stack[:len(stack)-2]
			stack = append(stack, st{NodeHash(a.h, b.h), a.size * 2})
		}
		r := stack[len(stack)-1].h
		for j := len(stack) - 2; j >= 0; j-- {
			r = NodeHash(stack[j].h, r)
		}
		out[i+1] = r
	}
	return out
}
