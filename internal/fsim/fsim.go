// Package fsim is the storage seam of the crash / schedule checks. It plugs into
// store.Options.WithAppFactory (a public option that the store also hands down to
// its hash tree and to every index), wraps every log of a store with a recorder
// and can later materialise the directory a crash at any recorded point could
// have left behind.
//
// Durability model (per log, sound = a subset of what a real power loss can
// produce): everything written before the last successful Sync of that log is
// durable; of the writes issued after it any prefix may have reached the disk,
// the last one possibly torn at any byte. Files are never truncated (as in
// singleapp): bytes past a rewound offset stay where they were.
package fsim

import (
	"fmt"
	"os"
	"path/filepath"
	"sort"
	"sync"

	"github.com/codenotary/immudb/embedded/appendable"
	"github.com/codenotary/immudb/embedded/appendable/multiapp"
)

type Kind byte

const (
	Append  Kind = 'A'
	SetOff  Kind = 'O'
	Flush   Kind = 'F'
	Sync    Kind = 'S'
	Discard Kind = 'D'
	Close   Kind = 'C'
	Open    Kind = 'N'
)

// Event is one storage operation (or harness mark) in the global order.
type Event struct {
	Seq  int
	Log  string // path of the log relative to the store directory ("" for marks)
	Kind Kind
	Off  int64
	Data []byte
	Mark string // harness marks: "ack", ...
	Val  uint64
}

// FS records the operations of all logs opened through its factory.
type FS struct {
	mu     sync.Mutex
	root   string
	events []Event
	opts   map[string]multiapp.Options // options each log was first opened with
	order  []string
	// Yield, when set, is called (outside the recorder lock) before every storage
	// operation: the schedule-perturbation hook of the concurrency checks.
	Yield func(log string, k Kind)
	// FailAt, when set, may return an error to inject for an operation.
	FailAt func(seq int, log string, k Kind) error
}

// New creates a recorder for a store that lives at root.
func New(root string) *FS {
	return &FS{root: root, opts: map[string]multiapp.Options{}}
}

// Factory is the value for store.Options.WithAppFactory.
func (fs *FS) Factory() func(rootPath, subPath string, opts *multiapp.Options) (appendable.Appendable, error) {
	return func(rootPath, subPath string, opts *multiapp.Options) (appendable.Appendable, error) {
		full := filepath.Join(rootPath, subPath)
		rel, err := filepath.Rel(fs.root, full)
		if err != nil {
			return nil, err
		}
		app, err := multiapp.Open(full, opts)
		if err != nil {
			return nil, err
		}
		fs.mu.Lock()
		if _, ok := fs.opts[rel]; !ok {
			fs.opts[rel] = *opts // options objects are reused and mutated by the callers: keep a copy
			fs.order = append(fs.order, rel)
		}
		fs.mu.Unlock()
		fs.add(Event{Log: rel, Kind: Open, Off: app.Offset()})
		return &rec{fs: fs, log: rel, app: app}, nil
	}
}

func (fs *FS) add(e Event) int {
	fs.mu.Lock()
	defer fs.mu.Unlock()
	e.Seq = len(fs.events)
	fs.events = append(fs.events, e)
	return e.Seq
}

// Mark records a harness event (e.g. "ack" of tx id) at the current position.
func (fs *FS) Mark(mark string, v uint64) int {
	return fs.add(Event{Kind: 'M', Mark: mark, Val: v})
}

// Len is the number of recorded events.
func (fs *FS) Len() int {
	fs.mu.Lock()
	defer fs.mu.Unlock()
	return len(fs.events)
}

// Events returns a copy of the event list.
func (fs *FS) Events() []Event {
	fs.mu.Lock()
	defer fs.mu.Unlock()
	return append([]Event(nil), fs.events...)
}

// Logs lists the logs in the order they were first opened.
func (fs *FS) Logs() []string {
	fs.mu.Lock()
	defer fs.mu.Unlock()
	return append([]string(nil), fs.order...)
}

type rec struct {
	fs  *FS
	log string
	app *multiapp.MultiFileAppendable
}

func (r *rec) pre(k Kind) error {
	if y := r.fs.Yield; y != nil {
		y(r.log, k)
	}
	if f := r.fs.FailAt; f != nil {
		if err := f(r.fs.Len(), r.log, k); err != nil {
			return err
		}
	}
	return nil
}

func (r *rec) Metadata() []byte       { return r.app.Metadata() }
func (r *rec) Size() (int64, error)   { return r.app.Size() }
func (r *rec) Offset() int64          { return r.app.Offset() }
func (r *rec) CompressionFormat() int { return r.app.CompressionFormat() }
func (r *rec) CompressionLevel() int  { return r.app.CompressionLevel() }
func (r *rec) Copy(dst string) error  { return r.app.Copy(dst) }
func (r *rec) ReadAt(bs []byte, off int64) (int, error) {
	return r.app.ReadAt(bs, off)
}

func (r *rec) SetOffset(off int64) error {
	if err := r.pre(SetOff); err != nil {
		return err
	}
	err := r.app.SetOffset(off)
	if err == nil {
		r.fs.add(Event{Log: r.log, Kind: SetOff, Off: off})
	}
	return err
}

func (r *rec) DiscardUpto(off int64) error {
	if err := r.pre(Discard); err != nil {
		return err
	}
	err := r.app.DiscardUpto(off)
	if err == nil {
		r.fs.add(Event{Log: r.log, Kind: Discard, Off: off})
	}
	return err
}

func (r *rec) Append(bs []byte) (int64, int, error) {
	if err := r.pre(Append); err != nil {
		return 0, 0, err
	}
	off, n, err := r.app.Append(bs)
	if err == nil {
		r.fs.add(Event{Log: r.log, Kind: Append, Off: off, Data: append([]byte(nil), bs...)})
	}
	return off, n, err
}

func (r *rec) Flush() error {
	if err := r.pre(Flush); err != nil {
		return err
	}
	err := r.app.Flush()
	if err == nil {
		r.fs.add(Event{Log: r.log, Kind: Flush})
	}
	return err
}

func (r *rec) Sync() error {
	if err := r.pre(Sync); err != nil {
		return err
	}
	err := r.app.Sync()
	if err == nil {
		r.fs.add(Event{Log: r.log, Kind: Sync})
	}
	return err
}

func (r *rec) SwitchToReadOnlyMode() error { return r.app.SwitchToReadOnlyMode() }

func (r *rec) Close() error {
	err := r.app.Close()
	r.fs.add(Event{Log: r.log, Kind: Close})
	return err
}

// ---------------------------------------------------------------------------
// crash images

// Survive tells, for one log, how many of its pending (not yet fsynced) write
// events survive and how many bytes of the last surviving Append are kept
// (torn < 0: the whole write).
type Survive struct {
	Keep int
	Torn int
}

// Pending describes what a chooser sees for one log.
type Pending struct {
	Log       string
	Writes    int // pending write events (Append / SetOffset / Discard) after the last Sync, up to the crash point
	Flushed   int // how many of them precede the last Flush (what a process kill keeps)
	LastBytes int // length of the last pending Append (0 if none)
}

// PendingAt computes, for crash point k (events[0:k] happened), the pending sets of all logs.
func (fs *FS) PendingAt(k int) []Pending {
	evs := fs.Events()
	if k > len(evs) {
		k = len(evs)
	}
	per := map[string]*Pending{}
	for _, l := range fs.Logs() {
		per[l] = &Pending{Log: l}
	}
	for _, e := range evs[:k] {
		p := per[e.Log]
		if p == nil {
			continue
		}
		switch e.Kind {
		case Sync, Close:
			// Close flushes; with files never truncated and process-kill semantics it is like a flush.
			if e.Kind == Sync {
				p.Writes, p.Flushed, p.LastBytes = 0, 0, 0
			} else {
				p.Flushed = p.Writes
			}
		case Flush:
			p.Flushed = p.Writes
		case Append:
			p.Writes++
			p.LastBytes = len(e.Data)
		case SetOff, Discard:
			p.Writes++
		}
	}
	var out []Pending
	for _, l := range fs.Logs() {
		out = append(out, *per[l])
	}
	return out
}

// Materialise writes into dst the directory left by a crash right after
// events[0:k], where choose decides per log what part of the pending writes
// survived. The logs are rebuilt through real multiapp appendables opened with
// the options the store used, so headers and chunking are the real ones.
func (fs *FS) Materialise(dst string, k int, choose func(p Pending) Survive) error {
	evs := fs.Events()
	if k > len(evs) {
		k = len(evs)
	}
	fs.mu.Lock()
	logs := append([]string(nil), fs.order...)
	opts := map[string]multiapp.Options{}
	for l, o := range fs.opts {
		opts[l] = o
	}
	fs.mu.Unlock()
	sort.Strings(logs)

	pend := map[string]Pending{}
	for _, p := range fs.PendingAt(k) {
		pend[p.Log] = p
	}
	if err := os.MkdirAll(dst, 0o755); err != nil {
		return err
	}
	for _, l := range logs {
		// events of this log up to k
		var mine []Event
		opened := false
		for _, e := range evs[:k] {
			if e.Log == l {
				if e.Kind == Open {
					opened = true
				}
				mine = append(mine, e)
			}
		}
		if !opened {
			continue // log did not exist yet at the crash point
		}
		// durable part: everything up to the last Sync; of the pending write events only sv.Keep survive
		lastSync := -1
		for i, e := range mine {
			if e.Kind == Sync {
				lastSync = i
			}
		}
		sv := choose(pend[l])
		o := opts[l]
		path := filepath.Join(dst, l)
		if err := os.MkdirAll(filepath.Dir(path), 0o755); err != nil {
			return err
		}
		app, err := multiapp.Open(path, &o)
		if err != nil {
			return fmt.Errorf("materialise %s: %w", l, err)
		}
		firstOpen := true
		keptPending := 0
		npending := 0
		for _, e := range mine[lastSync+1:] {
			if e.Kind == Append || e.Kind == SetOff || e.Kind == Discard {
				npending++
			}
		}
		if sv.Keep > npending {
			sv.Keep = npending
		}
		if sv.Keep < 0 {
			sv.Keep = 0
		}
	replay:
		for i, e := range mine {
			isWrite := e.Kind == Append || e.Kind == SetOff || e.Kind == Discard
			if i > lastSync && isWrite {
				if keptPending == sv.Keep {
					break replay
				}
				keptPending++
				if keptPending == sv.Keep && e.Kind == Append && sv.Torn >= 0 && sv.Torn < len(e.Data) {
					if sv.Torn == 0 {
						break replay
					}
					e.Data = e.Data[:sv.Torn]
				}
			}
			switch e.Kind {
			case Open:
				if firstOpen {
					firstOpen = false
					continue
				}
				// the store reopened the log here: sizes come from the files again
				if err := app.Close(); err != nil {
					return err
				}
				app, err = multiapp.Open(path, &o)
				if err != nil {
					return fmt.Errorf("materialise %s: reopen: %w", l, err)
				}
			case Append:
				if app.Offset() != e.Off {
					app.Close()
					return fmt.Errorf("materialise %s: recorded append at %d but replay offset is %d", l, e.Off, app.Offset())
				}
				if _, _, err := app.Append(e.Data); err != nil {
					app.Close()
					return fmt.Errorf("materialise %s: %w", l, err)
				}
			case SetOff:
				if err := app.SetOffset(e.Off); err != nil {
					app.Close()
					return fmt.Errorf("materialise %s: setoffset %d (at %d): %w", l, e.Off, app.Offset(), err)
				}
			case Discard:
				if err := app.DiscardUpto(e.Off); err != nil {
					app.Close()
					return fmt.Errorf("materialise %s: discard %d: %w", l, e.Off, err)
				}
			case Flush, Sync:
				// what reached the file stays there even if the offset is moved back later
				if err := app.Flush(); err != nil {
					app.Close()
					return fmt.Errorf("materialise %s: flush: %w", l, err)
				}
			}
		}
		if err := app.Flush(); err != nil {
			app.Close()
			return err
		}
		if err := app.Close(); err != nil {
			return err
		}
	}
	return nil
}
