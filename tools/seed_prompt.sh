#!/bin/sh
# prints the brief for a mutant-seeding sub-agent: tools/seed_prompt.sh C03 /tmp/seed-c03
id=$1; wt=$2
python3 - "$id" "$wt" <<'P'
import json,sys
pid,wt=sys.argv[1],sys.argv[2]
for l in open('/verif/properties.jsonl'):
    p=json.loads(l)
    if p['id']==pid: break
print(f"""You are a software engineer doing fault seeding on the Go project codenotary/immudb. Your own git worktree of the repository is at {wt} (work ONLY there; never touch /repo, never look at or use anything under /verif — your result must be independent of any existing verification tooling).

THE PROPERTY the project is supposed to guarantee:
  Title: {p['title']}
  Statement: {p['statement']}
  Quantified over: {p['quantifier']['text']}
  Code it is anchored in: {', '.join(p['anchors']['files'])}

YOUR TASK: produce ONE small, realistic change to the source code under {wt} (the kind of slip a competent developer could make in a refactoring or an "optimisation": a dropped or reordered call, an off-by-one, a wrong variable, a missing copy, a lock released too early, a condition weakened) that BREAKS this property while
  (1) the project still compiles (go build ./... in the touched packages),
  (2) the project's EXISTING unit tests of the touched package(s) still pass (run them: `cd {wt} && go test -count=1 ./<pkg>/...`; in this sandbox a few tests fail even without any change because we run as root — TestImmudbStoreEdgeCases/should_fail_with_permission_denied in embedded/store, TestOpenFail in embedded/ahtree, TestInvalidOpening in embedded/tbtree — ignore exactly those),
  (3) the breakage needs something SPECIFIC to manifest — a particular interleaving, a crash or fault at a particular point, a multi-step sequence of operations, an unusual input or configuration, or two cooperating sites that each look fine alone — NOT something ordinary use would expose at once.
Do not change any test file of the project. Do not add build tags. Change at most ~15 lines.

Then write a DEMONSTRATION: a Go test file (put it in the package directory of the change, named zz_seeded_demo_test.go, package-internal or external as needed) or a small main program, that FAILS with your change and PASSES without it (verify both: `git stash` / `git stash pop` or `git diff > patch; git checkout .; ...; git apply patch`), and that shows the property is violated through the public behaviour the property talks about (not merely that some internal function changed).

Go environment: plain `go` works offline in this sandbox (module cache is populated); if a command tries to reach the network set GOFLAGS=-mod=mod GOPROXY=off. Never set GOTOOLCHAIN=local or GOSUMDB=off.

DELIVERABLE (leave these files in {wt}/.seeded/): 
  patch.diff      — `git diff` of your source change only (no demo file),
  demo_test.go    — a copy of the demonstration (say in a comment at the top in which package directory it must be placed and the exact `go test -run` command),
  meta.json       — {{"property": "{pid}", "summary": "<one sentence: what was changed>", "needs": "<what specific conditions are needed for the violation to manifest>", "files": ["..."], "demo_cmd": "<command run in the worktree>", "existing_tests_run": "<command(s) you ran>", "existing_tests_result": "<pass / which pre-existing root-only failures>"}}
Final message: the three file paths, the summary, and the output of the demo with and without the change (a few lines each). If your first idea is caught by the existing tests, try another; aim for a subtle one.""")
P
