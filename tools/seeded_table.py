#!/usr/bin/env python3
"""Prints a markdown table of the seeded changes under /verif/seeded."""
import json, glob, os
root = os.path.dirname(os.path.dirname(os.path.abspath(__file__)))
print('| seed | property | change | needs | caught by | missed by |\n|---|---|---|---|---|---|')
for d in sorted(glob.glob(os.path.join(root, 'seeded', '*'))):
    m = json.load(open(os.path.join(d, 'meta.json')))
    print('| %s | %s | %s | %s | %s | %s |' % (os.path.basename(d), m.get('property'), m.get('summary', '')[:260].replace('|', '/'), m.get('needs', '')[:260].replace('|', '/'), '; '.join(m.get('caught_by', [])).replace('|', '/'), '; '.join(m.get('missed_by', [])).replace('|', '/') or '—'))
