#!/bin/sh
# prints the standard brief for a check-building sub-agent: tools/agent_prompt.sh C17
id=$1
cat <<P
You are building ONE property check for a verification framework over the Go project codenotary/immudb (source at /repo, read-only for you). The framework lives in /verif. Technique is fixed: property-based testing / fuzzing (pgregory.net/rapid v1.3.0, Go native fuzzing) — generated inputs / operation sequences against an explicit oracle.

READ FIRST, in this order:
1. /verif/CHECK_AUTHORING.md  (the kit API, how to run, the rules — follow them exactly)
2. /verif/checks/c08/c08_test.go  (a finished check: the pattern to copy)
3. /verif/DESIGN.md — section "### $id" under §2 (the planned generator / oracle / non-trivial rule / sensitivity mutants for your property), §0 (map of the code) and §4 (defects already confirmed)
4. The property itself (below) and every source file it is anchored in, under /repo.

YOUR PROPERTY ($id), verbatim from /verif/properties.jsonl:
$(grep "\"id\": *\"$id\"" /verif/properties.jsonl || grep "\"$id\"" /verif/properties.jsonl | head -1)

DELIVERABLE: the Go test package /verif/checks/$(echo $id | tr A-Z a-z)/ (plus optional vcheck.json and known_findings.json there) such that
  cd /verif && ./check $id quick
exits 0 on the unchanged /repo at VERIF_SEED=1, 2 and 3 (run all three; also run once while another heavy process is running), takes roughly 30-120 s, and produces /verif/evidence/$id.json with a healthy label distribution (look at it: jq .coverage.labels). The thorough tier (./check $id thorough) must also pass and finish within ~20 minutes; run it once at the end.
Implement as much of the DESIGN section as you can, strongest oracle first; depth of the oracle and realism of the generator matter more than the number of test functions. Where you deliberately leave a part of the design out, say so in the Config.Assumptions and in your report.

HARD RULES
- Never modify anything under /repo. Never run git commit/add/stash/checkout anywhere (the coordinator commits). Do not edit /verif/internal/vk, /verif/cmd, /verif/MANIFEST.json, /verif/DESIGN.md, /verif/known_findings.json or other checks' directories; other agents are working in parallel in the same tree.
- Go environment for every command: export GOFLAGS=-mod=mod GOPROXY=off   (and nothing else: GOTOOLCHAIN=local or GOSUMDB=off break the build). No network.
- No false alarms: the check must stay silent (exit 0) on the unchanged tree at any seed. If it fires, work out whether immudb really violates the property text (genuine defect: keep the minimal repro as a vk.Probe + entry in checks/<id>/known_findings.json with status "known", exclude exactly that class in the generator and count it) or your harness/oracle is wrong (fix it). Never weaken a correct oracle to make it quiet.
- Sensitivity: demonstrate that the check FAILS (exit 1) within the quick budget on at least 3 realistic mutants of /repo that break the property but still compile, using scratch copies under /tmp and VERIF_REPO (see the guide); delete every scratch copy and its /verif/bin/*<name>* binary afterwards. If a plausible mutant survives, strengthen the check.
- Keep scratch data on /dev/shm via vk.Dir(); remove per-case directories when the case ends (disk/RAM hygiene).

FINAL REPORT (your last message, plain text, <= 60 lines): files you created; what each test generates and its oracle; measured quick/thorough wall time, evaluations, distinct_nontrivial and the key label percentages; every mutant you tried and whether it was caught (which test, how fast); every genuine defect of immudb you found (minimal input, file:line of the cause, proposed minimal patch); every part of the DESIGN section you did not implement and why; anything you need changed in the kit.
P
