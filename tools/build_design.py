#!/usr/bin/env python3
"""Rebuilds the generated tail of DESIGN.md (everything after the marker line):
tools/design_tail.md (hand-written §7.3, §7.4, §8 intro, §9 intro) with the
generated tables spliced in: findings (tools/findings_table.py), seeded changes
(tools/seeded_table.py) and the per-property run table (from evidence/)."""
import json, os, subprocess, sys, glob
root = os.path.dirname(os.path.dirname(os.path.abspath(__file__)))
MARK = '<!-- GENERATED TAIL: everything below is rebuilt by tools/build_design.py -->'

def run(tool):
    return subprocess.run([sys.executable, os.path.join(root, 'tools', tool)], capture_output=True, text=True, check=True).stdout

def runs_table():
    out = ['| prop | level | quick: evaluations / distinct non-trivial / wall | thorough: evaluations / distinct non-trivial / wall | known findings excluded (thorough, else quick) |', '|---|---|---|---|---|']
    for i in range(1, 20):
        p = 'C%02d' % i
        cells, lvl, excl = [], '', ''
        for path in (os.path.join(root, 'evidence', p + '.json'), os.path.join(root, 'evidence', 'thorough', p + '.json')):
            try:
                e = json.load(open(path))
            except Exception:
                cells.append('—'); continue
            want = 'thorough' if 'thorough' in path else 'quick'
            if e.get('tier') != want:
                cells.append('—'); continue
            c = e['coverage']; lvl = e.get('level', lvl)
            cells.append('%d / %d / %.0f s' % (c['evaluations'], c['distinct_nontrivial'], e.get('wall_s', 0)))
            x = c.get('excluded_by_known_finding') or {}
            if x: excl = ', '.join('%s: %d' % kv for kv in sorted(x.items()))
        out.append('| %s | %s | %s | %s | %s |' % (p, lvl, cells[0], cells[1], excl or '—'))
    return '\n'.join(out) + '\n'

tail = open(os.path.join(root, 'tools', 'design_tail.md')).read()
tail = tail.replace('<<FINDINGS_TABLE>>', run('findings_table.py'))
tail = tail.replace('<<SEEDED_TABLE>>', run('seeded_table.py'))
tail = tail.replace('<<RUNS_TABLE>>', runs_table())
path = os.path.join(root, 'DESIGN.md')
d = open(path).read()
if MARK in d:
    d = d[:d.index(MARK)]
d = d.rstrip('\n') + '\n\n' + MARK + '\n' + tail
open(path, 'w').write(d)
print('DESIGN.md rebuilt: %d lines' % d.count('\n'))
