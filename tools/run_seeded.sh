#!/bin/sh
# tools/run_seeded.sh <seed dir name under seeded/> <Cxx> [Cyy ...]
# Applies a seeded change to a scratch worktree of /repo at its current HEAD and runs the given checks (quick tier)
# against it through VERIF_REPO; the worktree and its binaries are removed afterwards. /repo itself is not touched.
cd "$(dirname "$0")/.." || exit 2
seed=$1; shift
wt=/tmp/mut-$seed
git -C /repo worktree remove --force $wt 2>/dev/null
git -C /repo worktree add -q $wt HEAD || exit 2
if ! git -C $wt apply seeded/$seed/patch.diff 2>/dev/null; then
  if ! git -C $wt apply --3way /verif/seeded/$seed/patch.diff; then echo "patch does not apply"; git -C /repo worktree remove --force $wt; exit 2; fi
fi
(cd $wt && go build ./embedded/... ./pkg/... >/dev/null 2>&1) || echo "WARNING: build problems"
for c in "$@"; do
  rm -f replays/_new/$c-*
  VERIF_REPO=$wt ./check $c ${TIER:-quick} 2>&1 | grep -E "^$c |VIOLATION|INFRA" | head -4
  echo "== $seed vs $c: exit $(VERIF_REPO=$wt true; echo done)"
  f=$(ls replays/_new/$c-* 2>/dev/null | grep json | head -1)
  [ -n "$f" ] && jq -r '.first_failure.message // .minimal_failure.message // .detail // .what' $f | cut -c1-300
done
git -C /repo worktree remove --force $wt
rm -f bin/*mut-$seed* bin/modfiles/*mut-$seed*
