#!/bin/sh
# Runs the repository's baseline test command (BASELINE.json cmd) on /repo as it is and lists baseline-stable tests that do not pass now.
out=${1:-/tmp/baseline_run.json}
: > $out
for m in $(cat /w/out/gomods.txt); do MF=$(cd /repo/$m && . /w/out/goenv.sh && gomodflag); (cd /repo/$m && go test $MF -json -vet=off -count=1 -timeout 25m ./... >> $out 2>/dev/null); done
python3 - "$out" <<'P'
import json,sys
passed,failed=set(),set()
for l in open(sys.argv[1],errors='replace'):
    l=l.strip()
    if not l.startswith('{'): continue
    try: ev=json.loads(l)
    except Exception: continue
    a=ev.get('Action'); t=ev.get('Test'); pkg=ev.get('Package','')
    if t is None or a not in('pass','fail'): continue
    (passed if a=='pass' else failed).add(pkg+'::'+t)
passed-=failed
b=json.load(open('/root/.vp/BASELINE.json'))
stable=set(b['stable_pass'])
missing=sorted(stable-passed)
print('stable_pass in baseline:',len(stable),' passing now:',len(stable&passed),' not passing now:',len(missing))
for t in missing: print('  NOT PASSING:',t,'(failed)' if t in failed else '(not run)')
P
