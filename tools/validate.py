#!/usr/bin/env python3
"""Validate MANIFEST.json and evidence/*.json against the schemas in /root/.vp (or tools/schemas)."""
import json, sys, os, glob
try:
    import jsonschema
except ImportError:
    sys.path.insert(0, glob.glob('/opt/veriftools/pyvenv/lib/python*/site-packages')[0])
    import jsonschema
root = os.path.dirname(os.path.dirname(os.path.abspath(__file__)))
def schema(name):
    for d in ('/root/.vp', os.path.join(root, 'tools', 'schemas')):
        p = os.path.join(d, name)
        if os.path.exists(p):
            return json.load(open(p))
    raise SystemExit('schema %s not found' % name)
bad = 0
m = json.load(open(os.path.join(root, 'MANIFEST.json')))
try:
    jsonschema.validate(m, schema('MANIFEST.schema.json'))
    print('MANIFEST.json ok: %d checks, %d not_applicable' % (len(m['checks']), len(m.get('not_applicable', []))))
except jsonschema.ValidationError as e:
    print('MANIFEST.json INVALID:', e.message); bad += 1
props = [json.loads(l)['id'] for l in open(os.path.join(root, 'properties.jsonl'))]
claimed = {c['property_id'] for c in m['checks']}
na = {c['property_id'] for c in m.get('not_applicable', [])}
for p in props:
    if p not in claimed and p not in na:
        print('property', p, 'neither claimed nor not_applicable'); bad += 1
    if p in claimed and p in na:
        print('property', p, 'both claimed and not_applicable'); bad += 1
es = schema('EVIDENCE.schema.json')
for c in m['checks']:
    f = c['evidence_file']
    if not os.path.isabs(f): f = os.path.join(root, f)
    if not os.path.exists(f):
        print('evidence missing:', f); continue
    try:
        e = json.load(open(f)); jsonschema.validate(e, es)
        if e['level'] != c['level_claimed']['category']:
            print('level mismatch', f); bad += 1
        print('%s ok tier=%s evals=%s distinct=%s' % (os.path.basename(f), e['tier'], e['coverage'].get('evaluations'), e['coverage'].get('distinct_nontrivial')))
    except jsonschema.ValidationError as ex:
        print(f, 'INVALID:', ex.message); bad += 1
sys.exit(1 if bad else 0)
