#!/usr/bin/env python3
"""Prints a markdown table of every finding listed in /verif/known_findings.json and checks/*/known_findings.json."""
import json, glob, os
root = os.path.dirname(os.path.dirname(os.path.abspath(__file__)))
rows = []
for p in [os.path.join(root, 'known_findings.json')] + sorted(glob.glob(os.path.join(root, 'checks', '*', 'known_findings.json'))):
    for f in json.load(open(p))['findings']:
        rows.append((f['property'], f['id'], f['status'], f.get('commit', ''), f['what'].replace('|', '/').replace('\n', ' '), os.path.relpath(p, root), f.get('why_not_repaired', '').replace('|', '/')))
rows.sort()
fixed = [r for r in rows if r[2] == 'fixed']
known = [r for r in rows if r[2] != 'fixed']
print('### Repaired in /repo (`fix:` commits; pinned probes keep running)\n')
print('| prop | id | commit | what failed |\n|---|---|---|---|')
for r in fixed:
    print('| %s | %s | %s | %s |' % (r[0], r[1], r[3], r[4][:330]))
print('\n### Recorded as known findings (not repaired)\n')
print('| prop | id | what fails | why it was not repaired |\n|---|---|---|---|')
for r in known:
    print('| %s | %s | %s | %s |' % (r[0], r[1], r[4][:330], r[6] or '(repair being attempted)'))
print('\n%d repaired, %d known' % (len(fixed), len(known)))
