#!/bin/sh
# tools/take_seed.sh <worktree> <seed-id>: store a seeding agent's deliverables under seeded/<id>, re-run its
# demonstration with and without the change (expects FAIL then ok), then remove the scratch worktree.
wt=$1; id=$2; root=$(cd "$(dirname "$0")/.." && pwd)
export GOFLAGS=-mod=mod GOPROXY=off
mkdir -p $root/seeded/$id && cp $wt/.seeded/patch.diff $wt/.seeded/demo_test.go $wt/.seeded/meta.json $root/seeded/$id/ || exit 2
cmd=$(jq -r .demo_cmd $root/seeded/$id/meta.json)
cd $wt || exit 2
git status --short | grep -v '^??' 
echo "== demo: $cmd"
echo "-- with the change:";    sh -c "$cmd" 2>&1 | grep -E '^(--- FAIL|FAIL|ok|panic)' | head -5
git apply -R .seeded/patch.diff || { echo "cannot revert patch"; exit 2; }
echo "-- without the change:"; sh -c "$cmd" 2>&1 | grep -E '^(--- FAIL|FAIL|ok|panic)' | head -5
cd /; git -C /repo worktree remove --force $wt; git -C /repo worktree prune
