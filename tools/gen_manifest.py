#!/usr/bin/env python3
"""Writes MANIFEST.json from the table below (one place to keep it consistent)."""
import json, os
root = os.path.dirname(os.path.dirname(os.path.abspath(__file__)))
props = [json.loads(l) for l in open(os.path.join(root, 'properties.jsonl'))]

# id -> dict(level, text, note, technique, design)
CHECKS = {
 "C08": dict(level="exploration", design="DESIGN.md §2 C08",
   technique="property-based testing (rapid): stateful model-based generation vs an RFC-6962 reference tree; exhaustive enumeration of honest (i,j) proofs up to a bound; mutation-based verifier soundness",
   text="Generated append/reset/sync/reopen histories of the real on-disk AHT are compared step by step with an independent reference Merkle construction (roots at every size, payloads, proofs verify); all 1<=i<=j<=n honest proofs are enumerated for n<=72 (quick) / 300 (thorough) and all htree widths 0..200/700; verifier soundness is searched with mutated and relabelled proofs over true leaves/roots (accept => claim true). Search-based: held on N generated cases, not a proof.",
   note="Trusted: SHA-256 collision resistance; the 40-line reference in internal/refmodel/merkle.go; soundness only asserted for claims whose (size, root) pair is true (no verifier can bind a false pair). Known findings K2/K2h/K3b are excluded by class and counted."),
 "C04": dict(level="exploration", design="DESIGN.md §2 C04",
   technique="property-based testing (rapid): stateful model-based generation on a real store vs a reference KV-history model, with generated index configurations and maintenance interleavings",
   text="Generated histories (overwrites, logical deletes, expirations, non-indexable entries, empty/max-size values, long shared prefixes, max-length keys, up to 50 keys per tx) on a real store with generated index options (bulk size 1-8, flush/sync thresholds, node size, cache, buffered-data limit; default index or multi-indexing with prefixed + injective mapped indexes), interleaved with flush/compaction/reopen; after indexing caught up every read API (Get, GetWithFilters, GetBetween, GetWithPrefix, History, key readers with seek/end/prefix/direction/offset) is compared with the model. Search-based.",
   note="Trusted: the reference model in internal/stx; expirations use fixed far-past/far-future instants; GetWithPrefix exclusion key only nil/first match; mapped-index history not asserted. Pinned probes keep the 6 repaired indexer/tbtree defects (F1,F9-F13) under watch."),
 "C03": dict(level="fault_enumeration", design="DESIGN.md §2 C03",
   technique="fault injection over recorded storage operations: generated workloads on a store whose logs are recorded through the public WithAppFactory seam; generated crash points x per-log survival of un-fsynced writes; crash images materialised through real appendables and checked against a ledger oracle",
   text="Workloads (1-4 concurrent committers, synced store, generated chunk/AHT/index thresholds, index flushes; and a replica-like scenario: committed + precommitted txs, discard, different txs under the same ids, partial commit allowance) are recorded operation by operation for every log. For generated crash points (biased to the neighbourhood of flush/fsync) and generated survival of flushed-but-not-fsynced writes per log (none/all/prefix/torn) the crash image is rebuilt and reopened: acked txs present and byte-identical, recovered history a gap-free chain made only of txs written under those ids, BlRoot equal to the reference Merkle root, dual proofs from acked states verify, index agrees with the recovered history, new commits chain on, clean restart stable.",
   note="Crash states explored are a subset of real ones: per-file prefix of writes already handed to the OS + torn last write; no intra-file reordering, no directory-entry loss; compaction disabled in workloads; second crash during recovery not yet explored. K18 (prealloc + torn commit-log entry) excluded by class."),
 "C10": dict(level="exploration", design="DESIGN.md §2 C10",
   technique="property-based testing (rapid): stateful model-based generation on a real on-disk tbtree vs a multi-version ordered-map model; generated reader specs on fixed deep trees; concurrent snapshot readers with schedule-agnostic oracle",
   text="Generated sequences of Insert/BulkInsert (explicit/zero/mixed timestamps, repeated keys, same-ts re-insert), IncreaseTs, Flush/FlushWith(cleanup, synced), Sync, Compact, close/reopen, snapshots (incl. SnapshotMustIncludeTs), snapshot-local writes, point/bounded/history/prefix lookups and readers over seek/end/inclusive/prefix/direction/offset/history/time-window, with generated node sizes (from the required minimum), cache sizes, thresholds and chunk sizes; every result equals the model, a held snapshot keeps returning its frozen state after later inserts/flushes-with-cleanup/compactions, content is unchanged by flush and restart, compaction yields the state at the reported ts. Concurrent readers on held snapshots run while the writer proceeds.",
   note="Trusted: the map model in checks/c10/model_test.go. Not generated (undocumented semantics): reader Offset combined with history/ReadBetween, GetWithPrefix exclusion key other than nil/first match, same-ts re-insert with a different value. Four repaired tbtree defects (K10a-d) are pinned as probes."),
 "C15": dict(level="exploration", design="DESIGN.md §2 C15",
   technique="property-based testing (rapid) of round-trip and order-preservation laws with boundary-biased generators; native Go fuzzing of the byte-level codecs in the thorough tier",
   text="Round-trips (decode(encode(x)) = x, consumed length, canonical re-encoding) for SQL value and key codecs of all types, JSON values, row values over protobuf, TxHeader v0/v1, TxMetadata, KVMetadata, ExportTx -> parser -> bytes and ExportTx -> ReplicateTx on a twin store (same header/Alh, proofs convert and verify), documents through the document engine; order laws: sign(bytes.Compare(key(a),key(b))) = SQL comparison for every type with NULL first, equal values encode identically, composite keys order lexicographically; rows written through the engine come back once and in SQL order under every index.",
   note="Trusted: the engine's own TypedValue.Compare cross-checked with an independent comparator. Known findings excluded by class and counted: K6 (-0.0 vs 0.0 keys; pinned by the repository's own test, not repairable without editing it), K7 (TIMESTAMP keys overflow outside 1677..2262). K5c (nullable codec '' = NULL) repaired and pinned."),
 "C17": dict(level="exploration", design="DESIGN.md §2 C17",
   technique="property-based testing (rapid): stateful model-based generation on real singleapp/multiapp files vs a byte-slice model; exhaustive enumeration of short operation sequences on tiny configurations; concurrent readers",
   text="Generated sequences of append/read/set-offset/flush/sync/discard/switch-read-only/close-reopen/copy over generated chunk sizes (4-512 B), write buffers (1-64 B), all retryable-sync x auto-sync modes, preallocation, max-open-files 1-3, every compression format (entry-addressed model), with concurrent readers during appends; after every step offsets, sizes, bytes, EOF semantics, documented errors and metadata equal the model; all sequences of <= L operations over 12 operations are enumerated on 5 tiny configurations.",
   note="Trusted: the byte-slice model. Known findings excluded by class and counted: K3 (rewind not persisted: stale size/bytes after reopen), K17m (metadata > ~3.9 KB lost), K17c (compressed multiapp offset below size), K17r/K17x (multiapp read races; stress probes). F17 (stale read after rewind) repaired and pinned. Injected I/O errors inside singleapp are not reachable without a source hook."),
 "C11": dict(level="exploration", design="DESIGN.md §2 C11",
   technique="property-based testing (rapid): grammar-based generation of schemas, DML histories and SELECTs; differential oracles (forced-plan, twin tables without indexes, in-tx/committed/reopened, spill thresholds), metamorphic TLP partitioning, and a naive nested-loop reference executor",
   text="One case = one generated database (1-3 tables of all column types, composite keys, plain/unique/composite indexes created before or after data, a twin table without secondary indexes receiving the same statements), a generated DML history (insert/upsert/on-conflict/update of indexed columns/delete, failing statements, reopens) and 12-40 generated SELECTs (comparisons, ranges, IN, LIKE, BETWEEN, IS NULL, boolean combinations, ORDER BY, LIMIT/OFFSET, DISTINCT, GROUP BY + aggregates + HAVING, joins, subqueries, UNION, HISTORY OF, period queries). Each query is run through every access path (planner's choice, forced primary key, every forced index, twin, derived-table join), inside the open transaction, after commit on two engines (default and tiny sort/distinct spill thresholds) and after reopen: equal sequences under a total ORDER BY, equal multisets otherwise, every output sorted, error-vs-rows is a disagreement; TLP P / NOT P / P IS NULL partitions rows and COUNT(*); a naive executor checks the unambiguous subset.",
   note="Trusted: the naive executor and multiset comparison in internal/sqlgen; NULL semantics as implemented by the engine (two-valued comparisons). 18 engine defects found are pinned as probes and excluded by class (counted) until repaired; window functions, CTEs, EXCEPT/INTERSECT, DIFF OF not generated."),
 "C05": dict(level="exploration", design="DESIGN.md §2 C05",
   technique="property-based testing (rapid): generated concurrent transaction programs on a real store with a harness-owned step schedule; oracle = serial replay of the committed transactions in id order on a reference model",
   text="2-5 generated read-write transaction programs (Get/GetWithFilters incl. not-found/deleted/expired, GetWithPrefix, key readers with seek/end/inclusive/direction/offset/filters/Reset/ReadBetween/early stop, MarkPrefixScanned, Set/Delete/SetTransient, Commit/AsyncCommit/Cancel) with generated snapshot policies run on real goroutines against one store, interleaved by a generated schedule with write-only committers, index flushes, a lagging indexer and read-only scanners. After the run the committed txs are replayed in id order on the KV-history model: every logged read of a committed tx must equal state(id-1) plus its own earlier writes; ids are dense; conflicted/cancelled txs leave no trace; ReadTx equals the acknowledged write set; every scanner observation equals state(t) for some t. Spurious conflicts are counted, never failed.",
   note="Schedule coverage is what the generated step schedule and the Go scheduler produce (commit critical sections race for real); oracle is schedule-agnostic. UnsafeMVCC out of scope; writes while a reader is open without Reset, Offset with Reset, ReadBetween over own writes not generated (undocumented). K05a/K05b (own-write results not validated) excluded by class; K05c repaired and pinned."),
 "C06": dict(level="exploration", design="DESIGN.md §2 C06",
   technique="property-based testing (rapid): generated concurrent client histories on one pkg/database DB; frontier-window linearizability oracle using tx ids, cross-checked by a Wing-Gong register search",
   text="3-8 client goroutines on one database over 6-12 keys issue generated Set/multi-key Set/ExecAll/Delete/SetReference/ZAdd/Get (plain, SinceTx, AtTx, AtRevision)/GetAll/Scan/ZScan/History/Count and writes with KeyMustExist/KeyMustNotExist/KeyNotModifiedAfterTx preconditions, with background FlushIndex/CompactIndex and generated schedule perturbation at storage operations. Every call is logged with the committed frontier before and after; after the run all txs are read back: write ids unique and inside their window, tx content equals the request, explicit and implicit conditions true on state(id-1), a refused write refusable on some state in its window, every read equals the model on a single state T inside its window (multi-key reads: one T), exactly one successful call per committed tx; single-key sub-histories are re-checked by a register linearizability search.",
   note="Default waiting semantics only (no NoWait); Count accepted against either reading of deleted keys (undocumented); AtTx lower bound is 'writes that had returned'. K06a (stale reads after CompactIndex restart), K06b (ZScan SinceTx mixes snapshots), K06c (reference resolved with a second live lookup) pinned and excluded by class."),
 "C19": dict(level="exploration", design="DESIGN.md §2 C19",
   technique="property-based testing (rapid): generated collection schemas, schema evolution, documents and queries on the document engine vs a reference document list and an index-free twin collection; proof round-trips with alteration",
   text="Generated schemas (STRING/INTEGER/DOUBLE/BOOLEAN/UUID, nested paths, unique/composite indexes, custom id field), histories of insert-batch/replace/delete (by id, query, limit+order) and AddField/RemoveField/CreateIndex/DeleteIndex, documents with nested JSON, missing/null fields, numeric edge values, unicode, and generated DNF queries with ORDER BY and paging. Every step is applied to an indexed collection and an index-free twin: full listing, id lookup, search membership (asserted where operands are present and non-null), counts, audit trail and encoded documents equal the reference list; indexed and twin agree on cardinality, set and order; unique indexes refuse duplicates and refused writes leave the listing unchanged. ProofDocument + VerifyDocument succeed for every stored revision and fail for altered documents, other revisions, swapped ids, flipped bits and wrong states.",
   note="Null/missing comparison semantics only differential. 11 document/SQL/store defects pinned as probes and excluded by class (K19j repaired). gRPC paging layer, concurrent writers and reopen not driven."),
 "C01": dict(level="exploration", design="DESIGN.md §2 C01",
   technique="property-based testing (rapid): generated histories (incl. lagging binary linking and a fork store) with completeness checks and a mutation/splicing/relabelling adversary against the store verifiers; a synthetic equivocating server; an in-process server + real client with a reply-altering gRPC interceptor",
   text="Store level: real stores H and a fork F sharing a replicated prefix (1-60 txs, metadata, header v0/v1, generated BlTxID lag through hand-assembled replicated txs). Completeness: every honest DualProof/DualProofV2/LinearProof/LinearAdvanceProof/entry inclusion proof verifies against independent reference hashes. Soundness: mutated, spliced (from F), relabelled and re-hashed answers are pushed through the verification steps of verifiedGet; accept => the accepted Alh and entry are H's (or F's when F truly extends the trusted state). Equivocation sessions: an honest linear chain with a Merkle tree holding another tx's Alh at generated positions; a client session must never accept a contradicting tree or two Alh under one id. Client/server: bufconn server + pkg/client, altered replies for VerifiedGet/At/Since/AtRevision/TxByID/Set/SetReference/ZAdd/VerifyRow; success => stored state true, non-decreasing, returned data is the history's.",
   note="Trusted: SHA-256 collision resistance and the re-statement of the hash definitions in checks/c01/ref_test.go. K01b/K01g repaired and pinned; K01a, K01c-f (client returns unverified reply fields; v0 metadata; VerifyRow trusts the reply's catalog) pinned and excluded as exact classes. VerifyDocument end-to-end, streaming calls, other-language SDKs not driven."),
}

NOT_YET = "check not built yet in this session (work in progress; see DESIGN.md §2 for the planned harness)"

checks, na = [], []
for p in props:
    i = p['id']
    if i in CHECKS:
        c = CHECKS[i]
        checks.append({
            "property_id": i,
            "quick_cmd": "./check %s quick" % i,
            "thorough_cmd": "./check %s thorough" % i,
            "evidence_file": "/verif/evidence/%s.json" % i,
            "replay_cmd_template": "./check %s --replay {path}" % i,
            "engine": "vcheck+rapid",
            "level_claimed": {"category": c['level'], "text": c['text'], "design_ref": c['design']},
            "level_note": c['note'],
            "technique": c['technique'],
        })
    else:
        na.append({"property_id": i, "reason": NOT_YET})

m = {
 "version": 1,
 "setup_cmd": "unset GOTOOLCHAIN GOSUMDB; export GOFLAGS=-mod=mod GOPROXY=off; go build -o bin/vcheck ./cmd/vcheck && go vet ./internal/... ./cmd/... && go test -count=1 -run '^$' ./checks/... >/dev/null",
 "hooks": {
   "guard": "verif",
   "enable": "go test -tags verif (the checks pass -tags verif; at present no source file in /repo is guarded by it: all seams used are public APIs — store.Options.WithAppFactory, multiapp hooks)",
   "baseline_off_cmd": "cd /repo && go test -vet=off -count=1 -timeout 25m ./...",
   "source_commits": [],
   "add_only": True
 },
 "engines": [
   {"name": "vcheck+rapid", "path": "/verif/cmd/vcheck", "serves_properties": sorted(CHECKS.keys()),
    "kind_free_text": "Go driver that builds each property's test package against /repo's working tree, shards pgregory.net/rapid v1.3.0 property runs over processes by VERIF_SEED, merges measured evidence, handles known findings and replay files; native go fuzzing in the thorough tier for byte-level targets"}
 ],
 "checks": checks,
 "not_applicable": na,
 "notes": "All checks are property-based tests / fuzzers (generated-input search against an explicit oracle). Exit 0 = held on everything explored; 1 = VIOLATION line; 2 = infrastructure problem (inconclusive). Known findings: /verif/known_findings.json."
}
json.dump(m, open(os.path.join(root, 'MANIFEST.json'), 'w'), indent=1)
print("MANIFEST.json written: %d checks, %d not_applicable" % (len(checks), len(na)))
