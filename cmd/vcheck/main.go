// vcheck is the driver of the /verif checks.
//
//	vcheck C08 --tier quick|thorough        run the check of one property
//	vcheck C08 --replay replays/_new/x.json re-run a saved failing case
//
// Exit codes: 0 = property held on everything explored, 1 = VIOLATION
// (a line "VIOLATION property=<id> replay=<path>" is printed), 2 =
// infrastructure problem (build error, timeout, worker death) — inconclusive.
package main

import (
	"bufio"
	"bytes"
	"context"
	"encoding/json"
	"fmt"
	"os"
	"os/exec"
	"path/filepath"
	"regexp"
	"sort"
	"strconv"
	"strings"
	"sync"
	"time"
)

type fuzzTarget struct {
	Name    string `json:"name"`
	Seconds int    `json:"seconds"`
}

type checkCfg struct {
	QuickShards      int          `json:"quick_shards"`
	QuickScale       int          `json:"quick_scale"` // quick-tier case counts of the package are multiplied by this (default 1)
	ThoroughShards   int          `json:"thorough_shards"`
	QuickTimeoutS    int          `json:"quick_timeout_s"`
	ThoroughTimeoutS int          `json:"thorough_timeout_s"`
	Fuzz             []fuzzTarget `json:"fuzz"`
	Race             bool         `json:"race"`
}

type part struct {
	Property      string              `json:"property"`
	Level         string              `json:"level"`
	Tier          string              `json:"tier"`
	Seed          int64               `json:"seed"`
	Shard         int                 `json:"shard"`
	Evaluations   int64               `json:"evaluations"`
	Hashes        []uint64            `json:"hashes"`
	Labels        map[string]int64    `json:"labels"`
	Samples       []json.RawMessage   `json:"samples"`
	Violations    int                 `json:"violations"`
	Replays       []string            `json:"replays"`
	KnownFindings []string            `json:"known_findings"`
	Excluded      map[string]int64    `json:"excluded_by_known_finding"`
	Tests         map[string]testStat `json:"tests"`
	Rule          string              `json:"rule"`
	Assumptions   []string            `json:"assumptions"`
	WallS         float64             `json:"wall_s"`
	Exhaustive    map[string]bool     `json:"exhaustive"`
}

type testStat struct {
	Requested   int     `json:"requested"`
	Evaluations int64   `json:"evaluations"`
	NonTrivial  int64   `json:"nontrivial"`
	WallS       float64 `json:"wall_s"`
}

func die(code int, format string, args ...any) {
	fmt.Printf(format+"\n", args...)
	os.Exit(code)
}

func goEnv() []string {
	var env []string
	for _, e := range os.Environ() {
		if strings.HasPrefix(e, "GOTOOLCHAIN=") || strings.HasPrefix(e, "GOSUMDB=") || strings.HasPrefix(e, "GOFLAGS=") || strings.HasPrefix(e, "GOPROXY=") {
			continue
		}
		env = append(env, e)
	}
	return append(env, "GOFLAGS=-mod=mod", "GOPROXY=off")
}

func main() {
	if len(os.Args) < 2 {
		die(2, "usage: vcheck <Cxx> [--tier quick|thorough] [--replay file]")
	}
	prop := strings.ToUpper(os.Args[1])
	tier := os.Getenv("VERIF_TIER")
	replay := ""
	for i := 2; i < len(os.Args); i++ {
		switch os.Args[i] {
		case "--tier":
			i++
			tier = os.Args[i]
		case "--replay":
			i++
			replay = os.Args[i]
		}
	}
	if tier != "thorough" {
		tier = "quick"
	}
	seed := int64(1)
	if s := os.Getenv("VERIF_SEED"); s != "" {
		if v, err := strconv.ParseInt(s, 10, 64); err == nil {
			seed = v
		}
	}
	root, _ := os.Getwd()
	if r := os.Getenv("VERIF_ROOT"); r != "" {
		root = r
	}
	if _, err := os.Stat(filepath.Join(root, "MANIFEST.json")); err != nil {
		exe, _ := os.Executable()
		root = filepath.Dir(filepath.Dir(exe))
	}
	os.Chdir(root)
	pkgDir := filepath.Join(root, "checks", strings.ToLower(prop))
	if _, err := os.Stat(pkgDir); err != nil {
		die(2, "INFRA: no check package for %s", prop)
	}
	cfg := checkCfg{QuickShards: 8, ThoroughShards: 16, QuickTimeoutS: 900, ThoroughTimeoutS: 3 * 3600}
	if b, err := os.ReadFile(filepath.Join(pkgDir, "vcheck.json")); err == nil {
		if err := json.Unmarshal(b, &cfg); err != nil {
			die(2, "INFRA: bad vcheck.json: %v", err)
		}
	}
	t0 := time.Now()

	// 1. build against /repo's current working tree
	bin := filepath.Join(root, "bin", strings.ToLower(prop)+".test")
	os.MkdirAll(filepath.Join(root, "bin"), 0o755)
	args := []string{"test", "-c", "-tags", "verif", "-o", bin}
	if alt := os.Getenv("VERIF_REPO"); alt != "" && alt != "/repo" {
		// build against another copy of the repository (mutant / scratch worktree): the
		// harness module is used with an alternative go.mod whose replace points there
		mf, err := altModfile(root, alt)
		if err != nil {
			die(2, "INFRA: %v", err)
		}
		bin = filepath.Join(root, "bin", strings.ToLower(prop)+"-"+filepath.Base(alt)+".test")
		args = []string{"test", "-c", "-tags", "verif", "-modfile", mf, "-o", bin}
		fmt.Printf("NOTE: building against %s\n", alt)
	}
	if cfg.Race {
		args = append(args, "-race")
	}
	args = append(args, "./checks/"+strings.ToLower(prop))
	cmd := exec.Command("go", args...)
	cmd.Env = goEnv()
	cmd.Dir = root
	if out, err := cmd.CombinedOutput(); err != nil {
		fmt.Printf("%s\n", out)
		die(2, "INFRA: build of %s failed: %v", prop, err)
	}

	if replay != "" {
		os.Exit(runReplay(root, pkgDir, bin, prop, replay))
	}

	shards := cfg.QuickShards
	timeout := time.Duration(cfg.QuickTimeoutS) * time.Second
	if tier == "thorough" {
		shards = cfg.ThoroughShards
		timeout = time.Duration(cfg.ThoroughTimeoutS) * time.Second
	}
	if s := os.Getenv("VERIF_SHARDS_OVERRIDE"); s != "" {
		if v, err := strconv.Atoi(s); err == nil && v > 0 {
			shards = v
		}
	}
	// per-run directories so that two runs of the same property (e.g. against two mutants) do not collide
	partsDir := filepath.Join(root, "evidence", ".parts", fmt.Sprintf("%s-%d", prop, os.Getpid()))
	logsDir := filepath.Join(root, "evidence", ".logs")
	if alt := os.Getenv("VERIF_REPO"); alt != "" && alt != "/repo" {
		logsDir = filepath.Join(logsDir, filepath.Base(alt))
	}
	os.MkdirAll(partsDir, 0o755)
	os.MkdirAll(logsDir, 0o755)

	type res struct {
		shard int
		out   []byte
		err   error
		timed bool
		part  *part
	}
	results := make([]res, shards)
	var wg sync.WaitGroup
	for i := 0; i < shards; i++ {
		wg.Add(1)
		go func(i int) {
			defer wg.Done()
			pf := filepath.Join(partsDir, fmt.Sprintf("%s-%d.json", prop, i))
			os.Remove(pf)
			ctx, cancel := context.WithTimeout(context.Background(), timeout)
			defer cancel()
			c := exec.CommandContext(ctx, bin, "-test.v", "-test.timeout", "0", "-test.count", "1")
			c.Dir = pkgDir
			c.Env = append(os.Environ(),
				"VERIF_ROOT="+root, "VERIF_TIER="+tier, "VERIF_SEED="+strconv.FormatInt(seed, 10),
				"VERIF_SHARD="+strconv.Itoa(i), "VERIF_SHARDS="+strconv.Itoa(shards), "VERIF_PART_OUT="+pf,
				"VERIF_QUICK_SCALE="+strconv.Itoa(max(1, cfg.QuickScale)))
			c.WaitDelay = 10 * time.Second
			out, err := c.CombinedOutput()
			r := res{shard: i, out: out, err: err, timed: ctx.Err() == context.DeadlineExceeded}
			if b, e := os.ReadFile(pf); e == nil {
				var p part
				if json.Unmarshal(b, &p) == nil {
					r.part = &p
				}
			}
			os.WriteFile(filepath.Join(logsDir, fmt.Sprintf("%s-%s-%d.log", prop, tier, i)), out, 0o644)
			results[i] = r
		}(i)
	}
	wg.Wait()

	// 2. merge
	var (
		ev          int64
		hashes      = map[uint64]struct{}{}
		labels      = map[string]int64{}
		excluded    = map[string]int64{}
		tests       = map[string]testStat{}
		samples     []json.RawMessage
		violations  int
		replays     []string
		kfLines     = map[string]bool{}
		violLines   = map[string]bool{}
		infra       []string
		rule, level string
		assumptions []string
		exhaustive  = map[string]bool{}
	)
	reKF := regexp.MustCompile(`^KNOWN-FINDING: .*`)
	reV := regexp.MustCompile(`^VIOLATION property=\S+ replay=\S+`)
	for _, r := range results {
		sc := bufio.NewScanner(bytes.NewReader(r.out))
		sc.Buffer(make([]byte, 1<<20), 1<<26)
		for sc.Scan() {
			l := strings.TrimSpace(sc.Text())
			if m := reKF.FindString(l); m != "" {
				// strip the trailing [detail] for dedup
				key := m
				if i := strings.Index(key, " ["); i > 0 {
					key = key[:i]
				}
				if !kfLines[key] {
					kfLines[key] = true
					fmt.Println(m)
				}
			}
			if m := reV.FindString(l); m != "" {
				violLines[m] = true
			}
		}
		if r.part == nil {
			infra = append(infra, fmt.Sprintf("shard %d: no part file (err=%v timed_out=%v)", r.shard, r.err, r.timed))
			continue
		}
		if r.timed {
			infra = append(infra, fmt.Sprintf("shard %d: timed out", r.shard))
		}
		if r.err != nil && r.part.Violations == 0 {
			infra = append(infra, fmt.Sprintf("shard %d: exit %v without violation (see evidence/.logs)", r.shard, r.err))
		}
		p := r.part
		ev += p.Evaluations
		for _, h := range p.Hashes {
			hashes[h] = struct{}{}
		}
		for k, v := range p.Labels {
			labels[k] += v
		}
		for k, v := range p.Excluded {
			excluded[k] += v
		}
		for k, v := range p.Tests {
			t := tests[k]
			t.Requested += v.Requested
			t.Evaluations += v.Evaluations
			t.NonTrivial += v.NonTrivial
			if v.WallS > t.WallS {
				t.WallS = v.WallS
			}
			tests[k] = t
		}
		if len(samples) < 16 {
			for _, s := range p.Samples {
				if len(samples) < 16 {
					samples = append(samples, s)
				}
			}
		}
		violations += p.Violations
		replays = append(replays, p.Replays...)
		rule, level, assumptions = p.Rule, p.Level, p.Assumptions
		for k, v := range p.Exhaustive {
			if v {
				exhaustive[k] = true
			}
		}
	}

	os.RemoveAll(partsDir)

	// 3. native fuzzing (thorough only)
	fuzzStats := map[string]any{}
	if tier == "thorough" && violations == 0 && len(infra) == 0 {
		for _, ft := range cfg.Fuzz {
			secs := ft.Seconds
			if s := os.Getenv("VERIF_FUZZ_SECONDS"); s != "" {
				if v, err := strconv.Atoi(s); err == nil {
					secs = v
				}
			}
			execs, crash, out, err := runFuzz(root, prop, ft.Name, secs)
			os.WriteFile(filepath.Join(logsDir, fmt.Sprintf("%s-fuzz-%s.log", prop, ft.Name)), out, 0o644)
			fuzzStats[ft.Name] = map[string]any{"execs": execs, "seconds": secs}
			ev += execs
			labels["fuzz/"+ft.Name+"/execs"] += execs
			if crash != "" {
				dst := filepath.Join(root, "replays", "_new", fmt.Sprintf("%s-%s-%s", prop, ft.Name, filepath.Base(crash)))
				os.MkdirAll(filepath.Dir(dst), 0o755)
				if b, e := os.ReadFile(crash); e == nil {
					os.WriteFile(dst, b, 0o644)
					os.Remove(crash)
				}
				violLines[fmt.Sprintf("VIOLATION property=%s replay=%s", prop, dst)] = true
				violations++
				replays = append(replays, dst)
			} else if err != nil {
				infra = append(infra, fmt.Sprintf("fuzz %s: %v", ft.Name, err))
			}
		}
	}

	if level == "" {
		level = "exploration"
	}
	cov := map[string]any{
		"evaluations":               ev,
		"distinct_nontrivial":       len(hashes),
		"rule":                      rule,
		"samples":                   samples,
		"labels":                    labels,
		"tests":                     tests,
		"shards":                    shards,
		"excluded_by_known_finding": excluded,
		"known_findings_reported":   keys(kfLines),
	}
	if len(fuzzStats) > 0 {
		cov["native_fuzz"] = fuzzStats
	}
	if len(exhaustive) > 0 {
		cov["exhaustive_subspaces"] = keysB(exhaustive)
	}
	if len(infra) > 0 {
		cov["infrastructure_problems"] = infra
	}
	evid := map[string]any{
		"property_id": prop,
		"tier":        tier,
		"seed":        seed,
		"level":       level,
		"coverage":    cov,
		"assumptions": assumptions,
		"wall_s":      time.Since(t0).Seconds(),
		"violations":  violations,
	}
	if replays != nil {
		evid["replays"] = replays
	}
	b, _ := json.MarshalIndent(evid, "", " ")
	evPath := filepath.Join(root, "evidence", prop+".json")
	if alt := os.Getenv("VERIF_REPO"); alt != "" && alt != "/repo" {
		evPath = filepath.Join(logsDir, prop+".evidence.json") // runs against a scratch copy never touch the real evidence
	}
	if len(samples) > 0 || violations > 0 {
		os.WriteFile(evPath, b, 0o644)
		if tier == "thorough" && os.Getenv("VERIF_REPO") == "" {
			// keep a copy: the next quick run rewrites evidence/<id>.json
			os.MkdirAll(filepath.Join(root, "evidence", "thorough"), 0o755)
			os.WriteFile(filepath.Join(root, "evidence", "thorough", prop+".json"), b, 0o644)
		}
	}

	vl := keys(violLines)
	for _, l := range vl {
		fmt.Println(l)
	}
	fmt.Printf("%s tier=%s seed=%d shards=%d evaluations=%d distinct_nontrivial=%d violations=%d wall=%.1fs\n",
		prop, tier, seed, shards, ev, len(hashes), violations, time.Since(t0).Seconds())
	names := make([]string, 0, len(tests))
	for k := range tests {
		names = append(names, k)
	}
	sort.Strings(names)
	for _, k := range names {
		t := tests[k]
		fmt.Printf("  %-46s requested=%-8d ran=%-8d nontrivial=%-8d wall=%.1fs\n", k, t.Requested, t.Evaluations, t.NonTrivial, t.WallS)
	}
	if violations > 0 || len(vl) > 0 {
		if len(vl) == 0 {
			fmt.Printf("VIOLATION property=%s replay=%s\n", prop, filepath.Join(root, "evidence", prop+".json"))
		}
		os.Exit(1)
	}
	if len(infra) > 0 {
		for _, l := range infra {
			fmt.Println("INFRA:", l)
		}
		os.Exit(2)
	}
	if len(samples) == 0 || len(hashes) < 2 {
		die(2, "INFRA: run produced no non-trivial cases (generator problem)")
	}
	os.Exit(0)
}

func altModfile(root, alt string) (string, error) {
	b, err := os.ReadFile(filepath.Join(root, "go.mod"))
	if err != nil {
		return "", err
	}
	dir := filepath.Join(root, "bin", "modfiles")
	os.MkdirAll(dir, 0o755)
	name := strings.NewReplacer("/", "_").Replace(strings.Trim(alt, "/"))
	mf := filepath.Join(dir, name+".mod")
	nb := bytes.ReplaceAll(b, []byte("=> /repo"), []byte("=> "+alt))
	if err := os.WriteFile(mf, nb, 0o644); err != nil {
		return "", err
	}
	sum, _ := os.ReadFile(filepath.Join(root, "go.sum"))
	os.WriteFile(filepath.Join(dir, name+".sum"), sum, 0o644)
	return mf, nil
}

func keys(m map[string]bool) []string {
	out := make([]string, 0, len(m))
	for k := range m {
		out = append(out, k)
	}
	sort.Strings(out)
	return out
}
func keysB(m map[string]bool) []string { return keys(m) }

var reExecs = regexp.MustCompile(`execs: (\d+)`)
var reCrash = regexp.MustCompile(`Failing input written to (\S+)`)

func runFuzz(root, prop, name string, secs int) (int64, string, []byte, error) {
	pkg := "./checks/" + strings.ToLower(prop)
	ctx, cancel := context.WithTimeout(context.Background(), time.Duration(secs+600)*time.Second)
	defer cancel()
	c := exec.CommandContext(ctx, "go", "test", "-tags", "verif", "-run", "^$", "-fuzz", "^"+name+"$", "-fuzztime", fmt.Sprintf("%ds", secs), pkg)
	c.Dir = root
	c.Env = append(goEnv(), "VERIF_ROOT="+root, "VERIF_TIER=thorough", "VERIF_FUZZING=1")
	out, err := c.CombinedOutput()
	var execs int64
	for _, m := range reExecs.FindAllSubmatch(out, -1) {
		if v, e := strconv.ParseInt(string(m[1]), 10, 64); e == nil && v > execs {
			execs = v
		}
	}
	crash := ""
	if m := reCrash.FindSubmatch(out); m != nil {
		crash = filepath.Join(root, "checks", strings.ToLower(prop), string(m[1]))
		if _, e := os.Stat(crash); e != nil {
			crash = string(m[1])
		}
	}
	if crash != "" {
		return execs, crash, out, nil
	}
	if err != nil && !bytes.Contains(out, []byte("FAIL")) {
		return execs, "", out, err
	}
	if err != nil {
		// failed without a saved input (e.g. seed corpus entry failing)
		return execs, "", out, fmt.Errorf("fuzz run failed: %v", err)
	}
	return execs, "", out, nil
}

func runReplay(root, pkgDir, bin, prop, path string) int {
	b, err := os.ReadFile(path)
	if err != nil {
		die(2, "INFRA: %v", err)
	}
	var rep struct {
		Test     string `json:"test"`
		FailFile string `json:"rapid_failfile"`
		Seed     int64  `json:"verif_seed"`
		Tier     string `json:"tier"`
	}
	if json.Unmarshal(b, &rep) != nil || rep.Test == "" {
		die(2, "INFRA: %s is not a replay file written by vk", path)
	}
	abs := rep.FailFile
	if abs != "" && !filepath.IsAbs(abs) {
		abs = filepath.Join(root, abs)
	}
	run := "^" + regexp.QuoteMeta(strings.SplitN(rep.Test, "/", 2)[0]) + "$"
	c := exec.Command(bin, "-test.v", "-test.run", run, "-test.timeout", "0")
	c.Dir = pkgDir
	c.Env = append(os.Environ(), "VERIF_ROOT="+root, "VERIF_TIER="+rep.Tier, "VERIF_SEED="+strconv.FormatInt(rep.Seed, 10),
		"VERIF_REPLAY=1", "VERIF_REPLAY_FAILFILE="+abs)
	out, err := c.CombinedOutput()
	os.Stdout.Write(out)
	if bytes.Contains(out, []byte("VIOLATION property=")) {
		return 1
	}
	if err != nil {
		return 2
	}
	return 0
}
