package c06

// Reference model of the KV / reference / sorted-set view that pkg/database
// exposes, as a function of the committed history: state(T) = everything
// written by the transactions 1..T, read back from the database after the run.

import (
	"bytes"
	"encoding/binary"
	"fmt"
	"math"
	"sort"
	"strings"
)

type vkind int

const (
	vValue vkind = iota
	vRef
	vDeleted
)

// ver is one version of a key of the KV index.
type ver struct {
	Tx     uint64
	HC     uint64 // revision (1-based position in the history of the key)
	Kind   vkind
	Val    []byte // user value (vValue)
	RefKey string // vRef: referenced user key
	RefAt  uint64 // vRef: 0 = unbound
	Raw    []byte // raw stored value
}

func (v ver) String() string {
	switch v.Kind {
	case vRef:
		return fmt.Sprintf("tx%d#%d ref->%s@%d", v.Tx, v.HC, v.RefKey, v.RefAt)
	case vDeleted:
		return fmt.Sprintf("tx%d#%d DELETED", v.Tx, v.HC)
	}
	return fmt.Sprintf("tx%d#%d =%q", v.Tx, v.HC, v.Val)
}

// zmem is one entry of the sorted-set index.
type zmem struct {
	Tx    uint64 // first tx that wrote this index key
	Set   string
	Score float64
	Key   string
	AtTx  uint64
	zkey  []byte // index key: order of iteration
}

// txEntry is one entry of a committed transaction as read back.
type txEntry struct {
	IsZ bool
	Key string // user key (KV) ; for zset entries the referenced user key
	V   ver
	Z   zmem
}

func (e txEntry) String() string {
	if e.IsZ {
		return fmt.Sprintf("zadd(%s,%g,%s@%d)", e.Z.Set, e.Z.Score, e.Z.Key, e.Z.AtTx)
	}
	switch e.V.Kind {
	case vRef:
		return fmt.Sprintf("%s->%s@%d", e.Key, e.V.RefKey, e.V.RefAt)
	case vDeleted:
		return fmt.Sprintf("del(%s)", e.Key)
	}
	return fmt.Sprintf("%s=%q", e.Key, e.V.Val)
}

type model struct {
	n    uint64               // number of committed txs
	txs  [][]txEntry          // txs[t] = entries of tx t (index 0 unused)
	kv   map[string][]ver     // key -> versions in commit order
	keys []string             // sorted keys that ever got a version
	zs   []zmem               // distinct sorted-set index keys, sorted by index key
	zseen map[string]uint64   // index key -> first tx
}

func newModel() *model {
	return &model{txs: [][]txEntry{nil}, kv: map[string][]ver{}, zseen: map[string]uint64{}}
}

// add appends the next committed transaction.
func (m *model) add(entries []txEntry) {
	m.n++
	t := m.n
	for i := range entries {
		e := &entries[i]
		if e.IsZ {
			e.Z.Tx = t
			if _, ok := m.zseen[string(e.Z.zkey)]; !ok {
				m.zseen[string(e.Z.zkey)] = t
				m.zs = append(m.zs, e.Z)
			}
			continue
		}
		e.V.Tx = t
		e.V.HC = uint64(len(m.kv[e.Key]) + 1)
		if len(m.kv[e.Key]) == 0 {
			m.keys = append(m.keys, e.Key)
		}
		m.kv[e.Key] = append(m.kv[e.Key], e.V)
	}
	m.txs = append(m.txs, entries)
}

func (m *model) finish() {
	sort.Strings(m.keys)
	sort.Slice(m.zs, func(i, j int) bool { return bytes.Compare(m.zs[i].zkey, m.zs[j].zkey) < 0 })
}

// versions of k up to tx T.
func (m *model) versions(k string, T uint64) []ver {
	vs := m.kv[k]
	n := sort.Search(len(vs), func(i int) bool { return vs[i].Tx > T })
	return vs[:n]
}

func (m *model) latest(k string, T uint64) (ver, bool) {
	vs := m.versions(k, T)
	if len(vs) == 0 {
		return ver{}, false
	}
	return vs[len(vs)-1], true
}

// entryAt returns the version of k written by tx t itself.
func (m *model) entryAt(k string, t uint64) (ver, bool) {
	if t == 0 || t > m.n {
		return ver{}, false
	}
	for _, e := range m.txs[t] {
		if !e.IsZ && e.Key == k {
			return e.V, true
		}
	}
	return ver{}, false
}

// writes reports whether tx t has an entry for user key k (KV index).
func (m *model) writes(t uint64, k string) bool {
	_, ok := m.entryAt(k, t)
	return ok
}

// ---------------------------------------------------------------------------
// results

// errClass is the classification of an API error.
type errClass string

const (
	eOK          errClass = ""
	eNotFound    errClass = "key-not-found"
	eInvalidRev  errClass = "invalid-revision"
	eResLimit    errClass = "resolution-limit"
	eNoMore      errClass = "no-more-entries"
	ePrecond     errClass = "precondition-failed"
	eConflict    errClass = "tx-read-conflict"
	eFinalKey    errClass = "final-key-cannot-be-converted-into-reference"
	eRefIsRef    errClass = "referenced-key-cannot-be-a-reference"
	eTxNotFound  errClass = "tx-not-found"
	eOther       errClass = "other"
)

// ent is the comparable form of schema.Entry.
type ent struct {
	Tx, Rev  uint64
	Key      string
	Val      string
	Deleted  bool // History only
	HasRef   bool
	RefTx    uint64
	RefKey   string
	RefAt    uint64
	RefRev   uint64
}

func (e ent) String() string {
	s := fmt.Sprintf("{%s=%q tx%d rev%d", e.Key, e.Val, e.Tx, e.Rev)
	if e.Deleted {
		s += " DEL"
	}
	if e.HasRef {
		s += fmt.Sprintf(" via %s(tx%d rev%d at%d)", e.RefKey, e.RefTx, e.RefRev, e.RefAt)
	}
	return s + "}"
}

// zent is the comparable form of schema.ZEntry.
type zent struct {
	Set   string
	Key   string
	Score float64
	AtTx  uint64
	E     ent
}

func (z zent) String() string { return fmt.Sprintf("<%s %g %s@%d %v>", z.Set, z.Score, z.Key, z.AtTx, z.E) }

// outcome is the comparable result of any read.
type outcome struct {
	Err   errClass
	Ents  []ent
	ZEnts []zent
	Count uint64
	IsCnt bool
}

func (o outcome) String() string {
	if o.Err != eOK {
		return "err:" + string(o.Err)
	}
	if o.IsCnt {
		return fmt.Sprintf("count=%d", o.Count)
	}
	var sb strings.Builder
	sb.WriteString("[")
	for i, e := range o.Ents {
		if i > 0 {
			sb.WriteString(" ")
		}
		sb.WriteString(e.String())
	}
	for i, e := range o.ZEnts {
		if i > 0 {
			sb.WriteString(" ")
		}
		sb.WriteString(e.String())
	}
	sb.WriteString("]")
	return sb.String()
}

func (o outcome) equal(p outcome) bool { return o.String() == p.String() }

// ---------------------------------------------------------------------------
// resolution (mirrors db.getAtTx / db.resolveValue)

const maxKeyResolutionLimit = 1

// getAtTx: the entry of key as seen through an index at state T (atTx==0) or
// the entry written by tx atTx; references are resolved through the index at
// state T2 (T2==T for atomic reads).
func (m *model) getAtTx(key string, atTx uint64, resolved int, T, T2 uint64, revision uint64) (ent, errClass) {
	var v ver
	var txID uint64
	if atTx == 0 {
		lv, ok := m.latest(key, T)
		if !ok || lv.Kind == vDeleted {
			return ent{}, eNotFound
		}
		v, txID, revision = lv, lv.Tx, lv.HC
	} else {
		if atTx > m.n {
			return ent{}, eTxNotFound
		}
		ev, ok := m.entryAt(key, atTx)
		if !ok {
			return ent{}, eNotFound
		}
		v, txID = ev, atTx
	}
	if v.Kind == vDeleted {
		return ent{}, eNotFound
	}
	if v.Kind == vRef {
		if resolved == maxKeyResolutionLimit {
			return ent{}, eResLimit
		}
		e, ec := m.getAtTx(v.RefKey, v.RefAt, resolved+1, T2, T2, 0)
		if ec != eOK {
			return ent{}, ec
		}
		e.HasRef, e.RefTx, e.RefKey, e.RefAt, e.RefRev = true, txID, key, v.RefAt, revision
		return e, eOK
	}
	return ent{Tx: txID, Rev: revision, Key: key, Val: string(v.Val)}, eOK
}

// get: db.Get without AtTx / AtRevision at state T.
func (m *model) get(key string, T, T2 uint64) outcome {
	e, ec := m.getAtTx(key, 0, 0, T, T2, 0)
	if ec != eOK {
		return outcome{Err: ec}
	}
	return outcome{Ents: []ent{e}}
}

// getAt: db.Get with AtTx.
func (m *model) getAt(key string, atTx uint64, T uint64) outcome {
	e, ec := m.getAtTx(key, atTx, 0, T, T, 0)
	if ec != eOK {
		return outcome{Err: ec}
	}
	return outcome{Ents: []ent{e}}
}

// getRev: db.Get with AtRevision.
func (m *model) getRev(key string, rev int64, T, T2 uint64) outcome {
	vs := m.versions(key, T)
	if len(vs) == 0 {
		return outcome{Err: eNotFound}
	}
	hc := uint64(len(vs))
	var idx uint64
	var number uint64
	if rev > 0 {
		off := uint64(rev) - 1
		if off >= hc {
			return outcome{Err: eInvalidRev}
		}
		idx, number = off, uint64(rev)
	} else {
		off := uint64(-rev)
		if off >= hc {
			return outcome{Err: eInvalidRev}
		}
		idx = hc - 1 - off
		number = uint64(int64(hc) + rev)
	}
	e, ec := m.getAtTx(key, vs[idx].Tx, 0, T2, T2, number)
	if ec != eOK {
		return outcome{Err: ec}
	}
	return outcome{Ents: []ent{e}}
}

// getAll: db.GetAll on one snapshot.
func (m *model) getAll(keys []string, T uint64) outcome {
	var out outcome
	for _, k := range keys {
		e, ec := m.getAtTx(k, 0, 0, T, T, 0)
		if ec == eNotFound {
			continue
		}
		if ec != eOK {
			return outcome{Err: ec}
		}
		out.Ents = append(out.Ents, e)
	}
	return out
}

type scanSpec struct {
	Prefix, Seek, End   string
	Desc, InclSeek, InclEnd bool
	Limit, Offset       uint64
}

const maxResult = 2500

// scan: db.Scan on one snapshot. All generated seek/end keys carry the prefix.
func (m *model) scan(s scanSpec, T uint64) outcome {
	var cand []string
	for _, k := range m.keys {
		if !strings.HasPrefix(k, s.Prefix) {
			continue
		}
		lv, ok := m.latest(k, T)
		if !ok || lv.Kind == vDeleted {
			continue
		}
		if !s.Desc {
			if s.Seek != "" && (k < s.Seek || (k == s.Seek && !s.InclSeek)) {
				continue
			}
			if s.End != "" && (k > s.End || (k == s.End && !s.InclEnd)) {
				continue
			}
		} else {
			if s.Seek != "" && (k > s.Seek || (k == s.Seek && !s.InclSeek)) {
				continue
			}
			if s.End != "" && (k < s.End || (k == s.End && !s.InclEnd)) {
				continue
			}
		}
		cand = append(cand, k)
	}
	if s.Desc {
		for i, j := 0, len(cand)-1; i < j; i, j = i+1, j-1 {
			cand[i], cand[j] = cand[j], cand[i]
		}
	}
	if uint64(len(cand)) <= s.Offset {
		cand = nil
	} else {
		cand = cand[s.Offset:]
	}
	limit := s.Limit
	if limit == 0 {
		limit = maxResult
	}
	var out outcome
	for i, k := range cand {
		if uint64(i) >= limit {
			break
		}
		lv, _ := m.latest(k, T)
		e, ec := m.getAtTx(k, lv.Tx, 0, T, T, lv.HC)
		if ec == eNotFound {
			continue
		}
		if ec != eOK {
			return outcome{Err: ec}
		}
		out.Ents = append(out.Ents, e)
	}
	return out
}

type zscanSpec struct {
	Set            string
	Desc           bool
	HasMin, HasMax bool
	Min, Max       float64
	Limit, Offset  uint64
}

func zIndexKey(set string, score float64, key string, atTx uint64) []byte {
	b := make([]byte, 0, 64)
	b = append(b, 1)
	b = binary.BigEndian.AppendUint64(b, uint64(len(set)))
	b = append(b, set...)
	b = binary.BigEndian.AppendUint64(b, math.Float64bits(score))
	b = binary.BigEndian.AppendUint64(b, uint64(len(key)+1))
	b = append(b, 0)
	b = append(b, key...)
	b = binary.BigEndian.AppendUint64(b, atTx)
	return b
}

// zscan: db.ZScan with the members as of Tz and the values as of Tk (Tz==Tk for
// an atomic read). Only non-negative scores are generated, so index-key order is
// (score, key length, key, atTx).
func (m *model) zscan(s zscanSpec, Tz, Tk uint64) outcome {
	var cand []zmem
	for _, z := range m.zs { // sorted by index key
		if z.Set != s.Set || z.Tx > Tz {
			continue
		}
		cand = append(cand, z)
	}
	// seek position (no SeekKey generated)
	if !s.Desc {
		if s.HasMin {
			var c2 []zmem
			for _, z := range cand {
				if z.Score >= s.Min {
					c2 = append(c2, z)
				}
			}
			cand = c2
		}
	} else {
		maxScore := math.MaxFloat64
		if s.HasMax {
			maxScore = s.Max
		}
		var c2 []zmem
		for i := len(cand) - 1; i >= 0; i-- {
			// index keys <= prefix+bits(maxScore): strictly smaller score (generated bounds never equal a member score)
			if cand[i].Score < maxScore {
				c2 = append(c2, cand[i])
			}
		}
		cand = c2
	}
	if uint64(len(cand)) <= s.Offset {
		cand = nil
	} else {
		cand = cand[s.Offset:]
	}
	limit := s.Limit
	if limit == 0 {
		limit = maxResult
	}
	var out outcome
	for i, z := range cand {
		if uint64(i) >= limit {
			break
		}
		if s.HasMin && z.Score < s.Min {
			continue
		}
		if s.HasMax && z.Score > s.Max {
			continue
		}
		e, ec := m.getAtTx(z.Key, z.AtTx, 1, Tk, Tk, 0)
		if ec == eNotFound {
			continue
		}
		if ec != eOK {
			return outcome{Err: ec}
		}
		out.ZEnts = append(out.ZEnts, zent{Set: z.Set, Key: z.Key, Score: z.Score, AtTx: z.AtTx, E: e})
	}
	return out
}

// count: number of keys with the prefix that have any version up to T (all) and
// the number whose latest version is not a delete (live).
func (m *model) count(prefix string, T uint64) (all, live uint64) {
	for _, k := range m.keys {
		if !strings.HasPrefix(k, prefix) {
			continue
		}
		lv, ok := m.latest(k, T)
		if !ok {
			continue
		}
		all++
		if lv.Kind != vDeleted {
			live++
		}
	}
	return
}

// history: db.History on the live index at state T.
func (m *model) history(key string, offset uint64, desc bool, limit int, T uint64) outcome {
	vs := m.versions(key, T)
	if len(vs) == 0 {
		return outcome{Err: eNotFound}
	}
	hc := uint64(len(vs))
	if offset == hc {
		return outcome{Err: eNoMore}
	}
	var out outcome
	out.Ents = []ent{}
	if offset > hc {
		return out
	}
	if limit == 0 {
		limit = maxResult
	}
	n := uint64(limit)
	if n > hc-offset {
		n = hc - offset
	}
	for i := uint64(0); i < n; i++ {
		var v ver
		if desc {
			v = vs[hc-1-offset-i]
		} else {
			v = vs[offset+i]
		}
		val := ""
		if len(v.Raw) > 0 {
			val = string(v.Raw[1:])
		}
		out.Ents = append(out.Ents, ent{Tx: v.Tx, Rev: v.HC, Key: key, Val: val, Deleted: v.Kind == vDeleted})
	}
	return out
}

// ---------------------------------------------------------------------------
// preconditions

type precond struct {
	Kind string // "exist" | "notexist" | "notmod"
	Key  string
	Tx   uint64
}

func (p precond) String() string {
	if p.Kind == "notmod" {
		return fmt.Sprintf("notmod(%s,%d)", p.Key, p.Tx)
	}
	return p.Kind + "(" + p.Key + ")"
}

func (m *model) holds(p precond, T uint64) bool {
	lv, ok := m.latest(p.Key, T)
	switch p.Kind {
	case "exist":
		return ok && lv.Kind != vDeleted
	case "notexist":
		return !ok || lv.Kind == vDeleted
	default:
		return !ok || lv.Tx <= p.Tx
	}
}

func (m *model) allHold(ps []precond, T uint64) bool {
	for _, p := range ps {
		if !m.holds(p, T) {
			return false
		}
	}
	return true
}

// ---------------------------------------------------------------------------
// implicit validations of SetReference / ZAdd / ExecAll (state T = the state the
// write is applied on)

// refTargetCheck: "referenced key exists and is not a reference".
func (m *model) refTargetCheck(target string, atTx uint64, T uint64) errClass {
	e, ec := m.getAtTx(target, atTx, 0, T, T, 0)
	if ec != eOK {
		return ec
	}
	if e.HasRef {
		return eRefIsRef
	}
	return eOK
}

// finalKeyCheck: "key does not exist or is already a reference".
func (m *model) finalKeyCheck(key string, atTx uint64, T uint64) errClass {
	e, ec := m.getAtTx(key, atTx, 0, T, T, 0)
	if ec == eNotFound {
		return eOK
	}
	if ec != eOK {
		return ec
	}
	if !e.HasRef {
		return eFinalKey
	}
	return eOK
}
