package c06

// The oracle: every logged call must be explained by the committed history.
//   - writes: unique tx ids inside (Lo,Hi], content equal to the request, all
//     (explicit and implicit) conditions true on state(id-1); a refused write must
//     be refusable on state(T) for some T in [Lo,Hi];
//   - reads: result == model(state(T)) for ONE T in the window.

import (
	"fmt"
	"sort"
	"strings"
)

type verdict struct {
	ok    bool
	msg   string
	class string // known-finding class that explains the failure ("" = none)
}

type stats struct {
	readsOverlapWrite int // reads whose window holds a write to a key they concern
	racingCond        int // pairs of overlapping conditional writes on one key
	precondOK         int
	precondRejected   int
	condRaceLost      int // rejected conditional writes whose condition held at Lo (lost a race)
	conflicts         int
	deleteNotFound    int
	implicitRejected  int
	refReads          int
	classes           map[string]int // failures explained by a known-finding class
	countAll          int
	countLive         int
	maxWindow         uint64
	kinds             map[string]int
}

// lower bound of the window of a read.
func (r *rec) lower() uint64 {
	if r.Since > 0 {
		return r.Since
	}
	return r.Lo
}

// expectedWriteErr: what the write would answer if it were applied on state(T).
func expectedWriteErr(m *model, r *rec, T uint64) errClass {
	switch r.Kind {
	case "delete":
		for _, s := range r.Sub {
			lv, ok := m.latest(s.Key, T)
			if !ok || lv.Kind == vDeleted {
				return eNotFound
			}
		}
		return eOK
	case "setref":
		s := r.Sub[0]
		if ec := m.finalKeyCheck(s.Key, s.AtTx, T); ec != eOK {
			return ec
		}
		if ec := m.refTargetCheck(s.Target, s.AtTx, T); ec != eOK {
			return ec
		}
	case "zadd":
		s := r.Sub[0]
		if ec := m.refTargetCheck(s.Key, s.AtTx, T); ec != eOK {
			return ec
		}
	case "execall":
		own := map[string]bool{}
		for _, s := range r.Sub {
			switch s.Kind {
			case "kv":
				own[s.Key] = true
			case "ref":
				if ec := m.finalKeyCheck(s.Key, 0, T); ec != eOK {
					return ec
				}
				if !own[s.Target] || s.AtTx > 0 {
					if ec := m.refTargetCheck(s.Target, s.AtTx, T); ec != eOK {
						return ec
					}
				}
			case "zadd":
				if !own[s.Key] || s.AtTx > 0 {
					if ec := m.refTargetCheck(s.Key, s.AtTx, T); ec != eOK {
						return ec
					}
				}
			}
		}
	}
	if !m.allHold(r.Pre, T) {
		return ePrecond
	}
	return eOK
}

func entriesString(es []txEntry) string {
	var s []string
	for _, e := range es {
		s = append(s, e.String())
	}
	return strings.Join(s, " ")
}

// checkWrite verifies one logged write against the model.
func checkWrite(m *model, r *rec, st *stats) verdict {
	bad := func(f string, a ...any) verdict { return verdict{msg: fmt.Sprintf(f, a...)} }
	switch r.Err {
	case eOK:
		t := r.TxID
		if t <= r.Lo || t > r.Hi {
			return bad("write returned tx %d outside its call window (%d,%d]", t, r.Lo, r.Hi)
		}
		if t > m.n {
			return bad("write returned tx %d but only %d transactions are committed", t, m.n)
		}
		if got, want := entriesString(m.txs[t]), entriesString(r.wantEntries()); got != want {
			return bad("content of tx %d differs from the request: stored [%s], requested [%s]", t, got, want)
		}
		if ec := expectedWriteErr(m, r, t-1); ec != eOK {
			return bad("write was applied as tx %d although on state(%d) it must be refused with %q", t, t-1, ec)
		}
		if len(r.Pre) > 0 {
			st.precondOK++
		}
		return verdict{ok: true}
	case eConflict:
		if r.Kind != "delete" {
			return bad("unexpected read conflict on a write-only operation")
		}
		st.conflicts++
		return verdict{ok: true}
	case eOther:
		return bad("unexpected error: %s", r.ErrText)
	}
	// refused: must be refusable with that answer on some state of the window
	lo := r.Lo
	if r.Kind == "delete" && r.Since > 0 {
		lo = r.Since
	}
	var seen []string
	for T := lo; T <= r.Hi; T++ {
		ec := expectedWriteErr(m, r, T)
		if ec == r.Err {
			switch r.Err {
			case ePrecond:
				st.precondRejected++
				if expectedWriteErr(m, r, r.Lo) == eOK {
					st.condRaceLost++
				}
			case eNotFound:
				if r.Kind == "delete" {
					st.deleteNotFound++
				} else {
					st.implicitRejected++
				}
			default:
				st.implicitRejected++
			}
			return verdict{ok: true}
		}
		seen = append(seen, fmt.Sprintf("state(%d): %q", T, string(ec)))
	}
	return bad("write refused with %q, but on every state of its window it would answer: %s", r.Err, strings.Join(seen, ", "))
}

// expectedRead: the model's answer for the read on state T (T2 = state used for
// the second lookup of two-step reads; T2==T for an atomic read).
func expectedRead(m *model, r *rec, T, T2 uint64) outcome {
	switch r.Kind {
	case "get", "getsince":
		return m.get(r.Keys[0], T, T2)
	case "getat":
		return m.getAt(r.Keys[0], r.AtTx, T2)
	case "getrev":
		return m.getRev(r.Keys[0], r.Rev, T, T2)
	case "getall":
		return m.getAll(r.Keys, T)
	case "scan":
		return m.scan(r.Scan, T)
	case "zscan":
		return m.zscan(r.Z, T, T2)
	case "history":
		return m.history(r.Keys[0], r.HOff, r.HDesc, r.HLimit, T)
	}
	panic("expectedRead: " + r.Kind)
}

// checkRead verifies one logged read.
func checkRead(m *model, r *rec, st *stats) verdict {
	lo, hi := r.lower(), r.Hi
	if r.Kind == "getat" {
		// AtTx reads do not wait for the index by contract; the only state-dependent part is
		// the resolution of an unbound reference, bounded below by the writes that had returned
		lo = r.AckLo
	}
	if hi > m.n {
		return verdict{msg: fmt.Sprintf("return frontier %d beyond the %d committed transactions", hi, m.n)}
	}
	if hi-lo > st.maxWindow {
		st.maxWindow = hi - lo
	}
	if r.Out.Err == eOther {
		return verdict{msg: "unexpected error: " + r.ErrText}
	}
	if r.Kind == "count" {
		if r.Out.Err != eOK {
			return verdict{msg: "Count failed: " + r.ErrText}
		}
		var seen []string
		for T := lo; T <= hi; T++ {
			all, live := m.count(r.Prefix, T)
			if r.Out.Count == all {
				st.countAll++
				return verdict{ok: true}
			}
			if r.Out.Count == live {
				st.countLive++
				return verdict{ok: true}
			}
			seen = append(seen, fmt.Sprintf("state(%d): %d keys (%d not deleted)", T, all, live))
		}
		return verdict{msg: fmt.Sprintf("Count=%d matches no state of the window: %s", r.Out.Count, strings.Join(seen, ", "))}
	}
	var seen []string
	for T := lo; T <= hi; T++ {
		exp := expectedRead(m, r, T, T)
		if exp.equal(r.Out) {
			return verdict{ok: true}
		}
		seen = append(seen, fmt.Sprintf("state(%d): %s", T, exp))
	}
	// not atomic: can it be explained by two lookups on different states?
	switch r.Kind {
	case "get", "getsince", "getrev":
		// db.Get resolves an unbound reference with a second lookup on the live index
		for T := lo; T <= hi; T++ {
			for T2 := T + 1; T2 <= hi; T2++ {
				if expectedRead(m, r, T, T2).equal(r.Out) {
					return verdict{class: kTwoStep, msg: fmt.Sprintf("result %s equals no single state of the window [%d,%d] (%s); it is the reference as of state(%d) combined with its target as of state(%d)",
						r.Out, lo, hi, strings.Join(seen, ", "), T, T2)}
				}
			}
		}
	case "zscan":
		// db.ZScan takes one snapshot of the sorted-set index and another one of the KV index
		for T := lo; T <= hi; T++ {
			for T2 := lo; T2 <= hi; T2++ {
				if T2 != T && expectedRead(m, r, T, T2).equal(r.Out) {
					v := verdict{msg: fmt.Sprintf("result %s equals no single state of the window [%d,%d] (%s); it is the sorted set as of state(%d) combined with the values as of state(%d)",
						r.Out, lo, hi, strings.Join(seen, ", "), T, T2)}
					if r.Since > 0 {
						v.class = kZScanTorn
					}
					return v
				}
			}
		}
	}
	return verdict{msg: fmt.Sprintf("result %s equals no state of the window [%d,%d]: %s", r.Out, lo, hi, strings.Join(seen, ", "))}
}

// concerned: the user keys whose versions can influence the read.
func (r *rec) concerned(m *model, u universe) map[string]bool {
	ks := map[string]bool{}
	add := func(k string) {
		ks[k] = true
		// targets of references this key ever held
		for _, v := range m.kv[k] {
			if v.Kind == vRef {
				ks[v.RefKey] = true
			}
		}
	}
	switch r.Kind {
	case "scan":
		for _, k := range u.Keys {
			if strings.HasPrefix(k, r.Scan.Prefix) {
				add(k)
			}
		}
	case "count":
		for _, k := range u.Keys {
			if strings.HasPrefix(k, r.Prefix) {
				add(k)
			}
		}
	case "zscan":
		for _, z := range m.zs {
			if z.Set == r.Z.Set {
				add(z.Key)
			}
		}
	default:
		for _, k := range r.Keys {
			add(k)
		}
	}
	return ks
}

// overlapsWrite: some tx inside (lo,hi] writes a key the read concerns (or, for
// zscan, a member of the set).
func overlapsWrite(m *model, r *rec, u universe) bool {
	ks := r.concerned(m, u)
	for t := r.lower() + 1; t <= r.Hi && t <= m.n; t++ {
		for _, e := range m.txs[t] {
			if e.IsZ {
				if r.Kind == "zscan" && e.Z.Set == r.Z.Set {
					return true
				}
				continue
			}
			if ks[e.Key] {
				return true
			}
		}
	}
	return false
}

// racingConditionals counts pairs of conditional writes (explicit preconditions or
// delete) by different clients with overlapping windows and a common condition key.
func racingConditionals(recs []*rec) int {
	type cw struct {
		r    *rec
		keys map[string]bool
	}
	var cws []cw
	for _, r := range recs {
		if !r.IsWrite {
			continue
		}
		ks := map[string]bool{}
		for _, p := range r.Pre {
			ks[p.Key] = true
		}
		if r.Kind == "delete" {
			for _, s := range r.Sub {
				ks[s.Key] = true
			}
		}
		if len(ks) > 0 {
			cws = append(cws, cw{r, ks})
		}
	}
	n := 0
	for i := range cws {
		for j := i + 1; j < len(cws); j++ {
			a, b := cws[i].r, cws[j].r
			if a.Client == b.Client || a.Hi <= b.Lo || b.Hi <= a.Lo {
				continue
			}
			for k := range cws[i].keys {
				if cws[j].keys[k] {
					n++
					break
				}
			}
		}
	}
	return n
}

// dumpHistory renders the committed history and the log for a failure report.
func dumpHistory(m *model, recs []*rec, around *rec) map[string]any {
	var txs []string
	from, to := uint64(1), m.n
	if around != nil && m.n > 60 {
		if around.lower() > 20 {
			from = around.lower() - 20
		}
		if around.Hi+5 < to {
			to = around.Hi + 5
		}
	}
	for t := from; t <= to; t++ {
		txs = append(txs, fmt.Sprintf("tx %d: %s", t, entriesString(m.txs[t])))
	}
	var log []string
	sorted := append([]*rec(nil), recs...)
	sort.SliceStable(sorted, func(i, j int) bool { return sorted[i].Lo < sorted[j].Lo })
	for _, r := range sorted {
		if around != nil && (r.Hi+3 < around.lower() || r.Lo > around.Hi+3) && len(sorted) > 80 {
			continue
		}
		log = append(log, r.String())
	}
	d := map[string]any{"committed": txs, "calls": log}
	if around != nil {
		d["failing_call"] = around.String()
	}
	return d
}
