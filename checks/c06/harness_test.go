package c06

// Harness: database configuration, schedule-perturbing storage wrapper, client
// programs (generated up-front with rapid, run by concurrent goroutines) and the
// log of every call with its frontier window.

import (
	"context"
	"encoding/binary"
	"errors"
	"fmt"
	"io"
	"math"
	"os"
	"runtime"
	"sort"
	"strings"
	"sync"
	"sync/atomic"
	"time"

	"github.com/codenotary/immudb/embedded/appendable"
	"github.com/codenotary/immudb/embedded/appendable/multiapp"
	"github.com/codenotary/immudb/embedded/logger"
	"github.com/codenotary/immudb/embedded/store"
	"github.com/codenotary/immudb/embedded/tbtree"
	"github.com/codenotary/immudb/pkg/api/schema"
	"github.com/codenotary/immudb/pkg/database"
	"pgregory.net/rapid"

	"verif/internal/vk"
)

// ---------------------------------------------------------------------------
// schedule perturbation through the public WithAppFactory seam

type perturb struct {
	level int
	seed  uint64
	n     atomic.Uint64
	// gate, when set, is called before every storage read (used by the pinned probes)
	gate atomic.Pointer[func(log string, op byte)]
}

func mix(x uint64) uint64 {
	x += 0x9E3779B97F4A7C15
	x = (x ^ (x >> 30)) * 0xBF58476D1CE4E5B9
	x = (x ^ (x >> 27)) * 0x94D049BB133111EB
	return x ^ (x >> 31)
}

// point is a possible pre-emption point: before a storage operation.
func (p *perturb) point(log string, op byte) {
	if g := p.gate.Load(); g != nil {
		(*g)(log, op)
	}
	if p.level == 0 {
		return
	}
	h := mix(p.seed + p.n.Add(1))
	switch p.level {
	case 1:
		if h&3 == 0 {
			runtime.Gosched()
		}
	case 2:
		if h&1 == 0 {
			runtime.Gosched()
		}
		if (h>>8)&31 == 0 {
			time.Sleep(time.Duration(20+(h>>16)%100) * time.Microsecond)
		}
	default:
		// slow storage: the indexer and the readers fall behind the committers
		if h&1 == 0 {
			runtime.Gosched()
		}
		if (h>>8)&7 == 0 {
			time.Sleep(time.Duration(20+(h>>16)%300) * time.Microsecond)
		}
	}
}

type yapp struct {
	appendable.Appendable
	p   *perturb
	log string
}

func (a *yapp) Append(bs []byte) (int64, int, error) {
	a.p.point(a.log, 'A')
	return a.Appendable.Append(bs)
}
func (a *yapp) Flush() error { a.p.point(a.log, 'F'); return a.Appendable.Flush() }
func (a *yapp) Sync() error  { a.p.point(a.log, 'S'); return a.Appendable.Sync() }
func (a *yapp) ReadAt(bs []byte, off int64) (int, error) {
	a.p.point(a.log, 'R')
	return a.Appendable.ReadAt(bs, off)
}

func (p *perturb) factory() store.AppFactoryFunc {
	return func(rootPath, subPath string, opts *multiapp.Options) (appendable.Appendable, error) {
		full := rootPath + string(os.PathSeparator) + subPath
		app, err := multiapp.Open(full, opts)
		if err != nil {
			return nil, err
		}
		return &yapp{Appendable: app, p: p, log: subPath}, nil
	}
}

// ---------------------------------------------------------------------------
// database configuration

type dbCfg struct {
	Synced      bool
	Embedded    bool
	BulkSize    int
	Adaptive    bool
	FlushThld   int
	SyncMul     int
	IdxCache    int
	VLogCache   int
	TxLogCache  int
	RenewSnapMs int
	IOConc      int
	FileSize    int
	Perturb     int
	PSeed       uint64
}

func (c dbCfg) String() string {
	return fmt.Sprintf("{sync=%v emb=%v bulk=%d/%v flush=%d*%d icache=%d vcache=%d tcache=%d renew=%d io=%d fs=%d perturb=%d}",
		c.Synced, c.Embedded, c.BulkSize, c.Adaptive, c.FlushThld, c.SyncMul, c.IdxCache, c.VLogCache, c.TxLogCache, c.RenewSnapMs, c.IOConc, c.FileSize, c.Perturb)
}

func genCfg(rt *rapid.T) dbCfg {
	return dbCfg{
		Synced:      rapid.IntRange(0, 5).Draw(rt, "synced") == 0,
		Embedded:    rapid.IntRange(0, 2).Draw(rt, "embedded") == 0,
		BulkSize:    rapid.SampledFrom([]int{1, 1, 2, 4, 8, 16}).Draw(rt, "bulk"),
		Adaptive:    rapid.Bool().Draw(rt, "adaptiveBulk"),
		FlushThld:   rapid.SampledFrom([]int{1, 2, 5, 20, 100000}).Draw(rt, "flushThld"),
		SyncMul:     rapid.IntRange(1, 3).Draw(rt, "syncMul"),
		IdxCache:    rapid.SampledFrom([]int{1, 2, 10, 100}).Draw(rt, "idxCache"),
		VLogCache:   rapid.SampledFrom([]int{0, 0, 2, 100}).Draw(rt, "vlogCache"),
		TxLogCache:  rapid.SampledFrom([]int{1, 2, 10, 1000}).Draw(rt, "txLogCache"),
		RenewSnapMs: rapid.SampledFrom([]int{0, 1, 3600000}).Draw(rt, "renewSnapMs"),
		IOConc:      rapid.IntRange(1, 3).Draw(rt, "ioConc"),
		FileSize:    rapid.SampledFrom([]int{2048, 1 << 16, 1 << 20}).Draw(rt, "fileSize"),
		Perturb:     rapid.SampledFrom([]int{0, 1, 1, 2, 2, 3}).Draw(rt, "perturb"),
		PSeed:       rapid.Uint64().Draw(rt, "pseed"),
	}
}

func quietLogger() logger.Logger { return logger.NewSimpleLogger("c06", io.Discard) }

type env struct {
	db    database.DB
	dir   string
	p     *perturb
	acked atomic.Uint64 // largest tx id returned by a write call so far
	clock atomic.Uint64 // logical clock of the calls (cross-check only)
}

func (e *env) ack(tx uint64) {
	for {
		cur := e.acked.Load()
		if tx <= cur || e.acked.CompareAndSwap(cur, tx) {
			return
		}
	}
}

func openDB(c dbCfg) (*env, error) {
	dir := vk.Dir()
	p := &perturb{level: c.Perturb, seed: c.PSeed}
	idx := store.DefaultIndexOptions().
		WithMaxBulkSize(c.BulkSize).
		WithAdaptiveBulkSize(c.Adaptive).
		WithBulkPreparationTimeout(2 * time.Millisecond).
		WithFlushThld(c.FlushThld).
		WithSyncThld(c.FlushThld * c.SyncMul).
		WithCacheSize(c.IdxCache).
		WithCompactionThld(1).
		WithFlushBufferSize(1 << 14).
		WithRenewSnapRootAfter(time.Duration(c.RenewSnapMs) * time.Millisecond).
		WithMaxActiveSnapshots(200)
	aht := store.DefaultAHTOptions().WithWriteBufferSize(4096) // the default 16 MiB buffers make opens slow
	ioc := c.IOConc
	if c.Embedded {
		ioc = 1
	}
	so := store.DefaultOptions().
		WithSynced(c.Synced).
		WithSyncFrequency(time.Millisecond).
		WithEmbeddedValues(c.Embedded).
		WithMaxIOConcurrency(ioc).
		WithFileSize(c.FileSize).
		WithTxLogCacheSize(c.TxLogCache).
		WithVLogCacheSize(c.VLogCache).
		WithWriteBufferSize(1 << 14).
		WithMaxTxEntries(64).
		WithMaxKeyLen(256).
		WithMaxConcurrency(16).
		WithIndexOptions(idx).
		WithAHTOptions(aht).
		WithAppFactory(p.factory())
	opts := database.DefaultOptions().WithDBRootPath(dir).WithStoreOptions(so)
	db, err := database.NewDB("db", nil, opts, quietLogger())
	if err != nil {
		os.RemoveAll(dir)
		return nil, err
	}
	return &env{db: db, dir: dir, p: p}, nil
}

func (e *env) close() {
	e.db.Close()
	os.RemoveAll(e.dir)
}

// lo / hi read the frontier and stamp the logical clock on the inside of the window.
func (e *env) lo(r *rec) {
	r.Lo = e.frontier()
	r.Call = e.clock.Add(1)
}

func (e *env) hi(r *rec) {
	r.Ret = e.clock.Add(1)
	r.Hi = e.frontier()
}

func (e *env) frontier() uint64 {
	st, err := e.db.CurrentState()
	if err != nil {
		panic(err)
	}
	return st.TxId
}

// ---------------------------------------------------------------------------
// generated programs

type universe struct {
	Keys   []string // plain keys then reference keys, each group sorted
	NPlain int
	Sets   []string
}

func (u universe) refKeys() []string { return u.Keys[u.NPlain:] }

func genUniverse(rt *rapid.T, minKeys, maxKeys int) universe {
	n := rapid.IntRange(minKeys, maxKeys).Draw(rt, "nKeys")
	nref := rapid.IntRange(0, 3).Draw(rt, "nRefKeys")
	if nref > n-2 {
		nref = n - 2
	}
	var u universe
	for i := 0; i < n-nref; i++ {
		g := "ka"
		if i%2 == 1 {
			g = "kb"
		}
		u.Keys = append(u.Keys, fmt.Sprintf("%s%d", g, i/2))
	}
	sort.Strings(u.Keys)
	u.NPlain = len(u.Keys)
	for i := 0; i < nref; i++ {
		u.Keys = append(u.Keys, fmt.Sprintf("r%d", i))
	}
	u.Sets = []string{"s0", "s1"}
	return u
}

type preT struct {
	Kind string // exist | notexist | notmod
	Key  int
	Sel  int // notmod: which known tx (negative: latest known for the key)
}

type subT struct {
	Kind   string // kv | ref | zadd
	Key    int    // kv: key; ref: reference key; zadd: member key
	Target int    // ref: referenced key
	Bound  bool
	Sel    int
	Set    int
	Score  int
}

type opT struct {
	Kind    string
	K       []int
	Sel     int
	Since   bool
	Pre     []preT
	Sub     []subT
	Bound   bool
	Set     int
	Score   int
	Rev     int
	Desc    bool
	Limit   int
	Offset  int
	Prefix  string
	Seek    int // key index or -1
	End     int
	InclS   bool
	InclE   bool
	MinMax  int // zscan: 0 none, 1 min, 2 max, 3 both
	Min     int
	Max     int
}

func (o opT) String() string {
	var sb strings.Builder
	sb.WriteString(o.Kind)
	fmt.Fprintf(&sb, "%v", o.K)
	if o.Since {
		sb.WriteString("+since")
	}
	for _, p := range o.Pre {
		fmt.Fprintf(&sb, "?%s%d", p.Kind, p.Key)
	}
	for _, s := range o.Sub {
		fmt.Fprintf(&sb, "|%s%d>%d", s.Kind, s.Key, s.Target)
		if s.Bound {
			sb.WriteString("b")
		}
	}
	switch o.Kind {
	case "scan":
		fmt.Fprintf(&sb, "(%q,%d,%d,%v,%d,%d)", o.Prefix, o.Seek, o.End, o.Desc, o.Limit, o.Offset)
	case "zscan":
		fmt.Fprintf(&sb, "(s%d,%v,%d,%d,mm%d)", o.Set, o.Desc, o.Limit, o.Offset, o.MinMax)
	case "history":
		fmt.Fprintf(&sb, "(%d,%v,%d)", o.Offset, o.Desc, o.Limit)
	case "getrev":
		fmt.Fprintf(&sb, "(%d)", o.Rev)
	case "zadd":
		fmt.Fprintf(&sb, "(s%d,%d,%v)", o.Set, o.Score, o.Bound)
	case "setref":
		fmt.Fprintf(&sb, "(%v)", o.Bound)
	}
	return sb.String()
}

// profile biases the op mix.
type profile struct {
	name    string
	weights map[string]int
	hot     int // number of hot keys
	preProb int // percent of plain writes that carry preconditions
}

var mixedProfile = profile{name: "mixed", hot: 3, preProb: 35, weights: map[string]int{
	"set": 14, "setmulti": 5, "execall": 6, "delete": 6, "setref": 4, "zadd": 5,
	"get": 14, "getsince": 4, "getat": 4, "getrev": 4, "getall": 7, "scan": 7, "zscan": 6, "history": 6, "count": 4,
}}

// casProfile: racing conditional writes on very few keys.
var casProfile = profile{name: "cas", hot: 2, preProb: 90, weights: map[string]int{
	"set": 30, "setmulti": 6, "execall": 6, "delete": 8, "setref": 2,
	"get": 16, "getall": 4, "history": 3, "scan": 2,
}}

// readProfile: mostly reads racing with a few writers.
var readProfile = profile{name: "reads", hot: 3, preProb: 10, weights: map[string]int{
	"set": 12, "setmulti": 6, "execall": 5, "delete": 5, "setref": 3, "zadd": 5,
	"get": 16, "getsince": 5, "getat": 3, "getrev": 5, "getall": 10, "scan": 10, "zscan": 8, "history": 7, "count": 6,
}}

func (p profile) kinds() []string {
	var ks []string
	for k := range p.weights {
		ks = append(ks, k)
	}
	sort.Strings(ks)
	var out []string
	for _, k := range ks {
		for i := 0; i < p.weights[k]; i++ {
			out = append(out, k)
		}
	}
	return out
}

type gen struct {
	rt   *rapid.T
	u    universe
	prof profile
	kinds []string
}

func (g *gen) plainKey() int {
	if rapid.IntRange(0, 9).Draw(g.rt, "hot") < 6 {
		h := g.prof.hot
		if h > g.u.NPlain {
			h = g.u.NPlain
		}
		return rapid.IntRange(0, h-1).Draw(g.rt, "hotKey")
	}
	return rapid.IntRange(0, g.u.NPlain-1).Draw(g.rt, "key")
}

// anyKey: mostly plain keys, sometimes a reference key.
func (g *gen) anyKey() int {
	if len(g.u.Keys) > g.u.NPlain && rapid.IntRange(0, 9).Draw(g.rt, "useRef") < 3 {
		return rapid.IntRange(g.u.NPlain, len(g.u.Keys)-1).Draw(g.rt, "refKey")
	}
	return g.plainKey()
}

func (g *gen) refKey() int {
	if len(g.u.Keys) == g.u.NPlain {
		return -1
	}
	return rapid.IntRange(g.u.NPlain, len(g.u.Keys)-1).Draw(g.rt, "refKey")
}

func (g *gen) distinctKeys(n int, pick func() int) []int {
	seen := map[int]bool{}
	var out []int
	for tries := 0; len(out) < n && tries < 4*n+4; tries++ {
		k := pick()
		if k < 0 || seen[k] {
			continue
		}
		seen[k] = true
		out = append(out, k)
	}
	return out
}

func (g *gen) preconds(written []int) []preT {
	if rapid.IntRange(0, 99).Draw(g.rt, "withPre") >= g.prof.preProb {
		return nil
	}
	n := rapid.SampledFrom([]int{1, 1, 1, 2}).Draw(g.rt, "nPre")
	var out []preT
	for i := 0; i < n; i++ {
		k := written[rapid.IntRange(0, len(written)-1).Draw(g.rt, "preOnWritten")]
		if rapid.IntRange(0, 4).Draw(g.rt, "preOther") == 0 {
			k = g.anyKey()
		}
		out = append(out, preT{
			Kind: rapid.SampledFrom([]string{"exist", "notexist", "notexist", "notmod", "notmod"}).Draw(g.rt, "preKind"),
			Key:  k,
			Sel:  rapid.IntRange(-3, 6).Draw(g.rt, "preSel"),
		})
	}
	return out
}

func (g *gen) op() opT {
	kind := rapid.SampledFrom(g.kinds).Draw(g.rt, "kind")
	o := opT{Kind: kind, Seek: -1, End: -1}
	o.Sel = rapid.IntRange(0, 1000).Draw(g.rt, "sel")
	switch kind {
	case "set":
		k := g.plainKey()
		if rapid.IntRange(0, 19).Draw(g.rt, "setOnRefKey") == 0 {
			k = g.anyKey()
		}
		o.K = []int{k}
		o.Pre = g.preconds(o.K)
	case "setmulti":
		o.K = g.distinctKeys(rapid.IntRange(2, 4).Draw(g.rt, "nKVs"), g.plainKey)
		o.Pre = g.preconds(o.K)
	case "delete":
		o.K = g.distinctKeys(rapid.SampledFrom([]int{1, 1, 1, 2}).Draw(g.rt, "nDel"), g.anyKey)
		o.Since = rapid.IntRange(0, 3).Draw(g.rt, "delSince") == 0
	case "setref":
		r := g.refKey()
		if r < 0 || rapid.IntRange(0, 14).Draw(g.rt, "refOnPlain") == 0 {
			r = g.plainKey() // expected to be refused unless the key is absent
		}
		o.K = []int{r, g.plainKey()}
		if rapid.IntRange(0, 14).Draw(g.rt, "refToRef") == 0 {
			o.K[1] = g.anyKey()
		}
		o.Bound = rapid.IntRange(0, 2).Draw(g.rt, "bound") == 0
		o.Pre = g.preconds(o.K[:1])
	case "zadd":
		o.K = []int{g.plainKey()}
		if rapid.IntRange(0, 14).Draw(g.rt, "zaddOnRef") == 0 {
			o.K[0] = g.anyKey()
		}
		o.Set = rapid.IntRange(0, len(g.u.Sets)-1).Draw(g.rt, "zset")
		o.Score = rapid.IntRange(0, 6).Draw(g.rt, "score")
		o.Bound = rapid.IntRange(0, 2).Draw(g.rt, "bound") == 0
	case "execall":
		n := rapid.IntRange(1, 4).Draw(g.rt, "nOps")
		usedKeys := map[int]bool{}
		usedZ := map[[2]int]bool{}
		var kvKeys []int
		for i := 0; i < n; i++ {
			sk := rapid.SampledFrom([]string{"kv", "kv", "kv", "ref", "zadd", "zadd"}).Draw(g.rt, "subKind")
			s := subT{Kind: sk, Sel: rapid.IntRange(0, 1000).Draw(g.rt, "subSel")}
			switch sk {
			case "kv":
				s.Key = g.plainKey()
				if usedKeys[s.Key] {
					continue
				}
				usedKeys[s.Key] = true
				kvKeys = append(kvKeys, s.Key)
			case "ref":
				s.Key = g.refKey()
				if s.Key < 0 || usedKeys[s.Key] {
					continue
				}
				usedKeys[s.Key] = true
				s.Target = g.plainKey()
				if len(kvKeys) > 0 && rapid.Bool().Draw(g.rt, "refToOwn") {
					s.Target = kvKeys[rapid.IntRange(0, len(kvKeys)-1).Draw(g.rt, "ownIdx")]
				}
				s.Bound = rapid.IntRange(0, 2).Draw(g.rt, "bound") == 0
			case "zadd":
				s.Key = g.plainKey()
				if len(kvKeys) > 0 && rapid.Bool().Draw(g.rt, "zaddOwn") {
					s.Key = kvKeys[rapid.IntRange(0, len(kvKeys)-1).Draw(g.rt, "ownIdx")]
				}
				s.Set = rapid.IntRange(0, len(g.u.Sets)-1).Draw(g.rt, "zset")
				if usedZ[[2]int{s.Set, s.Key}] {
					continue
				}
				usedZ[[2]int{s.Set, s.Key}] = true
				s.Score = rapid.IntRange(0, 6).Draw(g.rt, "score")
				s.Bound = rapid.IntRange(0, 2).Draw(g.rt, "bound") == 0
			}
			o.Sub = append(o.Sub, s)
		}
		if len(o.Sub) == 0 {
			k := g.plainKey()
			o.Sub = []subT{{Kind: "kv", Key: k}}
			kvKeys = []int{k}
		}
		if len(kvKeys) > 0 {
			o.Pre = g.preconds(kvKeys)
		}
	case "get":
		o.K = []int{g.anyKey()}
	case "getsince", "getat":
		o.K = []int{g.anyKey()}
		o.Since = true
	case "getrev":
		o.K = []int{g.anyKey()}
		o.Rev = rapid.SampledFrom([]int{1, 2, 3, 5, -1, -1, -2, -3}).Draw(g.rt, "rev")
		o.Since = rapid.IntRange(0, 3).Draw(g.rt, "since") == 0
	case "getall":
		o.K = g.distinctKeys(rapid.IntRange(2, 5).Draw(g.rt, "nKeys"), g.anyKey)
		o.Since = rapid.IntRange(0, 3).Draw(g.rt, "since") == 0
	case "scan":
		o.Prefix = rapid.SampledFrom([]string{"", "", "k", "ka", "kb", "r"}).Draw(g.rt, "prefix")
		o.Desc = rapid.Bool().Draw(g.rt, "desc")
		o.Limit = rapid.SampledFrom([]int{0, 0, 1, 2, 3, 5}).Draw(g.rt, "limit")
		o.Offset = rapid.SampledFrom([]int{0, 0, 0, 1, 2}).Draw(g.rt, "offset")
		var cands []int
		for i, k := range g.u.Keys {
			if strings.HasPrefix(k, o.Prefix) {
				cands = append(cands, i)
			}
		}
		if len(cands) > 0 && rapid.IntRange(0, 2).Draw(g.rt, "withSeek") == 0 {
			o.Seek = cands[rapid.IntRange(0, len(cands)-1).Draw(g.rt, "seek")]
			o.InclS = rapid.Bool().Draw(g.rt, "inclSeek")
		}
		if len(cands) > 0 && rapid.IntRange(0, 3).Draw(g.rt, "withEnd") == 0 {
			o.End = cands[rapid.IntRange(0, len(cands)-1).Draw(g.rt, "end")]
			o.InclE = rapid.Bool().Draw(g.rt, "inclEnd")
		}
		o.Since = rapid.IntRange(0, 3).Draw(g.rt, "since") == 0
	case "zscan":
		o.Set = rapid.IntRange(0, len(g.u.Sets)-1).Draw(g.rt, "zset")
		o.Desc = rapid.Bool().Draw(g.rt, "desc")
		o.Limit = rapid.SampledFrom([]int{0, 0, 1, 2, 4}).Draw(g.rt, "limit")
		o.Offset = rapid.SampledFrom([]int{0, 0, 0, 1}).Draw(g.rt, "offset")
		o.MinMax = rapid.SampledFrom([]int{0, 0, 1, 2, 3}).Draw(g.rt, "minmax")
		o.Min = rapid.IntRange(1, 3).Draw(g.rt, "min")
		o.Max = rapid.IntRange(3, 6).Draw(g.rt, "max")
		o.Since = rapid.IntRange(0, 3).Draw(g.rt, "since") == 0
	case "history":
		o.K = []int{g.anyKey()}
		o.Desc = rapid.Bool().Draw(g.rt, "desc")
		o.Limit = rapid.SampledFrom([]int{0, 0, 1, 2, 4}).Draw(g.rt, "limit")
		o.Offset = rapid.SampledFrom([]int{0, 0, 0, 1, 2, 4}).Draw(g.rt, "offset")
		o.Since = rapid.IntRange(0, 3).Draw(g.rt, "since") == 0
	case "count":
		o.Prefix = rapid.SampledFrom([]string{"", "k", "ka", "kb", "r"}).Draw(g.rt, "prefix")
	}
	return o
}

// ---------------------------------------------------------------------------
// the log

type subR struct {
	Kind   string
	Key    string
	Val    string
	Target string
	AtTx   uint64
	Bound  bool
	Set    string
	Score  float64
}

type rec struct {
	Client, Idx int
	Kind        string
	Req         string // resolved request, human readable
	Lo, Hi      uint64 // committed frontier just before the call / just after the return
	AckLo       uint64 // largest tx id a write call had returned before this call started
	Call, Ret   uint64 // logical clock at call / at return (used by the independent cross-check only)

	// resolved parameters
	Keys   []string
	Since  uint64
	AtTx   uint64
	Rev    int64
	Scan   scanSpec
	Z      zscanSpec
	HOff   uint64
	HDesc  bool
	HLimit int
	Prefix string
	Pre    []precond
	Sub    []subR

	IsWrite bool
	Out     outcome // reads
	Err     errClass
	ErrText string
	TxID    uint64 // successful writes
}

func (r *rec) String() string {
	res := r.Out.String()
	if r.IsWrite {
		if r.Err == eOK {
			res = fmt.Sprintf("tx %d", r.TxID)
		} else {
			res = "err:" + string(r.Err)
		}
	}
	if r.ErrText != "" && r.Err == eOther {
		res += " (" + r.ErrText + ")"
	}
	return fmt.Sprintf("c%d#%d [%d,%d] %s -> %s", r.Client, r.Idx, r.Lo, r.Hi, r.Req, res)
}

func classify(err error) errClass {
	switch {
	case err == nil:
		return eOK
	case errors.Is(err, store.ErrPreconditionFailed):
		return ePrecond
	case errors.Is(err, store.ErrTxReadConflict):
		return eConflict
	case errors.Is(err, database.ErrInvalidRevision):
		return eInvalidRev
	case errors.Is(err, database.ErrKeyResolutionLimitReached):
		return eResLimit
	case errors.Is(err, database.ErrFinalKeyCannotBeConvertedIntoReference):
		return eFinalKey
	case errors.Is(err, database.ErrReferencedKeyCannotBeAReference):
		return eRefIsRef
	case errors.Is(err, store.ErrKeyNotFound):
		return eNotFound
	case errors.Is(err, store.ErrNoMoreEntries), errors.Is(err, tbtree.ErrNoMoreEntries):
		return eNoMore
	case errors.Is(err, store.ErrTxNotFound):
		return eTxNotFound
	}
	return eOther
}

func toEnt(e *schema.Entry) ent {
	if e == nil {
		return ent{}
	}
	x := ent{Tx: e.Tx, Rev: e.Revision, Key: string(e.Key), Val: string(e.Value)}
	if e.Metadata != nil && e.Metadata.Deleted {
		x.Deleted = true
	}
	if r := e.ReferencedBy; r != nil {
		x.HasRef, x.RefTx, x.RefKey, x.RefAt, x.RefRev = true, r.Tx, string(r.Key), r.AtTx, r.Revision
	}
	return x
}

// client is the per-goroutine state: what the client has learned so far.
type client struct {
	id      int
	e       *env
	u       universe
	known   []uint64            // committed tx ids this client has seen
	byKey   map[string][]uint64 // tx ids known to contain a version of the key
	log     []*rec
	nval    int
}

func (c *client) learn(key string, tx uint64) {
	if tx == 0 {
		return
	}
	c.known = append(c.known, tx)
	if key != "" {
		c.byKey[key] = append(c.byKey[key], tx)
	}
}

func (c *client) learnEnt(e ent) {
	c.learn(e.Key, e.Tx)
	if e.HasRef {
		c.learn(e.RefKey, e.RefTx)
	}
}

func (c *client) pickKnown(sel int) uint64 {
	if len(c.known) == 0 {
		return 0
	}
	return c.known[sel%len(c.known)]
}

func (c *client) pickFor(key string, sel int) uint64 {
	ks := c.byKey[key]
	if len(ks) == 0 {
		return 0
	}
	if sel < 0 {
		return ks[len(ks)-1]
	}
	return ks[sel%len(ks)]
}

func (c *client) value() string {
	c.nval++
	return fmt.Sprintf("c%d.%d", c.id, c.nval)
}

func (c *client) since(o opT) uint64 {
	if !o.Since {
		return 0
	}
	return c.pickKnown(o.Sel)
}

func (c *client) preconds(ps []preT) ([]precond, []*schema.Precondition) {
	var out []precond
	var protos []*schema.Precondition
	for _, p := range ps {
		key := c.u.Keys[p.Key]
		switch p.Kind {
		case "exist":
			out = append(out, precond{Kind: "exist", Key: key})
			protos = append(protos, schema.PreconditionKeyMustExist([]byte(key)))
		case "notexist":
			out = append(out, precond{Kind: "notexist", Key: key})
			protos = append(protos, schema.PreconditionKeyMustNotExist([]byte(key)))
		default:
			tx := c.pickFor(key, p.Sel)
			if tx == 0 || p.Sel%4 == 3 {
				tx = c.pickKnown(p.Sel + 7)
			}
			if tx == 0 {
				tx = 1
			}
			out = append(out, precond{Kind: "notmod", Key: key, Tx: tx})
			protos = append(protos, schema.PreconditionKeyNotModifiedAfterTX([]byte(key), tx))
		}
	}
	return out, protos
}

func precondsString(ps []precond) string {
	if len(ps) == 0 {
		return ""
	}
	var s []string
	for _, p := range ps {
		s = append(s, p.String())
	}
	return " if " + strings.Join(s, ",")
}

// boundAt resolves the AtTx of a bound reference to target (0: fall back to unbound).
func (c *client) boundAt(bound bool, target string, sel int) (uint64, bool) {
	if !bound {
		return 0, false
	}
	tx := c.pickFor(target, sel)
	if tx == 0 {
		return 0, false
	}
	return tx, true
}

var bg = context.Background()

// run executes one op and logs it.
func (c *client) run(idx int, o opT) {
	r := &rec{Client: c.id, Idx: idx, Kind: o.Kind, AckLo: c.e.acked.Load()}
	db := c.e.db
	key := func(i int) string { return c.u.Keys[i] }
	var err error
	var hdr *schema.TxHeader

	switch o.Kind {
	case "set", "setmulti":
		r.IsWrite = true
		req := &schema.SetRequest{}
		for _, k := range o.K {
			v := c.value()
			r.Sub = append(r.Sub, subR{Kind: "kv", Key: key(k), Val: v})
			req.KVs = append(req.KVs, &schema.KeyValue{Key: []byte(key(k)), Value: []byte(v)})
		}
		r.Pre, req.Preconditions = c.preconds(o.Pre)
		r.Req = "Set" + subsString(r.Sub) + precondsString(r.Pre)
		c.e.lo(r)
		hdr, err = db.Set(bg, req)
		c.e.hi(r)
	case "delete":
		r.IsWrite = true
		req := &schema.DeleteKeysRequest{SinceTx: c.since(o)}
		r.Since = req.SinceTx
		for _, k := range o.K {
			r.Sub = append(r.Sub, subR{Kind: "del", Key: key(k)})
			req.Keys = append(req.Keys, []byte(key(k)))
		}
		r.Req = fmt.Sprintf("Delete%s since=%d", subsString(r.Sub), r.Since)
		c.e.lo(r)
		hdr, err = db.Delete(bg, req)
		c.e.hi(r)
	case "setref":
		r.IsWrite = true
		s := subR{Kind: "ref", Key: key(o.K[0]), Target: key(o.K[1])}
		s.AtTx, s.Bound = c.boundAt(o.Bound, s.Target, o.Sel)
		r.Sub = []subR{s}
		req := &schema.ReferenceRequest{Key: []byte(s.Key), ReferencedKey: []byte(s.Target), AtTx: s.AtTx, BoundRef: s.Bound}
		r.Pre, req.Preconditions = c.preconds(o.Pre)
		r.Req = "SetReference" + subsString(r.Sub) + precondsString(r.Pre)
		c.e.lo(r)
		hdr, err = db.SetReference(bg, req)
		c.e.hi(r)
	case "zadd":
		r.IsWrite = true
		s := subR{Kind: "zadd", Key: key(o.K[0]), Set: c.u.Sets[o.Set], Score: float64(o.Score)}
		s.AtTx, s.Bound = c.boundAt(o.Bound, s.Key, o.Sel)
		r.Sub = []subR{s}
		req := &schema.ZAddRequest{Set: []byte(s.Set), Score: s.Score, Key: []byte(s.Key), AtTx: s.AtTx, BoundRef: s.Bound}
		r.Req = "ZAdd" + subsString(r.Sub)
		c.e.lo(r)
		hdr, err = db.ZAdd(bg, req)
		c.e.hi(r)
	case "execall":
		r.IsWrite = true
		req := &schema.ExecAllRequest{}
		own := map[string]bool{}
		for _, st := range o.Sub {
			switch st.Kind {
			case "kv":
				v := c.value()
				own[key(st.Key)] = true
				r.Sub = append(r.Sub, subR{Kind: "kv", Key: key(st.Key), Val: v})
				req.Operations = append(req.Operations, &schema.Op{Operation: &schema.Op_Kv{Kv: &schema.KeyValue{Key: []byte(key(st.Key)), Value: []byte(v)}}})
			case "ref":
				s := subR{Kind: "ref", Key: key(st.Key), Target: key(st.Target)}
				if st.Bound && own[s.Target] {
					s.Bound, s.AtTx = true, 0 // bound to the tx being written
				} else {
					s.AtTx, s.Bound = c.boundAt(st.Bound, s.Target, st.Sel)
				}
				r.Sub = append(r.Sub, s)
				req.Operations = append(req.Operations, &schema.Op{Operation: &schema.Op_Ref{Ref: &schema.ReferenceRequest{
					Key: []byte(s.Key), ReferencedKey: []byte(s.Target), AtTx: s.AtTx, BoundRef: s.Bound}}})
			case "zadd":
				s := subR{Kind: "zadd", Key: key(st.Key), Set: c.u.Sets[st.Set], Score: float64(st.Score)}
				if st.Bound && own[s.Key] {
					s.Bound, s.AtTx = true, 0
				} else {
					s.AtTx, s.Bound = c.boundAt(st.Bound, s.Key, st.Sel)
				}
				r.Sub = append(r.Sub, s)
				req.Operations = append(req.Operations, &schema.Op{Operation: &schema.Op_ZAdd{ZAdd: &schema.ZAddRequest{
					Set: []byte(s.Set), Score: s.Score, Key: []byte(s.Key), AtTx: s.AtTx, BoundRef: s.Bound}}})
			}
		}
		r.Pre, req.Preconditions = c.preconds(o.Pre)
		r.Req = "ExecAll" + subsString(r.Sub) + precondsString(r.Pre)
		c.e.lo(r)
		hdr, err = db.ExecAll(bg, req)
		c.e.hi(r)

	case "get", "getsince", "getat", "getrev":
		k := key(o.K[0])
		r.Keys = []string{k}
		req := &schema.KeyRequest{Key: []byte(k)}
		switch o.Kind {
		case "getsince":
			req.SinceTx = c.since(o)
		case "getat":
			req.AtTx = c.pickFor(k, o.Sel)
			if req.AtTx == 0 || o.Sel%5 == 0 {
				req.AtTx = c.pickKnown(o.Sel)
			}
			if req.AtTx == 0 {
				r.Kind = "get"
			}
		case "getrev":
			req.AtRevision = int64(o.Rev)
			req.SinceTx = c.since(o)
		}
		r.Since, r.AtTx, r.Rev = req.SinceTx, req.AtTx, req.AtRevision
		r.Req = fmt.Sprintf("Get(%s since=%d at=%d rev=%d)", k, r.Since, r.AtTx, r.Rev)
		c.e.lo(r)
		var e *schema.Entry
		e, err = db.Get(bg, req)
		c.e.hi(r)
		if err == nil {
			r.Out.Ents = []ent{toEnt(e)}
		}
	case "getall":
		req := &schema.KeyListRequest{SinceTx: c.since(o)}
		for _, k := range o.K {
			r.Keys = append(r.Keys, key(k))
			req.Keys = append(req.Keys, []byte(key(k)))
		}
		r.Since = req.SinceTx
		r.Req = fmt.Sprintf("GetAll(%v since=%d)", r.Keys, r.Since)
		c.e.lo(r)
		var es *schema.Entries
		es, err = db.GetAll(bg, req)
		c.e.hi(r)
		if err == nil {
			for _, e := range es.Entries {
				r.Out.Ents = append(r.Out.Ents, toEnt(e))
			}
		}
	case "scan":
		s := scanSpec{Prefix: o.Prefix, Desc: o.Desc, Limit: uint64(o.Limit), Offset: uint64(o.Offset)}
		if o.Seek >= 0 {
			s.Seek, s.InclSeek = key(o.Seek), o.InclS
		}
		if o.End >= 0 {
			s.End, s.InclEnd = key(o.End), o.InclE
		}
		r.Scan = s
		r.Since = c.since(o)
		req := &schema.ScanRequest{Prefix: []byte(s.Prefix), SeekKey: []byte(s.Seek), EndKey: []byte(s.End), Desc: s.Desc,
			Limit: s.Limit, Offset: s.Offset, InclusiveSeek: s.InclSeek, InclusiveEnd: s.InclEnd, SinceTx: r.Since}
		r.Req = fmt.Sprintf("Scan(%+v since=%d)", s, r.Since)
		c.e.lo(r)
		var es *schema.Entries
		es, err = db.Scan(bg, req)
		c.e.hi(r)
		if err == nil {
			for _, e := range es.Entries {
				r.Out.Ents = append(r.Out.Ents, toEnt(e))
			}
		}
	case "zscan":
		z := zscanSpec{Set: c.u.Sets[o.Set], Desc: o.Desc, Limit: uint64(o.Limit), Offset: uint64(o.Offset)}
		req := &schema.ZScanRequest{Set: []byte(z.Set), Desc: z.Desc, Limit: z.Limit, Offset: z.Offset}
		if o.MinMax&1 != 0 {
			z.HasMin, z.Min = true, float64(o.Min)-0.5
			req.MinScore = &schema.Score{Score: z.Min}
		}
		if o.MinMax&2 != 0 {
			z.HasMax, z.Max = true, float64(o.Max)+0.5
			req.MaxScore = &schema.Score{Score: z.Max}
		}
		r.Z = z
		r.Since = c.since(o)
		req.SinceTx = r.Since
		r.Req = fmt.Sprintf("ZScan(%+v since=%d)", z, r.Since)
		c.e.lo(r)
		var zs *schema.ZEntries
		zs, err = db.ZScan(bg, req)
		c.e.hi(r)
		if err == nil {
			for _, e := range zs.Entries {
				r.Out.ZEnts = append(r.Out.ZEnts, zent{Set: string(e.Set), Key: string(e.Key), Score: e.Score, AtTx: e.AtTx, E: toEnt(e.Entry)})
			}
		}
	case "history":
		k := key(o.K[0])
		r.Keys = []string{k}
		r.HOff, r.HDesc, r.HLimit = uint64(o.Offset), o.Desc, o.Limit
		r.Since = c.since(o)
		req := &schema.HistoryRequest{Key: []byte(k), Offset: r.HOff, Desc: r.HDesc, Limit: int32(r.HLimit), SinceTx: r.Since}
		r.Req = fmt.Sprintf("History(%s off=%d desc=%v limit=%d since=%d)", k, r.HOff, r.HDesc, r.HLimit, r.Since)
		c.e.lo(r)
		var es *schema.Entries
		es, err = db.History(bg, req)
		c.e.hi(r)
		if err == nil {
			r.Out.Ents = []ent{}
			for _, e := range es.Entries {
				r.Out.Ents = append(r.Out.Ents, toEnt(e))
			}
		}
	case "count":
		r.Prefix = o.Prefix
		r.Req = fmt.Sprintf("Count(%q)", o.Prefix)
		c.e.lo(r)
		var ec *schema.EntryCount
		ec, err = db.Count(bg, &schema.KeyPrefix{Prefix: []byte(o.Prefix)})
		c.e.hi(r)
		if err == nil {
			r.Out.IsCnt, r.Out.Count = true, ec.Count
		}
	default:
		panic("unknown op kind " + o.Kind)
	}

	r.Err = classify(err)
	if err != nil {
		r.ErrText = err.Error()
	}
	if r.IsWrite {
		if err == nil {
			r.TxID = hdr.Id
			c.e.ack(hdr.Id)
			for _, s := range r.Sub {
				if s.Kind != "zadd" {
					c.learn(s.Key, hdr.Id)
				}
			}
			c.learn("", hdr.Id)
		}
	} else {
		r.Out.Err = r.Err
		for _, e := range r.Out.Ents {
			c.learnEnt(e)
		}
		for _, z := range r.Out.ZEnts {
			c.learnEnt(z.E)
		}
	}
	c.learn("", r.Lo)
	c.log = append(c.log, r)
}

func subsString(ss []subR) string {
	var out []string
	for _, s := range ss {
		switch s.Kind {
		case "kv":
			out = append(out, fmt.Sprintf("%s=%q", s.Key, s.Val))
		case "del":
			out = append(out, s.Key)
		case "ref":
			out = append(out, fmt.Sprintf("%s->%s@%d/%v", s.Key, s.Target, s.AtTx, s.Bound))
		case "zadd":
			out = append(out, fmt.Sprintf("zadd(%s,%g,%s@%d/%v)", s.Set, s.Score, s.Key, s.AtTx, s.Bound))
		}
	}
	return "(" + strings.Join(out, " ") + ")"
}

// wantEntries is the content the tx of a successful write must have.
func (r *rec) wantEntries() []txEntry {
	var out []txEntry
	for _, s := range r.Sub {
		at := s.AtTx
		if s.Bound && at == 0 {
			at = r.TxID
		}
		switch s.Kind {
		case "kv":
			out = append(out, txEntry{Key: s.Key, V: ver{Kind: vValue, Val: []byte(s.Val)}})
		case "del":
			out = append(out, txEntry{Key: s.Key, V: ver{Kind: vDeleted}})
		case "ref":
			out = append(out, txEntry{Key: s.Key, V: ver{Kind: vRef, RefKey: s.Target, RefAt: at}})
		case "zadd":
			out = append(out, txEntry{IsZ: true, Key: s.Key, Z: zmem{Set: s.Set, Score: s.Score, Key: s.Key, AtTx: at}})
		}
	}
	return out
}

// ---------------------------------------------------------------------------
// running a history

type maintT struct {
	Kind    string // flush | compact
	After   int    // run once the frontier reached this many txs (or when the clients are done)
	Cleanup int
	Synced  bool
}

type history struct {
	u       universe
	recs    []*rec // all calls, clients in order
	n       uint64 // committed txs at the end
	maint       int
	compactions int
	maintErr    []string
}

func (h *history) doMaint(e *env, m maintT) {
	var err error
	if m.Kind == "flush" {
		err = e.db.FlushIndex(&schema.FlushIndexRequest{CleanupPercentage: float32(m.Cleanup), Synced: m.Synced})
	} else {
		err = e.db.CompactIndex()
		if err == nil {
			h.compactions++
		}
	}
	h.maint++
	if err != nil && !errors.Is(err, tbtree.ErrCompactionThresholdNotReached) && !errors.Is(err, tbtree.ErrCompactAlreadyInProgress) && !strings.Contains(err.Error(), tbtree.ErrTargetPathAlreadyExists.Error()) {
		h.maintErr = append(h.maintErr, m.Kind+": "+err.Error())
	}
}

// runHistory executes the preload sequentially, then all client programs concurrently.
func runHistory(e *env, u universe, preload []opT, quiet []maintT, progs [][]opT, maint []maintT) *history {
	h := &history{u: u}
	pre := &client{id: 0, e: e, u: u, byKey: map[string][]uint64{}}
	for i, o := range preload {
		pre.run(i, o)
	}
	for _, m := range quiet {
		// a compaction needs at least one flushed snapshot
		h.doMaint(e, maintT{Kind: "flush"})
		h.maint--
		h.doMaint(e, m)
		h.maint--
	}
	clients := make([]*client, len(progs))
	start := make(chan struct{})
	var wg sync.WaitGroup
	for ci := range progs {
		cl := &client{id: ci + 1, e: e, u: u, byKey: map[string][]uint64{}}
		// every client starts knowing what the preload produced
		cl.known = append(cl.known, pre.known...)
		for k, v := range pre.byKey {
			cl.byKey[k] = append([]uint64(nil), v...)
		}
		clients[ci] = cl
		wg.Add(1)
		go func(cl *client, prog []opT) {
			defer wg.Done()
			<-start
			for i, o := range prog {
				cl.run(i, o)
			}
		}(cl, progs[ci])
	}
	done := make(chan struct{})
	var mwg sync.WaitGroup
	if len(maint) > 0 {
		mwg.Add(1)
		go func() {
			defer mwg.Done()
			<-start
			for _, m := range maint {
			wait:
				for e.frontier() < uint64(m.After) {
					select {
					case <-done:
						break wait
					default:
						time.Sleep(50 * time.Microsecond)
					}
				}
				h.doMaint(e, m)
			}
		}()
	}
	close(start)
	wg.Wait()
	close(done)
	mwg.Wait()
	h.recs = append(h.recs, pre.log...)
	for _, cl := range clients {
		h.recs = append(h.recs, cl.log...)
	}
	h.n = e.frontier()
	return h
}

// readBack builds the model from the committed transactions.
func readBack(e *env, n uint64) (*model, error) {
	m := newModel()
	spec := &schema.EntriesSpec{
		KvEntriesSpec: &schema.EntryTypeSpec{Action: schema.EntryTypeAction_RAW_VALUE},
		ZEntriesSpec:  &schema.EntryTypeSpec{Action: schema.EntryTypeAction_RAW_VALUE},
	}
	for t := uint64(1); t <= n; t++ {
		tx, err := e.db.TxByID(bg, &schema.TxRequest{Tx: t, EntriesSpec: spec, KeepReferencesUnresolved: true})
		if err != nil {
			return nil, fmt.Errorf("TxByID(%d): %w", t, err)
		}
		if tx.Header.Id != t {
			return nil, fmt.Errorf("TxByID(%d) returned tx %d", t, tx.Header.Id)
		}
		var es []txEntry
		for _, x := range tx.Entries {
			te, err := parseEntry(x)
			if err != nil {
				return nil, fmt.Errorf("tx %d: %w", t, err)
			}
			es = append(es, te)
		}
		if len(es) != int(tx.Header.Nentries) {
			return nil, fmt.Errorf("tx %d: %d entries read back, header says %d", t, len(es), tx.Header.Nentries)
		}
		m.add(es)
	}
	m.finish()
	return m, nil
}

func parseEntry(x *schema.TxEntry) (txEntry, error) {
	k := x.Key
	if len(k) < 2 {
		return txEntry{}, fmt.Errorf("short key %x", k)
	}
	switch k[0] {
	case database.SetKeyPrefix:
		te := txEntry{Key: string(k[1:])}
		te.V.Raw = append([]byte(nil), x.Value...)
		if x.Metadata != nil && x.Metadata.Deleted {
			te.V.Kind = vDeleted
			return te, nil
		}
		if len(x.Value) < 1 {
			return te, fmt.Errorf("key %q: empty stored value", k[1:])
		}
		switch x.Value[0] {
		case database.PlainValuePrefix:
			te.V.Kind, te.V.Val = vValue, x.Value[1:]
		case database.ReferenceValuePrefix:
			if len(x.Value) < 1+8+2 {
				return te, fmt.Errorf("key %q: short reference value", k[1:])
			}
			te.V.Kind = vRef
			te.V.RefAt = binary.BigEndian.Uint64(x.Value[1:])
			te.V.RefKey = string(x.Value[1+8+1:])
		default:
			return te, fmt.Errorf("key %q: unknown value prefix %d", k[1:], x.Value[0])
		}
		return te, nil
	case database.SortedSetKeyPrefix:
		if len(k) < 1+8 {
			return txEntry{}, fmt.Errorf("short zset key")
		}
		sl := int(binary.BigEndian.Uint64(k[1:]))
		off := 1 + 8
		if len(k) < off+sl+8+8+1+8 {
			return txEntry{}, fmt.Errorf("short zset key")
		}
		set := string(k[off : off+sl])
		off += sl
		score := math.Float64frombits(binary.BigEndian.Uint64(k[off:]))
		off += 8
		kl := int(binary.BigEndian.Uint64(k[off:]))
		off += 8
		if len(k) != off+kl+8 || kl < 1 {
			return txEntry{}, fmt.Errorf("malformed zset key")
		}
		key := string(k[off+1 : off+kl])
		at := binary.BigEndian.Uint64(k[off+kl:])
		z := zmem{Set: set, Score: score, Key: key, AtTx: at, zkey: append([]byte(nil), k...)}
		return txEntry{IsZ: true, Key: key, Z: z}, nil
	}
	return txEntry{}, fmt.Errorf("unexpected key prefix %d", k[0])
}
