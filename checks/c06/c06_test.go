// C06 — the key-value API of pkg/database is linearizable; conditional writes are atomic.
package c06

import (
	"fmt"
	"os"
	"strings"
	"testing"
	"time"

	"pgregory.net/rapid"

	"verif/internal/vk"
)

const (
	kTwoStep    = "K06c-get-through-reference-two-instants"
	kZScanTorn  = "K06b-zscan-since-mixes-two-snapshots"
	kCompaction = "K06a-compaction-restart-stale-index-progress"
)

func TestMain(m *testing.M) {
	vk.Main(m, vk.Config{
		Property: "C06",
		Rule: "rapid-generated client programs (3-8 goroutines, 6-12 keys + reference keys + 2 sorted sets; Set, multi-key Set, ExecAll(kv+ref+zadd), Delete, " +
			"SetReference, ZAdd, Get plain/SinceTx/AtTx/AtRevision, GetAll, Scan, ZScan, History, Count; generated preconditions; background FlushIndex/CompactIndex; " +
			"generated store/index configuration and storage-level schedule perturbation) run concurrently on one database.DB; every call is logged with the committed " +
			"frontier before the call and after the return and checked against state(T) rebuilt from the transactions read back in id order. " +
			"NON-TRIVIAL: the history contains a read whose window holds a committed write to a key the read concerns, or two conditional writes of different clients " +
			"with overlapping windows and a common condition key. DISTINCT: hash of configuration + programs + observed window/outcome summary.",
		Assumptions: []string{
			"default waiting semantics only (NoWait=false everywhere); no expirations, no non-indexable entries, no replica mode, no truncation",
			"invoke frontier = committed tx id read through CurrentState just before the call (stronger than 'writes that returned': it is what the documented mechanism " +
				"'reads wait until the index covers the commit frontier observed at call time' guarantees); Get with AtTx does not wait by contract, so the resolution of an " +
				"unbound reference stored in the addressed tx is only bounded below by the writes that had returned before the call",
			"Count: the property does not say whether deleted keys are counted; a Count result is accepted when ONE state of the window has that many keys counting deleted ones, " +
				"or that many keys not counting them (which of the two matched is a label)",
			"ZScan: only non-negative integer scores, Min/Max bounds at half-integers (the bound==score edge of the descending seek is not part of this property), no SeekKey",
			"Scan: seek/end keys always carry the scan prefix",
			"Delete answering ErrTxReadConflict is accepted (a refusal leaves no trace); it is counted",
			"errors are compared by class (errors.Is against the exported sentinel errors)",
			"a FlushIndex/CompactIndex call that answers with an error (threshold not reached, target exists, snapshots open) is not a violation by itself; the reads that follow are still checked",
			"implicit conditions of Delete (key is live), SetReference/ZAdd/ExecAll (referenced key exists and is not a reference; final key is absent or a reference) are treated like preconditions: " +
				"true on state(id-1) for an applied write, false on some state of the window for a refused one",
			"the porcupine cross-check of the design is replaced by an own Wing-Gong register search over single-key sub-histories (plain Get/GetAll, writes, deletes, refused single-condition writes) " +
				"on a logical call/return clock: it only serves to catch a too lenient window oracle (porcupine is not in go.mod and the shared module was not touched)",
			"while K06a is listed as known, CompactIndex is only run at a quiescent point (between preload and clients), never concurrently with writers (counted as excluded)",
		},
		Probes: []vk.Probe{
			{ID: kCompaction, Present: probeCompaction},
			{ID: kZScanTorn, Present: probeZScanTorn},
			{ID: kTwoStep, Present: probeTwoStep},
		},
	})
}

type shape struct {
	minClients, maxClients int
	minKeys, maxKeys       int
	minOps, maxOps         int
	preloadMax             int
}

func runCase(rt *rapid.T, c *vk.Case, prof profile, sh shape) {
	cfg := genCfg(rt)
	u := genUniverse(rt, sh.minKeys, sh.maxKeys)
	g := &gen{rt: rt, u: u, prof: prof, kinds: prof.kinds()}
	nPre := rapid.IntRange(0, sh.preloadMax).Draw(rt, "nPreload")
	var preload []opT
	for i := 0; i < nPre; i++ {
		o := g.op()
		preload = append(preload, o)
	}
	nClients := rapid.IntRange(sh.minClients, sh.maxClients).Draw(rt, "nClients")
	progs := make([][]opT, nClients)
	for ci := range progs {
		n := rapid.IntRange(sh.minOps, sh.maxOps).Draw(rt, "nOps")
		for i := 0; i < n; i++ {
			progs[ci] = append(progs[ci], g.op())
		}
	}
	var maint []maintT
	nMaint := rapid.SampledFrom([]int{0, 0, 1, 2, 4, 6}).Draw(rt, "nMaint")
	after := 0
	for i := 0; i < nMaint; i++ {
		after += rapid.IntRange(0, 12).Draw(rt, "maintGap")
		maint = append(maint, maintT{
			Kind:    rapid.SampledFrom([]string{"flush", "flush", "compact"}).Draw(rt, "maintKind"),
			After:   after,
			Cleanup: rapid.SampledFrom([]int{0, 0, 50, 100}).Draw(rt, "cleanup"),
			Synced:  rapid.Bool().Draw(rt, "maintSynced"),
		})
	}

	c.Descf("%s cfg=%v keys=%v", prof.name, cfg, u.Keys)
	for ci, p := range progs {
		var sb strings.Builder
		for _, o := range p {
			sb.WriteString(o.String())
			sb.WriteByte(' ')
		}
		c.Descf("c%d: %s", ci+1, sb.String())
	}

	// known finding K06a: a compaction that overlaps committed writes leaves the index behind its
	// own progress report. While it is listed, compactions run at the quiescent point between the
	// preload and the clients instead of in the background (counted).
	var quiet []maintT
	if vk.Excluded(kCompaction) {
		var bgm []maintT
		for _, m := range maint {
			if m.Kind == "compact" {
				vk.CountExcluded(kCompaction)
				c.Label("compaction-moved-to-quiescent-point-K06a")
				quiet = append(quiet, m)
			} else {
				bgm = append(bgm, m)
			}
		}
		maint = bgm
	}

	e, err := openDB(cfg)
	if err != nil {
		rt.Fatalf("open: %v", err)
	}
	defer e.close()

	h := runHistory(e, u, preload, quiet, progs, maint)
	if len(h.maintErr) > 0 {
		// a refused or failed FlushIndex/CompactIndex is not a statement about the KV operations; if it
		// damaged the index the reads below show it
		c.Label("flush/compact-answered-with-an-error")
	}
	m, err := readBack(e, h.n)
	if err != nil {
		c.Failf(rt, nil, "reading the committed history back: %v", err)
	}
	st := checkHistory(rt, c, m, h)
	if len(st.classes) == 0 {
		// independent cross-check of the oracle itself (register search on the logical clock)
		n, bad := crossCheck(m, h)
		if bad != "" {
			c.Failf(rt, dumpHistory(m, h.recs, nil), "HARNESS DISAGREEMENT (the window oracle accepted this history, the independent register search does not): %s", bad)
		}
		if n > 0 {
			c.Label("cross-checked-by-register-search")
		}
	}

	// classification
	c.Label("profile-" + prof.name)
	c.Label(fmt.Sprintf("perturb-%d", cfg.Perturb))
	if cfg.Synced {
		c.Label("synced-store")
	}
	if cfg.BulkSize > 1 {
		c.Label("bulk-indexing")
	}
	if h.maint > 0 {
		c.Label("flush/compact-in-background")
	}
	if h.compactions > 0 {
		c.Label("compaction-done")
	}
	if st.readsOverlapWrite > 0 {
		c.Label("read-overlapping-write-to-its-keys")
	}
	if st.racingCond > 0 {
		c.Label("racing-conditional-writes")
	}
	if st.precondOK > 0 {
		c.Label("precondition-held")
	}
	if st.precondRejected > 0 {
		c.Label("precondition-refused")
	}
	if st.condRaceLost > 0 {
		c.Label("precondition-refused-after-losing-a-race")
	}
	if st.conflicts > 0 {
		c.Label("delete-read-conflict")
	}
	if st.deleteNotFound > 0 {
		c.Label("delete-refused-not-found")
	}
	if st.implicitRejected > 0 {
		c.Label("reference/zadd-refused")
	}
	if st.refReads > 0 {
		c.Label("read-through-reference")
	}
	for k := range st.classes {
		c.Label("explained-by-" + k)
	}
	if st.countAll > 0 {
		c.Label("count-matches-incl-deleted")
	}
	if st.countLive > 0 {
		c.Label("count-matches-excl-deleted-only")
	}
	if st.maxWindow >= 3 {
		c.Label("window>=3-txs")
	}
	if st.maxWindow >= 8 {
		c.Label("window>=8-txs")
	}
	for k, n := range st.kinds {
		if n > 0 {
			c.Label("op-" + k)
		}
	}
	c.Descf("n=%d overlap=%d racing=%d refused=%d/%d", m.n, st.readsOverlapWrite, st.racingCond, st.precondRejected, st.condRaceLost)
	if st.readsOverlapWrite > 0 || st.racingCond > 0 {
		c.NonTrivial()
	}
}

// checkHistory applies the oracle to every logged call.
func checkHistory(rt *rapid.T, c *vk.Case, m *model, h *history) *stats {
	st := &stats{kinds: map[string]int{}, classes: map[string]int{}}
	// every committed transaction is the effect of exactly one successful write call
	owner := map[uint64]*rec{}
	for _, r := range h.recs {
		st.kinds[r.Kind]++
		if r.IsWrite && r.Err == eOK {
			if o, dup := owner[r.TxID]; dup {
				c.Failf(rt, dumpHistory(m, h.recs, r), "two write calls returned the same tx id %d: %s AND %s", r.TxID, o, r)
			}
			owner[r.TxID] = r
		}
	}
	if uint64(len(owner)) != m.n {
		var orphan []uint64
		for t := uint64(1); t <= m.n; t++ {
			if owner[t] == nil {
				orphan = append(orphan, t)
			}
		}
		c.Failf(rt, dumpHistory(m, h.recs, nil), "%d transactions are committed but %d write calls succeeded; transactions without a successful call: %v", m.n, len(owner), orphan)
	}
	for _, r := range h.recs {
		if r.Hi < r.Lo {
			c.Failf(rt, dumpHistory(m, h.recs, r), "committed frontier went backwards across a call: %s", r)
		}
		var v verdict
		if r.IsWrite {
			v = checkWrite(m, r, st)
		} else {
			v = checkRead(m, r, st)
			if overlapsWrite(m, r, h.u) {
				st.readsOverlapWrite++
			}
			for _, e := range r.Out.Ents {
				if e.HasRef {
					st.refReads++
				}
			}
		}
		if v.ok {
			continue
		}
		if v.class != "" {
			// the failure has exactly the shape of a recorded finding: counted, and tolerated only
			// while that finding is listed as known and its pinned reproduction still fires
			st.classes[v.class]++
			vk.CountExcluded(v.class)
			if vk.Excluded(v.class) || os.Getenv("C06_EXPLORE") != "" {
				continue
			}
		}
		c.Failf(rt, dumpHistory(m, h.recs, r), "%s: %s", r, v.msg)
	}
	st.racingCond = racingConditionals(h.recs)
	return st
}

func TestLinearizableMixed(t *testing.T) {
	vk.Check(t, 400, 10000, func(rt *rapid.T, c *vk.Case) {
		runCase(rt, c, mixedProfile, shape{minClients: 3, maxClients: 8, minKeys: 6, maxKeys: 12, minOps: 8, maxOps: 25, preloadMax: 8})
	})
}

func TestConditionalRace(t *testing.T) {
	vk.Check(t, 300, 5500, func(rt *rapid.T, c *vk.Case) {
		runCase(rt, c, casProfile, shape{minClients: 3, maxClients: 8, minKeys: 6, maxKeys: 7, minOps: 10, maxOps: 30, preloadMax: 3})
	})
}

func TestReadsUnderWriters(t *testing.T) {
	vk.Check(t, 300, 5500, func(rt *rapid.T, c *vk.Case) {
		runCase(rt, c, readProfile, shape{minClients: 4, maxClients: 8, minKeys: 6, maxKeys: 10, minOps: 10, maxOps: 25, preloadMax: 10})
	})
}

func TestProbesDev(t *testing.T) {
	if os.Getenv("C06_PROBES") == "" {
		t.Skip()
	}
	for name, p := range map[string]func() (bool, string){"zscan": probeZScanTorn, "twostep": probeTwoStep, "compaction": probeCompaction} {
		t0 := time.Now()
		ok, d := p()
		t.Logf("%s: present=%v %.2fs %s", name, ok, time.Since(t0).Seconds(), d)
	}
}
