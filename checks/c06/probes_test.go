package c06

// Pinned reproductions of the findings of this check (see known_findings.json).

import (
	"fmt"
	"strings"
	"sync"
	"sync/atomic"
	"time"

	"github.com/codenotary/immudb/pkg/api/schema"
)

func probeCfg() dbCfg {
	return dbCfg{BulkSize: 1, FlushThld: 100000, SyncMul: 1, IdxCache: 100, VLogCache: 0, TxLogCache: 1000, IOConc: 1, FileSize: 1 << 20}
}

func mustSet(e *env, k, v string) uint64 {
	hdr, err := e.db.Set(bg, &schema.SetRequest{KVs: []*schema.KeyValue{{Key: []byte(k), Value: []byte(v)}}})
	if err != nil {
		panic(fmt.Sprintf("Set(%s): %v", k, err))
	}
	return hdr.Id
}

// blockFirst pauses the first storage operation that matches (in whatever
// goroutine issues it) until release is called; blocked is closed when it is held.
func blockFirst(p *perturb, match func(log string, op byte) bool) (blocked chan struct{}, release func()) {
	blocked = make(chan struct{})
	gate := make(chan struct{})
	var once atomic.Bool
	f := func(log string, op byte) {
		if match(log, op) && once.CompareAndSwap(false, true) {
			close(blocked)
			<-gate
		}
	}
	p.gate.Store(&f)
	var rel sync.Once
	return blocked, func() {
		rel.Do(func() {
			p.gate.Store(nil)
			close(gate)
		})
	}
}

// probeZScanTorn (K06b): ZScan with SinceTx>0 takes two independent snapshots
// (sorted-set index, KV index), each only required to include SinceTx. Sequential.
func probeZScanTorn() (bool, string) {
	e, err := openDB(probeCfg())
	if err != nil {
		return false, ""
	}
	defer e.close()
	mustSet(e, "a", "v1") // tx 1
	// any snapshot read pins a KV snapshot root at tx 1
	if _, err := e.db.GetAll(bg, &schema.KeyListRequest{Keys: [][]byte{[]byte("a")}}); err != nil {
		return false, ""
	}
	// tx 2: new value of a and its membership in set s, atomically
	_, err = e.db.ExecAll(bg, &schema.ExecAllRequest{Operations: []*schema.Op{
		{Operation: &schema.Op_Kv{Kv: &schema.KeyValue{Key: []byte("a"), Value: []byte("v2")}}},
		{Operation: &schema.Op_ZAdd{ZAdd: &schema.ZAddRequest{Set: []byte("s"), Score: 1, Key: []byte("a")}}},
	}})
	if err != nil {
		return false, ""
	}
	zs, err := e.db.ZScan(bg, &schema.ZScanRequest{Set: []byte("s"), SinceTx: 1})
	if err != nil {
		return true, "ZScan(s, SinceTx=1) failed: " + err.Error()
	}
	if len(zs.Entries) == 1 && string(zs.Entries[0].Entry.Value) == "v1" {
		return true, fmt.Sprintf("tx1 a=v1; GetAll(a); tx2 ExecAll{a=v2, zadd(s,1,a)}; ZScan(s, SinceTx=1) = [a=%q @tx%d]: member of tx 2 with the value of tx 1",
			zs.Entries[0].Entry.Value, zs.Entries[0].Entry.Tx)
	}
	return false, ""
}

// probeTwoStep (K06c): db.Get resolves an unbound reference with a second lookup on
// the live index. The reader is paused (at its value-log read, a point where any
// goroutine can lose the CPU) between the two lookups while two writes commit.
func probeTwoStep() (bool, string) {
	cfg := probeCfg()
	cfg.IOConc = 3 // the paused reader holds one value log; the writers use another one
	e, err := openDB(cfg)
	if err != nil {
		return false, ""
	}
	defer e.close()
	mustSet(e, "a", "a1") // tx 1
	mustSet(e, "b", "b1") // tx 2
	if _, err := e.db.SetReference(bg, &schema.ReferenceRequest{Key: []byte("r"), ReferencedKey: []byte("a")}); err != nil { // tx 3
		return false, ""
	}
	blocked, release := blockFirst(e.p, func(log string, op byte) bool { return op == 'R' && strings.HasPrefix(log, "val") })
	defer release()
	type res struct {
		e   *schema.Entry
		err error
	}
	ch := make(chan res, 1)
	go func() {
		en, err := e.db.Get(bg, &schema.KeyRequest{Key: []byte("r")})
		ch <- res{en, err}
	}()
	select {
	case <-blocked:
	case r := <-ch:
		_ = r
		return false, "" // no value-log read between the lookups on this tree: the reproduction does not apply
	case <-time.After(20 * time.Second):
		return false, ""
	}
	// while the reader sits between its two lookups: r becomes a plain value (tx 4), then a changes (tx 5)
	mustSet(e, "r", "plain")
	mustSet(e, "a", "a2")
	release()
	r := <-ch
	if r.err != nil {
		return false, ""
	}
	// legal answers: a1 via r@3 (state 3), r=plain (states 4, 5)
	if string(r.e.Value) == "a2" && r.e.ReferencedBy != nil && r.e.ReferencedBy.Tx == 3 {
		return true, fmt.Sprintf("r->a (tx3); Get(r) paused after its first lookup; Set(r=plain) (tx4); Set(a=a2) (tx5); Get(r) = {%s=%q tx%d via r@tx%d}: r pointed to a only while a was a1",
			r.e.Key, r.e.Value, r.e.Tx, r.e.ReferencedBy.Tx)
	}
	return false, ""
}

// probeCompaction (K06a): CompactIndex dumps a snapshot of the index without the
// lock, then reopens the index from the dump; transactions indexed in between are
// gone from the reopened tree until re-indexed, but the indexer's progress watcher
// still reports them as indexed, so reads do not wait.
func probeCompaction() (bool, string) {
	cfg := probeCfg()
	cfg.TxLogCache = 1
	e, err := openDB(cfg)
	if err != nil {
		return false, ""
	}
	defer e.close()
	// a tree of a few hundred keys: the dump takes long enough for writes to land meanwhile
	for i := 0; i < 10; i++ {
		req := &schema.SetRequest{}
		for j := 0; j < 40; j++ {
			req.KVs = append(req.KVs, &schema.KeyValue{Key: []byte(fmt.Sprintf("k%02d-%02d", i, j)), Value: []byte("x")})
		}
		if _, err := e.db.Set(bg, req); err != nil {
			return false, ""
		}
	}
	// slow tx-log reads: the indexer needs a little longer per transaction it (re-)indexes
	slow := func(log string, op byte) {
		if op == 'R' && log == "tx" {
			time.Sleep(100 * time.Microsecond)
		}
	}
	e.p.gate.Store(&slow)
	if err := e.db.FlushIndex(&schema.FlushIndexRequest{}); err != nil {
		return false, ""
	}
	var acked atomic.Uint64
	stop := make(chan struct{})
	var wg sync.WaitGroup
	var found atomic.Pointer[string]
	// writer: x = 1, 2, 3, ... (every Set returns only after commit and indexing)
	wg.Add(1)
	go func() {
		defer wg.Done()
		for i := 1; ; i++ {
			select {
			case <-stop:
				return
			default:
			}
			hdr, err := e.db.Set(bg, &schema.SetRequest{KVs: []*schema.KeyValue{{Key: []byte("x"), Value: []byte(fmt.Sprintf("%d", i))}}})
			if err != nil {
				return
			}
			acked.Store(hdr.Id)
		}
	}()
	// readers: a Get that starts after Set(x) returned tx t must see tx >= t
	for g := 0; g < 2; g++ {
		wg.Add(1)
		go func() {
			defer wg.Done()
			for {
				select {
				case <-stop:
					return
				default:
				}
				a := acked.Load()
				if a == 0 {
					continue
				}
				en, err := e.db.Get(bg, &schema.KeyRequest{Key: []byte("x")})
				var s string
				if err != nil {
					s = fmt.Sprintf("Set(x) had returned tx %d; a Get(x) started afterwards, during CompactIndex, failed: %v", a, err)
				} else if en.Tx < a {
					s = fmt.Sprintf("Set(x) had returned tx %d; a Get(x) started afterwards, during CompactIndex, returned the older version of tx %d", a, en.Tx)
				}
				if s != "" {
					found.CompareAndSwap(nil, &s)
					return
				}
			}
		}()
	}
	deadline := time.Now().Add(15 * time.Second)
	n := 0 // compactions that took place
	for n < 100 && found.Load() == nil && time.Now().Before(deadline) {
		e.db.FlushIndex(&schema.FlushIndexRequest{}) // a compaction needs a flushed snapshot newer than the last dump
		if e.db.CompactIndex() == nil {
			n++
		}
	}
	close(stop)
	wg.Wait()
	if s := found.Load(); s != nil {
		return true, fmt.Sprintf("%s (compaction #%d)", *s, n)
	}
	return false, ""
}
