package c06

// Independent cross-check of the frontier-window oracle (thorough tier, and a
// fraction of the quick tier): single-key sub-histories are checked for
// linearizability with a Wing-Gong style search over a register model, using
// only the logical clock of the calls (no tx frontier). A history accepted by
// the window oracle must be accepted here; a disagreement is a harness defect.
//
// (The design names porcupine for this; it is not in /verif/go.mod, and adding a
// requirement to the shared module while other checks build was avoided. The
// search below is the same algorithm specialised to this model.)

import (
	"fmt"
	"sort"
	"testing"

	"verif/internal/vk"
)

// regOp is one operation on the register of a key.
type regOp struct {
	call, ret uint64
	kind      byte   // 'w' write/delete that committed, 'r' read, 'f' refused conditional write
	tx        uint64 // w: tx id; r: observed version (0 = not found)
	del       bool   // w: it is a delete
	needLive  bool   // w: applied only if the key is live (Delete)
	pre       []precond // w/f: conditions on this key
	notFound  bool   // f: Delete refused with key-not-found
	desc      string
}

type regState struct {
	tx  uint64
	del bool
}

func (s regState) live() bool { return s.tx > 0 && !s.del }

func (s regState) holds(p precond) bool {
	switch p.Kind {
	case "exist":
		return s.live()
	case "notexist":
		return !s.live()
	default:
		return s.tx <= p.Tx
	}
}

// step applies op on s; ok=false when op cannot take effect on s.
func (o *regOp) step(s regState) (regState, bool) {
	switch o.kind {
	case 'w':
		if o.tx <= s.tx {
			return s, false
		}
		if o.needLive && !s.live() {
			return s, false
		}
		for _, p := range o.pre {
			if !s.holds(p) {
				return s, false
			}
		}
		return regState{tx: o.tx, del: o.del}, true
	case 'f':
		if o.notFound {
			return s, !s.live()
		}
		for _, p := range o.pre {
			if !s.holds(p) {
				return s, true
			}
		}
		return s, false
	default:
		if o.tx == 0 {
			return s, !s.live()
		}
		return s, s.live() && s.tx == o.tx
	}
}

type bitset [4]uint64

func (b bitset) has(i int) bool { return b[i>>6]&(1<<(uint(i)&63)) != 0 }
func (b bitset) with(i int) bitset {
	b[i>>6] |= 1 << (uint(i) & 63)
	return b
}

// linearizable: Wing-Gong search with memoisation of (linearized set, state).
func linearizable(ops []regOp) bool {
	n := len(ops)
	if n == 0 {
		return true
	}
	type key struct {
		b bitset
		s regState
	}
	dead := map[key]bool{}
	var rec func(done bitset, cnt int, s regState) bool
	rec = func(done bitset, cnt int, s regState) bool {
		if cnt == n {
			return true
		}
		k := key{done, s}
		if dead[k] {
			return false
		}
		// an op may be linearized next iff no pending op returned before it was called
		minRet := ^uint64(0)
		for i := range ops {
			if !done.has(i) && ops[i].ret < minRet {
				minRet = ops[i].ret
			}
		}
		for i := range ops {
			if done.has(i) || ops[i].call > minRet {
				continue
			}
			if ns, ok := ops[i].step(s); ok {
				if rec(done.with(i), cnt+1, ns) {
					return true
				}
			}
		}
		dead[k] = true
		return false
	}
	return rec(bitset{}, 0, regState{})
}

// registerHistories projects the log onto the keys that never held a reference.
func registerHistories(m *model, h *history) map[string][]regOp {
	plain := map[string]bool{}
	for _, k := range h.u.Keys {
		ok := true
		for _, v := range m.kv[k] {
			if v.Kind == vRef {
				ok = false
			}
		}
		plain[k] = ok
	}
	out := map[string][]regOp{}
	add := func(k string, o regOp) {
		if plain[k] {
			out[k] = append(out[k], o)
		}
	}
	for _, r := range h.recs {
		base := regOp{call: r.Call, ret: r.Ret, desc: r.String()}
		preOn := func(k string) (ps []precond, others bool) {
			for _, p := range r.Pre {
				if p.Key == k {
					ps = append(ps, p)
				} else {
					others = true
				}
			}
			return
		}
		switch {
		case r.IsWrite && r.Err == eOK:
			for _, s := range r.Sub {
				if s.Kind == "zadd" {
					continue
				}
				o := base
				o.kind, o.tx = 'w', r.TxID
				o.del = s.Kind == "del"
				o.needLive = s.Kind == "del"
				o.pre, _ = preOn(s.Key)
				add(s.Key, o)
			}
			// conditions on keys the write does not touch: a read-like constraint is not expressible
			// per key without the version, so they are left to the window oracle
		case r.IsWrite && r.Err == ePrecond && len(r.Pre) == 1:
			o := base
			o.kind, o.pre = 'f', r.Pre
			add(r.Pre[0].Key, o)
		case r.IsWrite && r.Err == eNotFound && r.Kind == "delete" && len(r.Sub) == 1 && r.Since == 0:
			o := base
			o.kind, o.notFound = 'f', true
			add(r.Sub[0].Key, o)
		case r.Kind == "get" && (r.Out.Err == eOK || r.Out.Err == eNotFound):
			o := base
			o.kind = 'r'
			if r.Out.Err == eOK {
				o.tx = r.Out.Ents[0].Tx
			}
			add(r.Keys[0], o)
		case r.Kind == "getall" && r.Since == 0 && r.Out.Err == eOK:
			seen := map[string]uint64{}
			for _, e := range r.Out.Ents {
				if !e.HasRef {
					seen[e.Key] = e.Tx
				}
			}
			for _, k := range r.Keys {
				o := base
				o.kind, o.tx = 'r', seen[k]
				add(k, o)
			}
		}
	}
	return out
}

// crossCheck reports the first key whose sub-history the search rejects.
func crossCheck(m *model, h *history) (checked int, bad string) {
	hs := registerHistories(m, h)
	keys := make([]string, 0, len(hs))
	for k := range hs {
		keys = append(keys, k)
	}
	sort.Strings(keys)
	for _, k := range keys {
		ops := hs[k]
		if len(ops) > 250 {
			continue
		}
		checked++
		if !linearizable(ops) {
			s := fmt.Sprintf("key %s: the register search finds no linearization of:", k)
			for _, o := range ops {
				s += "\n  " + fmt.Sprintf("[%d,%d] ", o.call, o.ret) + o.desc
			}
			return checked, s
		}
	}
	return checked, ""
}

// TestCrossCheckSelf: the search itself rejects what it must reject.
func TestCrossCheckSelf(t *testing.T) {
	if vk.Shard() != 0 {
		t.Skip("shard 0 only")
	}
	w := func(c, r, tx uint64) regOp { return regOp{call: c, ret: r, kind: 'w', tx: tx} }
	rd := func(c, r, tx uint64) regOp { return regOp{call: c, ret: r, kind: 'r', tx: tx} }
	cases := []struct {
		name string
		ops  []regOp
		want bool
	}{
		{"sequential", []regOp{w(1, 2, 1), rd(3, 4, 1), w(5, 6, 2), rd(7, 8, 2)}, true},
		{"stale read after write returned", []regOp{w(1, 2, 1), w(3, 4, 2), rd(5, 6, 1)}, false},
		{"concurrent read may see either", []regOp{w(1, 2, 1), w(3, 6, 2), rd(4, 5, 1)}, true},
		{"concurrent read may see the new one", []regOp{w(1, 2, 1), w(3, 6, 2), rd(4, 5, 2)}, true},
		{"new-old inversion", []regOp{w(1, 2, 1), w(3, 10, 2), rd(4, 5, 2), rd(6, 7, 1)}, false},
		{"read of a future write", []regOp{w(1, 2, 1), rd(3, 4, 2), w(5, 6, 2)}, false},
		{"not found after a write returned", []regOp{w(1, 2, 1), rd(3, 4, 0)}, false},
		{"refused must-not-exist on an absent key", []regOp{{call: 1, ret: 2, kind: 'f', pre: []precond{{Kind: "notexist", Key: "k"}}}}, false},
		{"two racing create-if-absent both applied", []regOp{
			{call: 1, ret: 4, kind: 'w', tx: 1, pre: []precond{{Kind: "notexist", Key: "k"}}},
			{call: 2, ret: 5, kind: 'w', tx: 2, pre: []precond{{Kind: "notexist", Key: "k"}}}}, false},
		{"delete of an absent key applied", []regOp{{call: 1, ret: 2, kind: 'w', tx: 1, del: true, needLive: true}}, false},
	}
	for _, cs := range cases {
		e := vk.NewEnum("TestCrossCheckSelf")
		e.Descf("%s", cs.name)
		if got := linearizable(cs.ops); got != cs.want {
			e.Failf(t, nil, "register search on %q: got %v want %v", cs.name, got, cs.want)
			return
		}
		e.Done()
	}
}
