// C11 — SQL query results do not depend on the physical plan.
package c11

import (
	"errors"
	"fmt"
	"math"
	"os"
	"sort"
	"strings"
	"testing"

	"pgregory.net/rapid"

	"verif/internal/sqlgen"
	"verif/internal/vk"
)

func TestMain(m *testing.M) {
	vk.Main(m, vk.Config{
		Property: "C11",
		Rule: "each case is one generated database: schema (1-3 tables, every column type, composite keys, 0-4 plain/unique/composite secondary indexes " +
			"created before or after the data) + a twin of every table without secondary indexes, a history of multi-statement transactions (insert, upsert, " +
			"on-conflict, update of indexed columns, delete, failing statements) applied to table and twin, store reopen, then 12-40 (thorough: 12-60) generated SELECTs " +
			"(comparisons, ranges, IN, LIKE, IS NULL, boolean combinations, ORDER BY asc/desc, LIMIT/OFFSET, DISTINCT, GROUP BY/aggregates/HAVING, inner/left " +
			"joins, IN/EXISTS/scalar subqueries, UNION, HISTORY OF and period queries), each evaluated through the twin, the planner's choice, the forced primary " +
			"key and every forced secondary index, inside the open transaction, after commit (two engines: default and tiny sort/distinct buffers) and after " +
			"reopen; plus TLP partitioning and a naive nested-loop executor. A case is NON-TRIVIAL when at least one of its queries was answered through >= 2 " +
			"different indexes (as reported by the row reader's scan specs) over a table with >= 3 rows that has a NULL or a duplicate in an indexed column; " +
			"DISTINCT by hash of schema + history + queries.",
		Assumptions: []string{
			"comparison semantics are the dialect's: NULL is the lowest value of every type and NULL = NULL holds; the naive executor treats rows whose membership hinges on a NULL comparison as optional instead of asserting that choice",
			"generated predicates cannot fail row-dependently (NOT/AND/OR only over comparisons, arithmetic only over NOT NULL INTEGER columns, INTEGER/FLOAT mixed comparisons only over NOT NULL columns), so an error through one access path and rows through another is reported as a violation",
			"TIMESTAMP values stay inside 1678-2262 where index keys (UnixNano) are representable (finding K7 belongs to C15)",
			"SUM/AVG over FLOAT columns are generated only where every value is a multiple of 0.25 below 1e12 (sums are exact in any order)",
			"with LIMIT/OFFSET and an ORDER BY that is not total only the row count, the sortedness and the multiset of ORDER BY keys are compared; without ORDER BY only the row count",
			"HISTORY OF is evaluated through the primary index only (the engine rejects other indexes by design); HISTORY OF and period queries are not evaluated inside the open transaction (revisions and transaction ids of uncommitted entries are not defined by the documentation)",
			"not generated: window functions, CTEs, FULL/CROSS/LATERAL/NATURAL joins, EXCEPT/INTERSECT, DIFF OF, time-instant periods, views, JSON path selectors, functions, CASE, AUTO_INCREMENT keys, UPDATE/DELETE with LIMIT, parameters inside subqueries (EXISTS and scalar subqueries are resolved without them); concurrency between sessions (C12/C13)",
			"USE INDEX ON (primary key) is a hint the planner overrides when the WHERE clause has an equality on the leading column of a secondary index; the check therefore never relies on a forced primary key to avoid an index, it uses the twin table",
			"while known findings K11/K12 are listed (stale / shadowed secondary-index entries inside a transaction), a transaction that has written to a table with secondary indexes issues no further UPDATE/DELETE on it, and in-transaction queries reach such a table through the twin only (both counted)",
			"the naive executor covers single-table and inner/left-join queries with WHERE, DISTINCT, GROUP BY, COUNT/MIN/MAX/integer SUM, HAVING; subqueries, UNION, history, AVG and float SUM are compared differentially only",
		},
		Probes: []vk.Probe{
			{ID: kfSpill, Present: probeSpill},
			{ID: kfNegZero, Present: probeNegZero},
			{ID: kfNullsOrd, Present: probeNullsOrder},
			{ID: kfNotIn, Present: probeNotIn},
			{ID: kfInTxIndex, Present: probeInTxIndex},
			{ID: kfInTxDup, Present: probeInTxDup},
			{ID: kfOrdPos, Present: probeOrderByPosition},
			{ID: kfHistOrder, Present: probeHistoryOrder},
			{ID: kfJoinOrder, Present: probeJoinOrderClash},
			{ID: kfAvgSpill, Present: probeAvgSpill},
			{ID: kfCountDistinctSpill, Present: probeCountDistinctSpill},
			{ID: kfTopNDistinct, Present: probeTopNDistinct},
			{ID: kfMaxLen, Present: probeMaxLenRange},
			{ID: kfCountSubq, Present: probeCountStarSubquery},
			{ID: kfBigMixed, Present: probeBigMixedCompare},
			{ID: kfHashResidual, Present: probeHashJoinResidual},
			{ID: kfMixedJoin, Present: probeMixedHashJoin},
			{ID: kfNullRange, Present: probeTypedNullRange},
			{ID: kfGroupNulls, Present: probeGroupNullsOrder},
			{ID: kfOwnIndex, Present: probeUpdateThroughOwnIndex},
			{ID: kfLossyCmp, Present: probeLossyIntFloatCompare},
		},
	})
}

// ---------------------------------------------------------------------------
// pinned reproductions of known findings

func probeDB(o sqlgen.DBOpts, stmts ...string) (*sqlgen.DB, func(), error) {
	setupTmp()
	dir := vk.Dir()
	db, err := sqlgen.Open(dir, o)
	if err != nil {
		os.RemoveAll(dir)
		return nil, nil, err
	}
	cleanup := func() { db.Close(); os.RemoveAll(dir) }
	for _, s := range stmts {
		if err := db.Exec(s, nil); err != nil {
			cleanup()
			return nil, nil, fmt.Errorf("%s: %w", s, err)
		}
	}
	return db, cleanup, nil
}

// probeSpill: ORDER BY spilling to a temp file returns NULL for ”.
func probeSpill() (bool, string) {
	db, done, err := probeDB(sqlgen.DBOpts{SortBufferSize: 2},
		"CREATE TABLE t (id INTEGER, s VARCHAR[8], PRIMARY KEY id)",
		"INSERT INTO t (id, s) VALUES (1, 'b'), (2, ''), (3, 'a'), (4, 'c'), (5, 'd')")
	if err != nil {
		return false, ""
	}
	defer done()
	r, err := db.Query("SELECT id, s FROM t ORDER BY s", nil)
	if err != nil {
		return true, "ORDER BY s with sortBufferSize=2: " + err.Error()
	}
	for _, row := range r.Rows {
		if row[0].I == 2 && row[1].Null {
			return true, fmt.Sprintf("5 rows, sortBufferSize=2, SELECT id, s FROM t ORDER BY s returns NULL for the row inserted with s='': %v", r.Keys())
		}
	}
	return false, ""
}

// probeNegZero: -0.0 and 0.0 are equal for the comparison but have different index keys.
func probeNegZero() (bool, string) {
	db, done, err := probeDB(sqlgen.DBOpts{},
		"CREATE TABLE t (id INTEGER, f FLOAT, PRIMARY KEY id)",
		"CREATE INDEX ON t (f)")
	if err != nil {
		return false, ""
	}
	defer done()
	if err := db.Exec("INSERT INTO t (id, f) VALUES (1, @f)", sqlgen.Params{"f": math.Copysign(0, -1)}); err != nil {
		return false, ""
	}
	a, err1 := db.Query("SELECT id FROM t USE INDEX ON (id) WHERE f >= 0.0", nil)
	b, err2 := db.Query("SELECT id FROM t USE INDEX ON (f) WHERE f >= 0.0", nil)
	if err1 != nil || err2 != nil {
		return false, ""
	}
	if len(a.Rows) != len(b.Rows) {
		return true, fmt.Sprintf("row f=-0.0, WHERE f >= 0.0: %d row(s) through the primary key, %d through the index on f", len(a.Rows), len(b.Rows))
	}
	return false, ""
}

// probeNullsOrder: NULLS FIRST/LAST is ignored when an index provides the order.
func probeNullsOrder() (bool, string) {
	db, done, err := probeDB(sqlgen.DBOpts{},
		"CREATE TABLE t (id INTEGER, s VARCHAR[8], PRIMARY KEY id)",
		"CREATE INDEX ON t (s)",
		"INSERT INTO t (id, s) VALUES (1, 'a'), (2, NULL), (3, 'b')")
	if err != nil {
		return false, ""
	}
	defer done()
	a, err1 := db.Query("SELECT id FROM t USE INDEX ON (id) ORDER BY s NULLS LAST", nil)
	b, err2 := db.Query("SELECT id FROM t USE INDEX ON (s) ORDER BY s NULLS LAST", nil)
	if err1 != nil || err2 != nil {
		return false, ""
	}
	if d := sqlgen.DiffSeq(a, b); d != "" {
		return true, fmt.Sprintf("ORDER BY s NULLS LAST: %v through the primary key (sorted), %v through the index on s", a.Keys(), b.Keys())
	}
	return false, ""
}

// probeNotIn: an inner-table NOT IN conjunct pushed into an INNER JOIN loses its negation.
func probeNotIn() (bool, string) {
	db, done, err := probeDB(sqlgen.DBOpts{},
		"CREATE TABLE t (id INTEGER, PRIMARY KEY id)",
		"CREATE TABLE u (id INTEGER, c VARCHAR[4], PRIMARY KEY id)",
		"INSERT INTO t (id) VALUES (1), (2)",
		"INSERT INTO u (id, c) VALUES (1, 'a'), (2, 'b')")
	if err != nil {
		return false, ""
	}
	defer done()
	a, err1 := db.Query("SELECT t.id FROM t INNER JOIN u ON t.id = u.id WHERE u.c NOT IN ('a')", nil)
	b, err2 := db.Query("SELECT t.id FROM t INNER JOIN u ON t.id = u.id WHERE NOT (u.c IN ('a'))", nil)
	if err1 != nil || err2 != nil {
		return false, ""
	}
	if d := sqlgen.DiffMultiset(a, b); d != "" {
		return true, fmt.Sprintf("t JOIN u ON t.id = u.id WHERE u.c NOT IN ('a') returns %v, WHERE NOT (u.c IN ('a')) returns %v", a.Keys(), b.Keys())
	}
	return false, ""
}

// probeInTxIndex: inside the transaction that updated / deleted rows, scans through a
// secondary index still return the old entries.
func probeInTxIndex() (bool, string) {
	db, done, err := probeDB(sqlgen.DBOpts{},
		"CREATE TABLE t (id INTEGER, i INTEGER, PRIMARY KEY id)",
		"CREATE INDEX ON t (i)",
		"INSERT INTO t (id, i) VALUES (1, 10), (2, 20)")
	if err != nil {
		return false, ""
	}
	defer done()
	tx, err := db.Begin()
	if err != nil {
		return false, ""
	}
	defer tx.Rollback()
	if tx.Exec("UPDATE t SET i = 100 WHERE id = 1", nil) != nil || tx.Exec("DELETE FROM t WHERE id = 2", nil) != nil {
		return false, ""
	}
	a, err1 := tx.Query("SELECT id, i FROM t USE INDEX ON (id)", nil)
	b, err2 := tx.Query("SELECT id, i FROM t USE INDEX ON (i)", nil)
	if err1 != nil || err2 != nil {
		return false, ""
	}
	if d := sqlgen.DiffMultiset(a, b); d != "" {
		return true, fmt.Sprintf("in the transaction after UPDATE t SET i=100 WHERE id=1; DELETE FROM t WHERE id=2: %v through the primary key, %v through the index on i", a.Keys(), b.Keys())
	}
	return false, ""
}

// probeOrderByPosition: ORDER BY <n> takes the n-th column of the scanned table row, not of the select list.
func probeOrderByPosition() (bool, string) {
	db, done, err := probeDB(sqlgen.DBOpts{},
		"CREATE TABLE t (id INTEGER, a INTEGER, PRIMARY KEY id)",
		"INSERT INTO t (id, a) VALUES (1, 30), (2, 20), (3, 10)")
	if err != nil {
		return false, ""
	}
	defer done()
	r, err := db.Query("SELECT a FROM t ORDER BY 1", nil)
	if err != nil {
		return false, ""
	}
	if d := r.Unsorted([]sqlgen.OrdKey{{Pos: 0}}); d != "" {
		return true, fmt.Sprintf("SELECT a FROM t ORDER BY 1 returns %v", r.Keys())
	}
	return false, ""
}

// probeHistoryOrder: a historical query with an ORDER BY that a secondary index covers is rejected,
// because the planner picks that index by itself.
func probeHistoryOrder() (bool, string) {
	db, done, err := probeDB(sqlgen.DBOpts{},
		"CREATE TABLE t (id INTEGER, a INTEGER, PRIMARY KEY id)",
		"CREATE TABLE u (id INTEGER, a INTEGER, PRIMARY KEY id)",
		"CREATE INDEX ON t (a)",
		"INSERT INTO t (id, a) VALUES (1, 30), (2, 20)",
		"INSERT INTO u (id, a) VALUES (1, 30), (2, 20)")
	if err != nil {
		return false, ""
	}
	defer done()
	_, err1 := db.Query("SELECT id, a FROM (HISTORY OF u) ORDER BY a", nil)
	_, err2 := db.Query("SELECT id, a FROM (HISTORY OF t) ORDER BY a", nil)
	if err1 == nil && err2 != nil {
		return true, "SELECT id, a FROM (HISTORY OF t) ORDER BY a fails once an index on (a) exists: " + err2.Error()
	}
	return false, ""
}

// probeJoinOrderClash: ORDER BY u.id in a join is taken for the driving table's id (same column
// name) and "served" by that table's primary index.
func probeJoinOrderClash() (bool, string) {
	db, done, err := probeDB(sqlgen.DBOpts{},
		"CREATE TABLE t (id INTEGER, x INTEGER, PRIMARY KEY id)",
		"CREATE TABLE u (id INTEGER, x INTEGER, PRIMARY KEY id)",
		"INSERT INTO t (id, x) VALUES (1, 7), (2, 8)",
		"INSERT INTO u (id, x) VALUES (1, 8), (2, 7)")
	if err != nil {
		return false, ""
	}
	defer done()
	r, err := db.Query("SELECT t.id, u.id FROM t INNER JOIN u ON t.x = u.x ORDER BY u.id", nil)
	if err != nil {
		return false, ""
	}
	if d := r.Unsorted([]sqlgen.OrdKey{{Pos: 1}}); d != "" {
		return true, fmt.Sprintf("SELECT t.id, u.id FROM t INNER JOIN u ON t.x = u.x ORDER BY u.id returns %v", r.Keys())
	}
	return false, ""
}

// probeAvgSpill: AVG over a group whose values are all NULL makes the spilling sort panic.
func probeAvgSpill() (present bool, detail string) {
	db, done, err := probeDB(sqlgen.DBOpts{SortBufferSize: 2},
		"CREATE TABLE t (id INTEGER, g INTEGER, c INTEGER, PRIMARY KEY id)",
		"INSERT INTO t (id, g, c) VALUES (1, 1, NULL), (2, 2, 5), (3, 3, 6)")
	if err != nil {
		return false, ""
	}
	defer done()
	defer func() {
		if r := recover(); r != nil {
			present, detail = true, fmt.Sprintf("3 groups, sortBufferSize=2, SELECT g, AVG(c) FROM t GROUP BY g ORDER BY g panics: %v", r)
		}
	}()
	if _, err := db.Query("SELECT g, AVG(c) FROM t GROUP BY g ORDER BY g", nil); err != nil {
		return false, ""
	}
	return false, ""
}

// probeCountDistinctSpill: COUNT(DISTINCT s) over a VARCHAR column comes back from the sort spill
// decoded as a VARCHAR.
func probeCountDistinctSpill() (bool, string) {
	db, done, err := probeDB(sqlgen.DBOpts{SortBufferSize: 2},
		"CREATE TABLE t (id INTEGER, g INTEGER, s VARCHAR[8], PRIMARY KEY id)",
		"INSERT INTO t (id, g, s) VALUES (1, 1, 'a'), (2, 2, 'b'), (3, 3, 'c')")
	if err != nil {
		return false, ""
	}
	defer done()
	r, err := db.Query("SELECT g, COUNT(DISTINCT s) FROM t GROUP BY g ORDER BY g", nil)
	if err != nil {
		return true, "3 groups, sortBufferSize=2, SELECT g, COUNT(DISTINCT s) FROM t GROUP BY g ORDER BY g: " + err.Error()
	}
	for _, row := range r.Rows {
		if row[1].T != sqlgen.TInt || row[1].I != 1 {
			return true, fmt.Sprintf("3 groups, sortBufferSize=2, SELECT g, COUNT(DISTINCT s) FROM t GROUP BY g ORDER BY g returns %v", r.Keys())
		}
	}
	return false, ""
}

// probeTopNDistinct: the top-N heap of ORDER BY ... LIMIT n runs below DISTINCT.
func probeTopNDistinct() (bool, string) {
	db, done, err := probeDB(sqlgen.DBOpts{},
		"CREATE TABLE t (id INTEGER, a INTEGER, PRIMARY KEY id)",
		"INSERT INTO t (id, a) VALUES (1, 2), (2, 2), (3, 1)")
	if err != nil {
		return false, ""
	}
	defer done()
	r, err := db.Query("SELECT DISTINCT a FROM t ORDER BY a DESC LIMIT 2", nil)
	if err != nil {
		return false, ""
	}
	if len(r.Rows) != 2 {
		return true, fmt.Sprintf("a = 2, 2, 1: SELECT DISTINCT a FROM t ORDER BY a DESC LIMIT 2 returns %v", r.Keys())
	}
	return false, ""
}

// probeMaxLenRange: comparing an indexed VARCHAR[n] column with a longer value fails when the
// index is used (the value cannot be encoded as a key) and simply matches nothing otherwise.
func probeMaxLenRange() (bool, string) {
	db, done, err := probeDB(sqlgen.DBOpts{},
		"CREATE TABLE t (id INTEGER, s VARCHAR[4], PRIMARY KEY id)",
		"CREATE INDEX ON t (s)",
		"INSERT INTO t (id, s) VALUES (1, 'abcd')")
	if err != nil {
		return false, ""
	}
	defer done()
	_, err1 := db.Query("SELECT id FROM t USE INDEX ON (id) WHERE s < 'abcdefgh'", nil)
	_, err2 := db.Query("SELECT id FROM t USE INDEX ON (s) WHERE s < 'abcdefgh'", nil)
	if err1 == nil && err2 != nil {
		return true, "s VARCHAR[4] indexed: WHERE s < 'abcdefgh' returns rows through the primary key and fails through the index on s: " + err2.Error()
	}
	return false, ""
}

// probeCountStarSubquery: the index-only COUNT(*) path is taken although the WHERE clause has a
// correlated subquery that needs a column outside the index.
func probeCountStarSubquery() (bool, string) {
	db, done, err := probeDB(sqlgen.DBOpts{},
		"CREATE TABLE t (id INTEGER, a INTEGER, PRIMARY KEY id)",
		"CREATE TABLE u (id INTEGER, b INTEGER, PRIMARY KEY id)",
		"CREATE INDEX ON t (a)",
		"INSERT INTO t (id, a) VALUES (1, 5)",
		"INSERT INTO u (id, b) VALUES (1, 5)")
	if err != nil {
		return false, ""
	}
	defer done()
	_, err1 := db.Query("SELECT COUNT(*) FROM t USE INDEX ON (a) WHERE EXISTS (SELECT u.id FROM u WHERE u.b = t.a)", nil)
	_, err2 := db.Query("SELECT COUNT(*) FROM t USE INDEX ON (id) WHERE EXISTS (SELECT u.id FROM u WHERE u.b = t.a)", nil)
	if err1 == nil && err2 != nil {
		return true, "SELECT COUNT(*) FROM t WHERE EXISTS (SELECT u.id FROM u WHERE u.b = t.a) works through the index on a and fails through the primary key: " + err2.Error()
	}
	return false, ""
}

// probeBigMixedCompare: INTEGER column = FLOAT constant: the row filter converts the integer to a
// float (2^53+1 becomes 2^53), the index range converts the float to an integer.
func probeBigMixedCompare() (bool, string) {
	db, done, err := probeDB(sqlgen.DBOpts{},
		"CREATE TABLE t (id INTEGER, x INTEGER, PRIMARY KEY id)",
		"CREATE INDEX ON t (x)",
		"INSERT INTO t (id, x) VALUES (9007199254740993, 1)")
	if err != nil {
		return false, ""
	}
	defer done()
	a, err1 := db.Query("SELECT id FROM t USE INDEX ON (id) WHERE id = 9007199254740992.0", nil)
	b, err2 := db.Query("SELECT id FROM t USE INDEX ON (x) WHERE id = 9007199254740992.0", nil)
	if err1 != nil || err2 != nil {
		return false, ""
	}
	if len(a.Rows) != len(b.Rows) {
		return true, fmt.Sprintf("row id = 2^53+1, WHERE id = 9007199254740992.0: %d row(s) through the primary key, %d through the index on x", len(a.Rows), len(b.Rows))
	}
	return false, ""
}

// probeHashJoinResidual: a non-equality conjunct between the two tables is classified as an
// "inner-only residual" after the first outer row's values were substituted into it, and the hash
// table built with it is reused for every outer row.
func probeHashJoinResidual() (bool, string) {
	db, done, err := probeDB(sqlgen.DBOpts{},
		"CREATE TABLE t (id INTEGER, a INTEGER, PRIMARY KEY id)",
		"CREATE TABLE u (id INTEGER, b INTEGER, f BOOLEAN, PRIMARY KEY id)",
		"INSERT INTO t (id, a) VALUES (1, 1), (2, 2)",
		"INSERT INTO u (id, b, f) VALUES (1, 1, FALSE), (2, 2, FALSE)")
	if err != nil {
		return false, ""
	}
	defer done()
	a, err1 := db.Query("SELECT t.id, u.id FROM t INNER JOIN u ON t.a <> u.b WHERE u.f = FALSE", nil)
	b, err2 := db.Query("SELECT t.id, u.id FROM t INNER JOIN (SELECT * FROM u) AS u ON t.a <> u.b WHERE u.f = FALSE", nil)
	if err1 != nil || err2 != nil {
		return false, ""
	}
	if d := sqlgen.DiffMultiset(a, b); d != "" {
		return true, fmt.Sprintf("t JOIN u ON t.a <> u.b WHERE u.f = FALSE returns %v; with u as a derived table (nested loop) %v", a.Keys(), b.Keys())
	}
	return false, ""
}

// probeMixedHashJoin: the hash join key carries the Go type of the value, so INTEGER = FLOAT never
// matches there while the nested-loop path compares numerically.
func probeMixedHashJoin() (bool, string) {
	db, done, err := probeDB(sqlgen.DBOpts{},
		"CREATE TABLE t (id INTEGER, i INTEGER NOT NULL, PRIMARY KEY id)",
		"CREATE TABLE u (id INTEGER, f FLOAT NOT NULL, PRIMARY KEY id)",
		"INSERT INTO t (id, i) VALUES (1, 10)",
		"INSERT INTO u (id, f) VALUES (1, 10.0)")
	if err != nil {
		return false, ""
	}
	defer done()
	a, err1 := db.Query("SELECT t.id, u.id FROM t INNER JOIN u ON t.i = u.f", nil)
	b, err2 := db.Query("SELECT t.id, u.id FROM t INNER JOIN (SELECT * FROM u) AS u ON t.i = u.f", nil)
	if err1 != nil || err2 != nil {
		return false, ""
	}
	if d := sqlgen.DiffMultiset(a, b); d != "" {
		return true, fmt.Sprintf("t.i = 10, u.f = 10.0: t JOIN u ON t.i = u.f returns %v; with u as a derived table (nested loop) %v", a.Keys(), b.Keys())
	}
	return false, ""
}

// probeTypedNullRange: a NULL join key of type INTEGER and a FLOAT constant on the same inner
// column cannot be intersected when the scan range is derived: the nested-loop join fails.
func probeTypedNullRange() (bool, string) {
	db, done, err := probeDB(sqlgen.DBOpts{},
		"CREATE TABLE t (id INTEGER, a INTEGER, PRIMARY KEY id)",
		"CREATE TABLE u (id INTEGER, PRIMARY KEY id)",
		"INSERT INTO t (id, a) VALUES (1, NULL)",
		"INSERT INTO u (id) VALUES (1)")
	if err != nil {
		return false, ""
	}
	defer done()
	_, err1 := db.Query("SELECT t.id FROM t INNER JOIN (SELECT * FROM u) AS u ON u.id = t.a AND t.id > 0 WHERE u.id <= 5.5", nil)
	_, err2 := db.Query("SELECT t.id FROM t INNER JOIN u ON u.id = t.a AND t.id > 0 WHERE u.id <= 5.5", nil)
	if err1 == nil && err2 != nil {
		return true, "t.a NULL: t JOIN u ON u.id = t.a AND t.id > 0 WHERE u.id <= 5.5 fails (" + err2.Error() + "); with u as a derived table it returns no rows"
	}
	return false, ""
}

// probeGroupNullsOrder: when the ORDER BY is merged into the GROUP BY sort, NULLS FIRST/LAST is lost.
func probeGroupNullsOrder() (bool, string) {
	db, done, err := probeDB(sqlgen.DBOpts{},
		"CREATE TABLE t (id INTEGER, a INTEGER, PRIMARY KEY id)",
		"INSERT INTO t (id, a) VALUES (1, NULL), (2, 1)")
	if err != nil {
		return false, ""
	}
	defer done()
	r, err := db.Query("SELECT a, id, COUNT(*) FROM t GROUP BY a, id ORDER BY a DESC NULLS FIRST", nil)
	if err != nil {
		return false, ""
	}
	if d := r.Unsorted([]sqlgen.OrdKey{{Pos: 0, Desc: true, Nulls: "FIRST"}}); d != "" {
		return true, fmt.Sprintf("a = NULL, 1: SELECT a, id, COUNT(*) FROM t GROUP BY a, id ORDER BY a DESC NULLS FIRST returns %v", r.Keys())
	}
	return false, ""
}

// probeUpdateThroughOwnIndex: in a transaction that already inserted rows, an UPDATE scanning the
// index on the column it sets panics (new entries land before the cursor) or skips a row.
func probeUpdateThroughOwnIndex() (present bool, detail string) {
	db, done, err := probeDB(sqlgen.DBOpts{},
		"CREATE TABLE t (id INTEGER, c INTEGER, PRIMARY KEY id)",
		"CREATE INDEX ON t (c)")
	if err != nil {
		return false, ""
	}
	defer done()
	for i := 1; i <= 17; i++ {
		if db.Exec(fmt.Sprintf("INSERT INTO t (id, c) VALUES (%d, %d)", i, i+100), nil) != nil {
			return false, ""
		}
	}
	for _, v := range []int{1, 1000} {
		tx, err := db.Begin()
		if err != nil {
			return false, ""
		}
		if tx.Exec("INSERT INTO t (id, c) VALUES (1001, 103), (1002, 50), (1003, 2000), (1004, 115)", nil) != nil {
			return false, ""
		}
		stmt := fmt.Sprintf("UPDATE t SET c = %d WHERE c <> %d USE INDEX ON (c)", v, v)
		panicked := func() (p bool) {
			defer func() {
				if r := recover(); r != nil {
					p, present = true, true
					detail = fmt.Sprintf("17 committed rows, in a transaction after INSERT of 4 rows: %s panics: %v", stmt, r)
				}
			}()
			err = tx.Exec(stmt, nil)
			return false
		}()
		if panicked {
			return present, detail
		}
		if err != nil {
			return false, ""
		}
		r, qerr := tx.Query(fmt.Sprintf("SELECT COUNT(*) FROM t USE INDEX ON (id) WHERE c <> %d", v), nil)
		tx.Rollback()
		if qerr == nil && r.Rows[0][0].I != 0 {
			return true, fmt.Sprintf("17 committed rows, in a transaction after INSERT of 4 rows: %s leaves %d row(s) with c <> %d", stmt, r.Rows[0][0].I, v)
		}
	}
	return false, ""
}

// probeLossyIntFloatCompare: INTEGER vs FLOAT is compared after converting the integer to a float
// (MaxInt64 "equals" 2^63), while the hash join matches keys exactly: the same equality conjunct
// holds in the nested-loop plan and fails in the hash-join plan.
func probeLossyIntFloatCompare() (bool, string) {
	db, done, err := probeDB(sqlgen.DBOpts{},
		"CREATE TABLE a (id INTEGER, x INTEGER, PRIMARY KEY id)",
		"CREATE TABLE t (id INTEGER, y INTEGER, c INTEGER NOT NULL, PRIMARY KEY id)",
		"INSERT INTO a (id, x) VALUES (1, 1)",
		"INSERT INTO t (id, y, c) VALUES (1, 1, 9223372036854775807)")
	if err != nil {
		return false, ""
	}
	defer done()
	x, err1 := db.Query("SELECT a.id, t.id FROM a INNER JOIN t ON a.x = t.y AND t.c = 9223372036854775808.0", nil)
	y, err2 := db.Query("SELECT a.id, t.id FROM a INNER JOIN (SELECT * FROM t) AS t ON a.x = t.y AND t.c = 9223372036854775808.0", nil)
	if err1 != nil || err2 != nil {
		return false, ""
	}
	if d := sqlgen.DiffMultiset(x, y); d != "" {
		return true, fmt.Sprintf("t.c = 9223372036854775807: a JOIN t ON a.x = t.y AND t.c = 9223372036854775808.0 returns %v; with t as a derived table (nested loop) %v", x.Keys(), y.Keys())
	}
	return false, ""
}

// probeInTxDup: two rows written by the open transaction with the same value in an indexed
// column share one transient index entry; the index scan inside the transaction sees one of them.
func probeInTxDup() (bool, string) {
	db, done, err := probeDB(sqlgen.DBOpts{},
		"CREATE TABLE t (id INTEGER, i INTEGER, PRIMARY KEY id)",
		"CREATE INDEX ON t (i)")
	if err != nil {
		return false, ""
	}
	defer done()
	tx, err := db.Begin()
	if err != nil {
		return false, ""
	}
	defer tx.Rollback()
	if tx.Exec("INSERT INTO t (id, i) VALUES (1, 5), (2, 5)", nil) != nil {
		return false, ""
	}
	a, err1 := tx.Query("SELECT id, i FROM t USE INDEX ON (id)", nil)
	b, err2 := tx.Query("SELECT id, i FROM t USE INDEX ON (i)", nil)
	if err1 != nil || err2 != nil {
		return false, ""
	}
	if d := sqlgen.DiffMultiset(a, b); d != "" {
		return true, fmt.Sprintf("in the transaction after INSERT INTO t (id, i) VALUES (1, 5), (2, 5): %v through the primary key, %v through the index on i", a.Keys(), b.Keys())
	}
	return false, ""
}

// ---------------------------------------------------------------------------

func drawOpts(rt *rapid.T, label string) sqlgen.DBOpts {
	o := sqlgen.DBOpts{}
	if rapid.Bool().Draw(rt, label+"Tiny") {
		o.SortBufferSize = rapid.SampledFrom([]int{2, 3, 5}).Draw(rt, label+"SortBuf")
		o.DistinctSpillThreshold = rapid.SampledFrom([]int{1, 2, 4}).Draw(rt, label+"Spill")
	}
	o.SmallIndexNodes = rapid.IntRange(0, 2).Draw(rt, label+"SmallNodes") == 0
	return o
}

func otherOpts(o sqlgen.DBOpts) sqlgen.DBOpts {
	if o.SortBufferSize > 0 {
		return sqlgen.DBOpts{SmallIndexNodes: o.SmallIndexNodes}
	}
	return sqlgen.DBOpts{SortBufferSize: 2, DistinctSpillThreshold: 1, SmallIndexNodes: o.SmallIndexNodes}
}

// queryOpts switches on the generator exclusions of the known findings whose probe fired.
func queryOpts() sqlgen.QueryOpts {
	qo := sqlgen.QueryOpts{}
	if vk.Excluded(kfNullsOrd) {
		qo.NoNullsOrder = true
	}
	if vk.Excluded(kfNotIn) {
		qo.NoNotInReduce = true
	}
	if vk.Excluded(kfOrdPos) {
		qo.NoOrderByPosition = true
	}
	if vk.Excluded(kfGroupNulls) {
		qo.NoNullsOrderGrouped = true
	}
	if vk.Excluded(kfJoinOrder) {
		qo.NoJoinedOrderClash = true
	}
	if vk.Excluded(kfTopNDistinct) {
		qo.NoDistinctTopN = true
	}
	if vk.Excluded(kfMaxLen) {
		qo.NoLenMismatch = true
	}
	if vk.Excluded(kfCountSubq) {
		qo.NoCountStarSubquery = true
	}
	if vk.Excluded(kfBigMixed) || vk.Excluded(kfLossyCmp) {
		qo.NoBigMixedCompare = true
	}
	if vk.Excluded(kfHashResidual) {
		qo.NoNonEquiJoin = true
	}
	if vk.Excluded(kfMixedJoin) {
		qo.NoMixedJoin = true
	}
	if vk.Excluded(kfMixedJoin) || vk.Excluded(kfNullRange) {
		qo.NoMixedInJoin = true
	}
	qo.OnExclude = func(what string) {
		switch {
		case strings.HasPrefix(what, "NULLS FIRST/LAST with GROUP BY"):
			vk.CountExcluded(kfGroupNulls)
		case strings.HasPrefix(what, "ORDER BY <position>"):
			vk.CountExcluded(kfOrdPos)
		case strings.HasPrefix(what, "ORDER BY joined"):
			vk.CountExcluded(kfJoinOrder)
		case strings.HasPrefix(what, "DISTINCT"):
			vk.CountExcluded(kfTopNDistinct)
		case strings.HasPrefix(what, "length mismatch"):
			vk.CountExcluded(kfMaxLen)
		case strings.HasPrefix(what, "COUNT(*) with a subquery"):
			vk.CountExcluded(kfCountSubq)
		case strings.HasPrefix(what, "INTEGER/FLOAT comparison beyond"):
			if vk.Excluded(kfBigMixed) {
				vk.CountExcluded(kfBigMixed)
			}
			if vk.Excluded(kfLossyCmp) {
				vk.CountExcluded(kfLossyCmp)
			}
		case strings.HasPrefix(what, "non-equi join"):
			vk.CountExcluded(kfHashResidual)
		case strings.HasPrefix(what, "INTEGER = FLOAT"):
			vk.CountExcluded(kfMixedJoin)
		case strings.HasPrefix(what, "INTEGER/FLOAT constant comparison in a join"):
			if vk.Excluded(kfMixedJoin) {
				vk.CountExcluded(kfMixedJoin)
			}
			if vk.Excluded(kfNullRange) {
				vk.CountExcluded(kfNullRange)
			}
		case strings.HasPrefix(what, "ORDER BY"):
			vk.CountExcluded(kfNullsOrd)
		default:
			vk.CountExcluded(kfNotIn)
		}
	}
	return qo
}

type phaseResult map[int]map[string]outcome // query index -> variant name -> outcome

// TestPlanIndependence is the main property: see Config.Rule.
func TestPlanIndependence(t *testing.T) {
	setupTmp()
	vk.Check(t, 400, 8000, func(rt *rapid.T, c *vk.Case) {
		e := &env{rt: rt, c: c, created: map[string][]sqlgen.Index{}, pending: map[string][]sqlgen.Index{},
			used: map[string]sqlgen.KeySet{}, empties: map[string]bool{}, dirty: map[string]bool{}, touched: map[string]bool{}, collide: map[string]bool{}}
		so := sqlgen.SchemaOpts{}
		if vk.Excluded(kfNegZero) {
			so.NoNegZero = true
			so.OnExclude = func(string) { vk.CountExcluded(kfNegZero) }
		}
		e.schema = sqlgen.GenSchema(rt, so)
		e.qo = queryOpts()
		wopts := drawOpts(rt, "writer")
		e.dir = vk.Dir()
		defer os.RemoveAll(e.dir)
		db, err := sqlgen.Open(e.dir, wopts)
		if err != nil {
			rt.Fatalf("open: %v", err)
		}
		e.db = db
		defer func() { e.db.Close() }()

		// DDL: tables, twins, and the indexes that exist before any data
		for _, t := range e.schema.Tables {
			e.used[t.Name] = sqlgen.KeySet{}
			for _, s := range []string{t.CreateSQL(), t.Twin().CreateSQL()} {
				if err := e.ddl(s); err != nil {
					c.Failf(rt, e.dump(nil), "HARNESS: generated DDL rejected: %v", err)
				}
			}
			c.Descf("%s", t.CreateSQL())
			for _, ix := range t.Indexes {
				c.Descf("%s", ix.CreateSQL(t.Name))
				if ix.Unique || rapid.Bool().Draw(rt, "indexBeforeData") {
					if err := e.ddl(ix.CreateSQL(t.Name)); err != nil {
						c.Failf(rt, e.dump(nil), "HARNESS: generated DDL rejected: %v", err)
					}
					e.created[t.Name] = append(e.created[t.Name], ix)
				} else {
					e.pending[t.Name] = append(e.pending[t.Name], ix)
				}
				if ix.Unique {
					c.Label("unique-index")
				}
				if len(ix.Cols) > 1 {
					c.Label("composite-index")
				}
			}
			if len(t.PK) > 1 {
				c.Label("composite-pk")
			}
		}

		// committed history
		maxTx, maxQ := 5, 40
		if vk.Thorough() {
			maxTx, maxQ = 8, 60
		}
		nTx := rapid.IntRange(1, maxTx).Draw(rt, "nTx")
		for i := 0; i < nTx; i++ {
			e.runTx(i == 0, false, false)
			if i == 0 || rapid.IntRange(0, 2).Draw(rt, "createIndexNow") == 0 {
				e.createPending(false)
			}
			if rapid.IntRange(0, 5).Draw(rt, "reopenMid") == 0 {
				if err := e.db.Reopen(wopts); err != nil {
					c.Failf(rt, e.dump(nil), "reopen failed: %v", err)
				}
				e.tracef("-- store closed and reopened")
				c.Label("reopen-mid-history")
			}
		}
		e.createPending(true)
		lastTx := e.db.St.LastCommittedTxID()

		// the queries
		qo := e.qo
		qo.LastTx = lastTx
		g := sqlgen.NewGen(rt, qo)
		nq := rapid.IntRange(12, maxQ).Draw(rt, "nQueries")
		queries := make([]*sqlgen.Query, nq)
		vars := make([][]variant, nq)
		for i := range queries {
			queries[i] = g.GenQuery(e.schema)
			vars[i] = e.variants(queries[i])
			c.Descf("Q%d %s", i, queries[i].SQL())
		}

		// phase 1: inside an open transaction that has written
		insertOnly := rapid.Bool().Draw(rt, "openTxInsertOnly")
		tx := e.runTx(false, true, insertOnly)
		for try := 0; tx == nil && try < 3; try++ { // a failed statement cancelled it: try another one
			tx = e.runTx(false, true, insertOnly)
		}
		phases := map[string]phaseResult{}
		record := func(phase string, qi int, outs []outcome) {
			if phases[phase] == nil {
				phases[phase] = phaseResult{}
			}
			m := map[string]outcome{}
			for _, o := range outs {
				m[o.v.name] = o
			}
			phases[phase][qi] = m
		}
		spillSkip := func(q *sqlgen.Query, o sqlgen.DBOpts) bool {
			// known finding K5: a spilling sort turns '' into NULL
			if o.SortBufferSize == 0 || len(q.OrderBy) == 0 {
				return false
			}
			if vk.Excluded(kfAvgSpill) {
				// known finding K16: AVG of an all-NULL group panics in the spill encoder
				for _, t := range q.Targets {
					if t.Agg == "AVG" {
						vk.CountExcluded(kfAvgSpill)
						return true
					}
				}
			}
			if vk.Excluded(kfCountDistinctSpill) {
				// known finding K17: COUNT(DISTINCT non-integer column) is decoded with the column's type after a spill
				for _, t := range q.Targets {
					if t.Agg == "COUNT" && t.Distinct && t.C.C.Type != sqlgen.TInt {
						vk.CountExcluded(kfCountDistinctSpill)
						return true
					}
				}
			}
			if !vk.Excluded(kfSpill) {
				return false
			}
			// the spilled rows hold the columns the query reads
			for col := range q.ColumnsUsed() {
				if e.empties[col] {
					vk.CountExcluded(kfSpill)
					return true
				}
			}
			return false
		}
		if tx != nil {
			c.Label("open-tx-phase")
			if insertOnly {
				c.Label("open-tx-insert-only")
			}
			if dbg := os.Getenv("C11_DEBUG_TX_SQL"); dbg != "" { // investigation aid for replays: extra queries inside the open transaction
				for _, qs := range strings.Split(dbg, ";;") {
					r, err := tx.Query(qs, nil)
					if err != nil {
						fmt.Printf("DEBUG-TX %s\n   ERROR %v\n", qs, err)
					} else {
						fmt.Printf("DEBUG-TX %s\n   index=%s rows=%d %q\n", qs, r.Index, len(r.Rows), r.Keys())
					}
				}
			}
			for qi, q := range queries {
				if q.From.Period != "" || q.From.History || spillSkip(q, wopts) {
					continue
				}
				outs := e.evalQuery("inside the open transaction", q, vars[qi], tx.Query, func(v variant) bool {
					// known finding K11: secondary-index entries of rows this transaction changed are stale
					// known finding K12: rows of this transaction that agree on an index key shadow each other
					for _, tn := range sortedKeys(v.mains) {
						if e.dirty[tn] && vk.Excluded(kfInTxIndex) {
							vk.CountExcluded(kfInTxIndex)
							return true
						}
						if e.collide[tn] && vk.Excluded(kfInTxDup) {
							vk.CountExcluded(kfInTxDup)
							return true
						}
					}
					if len(v.mains) > 0 {
						c.Label("open-tx-indexed-tables-compared")
					}
					return false
				})
				record("tx", qi, outs)
			}
			e.commit(tx)
		}

		// table contents for the naive executor and the non-triviality rule
		data := map[string]*sqlgen.TableData{}
		interesting := map[string]bool{}
		for _, t := range e.schema.Tables {
			var cols []string
			for _, col := range t.Cols {
				cols = append(cols, col.Name)
			}
			r, err := e.db.Query("SELECT "+strings.Join(cols, ", ")+" FROM "+sqlgen.TwinName(t.Name), nil)
			if err != nil {
				c.Failf(rt, e.dump(nil), "plain scan of %s failed: %v", sqlgen.TwinName(t.Name), err)
			}
			data[t.Name] = &sqlgen.TableData{T: t, Rows: r.Rows}
			interesting[t.Name] = len(r.Rows) >= 3 && nullOrDupInIndexedColumn(t, e.created[t.Name], r.Rows)
			c.Descf("%s:%d rows", t.Name, len(r.Rows))
			switch {
			case len(r.Rows) == 0:
				c.Label("empty-table")
			case len(r.Rows) >= 10:
				c.Label("table>=10rows")
			}
		}

		// phase 2: after commit, on the writer's engine and on an engine with the other buffer sizes
		eng2, err := e.db.NewEngine(otherOpts(wopts))
		if err != nil {
			rt.Fatalf("second engine: %v", err)
		}
		nontrivial := false
		for qi, q := range queries {
			if !spillSkip(q, wopts) {
				outs := e.evalQuery("after commit", q, vars[qi], e.db.Query, nil)
				record("commit", qi, outs)
				if e.classify(q, outs, interesting) {
					nontrivial = true
				}
				e.naive(q, outs, data)
			}
			if !spillSkip(q, otherOpts(wopts)) {
				outs := e.evalQuery("after commit, second engine", q, vars[qi], func(s string, p sqlgen.Params) (*sqlgen.Result, error) {
					return sqlgen.QueryEngine(eng2, nil, s, p)
				}, nil)
				record("commit2", qi, outs)
			}
		}
		e.tlp(g, data)
		if dbg := os.Getenv("C11_DEBUG_SQL"); dbg != "" { // investigation aid for replays: extra queries, ";;"-separated
			for _, qs := range strings.Split(dbg, ";;") {
				r, err := e.db.Query(qs, nil)
				if err != nil {
					fmt.Printf("DEBUG %s\n   ERROR %v\n", qs, err)
				} else {
					fmt.Printf("DEBUG %s\n   index=%s rows=%d %q\n", qs, r.Index, len(r.Rows), r.Keys())
				}
			}
		}

		// phase 3: after a restart
		ropts := drawOpts(rt, "reopen")
		if err := e.db.Reopen(ropts); err != nil {
			c.Failf(rt, e.dump(nil), "reopen failed: %v", err)
		}
		e.tracef("-- store closed and reopened")
		for qi, q := range queries {
			if spillSkip(q, ropts) {
				continue
			}
			outs := e.evalQuery("after reopen", q, vars[qi], e.db.Query, nil)
			record("reopen", qi, outs)
		}

		// the same variant must answer the same in every phase
		for qi, q := range queries {
			base, ok := phases["commit"][qi]
			baseName := "after commit"
			if !ok {
				base, baseName = phases["commit2"][qi], "after commit, second engine"
			}
			for _, ph := range []struct{ key, name string }{{"tx", "inside the open transaction"}, {"commit2", "after commit, second engine"}, {"reopen", "after reopen"}} {
				for name, o := range phases[ph.key][qi] {
					b, ok := base[name]
					if !ok || ph.name == baseName {
						continue
					}
					if (o.err == nil) != (b.err == nil) {
						c.Failf(rt, e.dump(map[string]any{"a": resultDump(b), "b": resultDump(o)}),
							"the same statement fails %s and succeeds %s: %v vs %v\n  %s", ph.name, baseName, errStr(o.err), errStr(b.err), o.sql)
					}
					if o.err != nil {
						continue
					}
					if d := compare(q, b.res, o.res); d != "" {
						c.Failf(rt, e.dump(map[string]any{"a": resultDump(b), "b": resultDump(o)}),
							"the same statement answers differently %s and %s: %s\n  %s", baseName, ph.name, d, o.sql)
					}
				}
			}
		}
		if wopts.SortBufferSize > 0 || ropts.SortBufferSize > 0 {
			c.Label("tiny-sort-buffer-writer-or-reopen")
		}
		if nontrivial {
			c.NonTrivial()
		}
	})
}

func sortedKeys(m map[string]bool) []string {
	out := make([]string, 0, len(m))
	for k := range m {
		out = append(out, k)
	}
	sort.Strings(out)
	return out
}

func nullOrDupInIndexedColumn(t *sqlgen.Table, created []sqlgen.Index, rows [][]sqlgen.Value) bool {
	for ci, col := range t.Cols {
		indexed := false
		for _, ix := range created {
			for _, n := range ix.Cols {
				if n == col.Name {
					indexed = true
				}
			}
		}
		if !indexed {
			continue
		}
		seen := map[string]bool{}
		for _, r := range rows {
			if r[ci].Null || seen[r[ci].Key()] {
				return true
			}
			seen[r[ci].Key()] = true
		}
	}
	return false
}

// classify labels the case by what the query exercised; it reports whether
// the query instance is non-trivial by the stated rule.
func (e *env) classify(q *sqlgen.Query, outs []outcome, interesting map[string]bool) bool {
	c := e.c
	indexes := map[string]bool{}
	rows := 0
	for _, o := range outs {
		if o.err == nil {
			if o.res.Index != "" && o.v.name != "twin" {
				indexes[o.res.Index] = true
			}
			if len(o.res.Rows) > rows {
				rows = len(o.res.Rows)
			}
			if o.v.name == "plain" && o.res.Index != "" && !o.res.PK {
				c.Label("planner-chose-secondary-index")
			}
		}
	}
	vk.AddLabel("queries", 1)
	vk.AddLabel("query-executions", int64(len(outs)))
	if rows > 0 {
		vk.AddLabel("queries-with-rows", 1)
	}
	switch {
	case q.Union != nil:
		c.Label("q-union")
	case q.From.History:
		c.Label("q-history")
	case q.From.Period != "":
		c.Label("q-period")
	case len(q.Joins) > 0:
		c.Label("q-join-" + strings.ToLower(q.Joins[0].Kind))
	case len(q.GroupBy) > 0:
		c.Label("q-group-by")
	default:
		agg := false
		for _, t := range q.Targets {
			agg = agg || t.Agg != ""
		}
		if agg {
			c.Label("q-global-aggregate")
		} else {
			c.Label("q-simple")
		}
	}
	if q.Shape == "eq-prefix" {
		// WHERE fixes the leading column(s) of a composite index, ORDER BY / GROUP BY name other columns
		c.Label("q-eq-prefix-of-composite-index")
		vk.AddLabel("eq-prefix-queries", 1)
		for _, o := range outs {
			if o.v.name == "plain" && o.err == nil && o.res.Index != "" && !o.res.PK && len(o.res.Rows) >= 2 {
				c.Label("q-eq-prefix-served-by-composite-index-with->=2-rows")
				vk.AddLabel("eq-prefix-queries-served-by-the-composite-index-with->=2-rows", 1)
			}
		}
	}
	if q.Distinct {
		c.Label("q-distinct")
	}
	if q.Having != nil {
		c.Label("q-having")
	}
	if len(q.OrderBy) > 0 {
		c.Label("q-order-by")
		if q.TotalOrder() {
			c.Label("q-order-by-total")
		}
	}
	if q.Limit >= 0 || q.Offset >= 0 {
		c.Label("q-limit-offset")
	}
	if sqlgen.Has(q.Where, func(n sqlgen.Expr) bool { _, ok := n.(*sqlgen.SubQ); return ok }) {
		c.Label("q-subquery")
	}
	if len(q.Params()) > 0 {
		c.Label("q-params")
	}
	if len(indexes) >= 2 {
		vk.AddLabel("queries-answered-through->=2-indexes", 1)
		for _, r := range q.Refs() {
			if interesting[r.T.Name] {
				return true
			}
		}
	}
	return false
}

// naive compares the twin's answer with the nested-loop reference.
func (e *env) naive(q *sqlgen.Query, outs []outcome, data map[string]*sqlgen.TableData) {
	if q.Limit >= 0 || q.Offset >= 0 || len(outs) == 0 {
		return
	}
	want, err := sqlgen.Naive(q, data)
	if errors.Is(err, sqlgen.ErrNaiveUnsupported) || errors.Is(err, sqlgen.ErrNoEval) {
		return
	}
	if err != nil {
		e.c.Failf(e.rt, e.dump(map[string]any{"query": q.SQL()}), "HARNESS: naive executor failed: %v", err)
	}
	vk.AddLabel("queries-checked-by-naive-executor", 1)
	e.c.Label("naive-executor")
	if len(want.Optional) > 0 {
		vk.AddLabel("naive-queries-with-null-dependent-rows", 1)
	}
	for _, o := range outs {
		if o.err != nil {
			continue
		}
		if d := want.Check(o.res, q.Distinct); d != "" {
			e.c.Failf(e.rt, e.dump(map[string]any{"query": resultDump(o), "expected_definite": keysOf(want.Definite), "expected_optional": keysOf(want.Optional)}),
				"result differs from the nested-loop evaluation over plain scans ([%s] index %s): %s\n  %s", o.v.name, o.res.Index, d, o.sql)
		}
	}
}

func keysOf(rows [][]sqlgen.Value) []string {
	out := make([]string, 0, len(rows))
	for i, r := range rows {
		if i == 40 {
			out = append(out, "…")
			break
		}
		out = append(out, sqlgen.RowKey(r))
	}
	return out
}

// tlp: a query split by a predicate P into P, NOT P and (P) IS NULL returns
// the rows of the unsplit query; every part may go through another index.
func (e *env) tlp(g *sqlgen.Gen, data map[string]*sqlgen.TableData) {
	rt, c := e.rt, e.c
	n := rapid.IntRange(2, 6).Draw(rt, "nTLP")
	for i := 0; i < n; i++ {
		t := e.schema.Tables[rapid.IntRange(0, len(e.schema.Tables)-1).Draw(rt, "tlpTable")]
		r := sqlgen.From{T: t, Alias: "t"}
		var base sqlgen.Expr
		if rapid.Bool().Draw(rt, "tlpBase") {
			base = g.GenPred([]sqlgen.From{r}, 1)
		}
		p := g.GenPred([]sqlgen.From{r}, rapid.IntRange(0, 2).Draw(rt, "tlpDepth"))
		if col, bare := p.(*sqlgen.Col); bare {
			p = &sqlgen.Cmp{Op: "=", L: col, R: &sqlgen.Lit{V: sqlgen.Bool(true)}}
		}
		count := rapid.IntRange(0, 2).Draw(rt, "tlpCount") == 0
		mk := func(w sqlgen.Expr) *sqlgen.Query {
			q := &sqlgen.Query{From: r, Limit: -1, Offset: -1, Where: w}
			if base != nil {
				if w == nil {
					q.Where = base
				} else {
					q.Where = &sqlgen.Bin{Op: "AND", L: base, R: w}
				}
			}
			if count {
				q.Targets = []sqlgen.Target{{Agg: "COUNT"}}
				return q
			}
			for _, col := range t.Cols {
				q.Targets = append(q.Targets, sqlgen.Target{C: &sqlgen.Col{Alias: "t", C: col}})
			}
			return q
		}
		access := func(label string) *sqlgen.RenderCtx {
			opts := [][]string{nil, t.PK}
			for _, ix := range e.created[t.Name] {
				opts = append(opts, ix.Cols)
			}
			return &sqlgen.RenderCtx{Access: map[string]sqlgen.Access{"t": {Index: opts[rapid.IntRange(0, len(opts)-1).Draw(rt, label)]}}}
		}
		whole := mk(nil)
		parts := []*sqlgen.Query{mk(p), mk(&sqlgen.Not{E: p}), mk(&sqlgen.IsNull{E: p})}
		run := func(q *sqlgen.Query, rc *sqlgen.RenderCtx) (*sqlgen.Result, string, error) {
			text := q.Render(rc)
			res, err := e.db.Query(text, q.Params())
			return res, text, err
		}
		wres, wsql, err := run(whole, access("tlpAccessWhole"))
		if err != nil {
			c.Label("tlp-error")
			continue
		}
		union := &sqlgen.Result{}
		total := int64(0)
		var sqls []string
		failed := false
		for pi, pq := range parts {
			res, text, err := run(pq, access(fmt.Sprintf("tlpAccess%d", pi)))
			sqls = append(sqls, text)
			if err != nil {
				c.Failf(rt, e.dump(map[string]any{"whole": wsql, "part": text}), "TLP: the unsplit query succeeds but a partition fails: %v\n  %s", err, text)
				failed = true
				break
			}
			if count {
				total += res.Rows[0][0].I
			} else {
				union.Rows = append(union.Rows, res.Rows...)
			}
		}
		if failed {
			continue
		}
		c.Label("tlp")
		vk.AddLabel("tlp-checks", 1)
		if count {
			if wres.Rows[0][0].I != total {
				c.Failf(rt, e.dump(map[string]any{"whole": wsql, "parts": sqls}), "TLP: COUNT(*) = %d but the partitions P / NOT P / P IS NULL count %d in total\n  %s\n  %s", wres.Rows[0][0].I, total, wsql, strings.Join(sqls, "\n  "))
			}
			continue
		}
		if d := sqlgen.DiffMultiset(wres, union); d != "" {
			c.Failf(rt, e.dump(map[string]any{"whole": wsql, "parts": sqls}), "TLP: the partitions P / NOT P / P IS NULL do not add up to the unsplit result: %s\n  %s\n  %s", d, wsql, strings.Join(sqls, "\n  "))
		}
	}
	_ = data
}
