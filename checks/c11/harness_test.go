package c11

import (
	"fmt"
	"os"
	"sort"
	"strings"
	"sync"

	"pgregory.net/rapid"

	"verif/internal/sqlgen"
	"verif/internal/vk"
)

// Known-finding identifiers (see known_findings.json and the probes in c11_test.go).
const (
	kfSpill     = "K5-filesort-spill-empty-string-becomes-null"
	kfNegZero   = "K6-float-negative-zero-index-key"
	kfNullsOrd  = "K8-nulls-first-last-ignored-by-index-order"
	kfNotIn     = "K9-not-in-loses-negation-when-reduced"
	kfInTxIndex = "K11-in-tx-secondary-index-stale-after-update-delete"
	kfInTxDup   = "K12-in-tx-equal-index-keys-shadow-each-other"
	kfOrdPos    = "K13-order-by-position-uses-table-column"
	kfHistOrder = "K14-history-query-order-by-picks-secondary-index"
	kfJoinOrder = "K15-join-order-by-column-name-clash"
	kfAvgSpill  = "K16-avg-of-all-null-group-panics-in-spill"

	kfCountDistinctSpill = "K17-count-distinct-decoded-with-column-type-after-spill"
	kfTopNDistinct       = "K18-top-n-sort-below-distinct"
	kfMaxLen             = "K19-longer-value-than-indexed-column-fails-only-through-index"
	kfCountSubq          = "K20-index-only-count-with-correlated-subquery"
	kfBigMixed           = "K21-integer-float-comparison-beyond-2-53"
	kfHashResidual       = "K22-hash-join-residual-bound-to-first-outer-row"
	kfMixedJoin          = "K10-hash-join-integer-float-never-match"
	kfNullRange          = "K23-typed-null-join-key-and-float-constant-range"
	kfGroupNulls         = "K24-group-by-order-by-loses-nulls-first-last"
	kfOwnIndex           = "K25-update-through-index-it-modifies-after-writes-in-tx"
	kfLossyCmp           = "K26-integer-float-compare-lossy-vs-exact-hash-join-key"
)

var tmpOnce sync.Once

// setupTmp points os.TempDir (where the engine creates its sort spill files)
// at the scratch space on /dev/shm.
func setupTmp() {
	tmpOnce.Do(func() {
		os.Setenv("TMPDIR", vk.Dir())
	})
}

// runner executes one SELECT.
type runner func(sqlText string, p sqlgen.Params) (*sqlgen.Result, error)

// variant is one way of reaching the tables of a query.
type variant struct {
	name string
	rc   *sqlgen.RenderCtx
	// mains are the names of the tables reached through the indexed table (not the twin)
	mains map[string]bool
}

type outcome struct {
	v   variant
	sql string
	res *sqlgen.Result
	err error
}

// env is the state of one generated database.
type env struct {
	rt      *rapid.T
	c       *vk.Case
	schema  *sqlgen.Schema
	db      *sqlgen.DB
	dir     string
	trace   []string                  // every statement executed, with its outcome
	created map[string][]sqlgen.Index // table -> secondary indexes that exist
	pending map[string][]sqlgen.Index // table -> indexes still to be created
	used    map[string]sqlgen.KeySet
	empties map[string]bool // "table.column" may hold '' / x''
	dirty   map[string]bool // tables with secondary indexes whose rows the open transaction changed or removed
	touched map[string]bool // tables with secondary indexes the open transaction wrote to
	collide map[string]bool // tables where two rows written by the open transaction agree on all columns of a secondary index
	txKeys  map[string]bool // table/index/key of the rows inserted by the open transaction
	commits int
	qo      sqlgen.QueryOpts // generator exclusions in force (known findings)
}

func (e *env) tracef(format string, args ...any) {
	e.trace = append(e.trace, fmt.Sprintf(format, args...))
}

func (e *env) dump(extra map[string]any) map[string]any {
	d := map[string]any{"statements": e.trace}
	for k, v := range extra {
		d[k] = v
	}
	return d
}

func (e *env) table(name string) *sqlgen.Table {
	for _, t := range e.schema.Tables {
		if t.Name == name {
			return t
		}
	}
	return nil
}

// ddl executes a DDL statement in autocommit mode.
func (e *env) ddl(sqlText string) error {
	err := e.db.Exec(sqlText, nil)
	e.tracef("%s  -- %v", sqlText, errStr(err))
	return err
}

func errStr(err error) string {
	if err == nil {
		return "ok"
	}
	return "ERROR " + err.Error()
}

// noteEmpties records that table may now hold an empty VARCHAR/BLOB.
func (e *env) noteEmpties(s *sqlgen.Stmt) {
	isEmpty := func(v sqlgen.Value) bool {
		return !v.Null && ((v.T == sqlgen.TVarchar && v.S == "") || (v.T == sqlgen.TBlob && len(v.Bs) == 0))
	}
	for _, row := range s.Rows {
		for i, v := range row {
			if isEmpty(v) {
				e.empties[s.T.Name+"."+s.Cols[i].Name] = true
			}
		}
	}
	for _, a := range s.Set {
		if a.Incr == 0 && isEmpty(a.V) {
			e.empties[s.T.Name+"."+a.C.Name] = true
		}
	}
}

// runTx generates and executes one transaction: every statement goes to the
// table and then to its twin. It returns the open transaction when keepOpen is
// set and no statement failed.
func (e *env) runTx(first, keepOpen, insertOnly bool) *sqlgen.Tx {
	tx, err := e.db.Begin()
	if err != nil {
		e.c.Failf(e.rt, e.dump(nil), "BEGIN TRANSACTION: %v", err)
	}
	e.tracef("BEGIN TRANSACTION")
	e.resetTxState()
	n := rapid.IntRange(1, 5).Draw(e.rt, "nStmts")
	var tables []*sqlgen.Table
	if first {
		tables = e.schema.Tables // the first transaction populates every table
		n = len(tables)
	}
	inserted := map[string][]string{}
	for i := 0; i < n; i++ {
		var t *sqlgen.Table
		if first {
			t = tables[i]
		} else {
			t = e.schema.Tables[rapid.IntRange(0, len(e.schema.Tables)-1).Draw(e.rt, "stmtTable")]
		}
		o := sqlgen.StmtOpts{InsertOnly: first || insertOnly, Pred: e.qo}
		if first {
			o.MaxRows = 14
			if vk.Thorough() {
				o.MaxRows = 48
			}
		}
		// known findings K11/K12: a later UPDATE/DELETE on a table this transaction already wrote to
		// could scan a secondary index with stale or shadowed transient entries (USE INDEX ON the
		// primary key does not prevent it), so only primary-key statements follow
		switch {
		case e.dirty[t.Name] && vk.Excluded(kfInTxIndex):
			o.NoScan = true
			vk.CountExcluded(kfInTxIndex)
		case e.touched[t.Name] && vk.Excluded(kfInTxDup):
			o.NoScan = true
			vk.CountExcluded(kfInTxDup)
		}
		if e.touched[t.Name] && vk.Excluded(kfOwnIndex) {
			// known finding K25: an UPDATE that scans an index holding a column it sets, in a
			// transaction that already wrote to the table, panics or skips rows
			o.NoOwnIndexScan = true
			o.OnOwnIndex = func() { vk.CountExcluded(kfOwnIndex) }
		}
		before := map[string]bool{}
		for k := range e.used[t.Name] {
			before[k] = true
		}
		s := sqlgen.GenStmt(e.rt, t, e.used[t.Name], o)
		if len(s.UseIndex) > 0 && !e.hasIndex(t.Name, s.UseIndex) {
			s.UseIndex = nil // that index does not exist yet
		}
		for k := range e.used[t.Name] {
			if !before[k] {
				inserted[t.Name] = append(inserted[t.Name], k)
			}
		}
		e.noteEmpties(s)
		for _, twin := range []bool{false, true} {
			text := s.SQL(twin)
			var err error
			func() {
				defer func() {
					if r := recover(); r != nil {
						e.tracef("  %s  -- PANIC %v", text, r)
						e.c.Failf(e.rt, e.dump(nil), "the engine panicked while executing a statement: %v\n  %s", r, text)
					}
				}()
				err = tx.Exec(text, s.Params())
			}()
			e.tracef("  %s  -- %s", text, errStr(err))
			if err != nil && strings.Contains(err.Error(), "syntax error") {
				e.c.Failf(e.rt, e.dump(nil), "HARNESS: generated DML does not parse: %v\n  %s", err, text)
			}
			if err != nil {
				// the engine cancels the whole transaction: table and twin stay in step
				e.c.Label("tx-cancelled-by-failed-statement")
				for tn, ks := range inserted {
					for _, k := range ks {
						delete(e.used[tn], k)
					}
				}
				e.resetTxState()
				e.tracef("(transaction cancelled)")
				return nil
			}
		}
		e.c.Label("stmt-" + s.Kind.String())
		if len(e.created[t.Name]) > 0 {
			e.touched[t.Name] = true
			if s.Modifies() {
				e.dirty[t.Name] = true
			}
			e.noteIndexKeys(s)
		}
	}
	if keepOpen {
		return tx
	}
	e.commit(tx)
	return nil
}

func (e *env) commit(tx *sqlgen.Tx) {
	if err := tx.Commit(); err != nil {
		e.c.Failf(e.rt, e.dump(nil), "COMMIT failed: %v", err)
	}
	e.tracef("COMMIT")
	e.commits++
	e.resetTxState()
}

func (e *env) resetTxState() {
	e.dirty, e.touched, e.collide, e.txKeys = map[string]bool{}, map[string]bool{}, map[string]bool{}, map[string]bool{}
}

// noteIndexKeys records, for every secondary index, the keys of the rows an
// INSERT of the open transaction wrote; two equal keys make the table "collide".
func (e *env) noteIndexKeys(s *sqlgen.Stmt) {
	for _, row := range s.Rows {
		for _, ix := range e.created[s.T.Name] {
			var parts []string
			for _, name := range ix.Cols {
				v := sqlgen.Null(s.T.Col(name).Type)
				for i, c := range s.Cols {
					if c.Name == name {
						v = row[i]
					}
				}
				parts = append(parts, v.Key())
			}
			k := s.T.Name + "/" + ix.Name() + "/" + strings.Join(parts, "|")
			if e.txKeys[k] {
				e.collide[s.T.Name] = true
			}
			e.txKeys[k] = true
		}
	}
}

func (e *env) hasIndex(table string, cols []string) bool {
	for _, ix := range e.created[table] {
		if strings.Join(ix.Cols, ",") == strings.Join(cols, ",") {
			return true
		}
	}
	return false
}

// createPending creates one of the deferred (non-unique) indexes on a populated table.
func (e *env) createPending(all bool) {
	for _, t := range e.schema.Tables {
		for len(e.pending[t.Name]) > 0 {
			if !all && rapid.Bool().Draw(e.rt, "deferMore") {
				break
			}
			ix := e.pending[t.Name][0]
			e.pending[t.Name] = e.pending[t.Name][1:]
			if err := e.ddl(ix.CreateSQL(t.Name)); err != nil {
				e.c.Failf(e.rt, e.dump(nil), "CREATE INDEX on a populated table failed: %v", err)
			}
			e.created[t.Name] = append(e.created[t.Name], ix)
			e.c.Label("index-created-after-data")
		}
	}
}

// variants lists the access paths the query is evaluated through.
func (e *env) variants(q *sqlgen.Query) []variant {
	refs := q.AllRefs()
	mainsAll := map[string]bool{}
	twinAll := map[string]sqlgen.Access{}
	for _, r := range refs {
		mainsAll[r.T.Name] = true
		twinAll[r.Alias] = sqlgen.Access{Twin: true}
	}
	out := []variant{
		{name: "twin", rc: &sqlgen.RenderCtx{Access: twinAll}, mains: map[string]bool{}},
		{name: "plain", rc: nil, mains: mainsAll},
	}
	if q.From.History && len(q.OrderBy) > 0 && len(e.created[q.From.T.Name]) > 0 && vk.Excluded(kfHistOrder) {
		// known finding K14: the planner would pick a secondary index for the ORDER BY and then reject the query
		out[1].rc = &sqlgen.RenderCtx{Access: map[string]sqlgen.Access{q.From.Alias: {Index: q.From.T.PK}}}
		vk.CountExcluded(kfHistOrder)
	}
	add := func(name string, acc map[string]sqlgen.Access) {
		out = append(out, variant{name: name, rc: &sqlgen.RenderCtx{Access: acc}, mains: mainsAll})
	}
	type cand struct {
		name string
		acc  map[string]sqlgen.Access
	}
	var cands []cand
	top := q.Refs()
	for i, r := range top {
		if r.History {
			continue // historical queries are served by the primary index only (documented)
		}
		tag := "from"
		if i > 0 {
			tag = "join"
		}
		cands = append(cands, cand{tag + "-pk", map[string]sqlgen.Access{r.Alias: {Index: r.T.PK}}})
		for _, ix := range e.created[r.T.Name] {
			cands = append(cands, cand{tag + "-ix(" + ix.Name() + ")", map[string]sqlgen.Access{r.Alias: {Index: ix.Cols}}})
		}
		if i > 0 {
			cands = append(cands, cand{"join-derived", map[string]sqlgen.Access{r.Alias: {Subquery: true}}})
			cands = append(cands, cand{"join-twin", map[string]sqlgen.Access{r.Alias: {Twin: true}}})
		}
	}
	if q.Union != nil {
		for _, r := range q.Union.Refs() {
			for _, ix := range e.created[r.T.Name] {
				cands = append(cands, cand{"union-ix(" + ix.Name() + ")", map[string]sqlgen.Access{r.Alias: {Index: ix.Cols}}})
			}
		}
	}
	// all candidates when there are few, otherwise a drawn subset of 6
	if len(cands) > 6 {
		cands = rapid.Permutation(cands).Draw(e.rt, "variantPick")[:6]
		sort.Slice(cands, func(i, j int) bool { return cands[i].name < cands[j].name })
	}
	for _, cd := range cands {
		add(cd.name, cd.acc)
	}
	// both tables of a join forced at once
	if len(top) == 2 && !top[0].History && len(e.created[top[0].T.Name]) > 0 && len(e.created[top[1].T.Name]) > 0 {
		a := e.created[top[0].T.Name][0]
		b := e.created[top[1].T.Name][len(e.created[top[1].T.Name])-1]
		add("both-ix", map[string]sqlgen.Access{top[0].Alias: {Index: a.Cols}, top[1].Alias: {Index: b.Cols}})
	}
	return out
}

// compare returns "" when two outcomes of the same query agree under the
// strongest relation the query's ORDER BY / LIMIT permits.
func compare(q *sqlgen.Query, a, b *sqlgen.Result) string {
	limited := q.Limit >= 0 || q.Offset >= 0
	keys := q.OrdKeys()
	if len(keys) > 0 {
		if d := a.Unsorted(keys); d != "" {
			return "first output not sorted by ORDER BY: " + d
		}
		if d := b.Unsorted(keys); d != "" {
			return "second output not sorted by ORDER BY: " + d
		}
	}
	switch {
	case q.TotalOrder():
		if d := sqlgen.DiffSeq(a, b); d != "" {
			return "sequences differ under a total ORDER BY: " + d
		}
	case !limited:
		if d := sqlgen.DiffMultiset(a, b); d != "" {
			return "row multisets differ: " + d
		}
	case len(keys) > 0:
		if len(a.Rows) != len(b.Rows) {
			return fmt.Sprintf("row counts differ under LIMIT/OFFSET: %d vs %d", len(a.Rows), len(b.Rows))
		}
		pos := make([]int, len(keys))
		for i, k := range keys {
			pos[i] = k.Pos
		}
		if d := sqlgen.DiffMultiset(a.Project(pos), b.Project(pos)); d != "" {
			return "ORDER BY keys of the LIMITed outputs differ: " + d
		}
	default:
		if len(a.Rows) != len(b.Rows) {
			return fmt.Sprintf("row counts differ under LIMIT/OFFSET: %d vs %d", len(a.Rows), len(b.Rows))
		}
	}
	return ""
}

func resultDump(o outcome) map[string]any {
	m := map[string]any{"variant": o.v.name, "sql": o.sql}
	if o.err != nil {
		m["error"] = o.err.Error()
		return m
	}
	m["index_used"] = o.res.Index
	keys := o.res.Keys()
	if len(keys) > 40 {
		keys = append(keys[:40], fmt.Sprintf("… %d more", len(keys)-40))
	}
	m["rows"] = keys
	return m
}

// evalQuery runs the query through its variants and checks that they agree.
// skip decides per variant whether it must be left out in this phase.
func (e *env) evalQuery(phase string, q *sqlgen.Query, vs []variant, run runner, skip func(variant) bool) []outcome {
	params := q.Params()
	var outs []outcome
	for _, v := range vs {
		if skip != nil && skip(v) {
			continue
		}
		text := q.Render(v.rc)
		var res *sqlgen.Result
		var err error
		func() {
			defer func() {
				if r := recover(); r != nil {
					if _, own := r.(error); !own || strings.Contains(fmt.Sprint(r), "runtime error") {
						e.c.Failf(e.rt, e.dump(map[string]any{"phase": phase, "sql": text}), "%s: the engine panicked: %v\n  [%s] %s", phase, r, v.name, text)
					}
					panic(r)
				}
			}()
			res, err = run(text, params)
		}()
		outs = append(outs, outcome{v: v, sql: text, res: res, err: err})
	}
	if len(outs) == 0 {
		return outs
	}
	ref := outs[0]
	nerr := 0
	for _, o := range outs {
		if o.err != nil {
			nerr++
			if strings.Contains(o.err.Error(), "syntax error") || strings.Contains(o.err.Error(), "parsing") {
				e.c.Failf(e.rt, e.dump(map[string]any{"phase": phase, "query": resultDump(o)}), "HARNESS: generated SQL does not parse: %v", o.err)
			}
		}
	}
	if nerr == len(outs) {
		e.c.Label("query-all-variants-error")
		vk.AddLabel("errors/"+shortErr(ref.err), 1)
		return outs
	}
	for _, o := range outs[1:] {
		switch {
		case (o.err == nil) != (ref.err == nil):
			e.c.Failf(e.rt, e.dump(map[string]any{"phase": phase, "a": resultDump(ref), "b": resultDump(o)}),
				"%s: the same query fails through one access path and returns rows through another: [%s] %v  vs  [%s] %v\n  %s\n  %s",
				phase, ref.v.name, errStr(ref.err), o.v.name, errStr(o.err), ref.sql, o.sql)
		case o.err != nil:
		default:
			if d := compare(q, ref.res, o.res); d != "" {
				e.c.Failf(e.rt, e.dump(map[string]any{"phase": phase, "a": resultDump(ref), "b": resultDump(o)}),
					"%s: results depend on the access path ([%s] index %s vs [%s] index %s): %s\n  %s\n  %s",
					phase, ref.v.name, ref.res.Index, o.v.name, o.res.Index, d, ref.sql, o.sql)
			}
		}
	}
	return outs
}

func shortErr(err error) string {
	s := err.Error()
	if i := strings.Index(s, ":"); i > 0 {
		s = s[:i]
	}
	if len(s) > 50 {
		s = s[:50]
	}
	return s
}
