package c03

import (
	"context"
	"fmt"
	"os"
	"strings"
	"testing"
	"time"

	"github.com/codenotary/immudb/embedded/store"
	"pgregory.net/rapid"

	"verif/internal/fsim"
	"verif/internal/stx"
	"verif/internal/vk"
)

// discardWorkload drives a store in external-commit-allowance mode the way a replica that diverged does:
// some txs committed, some only precommitted, the precommitted tail discarded and different txs
// precommitted under the same ids, then allowed and committed.
type pendingTx struct {
	cancel context.CancelFunc
	done   chan error
	es     []stx.Entry
}

func precommit(st *store.ImmuStore, es []stx.Entry, wantID uint64) (*pendingTx, error) {
	ctx, cancel := context.WithCancel(context.Background())
	p := &pendingTx{cancel: cancel, done: make(chan error, 1), es: es}
	tx, err := st.NewWriteOnlyTx(ctx)
	if err != nil {
		cancel()
		return nil, err
	}
	for _, e := range es {
		if err := tx.Set(e.Key, e.MD(), e.Value); err != nil {
			cancel()
			return nil, err
		}
	}
	go func() {
		_, err := tx.AsyncCommit(ctx)
		p.done <- err
	}()
	deadline := time.Now().Add(30 * time.Second)
	for st.LastPrecommittedTxID() < wantID {
		select {
		case err := <-p.done:
			cancel()
			return nil, fmt.Errorf("commit returned before being precommitted: %v", err)
		default:
		}
		if time.Now().After(deadline) {
			cancel()
			return nil, fmt.Errorf("tx %d not precommitted within 30s", wantID)
		}
		time.Sleep(200 * time.Microsecond)
	}
	return p, nil
}

func (w *workload) runDiscard(rt *rapid.T, c *vk.Case, a, b, d, cNew, allowExtra int) {
	st, err := store.Open(w.dir, w.opts(w.fs))
	if err != nil {
		c.Failf(rt, nil, "store.Open: %v", err)
	}
	fail := func(format string, args ...any) {
		st.Close()
		c.Failf(rt, nil, format, args...)
	}
	record := func(id uint64, es []stx.Entry, acked bool) {
		hdr, err := st.ReadTxHeader(id, true, false)
		if err != nil {
			fail("ReadTxHeader(%d, allowPrecommitted): %v", id, err)
		}
		l := &ledgerTx{hdr: hdr, entries: es}
		if acked {
			w.ledger[id] = l
			w.fs.Mark("ack", id)
			if id > w.n {
				w.n = id
			}
		} else {
			w.alts[id] = append(w.alts[id], l)
		}
	}
	next := uint64(1)
	// phase 1: a committed txs
	for i := 0; i < a; i++ {
		es := genEntries(rt, w.cfg, 0)
		p, err := precommit(st, es, next)
		if err != nil {
			fail("phase 1: %v", err)
		}
		if err := st.AllowCommitUpto(next); err != nil {
			fail("AllowCommitUpto(%d): %v", next, err)
		}
		if err := <-p.done; err != nil {
			fail("phase 1 commit %d: %v", next, err)
		}
		record(next, es, true)
		next++
	}
	// phase 2: b precommitted only
	var tail []*pendingTx
	for i := 0; i < b; i++ {
		es := genEntries(rt, w.cfg, 1)
		p, err := precommit(st, es, next)
		if err != nil {
			fail("phase 2: %v", err)
		}
		tail = append(tail, p)
		record(next, es, false)
		next++
	}
	// phase 3: discard since committed+d (1 <= d <= b)
	since := uint64(a + d)
	for _, p := range tail[d-1:] {
		p.cancel()
		<-p.done
	}
	if _, err := st.DiscardPrecommittedTxsSince(since); err != nil {
		fail("DiscardPrecommittedTxsSince(%d): %v", since, err)
	}
	kept := tail[:d-1]
	next = since
	// phase 4: cNew different txs under the same ids
	var fresh []*pendingTx
	var freshIDs []uint64
	for i := 0; i < cNew; i++ {
		es := genEntries(rt, w.cfg, 2)
		p, err := precommit(st, es, next)
		if err != nil {
			fail("phase 4: %v", err)
		}
		fresh = append(fresh, p)
		freshIDs = append(freshIDs, next)
		record(next, es, false)
		next++
	}
	// phase 5: allow everything (or part of it) and wait for the acknowledgements
	upto := next - 1 - uint64(allowExtra)
	if upto < uint64(a) {
		upto = uint64(a)
	}
	if err := st.AllowCommitUpto(upto); err != nil {
		fail("AllowCommitUpto(%d): %v", upto, err)
	}
	id := uint64(a + 1)
	for _, p := range kept {
		if id <= upto {
			if err := <-p.done; err != nil {
				fail("kept tx %d: %v", id, err)
			}
			w.promote(id, p.es)
		} else {
			p.cancel()
			<-p.done
		}
		id++
	}
	for i, p := range fresh {
		if freshIDs[i] <= upto {
			if err := <-p.done; err != nil {
				fail("fresh tx %d: %v", freshIDs[i], err)
			}
			w.promote(freshIDs[i], p.es)
		} else {
			p.cancel()
			<-p.done
		}
	}
	if err := st.Close(); err != nil {
		c.Failf(rt, nil, "Close: %v", err)
	}
}

// promote moves the latest alternative recorded under id to the acknowledged ledger.
func (w *workload) promote(id uint64, es []stx.Entry) {
	alts := w.alts[id]
	l := alts[len(alts)-1]
	w.alts[id] = alts[:len(alts)-1]
	w.ledger[id] = l
	w.fs.Mark("ack", id)
	if id > w.n {
		w.n = id
	}
}

func TestCrashAfterDiscard(t *testing.T) {
	imagesPer := 12
	if vk.Thorough() {
		imagesPer = 60
	}
	vk.Check(t, 40, 1500, func(rt *rapid.T, c *vk.Case) {
		w := newWorkload(rt)
		w.cfg.ExternalAllow = true
		w.cfg.MaxActiveTx = 1000
		defer os.RemoveAll(w.dir)
		a := rapid.IntRange(0, 5).Draw(rt, "committed")
		b := rapid.IntRange(1, 4).Draw(rt, "precommitted")
		d := rapid.IntRange(1, b).Draw(rt, "discardFrom")
		cNew := rapid.IntRange(0, 4).Draw(rt, "recommitted")
		allowExtra := rapid.SampledFrom([]int{0, 0, 0, 1, 2}).Draw(rt, "leaveUnallowed")
		c.Descf("cfg=%s a=%d b=%d d=%d c=%d leave=%d", w.cfg, a, b, d, cNew, allowExtra)
		w.runDiscard(rt, c, a, b, d, cNew, allowExtra)
		evs := w.fs.Events()
		// alternatives still listed for ids the run never acknowledged count as "written under that id"
		maxID := w.n
		for id := range w.alts {
			if id > maxID {
				maxID = id
			}
		}
		w.n = maxID
		for img := 0; img < imagesPer; img++ {
			k := len(evs)
			if img > 0 {
				k = rapid.IntRange(0, len(evs)).Draw(rt, "k")
			}
			cl := survClass(rapid.SampledFrom([]int{int(svFlushed), int(svFlushed), int(svNone), int(svPrefix), int(svTorn)}).Draw(rt, "class"))
			if img == 0 {
				cl = svFlushed // process kill after the whole scenario
			}
			keep := map[string]fsim.Survive{}
			pendingLogs := 0
			for _, p := range w.fs.PendingAt(k) {
				if p.Flushed > 0 {
					pendingLogs++
				}
				sv := fsim.Survive{Torn: -1}
				switch cl {
				case svFlushed:
					sv.Keep = p.Flushed
				case svPrefix:
					sv.Keep = rapid.IntRange(0, p.Flushed).Draw(rt, "keep")
				case svTorn:
					sv.Keep = rapid.IntRange(0, p.Flushed).Draw(rt, "keep")
					sv.Torn = rapid.IntRange(1, 64).Draw(rt, "torn")
					if w.cfg.Prealloc && p.Log == "commit" && vk.Excluded("K18-prealloc-torn-commit-log-entry") {
						// known finding K18 (same exclusion as in TestCrashRecovery)
						sv.Torn = -1
						vk.CountExcluded("K18-prealloc-torn-commit-log-entry")
					}
				}
				keep[p.Log] = sv
			}
			acked := ackedBefore(evs, k)
			dst := vk.Dir()
			if err := w.fs.Materialise(dst, k, func(p fsim.Pending) fsim.Survive { return keep[p.Log] }); err != nil {
				os.RemoveAll(dst)
				rt.Fatalf("harness: materialise at %d: %v", k, err)
			}
			what := fmt.Sprintf("discard scenario a=%d b=%d d=%d c=%d leave=%d, crash before event %d/%d, acked=%d, survive=%s", a, b, d, cNew, allowExtra, k, len(evs), acked, cl)
			dumpFile := os.Getenv("VERIF_C03_DUMP") // debugging aid: event log and survival choice of a failing image
			if dumpFile != "" {
				dumpSeq++
				dumpFile = fmt.Sprintf("%s-%d-%d", dumpFile, os.Getpid(), dumpSeq)
				dumpImage(dumpFile, evs, k, what, keep)
			}
			verifyRecovered(rt, c, w, dst, acked, what)
			if dumpFile != "" {
				os.Remove(dumpFile) // kept only when verifyRecovered failed (it does not return then)
			}
			os.RemoveAll(dst)
			e := vk.NewEnum("TestCrashAfterDiscard/images")
			e.Descf("a=%d b=%d d=%d c=%d|k=%d/%d|%s", a, b, d, cNew, k, len(evs), cl)
			if cNew > 0 {
				e.NonTrivial()
			}
			e.Done()
		}
		if cNew > 0 {
			c.Label("recommit-under-same-ids")
			c.NonTrivial()
		}
	})
}

var dumpSeq int

// dumpImage appends a compact rendering of the event log (tx, commit and value logs) and the survival choice to file f.
func dumpImage(f string, evs []fsim.Event, k int, what string, keep map[string]fsim.Survive) {
	out, err := os.OpenFile(f, os.O_CREATE|os.O_WRONLY|os.O_TRUNC, 0644)
	if err != nil {
		return
	}
	defer out.Close()
	fmt.Fprintf(out, "== %s\nkeep=%+v\n", what, keep)
	for _, e := range evs[:k] {
		if e.Kind == 'M' {
			fmt.Fprintf(out, "%d MARK %s %d\n", e.Seq, e.Mark, e.Val)
			continue
		}
		if e.Log != "tx" && e.Log != "commit" && !strings.HasPrefix(e.Log, "val_") {
			continue
		}
		fmt.Fprintf(out, "%d %s %c off=%d len=%d\n", e.Seq, e.Log, e.Kind, e.Off, len(e.Data))
	}
}
