// C03 — crash durability: acknowledged commits survive; recovery is a consistent prefix.
package c03

import (
	"bytes"
	"context"
	"crypto/sha256"
	"errors"
	"fmt"
	"os"
	"sort"
	"strings"
	"sync"
	"testing"
	"time"

	"github.com/codenotary/immudb/embedded/store"
	"pgregory.net/rapid"

	"verif/internal/fsim"
	"verif/internal/refmodel"
	"verif/internal/stx"
	"verif/internal/vk"
)

func TestMain(m *testing.M) {
	vk.Main(m, vk.Config{
		Property: "C03",
		Level:    "fault_enumeration",
		Rule: "a generated workload (1-4 concurrent committers, synced store, small chunk sizes forcing rotation of every log, generated AHT/index sync thresholds, optional index flushes, " +
			"optional precommitted backlog with discard and re-precommit under the same ids) runs on a store whose every log (tx, commit, value, hash-tree, index logs) is recorded through the public " +
			"WithAppFactory seam; for generated crash points and generated per-log survival of un-fsynced writes (none / all / what was flushed / byte-exact prefix / torn last write) the crash image is " +
			"materialised and reopened, and the recovery oracle is evaluated. Non-trivial: crash point with un-fsynced writes pending in >= 2 logs; distinct by (event kind at the crash point, per-log survival classes, acked count).",
		Assumptions: []string{
			"only writes already flushed to the OS can survive a crash (data in the process' write buffer is lost); per-file prefix + torn-last-write crash states only (a subset of real power-loss states); no reordering inside a file, no directory-entry loss",
			"write buffers are larger than the data of a case so that no implicit fsync happens inside the appendables (the recorder's view of what was fsynced is exact)",
			"index compaction is disabled in the workload (the dump bypasses the appendable factory)",
			"indexing that does not catch up within 60 s after recovery is a failure (the property requires a usable index)",
		},
		Probes: []vk.Probe{
			{ID: "F5-recovery-trusts-stale-aht", Present: probeF5},
			{ID: "K18-prealloc-torn-commit-log-entry", Present: probeK18},
			{ID: "K20-recovery-adopts-tx-without-values", Present: probeK20},
		},
	})
}

type ledgerTx struct {
	hdr     *store.TxHeader
	entries []stx.Entry
}

type workload struct {
	cfg    stx.Cfg
	dir    string
	fs     *fsim.FS
	mu     sync.Mutex
	ledger map[uint64]*ledgerTx // content of every tx id of the run (one content per id unless discards happen)
	alts   map[uint64][]*ledgerTx
	n      uint64
}

func (w *workload) opts(fs *fsim.FS) *store.Options {
	cfg := w.cfg
	if fs == nil {
		// the recovered database is opened as a regular (primary) store: commits need no external allowance
		cfg.ExternalAllow = false
	}
	o := cfg.Options().WithCompactionDisabled(true)
	if fs != nil {
		o = o.WithAppFactory(fs.Factory())
	}
	return o
}

func genEntries(rt *rapid.T, cfg stx.Cfg, who int) []stx.Entry {
	n := rapid.IntRange(1, 4).Draw(rt, "nEntries")
	var es []stx.Entry
	for i := 0; i < n; i++ {
		k := []byte(fmt.Sprintf("k%d", rapid.IntRange(0, 9).Draw(rt, "key")))
		var v []byte
		switch rapid.IntRange(0, 5).Draw(rt, "vshape") {
		case 0:
			v = []byte{}
		case 1:
			hi := 400
			if cfg.MaxValueLen < hi {
				hi = cfg.MaxValueLen
			}
			v = bytes.Repeat([]byte{byte('a' + who)}, rapid.IntRange(hi/2, hi).Draw(rt, "vlen"))
		default:
			v = []byte(fmt.Sprintf("w%d-%d", who, rapid.IntRange(0, 99999).Draw(rt, "v")))
		}
		e := stx.Entry{Key: k, Value: v}
		if cfg.HdrVersion == 1 && rapid.IntRange(0, 7).Draw(rt, "del") == 0 {
			e.Deleted = true
		}
		es = append(es, e)
	}
	return stx.Dedup(es)
}

// run executes the workload and returns with the store closed.
func (w *workload) run(rt *rapid.T, c *vk.Case) {
	st, err := store.Open(w.dir, w.opts(w.fs))
	if err != nil {
		c.Failf(rt, nil, "store.Open: %v", err)
	}
	writers := rapid.IntRange(1, 4).Draw(rt, "writers")
	plans := make([][][]stx.Entry, writers)
	total := 0
	for i := range plans {
		m := rapid.IntRange(1, 8).Draw(rt, "txsPerWriter")
		for j := 0; j < m; j++ {
			plans[i] = append(plans[i], genEntries(rt, w.cfg, i))
			total++
		}
	}
	flushEvery := rapid.SampledFrom([]int{0, 0, 3, 7}).Draw(rt, "flushEvery")
	// schedule perturbation: the durability round is slowed down at a generated kind of storage operation so that
	// other committers get to run in the middle of it (between the fsyncs of the different logs)
	perturb := rapid.SampledFrom([]string{"none", "vlog-sync", "vlog-sync-wait", "vlog-sync-wait", "vlog-flush", "tx-flush", "tx-sync", "commit-flush", "any-sync", "any-sync-wait"}).Draw(rt, "perturb")
	delay := time.Duration(rapid.SampledFrom([]int{200, 1000, 3000}).Draw(rt, "perturbMicros")) * time.Microsecond
	if perturb != "none" {
		w.fs.Yield = func(log string, k fsim.Kind) {
			hit := false
			switch perturb {
			case "vlog-sync":
				hit = strings.HasPrefix(log, "val_") && k == fsim.Sync
			case "vlog-flush":
				hit = strings.HasPrefix(log, "val_") && k == fsim.Flush
			case "tx-flush":
				hit = log == "tx" && k == fsim.Flush
			case "tx-sync":
				hit = log == "tx" && k == fsim.Sync
			case "commit-flush":
				hit = log == "commit" && k == fsim.Flush
			case "any-sync":
				hit = k == fsim.Sync && !strings.HasPrefix(log, "index") && !strings.HasPrefix(log, "aht")
			case "vlog-sync-wait", "any-sync-wait":
				// hold the durability round at this fsync until some other committer made progress (a new tx got
				// precommitted) or a bound expires: on correct code nothing can be precommitted meanwhile and the bound expires
				if k == fsim.Sync && (strings.HasPrefix(log, "val_") || (perturb == "any-sync-wait" && (log == "tx" || log == "commit"))) {
					// progress is observed through the recorder (number of recorded operations), never through the
					// store: this hook runs inside sync(), which holds the commit-state lock
					p0 := w.fs.Len()
					deadline := time.Now().Add(2 * delay)
					for w.fs.Len() == p0 && time.Now().Before(deadline) {
						time.Sleep(50 * time.Microsecond)
					}
				}
			}
			if hit {
				time.Sleep(delay)
			}
		}
		c.Label("perturb-" + perturb)
	}
	c.Descf("writers=%d txs=%d flushEvery=%d perturb=%s/%s", writers, total, flushEvery, perturb, delay)

	var wg sync.WaitGroup
	errs := make(chan error, writers)
	for i := range plans {
		wg.Add(1)
		go func(i int) {
			defer wg.Done()
			for j, es := range plans[i] {
				hdr, err := stx.Commit(st, es, false)
				if err != nil {
					errs <- fmt.Errorf("writer %d tx %d: %w", i, j, err)
					return
				}
				w.fs.Mark("ack", hdr.ID)
				w.mu.Lock()
				w.ledger[hdr.ID] = &ledgerTx{hdr: hdr, entries: es}
				if hdr.ID > w.n {
					w.n = hdr.ID
				}
				w.mu.Unlock()
				if flushEvery > 0 && int(hdr.ID)%flushEvery == 0 {
					st.FlushIndexes(0, hdr.ID%2 == 0)
				}
			}
		}(i)
	}
	wg.Wait()
	close(errs)
	for err := range errs {
		st.Close()
		c.Failf(rt, nil, "workload: %v", err)
	}
	if rapid.Bool().Draw(rt, "waitIndexBeforeClose") {
		ctx, cancel := context.WithTimeout(context.Background(), 60*time.Second)
		st.WaitForIndexingUpto(ctx, w.n)
		cancel()
	}
	if err := st.Close(); err != nil {
		c.Failf(rt, nil, "Close: %v", err)
	}
	for id := uint64(1); id <= w.n; id++ {
		if w.ledger[id] == nil {
			c.Failf(rt, nil, "workload: tx id %d was never acknowledged although %d was (gap in ids)", id, w.n)
		}
	}
}

// ackedBefore is the largest tx id acknowledged before crash point k.
func ackedBefore(evs []fsim.Event, k int) uint64 {
	var a uint64
	for _, e := range evs[:k] {
		if e.Mark == "ack" && e.Val > a {
			a = e.Val
		}
	}
	return a
}

type survClass int

const (
	svNone survClass = iota
	svAll
	svFlushed
	svPrefix
	svTorn
)

func (s survClass) String() string {
	return [...]string{"none", "all", "flushed", "prefix", "torn"}[s]
}

// verifyRecovered opens the image and evaluates the oracle. alts[id] lists every content that was precommitted under id.
func verifyRecovered(rt *rapid.T, c *vk.Case, w *workload, img string, acked uint64, what string) {
	st, err := store.Open(img, w.opts(nil))
	if err != nil {
		c.Failf(rt, nil, "%s: reopen failed: %v", what, err)
	}
	closed := false
	defer func() {
		if !closed {
			st.Close()
		}
	}()
	// transactions found precommitted in the tx log are committed by the recovered store itself:
	// let that settle, they are part of the recovered history
	if err := st.Sync(); err != nil {
		c.Failf(rt, nil, "%s: Sync after reopen: %v", what, err)
	}
	n := st.LastCommittedTxID()
	if p := st.LastPrecommittedTxID(); p != n {
		c.Failf(rt, nil, "%s: after Sync committed=%d precommitted=%d", what, n, p)
	}
	if n < acked {
		c.Failf(rt, nil, "%s: recovered store has %d committed txs, but tx %d was acknowledged before the crash", what, n, acked)
	}
	if n > w.n {
		c.Failf(rt, nil, "%s: recovered store has %d committed txs, the run only produced %d", what, n, w.n)
	}
	cid, calh := st.CommittedAlh()
	if cid != n {
		c.Failf(rt, nil, "%s: CommittedAlh id %d != LastCommittedTxID %d", what, cid, n)
	}
	tx := store.NewTx(w.cfg.MaxTxEntries, w.cfg.MaxKeyLen)
	var alhs []refmodel.Hash
	prevAlh := sha256.Sum256(nil)
	model := stx.Model{}
	for id := uint64(1); id <= n; id++ {
		if err := st.ReadTx(id, false, tx); err != nil {
			c.Failf(rt, nil, "%s: ReadTx(%d) of %d: %v (acked before crash: %d)", what, id, n, err, acked)
		}
		hdr := tx.Header()
		cands := w.alts[id]
		if l := w.ledger[id]; l != nil {
			cands = append([]*ledgerTx{l}, cands...)
		}
		var match *ledgerTx
		for _, l := range cands {
			if l.hdr.Alh() == hdr.Alh() {
				match = l
			}
		}
		if match == nil {
			c.Failf(rt, nil, "%s: tx %d of the recovered store (alh %x) is none of the transactions written under that id in the run", what, id, hdr.Alh())
		}
		if id <= acked && match != w.ledger[id] {
			c.Failf(rt, nil, "%s: acknowledged tx %d differs from what was acknowledged", what, id)
		}
		if hdr.ID != id || hdr.PrevAlh != prevAlh {
			c.Failf(rt, nil, "%s: tx %d: id/PrevAlh do not chain (id=%d)", what, id, hdr.ID)
		}
		es := tx.Entries()
		if len(es) != len(match.entries) {
			c.Failf(rt, nil, "%s: tx %d has %d entries, acknowledged %d", what, id, len(es), len(match.entries))
		}
		for i, e := range es {
			want := match.entries[i]
			if !bytes.Equal(e.Key(), want.Key) {
				c.Failf(rt, nil, "%s: tx %d entry %d key %q, acknowledged %q", what, id, i, e.Key(), want.Key)
			}
			v, err := st.ReadValue(e)
			if err != nil || !bytes.Equal(v, want.Value) {
				c.Failf(rt, nil, "%s: tx %d entry %d (%q): value %q err=%v, acknowledged %q", what, id, i, want.Key, trunc(v), err, trunc(want.Value))
			}
			md := e.Metadata()
			if (md != nil && md.Deleted()) != want.Deleted {
				c.Failf(rt, nil, "%s: tx %d entry %d metadata differs", what, id, i)
			}
		}
		if hdr.BlTxID > 0 {
			if hdr.BlTxID >= id {
				c.Failf(rt, nil, "%s: tx %d BlTxID %d", what, id, hdr.BlTxID)
			}
			leaves := make([]refmodel.Hash, hdr.BlTxID)
			for i := range leaves {
				leaves[i] = refmodel.LeafHash(alhs[i][:])
			}
			if want := refmodel.MerkleRoot(leaves); hdr.BlRoot != want {
				c.Failf(rt, nil, "%s: tx %d BlRoot is not the reference Merkle root over the first %d accumulated hashes", what, id, hdr.BlTxID)
			}
		}
		prevAlh = hdr.Alh()
		alhs = append(alhs, prevAlh)
		model.Add(hdr, match.entries)
	}
	if n > 0 && calh != prevAlh {
		c.Failf(rt, nil, "%s: reported state hash is not the accumulated hash of tx %d", what, n)
	}

	// a client that verified state `a` before the crash can prove consistency against the recovered state
	if n > 0 {
		hn, err := st.ReadTxHeader(n, false, false)
		if err != nil {
			c.Failf(rt, nil, "%s: ReadTxHeader(%d): %v", what, n, err)
		}
		for _, a := range []uint64{1, acked, (acked + 1) / 2} {
			if a == 0 || a > n || a > acked {
				continue
			}
			ha, err := st.ReadTxHeader(a, false, false)
			if err != nil {
				c.Failf(rt, nil, "%s: ReadTxHeader(%d): %v", what, a, err)
			}
			if ha.Alh() != w.ledger[a].hdr.Alh() {
				c.Failf(rt, nil, "%s: header of acknowledged tx %d changed", what, a)
			}
			proof, err := st.DualProof(ha, hn)
			if err != nil {
				c.Failf(rt, nil, "%s: DualProof(%d,%d): %v", what, a, n, err)
			}
			if !store.VerifyDualProof(proof, a, n, ha.Alh(), hn.Alh()) {
				c.Failf(rt, nil, "%s: dual proof from acknowledged state %d to recovered state %d does not verify", what, a, n)
			}
		}
	}

	// index agrees with the recovered history
	if n > 0 {
		ctx, cancel := context.WithTimeout(context.Background(), 60*time.Second)
		err := st.WaitForIndexingUpto(ctx, n)
		cancel()
		if err != nil {
			c.Failf(rt, nil, "%s: index did not catch up with recovered tx %d: %v", what, n, err)
		}
		for _, k := range model.Keys(nil, n) {
			vers := model.Versions(k, n)
			last := vers[len(vers)-1]
			ref, err := st.Get(context.Background(), k)
			if last.E.Deleted {
				if !errors.Is(err, store.ErrKeyNotFound) {
					c.Failf(rt, nil, "%s: Get(%q) after recovery: latest version is a delete, got err=%v", what, k, err)
				}
				continue
			}
			if err != nil {
				c.Failf(rt, nil, "%s: Get(%q) after recovery: %v (model tx %d)", what, k, err, last.Tx)
			}
			v, err := ref.Resolve()
			if ref.Tx() != last.Tx || ref.HC() != last.HC || err != nil || !bytes.Equal(v, last.E.Value) {
				c.Failf(rt, nil, "%s: Get(%q) after recovery: tx=%d rev=%d value=%q err=%v, model tx=%d rev=%d %q", what, k, ref.Tx(), ref.HC(), trunc(v), err, last.Tx, last.HC, trunc(last.E.Value))
			}
		}
	}

	// the database accepts new commits, chained to the recovered state
	hdr, err := stx.Commit(st, []stx.Entry{{Key: []byte("after-crash"), Value: []byte("v")}}, true)
	if err != nil {
		c.Failf(rt, nil, "%s: commit after recovery: %v", what, err)
	}
	if hdr.ID != n+1 || hdr.PrevAlh != prevAlh {
		c.Failf(rt, nil, "%s: commit after recovery got id %d (want %d) / wrong PrevAlh", what, hdr.ID, n+1)
	}
	if n > 0 {
		ha, _ := st.ReadTxHeader(n, false, false)
		proof, err := st.DualProof(ha, hdr)
		if err != nil || !store.VerifyDualProof(proof, n, hdr.ID, ha.Alh(), hdr.Alh()) {
			c.Failf(rt, nil, "%s: dual proof from recovered state %d to the first new tx does not verify (err=%v)", what, n, err)
		}
		if acked > 0 && acked < n {
			ha, _ := st.ReadTxHeader(acked, false, false)
			proof, err := st.DualProof(ha, hdr)
			if err != nil || !store.VerifyDualProof(proof, acked, hdr.ID, ha.Alh(), hdr.Alh()) {
				c.Failf(rt, nil, "%s: dual proof from acknowledged state %d to the first new tx %d does not verify (err=%v)", what, acked, hdr.ID, err)
			}
		}
	}
	if err := st.Close(); err != nil {
		closed = true
		c.Failf(rt, nil, "%s: Close after recovery: %v", what, err)
	}
	closed = true
	// and a further clean restart finds the same
	st2, err := store.Open(img, w.opts(nil))
	if err != nil {
		c.Failf(rt, nil, "%s: second reopen: %v", what, err)
	}
	defer st2.Close()
	if got := st2.LastCommittedTxID(); got != n+1 {
		c.Failf(rt, nil, "%s: after a clean restart the store has %d txs, want %d", what, got, n+1)
	}
	if _, alh := st2.CommittedAlh(); alh != hdr.Alh() {
		c.Failf(rt, nil, "%s: state hash changed across a clean restart", what)
	}
}

func trunc(b []byte) []byte {
	if len(b) > 20 {
		return b[:20]
	}
	return b
}

func newWorkload(rt *rapid.T) *workload {
	cfg := stx.GenCfg(rt)
	cfg.Synced = true
	cfg.Compression = 0
	cfg.WriteBuf = 1 << 20 // no implicit fsync inside the appendables
	cfg.MaxActiveTx = rapid.SampledFrom([]int{8, 1000}).Draw(rt, "maxActive")
	cfg.MaxBuffered = 1 << 25
	cfg.VLogCache = 0
	w := &workload{cfg: cfg, ledger: map[uint64]*ledgerTx{}, alts: map[uint64][]*ledgerTx{}}
	w.dir = vk.Dir()
	w.fs = fsim.New(w.dir)
	return w
}

func TestCrashRecovery(t *testing.T) {
	imagesPer := 30
	if vk.Thorough() {
		imagesPer = 120
	}
	vk.Check(t, 40, 1500, func(rt *rapid.T, c *vk.Case) {
		w := newWorkload(rt)
		defer os.RemoveAll(w.dir)
		c.Descf("cfg=%s", w.cfg)
		w.run(rt, c)
		evs := w.fs.Events()
		// interesting crash points: right after every storage op; biased to the neighbourhood of fsyncs
		var syncPts []int
		for i, e := range evs {
			if e.Kind == fsim.Sync || e.Kind == fsim.Flush {
				syncPts = append(syncPts, i, i+1)
			}
		}
		for img := 0; img < imagesPer; img++ {
			var k int
			if len(syncPts) > 0 && rapid.IntRange(0, 2).Draw(rt, "nearSync") > 0 {
				k = syncPts[rapid.IntRange(0, len(syncPts)-1).Draw(rt, "syncPt")]
			} else {
				k = rapid.IntRange(0, len(evs)).Draw(rt, "k")
			}
			pend := w.fs.PendingAt(k)
			classes := map[string]survClass{}
			mode := rapid.IntRange(0, 4).Draw(rt, "mode") // 0: all logs same class; else per-log classes
			global := survClass(rapid.IntRange(0, 4).Draw(rt, "globalClass"))
			keepN := map[string]fsim.Survive{}
			pendingLogs := 0
			for _, p := range pend {
				if p.Writes > 0 {
					pendingLogs++
				}
				cl := global
				if mode != 0 {
					cl = survClass(rapid.IntRange(0, 4).Draw(rt, "class"))
				}
				classes[p.Log] = cl
				sv := fsim.Survive{Torn: -1}
				// only what was handed to the OS (flushed) can survive: data still in the process' write buffer is gone
				switch cl {
				case svNone:
					sv.Keep = 0
				case svAll, svFlushed:
					sv.Keep = p.Flushed
				case svPrefix:
					sv.Keep = rapid.IntRange(0, p.Flushed).Draw(rt, "keep")
				case svTorn:
					sv.Keep = rapid.IntRange(0, p.Flushed).Draw(rt, "keep")
					sv.Torn = rapid.IntRange(1, 64).Draw(rt, "torn") // bytes kept of the last surviving append (whole write if shorter)
					if w.cfg.Prealloc && p.Log == "commit" && vk.Excluded("K18-prealloc-torn-commit-log-entry") {
						// known finding K18: with preallocated files a half-written commit-log entry makes the store unopenable
						sv.Torn = -1
						vk.CountExcluded("K18-prealloc-torn-commit-log-entry")
					}
				}
				keepN[p.Log] = sv
			}
			acked := ackedBefore(evs, k)
			dst := vk.Dir()
			err := w.fs.Materialise(dst, k, func(p fsim.Pending) fsim.Survive { return keepN[p.Log] })
			if err != nil {
				os.RemoveAll(dst)
				rt.Fatalf("harness: materialise at %d: %v", k, err)
			}
			kind := "end"
			if k < len(evs) {
				kind = fmt.Sprintf("%s:%c", evs[k].Log, evs[k].Kind)
			}
			what := fmt.Sprintf("crash before event %d/%d (%s), acked=%d, survive=%v", k, len(evs), kind, acked, classStr(classes))
			verifyRecovered(rt, c, w, dst, acked, what)
			os.RemoveAll(dst)

			e := vk.NewEnum("TestCrashRecovery/images")
			e.Descf("%s|%s|acked=%d|pendingLogs=%d", kind, classStr(classes), acked, pendingLogs)
			e.Label("class-" + global.String())
			if pendingLogs >= 2 {
				e.NonTrivial()
				c.Label("image-with-pending-in>=2-logs")
			}
			e.Done()
		}
		c.Descf("events=%d n=%d", len(evs), w.n)
		c.NonTrivial()
	})
}

func classStr(m map[string]survClass) string {
	var ks []string
	for k := range m {
		ks = append(ks, k)
	}
	sort.Strings(ks)
	s := ""
	for _, k := range ks {
		s += fmt.Sprintf("%s=%s,", k, m[k])
	}
	return s
}

// probeF5 (fixed): a=1 committed tx, 4 precommitted txs discarded, one different tx precommitted under id 2 and
// never allowed, process kill. The reopened store recovers the old txs 2..5 from the tx log while leaf 2 of the
// hash tree was overwritten in place: proofs from state 1 no longer verify.
func probeF5() (bool, string) {
	dir := vk.Dir()
	defer os.RemoveAll(dir)
	cfg := stx.Cfg{Synced: true, SyncFreqMs: 1, HdrVersion: 1, IOConc: 1, FileSize: 1 << 20, TxLogCache: 10, MaxActiveTx: 100, MaxKeyLen: 64,
		MaxValueLen: 64, MaxTxEntries: 8, WriteBuf: 1 << 20, BulkSize: 1, FlushThld: 100, SyncThld: 100, IdxCache: 10, CompactionThld: 2, AHTSyncThld: 5,
		MaxBuffered: 1 << 20, ExternalAllow: true}
	fs := fsim.New(dir)
	st, err := store.Open(dir, cfg.Options().WithCompactionDisabled(true).WithAppFactory(fs.Factory()))
	if err != nil {
		return false, ""
	}
	e := func(v string) []stx.Entry { return []stx.Entry{{Key: []byte("k"), Value: []byte(v)}} }
	p1, err := precommit(st, e("v1"), 1)
	if err != nil {
		st.Close()
		return false, ""
	}
	st.AllowCommitUpto(1)
	<-p1.done
	var tail []*pendingTx
	for i := 2; i <= 5; i++ {
		p, err := precommit(st, e(fmt.Sprintf("old%d", i)), uint64(i))
		if err != nil {
			st.Close()
			return false, ""
		}
		tail = append(tail, p)
	}
	for _, p := range tail {
		p.cancel()
		<-p.done
	}
	st.DiscardPrecommittedTxsSince(2)
	pn, err := precommit(st, e("new2"), 2)
	if err != nil {
		st.Close()
		return false, ""
	}
	pn.cancel()
	<-pn.done
	st.Close()
	img := vk.Dir()
	defer os.RemoveAll(img)
	if err := fs.Materialise(img, fs.Len(), func(p fsim.Pending) fsim.Survive { return fsim.Survive{Keep: p.Flushed, Torn: -1} }); err != nil {
		return false, ""
	}
	cfg.ExternalAllow = false
	st2, err := store.Open(img, cfg.Options().WithCompactionDisabled(true))
	if err != nil {
		return true, "reopen failed: " + err.Error()
	}
	defer st2.Close()
	st2.Sync()
	n := st2.LastCommittedTxID()
	h1, err1 := st2.ReadTxHeader(1, false, false)
	hn, err2 := st2.ReadTxHeader(n, false, false)
	if err1 != nil || err2 != nil {
		return true, fmt.Sprintf("reading headers after recovery: %v %v", err1, err2)
	}
	proof, err := st2.DualProof(h1, hn)
	if err != nil || !store.VerifyDualProof(proof, 1, n, h1.Alh(), hn.Alh()) {
		return true, fmt.Sprintf("1 committed + 4 precommitted txs, discard since 2, new tx 2 precommitted, process kill: recovered %d txs, dual proof 1->%d does not verify (err=%v)", n, n, err)
	}
	return false, ""
}

// probeK20: one transaction precommitted (buffered only: the syncer is not due for an hour), graceful Close (which
// flushes the logs without fsync), power loss in which the flushed tail of the tx log reaches the disk and the one
// of the value log does not: recovery adopts the tx record and commits it although its value is nowhere.
func probeK20() (bool, string) {
	dir := vk.Dir()
	defer os.RemoveAll(dir)
	cfg := stx.Cfg{Synced: true, SyncFreqMs: 3600 * 1000, HdrVersion: 1, IOConc: 1, FileSize: 1 << 20, TxLogCache: 10, MaxActiveTx: 100, MaxKeyLen: 64,
		MaxValueLen: 64, MaxTxEntries: 8, WriteBuf: 1 << 20, BulkSize: 1, FlushThld: 100, SyncThld: 100, IdxCache: 10, CompactionThld: 2, AHTSyncThld: 5,
		MaxBuffered: 1 << 20, ExternalAllow: true}
	fs := fsim.New(dir)
	st, err := store.Open(dir, cfg.Options().WithCompactionDisabled(true).WithAppFactory(fs.Factory()))
	if err != nil {
		return false, ""
	}
	p1, err := precommit(st, []stx.Entry{{Key: []byte("k"), Value: []byte("the-value")}}, 1)
	if err != nil {
		st.Close()
		return false, ""
	}
	p1.cancel()
	<-p1.done
	st.Close()
	img := vk.Dir()
	defer os.RemoveAll(img)
	err = fs.Materialise(img, fs.Len(), func(p fsim.Pending) fsim.Survive {
		if strings.HasPrefix(p.Log, "val_") {
			return fsim.Survive{Keep: 0, Torn: -1}
		}
		return fsim.Survive{Keep: p.Flushed, Torn: -1}
	})
	if err != nil {
		return false, ""
	}
	cfg.ExternalAllow = false
	cfg.SyncFreqMs = 1
	st2, err := store.Open(img, cfg.Options().WithCompactionDisabled(true))
	if err != nil {
		return true, "reopen failed: " + err.Error()
	}
	defer st2.Close()
	st2.Sync()
	if st2.LastCommittedTxID() == 0 {
		return false, ""
	}
	tx := store.NewTx(8, 64)
	if err := st2.ReadTx(1, false, tx); err != nil {
		return true, "tx 1 recovered but unreadable: " + err.Error()
	}
	v, err := st2.ReadValue(tx.Entries()[0])
	if err != nil || string(v) != "the-value" {
		return true, fmt.Sprintf("tx 1 precommitted (never synced), Close, power loss keeping the flushed tx log but not the flushed value log: reopened store commits tx 1, ReadValue = %q, %v", v, err)
	}
	return false, ""
}

// probeK18: preallocated files + a torn (partially written) commit-log entry: the store cannot be reopened.
func probeK18() (bool, string) {
	dir := vk.Dir()
	defer os.RemoveAll(dir)
	cfg := stx.Cfg{Synced: true, SyncFreqMs: 1, Prealloc: true, HdrVersion: 1, IOConc: 1, FileSize: 4096, TxLogCache: 10, MaxActiveTx: 100, MaxKeyLen: 64,
		MaxValueLen: 64, MaxTxEntries: 8, WriteBuf: 4096, BulkSize: 1, FlushThld: 100, SyncThld: 100, IdxCache: 10, CompactionThld: 2, AHTSyncThld: 1, MaxBuffered: 1 << 20}
	st, err := store.Open(dir, cfg.Options())
	if err != nil {
		return false, ""
	}
	var last *store.TxHeader
	for i := 0; i < 2; i++ {
		last, err = stx.Commit(st, []stx.Entry{{Key: []byte("k"), Value: []byte{byte('a' + i)}}}, false)
		if err != nil {
			st.Close()
			return false, ""
		}
	}
	st.Close()
	// tear the last commit-log entry: its accumulated hash is only half written
	path := dir + "/commit/00000000.txi"
	b, err := os.ReadFile(path)
	if err != nil {
		return false, ""
	}
	alh := last.Alh()
	i := bytes.LastIndex(b, alh[:])
	if i < 0 {
		return false, ""
	}
	for j := i + 16; j < i+32; j++ {
		b[j] = 0
	}
	os.WriteFile(path, b, 0o644)
	st, err = store.Open(dir, cfg.Options())
	if err != nil {
		return true, "PreallocFiles=true, last commit-log entry half written (torn): reopen fails: " + err.Error()
	}
	st.Close()
	return false, ""
}
