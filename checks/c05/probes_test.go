package c05

import (
	"context"
	"errors"
	"fmt"
	"os"
	"testing"
	"time"

	"github.com/codenotary/immudb/embedded/logger"
	"github.com/codenotary/immudb/embedded/store"

	"verif/internal/vk"
)

// Pinned deterministic reproductions of the findings of this check. Each one
// returns true when the defect is present on the tree under test.

func probeOpts() *store.Options {
	return store.DefaultOptions().
		WithLogger(logger.NewMemoryLoggerWithLevel(logger.LogError)).
		WithMaxTxEntries(16).WithMaxKeyLen(32).WithMaxValueLen(64).WithWriteBufferSize(4096).WithMaxConcurrency(4).WithTxLogCacheSize(10).
		WithIndexOptions(store.DefaultIndexOptions().WithFlushThld(100000).WithSyncThld(100000).WithMaxActiveSnapshots(100).WithCacheSize(100).WithMaxNodeSize(4096)).
		WithAHTOptions(store.DefaultAHTOptions().WithWriteBufferSize(4096))
}

func probeCommit(st *store.ImmuStore, kvs ...string) (*store.TxHeader, error) {
	tx, err := st.NewWriteOnlyTx(context.Background())
	if err != nil {
		return nil, err
	}
	for i := 0; i+1 < len(kvs); i += 2 {
		if err := tx.Set([]byte(kvs[i]), nil, []byte(kvs[i+1])); err != nil {
			return nil, err
		}
	}
	return tx.Commit(context.Background()) // waits for indexing
}

const kReaderOwnTail = "K05a-reader-phantom-before-own-write-at-tail"
const kPrefixOwnFirst = "K05b-getwithprefix-own-write-unvalidated"
const kMultiIdxSkip = "K05c-multi-index-validation-skipped-by-first-snapshot"

// probeReaderOwnTail: a key reader of a read-write tx whose last read returned the tx's own
// (new) key is not invalidated by a concurrent insert between the previous row and the own key.
func probeReaderOwnTail() (bool, string) {
	dir := vk.Dir()
	defer os.RemoveAll(dir)
	st, err := store.Open(dir, probeOpts())
	if err != nil {
		return false, ""
	}
	defer st.Close()
	ctx := context.Background()
	if _, err := probeCommit(st, "k1", "a", "k5", "a"); err != nil {
		return false, ""
	}
	tx, err := st.NewTx(ctx, store.DefaultTxOptions())
	if err != nil {
		return false, ""
	}
	if err := tx.Set([]byte("k3"), nil, []byte("own")); err != nil {
		return false, ""
	}
	r, err := tx.NewKeyReader(store.KeyReaderSpec{Prefix: []byte("k")})
	if err != nil {
		return false, ""
	}
	k1, _, err1 := r.Read(ctx)
	k2, ref2, err2 := r.Read(ctx)
	r.Close()
	if err1 != nil || err2 != nil || string(k1) != "k1" || string(k2) != "k3" || ref2.Tx() != 0 {
		return false, ""
	}
	if _, err := probeCommit(st, "k2", "phantom"); err != nil { // tx 2
		return false, ""
	}
	hdr, err := tx.Commit(ctx)
	if err == nil {
		return true, fmt.Sprintf("tx1={k1,k5}; T: Set(k3); reader(prefix k).Read=k1, Read=k3(own), stop; tx2={k2}; T.Commit succeeded as tx %d although executed at that point its second read returns k2", hdr.ID)
	}
	if !errors.Is(err, store.ErrTxReadConflict) {
		return false, ""
	}
	return false, ""
}

// probePrefixOwnFirst: GetWithPrefix that returned the tx's own (new) key records nothing in the
// read-set; a concurrent insert of a smaller key under the prefix is not detected.
func probePrefixOwnFirst() (bool, string) {
	dir := vk.Dir()
	defer os.RemoveAll(dir)
	st, err := store.Open(dir, probeOpts())
	if err != nil {
		return false, ""
	}
	defer st.Close()
	ctx := context.Background()
	if _, err := probeCommit(st, "k5", "a"); err != nil {
		return false, ""
	}
	tx, err := st.NewTx(ctx, store.DefaultTxOptions())
	if err != nil {
		return false, ""
	}
	if err := tx.Set([]byte("k3"), nil, []byte("own")); err != nil {
		return false, ""
	}
	k, ref, err := tx.GetWithPrefix(ctx, []byte("k"), nil)
	if err != nil || string(k) != "k3" || ref.Tx() != 0 {
		return false, ""
	}
	if _, err := probeCommit(st, "k1", "phantom"); err != nil { // tx 2
		return false, ""
	}
	hdr, err := tx.Commit(ctx)
	if err == nil {
		return true, fmt.Sprintf("tx1={k5}; T: Set(k3); GetWithPrefix(k)=k3(own); tx2={k1}; T.Commit succeeded as tx %d although executed at that point GetWithPrefix(k) returns k1", hdr.ID)
	}
	return false, ""
}

// probeMultiIdxSkip: with two indexes, checkPreconditions returns as soon as the first snapshot of
// the tx is newer than the last precommitted tx, without validating reads done on other (stale) snapshots.
func probeMultiIdxSkip() (bool, string) {
	dir := vk.Dir()
	defer os.RemoveAll(dir)
	st, err := store.Open(dir, probeOpts().WithMultiIndexing(true))
	if err != nil {
		return false, ""
	}
	defer st.Close()
	for _, p := range []string{"A", "B"} {
		if err := st.InitIndexing(&store.IndexSpec{SourcePrefix: []byte(p), TargetPrefix: []byte(p)}); err != nil {
			return false, ""
		}
	}
	ctx := context.Background()
	if _, err := probeCommit(st, "B1", "v1"); err != nil { // tx 1
		return false, ""
	}
	// a reader of index B pins the dumped root of B at tx 1
	snap, err := st.SnapshotMustIncludeTxID(ctx, []byte("B"), 1)
	if err != nil {
		return false, ""
	}
	snap.Close()
	if _, err := probeCommit(st, "B1", "v2"); err != nil { // tx 2
		return false, ""
	}
	// any snapshot is acceptable to this tx (documented option: SnapshotMustIncludeTxID = 0)
	tx, err := st.NewTx(ctx, &store.TxOptions{Mode: store.ReadWriteTx})
	if err != nil {
		return false, ""
	}
	if err := tx.Set([]byte("A1"), nil, []byte("x")); err != nil { // first snapshot: index A, up to date
		return false, ""
	}
	ref, err := tx.Get(ctx, []byte("B1")) // second snapshot: index B, the dumped root at tx 1
	if err != nil {
		return false, ""
	}
	if ref.Tx() != 1 {
		return false, "" // snapshot was not stale: the scenario did not materialise
	}
	hdr, err := tx.Commit(ctx)
	if err == nil {
		return true, fmt.Sprintf("indexes A,B; tx1={B1=v1}; tx2={B1=v2}; T: Set(A1); Get(B1)=v1@tx1 (stale snapshot of B); T.Commit succeeded as tx %d although B1 was overwritten by tx 2", hdr.ID)
	}
	return false, ""
}

func TestProbesDebug(t *testing.T) {
	if os.Getenv("VERIF_C05_PROBES") == "" {
		t.Skip("debug aid")
	}
	t0 := time.Now()
	for _, p := range []struct {
		id string
		f  func() (bool, string)
	}{{kReaderOwnTail, probeReaderOwnTail}, {kPrefixOwnFirst, probePrefixOwnFirst}, {kMultiIdxSkip, probeMultiIdxSkip}} {
		ok, d := p.f()
		t.Logf("%s present=%v %s (%v)", p.id, ok, d, time.Since(t0))
	}
}
