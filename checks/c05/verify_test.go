package c05

import (
	"bytes"
	"context"
	"errors"
	"fmt"
	"os"
	"sort"
	"time"

	"github.com/codenotary/immudb/embedded/store"

	"verif/internal/stx"
	"verif/internal/vk"
)

// verify is the oracle: serial replay of the committed transactions in header-id order.
func (w *world) verify() {
	rt, c := w.rt, w.c
	if len(w.infra) > 0 {
		c.Failf(rt, w.dump(), "unexpected error outside the property's outcomes: %v", w.infra)
	}
	for _, t := range w.txs {
		if t.finErr != "" {
			c.Failf(rt, w.dump(), "T%d: Commit/Cancel returned an unexpected error: %s", t.n, t.finErr)
		}
	}

	// 1. the committed history: ids are 1..N, each returned once
	sort.Slice(w.commits, func(i, j int) bool { return w.commits[i].id < w.commits[j].id })
	for i, cr := range w.commits {
		if cr.id != uint64(i+1) {
			c.Failf(rt, w.dump(), "successful commits returned header ids that are not 1..N exactly once: position %d holds id %d (%s)", i+1, cr.id, cr.who)
		}
	}
	n := uint64(len(w.commits))
	if got := w.st.LastCommittedTxID(); got != n {
		c.Failf(rt, w.dump(), "store holds %d committed transactions but only %d commits succeeded: a rejected or cancelled transaction left a trace", got, n)
	}
	var m stx.Model
	for _, cr := range w.commits {
		m.Add(&store.TxHeader{ID: cr.id}, cr.entries)
	}
	h := buildHist(&m)

	// 2. every read of a committed read-write transaction against state(id-1) + own writes
	for _, t := range w.txs {
		if t.state == txCommitted {
			w.verifyTx(h, t, t.hdr.ID-1, true)
		}
	}

	// 3. the transaction log holds exactly the write sets of the successful commits
	w.verifyLog(&m)

	// 4. final content of the indexes
	w.verifyFinal(h)

	// 5. atomic visibility: what every read-only scanner saw is state(t) for some t
	w.verifyScanners(h)

	w.classify(h)
}

type mismatch struct {
	t    *txProg
	r    *readRec
	what string
}

// verifyTx compares the reads of t with the view at upTo. With fail=false it only reports whether all agree.
func (w *world) verifyTx(h *hist, t *txProg, upTo uint64, fail bool) bool {
	ok := true
	bad := func(r *readRec, class string, format string, args ...any) {
		ok = false
		if !fail {
			return
		}
		msg := fmt.Sprintf(format, args...)
		// classes of the known findings (only when the listed probe still fires)
		if class != "" && excluded(class) {
			vk.CountExcluded(class)
			w.c.Label("excluded-" + class)
			return
		}
		// class K05c: the read went to another index than the first one the tx touched, the tx wrote into that first
		// index, and no transaction committed between the creation of the first snapshot and the commit (the only
		// situation in which checkPreconditions returns at the first snapshot)
		if class == "" && w.multi && t.firstIdx >= 0 && r.idx != t.firstIdx && t.wroteIdx[t.firstIdx] && t.firstDone && t.firstLPAfter+1 == t.hdr.ID && excluded(kMultiIdxSkip) {
			vk.CountExcluded(kMultiIdxSkip)
			w.c.Label("excluded-" + kMultiIdxSkip)
			return
		}
		w.c.Failf(w.rt, w.dump(), "T%d committed as tx %d, but executed alone on the state left by txs 1..%d %s", t.n, t.hdr.ID, upTo, msg)
	}
	for _, r := range t.reads {
		v := &view{h: h, upTo: upTo, own: overlay(t.writes[:r.nw])}
		if r.err != "" {
			bad(r, "", "(unexpected error: %s)", r.err)
			continue
		}
		switch r.kind {
		case "get":
			e := v.get(r.key, r.filters)
			if d := differs(r.out, e); d != "" {
				bad(r, "", "Get(%q, filters=%d) returns %s; the transaction observed %s (%s)", r.key, r.filters, e, r.out, d)
			}
		case "gwp":
			e := v.getWithPrefix(r.prefix, r.neq, r.filters)
			if d := differs(r.out, e); d != "" {
				// class K05b: the lookup was answered by a pending write of the tx: nothing is recorded in the read-set
				class := ""
				if r.out.status == stFound && r.out.isOwn {
					class = kPrefixOwnFirst
				}
				bad(r, class, "GetWithPrefix(%q, neq=%q, filters=%d) returns %s; the transaction observed %s (%s)", r.prefix, r.neq, r.filters, e, r.out, d)
			}
		case "del":
			e := v.get(r.key, r.filters)
			wantOK := e.status == stFound && !(e.isOwn && e.ow.e.Deleted)
			if r.out.err != "" {
				bad(r, "", "Delete(%q): unexpected error %s", r.key, r.out.err)
			} else if e.isOwn && e.alsoMiss {
				// own deleted / expired entry: whether the lookup inside Delete sees it is not pinned (see Assumptions)
			} else if gotOK := r.out.status == stFound; gotOK != wantOK {
				bad(r, "", "Delete(%q) finds %s; for the transaction Delete returned found=%v", r.key, e, gotOK)
			}
		case "scan":
			w.verifyScan(v, t, r, bad)
		case "mark":
			lim := r.lpAfter
			if lim > upTo {
				lim = upTo
			}
			want := v.tuples(r.spec)
			found := false
			for ts := int64(lim); ts >= 0 && !found; ts-- {
				vv := &view{h: h, upTo: uint64(ts), own: v.own}
				found = vv.tuples(r.spec) == want
			}
			if !found {
				bad(r, "", "the range %s marked with MarkPrefixScanned holds [%s], which differs from what it held at every state the transaction can have scanned (txs up to %d)", r.spec, want, lim)
			}
		}
	}
	return ok
}

func (w *world) verifyScan(v *view, t *txProg, r *readRec, bad func(r *readRec, class, format string, args ...any)) {
	cur := v.cursor(r.spec, 0)
	pass := 0 // index of the first call of the current pass
	for i := range r.calls {
		cl := &r.calls[i]
		switch cl.kind {
		case 'R', 'W':
			if cl.out.err != "" {
				bad(r, "", "(reader %s: unexpected error: %s)", r.spec, cl.out.err)
				return
			}
			nw := cl.nw
			if cl.kind == 'W' {
				nw++
			}
			vv := &view{h: v.h, upTo: v.upTo, own: overlay(t.writes[:nw])}
			cur = vv.cursor(r.spec, cur.skipped)
			pass = i + 1
		case 'r', 'b':
			e := cur.next(cl.ini, cl.fin)
			d := differs(cl.out, e)
			if d == "" {
				continue
			}
			what := "Read"
			if cl.kind == 'b' {
				what = fmt.Sprintf("ReadBetween(%d,%d)", cl.ini, cl.fin)
			}
			bad(r, "", "call #%d (%s, #%d of its pass) of the reader %s returns %s; the transaction observed %s (%s)", i+1, what, i-pass+1, r.spec, e, cl.out, d)
			return
		}
	}
}

// verifyLog: ReadTx of every id equals the write set of the commit that returned the id.
func (w *world) verifyLog(m *stx.Model) {
	holder := store.NewTx(w.cfg.MaxTxEntries, w.cfg.MaxKeyLen)
	for _, tr := range m.Txs {
		if err := w.st.ReadTx(tr.ID, false, holder); err != nil {
			w.c.Failf(w.rt, w.dump(), "ReadTx(%d): %v", tr.ID, err)
		}
		es := holder.Entries()
		if len(es) != len(tr.Entries) {
			w.c.Failf(w.rt, w.dump(), "tx %d holds %d entries, the commit that returned this id wrote %d (%v)", tr.ID, len(es), len(tr.Entries), tr.Entries)
		}
		for i, e := range es {
			want := tr.Entries[i]
			md := e.Metadata()
			del := md != nil && md.Deleted()
			exp := md != nil && md.IsExpirable()
			nidx := md != nil && md.NonIndexable()
			if !bytes.Equal(e.Key(), want.Key) || del != want.Deleted || exp != (want.Expire != 0) || nidx != want.NonIndexable {
				w.c.Failf(w.rt, w.dump(), "tx %d entry %d is key=%q deleted=%v expirable=%v nonindexable=%v, the commit wrote %s", tr.ID, i, e.Key(), del, exp, nidx, want)
			}
			val, err := w.st.ReadValue(e)
			if want.Expire == 1 {
				continue // the value of an expired entry is refused by design
			}
			if err != nil || !bytes.Equal(val, want.Value) {
				w.c.Failf(w.rt, w.dump(), "tx %d entry %d (%q): value %q err=%v, the commit wrote %q", tr.ID, i, e.Key(), val, err, want.Value)
			}
		}
	}
}

func (w *world) verifyFinal(h *hist) {
	if h.n == 0 {
		return
	}
	ctx, cancel := context.WithTimeout(context.Background(), 120*time.Second)
	defer cancel()
	if err := w.st.WaitForIndexingUpto(ctx, h.n); err != nil {
		w.c.Failf(w.rt, w.dump(), "indexing did not catch up with tx %d within 120 s: %v", h.n, err)
	}
	v := &view{h: h, upTo: h.n, own: map[string]own{}}
	for idx, p := range w.prefixes {
		snap, err := w.st.SnapshotMustIncludeTxID(context.Background(), p, h.n)
		if err != nil {
			w.c.Failf(w.rt, w.dump(), "final snapshot of index %q: %v", p, err)
		}
		r, err := snap.NewKeyReader(store.KeyReaderSpec{Prefix: p})
		if err != nil {
			snap.Close()
			w.c.Failf(w.rt, w.dump(), "final reader of index %q: %v", p, err)
		}
		cur := v.cursor(rspec{Prefix: p}, 0)
		for i := 0; ; i++ {
			k, ref, err := r.Read(context.Background())
			o := capture(k, ref, err)
			e := cur.next(0, 0)
			if d := differs(o, e); d != "" {
				r.Close()
				snap.Close()
				w.c.Failf(w.rt, w.dump(), "final content of index %q, row %d: store %s, model %s (%s)", p, i, o, e, d)
			}
			if o.status == stNoMore {
				break
			}
		}
		r.Close()
		snap.Close()
		for _, k := range w.universe[idx] {
			ref, err := w.st.Get(context.Background(), k)
			o := capture(k, ref, err)
			if d := differs(o, v.get(k, fExpired|fDeleted)); d != "" {
				w.c.Failf(w.rt, w.dump(), "final Get(%q): store %s, model %s (%s)", k, o, v.get(k, fExpired|fDeleted), d)
			}
		}
	}
}

func (w *world) verifyScanners(h *hist) {
	for _, obs := range w.scans {
		if obs.err != "" {
			w.c.Failf(w.rt, w.dump(), "read-only scanner (%s): unexpected error %s", obs.how, obs.err)
		}
		p := w.prefixes[obs.idx]
		matches := func(ts uint64) bool {
			v := &view{h: h, upTo: ts, own: map[string]own{}}
			cur := v.cursor(rspec{Prefix: p}, 0)
			for _, o := range obs.rows {
				if differs(o, cur.next(0, 0)) != "" {
					return false
				}
			}
			return cur.next(0, 0).status == stNoMore
		}
		found := false
		if obs.known && obs.ts <= h.n && matches(obs.ts) {
			found = true
			w.c.Label("scanner-state-equals-snapshot-ts")
		}
		for ts := int64(h.n); ts >= 0 && !found; ts-- {
			found = matches(uint64(ts))
		}
		if !found {
			var rows []string
			for _, o := range obs.rows {
				rows = append(rows, o.String())
			}
			w.c.Failf(w.rt, w.dump(), "a read-only scanner (%s, snapshot ts %d) of index %q observed %v, which is not the state after any prefix of the committed transactions (atomic visibility)", obs.how, obs.ts, p, rows)
		}
		w.c.Label("scanner")
	}
}

// classify sets the labels and the non-triviality flag of the case.
func (w *world) classify(h *hist) {
	c := w.c
	if w.multi {
		c.Label("multi-index")
	}
	if w.cfg.Synced {
		c.Label("synced-store")
	}
	if w.slowBulk {
		c.Label("lagging-indexer(bulk-wait-20ms)")
	}
	reached, committed, conflicts := 0, 0, 0
	var reachedTxs []*txProg
	for _, t := range w.txs {
		switch t.state {
		case txCommitted:
			reached++
			committed++
			reachedTxs = append(reachedTxs, t)
			c.Label("rw-committed")
		case txConflict:
			reached++
			conflicts++
			reachedTxs = append(reachedTxs, t)
			c.Label("rw-conflict")
			// would the reads have been valid at the time the commit was refused?
			if w.verifyTx(h, t, minU(t.lpFinish, h.n), false) {
				c.Label("rw-conflict-spurious(approx)")
			} else {
				c.Label("rw-conflict-true(approx)")
			}
		case txCancelled:
			c.Label("rw-cancelled")
		case txNoEntries:
			c.Label("rw-no-entries")
		}
		for _, r := range t.reads {
			c.Label("read-" + r.kind)
			switch r.kind {
			case "get", "gwp":
				if r.out.status == stNotFound {
					c.Label("read-not-found")
				}
				if r.out.isOwn {
					c.Label("read-own-write")
				}
				if r.kind == "gwp" && r.neq != nil {
					c.Label("gwp-neq")
				}
				// was the snapshot behind the store when the read happened?
				v := &view{h: h, upTo: minU(r.lpPre, h.n), own: overlay(t.writes[:r.nw])}
				var e exp
				if r.kind == "get" {
					e = v.get(r.key, r.filters)
				} else {
					e = v.getWithPrefix(r.prefix, r.neq, r.filters)
				}
				if differs(r.out, e) != "" {
					c.Label("stale-snapshot-read")
				}
			case "scan":
				if r.spec.Desc {
					c.Label("scan-desc")
				}
				if r.spec.Seek != nil || r.spec.End != nil {
					c.Label("scan-bounds")
				}
				if r.spec.Offset > 0 {
					c.Label("scan-offset")
				}
				if r.spec.Filters != 3 {
					c.Label("scan-nondefault-filters")
				}
				end := false
				for _, cl := range r.calls {
					switch cl.kind {
					case 'R':
						c.Label("scan-reset")
					case 'W':
						c.Label("scan-write-then-reset")
					case 'b':
						c.Label("scan-readbetween")
					}
					if cl.out.status == stNoMore {
						end = true
					}
					if cl.out.isOwn {
						c.Label("read-own-write")
					}
				}
				if !end {
					c.Label("scan-early-stop")
				}
			}
		}
		for _, wr := range t.writes {
			if wr.transient {
				c.Label("write-transient")
			}
		}
	}
	if reached > 0 && committed == 0 {
		c.Label("every-rw-tx-conflicted")
	}
	// non-trivial rule
	overlapping := false
	for i := range reachedTxs {
		for j := i + 1; j < len(reachedTxs); j++ {
			for k := range reachedTxs[i].touched {
				if reachedTxs[j].touched[k] {
					overlapping = true
				}
			}
		}
	}
	success := false
	for _, t := range w.txs {
		if t.state != txCommitted || len(t.reads) == 0 {
			continue
		}
		for _, cr := range w.commits {
			if cr.t == t || cr.id <= t.beginLP || cr.id >= t.hdr.ID {
				continue
			}
			c.Label("committed-after-concurrent-commit")
			for _, e := range cr.entries {
				if t.touched[string(e.Key)] {
					success = true
				}
			}
		}
	}
	if success {
		c.Label("committed-after-concurrent-commit-in-footprint")
	}
	if overlapping && success {
		c.NonTrivial()
	}
}

// excluded: the class of a known finding is left out (debugging aid: VERIF_C05_NOEXCLUDE reports them as failures).
func excluded(id string) bool {
	return vk.Excluded(id) && os.Getenv("VERIF_C05_NOEXCLUDE") == ""
}

func minU(a, b uint64) uint64 {
	if a < b {
		return a
	}
	return b
}

var _ = errors.Is
