package c05

import (
	"bytes"
	"fmt"
	"sort"

	"verif/internal/stx"
)

// ---------------------------------------------------------------------------
// reference model: committed KV history + the view of one transaction
// (state(upTo) overlaid with the transaction's own earlier writes)

const (
	fExpired = 1 // store.IgnoreExpired
	fDeleted = 2 // store.IgnoreDeleted
)

const (
	stFound = iota
	stNotFound
	stNoMore
)

// own is one write of a read-write transaction (non-transient writes become entries of the tx).
type own struct {
	e         stx.Entry
	transient bool
}

// hist is the per-key list of indexable versions of the whole (final) committed history.
type hist struct {
	n    uint64
	vers map[string][]stx.Ver
	keys [][]byte // all keys with at least one indexable version, sorted
}

func buildHist(m *stx.Model) *hist {
	h := &hist{n: m.N(), vers: map[string][]stx.Ver{}}
	for _, t := range m.Txs {
		for _, e := range t.Entries {
			if e.NonIndexable {
				continue
			}
			vs := h.vers[string(e.Key)]
			h.vers[string(e.Key)] = append(vs, stx.Ver{Tx: t.ID, HC: uint64(len(vs) + 1), E: e})
		}
	}
	for k := range h.vers {
		h.keys = append(h.keys, []byte(k))
	}
	sort.Slice(h.keys, func(i, j int) bool { return bytes.Compare(h.keys[i], h.keys[j]) < 0 })
	return h
}

// latest version of k with ini <= tx <= fin (fin==0: unbounded) among versions up to upTo.
func (h *hist) between(k []byte, upTo, ini, fin uint64) *stx.Ver {
	vs := h.vers[string(k)]
	for i := len(vs) - 1; i >= 0; i-- {
		if vs[i].Tx > upTo {
			continue
		}
		if fin != 0 && vs[i].Tx > fin {
			continue
		}
		if vs[i].Tx < ini {
			return nil
		}
		return &vs[i]
	}
	return nil
}

func (h *hist) latest(k []byte, upTo uint64) *stx.Ver { return h.between(k, upTo, 0, 0) }

// view = state(upTo) + own writes
type view struct {
	h    *hist
	upTo uint64
	own  map[string]own
}

func overlay(ws []own) map[string]own {
	m := map[string]own{}
	for _, w := range ws {
		m[string(w.e.Key)] = w
	}
	return m
}

// keysWith returns the sorted keys (committed up to upTo, or own) having the prefix.
func (v *view) keysWith(prefix []byte) [][]byte {
	var out [][]byte
	seen := map[string]bool{}
	for _, k := range v.h.keys {
		if bytes.HasPrefix(k, prefix) && v.h.latest(k, v.upTo) != nil {
			out = append(out, k)
			seen[string(k)] = true
		}
	}
	extra := false
	for k := range v.own {
		if bytes.HasPrefix([]byte(k), prefix) && !seen[k] {
			out = append(out, []byte(k))
			extra = true
		}
	}
	if extra {
		sort.Slice(out, func(i, j int) bool { return bytes.Compare(out[i], out[j]) < 0 })
	}
	return out
}

// exp is what a read must return.
type exp struct {
	status int
	key    []byte
	isOwn  bool
	ow     own
	ver    stx.Ver
	// own deleted/expired entry read through a filtering point lookup: "not found" is accepted as well
	alsoMiss bool
}

func (e exp) String() string {
	switch e.status {
	case stNotFound:
		return "not-found"
	case stNoMore:
		return "no-more-entries"
	}
	if e.isOwn {
		return fmt.Sprintf("%q=own write %s", e.key, e.ow.e)
	}
	return fmt.Sprintf("%q@tx%d rev%d %s", e.key, e.ver.Tx, e.ver.HC, e.ver.E)
}

func filtered(e stx.Entry, filters int) bool {
	if filters&fExpired != 0 && e.Expire == 1 {
		return true
	}
	if filters&fDeleted != 0 && e.Deleted {
		return true
	}
	return false
}

// get models OngoingTx.GetWithFilters: the filters judge the entry found in the snapshot, which for a
// key written by the transaction is a placeholder without metadata; the pending write is substituted afterwards.
func (v *view) get(k []byte, filters int) exp {
	if w, ok := v.own[string(k)]; ok {
		return exp{status: stFound, key: k, isOwn: true, ow: w, alsoMiss: filtered(w.e, filters)}
	}
	ver := v.h.latest(k, v.upTo)
	if ver == nil || filtered(ver.E, filters) {
		return exp{status: stNotFound}
	}
	return exp{status: stFound, key: k, ver: *ver}
}

// getWithPrefix models OngoingTx.GetWithPrefixAndFilters: the first key under the prefix, greater than neq,
// whose entry passes the filters (committed entries rejected by the filters are skipped, 3a5bcd2); a key
// written by the transaction always passes (see get).
func (v *view) getWithPrefix(prefix, neq []byte, filters int) exp {
	for _, k := range v.keysWith(prefix) {
		if len(neq) > 0 && bytes.Compare(k, neq) <= 0 {
			continue
		}
		if e := v.get(k, filters); e.status == stFound {
			e.alsoMiss = false
			return e
		}
	}
	return exp{status: stNotFound}
}

// rspec is the model of store.KeyReaderSpec.
type rspec struct {
	Prefix, Seek, End []byte
	IncSeek, IncEnd   bool
	Desc              bool
	Filters           int
	Offset            int
}

func (s rspec) String() string {
	return fmt.Sprintf("{prefix=%q seek=%q(%v) end=%q(%v) desc=%v filters=%d off=%d}", s.Prefix, s.Seek, s.IncSeek, s.End, s.IncEnd, s.Desc, s.Filters, s.Offset)
}

func (s rspec) matches(k []byte) bool {
	if !bytes.HasPrefix(k, s.Prefix) {
		return false
	}
	if len(s.Seek) > 0 {
		cmp := bytes.Compare(k, s.Seek)
		if s.Desc && (cmp > 0 || (cmp == 0 && !s.IncSeek)) {
			return false
		}
		if !s.Desc && (cmp < 0 || (cmp == 0 && !s.IncSeek)) {
			return false
		}
	}
	if len(s.End) > 0 {
		cmp := bytes.Compare(k, s.End)
		if s.Desc && (cmp < 0 || (cmp == 0 && !s.IncEnd)) {
			return false
		}
		if !s.Desc && (cmp > 0 || (cmp == 0 && !s.IncEnd)) {
			return false
		}
	}
	return true
}

// candidates are the keys a reader of the view walks over, in reading order.
func (v *view) candidates(s rspec) [][]byte {
	var out [][]byte
	for _, k := range v.keysWith(s.Prefix) {
		if s.matches(k) {
			out = append(out, k)
		}
	}
	if s.Desc {
		for i, j := 0, len(out)-1; i < j; i, j = i+1, j-1 {
			out[i], out[j] = out[j], out[i]
		}
	}
	return out
}

// cursor models one pass (open/reset .. next reset/close) of a key reader of a read-write tx.
type cursor struct {
	v       *view
	s       rspec
	keys    [][]byte
	pos     int
	skipped int
}

func (v *view) cursor(s rspec, skipped int) *cursor {
	return &cursor{v: v, s: s, keys: v.candidates(s), skipped: skipped}
}

// next models Read (ini=fin=0) / ReadBetween.
func (c *cursor) next(ini, fin uint64) exp {
	for c.pos < len(c.keys) {
		k := c.keys[c.pos]
		c.pos++
		var e exp
		if w, ok := c.v.own[string(k)]; ok {
			// (ReadBetween is not generated when the tx wrote under the prefix: the logical time of own writes is not observable)
			if filtered(w.e, c.s.Filters) {
				continue
			}
			e = exp{status: stFound, key: k, isOwn: true, ow: w}
		} else {
			ver := c.v.h.between(k, c.v.upTo, ini, fin)
			if ver == nil || filtered(ver.E, c.s.Filters) {
				continue
			}
			e = exp{status: stFound, key: k, ver: *ver}
		}
		if c.skipped < c.s.Offset {
			c.skipped++
			continue
		}
		return e
	}
	return exp{status: stNoMore}
}

// tuples lists (key, writer tx) of every key of the range, as MarkPrefixScanned fingerprints it.
func (v *view) tuples(s rspec) string {
	var sb bytes.Buffer
	for _, k := range v.candidates(rspec{Prefix: s.Prefix, Seek: s.Seek, End: s.End, IncSeek: s.IncSeek, IncEnd: s.IncEnd, Desc: s.Desc}) {
		if _, ok := v.own[string(k)]; ok {
			fmt.Fprintf(&sb, "%q@own ", k)
			continue
		}
		fmt.Fprintf(&sb, "%q@%d ", k, v.h.latest(k, v.upTo).Tx)
	}
	return sb.String()
}

// ---------------------------------------------------------------------------
// observed results

type res struct {
	status     int
	err        string // unexpected error (neither found / not-found / no-more)
	key        []byte
	isOwn      bool
	tx, hc     uint64
	val        []byte
	resolveErr string
	deleted    bool
	expirable  bool
}

func (r res) String() string {
	switch {
	case r.err != "":
		return "error: " + r.err
	case r.status == stNotFound:
		return "not-found"
	case r.status == stNoMore:
		return "no-more-entries"
	}
	fl := ""
	if r.deleted {
		fl += "D"
	}
	if r.expirable {
		fl += "E"
	}
	if r.isOwn {
		return fmt.Sprintf("%q=own %q%s", r.key, r.val, fl)
	}
	return fmt.Sprintf("%q@tx%d rev%d %q%s", r.key, r.tx, r.hc, r.val, fl)
}

// differs compares an observed result with the expected one ("" when they agree).
func differs(r res, e exp) string {
	if r.err != "" {
		return "unexpected error " + r.err
	}
	if r.status != e.status {
		if e.status == stFound && e.alsoMiss && r.status == stNotFound {
			return ""
		}
		return "outcome differs"
	}
	if e.status != stFound {
		return ""
	}
	if !bytes.Equal(r.key, e.key) {
		return "key differs"
	}
	if r.isOwn != e.isOwn {
		return "own-write/committed differs"
	}
	if e.isOwn {
		if !bytes.Equal(r.val, e.ow.e.Value) || r.resolveErr != "" {
			return "value of own write differs"
		}
		if r.deleted != e.ow.e.Deleted || r.expirable != (e.ow.e.Expire != 0) {
			return "metadata of own write differs"
		}
		return ""
	}
	if r.tx != e.ver.Tx {
		return "writer tx differs"
	}
	if r.hc != e.ver.HC {
		return "revision differs"
	}
	if r.deleted != e.ver.E.Deleted || r.expirable != (e.ver.E.Expire != 0) {
		return "metadata differs"
	}
	if e.ver.E.Expire == 1 {
		if r.resolveErr == "" {
			return "expired entry resolved to a value"
		}
		return ""
	}
	if r.resolveErr != "" || !bytes.Equal(r.val, e.ver.E.Value) {
		return "value differs"
	}
	return ""
}
