// C05 — read-write transactions are serializable in commit order (MVCC, default safe mode).
//
// Generated transaction programs run on one real store; every read a program
// performs is logged with its full result. After the run the committed
// transactions are ordered by the id of the returned header and replayed on a
// reference model: each logged read of a committed read-write transaction must
// equal what the model returns on state(id-1) overlaid with the transaction's
// own earlier writes.
package c05

import (
	"bytes"
	"context"
	"errors"
	"fmt"
	"os"
	"sort"
	"strings"
	"sync"
	"testing"
	"time"

	"github.com/codenotary/immudb/embedded/appendable"
	"github.com/codenotary/immudb/embedded/store"
	"pgregory.net/rapid"

	"verif/internal/stx"
	"verif/internal/vk"
)

func TestMain(m *testing.M) {
	vk.Main(m, vk.Config{
		Property: "C05",
		Rule: "2-5 generated read-write transaction programs (point gets incl. not-found/deleted/expired with every filter combination, GetWithPrefix with exclusion key, key readers asc/desc with seek/end bounds, " +
			"offset, filters, Reset, early stop, ReadBetween, writes while a reader is open, MarkPrefixScanned, Set, Delete, SetTransient; Commit/AsyncCommit/Cancel; snapshot policies any/last-precommitted/fixed/half) " +
			"over 8-16 hot keys of one store (default index, or two prefixed indexes), interleaved step by step by a generated schedule with write-only committers, index flushes and read-only snapshot scanners; " +
			"generated rounds run 2-3 steps (commits, reads, scans) on concurrent goroutines; schedule modes: free interleaving, all programs commit in one concurrent round, programs one after the other (stale snapshots only), " +
			"one read per program then write-only committers then commit; optional lagging indexer (non-adaptive bulk waiting 20 ms). Oracle: serial replay in header-id order on the KV-history model " +
			"(every logged read of a committed tx vs state(id-1)+own writes; tx log = write sets of successful commits only; final index content; read-only scanners see state(t) for some t). " +
			"Non-trivial: >=2 read-write txs with intersecting key footprints reached Commit, and at least one of them committed successfully with >=1 logged read after another transaction committed a write " +
			"into its footprint between its first operation and its commit; distinct by hash of (configuration, executed schedule with all operation parameters).",
		Assumptions: []string{
			"default (safe) MVCC only; UnsafeMVCC, preconditions and tx metadata are not generated",
			"spurious read conflicts are allowed by the property (counted, never failed)",
			"expirations use the fixed instants of stx (2001 / 2999): the wall clock cannot flip a filter outcome",
			"GetWithPrefix(prefix, neq): neq is nil or the smallest key of the key universe under the prefix (the tree skips keys <= neq for the first candidate and keys == neq afterwards; both readings of 'neq' coincide there); it returns the first key under the prefix whose entry passes the filters (store behaviour since 3a5bcd2)",
			"a point lookup of a key the tx itself deleted / wrote as expired may return the own entry or not-found (filters do not see own writes in Get/GetWithPrefix but do in key readers; the property only says own writes are visible); in GetWithPrefix a key written by the tx always passes the filters, as implemented; revision numbers of own uncommitted writes are not asserted",
			"a tx writes while one of its readers is open only immediately before Reset (what an open reader returns after a write of the same tx is tbtree snapshot behaviour, C10); Offset>0 is not combined with Reset (the read-write reader does not re-apply the offset after Reset, the plain one does: undocumented)",
			"ReadBetween is generated only while the tx has no own write under the reader prefix (the logical time of uncommitted writes is not observable)",
			"non-indexable entries are written by write-only committers only; header version 0 cases carry no metadata",
			"index cleanup percentage is 0 and compaction is not run (K10c, a known C10 finding: a cleanup flush breaks open readers/snapshots of the current root)",
			"mapped (secondary) indexes are not generated: only identity indexes (default or prefixed); C04 covers the mapping",
			"MarkPrefixScanned returns nothing to compare: if the tx commits, the (key, writer tx) tuples of the range at state(id-1) must equal those of state(t) for some t not later than the last precommitted tx observed right after the call",
			"a step (commit, read) that does not return within 120 s is reported as a failure (all operations take milliseconds)",
			"findings (pinned probes kept as regressions): " +
				"K05b (fixed in /repo by 77f54d3: a GetWithPrefix answered by an own write that hides a smaller committed key was not failed; the class is generated and validated again); K05a (fixed by 7f9fd6d: probe kept as regression, passes ending with own writes are generated again); K05c (fixed in /repo by 5150a30, its probe is kept as a regression: checkPreconditions returned at the first up-to-date snapshot without validating the snapshots of other indexes) is no longer excluded",
			"not implemented from the design: fsim delays on the indexer's reads (the recorder hooks writes only; lag comes from the bulk wait and from reused dumped roots), mapped indexes, UnsafeMVCC",
		},
		Probes: []vk.Probe{
			{ID: kReaderOwnTail, Present: probeReaderOwnTail},
			{ID: kPrefixOwnFirst, Present: probePrefixOwnFirst},
			{ID: kMultiIdxSkip, Present: probeMultiIdxSkip},
		},
	})
}

// ---------------------------------------------------------------------------

var bodies = []string{"a", "aa", "ab", "aba", "b", "ba", "bb", "c", "ca", "d"}
var subPrefixes = []string{"", "", "a", "ab", "b", "c"}

const (
	txNew = iota
	txActive
	txCommitted
	txConflict
	txCancelled
	txNoEntries
)

type scanCall struct {
	kind     byte // 'r' Read, 'b' ReadBetween, 'R' Reset, 'W' Set + Reset
	ini, fin uint64
	w        own
	out      res
	nw       int
	extra    bool // added at run time (see K05a)
}

type readRec struct {
	kind    string // get, gwp, del, scan, mark
	idx     int    // index (position in world.prefixes) the read goes to
	key     []byte
	prefix  []byte
	neq     []byte
	filters int
	spec    rspec
	calls   []scanCall
	out     res
	nw      int    // number of own writes before the read
	lpAfter uint64 // last precommitted tx right after the operation returned
	lpPre   uint64 // last precommitted tx right before the operation
	err     string
}

type txProg struct {
	n       int
	tx      *store.OngoingTx
	policy  int
	fixed   uint64
	renewal time.Duration
	planned int
	done    int
	// focused mode: number of the operation that is the (only) read
	plannedReadAt int
	writes        []own
	mode          map[string]byte
	reads         []*readRec
	state         int
	hdr           *store.TxHeader
	beginLP       uint64
	firstIdx      int
	wroteIdx      map[int]bool
	finErr        string
	lpFinish      uint64
	touched       map[string]bool // universe keys in the footprint (read, scanned or written)
	ready         bool            // barrier mode: program is over, waiting for the common commit round
	// last precommitted tx right after the first operation (the one that created the first snapshot) returned
	firstDone    bool
	firstLPAfter uint64
}

type commitRec struct {
	id      uint64
	who     string
	entries []stx.Entry
	t       *txProg
}

type scanObs struct {
	idx   int
	ts    uint64 // 0 when unknown (read-only tx)
	known bool
	rows  []res
	err   string
	how   string
}

type world struct {
	rt       *rapid.T
	c        *vk.Case
	cfg      stx.Cfg
	multi    bool
	dir      string
	st       *store.ImmuStore
	prefixes [][]byte
	universe [][][]byte // per index
	txs      []*txProg
	wseq     int
	barrier  bool // all programs finish in one concurrent round at the end
	serial   bool // a started program runs to its end before anything else happens
	slowBulk bool
	focused  bool // 1-2 programs of the shape [own writes] read [write] commit, write-only committers in between

	mu      sync.Mutex
	commits []*commitRec
	scans   []*scanObs
	trace   []string
	infra   []string
}

func (w *world) logf(format string, args ...any) {
	s := fmt.Sprintf(format, args...)
	w.mu.Lock()
	w.trace = append(w.trace, s)
	w.mu.Unlock()
}

func (w *world) dump() map[string]any {
	w.mu.Lock()
	defer w.mu.Unlock()
	return map[string]any{"cfg": w.cfg.String(), "multi": w.multi, "trace": append([]string(nil), w.trace...)}
}

func filterFns(mask int) []store.FilterFn {
	var f []store.FilterFn
	if mask&fExpired != 0 {
		f = append(f, store.IgnoreExpired)
	}
	if mask&fDeleted != 0 {
		f = append(f, store.IgnoreDeleted)
	}
	return f
}

func capture(key []byte, ref store.ValueRef, err error) res {
	switch {
	case err == nil:
	case errors.Is(err, store.ErrKeyNotFound):
		return res{status: stNotFound}
	case errors.Is(err, store.ErrNoMoreEntries):
		return res{status: stNoMore}
	default:
		return res{err: err.Error()}
	}
	r := res{status: stFound, key: append([]byte(nil), key...), tx: ref.Tx(), hc: ref.HC(), isOwn: ref.Tx() == 0}
	v, rerr := ref.Resolve()
	r.val = append([]byte(nil), v...)
	if rerr != nil {
		r.resolveErr = rerr.Error()
	}
	if md := ref.KVMetadata(); md != nil {
		r.deleted = md.Deleted()
		r.expirable = md.IsExpirable()
	}
	return r
}

// ---------------------------------------------------------------------------
// generators (all draws happen on the rapid goroutine, before a step is executed)

func (w *world) idxOf(key []byte) int {
	for i, p := range w.prefixes {
		if bytes.HasPrefix(key, p) {
			return i
		}
	}
	return 0
}

func (w *world) genIdx(label string) int {
	if len(w.prefixes) == 1 {
		return 0
	}
	return rapid.IntRange(0, len(w.prefixes)-1).Draw(w.rt, label)
}

func (w *world) genKeyIn(idx int, label string) []byte {
	u := w.universe[idx]
	return u[rapid.IntRange(0, len(u)-1).Draw(w.rt, label)]
}

func (w *world) genKey(label string) []byte { return w.genKeyIn(w.genIdx(label+"Idx"), label) }

func (w *world) genSubPrefix(idx int, label string) []byte {
	sub := rapid.SampledFrom(subPrefixes).Draw(w.rt, label)
	return append(append([]byte{}, w.prefixes[idx]...), sub...)
}

func (w *world) genMD(label string) (deleted bool, expire int) {
	if w.cfg.HdrVersion == 0 {
		return false, 0
	}
	switch rapid.IntRange(0, 11).Draw(w.rt, label) {
	case 0, 1:
		return true, 0
	case 2:
		return false, 1
	case 3:
		return false, 2
	}
	return false, 0
}

func (t *txProg) wroteUnder(prefix []byte) bool {
	for _, wr := range t.writes {
		if bytes.HasPrefix(wr.e.Key, prefix) {
			return true
		}
	}
	return false
}

func (w *world) touch(t *txProg, pred func(k []byte) bool) {
	for _, u := range w.universe {
		for _, k := range u {
			if pred(k) {
				t.touched[string(k)] = true
			}
		}
	}
}

func (w *world) genSpec(idx int, scanLike bool) rspec {
	rt := w.rt
	s := rspec{Prefix: w.genSubPrefix(idx, "rdPrefix")}
	if !w.multi && rapid.IntRange(0, 4).Draw(rt, "rdNilPrefix") == 0 {
		s.Prefix = nil
	}
	s.Desc = rapid.Bool().Draw(rt, "rdDesc")
	pick := func(label string) []byte {
		if rapid.IntRange(0, 2).Draw(rt, label+"Nil") > 0 {
			return nil
		}
		k := w.genKeyIn(idx, label)
		if rapid.IntRange(0, 3).Draw(rt, label+"Mod") == 0 {
			k = append(append([]byte{}, k...), '!') // between two keys of the universe
		}
		return k
	}
	s.Seek = pick("rdSeek")
	s.End = pick("rdEnd")
	s.IncSeek = rapid.Bool().Draw(rt, "rdIncSeek")
	s.IncEnd = rapid.Bool().Draw(rt, "rdIncEnd")
	if scanLike {
		s.Filters = rapid.SampledFrom([]int{3, 3, 0, 1, 2}).Draw(rt, "rdFilters")
		s.Offset = rapid.SampledFrom([]int{0, 0, 0, 1, 2}).Draw(rt, "rdOffset")
	}
	return s
}

func (s rspec) store() store.KeyReaderSpec {
	return store.KeyReaderSpec{Prefix: s.Prefix, SeekKey: s.Seek, EndKey: s.End, InclusiveSeek: s.IncSeek, InclusiveEnd: s.IncEnd,
		DescOrder: s.Desc, Filters: filterFns(s.Filters), Offset: uint64(s.Offset)}
}

// begin creates the store transaction of a program (no snapshot is taken yet).
func (w *world) begin(t *txProg) error {
	opts := &store.TxOptions{Mode: store.ReadWriteTx, SnapshotRenewalPeriod: t.renewal}
	switch t.policy {
	case 1:
		opts.SnapshotMustIncludeTxID = func(lp uint64) uint64 { return lp }
	case 2:
		fixed := t.fixed
		opts.SnapshotMustIncludeTxID = func(lp uint64) uint64 {
			if fixed < lp {
				return fixed
			}
			return lp
		}
	case 3:
		opts.SnapshotMustIncludeTxID = func(lp uint64) uint64 { return lp / 2 }
	}
	tx, err := w.st.NewTx(context.Background(), opts)
	if err != nil {
		return err
	}
	t.tx = tx
	t.state = txActive
	t.beginLP = w.st.LastPrecommittedTxID()
	return nil
}

type step struct {
	t      *txProg // program the step belongs to (nil for writers, flushes, scanners)
	desc   string
	run    func() // executed on its own goroutine when the round has several steps
	commit bool
	label  []string
}

func (w *world) newEntry(t *txProg, key []byte) stx.Entry {
	del, exp := w.genMD("setMD")
	e := stx.Entry{Key: key, Deleted: del, Expire: exp}
	e.Value = []byte(fmt.Sprintf("t%d.%d", t.n, len(t.writes)+t.done))
	if rapid.IntRange(0, 9).Draw(w.rt, "emptyVal") == 0 {
		e.Value = nil
	}
	return e
}

// genTxStep draws the next operation of program t.
func (w *world) genTxStep(t *txProg) *step {
	s := w.genTxStep0(t)
	s.t = t
	return s
}

func (w *world) genTxStep0(t *txProg) *step {
	rt := w.rt
	ctx := context.Background()
	st := w.st
	if t.state == txNew {
		t.policy = rapid.SampledFrom([]int{0, 0, 1, 1, 2, 3, 4, 4}).Draw(rt, "snapPolicy")
		t.fixed = uint64(rapid.IntRange(0, 12).Draw(rt, "snapFixed"))
		if t.policy == 4 {
			// "must include what I have seen so far": a tx id shortly before the current one
			t.policy = 2
			t.fixed = 0
			if lp, d := st.LastPrecommittedTxID(), uint64(rapid.IntRange(0, 2).Draw(rt, "snapBack")); lp > d {
				t.fixed = lp - d
			}
		}
		t.renewal = rapid.SampledFrom([]time.Duration{0, 0, 0, time.Nanosecond, time.Hour}).Draw(rt, "renewal")
		t.planned = rapid.IntRange(1, 6).Draw(rt, "progLen")
		if w.focused {
			t.planned = rapid.IntRange(1, 3).Draw(rt, "focusedLen")
			t.plannedReadAt = t.planned
		}
		if err := w.begin(t); err != nil {
			w.c.Failf(rt, w.dump(), "NewTx: %v", err)
		}
		if rapid.IntRange(0, 24).Draw(rt, "requireMVCC") == 0 {
			// as catalog-changing SQL txs do: later snapshots must include this tx
			t.tx.RequireMVCCOnFollowingTxs(true)
			w.c.Label("require-mvcc-on-following-txs")
		}
		w.c.Descf("T%d{p%d/%d}", t.n, t.policy, t.fixed)
	}
	if t.done >= t.planned {
		hasEntry := false
		for _, wr := range t.writes {
			hasEntry = hasEntry || !wr.transient
		}
		if hasEntry || t.planned > 6 || rapid.IntRange(0, 7).Draw(rt, "finishWithoutEntries") == 0 {
			if w.barrier {
				t.ready = true // finishes together with the other programs, in one concurrent round
				return w.genNoop(t, "ready")
			}
			return w.genFinish(t)
		}
		t.planned++ // one more operation: a write (a tx without entries cannot commit)
		t.done++
		return w.genSet(t, t.firstIdx < 0)
	}
	t.done++
	first := t.firstIdx < 0
	setFirst := func(idx int) {
		if first {
			t.firstIdx = idx
		}
	}
	kinds := []string{"get", "get", "get", "gwp", "gwp", "scan", "scan", "scan", "mark", "set", "set", "set", "del", "trans"}
	if w.focused {
		// own writes first, then exactly one read; write-only committers run before the commit
		kinds = []string{"set", "set", "trans", "del"}
		if t.done == t.plannedReadAt {
			kinds = []string{"get", "gwp", "gwp", "scan", "scan", "scan", "mark"}
		}
	}
	kind := rapid.SampledFrom(kinds).Draw(rt, "op")
	switch kind {
	case "get":
		key := w.genKey("getKey")
		mode := rapid.SampledFrom([]int{-1, -1, 0, 1, 2, 3}).Draw(rt, "getFilters")
		rec := &readRec{kind: "get", key: key, filters: mode, nw: len(t.writes), idx: w.idxOf(key)}
		if mode < 0 {
			rec.filters = fExpired | fDeleted
		}
		setFirst(rec.idx)
		t.touched[string(key)] = true
		w.c.Descf("T%d.get(%s,%d)", t.n, key, mode)
		return &step{desc: fmt.Sprintf("T%d get %q filters=%d", t.n, key, mode), run: func() {
			rec.lpPre = st.LastPrecommittedTxID()
			var ref store.ValueRef
			var err error
			if mode < 0 {
				ref, err = t.tx.Get(ctx, key)
			} else {
				ref, err = t.tx.GetWithFilters(ctx, key, filterFns(mode)...)
			}
			rec.out = capture(key, ref, err)
			rec.lpAfter = st.LastPrecommittedTxID()
			t.reads = append(t.reads, rec)
			w.logf("T%d Get(%q, filters=%d) -> %s", t.n, key, mode, rec.out)
		}}
	case "gwp":
		idx := w.genIdx("gwpIdx")
		prefix := w.genSubPrefix(idx, "gwpPrefix")
		var neq []byte
		if rapid.IntRange(0, 2).Draw(rt, "gwpNeq") == 0 {
			for _, k := range w.universe[idx] { // sorted: the smallest key of the universe under the prefix
				if bytes.HasPrefix(k, prefix) {
					neq = k
					break
				}
			}
		}
		mode := rapid.SampledFrom([]int{-1, -1, 0, 1, 2, 3}).Draw(rt, "gwpFilters")
		rec := &readRec{kind: "gwp", prefix: prefix, neq: neq, filters: mode, nw: len(t.writes), idx: idx}
		if mode < 0 {
			rec.filters = fExpired | fDeleted
		}
		setFirst(idx)
		w.touch(t, func(k []byte) bool { return bytes.HasPrefix(k, prefix) })
		w.c.Descf("T%d.gwp(%s,%s,%d)", t.n, prefix, neq, mode)
		return &step{desc: fmt.Sprintf("T%d gwp %q neq=%q", t.n, prefix, neq), run: func() {
			rec.lpPre = st.LastPrecommittedTxID()
			var k []byte
			var ref store.ValueRef
			var err error
			if mode < 0 {
				k, ref, err = t.tx.GetWithPrefix(ctx, prefix, neq)
			} else {
				k, ref, err = t.tx.GetWithPrefixAndFilters(ctx, prefix, neq, filterFns(mode)...)
			}
			rec.out = capture(k, ref, err)
			rec.lpAfter = st.LastPrecommittedTxID()
			t.reads = append(t.reads, rec)
			w.logf("T%d GetWithPrefix(%q, neq=%q, filters=%d) -> %s", t.n, prefix, neq, mode, rec.out)
		}}
	case "scan":
		idx := w.genIdx("scanIdx")
		spec := w.genSpec(idx, true)
		rec := &readRec{kind: "scan", spec: spec, nw: len(t.writes), idx: idx}
		setFirst(idx)
		w.touch(t, func(k []byte) bool { return w.idxOf(k) == idx && bytes.HasPrefix(k, spec.Prefix) })
		ncalls := rapid.IntRange(0, 7).Draw(rt, "scanCalls")
		ownUnder := t.wroteUnder(spec.Prefix)
		resetAt := -1
		if ncalls > 1 && rapid.IntRange(0, 2).Draw(rt, "scanReset") == 0 {
			resetAt = rapid.IntRange(1, ncalls-1).Draw(rt, "scanResetAt")
			rec.spec.Offset, spec.Offset = 0, 0
		}
		for i := 0; i < ncalls; i++ {
			if i == resetAt {
				if rapid.IntRange(0, 1).Draw(rt, "scanWriteBeforeReset") == 0 {
					key := w.genKeyIn(idx, "scanWriteKey")
					if t.mode[string(key)] != 't' {
						e := w.newEntry(t, key)
						t.mode[string(key)] = 'n'
						t.writes = append(t.writes, own{e: e})
						t.wroteIdx[idx] = true
						t.touched[string(key)] = true
						rec.calls = append(rec.calls, scanCall{kind: 'W', w: own{e: e}})
						if bytes.HasPrefix(key, spec.Prefix) {
							ownUnder = true
						}
						continue
					}
				}
				rec.calls = append(rec.calls, scanCall{kind: 'R'})
				continue
			}
			if !ownUnder && rapid.IntRange(0, 3).Draw(rt, "scanBetween") == 0 {
				ini := uint64(rapid.IntRange(0, 8).Draw(rt, "scanIni"))
				fin := ini + uint64(rapid.IntRange(0, 10).Draw(rt, "scanFin"))
				if fin == 0 {
					fin = 1
				}
				rec.calls = append(rec.calls, scanCall{kind: 'b', ini: ini, fin: fin})
				continue
			}
			rec.calls = append(rec.calls, scanCall{kind: 'r'})
		}
		var sb strings.Builder
		for _, cl := range rec.calls {
			sb.WriteByte(cl.kind)
			if cl.kind == 'b' {
				fmt.Fprintf(&sb, "%d-%d", cl.ini, cl.fin)
			}
			if cl.kind == 'W' {
				fmt.Fprintf(&sb, "(%s)", cl.w.e)
			}
		}
		w.c.Descf("T%d.scan(%s,%s)", t.n, spec, sb.String())
		nw0 := rec.nw
		return &step{desc: fmt.Sprintf("T%d scan %s %s", t.n, spec, sb.String()), run: func() {
			rec.lpPre = st.LastPrecommittedTxID()
			t.reads = append(t.reads, rec)
			r, err := t.tx.NewKeyReader(spec.store())
			if err != nil {
				rec.err = "NewKeyReader: " + err.Error()
				w.logf("T%d NewKeyReader(%s): %v", t.n, spec, err)
				return
			}
			nw := nw0
			planned := rec.calls
			rec.calls = make([]scanCall, 0, len(planned)+4)
			// known finding K05a: a pass whose recorded reads end with own writes is not validated. While the probe
			// fires, such a pass is not generated: it goes on reading until a committed entry or the end is returned.
			completePass := func() {
				for excluded(kReaderOwnTail) && len(rec.calls) > 0 {
					last := rec.calls[len(rec.calls)-1]
					if (last.kind != 'r' && last.kind != 'b') || last.out.status != stFound || !last.out.isOwn {
						return
					}
					vk.CountExcluded(kReaderOwnTail)
					k, ref, err := r.Read(ctx)
					rec.calls = append(rec.calls, scanCall{kind: 'r', nw: nw, out: capture(k, ref, err), extra: true})
				}
			}
			for i := range planned {
				cl := &planned[i]
				cl.nw = nw
				if cl.kind == 'R' || cl.kind == 'W' {
					completePass()
				}
				switch cl.kind {
				case 'r':
					k, ref, err := r.Read(ctx)
					cl.out = capture(k, ref, err)
				case 'b':
					k, ref, err := r.ReadBetween(ctx, cl.ini, cl.fin)
					cl.out = capture(k, ref, err)
				case 'W':
					if err := t.tx.Set(cl.w.e.Key, cl.w.e.MD(), cl.w.e.Value); err != nil {
						cl.out = res{err: "Set: " + err.Error()}
					}
					nw++
					fallthrough
				case 'R':
					if err := r.Reset(); err != nil {
						cl.out = res{err: "Reset: " + err.Error()}
					}
				}
				rec.calls = append(rec.calls, *cl)
			}
			completePass()
			if err := r.Close(); err != nil {
				rec.err = "reader Close: " + err.Error()
			}
			rec.lpAfter = st.LastPrecommittedTxID()
			var sb strings.Builder
			for _, cl := range rec.calls {
				switch cl.kind {
				case 'r':
					fmt.Fprintf(&sb, " Read->%s;", cl.out)
				case 'b':
					fmt.Fprintf(&sb, " ReadBetween(%d,%d)->%s;", cl.ini, cl.fin, cl.out)
				case 'R':
					sb.WriteString(" Reset;")
				case 'W':
					fmt.Fprintf(&sb, " Set(%s)+Reset;", cl.w.e)
				}
			}
			w.logf("T%d reader %s:%s", t.n, spec, sb.String())
		}}
	case "mark":
		idx := w.genIdx("markIdx")
		spec := w.genSpec(idx, false)
		rec := &readRec{kind: "mark", spec: spec, nw: len(t.writes), idx: idx}
		setFirst(idx)
		w.touch(t, func(k []byte) bool { return w.idxOf(k) == idx && bytes.HasPrefix(k, spec.Prefix) })
		w.c.Descf("T%d.mark(%s)", t.n, spec)
		return &step{desc: fmt.Sprintf("T%d mark %s", t.n, spec), run: func() {
			rec.lpPre = st.LastPrecommittedTxID()
			if err := t.tx.MarkPrefixScanned(ctx, spec.store()); err != nil {
				rec.err = "MarkPrefixScanned: " + err.Error()
			}
			rec.lpAfter = st.LastPrecommittedTxID()
			t.reads = append(t.reads, rec)
			w.logf("T%d MarkPrefixScanned(%s) err=%q", t.n, spec, rec.err)
		}}
	case "set":
		return w.genSet(t, first)
	case "del":
		key := w.genKey("delKey")
		if t.mode[string(key)] == 't' || w.cfg.HdrVersion == 0 {
			return w.genNoop(t, "del-skipped")
		}
		rec := &readRec{kind: "del", key: key, filters: fExpired | fDeleted, nw: len(t.writes), idx: w.idxOf(key)}
		setFirst(rec.idx)
		t.touched[string(key)] = true
		// the write happens only when the key is found: decided at run time, recorded before the next draw
		w.c.Descf("T%d.del(%s)", t.n, key)
		return &step{desc: fmt.Sprintf("T%d delete %q", t.n, key), run: func() {
			rec.lpPre = st.LastPrecommittedTxID()
			err := t.tx.Delete(ctx, key)
			switch {
			case err == nil:
				rec.out = res{status: stFound, key: key}
				t.writes = append(t.writes, own{e: stx.Entry{Key: key, Deleted: true}})
				t.mode[string(key)] = 'n'
				t.wroteIdx[rec.idx] = true
			case errors.Is(err, store.ErrKeyNotFound):
				rec.out = res{status: stNotFound}
			default:
				rec.out = res{err: err.Error()}
			}
			rec.lpAfter = st.LastPrecommittedTxID()
			t.reads = append(t.reads, rec)
			w.logf("T%d Delete(%q) -> %v", t.n, key, err)
		}}
	case "trans":
		key := w.genKey("transKey")
		if t.mode[string(key)] == 'n' {
			return w.genNoop(t, "trans-skipped")
		}
		e := stx.Entry{Key: key, Value: []byte(fmt.Sprintf("t%d.%d~", t.n, len(t.writes)+t.done))}
		if w.cfg.HdrVersion != 0 && rapid.IntRange(0, 4).Draw(rt, "transDel") == 0 {
			e.Deleted = true
		}
		t.mode[string(key)] = 't'
		t.writes = append(t.writes, own{e: e, transient: true})
		idx := w.idxOf(key)
		setFirst(idx)
		t.wroteIdx[idx] = true
		t.touched[string(key)] = true
		w.c.Descf("T%d.trans(%s)", t.n, e)
		return &step{desc: fmt.Sprintf("T%d transient %s", t.n, e), run: func() {
			err := t.tx.SetTransient(key, e.MD(), e.Value)
			if err != nil {
				w.mu.Lock()
				w.infra = append(w.infra, fmt.Sprintf("T%d: SetTransient(%s): %v", t.n, e, err))
				w.mu.Unlock()
			}
			w.logf("T%d SetTransient(%s) err=%v", t.n, e, err)
		}}
	}
	panic("unreachable")
}

// genSet draws a Set of program t.
func (w *world) genSet(t *txProg, first bool) *step {
	setFirst := func(idx int) {
		if first {
			t.firstIdx = idx
		}
	}
	key := w.genKey("setKey")
	if t.mode[string(key)] == 't' {
		// a key written as transient cannot become a regular entry: the store must refuse
		w.c.Descf("T%d.setAfterTransient(%s)", t.n, key)
		return &step{desc: fmt.Sprintf("T%d set %q after transient", t.n, key), run: func() {
			err := t.tx.Set(key, nil, []byte("x"))
			if !errors.Is(err, store.ErrCannotUpdateKeyTransiency) {
				w.mu.Lock()
				w.infra = append(w.infra, fmt.Sprintf("T%d: Set(%q) after SetTransient of the same key returned %v", t.n, key, err))
				w.mu.Unlock()
			}
			w.logf("T%d Set(%q) after SetTransient -> %v", t.n, key, err)
		}}
	}
	e := w.newEntry(t, key)
	t.mode[string(key)] = 'n'
	t.writes = append(t.writes, own{e: e})
	idx := w.idxOf(key)
	setFirst(idx)
	t.wroteIdx[idx] = true
	t.touched[string(key)] = true
	w.c.Descf("T%d.set(%s)", t.n, e)
	return &step{desc: fmt.Sprintf("T%d set %s", t.n, e), run: func() {
		err := t.tx.Set(key, e.MD(), e.Value)
		if err != nil {
			w.mu.Lock()
			w.infra = append(w.infra, fmt.Sprintf("T%d: Set(%s): %v", t.n, e, err))
			w.mu.Unlock()
		}
		w.logf("T%d Set(%s) err=%v", t.n, e, err)
	}}
}

func (w *world) genNoop(t *txProg, why string) *step {
	w.c.Descf("T%d.%s", t.n, why)
	return &step{desc: fmt.Sprintf("T%d %s", t.n, why), run: func() {}}
}

func (w *world) genFinish(t *txProg) *step {
	ctx := context.Background()
	how := rapid.SampledFrom([]string{"commit", "commit", "commit", "commit", "async", "async", "async", "cancel"}).Draw(w.rt, "finish")
	w.c.Descf("T%d.%s", t.n, how)
	if how == "cancel" {
		return &step{desc: fmt.Sprintf("T%d cancel", t.n), run: func() {
			err := t.tx.Cancel()
			t.state = txCancelled
			if err != nil {
				t.finErr = err.Error()
			}
			w.logf("T%d Cancel err=%v", t.n, err)
		}}
	}
	return &step{desc: fmt.Sprintf("T%d %s", t.n, how), commit: true, run: func() {
		var hdr *store.TxHeader
		var err error
		if how == "commit" {
			hdr, err = t.tx.Commit(ctx)
		} else {
			hdr, err = t.tx.AsyncCommit(ctx)
		}
		t.lpFinish = w.st.LastPrecommittedTxID()
		switch {
		case err == nil:
			t.state = txCommitted
			t.hdr = hdr
			var entries []stx.Entry
			for _, wr := range t.writes {
				if !wr.transient {
					entries = append(entries, wr.e)
				}
			}
			w.mu.Lock()
			w.commits = append(w.commits, &commitRec{id: hdr.ID, who: fmt.Sprintf("T%d", t.n), entries: stx.Dedup(entries), t: t})
			w.mu.Unlock()
			w.logf("T%d %s -> tx %d", t.n, how, hdr.ID)
		case errors.Is(err, store.ErrTxReadConflict):
			t.state = txConflict
			w.logf("T%d %s -> read conflict (%v)", t.n, how, err)
		case errors.Is(err, store.ErrNoEntriesProvided):
			t.state = txNoEntries
			w.logf("T%d %s -> no entries", t.n, how)
		default:
			t.state = txConflict
			t.finErr = err.Error()
			w.logf("T%d %s -> unexpected error %v", t.n, how, err)
		}
	}}
}

// genWriter: a write-only committer.
func (w *world) genWriter() *step {
	rt := w.rt
	w.wseq++
	seq := w.wseq
	n := rapid.SampledFrom([]int{1, 1, 1, 2, 3}).Draw(rt, "wN")
	var entries []stx.Entry
	for i := 0; i < n; i++ {
		key := w.genKey("wKey")
		del, exp := w.genMD("wMD")
		e := stx.Entry{Key: key, Deleted: del, Expire: exp, Value: []byte(fmt.Sprintf("w%d.%d", seq, i))}
		if w.cfg.HdrVersion != 0 && rapid.IntRange(0, 14).Draw(rt, "wNonIdx") == 0 {
			e.NonIndexable = true
		}
		entries = append(entries, e)
	}
	entries = stx.Dedup(entries)
	wait := rapid.Bool().Draw(rt, "wWaitIdx")
	w.c.Descf("W%v/%v", entries, wait)
	return &step{desc: fmt.Sprintf("W%d %v wait=%v", seq, entries, wait), commit: true, run: func() {
		hdr, err := stx.Commit(w.st, entries, wait)
		if err != nil {
			w.mu.Lock()
			w.infra = append(w.infra, fmt.Sprintf("write-only commit of %v: %v", entries, err))
			w.mu.Unlock()
			w.logf("W%d commit error %v", seq, err)
			return
		}
		w.mu.Lock()
		w.commits = append(w.commits, &commitRec{id: hdr.ID, who: fmt.Sprintf("W%d", seq), entries: entries})
		w.mu.Unlock()
		w.logf("W%d %v -> tx %d", seq, entries, hdr.ID)
	}}
}

func (w *world) genFlush() *step {
	synced := rapid.Bool().Draw(w.rt, "flushSynced")
	w.c.Descf("F%v", synced)
	return &step{desc: "flush", run: func() {
		if err := w.st.FlushIndexes(0, synced); err != nil {
			w.mu.Lock()
			w.infra = append(w.infra, "FlushIndexes: "+err.Error())
			w.mu.Unlock()
		}
		w.logf("FlushIndexes")
	}}
}

// genScanner: a read-only observer of one index; what it sees must be state(t) for some t.
func (w *world) genScanner() *step {
	rt := w.rt
	idx := w.genIdx("scIdx")
	how := rapid.SampledFrom([]string{"snap-any", "snap-last", "ro-any", "ro-last"}).Draw(rt, "scHow")
	w.c.Descf("S%d%s", idx, how)
	return &step{desc: "scanner " + how, run: func() {
		ctx := context.Background()
		obs := &scanObs{idx: idx, how: how}
		prefix := w.prefixes[idx]
		var reader store.KeyReader
		var closer func()
		switch how {
		case "snap-any", "snap-last":
			var must uint64
			if how == "snap-last" {
				must = w.st.LastCommittedTxID()
			}
			snap, err := w.st.SnapshotMustIncludeTxIDWithRenewalPeriod(ctx, prefix, must, 0)
			if err != nil {
				obs.err = err.Error()
				break
			}
			obs.ts, obs.known = snap.Ts(), true
			r, err := snap.NewKeyReader(store.KeyReaderSpec{Prefix: prefix})
			if err != nil {
				snap.Close()
				obs.err = err.Error()
				break
			}
			reader, closer = r, func() { r.Close(); snap.Close() }
		default:
			opts := &store.TxOptions{Mode: store.ReadOnlyTx}
			if how == "ro-last" {
				opts.SnapshotMustIncludeTxID = func(lp uint64) uint64 { return lp }
			}
			tx, err := w.st.NewTx(ctx, opts)
			if err != nil {
				obs.err = err.Error()
				break
			}
			r, err := tx.NewKeyReader(store.KeyReaderSpec{Prefix: prefix})
			if err != nil {
				tx.Cancel()
				obs.err = err.Error()
				break
			}
			reader, closer = r, func() { r.Close(); tx.Cancel() }
		}
		if reader != nil {
			for {
				k, ref, err := reader.Read(ctx)
				o := capture(k, ref, err)
				if o.status == stNoMore {
					break
				}
				obs.rows = append(obs.rows, o)
				if o.err != "" || len(obs.rows) > 100 {
					break
				}
			}
			closer()
		}
		w.mu.Lock()
		w.scans = append(w.scans, obs)
		w.mu.Unlock()
		w.logf("scanner %s idx=%d ts=%d rows=%d err=%q", how, idx, obs.ts, len(obs.rows), obs.err)
	}}
}

// runRound executes the steps of a round, concurrently when there are several.
func (w *world) runRound(steps []*step) {
	if len(steps) == 1 {
		w.guard(steps[0])
		return
	}
	w.logf("-- concurrent round: %d steps", len(steps))
	var wg sync.WaitGroup
	gate := make(chan struct{})
	for _, s := range steps {
		wg.Add(1)
		go func(s *step) {
			defer wg.Done()
			<-gate
			w.guard(s)
		}(s)
	}
	close(gate)
	done := make(chan struct{})
	go func() { wg.Wait(); close(done) }()
	select {
	case <-done:
	case <-time.After(120 * time.Second):
		var ds []string
		for _, s := range steps {
			ds = append(ds, s.desc)
		}
		w.c.Failf(w.rt, w.dump(), "a step of the concurrent round %v did not return within 120 s", ds)
	}
	w.logf("-- end of round")
}

func (w *world) guard(s *step) {
	defer func() {
		if t := s.t; t != nil && !t.firstDone && t.firstIdx >= 0 {
			t.firstDone = true
			t.firstLPAfter = w.st.LastPrecommittedTxID()
		}
	}()
	defer func() {
		if r := recover(); r != nil {
			w.mu.Lock()
			w.infra = append(w.infra, fmt.Sprintf("panic in step %q: %v", s.desc, r))
			w.mu.Unlock()
		}
	}()
	s.run()
}

func (w *world) open() {
	opts := w.cfg.Options().WithCompactionDisabled(true)
	if w.slowBulk {
		// a non-adaptive indexer waits this long for a bulk to fill up: the index lags behind every commit
		opts.IndexOpts.WithBulkPreparationTimeout(20 * time.Millisecond)
	}
	st, err := store.Open(w.dir, opts)
	if err != nil {
		w.c.Failf(w.rt, nil, "store.Open: %v", err)
	}
	w.st = st
	if w.multi {
		for _, p := range w.prefixes {
			if err := st.InitIndexing(&store.IndexSpec{SourcePrefix: p, TargetPrefix: p}); err != nil {
				w.c.Failf(w.rt, nil, "InitIndexing(%q): %v", p, err)
			}
		}
	}
}

func genWorld(rt *rapid.T, c *vk.Case) *world {
	cfg := stx.GenCfg(rt)
	cfg.Synced = rapid.IntRange(0, 7).Draw(rt, "syncedStore") == 0
	cfg.CleanupPct = 0
	cfg.Compression = appendable.NoCompression // irrelevant here, and a compressor is allocated per appended value
	cfg.MaxActiveTx = 1000
	cfg.MaxKeyLen, cfg.MaxValueLen, cfg.MaxTxEntries = 64, 64, 64
	cfg.FileSize = rapid.SampledFrom([]int{512, 4096, 1 << 20}).Draw(rt, "fileSize2")
	if rapid.IntRange(0, 9).Draw(rt, "hdr0") != 0 {
		cfg.HdrVersion = 1
	}
	cfg.FlushThld = rapid.SampledFrom([]int{1, 2, 5, 100000, 100000}).Draw(rt, "flushThld2")
	cfg.SyncThld = cfg.FlushThld
	w := &world{rt: rt, c: c, cfg: cfg}
	if cfg.BulkSize > 1 && !cfg.AdaptiveBulk {
		w.slowBulk = rapid.IntRange(0, 3).Draw(rt, "slowBulk") == 0
	}
	w.multi = rapid.Bool().Draw(rt, "multiIndexing")
	w.cfg.MultiIndexing = w.multi
	if w.multi {
		w.prefixes = [][]byte{[]byte("A"), []byte("B")}
	} else {
		// the default index has no prefix; all keys of the case start with "k"
		w.prefixes = [][]byte{[]byte("k")}
	}
	for i := range w.prefixes {
		kp := w.prefixes[i]
		n := rapid.IntRange(4, 8).Draw(rt, "universeSize")
		picked := map[string]bool{}
		var u [][]byte
		for len(u) < n {
			b := bodies[rapid.IntRange(0, len(bodies)-1).Draw(rt, "universeBody")]
			if picked[b] {
				// take the next free one: construction, not rejection
				for _, b2 := range bodies {
					if !picked[b2] {
						b = b2
						break
					}
				}
			}
			picked[b] = true
			u = append(u, append(append([]byte{}, kp...), b...))
		}
		sort.Slice(u, func(a, b int) bool { return bytes.Compare(u[a], u[b]) < 0 })
		w.universe = append(w.universe, u)
	}
	return w
}

func TestSerializable(t *testing.T) {
	vk.Check(t, 2000, 120000, func(rt *rapid.T, c *vk.Case) {
		w := genWorld(rt, c)
		c.Descf("cfg=%s multi=%v slowBulk=%v U=%q", w.cfg, w.multi, w.slowBulk, w.universe)
		w.dir = vk.Dir()
		defer os.RemoveAll(w.dir)
		w.open()
		defer func() {
			if w.st != nil {
				w.st.Close()
			}
		}()
		w.runSchedule()
		w.verify()
	})
}

func (w *world) runSchedule() {
	rt := w.rt
	maxProg, maxRounds := 5, 60
	if vk.Thorough() {
		maxProg, maxRounds = 6, 90
	}
	nProg := rapid.IntRange(2, maxProg).Draw(rt, "programs")
	for i := 0; i < nProg; i++ {
		w.txs = append(w.txs, &txProg{n: i + 1, mode: map[string]byte{}, firstIdx: -1, wroteIdx: map[int]bool{}, touched: map[string]bool{}})
	}
	switch rapid.SampledFrom([]string{"free", "free", "free", "barrier", "barrier", "serial", "focused", "focused"}).Draw(rt, "scheduleMode") {
	case "focused":
		// one read per program, then concurrent commits into its neighbourhood, then the commit:
		// a successful commit means the validation judged this one read still valid
		w.barrier, w.focused = true, true
		if len(w.txs) > 3 {
			w.txs = w.txs[:rapid.IntRange(2, 3).Draw(rt, "focusedPrograms")]
		}
		w.c.Descf("focused")
		w.c.Label("mode-one-read-then-writers")
	case "barrier":
		// every program finishes in the same concurrent round: the commit critical sections race for real
		w.barrier = true
		w.c.Descf("barrier")
		w.c.Label("mode-all-commit-in-one-round")
	case "serial":
		// programs run one after the other, without interleaving (only snapshots can be stale)
		w.serial = true
		w.c.Descf("serial")
		w.c.Label("mode-serial-programs")
	default:
		w.c.Label("mode-free-interleaving")
	}
	// initial content
	for i, n := 0, rapid.IntRange(0, 4).Draw(rt, "preload"); i < n; i++ {
		w.runRound([]*step{w.genWriter()})
	}
	writers, concurrentRounds, commitRaces := 0, 0, 0
	for round := 0; round < maxRounds; round++ {
		var alive []*txProg
		for _, t := range w.txs {
			if (t.state == txNew || t.state == txActive) && !t.ready {
				alive = append(alive, t)
			}
		}
		if len(alive) == 0 {
			break
		}
		if w.serial {
			var running *txProg
			for _, t := range alive {
				if t.state == txActive {
					running = t
				}
			}
			if running != nil {
				w.runRound([]*step{w.genTxStep(running)})
				continue
			}
		}
		k := rapid.SampledFrom([]int{1, 1, 1, 1, 2, 2, 3}).Draw(rt, "roundSize")
		if w.serial {
			k = 1
		}
		var steps []*step
		used := map[int]bool{}
		usedW, usedF := false, false
		for len(steps) < k {
			actor := rapid.SampledFrom([]string{"T", "T", "T", "T", "T", "W", "W", "F", "S"}).Draw(rt, "actor")
			switch actor {
			case "T":
				t := alive[rapid.IntRange(0, len(alive)-1).Draw(rt, "which")]
				if used[t.n] {
					k-- // one step per program and round
					continue
				}
				used[t.n] = true
				steps = append(steps, w.genTxStep(t))
			case "W":
				if usedW || writers >= 14 {
					k--
					continue
				}
				usedW = true
				writers++
				steps = append(steps, w.genWriter())
			case "F":
				if usedF {
					k--
					continue
				}
				usedF = true
				steps = append(steps, w.genFlush())
			case "S":
				steps = append(steps, w.genScanner())
			}
		}
		if len(steps) == 0 {
			continue
		}
		if len(steps) > 1 {
			concurrentRounds++
			nc := 0
			for _, s := range steps {
				if s.commit {
					nc++
				}
			}
			if nc > 1 {
				commitRaces++
			}
		}
		w.runRound(steps)
	}
	if w.focused {
		for i, n := 0, rapid.IntRange(1, 3).Draw(rt, "focusedWriters"); i < n; i++ {
			w.runRound([]*step{w.genWriter()})
		}
	}
	// whatever is still open is finished now, together
	var steps []*step
	for _, t := range w.txs {
		if t.state == txActive {
			steps = append(steps, w.genFinish(t))
		}
	}
	if len(steps) > 0 {
		if writers < 16 && rapid.Bool().Draw(rt, "writerInFinalRound") {
			steps = append(steps, w.genWriter())
		}
		if len(steps) > 1 {
			concurrentRounds++
			commitRaces++
		}
		w.runRound(steps)
	}
	if concurrentRounds > 0 {
		w.c.Label("concurrent-round")
	}
	if commitRaces > 0 {
		w.c.Label("commit-race")
	}
}
