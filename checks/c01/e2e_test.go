package c01

import (
	"bytes"
	"context"
	"crypto/ecdsa"
	"crypto/elliptic"
	crand "crypto/rand"
	"crypto/sha256"
	"crypto/x509"
	"encoding/pem"
	"fmt"
	"os"
	"path/filepath"
	"strings"
	"sync"
	"testing"
	"time"

	"github.com/codenotary/immudb/embedded/store"
	"github.com/codenotary/immudb/pkg/api/schema"
	ic "github.com/codenotary/immudb/pkg/client"
	"github.com/codenotary/immudb/pkg/database"
	"github.com/codenotary/immudb/pkg/server"
	"github.com/codenotary/immudb/pkg/server/servertest"
	"google.golang.org/grpc"
	"google.golang.org/protobuf/proto"
	"pgregory.net/rapid"

	"verif/internal/vk"
)

// (c) the real server behind bufconn, the real pkg/client with an in-memory state service, and a man in the
// middle: a client-side unary interceptor that lets the call through and then alters the reply.

type mitm struct {
	mu     sync.Mutex
	method string                       // suffix of the method whose next reply is altered ("" = pass everything)
	alter  func(m proto.Message) string // returns the name of the alteration
	done   string                       // what was done to the reply
	lib    map[string][]proto.Message   // honest replies seen so far, by method
}

func (s *mitm) intercept(ctx context.Context, method string, req, reply any, cc *grpc.ClientConn, invoker grpc.UnaryInvoker, opts ...grpc.CallOption) error {
	err := invoker(ctx, method, req, reply, cc, opts...)
	if err != nil {
		return err
	}
	i := strings.LastIndex(method, "/")
	name := method[i+1:]
	if !strings.HasPrefix(name, "Verifiable") {
		return nil
	}
	s.mu.Lock()
	defer s.mu.Unlock()
	rm := reply.(proto.Message)
	if s.lib == nil {
		s.lib = map[string][]proto.Message{}
	}
	if l := s.lib[name]; len(l) < 24 {
		s.lib[name] = append(l, proto.Clone(rm))
	}
	if s.method == name && s.alter != nil {
		alter := s.alter
		s.alter = nil // only the first reply of the operation; helper calls (FillMissingLinearAdvanceProof) pass
		s.done = alter(rm)
	}
	return nil
}

func (s *mitm) arm(method string, alter func(m proto.Message) string) {
	s.mu.Lock()
	s.method, s.alter, s.done = method, alter, ""
	s.mu.Unlock()
}

func (s *mitm) result() string {
	s.mu.Lock()
	defer s.mu.Unlock()
	s.method = ""
	return s.done
}

type memState struct {
	mu  sync.Mutex
	cur *schema.ImmutableState
}

func (t *memState) GetState(ctx context.Context, db string) (*schema.ImmutableState, error) {
	t.mu.Lock()
	defer t.mu.Unlock()
	return proto.Clone(t.cur).(*schema.ImmutableState), nil
}
func (t *memState) SetState(db string, st *schema.ImmutableState) error {
	t.mu.Lock()
	defer t.mu.Unlock()
	t.cur = proto.Clone(st).(*schema.ImmutableState)
	return nil
}
func (t *memState) CacheLock() error         { return nil }
func (t *memState) CacheUnlock() error       { return nil }
func (t *memState) SetServerIdentity(string) {}
func (t *memState) get() (uint64, H) {
	t.mu.Lock()
	defer t.mu.Unlock()
	var h H
	copy(h[:], t.cur.TxHash)
	return t.cur.TxId, h
}

// reference history of the server's database, read back through unverified calls of an honest in-process server
type refTx struct {
	id      uint64
	alh     H
	hdr     *schema.TxHeader
	entries []*schema.TxEntry
}

type e2eFixture struct {
	bs   *servertest.BufconnServer
	cl   ic.ImmuClient
	mitm *mitm
	st   *memState
	cl2  ic.ImmuClient // victim configured with the server signing public key
	st2  *memState
	pub  *ecdsa.PublicKey
	sql  *sqlRef

	sqlForged string   // how the row of the VerifyRow call in flight was forged
	txs       []*refTx // txs[id-1]
	keys      [][]byte
	refs      [][]byte // reference keys
	ctr       int
	vers      map[string][]uint64 // logical key -> tx ids that set it (plain values)
}

var (
	e2eOnce sync.Once
	e2eFix  *e2eFixture
	e2eErr  error
)

func e2e(t testing.TB) *e2eFixture {
	e2eOnce.Do(func() { e2eFix, e2eErr = buildE2E() })
	if e2eErr != nil {
		t.Fatalf("e2e fixture: %v", e2eErr)
	}
	return e2eFix
}

func buildE2E() (*e2eFixture, error) {
	dir := vk.Dir()
	opts := server.DefaultOptions().
		WithDir(filepath.Join(dir, "data")).
		WithLogfile(filepath.Join(dir, "immudb.log")).
		WithAuth(true).
		WithMetricsServer(false).
		WithWebServer(false).
		WithPgsqlServer(false).
		WithGRPCReflectionServerEnabled(false)
	// state signing (PROOFS.md step 9)
	priv, err := ecdsa.GenerateKey(elliptic.P256(), crand.Reader)
	if err != nil {
		return nil, err
	}
	der, err := x509.MarshalECPrivateKey(priv)
	if err != nil {
		return nil, err
	}
	keyPath := filepath.Join(dir, "signing.key")
	if err := os.MkdirAll(dir, 0o755); err != nil {
		return nil, err
	}
	if err := os.WriteFile(keyPath, pem.EncodeToMemory(&pem.Block{Type: "EC PRIVATE KEY", Bytes: der}), 0o600); err != nil {
		return nil, err
	}
	opts = opts.WithSigningKey(keyPath)
	bs := servertest.NewBufconnServer(opts)
	if err := bs.Start(); err != nil {
		return nil, fmt.Errorf("server start: %w", err)
	}
	m := &mitm{}
	newClient := func(sub string) (ic.ImmuClient, error) {
		cl := bs.NewClient(ic.DefaultOptions().WithDir(filepath.Join(dir, sub)))
		cl.GetOptions().DialOptions = append(cl.GetOptions().DialOptions, grpc.WithChainUnaryInterceptor(m.intercept))
		if sub == "client2" {
			cl.WithServerSigningPubKey(&priv.PublicKey)
		}
		if err := cl.OpenSession(context.Background(), []byte("immudb"), []byte("immudb"), "defaultdb"); err != nil {
			return nil, fmt.Errorf("open session: %w", err)
		}
		return cl, nil
	}
	cl, err := newClient("client")
	if err != nil {
		return nil, err
	}
	cl2, err := newClient("client2")
	if err != nil {
		return nil, err
	}
	f := &e2eFixture{bs: bs, cl: cl, cl2: cl2, mitm: m, st: &memState{}, st2: &memState{}, pub: &priv.PublicKey, vers: map[string][]uint64{}}
	for i := 0; i < 6; i++ {
		f.keys = append(f.keys, []byte(fmt.Sprintf("key-%d", i)))
	}
	ctx := context.Background()
	for _, k := range f.keys[:4] {
		if err := f.write(ctx, "set", k); err != nil {
			return nil, err
		}
	}
	if err := f.write(ctx, "ref", f.keys[0]); err != nil {
		return nil, err
	}
	if err := f.sqlSetup(ctx); err != nil {
		return nil, err
	}
	f.st.cur = &schema.ImmutableState{Db: "defaultdb", TxId: 1, TxHash: f.txs[0].alh[:]}
	f.st2.cur = proto.Clone(f.st.cur).(*schema.ImmutableState)
	cl.WithStateService(f.st)
	cl2.WithStateService(f.st2)
	return f, nil
}

// sync extends the reference with every tx committed since the last look.
func (f *e2eFixture) sync(ctx context.Context) error {
	cur, err := f.cl.CurrentState(ctx)
	if err != nil {
		return err
	}
	for id := uint64(len(f.txs)) + 1; id <= cur.TxId; id++ {
		// TxByID decodes entry keys in place for display: ask for the raw form
		raw, err := f.cl.TxByIDWithSpec(ctx, &schema.TxRequest{Tx: id, EntriesSpec: &schema.EntriesSpec{
			KvEntriesSpec:  &schema.EntryTypeSpec{Action: schema.EntryTypeAction_ONLY_DIGEST},
			ZEntriesSpec:   &schema.EntryTypeSpec{Action: schema.EntryTypeAction_ONLY_DIGEST},
			SqlEntriesSpec: &schema.EntryTypeSpec{Action: schema.EntryTypeAction_ONLY_DIGEST},
		}})
		if err != nil {
			return fmt.Errorf("TxByIDWithSpec(%d): %w", id, err)
		}
		h := schema.TxHeaderFromProto(raw.Header)
		r := &refTx{id: id, alh: refAlh(h), hdr: raw.Header, entries: raw.Entries}
		f.txs = append(f.txs, r)
		for _, e := range raw.Entries {
			if len(e.Key) > 0 && e.Key[0] == database.SetKeyPrefix {
				k := string(e.Key[1:])
				f.vers[k] = append(f.vers[k], id)
			}
		}
	}
	return nil
}

// write commits one transaction through unverified calls.
func (f *e2eFixture) write(ctx context.Context, kind string, key []byte) error {
	f.ctr++
	var err error
	switch kind {
	case "set":
		_, err = f.cl.Set(ctx, key, []byte(fmt.Sprintf("value-%d", f.ctr)))
	case "setall":
		req := &schema.SetRequest{}
		for i, k := range f.keys {
			if i%2 == f.ctr%2 {
				req.KVs = append(req.KVs, &schema.KeyValue{Key: k, Value: []byte(fmt.Sprintf("multi-%d-%d", f.ctr, i))})
			}
		}
		_, err = f.cl.SetAll(ctx, req)
	case "expirable":
		_, err = f.cl.ExpirableSet(ctx, key, []byte(fmt.Sprintf("exp-%d", f.ctr)), time.Date(2999, 1, 1, 0, 0, 0, 0, time.UTC))
	case "ref":
		rk := []byte(fmt.Sprintf("ref-%d", len(f.refs)))
		_, err = f.cl.SetReference(ctx, rk, key)
		if err == nil {
			f.refs = append(f.refs, rk)
		}
	case "zadd":
		_, err = f.cl.ZAdd(ctx, []byte("zset"), float64(f.ctr), key)
	}
	if err != nil {
		return fmt.Errorf("%s(%q): %w", kind, key, err)
	}
	return f.sync(ctx)
}

func (f *e2eFixture) n() uint64 { return uint64(len(f.txs)) }

// hasEntry: does reference tx id contain the raw entry (key, metadata, hash of value)?
func (f *e2eFixture) hasEntry(id uint64, spec *store.EntrySpec) bool {
	if id == 0 || id > f.n() {
		return false
	}
	hv := sha256.Sum256(spec.Value)
	var md []byte
	if spec.Metadata != nil {
		md = spec.Metadata.Bytes()
	}
	for _, e := range f.txs[id-1].entries {
		var emd []byte
		if m := schema.KVMetadataFromProto(e.Metadata); m != nil {
			emd = m.Bytes()
		}
		if bytes.Equal(e.Key, spec.Key) && bytes.Equal(e.HValue, hv[:]) && bytes.Equal(emd, md) {
			return true
		}
	}
	return false
}

func (f *e2eFixture) pool(rt *rapid.T) []H {
	var p []H
	for q := 0; q < 12; q++ {
		r := f.txs[rapid.IntRange(0, len(f.txs)-1).Draw(rt, "poolTx")]
		p = append(p, r.alh, schema.DigestFromProto(r.hdr.EH), schema.DigestFromProto(r.hdr.BlRoot))
	}
	return p
}

// ---------------------------------------------------------------------------
// reply alterations

func flipBytes(rt *rapid.T, b []byte, label string) []byte {
	c := append([]byte{}, b...)
	if len(c) == 0 {
		return []byte{1}
	}
	c[rapid.IntRange(0, len(c)-1).Draw(rt, label+"At")] ^= 1 << uint(rapid.IntRange(0, 7).Draw(rt, label+"Bit"))
	return c
}

func dualToProto(p *store.DualProof) *schema.DualProof {
	out := &schema.DualProof{
		SourceTxHeader:     schema.TxHeaderToProto(p.SourceTxHeader),
		TargetTxHeader:     schema.TxHeaderToProto(p.TargetTxHeader),
		InclusionProof:     schema.DigestsToProto(p.InclusionProof),
		ConsistencyProof:   schema.DigestsToProto(p.ConsistencyProof),
		TargetBlTxAlh:      p.TargetBlTxAlh[:],
		LastInclusionProof: schema.DigestsToProto(p.LastInclusionProof),
		LinearAdvanceProof: schema.LinearAdvanceProofToProto(p.LinearAdvanceProof),
	}
	if p.LinearProof != nil {
		out.LinearProof = schema.LinearProofToProto(p.LinearProof)
	}
	return out
}

// alterReply applies one alteration of the catalogue to a VerifiableEntry / VerifiableTx reply.
func (f *e2eFixture) alterReply(rt *rapid.T, m proto.Message, lib []proto.Message) string {
	var ve *schema.VerifiableEntry
	var vt *schema.VerifiableTx
	switch r := m.(type) {
	case *schema.VerifiableEntry:
		ve, vt = r, r.VerifiableTx
	case *schema.VerifiableTx:
		vt = r
	case *schema.VerifiableSQLEntry:
		return f.alterSQLReply(rt, r, lib)
	default:
		return "unknown-message"
	}
	choices := []string{"dual", "dual", "dual", "tx-header", "tx-entries", "nil-sub", "replay", "signature"}
	if ve != nil {
		choices = append(choices, "entry", "entry", "entry", "iproof", "iproof")
	}
	what := rapid.SampledFrom(choices).Draw(rt, "alter")
	switch what {
	case "dual":
		if vt == nil || vt.DualProof == nil || vt.DualProof.SourceTxHeader == nil || vt.DualProof.TargetTxHeader == nil || vt.DualProof.LinearProof == nil {
			return "dual:absent"
		}
		mc := &mutCtx{rt: rt, pool: f.pool(rt)}
		for q := 0; q < 4; q++ {
			mc.hdrs = append(mc.hdrs, schema.TxHeaderFromProto(f.txs[rapid.IntRange(0, len(f.txs)-1).Draw(rt, "hdrTx")].hdr))
		}
		for _, o := range lib {
			var ov *schema.VerifiableTx
			switch r := o.(type) {
			case *schema.VerifiableEntry:
				ov = r.VerifiableTx
			case *schema.VerifiableTx:
				ov = r
			}
			if ov != nil && ov.DualProof != nil && ov.DualProof.LinearProof != nil && ov.DualProof.SourceTxHeader != nil && ov.DualProof.TargetTxHeader != nil {
				mc.other = append(mc.other, schema.DualProofFromProto(ov.DualProof))
			}
		}
		dp := schema.DualProofFromProto(vt.DualProof)
		name := mc.mutateDual(dp)
		vt.DualProof = dualToProto(dp)
		return "dual." + name
	case "signature":
		if vt == nil {
			return "signature:absent"
		}
		switch rapid.IntRange(0, 3).Draw(rt, "sigWhat") {
		case 0:
			vt.Signature = nil
			return "signature.nil"
		case 1:
			if vt.Signature != nil {
				vt.Signature.Signature = flipBytes(rt, vt.Signature.Signature, "sig")
			}
			return "signature.flip"
		case 2:
			if vt.Signature != nil {
				vt.Signature.PublicKey = flipBytes(rt, vt.Signature.PublicKey, "sigPk")
			}
			return "signature.publicKey(unused)"
		default:
			for _, o := range lib {
				var ov *schema.VerifiableTx
				switch r := o.(type) {
				case *schema.VerifiableEntry:
					ov = r.VerifiableTx
				case *schema.VerifiableTx:
					ov = r
				}
				if ov != nil && ov.Signature != nil {
					vt.Signature = proto.Clone(ov.Signature).(*schema.Signature)
					return "signature.of-another-reply"
				}
			}
			return "signature:none"
		}
	case "tx-header":
		if vt == nil || vt.Tx == nil || vt.Tx.Header == nil {
			return "tx-header:absent"
		}
		mc := &mutCtx{rt: rt, pool: f.pool(rt)}
		h := schema.TxHeaderFromProto(vt.Tx.Header)
		name := mc.header(h, "txh")
		vt.Tx.Header = schema.TxHeaderToProto(h)
		return "tx-header." + name
	case "tx-entries":
		if vt == nil || vt.Tx == nil || len(vt.Tx.Entries) == 0 {
			return "tx-entries:absent"
		}
		e := vt.Tx.Entries[rapid.IntRange(0, len(vt.Tx.Entries)-1).Draw(rt, "teIdx")]
		switch rapid.IntRange(0, 4).Draw(rt, "teWhat") {
		case 0:
			e.Key = flipBytes(rt, e.Key, "teKey")
			return "tx-entries.key"
		case 1:
			e.HValue = flipBytes(rt, e.HValue, "teHv")
			return "tx-entries.hvalue"
		case 2:
			if e.Metadata == nil {
				e.Metadata = &schema.KVMetadata{Deleted: true}
			} else {
				e.Metadata = nil
			}
			return "tx-entries.metadata"
		case 3:
			vt.Tx.Entries = vt.Tx.Entries[:len(vt.Tx.Entries)-1]
			return "tx-entries.drop"
		default:
			vt.Tx.Entries = append(vt.Tx.Entries, proto.Clone(e).(*schema.TxEntry))
			return "tx-entries.dup"
		}
	case "nil-sub":
		switch rapid.IntRange(0, 7).Draw(rt, "nilWhat") {
		case 0:
			if ve != nil {
				ve.Entry = nil
				return "nil.entry"
			}
			vt.Tx = nil
			return "nil.tx"
		case 1:
			if ve != nil {
				ve.InclusionProof = nil
				return "nil.inclusionProof"
			}
			vt.DualProof = nil
			return "nil.dualProof"
		case 2:
			if ve != nil {
				ve.VerifiableTx = nil
				return "nil.verifiableTx"
			}
			vt.Tx = nil
			return "nil.tx"
		case 3:
			if vt != nil {
				vt.Tx = nil
			}
			return "nil.tx"
		case 4:
			if vt != nil {
				vt.DualProof = nil
			}
			return "nil.dualProof"
		case 5:
			if vt != nil && vt.DualProof != nil {
				vt.DualProof.SourceTxHeader = nil
			}
			return "nil.sourceTxHeader"
		case 6:
			if vt != nil && vt.DualProof != nil {
				vt.DualProof.TargetTxHeader = nil
			}
			return "nil.targetTxHeader"
		default:
			if vt != nil && vt.DualProof != nil {
				vt.DualProof.LinearProof = nil
			}
			return "nil.linearProof"
		}
	case "replay":
		if len(lib) == 0 {
			return "replay:none"
		}
		o := lib[rapid.IntRange(0, len(lib)-1).Draw(rt, "replayIdx")]
		proto.Reset(m)
		proto.Merge(m, o)
		return "replay"
	case "entry":
		if ve.Entry == nil {
			return "entry:absent"
		}
		e := ve.Entry
		switch rapid.IntRange(0, 8).Draw(rt, "entryWhat") {
		case 0:
			e.Value = flipBytes(rt, e.Value, "eVal")
			return "entry.value"
		case 1:
			e.Key = flipBytes(rt, e.Key, "eKey")
			return "entry.key"
		case 2:
			e.Tx = uint64(int64(e.Tx) + int64(rapid.SampledFrom([]int{1, -1, 2}).Draw(rt, "eTxDelta")))
			return "entry.tx"
		case 3:
			if e.Metadata == nil {
				e.Metadata = &schema.KVMetadata{Deleted: true}
				return "entry.metadata+deleted"
			}
			e.Metadata = nil
			return "entry.metadata-dropped"
		case 4:
			if e.Metadata == nil {
				e.Metadata = &schema.KVMetadata{}
			}
			e.Metadata.Expiration = &schema.Expiration{ExpiresAt: 4_000_000_000}
			return "entry.metadata+expiration"
		case 5:
			if e.Metadata == nil {
				e.Metadata = &schema.KVMetadata{}
			}
			e.Metadata.NonIndexable = !e.Metadata.NonIndexable
			return "entry.metadata~nonIndexable"
		case 6:
			if e.ReferencedBy != nil {
				switch rapid.IntRange(0, 3).Draw(rt, "refWhat") {
				case 0:
					e.ReferencedBy.Tx++
					return "entry.ref.tx"
				case 1:
					e.ReferencedBy.AtTx++
					return "entry.ref.atTx"
				case 2:
					e.ReferencedBy.Key = flipBytes(rt, e.ReferencedBy.Key, "refKey")
					return "entry.ref.key"
				default:
					e.ReferencedBy = nil
					return "entry.ref.dropped"
				}
			}
			e.ReferencedBy = &schema.Reference{Tx: e.Tx, Key: []byte("forged-ref")}
			return "entry.ref.added"
		case 7:
			e.Value = append(e.Value, 'x')
			return "entry.value+"
		default:
			e.Revision++
			return "entry.revision(unverifiable)"
		}
	default: // iproof
		if ve.InclusionProof == nil {
			return "iproof:absent"
		}
		ip := ve.InclusionProof
		switch rapid.IntRange(0, 2).Draw(rt, "ipWhat") {
		case 0:
			ip.Leaf += int32(rapid.SampledFrom([]int{1, -1, 2}).Draw(rt, "ipLeaf"))
			return "iproof.leaf"
		case 1:
			ip.Width += int32(rapid.SampledFrom([]int{1, -1, 2}).Draw(rt, "ipWidth"))
			return "iproof.width"
		default:
			mc := &mutCtx{rt: rt, pool: f.pool(rt)}
			terms, k := mc.terms(schema.DigestsFromProto(ip.Terms), "ipTerms")
			ip.Terms = schema.DigestsToProto(terms)
			return "iproof.terms." + k
		}
	}
}

// ---------------------------------------------------------------------------

const (
	kTxByID = "K01c-verifiedtxbyid-returns-unverified-tx"
	kGetKey = "K01d-verifiedget-returned-key-and-tx-unchecked"
	kHdrEh  = "K01e-verified-write-returns-unchecked-eh"
)

type opResult struct {
	err      error
	panicked string
	entry    *schema.Entry
	tx       *schema.Tx
	hdr      *schema.TxHeader
}

func guard(fn func() opResult) (r opResult) {
	defer func() {
		if p := recover(); p != nil {
			r = opResult{panicked: fmt.Sprint(p)}
		}
	}()
	return fn()
}

func TestClientServer(t *testing.T) {
	f := e2e(t)
	ctx := context.Background()
	vk.Check(t, 240, 8000, func(rt *rapid.T, c *vk.Case) {
		steps := rapid.IntRange(6, 16).Draw(rt, "steps")
		altered, acceptedAltered := 0, 0
		for q := 0; q < steps; q++ {
			kind := rapid.SampledFrom([]string{"write", "get", "get", "getAt", "getSince", "getRev", "getRef", "txByID", "txByID", "vset", "vref", "vzadd", "stale", "verifyRow", "verifyRow"}).Draw(rt, "op")
			key := f.keys[rapid.IntRange(0, 3).Draw(rt, "key")]
			who := rapid.IntRange(0, 1).Draw(rt, "client")
			cl, st := f.cl, f.st
			if who == 1 {
				cl, st = f.cl2, f.st2
			}
			switch kind {
			case "write":
				w := rapid.SampledFrom([]string{"set", "set", "setall", "expirable", "ref", "zadd", "sql", "sql"}).Draw(rt, "write")
				var err error
				if w == "sql" {
					err = f.sqlUpsert(ctx, rapid.SampledFrom([]string{"t", "u"}).Draw(rt, "sqlWTable"), rapid.IntRange(1, 3).Draw(rt, "sqlWID"))
				} else {
					err = f.write(ctx, w, key)
				}
				if err != nil {
					rt.Fatalf("harness: %v", err)
				}
				c.Descf("W:%s", w)
				continue
			case "stale":
				// client restart with an older (true) state
				id := uint64(rapid.IntRange(1, int(f.n())).Draw(rt, "staleTo"))
				st.SetState("defaultdb", &schema.ImmutableState{Db: "defaultdb", TxId: id, TxHash: f.txs[id-1].alh[:]})
				c.Descf("stale")
				continue
			}
			prevID, _ := st.get()
			mutate := rapid.IntRange(0, 3).Draw(rt, "mutate") > 0
			method := "VerifiableGet"
			var atTx uint64
			var wantKey []byte = key
			var call func() opResult
			var rc *rowCall
			switch kind {
			case "verifyRow":
				method = "VerifiableSQLGet"
				var err error
				if rc, err = f.genRowCall(rt, ctx); err != nil {
					rt.Fatalf("harness: %v", err)
				}
				row, table := rc.row, rc.table
				f.sqlForged = rc.forged
				call = func() opResult {
					return opResult{err: cl.VerifyRow(ctx, row, table, []*schema.SQLValue{row.Values[0]})}
				}
			case "get":
				call = func() opResult { e, err := cl.VerifiedGet(ctx, key); return opResult{err: err, entry: e} }
			case "getAt":
				vs := f.vers[string(key)]
				atTx = vs[rapid.IntRange(0, len(vs)-1).Draw(rt, "atIdx")]
				call = func() opResult { e, err := cl.VerifiedGetAt(ctx, key, atTx); return opResult{err: err, entry: e} }
			case "getSince":
				since := uint64(rapid.IntRange(1, int(f.n())).Draw(rt, "since"))
				call = func() opResult { e, err := cl.VerifiedGetSince(ctx, key, since); return opResult{err: err, entry: e} }
			case "getRev":
				vs := f.vers[string(key)]
				rev := int64(rapid.IntRange(1, len(vs)).Draw(rt, "rev"))
				call = func() opResult {
					e, err := cl.VerifiedGetAtRevision(ctx, key, rev)
					return opResult{err: err, entry: e}
				}
			case "getRef":
				wantKey = f.refs[rapid.IntRange(0, len(f.refs)-1).Draw(rt, "refIdx")]
				rk := wantKey
				call = func() opResult { e, err := cl.VerifiedGet(ctx, rk); return opResult{err: err, entry: e} }
			case "txByID":
				method = "VerifiableTxById"
				atTx = uint64(rapid.IntRange(1, int(f.n())).Draw(rt, "txid"))
				call = func() opResult { tx, err := cl.VerifiedTxByID(ctx, atTx); return opResult{err: err, tx: tx} }
			case "vset":
				method = "VerifiableSet"
				f.ctr++
				val := []byte(fmt.Sprintf("vset-%d", f.ctr))
				wantKey = key
				call = func() opResult {
					h, err := cl.VerifiedSet(ctx, key, val)
					return opResult{err: err, hdr: h, entry: &schema.Entry{Key: key, Value: val}}
				}
			case "vref":
				method = "VerifiableSetReference"
				rk := []byte(fmt.Sprintf("vref-%d", f.ctr))
				f.ctr++
				call = func() opResult { h, err := cl.VerifiedSetReference(ctx, rk, key); return opResult{err: err, hdr: h} }
			case "vzadd":
				method = "VerifiableZAdd"
				f.ctr++
				score := float64(f.ctr)
				call = func() opResult {
					h, err := cl.VerifiedZAdd(ctx, []byte("vz"), score, key)
					return opResult{err: err, hdr: h}
				}
			}
			if mutate {
				f.mitm.mu.Lock()
				lib := append([]proto.Message{}, f.mitm.lib[method]...)
				f.mitm.mu.Unlock()
				f.mitm.arm(method, func(m proto.Message) string { return f.alterReply(rt, m, lib) })
			}
			res := guard(call)
			done := f.mitm.result()
			if !mutate {
				done = ""
			}
			if err := f.sync(ctx); err != nil { // verified writes commit whatever happens to the reply
				rt.Fatalf("harness: %v", err)
			}
			newID, newAlh := st.get()
			e := vk.NewEnum("TestClientServer/calls")
			e.Descf("%s state=%d n=%d alter=%s", kind, prevID, f.n(), done)
			e.Label("op-" + kind)
			if who == 1 {
				e.Label("client-checks-signature")
			}
			what := fmt.Sprintf("%s(key=%q at=%d) with trusted state %d, reply alteration %q", kind, wantKey, atTx, prevID, done)
			if mutate && done != "" {
				altered++
				e.Label("alter-" + mutClass(done))
			}
			switch {
			case res.panicked != "":
				e.Label("client-panic-class(C16)")
			case res.err != nil:
				if (!mutate || done == "") && (rc == nil || rc.forged == "") {
					c.Failf(rt, nil, "honest reply rejected: %s: %v", what, res.err)
				}
				e.Label("rejected")
			default:
				if mutate && done != "" {
					acceptedAltered++
					e.Label("accepted-altered-reply")
				}
				// the stored state is a true state and never goes back
				if newID == 0 || newID > f.n() || newAlh != f.txs[newID-1].alh {
					c.Failf(rt, nil, "FALSE STATE STORED after %s: client state is now (%d, %x) which is not the history's", what, newID, newAlh[:6])
				}
				if newID < prevID {
					c.Failf(rt, nil, "STATE WENT BACK after %s: %d -> %d", what, prevID, newID)
				}
				if who == 1 {
					// a client that was given the server's public key only ever stores states carrying a valid signature
					st.mu.Lock()
					serr := st.cur.CheckSignature(f.pub)
					st.mu.Unlock()
					if serr != nil {
						c.Failf(rt, nil, "UNSIGNED STATE STORED by the signature-checking client after %s: %v", what, serr)
					}
				}
				if rc != nil {
					if rc.forged != "" {
						e.Label("caller-holds-forged-row")
					}
					f.checkRow(rt, c, e, what+fmt.Sprintf(" [VerifyRow %s/%d, caller's row: %s]", rc.table, rc.id, rc.forged), rc, done)
				} else {
					f.checkReturned(rt, c, e, kind, what, wantKey, atTx, res)
				}
			}
			e.NonTrivial()
			e.Done()
			c.Descf("%s/%s", kind, mutClass(done))
		}
		if altered > 0 {
			c.NonTrivial()
		}
	})
}

// checkReturned compares what a successful verified call handed to the application with the reference history.
func (f *e2eFixture) checkReturned(rt *rapid.T, c *vk.Case, e vk.Enum, kind, what string, wantKey []byte, atTx uint64, res opResult) {
	switch {
	case res.tx != nil: // VerifiedTxByID
		tx := res.tx
		bad := ""
		if tx.Header == nil || tx.Header.Id != atTx {
			bad = "header id"
		} else if r := f.txs[atTx-1]; refAlh(schema.TxHeaderFromProto(tx.Header)) != r.alh {
			bad = "header does not hash to the history's Alh"
		} else if len(tx.Entries) != len(r.entries) {
			bad = "number of entries"
		} else {
			for i, en := range tx.Entries {
				re := r.entries[i]
				// the client decodes keys for display (strips the kind prefix of plain keys)
				if !(bytes.Equal(en.Key, re.Key) || bytes.Equal(en.Key, re.Key[1:])) || !bytes.Equal(en.HValue, re.HValue) || !proto.Equal(en.Metadata, re.Metadata) {
					bad = fmt.Sprintf("entry %d", i)
				}
			}
		}
		if bad != "" {
			if !vk.Excluded(kTxByID) {
				c.Failf(rt, nil, "ALTERED TX RETURNED AS VERIFIED: %s succeeded but the returned transaction differs from the history (%s)", what, bad)
			}
			vk.CountExcluded(kTxByID)
			e.Label("returned-altered-tx(K01c)")
		}
	case res.hdr != nil: // verified writes
		id := res.hdr.Id
		if id == 0 || id > f.n() {
			c.Failf(rt, nil, "ALTERED HEADER RETURNED: %s succeeded but the returned header has id %d", what, id)
		}
		if refAlh(schema.TxHeaderFromProto(res.hdr)) != f.txs[id-1].alh {
			// only the EH field (which TxFromProto recomputes from the entries and therefore never looks at)?
			fixed := proto.Clone(res.hdr).(*schema.TxHeader)
			fixed.EH = f.txs[id-1].hdr.EH
			if refAlh(schema.TxHeaderFromProto(fixed)) != f.txs[id-1].alh {
				c.Failf(rt, nil, "ALTERED HEADER RETURNED: %s succeeded but the returned header is not the history's tx %d", what, id)
			}
			if !vk.Excluded(kHdrEh) {
				c.Failf(rt, nil, "ALTERED HEADER RETURNED: %s succeeded but the returned header carries an EH that is not the history's (tx %d)", what, id)
			}
			vk.CountExcluded(kHdrEh)
			e.Label("returned-header-with-altered-EH(K01e)")
		}
		if kind == "vset" {
			spec := database.EncodeEntrySpec(res.entry.Key, nil, res.entry.Value)
			if !f.hasEntry(id, spec) {
				c.Failf(rt, nil, "VerifiedSet succeeded (%s) but tx %d does not hold the written entry", what, id)
			}
		}
	case res.entry != nil:
		en := res.entry
		if en.ReferencedBy != nil {
			// the proof covers the reference entry only (docs/security/PROOFS.md: "we perform the proof for the reference entry, not the value itself")
			ref := en.ReferencedBy
			spec := database.EncodeReference(ref.Key, schema.KVMetadataFromProto(ref.Metadata), en.Key, ref.AtTx)
			tx := ref.Tx
			e.Label("returned-reference")
			if bytes.Equal(ref.Key, wantKey) && f.hasEntry(tx, spec) {
				return
			}
			// only the returned label (the client verifies the REQUESTED key and never looks at ReferencedBy.Key)?
			fixed := database.EncodeReference(wantKey, schema.KVMetadataFromProto(ref.Metadata), en.Key, ref.AtTx)
			if f.hasEntry(tx, fixed) {
				if !vk.Excluded(kGetKey) {
					c.Failf(rt, nil, "ALTERED REFERENCE RETURNED: %s succeeded; returned ReferencedBy.Key=%q but the verified reference entry is key=%q", what, ref.Key, wantKey)
				}
				vk.CountExcluded(kGetKey)
				e.Label("returned-altered-key-or-tx(K01d)")
				return
			}
			c.Failf(rt, nil, "FORGED REFERENCE RETURNED: %s succeeded but reference (key=%q -> %q atTx=%d) is not an entry of tx %d", what, ref.Key, en.Key, ref.AtTx, tx)
			return
		}
		spec := database.EncodeEntrySpec(en.Key, schema.KVMetadataFromProto(en.Metadata), en.Value)
		inHistory := f.hasEntry(en.Tx, spec)
		keyOK := bytes.Equal(en.Key, wantKey)
		txOK := atTx == 0 || en.Tx == atTx
		if inHistory && keyOK && txOK {
			return
		}
		// is it only the unchecked labels (Entry.Key when no reference is involved / Entry.Tx when AtTx was requested)?
		fixed := database.EncodeEntrySpec(wantKey, schema.KVMetadataFromProto(en.Metadata), en.Value)
		fixedTx := en.Tx
		if atTx != 0 {
			fixedTx = atTx
		}
		if f.hasEntry(fixedTx, fixed) {
			if !vk.Excluded(kGetKey) {
				c.Failf(rt, nil, "ALTERED ENTRY RETURNED: %s succeeded; returned key=%q tx=%d but the verified entry is key=%q tx=%d", what, en.Key, en.Tx, wantKey, fixedTx)
			}
			vk.CountExcluded(kGetKey)
			e.Label("returned-altered-key-or-tx(K01d)")
			return
		}
		c.Failf(rt, nil, "FORGED ENTRY RETURNED: %s succeeded but (key=%q value=%q md=%v) is not an entry of tx %d", what, en.Key, trunc(en.Value), en.Metadata, en.Tx)
	}
}
