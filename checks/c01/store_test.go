package c01

import (
	"bytes"
	"crypto/sha256"
	"fmt"
	"time"

	"github.com/codenotary/immudb/embedded/htree"
	"github.com/codenotary/immudb/embedded/store"
	"pgregory.net/rapid"

	"verif/internal/stx"
	"verif/internal/vk"
)

// ---------------------------------------------------------------------------
// the client's verification steps (pkg/client verifiedGet / VerifiedTxByID), offline

type entryClaim struct {
	key, value []byte
	md         *store.KVMetadata
	version    int // what the reply says the tx header version is (selects the digest function)
	iproof     *htree.InclusionProof
}

type claim struct {
	t, c  uint64 // trusted tx id, claimed (requested) tx id
	proof *store.DualProof
	entry *entryClaim
}

type verdict struct {
	accepted   bool
	panicked   string
	claimedAlh H
	newID      uint64
	newAlh     H
}

// clientVerify mirrors pkg/client/client.go verifiedGet: entry inclusion against the Eh of the header on the
// claimed side, then VerifyDualProof in the direction given by the trusted state.
func clientVerify(trusted H, cl claim) (v verdict) {
	defer func() {
		if r := recover(); r != nil {
			v = verdict{panicked: fmt.Sprint(r)}
		}
	}()
	p := cl.proof
	var srcID, tgtID uint64
	var srcAlh, tgtAlh, eh H
	if cl.t <= cl.c {
		eh = p.TargetTxHeader.Eh
		srcID, srcAlh = cl.t, trusted
		tgtID, tgtAlh = cl.c, p.TargetTxHeader.Alh()
		v.claimedAlh = tgtAlh
	} else {
		eh = p.SourceTxHeader.Eh
		srcID, srcAlh = cl.c, p.SourceTxHeader.Alh()
		tgtID, tgtAlh = cl.t, trusted
		v.claimedAlh = srcAlh
	}
	v.newID, v.newAlh = tgtID, tgtAlh
	if e := cl.entry; e != nil {
		digest, err := store.EntrySpecDigestFor(e.version)
		if err != nil {
			return v
		}
		if !store.VerifyInclusion(e.iproof, digest(&store.EntrySpec{Key: e.key, Metadata: e.md, Value: e.value}), eh) {
			return v
		}
	}
	v.accepted = store.VerifyDualProof(p, srcID, tgtID, srcAlh, tgtAlh)
	return v
}

// ---------------------------------------------------------------------------

type world struct {
	H, F   *hist
	shared uint64 // longest common prefix of H and F
}

func (w *world) close() {
	if w.F != nil {
		w.F.close()
	}
	if w.H != nil {
		w.H.close()
	}
}

func buildWorld(rt *rapid.T, c *vk.Case, maxN int) *world {
	cfg := stx.GenCfg(rt)
	cfg.Synced = false
	cfg.MaxActiveTx = 1000
	// the store pre-allocates MaxConcurrency tx holders of MaxTxEntries*MaxKeyLen bytes at Open: keep that small
	cfg.MaxTxEntries = rapid.SampledFrom([]int{8, 8, 64}).Draw(rt, "maxTxEntriesSmall")
	if cfg.MaxKeyLen > 256 {
		cfg.MaxKeyLen = 256
	}
	// storage-level variety is other properties' business: avoid thousands of tiny chunk files and compressors per case
	cfg.Compression = 0
	if cfg.FileSize < 1024 {
		cfg.FileSize = 1024
	}
	if cfg.WriteBuf > 4096 {
		cfg.WriteBuf = 4096
	}
	s := genShape(rt, maxN)
	if s.native {
		cfg.HdrVersion = s.verMode
	}
	w := &world{}
	var err error
	w.H, err = openHist("H", vk.Dir(), cfg)
	if err != nil {
		c.Failf(rt, nil, "store.Open: %v", err)
	}
	if err := w.H.grow(rt, s, s.n, 1); err != nil {
		w.close()
		c.Failf(rt, nil, "building H (shape %+v): %v", s, err)
	}
	// fork: shares a replicated prefix, then diverges
	p := uint64(rapid.IntRange(0, s.n).Draw(rt, "forkAt"))
	if rapid.IntRange(0, 3).Draw(rt, "forkLate") == 0 {
		p = uint64(s.n) - uint64(rapid.IntRange(0, min(2, s.n)).Draw(rt, "forkBack"))
	}
	w.F, err = forkOf(w.H, vk.Dir(), p)
	if err != nil {
		w.close()
		c.Failf(rt, nil, "building the fork (prefix %d): %v", p, err)
	}
	extra := rapid.IntRange(1, 8).Draw(rt, "forkExtra")
	fs := s
	if rapid.Bool().Draw(rt, "forkOtherLag") {
		fs.lagMode = rapid.SampledFrom([]string{"none", "some", "long"}).Draw(rt, "forkLag")
		if fs.native {
			fs.lagMode = "none"
		}
	}
	if err := w.F.grow(rt, fs, extra, 2); err != nil {
		w.close()
		c.Failf(rt, nil, "growing the fork: %v", err)
	}
	for w.shared < w.H.n() && w.shared < w.F.n() && w.H.alh(w.shared+1) == w.F.alh(w.shared+1) {
		w.shared++
	}
	if w.shared != p {
		w.close()
		c.Failf(rt, nil, "harness: fork shares %d txs, expected %d", w.shared, p)
	}
	c.Descf("shape=%+v cfg={emb=%v fs=%d tlc=%d} fork@%d+%d", s, cfg.Embedded, cfg.FileSize, cfg.TxLogCache, p, extra)
	return w
}

func storeHdr(h *hist, id uint64) (*store.TxHeader, error) {
	return h.st.ReadTxHeader(id, false, false)
}

func honestDual(h *hist, i, j uint64) (*store.DualProof, error) {
	hi, err := storeHdr(h, i)
	if err != nil {
		return nil, fmt.Errorf("ReadTxHeader(%d): %w", i, err)
	}
	hj, err := storeHdr(h, j)
	if err != nil {
		return nil, fmt.Errorf("ReadTxHeader(%d): %w", j, err)
	}
	return h.st.DualProof(hi, hj)
}

// completeness: everything the honest store hands out verifies against the reference hashes.
func checkComplete(rt *rapid.T, c *vk.Case, h *hist, pairs int) {
	n := h.n()
	fail := func(format string, args ...any) {
		c.Failf(rt, nil, "[%s n=%d] "+format, append([]any{h.name, n}, args...)...)
	}
	type pr struct{ i, j uint64 }
	var ps []pr
	if n <= 9 {
		for j := uint64(1); j <= n; j++ {
			for i := uint64(1); i <= j; i++ {
				ps = append(ps, pr{i, j})
			}
		}
	} else {
		ps = append(ps, pr{1, n}, pr{n, n}, pr{1, 1}, pr{n - 1, n})
		for q := 0; q < pairs; q++ {
			j := uint64(rapid.IntRange(1, int(n)).Draw(rt, "cj"))
			i := uint64(rapid.IntRange(1, int(j)).Draw(rt, "ci"))
			ps = append(ps, pr{i, j})
		}
	}
	usedMerkle, usedAdvance := 0, 0
	for _, p := range ps {
		i, j := p.i, p.j
		hi, err := storeHdr(h, i)
		if err != nil {
			fail("ReadTxHeader(%d): %v", i, err)
		}
		hj, err := storeHdr(h, j)
		if err != nil {
			fail("ReadTxHeader(%d): %v", j, err)
		}
		if hi.Alh() != h.alh(i) || hj.Alh() != h.alh(j) {
			fail("stored header %d or %d hashes differently from the reference chain", i, j)
		}
		dp, err := h.st.DualProof(hi, hj)
		if err != nil {
			fail("DualProof(%d,%d): %v", i, j, err)
		}
		if !store.VerifyDualProof(dp, i, j, h.alh(i), h.alh(j)) {
			fail("honest DualProof(%d,%d) does not verify (BlTxID src=%d tgt=%d)", i, j, hi.BlTxID, hj.BlTxID)
		}
		if i < hj.BlTxID {
			usedMerkle++
		}
		if dp.LinearAdvanceProof != nil {
			usedAdvance++
		}
		// the advance proof verifies on its own for the range the verifier derives
		end := min(i, hj.BlTxID)
		lap, err := h.st.LinearAdvanceProof(hi.BlTxID, end, hj.BlTxID)
		if err != nil {
			fail("LinearAdvanceProof(%d,%d,%d): %v", hi.BlTxID, end, hj.BlTxID, err)
		}
		var endAlh H
		if end > 0 {
			endAlh = h.alh(end)
		}
		if end >= hi.BlTxID && end > 0 && !store.VerifyLinearAdvanceProof(lap, hi.BlTxID, end, endAlh, hj.BlRoot, hj.BlTxID) {
			fail("honest LinearAdvanceProof(%d..%d in tree %d) does not verify", hi.BlTxID, end, hj.BlTxID)
		}
		// linear proof
		if j-i <= 12 {
			lp, err := h.st.LinearProof(i, j)
			if err != nil {
				fail("LinearProof(%d,%d): %v", i, j, err)
			}
			if !store.VerifyLinearProof(lp, i, j, h.alh(i), h.alh(j)) {
				fail("honest LinearProof(%d,%d) does not verify", i, j)
			}
		}
		// V2 proofs exist exactly when both transactions link to their predecessor
		if hi.BlTxID == i-1 && hj.BlTxID == j-1 {
			dp2, err := h.st.DualProofV2(hi, hj)
			if err != nil {
				fail("DualProofV2(%d,%d): %v", i, j, err)
			}
			if err := store.VerifyDualProofV2(dp2, i, j, h.alh(i), h.alh(j)); err != nil {
				fail("honest DualProofV2(%d,%d) does not verify: %v", i, j, err)
			}
			c.Label("complete-v2")
		}
	}
	if usedMerkle > 0 {
		c.Label("complete-merkle-part")
	}
	if usedAdvance > 0 {
		c.Label("complete-linear-advance")
	}
	// entries: every entry of (up to 12) transactions
	holder := store.NewTx(h.cfg.MaxTxEntries, h.cfg.MaxKeyLen)
	ids := []uint64{}
	if n <= 12 {
		for id := uint64(1); id <= n; id++ {
			ids = append(ids, id)
		}
	} else {
		for q := 0; q < 12; q++ {
			ids = append(ids, uint64(rapid.IntRange(1, int(n)).Draw(rt, "eid")))
		}
	}
	for _, id := range ids {
		if err := h.st.ReadTx(id, false, holder); err != nil {
			fail("ReadTx(%d): %v", id, err)
		}
		r := h.tx(id)
		hdr := holder.Header()
		if hdr.Eh != refEh(r.hdr.Version, r.es) {
			fail("tx %d: Eh differs from the reference entries hash", id)
		}
		digest, err := store.EntrySpecDigestFor(hdr.Version)
		if err != nil {
			fail("EntrySpecDigestFor(%d): %v", hdr.Version, err)
		}
		if len(holder.Entries()) != len(r.es) {
			fail("tx %d has %d entries, reference %d", id, len(holder.Entries()), len(r.es))
		}
		for k, e := range r.es {
			ip, err := holder.Proof(e.Key)
			if err != nil {
				fail("tx %d Proof(%q): %v", id, e.Key, err)
			}
			spec := &store.EntrySpec{Key: e.Key, Metadata: e.MD(), Value: e.Value}
			if !store.VerifyInclusion(ip, digest(spec), hdr.Eh) {
				fail("tx %d (version %d): honest inclusion proof of entry %d %s does not verify", id, hdr.Version, k, e)
			}
			if ip.Leaf != k || ip.Width != len(r.es) {
				fail("tx %d: proof of entry %d reports leaf=%d width=%d", id, k, ip.Leaf, ip.Width)
			}
		}
	}
}

// entryIn reports whether (key, metadata, hash of value) is an entry of the reference transaction.
func entryIn(r *txRec, key []byte, md *store.KVMetadata, value []byte) bool {
	var mdb []byte
	if md != nil {
		mdb = md.Bytes()
	}
	for _, e := range r.es {
		if bytes.Equal(e.Key, key) && bytes.Equal(mdBytes(e), mdb) && sha256.Sum256(e.Value) == sha256.Sum256(value) {
			return true
		}
	}
	return false
}

func (w *world) pool() []H {
	var pool []H
	for _, h := range []*hist{w.H, w.F} {
		for _, r := range h.txs {
			pool = append(pool, r.alh, r.inner, r.hdr.Eh, refLeaf(r.alh))
			if r.hdr.BlTxID > 0 {
				pool = append(pool, r.hdr.BlRoot)
			}
		}
	}
	return pool
}

func near64(rt *rapid.T, v, lo, hi uint64, label string) uint64 {
	d := rapid.SampledFrom([]int{-1, 1, -2, 2, 3, -3}).Draw(rt, label)
	x := int64(v) + int64(d)
	if x < int64(lo) {
		x = int64(lo)
	}
	if x > int64(hi) {
		x = int64(hi)
	}
	return uint64(x)
}

func mutateKVMD(rt *rapid.T, e stx.Entry) *store.KVMetadata {
	m := e
	switch rapid.IntRange(0, 3).Draw(rt, "mdMut") {
	case 0:
		m.Deleted = !m.Deleted
	case 1:
		m.NonIndexable = !m.NonIndexable
	case 2:
		m.Expire = (m.Expire + 1) % 3
	default:
		m.Deleted, m.NonIndexable, m.Expire = false, false, 0
		if e.MD() == nil {
			m.Deleted = true
		}
	}
	return m.MD()
}

const kV0MD = "K01a-v0-entry-metadata-unbound"

// soundness: a batch of adversarial answers for clients whose trusted state is a true state of H.
func checkSound(rt *rapid.T, c *vk.Case, w *world, claims int) {
	H, F := w.H, w.F
	mc := &mutCtx{rt: rt, pool: w.pool()}
	for _, h := range []*hist{H, F} {
		for _, r := range h.txs {
			mc.hdrs = append(mc.hdrs, r.hdr)
		}
	}
	holder := store.NewTx(H.cfg.MaxTxEntries, H.cfg.MaxKeyLen)
	for q := 0; q < claims; q++ {
		n := H.n()
		t := uint64(rapid.IntRange(1, int(n)).Draw(rt, "trusted"))
		if w.shared < n && rapid.IntRange(0, 2).Draw(rt, "trustPrivate") == 0 {
			t = uint64(rapid.IntRange(int(w.shared)+1, int(n)).Draw(rt, "trustedPriv")) // trusted state in H's private suffix
		}
		source := rapid.SampledFrom([]string{"H", "H", "H", "F", "F"}).Draw(rt, "answerFrom")
		S := H
		if source == "F" {
			S = F
		}
		// the tx the client asks for
		cmax := n
		if F.n() > cmax {
			cmax = F.n()
		}
		cc := uint64(rapid.IntRange(1, int(cmax)).Draw(rt, "claimed"))
		// the honest proof the adversary starts from: the server-side swap of (trusted, claimed), possibly for other ids (relabelling)
		bi, bj := min(t, cc), max(t, cc)
		relabel := rapid.IntRange(0, 6).Draw(rt, "relabel") == 0
		if relabel {
			if rapid.Bool().Draw(rt, "relabelWhich") {
				bi = near64(rt, bi, 1, bj, "relabelI")
			} else {
				bj = near64(rt, bj, bi, S.n(), "relabelJ")
			}
		}
		if bj > S.n() {
			bj = S.n()
		}
		if bi > bj {
			bi = bj
		}
		base, err := honestDual(S, bi, bj)
		if err != nil {
			c.Failf(rt, nil, "[%s] DualProof(%d,%d): %v", S.name, bi, bj, err)
		}
		usesMerkle := bi < base.TargetTxHeader.BlTxID
		usesAdvance := base.LinearAdvanceProof != nil

		// material to splice from: the same pair in the other history, and a neighbouring pair
		mc.other = mc.other[:0]
		O := F
		if S == F {
			O = H
		}
		if bj <= O.n() {
			if op, err := honestDual(O, bi, bj); err == nil {
				mc.other = append(mc.other, op)
			}
		}
		oi := uint64(rapid.IntRange(1, int(S.n())).Draw(rt, "otherJ"))
		oj := uint64(rapid.IntRange(1, int(oi)).Draw(rt, "otherI"))
		if op, err := honestDual(S, oj, oi); err == nil {
			mc.other = append(mc.other, op)
		}

		p := cloneDual(base)
		nm := rapid.SampledFrom([]int{0, 1, 1, 1, 1, 1, 2, 2, 3}).Draw(rt, "nMut")
		if source == "F" && rapid.Bool().Draw(rt, "pureSplice") {
			nm = 0
		}
		var muts []string
		for k := 0; k < nm; k++ {
			muts = append(muts, mc.mutateDual(p))
		}
		// adaptive adversary: alter the claimed target and recompute the hashes that depend on it (a fresh continuation)
		rehash := false
		if t < cc && p.TargetTxHeader != nil && p.LinearProof != nil && len(p.LinearProof.Terms) >= 2 && rapid.IntRange(0, 9).Draw(rt, "rehash") == 0 {
			p.TargetTxHeader.Ts += 11
			p.LinearProof.Terms[len(p.LinearProof.Terms)-1] = refInner(p.TargetTxHeader)
			muts = append(muts, "rehash-target")
			rehash = true
		}

		cl := claim{t: t, c: cc, proof: p}
		// entry part
		var entryMut string
		src := S
		if cc <= src.n() && rapid.IntRange(0, 2).Draw(rt, "withEntry") > 0 {
			eid := cc
			eh := src
			switch rapid.IntRange(0, 9).Draw(rt, "entryFrom") {
			case 0: // entry and proof of another transaction
				eid = uint64(rapid.IntRange(1, int(src.n())).Draw(rt, "entryTx"))
				entryMut = "other-tx"
			case 1: // entry and proof of the same id in the other history
				if cc <= O.n() {
					eh = O
					entryMut = "other-history"
				}
			}
			if err := eh.st.ReadTx(eid, false, holder); err != nil {
				c.Failf(rt, nil, "[%s] ReadTx(%d): %v", eh.name, eid, err)
			}
			r := eh.tx(eid)
			k := rapid.IntRange(0, len(r.es)-1).Draw(rt, "entryIdx")
			e := r.es[k]
			ip, err := holder.Proof(e.Key)
			if err != nil {
				c.Failf(rt, nil, "Proof: %v", err)
			}
			ec := &entryClaim{key: append([]byte{}, e.Key...), value: append([]byte{}, e.Value...), md: e.MD(), version: r.hdr.Version,
				iproof: &htree.InclusionProof{Leaf: ip.Leaf, Width: ip.Width, Terms: cloneTerms(ip.Terms)}}
			switch rapid.IntRange(0, 11).Draw(rt, "entryMut") {
			case 0:
				ec.key[rapid.IntRange(0, len(ec.key)-1).Draw(rt, "kAt")] ^= 1 << uint(rapid.IntRange(0, 7).Draw(rt, "kBit"))
				entryMut += "+key-flip"
			case 1:
				ec.key = append(ec.key, 'x')
				entryMut += "+key-append"
			case 2:
				if len(ec.value) > 0 {
					ec.value[rapid.IntRange(0, len(ec.value)-1).Draw(rt, "vAt")] ^= 1 << uint(rapid.IntRange(0, 7).Draw(rt, "vBit"))
				} else {
					ec.value = []byte{0}
				}
				entryMut += "+value-flip"
			case 3:
				o := r.es[rapid.IntRange(0, len(r.es)-1).Draw(rt, "otherEntry")]
				ec.value = append([]byte{}, o.Value...)
				entryMut += "+value-of-sibling"
			case 4:
				ec.md = mutateKVMD(rt, e)
				entryMut += "+metadata"
			case 5:
				ec.version = 1 - ec.version
				entryMut += "+version"
			case 6:
				ec.iproof.Terms, _ = mc.terms(ec.iproof.Terms, "ip")
				entryMut += "+iproof-terms"
			case 7:
				ec.iproof.Leaf += rapid.SampledFrom([]int{1, -1, 2}).Draw(rt, "leafDelta")
				entryMut += "+iproof-leaf"
			case 8:
				ec.iproof.Width += rapid.SampledFrom([]int{1, -1, 2}).Draw(rt, "widthDelta")
				entryMut += "+iproof-width"
			case 9:
				if len(ec.value) > 0 {
					ec.value = ec.value[:len(ec.value)-1]
				} else {
					ec.value = nil
				}
				entryMut += "+value-truncate"
			}
			if entryMut == "" {
				entryMut = "honest"
			}
			cl.entry = ec
		}

		v := clientVerify(H.alh(t), cl)

		// ----- oracle
		e := vk.NewEnum("TestStoreProofs/claims")
		dir := "fwd"
		if cc < t {
			dir = "back"
		} else if cc == t {
			dir = "same"
		}
		e.Descf("n=%d lag=%d t=%d c=%d base=%s(%d,%d) merkle=%v adv=%v muts=%v entry=%s", n, H.maxLag(), t, cc, source, bi, bj, usesMerkle, usesAdvance, muts, entryMut)
		what := fmt.Sprintf("client trusting (%d, Alh_H) asked for tx %d; answer built from honest %s.DualProof(%d,%d) + %v, entry: %s", t, cc, source, bi, bj, muts, entryMut)
		honest := source == "H" && nm == 0 && !rehash && !relabel && bi == min(t, cc) && bj == max(t, cc) && (cl.entry == nil || entryMut == "honest")
		switch {
		case v.panicked != "":
			// a reply that crashes the client is C16's business (nil sub-messages, unknown header version)
			e.Label("client-panic-class(C16)")
		case honest && !v.accepted:
			c.Failf(rt, nil, "honest answer rejected: %s", what)
		case v.accepted:
			e.Label("accepted")
			var X *hist // the history the accepted claim belongs to
			switch {
			case cc <= H.n() && v.claimedAlh == H.alh(cc):
				X = H
				e.Label("accepted-true-claim")
			case cc > t && cc <= F.n() && v.claimedAlh == F.alh(cc) && t <= w.shared:
				X = F // F really extends the trusted state
				e.Label("accepted-legit-extension-F")
			case cc > t && rehash:
				e.Label("accepted-fresh-continuation(unfalsifiable)")
			default:
				belongs := "a hash that is in neither history"
				if cc <= F.n() && v.claimedAlh == F.alh(cc) {
					belongs = fmt.Sprintf("the fork's Alh_F(%d) although the fork diverged at %d", cc, w.shared+1)
				}
				msg := fmt.Sprintf("FALSE CLAIM ACCEPTED: %s; accepted Alh(%d) is %s", what, cc, belongs)
				c.Failf(rt, dumpClaim(cl), "%s", msg)
			}
			if X != nil && cl.entry != nil {
				ec := cl.entry
				r := X.tx(cc)
				if !entryIn(r, ec.key, ec.md, ec.value) {
					v0md := r.hdr.Version == 0 && ec.version == 0 && ec.md != nil && entryIn(r, ec.key, nil, ec.value)
					if v0md {
						if !vk.Excluded(kV0MD) {
							msg := fmt.Sprintf("FORGED METADATA ACCEPTED on a version-0 tx: %s", what)
							c.Failf(rt, dumpClaim(cl), "%s", msg)
						}
						vk.CountExcluded(kV0MD)
						e.Label("accepted-forged-metadata-v0(K01a)")
					} else {
						msg := fmt.Sprintf("FORGED ENTRY ACCEPTED: %s; (key=%q md=%v value=%q) is not an entry of %s tx %d %v", what, ec.key, ec.md, trunc(ec.value), X.name, cc, r.es)
						c.Failf(rt, dumpClaim(cl), "%s", msg)
					}
				}
			}
		}
		e.Label("dir-" + dir)
		e.Label("from-" + source)
		if relabel {
			e.Label("relabel")
		}
		for _, m := range muts {
			e.Label("mut-" + mutClass(m))
		}
		if cl.entry != nil {
			e.Label("with-entry")
		}
		if t > w.shared && source == "F" {
			e.Label("fork-splice-vs-private-state")
		}
		if usesMerkle {
			e.Label("base-merkle-part")
		}
		if usesAdvance {
			e.Label("base-linear-advance")
		}
		if (usesMerkle || usesAdvance) && (nm > 0 || source == "F" || relabel || (cl.entry != nil && entryMut != "honest")) {
			e.NonTrivial()
		}
		e.Done()
	}
}

func mutClass(m string) string {
	for i := 0; i < len(m); i++ {
		if m[i] == '.' || m[i] == ':' {
			return m[:i]
		}
	}
	return m
}

func trunc(b []byte) []byte {
	if len(b) > 24 {
		return b[:24]
	}
	return b
}

func dumpClaim(cl claim) map[string]any {
	d := map[string]any{"trusted": cl.t, "claimed": cl.c}
	p := cl.proof
	if p != nil {
		d["src"] = fmt.Sprintf("%+v", p.SourceTxHeader)
		d["tgt"] = fmt.Sprintf("%+v", p.TargetTxHeader)
		d["incl"] = len(p.InclusionProof)
		d["cons"] = len(p.ConsistencyProof)
		d["last"] = len(p.LastInclusionProof)
		if p.LinearProof != nil {
			d["linear"] = fmt.Sprintf("%d..%d terms=%d", p.LinearProof.SourceTxID, p.LinearProof.TargetTxID, len(p.LinearProof.Terms))
		}
		if p.LinearAdvanceProof != nil {
			d["advance"] = fmt.Sprintf("terms=%d proofs=%d", len(p.LinearAdvanceProof.LinearProofTerms), len(p.LinearAdvanceProof.InclusionProofs))
		}
	}
	if e := cl.entry; e != nil {
		d["entry"] = fmt.Sprintf("key=%q md=%v value=%q version=%d leaf=%d width=%d terms=%d", e.key, e.md, trunc(e.value), e.version, e.iproof.Leaf, e.iproof.Width, len(e.iproof.Terms))
	}
	return d
}

var _ = time.Second

// ---------------------------------------------------------------------------
// DualProofV2 (used by document verification): only defined between transactions that link to their predecessor

const kV2Same = "K01g-dualproofv2-same-id-unbound"

func cloneDualV2(p *store.DualProofV2) *store.DualProofV2 {
	return &store.DualProofV2{SourceTxHeader: cloneHdr(p.SourceTxHeader), TargetTxHeader: cloneHdr(p.TargetTxHeader),
		InclusionProof: cloneTerms(p.InclusionProof), ConsistencyProof: cloneTerms(p.ConsistencyProof)}
}

func noLagIDs(h *hist) []uint64 {
	var ids []uint64
	for _, r := range h.txs {
		if r.hdr.BlTxID == r.id-1 {
			ids = append(ids, r.id)
		}
	}
	return ids
}

func checkSoundV2(rt *rapid.T, c *vk.Case, w *world, claims int) {
	H, F := w.H, w.F
	idsH := noLagIDs(H)
	if len(idsH) == 0 {
		return
	}
	mc := &mutCtx{rt: rt, pool: w.pool()}
	for _, h := range []*hist{H, F} {
		for _, r := range h.txs {
			mc.hdrs = append(mc.hdrs, r.hdr)
		}
	}
	pickID := func(ids []uint64, label string) uint64 { return ids[rapid.IntRange(0, len(ids)-1).Draw(rt, label)] }
	for q := 0; q < claims; q++ {
		t := pickID(idsH, "v2trusted")
		S, source := H, "H"
		if rapid.IntRange(0, 2).Draw(rt, "v2from") == 0 {
			S, source = F, "F"
		}
		idsS := noLagIDs(S)
		if len(idsS) == 0 {
			continue
		}
		cc := pickID(idsS, "v2claimed")
		bi, bj := min(t, cc), max(t, cc)
		if bj > S.n() || S.tx(bi).hdr.BlTxID != bi-1 || S.tx(bj).hdr.BlTxID != bj-1 {
			continue
		}
		hi, err := storeHdr(S, bi)
		if err != nil {
			c.Failf(rt, nil, "ReadTxHeader: %v", err)
		}
		hj, err := storeHdr(S, bj)
		if err != nil {
			c.Failf(rt, nil, "ReadTxHeader: %v", err)
		}
		base, err := S.st.DualProofV2(hi, hj)
		if err != nil {
			c.Failf(rt, nil, "[%s] DualProofV2(%d,%d): %v", S.name, bi, bj, err)
		}
		p := cloneDualV2(base)
		nm := rapid.SampledFrom([]int{0, 1, 1, 1, 2}).Draw(rt, "v2nMut")
		var muts []string
		for k := 0; k < nm; k++ {
			switch rapid.IntRange(0, 5).Draw(rt, "v2mut") {
			case 0:
				muts = append(muts, "src."+mc.header(p.SourceTxHeader, "v2src"))
			case 1:
				muts = append(muts, "tgt."+mc.header(p.TargetTxHeader, "v2tgt"))
			case 2:
				var k string
				p.InclusionProof, k = mc.terms(p.InclusionProof, "v2incl")
				muts = append(muts, "incl."+k)
			case 3:
				var k string
				p.ConsistencyProof, k = mc.terms(p.ConsistencyProof, "v2cons")
				muts = append(muts, "cons."+k)
			case 4:
				hd := cloneHdr(mc.hdrs[rapid.IntRange(0, len(mc.hdrs)-1).Draw(rt, "v2hdrIdx")])
				if rapid.Bool().Draw(rt, "v2swapWhich") {
					p.SourceTxHeader = hd
					muts = append(muts, "swapHdr.src")
				} else {
					p.TargetTxHeader = hd
					muts = append(muts, "swapHdr.tgt")
				}
			default:
				// relabel: claim another id with the same proof
				cc = uint64(rapid.IntRange(1, int(max(H.n(), F.n()))).Draw(rt, "v2relabel"))
				muts = append(muts, "relabel")
			}
		}
		// the caller of VerifyDualProofV2 proceeds as with the first proof format
		var srcID, tgtID uint64
		var srcAlh, tgtAlh, claimed [sha256.Size]byte
		accepted, panicked := false, false
		func() {
			defer func() {
				if recover() != nil {
					panicked = true
				}
			}()
			if t <= cc {
				srcID, srcAlh, tgtID, tgtAlh = t, H.alh(t), cc, p.TargetTxHeader.Alh()
				claimed = tgtAlh
			} else {
				srcID, srcAlh, tgtID, tgtAlh = cc, p.SourceTxHeader.Alh(), t, H.alh(t)
				claimed = srcAlh
			}
			accepted = store.VerifyDualProofV2(p, srcID, tgtID, srcAlh, tgtAlh) == nil
		}()
		e := vk.NewEnum("TestStoreProofs/claimsV2")
		e.Descf("n=%d t=%d c=%d base=%s(%d,%d) muts=%v", H.n(), t, cc, source, bi, bj, muts)
		what := fmt.Sprintf("V2: client trusting (%d, Alh_H) asked for tx %d; answer built from honest %s.DualProofV2(%d,%d) + %v", t, cc, source, bi, bj, muts)
		switch {
		case panicked:
			e.Label("client-panic-class(C16)")
		case source == "H" && nm == 0 && !accepted:
			c.Failf(rt, nil, "honest answer rejected: %s", what)
		case accepted:
			e.Label("accepted")
			switch {
			case cc <= H.n() && claimed == H.alh(cc):
				e.Label("accepted-true-claim")
			case cc > t && cc <= F.n() && claimed == F.alh(cc) && t <= w.shared:
				e.Label("accepted-legit-extension-F")
			case cc > t && !(cc <= F.n() && claimed == F.alh(cc)):
				// a target header nobody committed (any field the tree does not pin was altered): with this proof format the
				// target is tied to the trusted state only through its BlRoot, so this is a fresh continuation, unfalsifiable
				e.Label("accepted-fresh-continuation(unfalsifiable)")
			case cc == t:
				// same id on both sides: the two headers are never compared with each other
				if !vk.Excluded(kV2Same) {
					c.Failf(rt, nil, "FALSE CLAIM ACCEPTED: %s; VerifyDualProofV2 with source id == target id accepted two different headers for tx %d", what, cc)
				}
				vk.CountExcluded(kV2Same)
				e.Label("accepted-false-claim-same-id(K01g)")
			default:
				c.Failf(rt, nil, "FALSE CLAIM ACCEPTED: %s; accepted Alh(%d) is not the history's", what, cc)
			}
		}
		for _, m := range muts {
			e.Label("mut-" + mutClass(m))
		}
		if nm > 0 || source == "F" {
			e.NonTrivial()
		}
		e.Done()
	}
}

// probeV2Same: VerifyDualProofV2 returns early when source id == target id, after checking each header against
// "its" Alh only: (trusted header of tx 2, any other header carrying id 2) verifies.
func probeV2Same() (bool, string) {
	a := &store.TxHeader{ID: 2, Ts: 10, BlTxID: 1, Version: 1, NEntries: 1}
	b := &store.TxHeader{ID: 2, Ts: 11, BlTxID: 1, Version: 1, NEntries: 1}
	p := &store.DualProofV2{SourceTxHeader: a, TargetTxHeader: b}
	if a.Alh() != b.Alh() && store.VerifyDualProofV2(p, 2, 2, a.Alh(), b.Alh()) == nil {
		return true, "VerifyDualProofV2(src hdr A, tgt hdr B, 2, 2, Alh(A), Alh(B)) = nil for two different headers with id 2"
	}
	return false, ""
}
