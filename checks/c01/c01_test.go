// C01 — verified reads/writes: proofs are complete and sound (tamper evidence).
package c01

import (
	"testing"

	"pgregory.net/rapid"

	"verif/internal/vk"
)

func TestMain(m *testing.M) {
	vk.Main(m, vk.Config{
		Property: "C01",
		Rule: "(a) rapid-generated histories on a real store (1-60 txs, 1-8 entries, kv/tx metadata, header version 0/1/mixed, native commits or " +
			"hand-assembled replicated txs whose binary linking lags the linear chain) plus a fork store sharing a replicated prefix; every honest " +
			"proof must verify against an independent re-statement of the hashing rules; then batches of adversarial answers (field mutation of both " +
			"headers and of every term list, sub-proof swaps, splices from the fork, relabelling, entry/inclusion-proof alteration) are pushed through " +
			"the client's verification steps for a client that trusts a true state of H: accept => the accepted Alh/entry is H's (or a history that " +
			"really extends the trusted state). (b) synthetic equivocating servers (Merkle tree inconsistent with the linear chain) against a client " +
			"session: no two different Alh for one tx id are ever accepted. (c) real server + real client with a reply-mutating interceptor. " +
			"Non-trivial: the honest base proof uses the Merkle part (src < BlTxID of dst) or a linear-advance proof and the answer is altered; " +
			"sessions in which the equivocated position was seen by the client before; distinct by hash of (shape, ids, mutation names).",
		Assumptions: []string{
			"SHA-256 is collision resistant; forgeries needing a collision are out of reach",
			"the client's trusted state is a true state of the reference history H (a verifier binds claims only relative to trusted inputs)",
			"a continuation of the trusted state that the adversary hashes afresh (altered target header + recomputed linear term) is a legitimate, unfalsifiable extension: counted, not asserted",
			"replies that crash the client (nil sub-messages, unknown header version) are property C16's: recovered and counted here",
			"state signatures (optional step 9) are not exercised: no signing key is configured",
		},
		Probes: []vk.Probe{
			{ID: kV0MD, Present: probeV0MD},
			{ID: kBlLeaf, Present: probeBlLeaf},
			{ID: kTxByID, Present: probeTxByID},
			{ID: kGetKey, Present: probeGetKey},
			{ID: kHdrEh, Present: probeHdrEh},
		},
	})
}

func removeWorld(w *world) { w.close() }

// TestStoreProofs: completeness of everything the store hands out + soundness of the client-side verification steps.
func TestStoreProofs(t *testing.T) {
	maxN, claims := 40, 60
	if vk.Thorough() {
		maxN, claims = 60, 120
	}
	vk.Check(t, 700, 40000, func(rt *rapid.T, c *vk.Case) {
		w := buildWorld(rt, c, maxN)
		defer removeWorld(w)
		checkComplete(rt, c, w.H, 25)
		checkComplete(rt, c, w.F, 8)
		checkSound(rt, c, w, claims)
		if w.H.maxLag() > 1 {
			c.Label("lag>1")
		}
		if w.H.maxLag() > 0 {
			c.Label("lagging")
		}
		if w.shared < w.H.n() {
			c.Label("fork-diverges-inside-H")
		}
		if c.Has("complete-merkle-part") || c.Has("complete-linear-advance") {
			c.NonTrivial()
		}
	})
}
