// C01 — verified reads/writes: proofs are complete and sound (tamper evidence).
package c01

import (
	"testing"

	"pgregory.net/rapid"

	"verif/internal/vk"
)

func TestMain(m *testing.M) {
	vk.Main(m, vk.Config{
		Property: "C01",
		Rule: "(a) TestStoreProofs: rapid-generated histories on a real store (1-60 txs, 1-8 entries, kv/tx metadata, header version 0/1/mixed, native commits or " +
			"hand-assembled replicated txs whose binary linking lags the linear chain by a generated amount) plus a fork store sharing a replicated prefix; every honest " +
			"DualProof/DualProofV2/LinearProof/LinearAdvanceProof/entry inclusion proof must verify against an independent re-statement of the hashing rules; then batches of " +
			"adversarial answers (mutation of every field of both headers and of every term list, sub-proof swaps, nil parts, splices from the fork, relabelling, entry / " +
			"inclusion-proof alteration, adaptive re-hashing) go through the client's verification steps for a client that trusts a true state of H: accept => the accepted " +
			"Alh/entry is H's (or belongs to a history that really extends the trusted state). (b) TestEquivocationSessions: synthetic equivocating servers (one honest " +
			"linear chain, Merkle tree holding another transaction's Alh at generated positions, optionally rewritten later, optionally lying source headers) against a " +
			"client session of forward/backward verified reads: no accepted verification may pair a source Alh with a target whose tree contradicts the source chain, and " +
			"no tx id is ever accepted with two different Alh. (c) TestClientServer: real server (bufconn) + real pkg/client (one without, one with the state-signing " +
			"public key) + a reply-altering interceptor over VerifiedGet*/VerifiedTxByID/VerifiedSet/SetReference/ZAdd/VerifyRow: success => stored state is a true, " +
			"non-decreasing, (validly signed) state and the returned data is the history's. Non-trivial: (a) the honest base proof uses the Merkle part (src < BlTxID of dst) " +
			"or a linear-advance proof and the answer is altered; (b) the client read an equivocated position or a step was rejected; (c) a reply was altered; " +
			"distinct by hash of (shape, ids, mutation names).",
		Assumptions: []string{
			"SHA-256 is collision resistant; forgeries needing a collision are out of reach",
			"the client's trusted state is a true state of the reference history H (a verifier binds claims only relative to trusted inputs); first contact is trusted as pkg/client does",
			"a continuation of the trusted state that the adversary hashes afresh (altered target header + recomputed linear term; with DualProofV2 any target header whose BlRoot extends the trusted tree) is a legitimate, unfalsifiable extension: counted, not asserted",
			"replies that crash the client (nil sub-messages, unknown header version) and the unbounded column count of an encoded SQL row are property C16's: recovered / not generated, and counted here",
			"the value a reference resolves to is not covered by the proof (docs/security/PROOFS.md: the proof is for the reference entry): only the reference entry is asserted",
			"Entry.Revision and Entry.Expired are not provable and not asserted; staleness of an unpinned VerifiedGet (an older true version) is not asserted",
			"VerifyDocument (pkg/verification) and streaming verified calls are not driven end to end; DualProofV2, which VerifyDocument relies on, is covered at store level",
			"equivocating servers use single-position alternatives (same id/PrevAlh/linking, other entries); alternatives spanning several consecutive leaves are not generated",
		},
		Probes: []vk.Probe{
			{ID: kV0MD, Present: probeV0MD},
			{ID: kBlLeaf, Present: probeBlLeaf},
			{ID: kBlLag, Present: probeBlLag},
			{ID: kTxByID, Present: probeTxByID},
			{ID: kGetKey, Present: probeGetKey},
			{ID: kHdrEh, Present: probeHdrEh},
			{ID: kSQLCatalog, Present: probeSQLCatalog},
			{ID: kV2Same, Present: probeV2Same},
		},
	})
}

func removeWorld(w *world) { w.close() }

// TestStoreProofs: completeness of everything the store hands out + soundness of the client-side verification steps.
func TestStoreProofs(t *testing.T) {
	maxN, claims := 40, 60
	if vk.Thorough() {
		maxN, claims = 60, 120
	}
	vk.Check(t, 700, 10000, func(rt *rapid.T, c *vk.Case) {
		w := buildWorld(rt, c, maxN)
		defer removeWorld(w)
		checkComplete(rt, c, w.H, 25)
		checkComplete(rt, c, w.F, 8)
		checkSound(rt, c, w, claims)
		checkSoundV2(rt, c, w, claims/3)
		if w.H.maxLag() > 1 {
			c.Label("lag>1")
		}
		if w.H.maxLag() > 0 {
			c.Label("lagging")
		}
		if w.shared < w.H.n() {
			c.Label("fork-diverges-inside-H")
		}
		if c.Has("complete-merkle-part") || c.Has("complete-linear-advance") {
			c.NonTrivial()
		}
	})
}
