package c01

import (
	"bytes"
	"context"

	"github.com/codenotary/immudb/embedded/htree"
	"github.com/codenotary/immudb/embedded/store"
	"github.com/codenotary/immudb/pkg/api/schema"
	"google.golang.org/protobuf/proto"
)

// probeV0MD: the digest of an entry of a version-0 transaction ignores the metadata the reply carries, so a
// reply that adds {deleted} (or an expiration) to an entry of such a transaction passes the inclusion check.
func probeV0MD() (bool, string) {
	key, value := []byte("k"), []byte("v")
	tr, err := htree.New(1)
	if err != nil {
		return false, ""
	}
	if err := tr.BuildWith([][32]byte{refEntryDigest(0, key, nil, value)}); err != nil {
		return false, ""
	}
	ip, err := tr.InclusionProof(0)
	if err != nil {
		return false, ""
	}
	md := store.NewKVMetadata()
	md.AsDeleted(true)
	digest, err := store.EntrySpecDigestFor(0)
	if err != nil {
		return false, ""
	}
	if store.VerifyInclusion(ip, digest(&store.EntrySpec{Key: key, Metadata: md, Value: value}), tr.Root()) {
		return true, "EntrySpecDigestFor(0): entry (k,v) of a version-0 tx verifies with forged metadata {deleted:true}"
	}
	return false, ""
}

// probeBlLeaf: the minimal equivocation that survives VerifyDualProof on a database WITHOUT any binary-linking lag
// (BlTxID = ID-1 everywhere). The server keeps one honest linear chain 1..4 but appends, as leaf 2 of its Merkle
// tree, the Alh of a different transaction 2'. A client that verified its own write of tx 2, then tx 3, then tx 4
// (each a one-step advance: source >= target.BlTxID, the "linear" branch) is later served tx 2' for tx 2 and the
// proof verifies: TargetBlTxAlh (and the linear-advance chain ending in it) is never tied to the trusted source Alh.
func probeBlLeaf() (bool, string) {
	e := buildEvil([]uint64{0, 1, 2, 3}, []equivocation{{p: 2, from: 3}})
	defer e.close()
	s := &session{e: e, state: 2, stateAlh: e.tx(2).alh, accepted: map[uint64]H{2: e.tx(2).alh}}
	for _, t := range []uint64{3, 4} {
		st, _, err := s.request(t, false, false)
		if err != nil || !st.accepted {
			return false, ""
		}
	}
	st, alh, err := s.request(2, false, false)
	if err != nil || !st.accepted {
		return false, ""
	}
	if alh != e.tx(2).alh && alh == e.tx(2).altAlh {
		return true, "no-lag chain 1..4, tree leaf 2 = Alh of another tx 2': client state (2,Alh2) -> verified 3 -> verified 4 -> VerifyDualProof(2' -> 4) = true: tx 2 verified twice with different content"
	}
	return false, ""
}

// probeTxByID: VerifiedTxByID verifies the dual proof of the reply but never compares the transaction it returns
// (header, entries) with the proven header: a reply whose entry digests were altered is returned as verified.
func probeTxByID() (bool, string) {
	e2eOnce.Do(func() { e2eFix, e2eErr = buildE2E() })
	if e2eErr != nil {
		return false, ""
	}
	f := e2eFix
	ctx := context.Background()
	f.st.SetState("defaultdb", &schema.ImmutableState{Db: "defaultdb", TxId: 1, TxHash: f.txs[0].alh[:]})
	f.mitm.arm("VerifiableTxById", func(m proto.Message) string {
		vt := m.(*schema.VerifiableTx)
		vt.Tx.Entries[0].HValue = make([]byte, 32)
		vt.Tx.Entries[0].Key = append([]byte{0}, []byte("forged-key")...)
		return "forged"
	})
	res := guard(func() opResult { tx, err := f.cl.VerifiedTxByID(ctx, 2); return opResult{err: err, tx: tx} })
	f.mitm.result()
	if res.panicked == "" && res.err == nil && res.tx != nil && len(res.tx.Entries) > 0 && string(res.tx.Entries[0].Key) == "forged-key" {
		return true, "VerifiedTxByID(2) with the reply's Tx.Entries[0] replaced by (forged-key, zero hash) returns nil error and the forged entry"
	}
	return false, ""
}

// probeGetKey: verifiedGet builds the verified entry from the REQUESTED key (and requested AtTx) but returns the
// reply's Entry untouched: Entry.Key (no reference involved) and Entry.Tx (when AtTx was given) are not compared.
func probeGetKey() (bool, string) {
	e2eOnce.Do(func() { e2eFix, e2eErr = buildE2E() })
	if e2eErr != nil {
		return false, ""
	}
	f := e2eFix
	ctx := context.Background()
	f.st.SetState("defaultdb", &schema.ImmutableState{Db: "defaultdb", TxId: 1, TxHash: f.txs[0].alh[:]})
	f.mitm.arm("VerifiableGet", func(m proto.Message) string {
		ve := m.(*schema.VerifiableEntry)
		ve.Entry.Key = []byte("another-key")
		return "forged"
	})
	res := guard(func() opResult { e, err := f.cl.VerifiedGet(ctx, f.keys[1]); return opResult{err: err, entry: e} })
	f.mitm.result()
	if res.panicked == "" && res.err == nil && res.entry != nil && string(res.entry.Key) == "another-key" {
		return true, "VerifiedGet(key-1) with the reply's Entry.Key replaced by another-key returns nil error and Entry.Key=another-key"
	}
	return false, ""
}

// probeHdrEh: VerifiedSet / VerifiedSetReference / VerifiedZAdd rebuild the transaction with schema.TxFromProto,
// which recomputes Eh from the entries, verify with that, and then return the reply's header: its EH field is
// never looked at.
func probeHdrEh() (bool, string) {
	e2eOnce.Do(func() { e2eFix, e2eErr = buildE2E() })
	if e2eErr != nil {
		return false, ""
	}
	f := e2eFix
	ctx := context.Background()
	f.mitm.arm("VerifiableSet", func(m proto.Message) string {
		m.(*schema.VerifiableTx).Tx.Header.EH = make([]byte, 32)
		return "forged"
	})
	res := guard(func() opResult {
		h, err := f.cl.VerifiedSet(ctx, []byte("probe-key"), []byte("probe-value"))
		return opResult{err: err, hdr: h}
	})
	f.mitm.result()
	f.sync(ctx)
	if res.panicked == "" && res.err == nil && res.hdr != nil && bytes.Equal(res.hdr.EH, make([]byte, 32)) {
		return true, "VerifiedSet with the reply's Tx.Header.EH zeroed returns nil error and a header whose EH is all zeroes"
	}
	return false, ""
}

// probeBlLag: the smallest history with lagging binary linking where VerifyDualProof accepts a tree that contradicts
// the trusted chain. BlTxID of txs 1..5 = 0,1,1,2,4; the tree of tx 4 (size 2) holds the Alh of another tx 2' as
// leaf 2. A client trusting (3, Alh3) verifies tx 2 through the linear chain (2 >= BlTxID of 3), advances 3 -> 4
// (source 3 > target.BlTxID 2: TargetBlTxAlh = Alh(2') is only checked against the target's own BlRoot, and no linear
// proof 2 -> 3 exists in the proof format), then 4 -> 5, and is finally served tx 2' for tx 2 out of the tree.
func probeBlLag() (bool, string) {
	e := buildEvil([]uint64{0, 1, 1, 2, 4}, []equivocation{{p: 2, from: 4}})
	defer e.close()
	s := &session{e: e, state: 3, stateAlh: e.tx(3).alh, accepted: map[uint64]H{3: e.tx(3).alh}}
	st, first, err := s.request(2, false, false)
	if err != nil || !st.accepted || first != e.tx(2).alh {
		return false, ""
	}
	for _, t := range []uint64{4, 5} {
		st, _, err := s.request(t, false, false)
		if err != nil || !st.accepted {
			return false, ""
		}
	}
	st, again, err := s.request(2, false, false)
	if err != nil || !st.accepted {
		return false, ""
	}
	if again == e.tx(2).altAlh && again != first {
		return true, "BlTxID 0,1,1,2,4; tree leaf 2 = Alh of another tx 2' from tx 4 on: client state (3,Alh3) verifies tx 2, then VerifyDualProof(3->4) [source 3 > target.BlTxID 2] = true, (4->5) = true, (2'->5) = true: tx 2 verified twice with different content"
	}
	return false, ""
}
