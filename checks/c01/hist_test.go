package c01

import (
	"bytes"
	"context"
	"crypto/sha256"
	"encoding/binary"
	"fmt"
	"os"
	"time"

	"github.com/codenotary/immudb/embedded/store"
	"pgregory.net/rapid"

	"verif/internal/refmodel"
	"verif/internal/stx"
)

// txRec is one transaction of a reference history.
type txRec struct {
	id    uint64
	hdr   *store.TxHeader // reference header (assembled by the harness, or read back for native commits)
	alh   H               // refAlh(hdr)
	inner H
	es    []stx.Entry
	txmd  string // "", "extra", "trunc", "both"
}

// hist is a history on a real store together with its reference model.
type hist struct {
	name     string
	dir      string
	st       *store.ImmuStore
	cfg      stx.Cfg
	txs      []*txRec // txs[id-1]
	leaves   []H      // main-tree leaf hashes of the linear chain
	roots    []H      // roots[k] = root of the main tree of size k (index 0 unused)
	exported [][]byte // what was replicated (nil for native commits)
	clock    int64
}

func (h *hist) n() uint64           { return uint64(len(h.txs)) }
func (h *hist) tx(id uint64) *txRec { return h.txs[id-1] }
func (h *hist) alh(id uint64) H     { return h.txs[id-1].alh }
func (h *hist) hdr(id uint64) *store.TxHeader {
	c := *h.txs[id-1].hdr
	return &c
}

// prevAlh is the accumulated hash before tx id (the hash of the empty string before the first one).
func (h *hist) prevAlh(id uint64) H {
	if id <= 1 {
		return sha256.Sum256(nil)
	}
	return h.alh(id - 1)
}

func (h *hist) close() {
	if h.st != nil {
		h.st.Close()
		h.st = nil
	}
	if h.dir != "" {
		os.RemoveAll(h.dir)
	}
}

func openHist(name, dir string, cfg stx.Cfg) (*hist, error) {
	h := &hist{name: name, dir: dir, cfg: cfg, clock: 1_600_000_000}
	opts := cfg.Options().WithMaxConcurrency(3).WithTimeFunc(func() time.Time {
		h.clock += 3
		return time.Unix(h.clock, 0)
	})
	st, err := store.Open(dir, opts)
	if err != nil {
		return nil, err
	}
	h.st = st
	h.roots = []H{{}}
	return h, nil
}

func (h *hist) record(hdr *store.TxHeader, es []stx.Entry, txmd string, exported []byte) *txRec {
	r := &txRec{id: hdr.ID, hdr: hdr, alh: refAlh(hdr), inner: refInner(hdr), es: es, txmd: txmd}
	h.txs = append(h.txs, r)
	h.leaves = append(h.leaves, refLeaf(r.alh))
	h.roots = refmodel.Roots(h.leaves)
	h.exported = append(h.exported, exported)
	return r
}

// assemble builds the wire form ExportTx produces for (hdr, entries).
func assemble(hdr *store.TxHeader, es []stx.Entry) ([]byte, error) {
	hb, err := hdr.Bytes()
	if err != nil {
		return nil, err
	}
	var b []byte
	b = binary.BigEndian.AppendUint32(b, uint32(len(hb)))
	b = append(b, hb...)
	for _, e := range es {
		b = binary.BigEndian.AppendUint16(b, uint16(len(e.Key)))
		b = append(b, e.Key...)
		md := mdBytes(e)
		b = binary.BigEndian.AppendUint16(b, uint16(len(md)))
		b = append(b, md...)
		b = binary.BigEndian.AppendUint32(b, uint32(len(e.Value)))
		b = append(b, e.Value...)
	}
	b = binary.BigEndian.AppendUint16(b, 1)
	b = append(b, 0)
	return b, nil
}

func buildTxMD(kind string, id uint64) *store.TxMetadata {
	if kind == "" {
		return nil
	}
	md := store.NewTxMetadata()
	if kind == "trunc" || kind == "both" {
		md.WithTruncatedTxID(id/2 + 1)
	}
	if kind == "extra" || kind == "both" {
		md.WithExtra([]byte(fmt.Sprintf("extra-%d", id)))
	}
	return md
}

// appendAssembled replicates a hand-assembled transaction whose binary linking points at blTxID (< id).
func (h *hist) appendAssembled(version int, ts int64, blTxID uint64, txmd string, es []stx.Entry) (*txRec, error) {
	id := h.n() + 1
	hdr := &store.TxHeader{ID: id, Ts: ts, BlTxID: blTxID, Version: version, NEntries: len(es)}
	if blTxID > 0 {
		hdr.BlRoot = h.roots[blTxID]
	}
	hdr.PrevAlh = h.prevAlh(id)
	hdr.Metadata = buildTxMD(txmd, id)
	hdr.Eh = refEh(version, es)
	bs, err := assemble(hdr, es)
	if err != nil {
		return nil, fmt.Errorf("assemble: %w", err)
	}
	return h.replicate(bs, hdr, es, txmd)
}

func (h *hist) replicate(bs []byte, hdr *store.TxHeader, es []stx.Entry, txmd string) (*txRec, error) {
	got, err := h.st.ReplicateTx(context.Background(), bs, false, false)
	if err != nil {
		return nil, fmt.Errorf("ReplicateTx(id=%d bl=%d v=%d): %w", hdr.ID, hdr.BlTxID, hdr.Version, err)
	}
	if got.Alh() != refAlh(hdr) {
		return nil, fmt.Errorf("ReplicateTx(id=%d): store Alh %x differs from the reference %x", hdr.ID, got.Alh(), refAlh(hdr))
	}
	if hdr.Metadata == nil {
		hdr.Metadata = store.NewTxMetadata() // what Tx.Header() reports
	}
	return h.record(hdr, es, txmd, bs), nil
}

// appendNative commits through the ordinary write path (binary linking = id-1).
func (h *hist) appendNative(es []stx.Entry) (*txRec, error) {
	got, err := stx.Commit(h.st, es, false)
	if err != nil {
		return nil, err
	}
	if got.ID != h.n()+1 {
		return nil, fmt.Errorf("commit returned id %d, expected %d", got.ID, h.n()+1)
	}
	// reference expectations for a native commit
	if got.BlTxID != got.ID-1 {
		return nil, fmt.Errorf("native commit %d has BlTxID %d", got.ID, got.BlTxID)
	}
	if got.BlTxID > 0 && got.BlRoot != h.roots[got.BlTxID] {
		return nil, fmt.Errorf("native commit %d: BlRoot differs from the reference root of size %d", got.ID, got.BlTxID)
	}
	if got.PrevAlh != h.prevAlh(got.ID) {
		return nil, fmt.Errorf("native commit %d: PrevAlh differs from the reference", got.ID)
	}
	if got.Eh != refEh(got.Version, es) {
		return nil, fmt.Errorf("native commit %d: Eh differs from the reference entries hash", got.ID)
	}
	if got.Alh() != refAlh(got) {
		return nil, fmt.Errorf("native commit %d: Alh() differs from the reference", got.ID)
	}
	return h.record(got, es, "", nil), nil
}

// ---------------------------------------------------------------------------
// generators

type shape struct {
	n       int
	native  bool   // ordinary commits (no lag) instead of assembled txs
	lagMode string // "none", "some", "long"
	verMode int    // 0, 1, 2 = mixed
}

func genShape(rt *rapid.T, maxN int) shape {
	s := shape{}
	switch rapid.IntRange(0, 9).Draw(rt, "sizeClass") {
	case 0, 1, 2:
		s.n = rapid.IntRange(1, 6).Draw(rt, "nSmall")
	case 3, 4, 5, 6, 7:
		s.n = rapid.IntRange(4, 24).Draw(rt, "nMid")
	default:
		s.n = rapid.IntRange(20, maxN).Draw(rt, "nBig")
	}
	s.native = rapid.IntRange(0, 5).Draw(rt, "native") == 0
	s.lagMode = rapid.SampledFrom([]string{"none", "some", "some", "long", "long"}).Draw(rt, "lagMode")
	s.verMode = rapid.SampledFrom([]int{1, 1, 0, 2, 2}).Draw(rt, "verMode")
	if s.native {
		s.lagMode = "none"
		if s.verMode == 2 {
			s.verMode = 1
		}
	}
	return s
}

// nextBl draws the binary-linking position of tx id given the previous one (monotone, < id).
func nextBl(rt *rapid.T, mode string, id, prevBl uint64) uint64 {
	max := id - 1
	if mode == "none" || max == 0 {
		return max
	}
	var c int
	if mode == "some" {
		c = rapid.SampledFrom([]int{0, 0, 0, 1, 2, 3}).Draw(rt, "blChoice")
	} else {
		c = rapid.SampledFrom([]int{0, 1, 1, 1, 1, 2, 3}).Draw(rt, "blChoice")
	}
	switch c {
	case 0:
		return max // caught up
	case 1:
		return prevBl // binary linking did not advance at all
	case 2:
		return uint64(rapid.IntRange(int(prevBl), int(max)).Draw(rt, "blAny"))
	default:
		if max >= 1 && max-1 >= prevBl {
			return max - 1
		}
		return prevBl
	}
}

var keyPool = [][]byte{[]byte("a"), []byte("b"), []byte("k1"), []byte("k2"), []byte("k3"), []byte("key-4"), []byte("key-5"), {0}, {0, 1}, {0xff}}

func genEntries(rt *rapid.T, cfg stx.Cfg, version int, salt int) []stx.Entry {
	n := 1
	switch rapid.IntRange(0, 5).Draw(rt, "nEntriesClass") {
	case 0, 1:
		n = rapid.IntRange(2, 4).Draw(rt, "nFew")
	case 2:
		n = rapid.IntRange(5, 8).Draw(rt, "nMany")
	}
	if n > cfg.MaxTxEntries {
		n = cfg.MaxTxEntries
	}
	seen := map[string]bool{}
	var out []stx.Entry
	for i := 0; i < n; i++ {
		var k []byte
		switch rapid.IntRange(0, 9).Draw(rt, "keyShape") {
		case 0:
			k = bytes.Repeat([]byte{'L'}, cfg.MaxKeyLen)
			k[len(k)-1] = byte('a' + i)
		case 1:
			k = []byte(fmt.Sprintf("uniq-%d-%d", salt, i))
		default:
			k = keyPool[rapid.IntRange(0, len(keyPool)-1).Draw(rt, "keyIdx")]
		}
		if seen[string(k)] {
			k = []byte(fmt.Sprintf("%s#%d", k, i))
			if len(k) > cfg.MaxKeyLen {
				k = []byte(fmt.Sprintf("dup-%d-%d", salt, i))
			}
		}
		seen[string(k)] = true
		e := stx.Entry{Key: append([]byte{}, k...)}
		switch rapid.IntRange(0, 9).Draw(rt, "valShape") {
		case 0:
			e.Value = []byte{}
		case 1:
			e.Value = bytes.Repeat([]byte{byte('A' + i)}, cfg.MaxValueLen)
		case 2:
			e.Value = []byte("same") // equal values in different entries / txs
		default:
			e.Value = []byte(fmt.Sprintf("v%d.%d.%d", salt, i, rapid.IntRange(0, 99).Draw(rt, "valN")))
		}
		if version != 0 {
			switch rapid.IntRange(0, 9).Draw(rt, "kvmd") {
			case 0:
				e.Deleted = true
			case 1:
				e.Expire = 1
			case 2:
				e.Expire = 2
			case 3:
				e.NonIndexable = true
			case 4:
				e.Deleted, e.Expire = true, 2
			}
		}
		out = append(out, e)
	}
	return out
}

func genTxMD(rt *rapid.T, version int) string {
	if version == 0 {
		return ""
	}
	return rapid.SampledFrom([]string{"", "", "", "extra", "trunc", "both"}).Draw(rt, "txmd")
}

// grow appends count generated transactions to h following the shape.
func (h *hist) grow(rt *rapid.T, s shape, count int, salt int) error {
	for i := 0; i < count; i++ {
		id := h.n() + 1
		version := s.verMode
		if version == 2 {
			version = rapid.IntRange(0, 1).Draw(rt, "version")
		}
		es := genEntries(rt, h.cfg, version, salt*1000+int(id))
		if s.native {
			if _, err := h.appendNative(es); err != nil {
				return err
			}
			continue
		}
		var prevBl uint64
		if id > 1 {
			prevBl = h.tx(id - 1).hdr.BlTxID
		}
		bl := nextBl(rt, s.lagMode, id, prevBl)
		ts := int64(1_600_000_000) + int64(id)*7 + int64(salt)
		if _, err := h.appendAssembled(version, ts, bl, genTxMD(rt, version), es); err != nil {
			return err
		}
	}
	return nil
}

// forkOf opens a second store that replays the first p transactions of h byte for byte.
func forkOf(h *hist, dir string, p uint64) (*hist, error) {
	f, err := openHist("F", dir, h.cfg)
	if err != nil {
		return nil, err
	}
	for id := uint64(1); id <= p; id++ {
		r := h.tx(id)
		bs := h.exported[id-1]
		if bs == nil {
			// native tx of h: export it from the store
			holder := store.NewTx(h.cfg.MaxTxEntries, h.cfg.MaxKeyLen)
			var err error
			bs, err = h.st.ExportTx(id, false, false, holder)
			if err != nil {
				f.close()
				return nil, fmt.Errorf("ExportTx(%d): %w", id, err)
			}
		}
		hdr := *r.hdr
		if _, err := f.replicate(bs, &hdr, r.es, r.txmd); err != nil {
			f.close()
			return nil, err
		}
	}
	return f, nil
}

func (h *hist) maxLag() uint64 {
	var m uint64
	for _, r := range h.txs {
		if l := r.id - 1 - r.hdr.BlTxID; l > m {
			m = l
		}
	}
	return m
}
