package c01

import (
	"fmt"

	"github.com/codenotary/immudb/embedded/store"
	"pgregory.net/rapid"
)

func cloneHdr(h *store.TxHeader) *store.TxHeader {
	if h == nil {
		return nil
	}
	c := *h
	if h.Metadata != nil {
		md := store.NewTxMetadata()
		if h.Metadata.HasTruncatedTxID() {
			id, _ := h.Metadata.GetTruncatedTxID()
			md.WithTruncatedTxID(id)
		}
		if x := h.Metadata.Extra(); x != nil {
			md.WithExtra(append([]byte{}, x...))
		}
		c.Metadata = md
	}
	return &c
}

func cloneTerms(t []H) []H {
	if t == nil {
		return nil
	}
	return append([]H{}, t...)
}

func cloneLinear(p *store.LinearProof) *store.LinearProof {
	if p == nil {
		return nil
	}
	return &store.LinearProof{SourceTxID: p.SourceTxID, TargetTxID: p.TargetTxID, Terms: cloneTerms(p.Terms)}
}

func cloneAdvance(p *store.LinearAdvanceProof) *store.LinearAdvanceProof {
	if p == nil {
		return nil
	}
	c := &store.LinearAdvanceProof{LinearProofTerms: cloneTerms(p.LinearProofTerms)}
	for _, ip := range p.InclusionProofs {
		c.InclusionProofs = append(c.InclusionProofs, cloneTerms(ip))
	}
	return c
}

func cloneDual(p *store.DualProof) *store.DualProof {
	return &store.DualProof{
		SourceTxHeader:     cloneHdr(p.SourceTxHeader),
		TargetTxHeader:     cloneHdr(p.TargetTxHeader),
		InclusionProof:     cloneTerms(p.InclusionProof),
		ConsistencyProof:   cloneTerms(p.ConsistencyProof),
		TargetBlTxAlh:      p.TargetBlTxAlh,
		LastInclusionProof: cloneTerms(p.LastInclusionProof),
		LinearProof:        cloneLinear(p.LinearProof),
		LinearAdvanceProof: cloneAdvance(p.LinearAdvanceProof),
	}
}

// mutCtx is what the adversary can draw material from.
type mutCtx struct {
	rt    *rapid.T
	pool  []H                // hashes of both histories: Alh, roots, Eh, inner hashes
	hdrs  []*store.TxHeader  // honest headers of H and F
	other []*store.DualProof // other honest proofs (of H and of F) to splice from
}

func (m *mutCtx) pick() H { return m.pool[rapid.IntRange(0, len(m.pool)-1).Draw(m.rt, "poolIdx")] }

func (m *mutCtx) hash(h *H, label string) string {
	switch rapid.IntRange(0, 3).Draw(m.rt, label+"How") {
	case 0:
		*h = m.pick()
		return "pool"
	case 1:
		*h = H{}
		return "zero"
	default:
		h[rapid.IntRange(0, 31).Draw(m.rt, label+"Byte")] ^= 1 << uint(rapid.IntRange(0, 7).Draw(m.rt, label+"Bit"))
		return "flip"
	}
}

func (m *mutCtx) u64(v *uint64, label string) string {
	d := rapid.SampledFrom([]int{-1, 1, -2, 2, 3, 0}).Draw(m.rt, label+"Delta")
	if d == 0 {
		old := *v
		*v = uint64(rapid.IntRange(0, 70).Draw(m.rt, label+"Any"))
		if *v == old {
			*v = old + 1
		}
		return "any"
	}
	if d < 0 && uint64(-d) > *v {
		*v = 0
		return "zero"
	}
	*v = uint64(int64(*v) + int64(d))
	return fmt.Sprintf("%+d", d)
}

// terms applies one list mutation (the catalogue of checks/c08).
func (m *mutCtx) terms(p []H, label string) ([]H, string) {
	rt := m.rt
	q := append([]H(nil), p...)
	kind := rapid.SampledFrom([]string{"drop", "dup", "flip", "insert", "swap", "truncate", "replace", "empty", "append"}).Draw(rt, label+"Mut")
	switch kind {
	case "drop":
		if len(q) > 0 {
			i := rapid.IntRange(0, len(q)-1).Draw(rt, label+"At")
			q = append(q[:i], q[i+1:]...)
		}
	case "dup":
		if len(q) > 0 {
			i := rapid.IntRange(0, len(q)-1).Draw(rt, label+"At")
			q = append(q[:i+1], q[i:]...)
		}
	case "flip":
		if len(q) > 0 {
			i := rapid.IntRange(0, len(q)-1).Draw(rt, label+"At")
			q[i][rapid.IntRange(0, 31).Draw(rt, label+"Byte")] ^= 1 << uint(rapid.IntRange(0, 7).Draw(rt, label+"Bit"))
		}
	case "insert":
		i := rapid.IntRange(0, len(q)).Draw(rt, label+"At")
		q = append(q[:i], append([]H{m.pick()}, q[i:]...)...)
	case "swap":
		if len(q) > 1 {
			i := rapid.IntRange(0, len(q)-2).Draw(rt, label+"At")
			q[i], q[i+1] = q[i+1], q[i]
		}
	case "truncate":
		if len(q) > 0 {
			q = q[:rapid.IntRange(0, len(q)-1).Draw(rt, label+"Keep")]
		}
	case "replace":
		if len(q) > 0 {
			q[rapid.IntRange(0, len(q)-1).Draw(rt, label+"At")] = m.pick()
		}
	case "empty":
		q = nil
	case "append":
		q = append(q, m.pick())
	}
	return q, kind
}

// header applies one field mutation.
func (m *mutCtx) header(h *store.TxHeader, label string) string {
	rt := m.rt
	f := rapid.SampledFrom([]string{"ID", "Ts", "BlTxID", "BlRoot", "PrevAlh", "Version", "Metadata", "NEntries", "Eh"}).Draw(rt, label+"Field")
	how := ""
	switch f {
	case "ID":
		how = m.u64(&h.ID, label+"ID")
	case "Ts":
		h.Ts += int64(rapid.SampledFrom([]int{1, -1, 3600, -100000}).Draw(rt, label+"TsDelta"))
	case "BlTxID":
		how = m.u64(&h.BlTxID, label+"Bl")
	case "BlRoot":
		how = m.hash(&h.BlRoot, label+"BlRoot")
	case "PrevAlh":
		how = m.hash(&h.PrevAlh, label+"Prev")
	case "Version":
		h.Version = 1 - h.Version
		if h.Version == 0 {
			h.Metadata = nil // a version-0 header with metadata cannot be serialised; keep the forged header well-formed
		}
	case "Metadata":
		if h.Version == 0 {
			h.NEntries++ // metadata is not representable: alter the neighbouring field instead
			how = "n/a"
			break
		}
		switch rapid.IntRange(0, 2).Draw(rt, label+"MdHow") {
		case 0:
			if h.Metadata != nil && !h.Metadata.IsEmpty() {
				h.Metadata = store.NewTxMetadata()
				how = "drop"
			} else {
				h.Metadata = store.NewTxMetadata()
				h.Metadata.WithExtra([]byte("forged"))
				how = "add-extra"
			}
		case 1:
			md := store.NewTxMetadata()
			md.WithTruncatedTxID(uint64(rapid.IntRange(1, 50).Draw(rt, label+"Trunc")))
			if h.Metadata != nil && h.Metadata.Extra() != nil {
				md.WithExtra(h.Metadata.Extra())
			}
			h.Metadata = md
			how = "trunc"
		default:
			md := store.NewTxMetadata()
			md.WithExtra([]byte("other-extra"))
			h.Metadata = md
			how = "extra"
		}
	case "NEntries":
		h.NEntries += rapid.SampledFrom([]int{1, -1, 2, 65536}).Draw(rt, label+"NDelta")
		if h.NEntries < 0 {
			h.NEntries = 0
		}
	case "Eh":
		how = m.hash(&h.Eh, label+"Eh")
	}
	return f + ":" + how
}

// mutateDual applies one mutation to p (already a private copy) and names it.
func (m *mutCtx) mutateDual(p *store.DualProof) string {
	rt := m.rt
	target := rapid.SampledFrom([]string{
		"src", "src", "tgt", "tgt", "incl", "cons", "blAlh", "last", "linTerms", "linIDs", "adv", "adv",
		"nil", "swapHdr", "splice", "splice",
	}).Draw(rt, "mutTarget")
	switch target {
	case "src":
		if p.SourceTxHeader == nil {
			return "src:nil"
		}
		return "src." + m.header(p.SourceTxHeader, "src")
	case "tgt":
		if p.TargetTxHeader == nil {
			return "tgt:nil"
		}
		return "tgt." + m.header(p.TargetTxHeader, "tgt")
	case "incl":
		var k string
		p.InclusionProof, k = m.terms(p.InclusionProof, "incl")
		return "incl." + k
	case "cons":
		var k string
		p.ConsistencyProof, k = m.terms(p.ConsistencyProof, "cons")
		return "cons." + k
	case "blAlh":
		return "blAlh." + m.hash(&p.TargetBlTxAlh, "blAlh")
	case "last":
		var k string
		p.LastInclusionProof, k = m.terms(p.LastInclusionProof, "last")
		return "last." + k
	case "linTerms":
		if p.LinearProof == nil {
			return "lin:nil"
		}
		var k string
		p.LinearProof.Terms, k = m.terms(p.LinearProof.Terms, "lin")
		return "lin." + k
	case "linIDs":
		if p.LinearProof == nil {
			return "lin:nil"
		}
		if rapid.Bool().Draw(rt, "linWhich") {
			return "lin.src" + m.u64(&p.LinearProof.SourceTxID, "linSrc")
		}
		return "lin.tgt" + m.u64(&p.LinearProof.TargetTxID, "linTgt")
	case "adv":
		a := p.LinearAdvanceProof
		if a == nil {
			// forge one from pool material
			n := rapid.IntRange(1, 4).Draw(rt, "advForgeN")
			a = &store.LinearAdvanceProof{}
			for i := 0; i < n; i++ {
				a.LinearProofTerms = append(a.LinearProofTerms, m.pick())
				if i > 0 {
					a.InclusionProofs = append(a.InclusionProofs, []H{m.pick()})
				}
			}
			p.LinearAdvanceProof = a
			return "adv.forge"
		}
		switch rapid.IntRange(0, 4).Draw(rt, "advWhat") {
		case 0:
			var k string
			a.LinearProofTerms, k = m.terms(a.LinearProofTerms, "advLin")
			return "adv.terms." + k
		case 1:
			if len(a.InclusionProofs) == 0 {
				a.InclusionProofs = append(a.InclusionProofs, []H{m.pick()})
				return "adv.incl.add"
			}
			i := rapid.IntRange(0, len(a.InclusionProofs)-1).Draw(rt, "advIdx")
			var k string
			a.InclusionProofs[i], k = m.terms(a.InclusionProofs[i], "advIncl")
			return "adv.incl." + k
		case 2:
			if len(a.InclusionProofs) > 1 {
				i := rapid.IntRange(0, len(a.InclusionProofs)-2).Draw(rt, "advSwapAt")
				a.InclusionProofs[i], a.InclusionProofs[i+1] = a.InclusionProofs[i+1], a.InclusionProofs[i]
				return "adv.incl.swapProofs"
			}
			if len(a.InclusionProofs) == 1 {
				a.InclusionProofs = nil
				return "adv.incl.dropAll"
			}
			return "adv.noop"
		case 3:
			if len(a.InclusionProofs) > 0 {
				i := rapid.IntRange(0, len(a.InclusionProofs)-1).Draw(rt, "advDropAt")
				a.InclusionProofs = append(a.InclusionProofs[:i], a.InclusionProofs[i+1:]...)
				return "adv.incl.dropProof"
			}
			return "adv.noop"
		default:
			p.LinearAdvanceProof = nil
			return "adv.nil"
		}
	case "nil":
		switch rapid.IntRange(0, 5).Draw(rt, "nilWhat") {
		case 0:
			p.LinearProof = nil
			return "nil.linear"
		case 1:
			p.LinearAdvanceProof = nil
			return "nil.advance"
		case 2:
			p.SourceTxHeader = nil
			return "nil.srcHdr"
		case 3:
			p.TargetTxHeader = nil
			return "nil.tgtHdr"
		case 4:
			// a header version the hashing code does not know
			if rapid.Bool().Draw(rt, "verWhich") && p.SourceTxHeader != nil {
				p.SourceTxHeader.Version = 2
			} else if p.TargetTxHeader != nil {
				p.TargetTxHeader.Version = 2
			}
			return "nil.unknownVersion"
		default:
			p.InclusionProof, p.ConsistencyProof, p.LastInclusionProof = nil, nil, nil
			return "nil.merkle"
		}
	case "swapHdr":
		hd := cloneHdr(m.hdrs[rapid.IntRange(0, len(m.hdrs)-1).Draw(rt, "hdrIdx")])
		if rapid.Bool().Draw(rt, "swapWhich") {
			p.SourceTxHeader = hd
			return "swapHdr.src"
		}
		p.TargetTxHeader = hd
		return "swapHdr.tgt"
	default: // splice a whole sub-proof from another honest proof
		if len(m.other) == 0 {
			return "splice.none"
		}
		o := m.other[rapid.IntRange(0, len(m.other)-1).Draw(rt, "otherIdx")]
		switch rapid.IntRange(0, 6).Draw(rt, "spliceWhat") {
		case 0:
			p.InclusionProof = cloneTerms(o.InclusionProof)
			return "splice.incl"
		case 1:
			p.ConsistencyProof = cloneTerms(o.ConsistencyProof)
			return "splice.cons"
		case 2:
			p.LastInclusionProof, p.TargetBlTxAlh = cloneTerms(o.LastInclusionProof), o.TargetBlTxAlh
			return "splice.last"
		case 3:
			p.LinearProof = cloneLinear(o.LinearProof)
			return "splice.linear"
		case 4:
			p.LinearAdvanceProof = cloneAdvance(o.LinearAdvanceProof)
			return "splice.advance"
		case 5:
			p.SourceTxHeader = cloneHdr(o.SourceTxHeader)
			return "splice.srcHdr"
		default:
			p.TargetTxHeader = cloneHdr(o.TargetTxHeader)
			return "splice.tgtHdr"
		}
	}
}
