package c01

import (
	"context"
	"fmt"

	"github.com/codenotary/immudb/pkg/api/schema"
	"google.golang.org/protobuf/proto"
	"pgregory.net/rapid"

	"verif/internal/vk"
)

// SQL rows: VerifyRow(row, table, pk) against the real server; the man in the middle alters the
// VerifiableSQLGet reply, and/or the caller holds a row that is not the stored one.

const kSQLCatalog = "K01f-verifyrow-trusts-reply-catalog"

type sqlRow struct{ a, b string }

type sqlRef struct {
	rows map[string]map[int]sqlRow // table -> id -> latest row
}

func (f *e2eFixture) sqlSetup(ctx context.Context) error {
	f.sql = &sqlRef{rows: map[string]map[int]sqlRow{"t": {}, "u": {}}}
	for _, tb := range []string{"t", "u"} {
		if _, err := f.cl.SQLExec(ctx, fmt.Sprintf("CREATE TABLE %s(id INTEGER, a VARCHAR[32], b VARCHAR[32], PRIMARY KEY id)", tb), nil); err != nil {
			return fmt.Errorf("create table %s: %w", tb, err)
		}
	}
	for id := 1; id <= 3; id++ {
		if err := f.sqlUpsert(ctx, "t", id); err != nil {
			return err
		}
		if err := f.sqlUpsert(ctx, "u", id); err != nil {
			return err
		}
	}
	return nil
}

func (f *e2eFixture) sqlUpsert(ctx context.Context, table string, id int) error {
	f.ctr++
	r := sqlRow{a: fmt.Sprintf("%s-a-%d", table, f.ctr), b: fmt.Sprintf("%s-b-%d", table, f.ctr)}
	if _, err := f.cl.SQLExec(ctx, fmt.Sprintf("UPSERT INTO %s(id, a, b) VALUES (%d, '%s', '%s')", table, id, r.a, r.b), nil); err != nil {
		return fmt.Errorf("upsert %s/%d: %w", table, id, err)
	}
	f.sql.rows[table][id] = r
	return f.sync(ctx)
}

// rowOf builds the row the way SQLQuery hands it out (column selectors as names).
func (f *e2eFixture) rowOf(ctx context.Context, table string, id int) (*schema.Row, error) {
	res, err := f.cl.SQLQuery(ctx, fmt.Sprintf("SELECT id, a, b FROM %s WHERE id = %d", table, id), nil, true)
	if err != nil {
		return nil, err
	}
	if len(res.Rows) != 1 {
		return nil, fmt.Errorf("%d rows for %s/%d", len(res.Rows), table, id)
	}
	return res.Rows[0], nil
}

func strVal(v *schema.SQLValue) string {
	if s, ok := v.GetValue().(*schema.SQLValue_S); ok {
		return s.S
	}
	return fmt.Sprint(v.GetValue())
}

// alterSQLReply: alterations specific to VerifiableSQLEntry (the generic ones go through alterReply on its VerifiableTx).
func (f *e2eFixture) alterSQLReply(rt *rapid.T, m *schema.VerifiableSQLEntry, lib []proto.Message) string {
	kinds := []string{"generic", "generic", "generic", "value", "catalog", "catalog", "nil", "iproof", "tx"}
	if f.sqlForged != "" {
		// the caller holds a forged row: an adversary would go for the catalog information of the reply
		kinds = append(kinds, "catalog", "catalog", "catalog", "catalog", "catalog", "catalog")
	}
	switch rapid.SampledFrom(kinds).Draw(rt, "sqlAlter") {
	case "generic":
		if m.VerifiableTx == nil {
			return "sql.generic:absent"
		}
		return f.alterReply(rt, m.VerifiableTx, nil)
	case "value":
		if m.SqlEntry == nil {
			return "sql.value:absent"
		}
		// the first 4 bytes are the column count, which decodeRow uses as an allocation size without a bound
		// (C16's finding F12): leave them alone, alter the rest of the encoded row
		v := m.SqlEntry.Value
		if len(v) <= 4 {
			return "sql.value:short"
		}
		m.SqlEntry.Value = append(append([]byte{}, v[:4]...), flipBytes(rt, v[4:], "sqlVal")...)
		return "sql.value.flip"
	case "tx":
		if m.SqlEntry == nil {
			return "sql.tx:absent"
		}
		m.SqlEntry.Tx = uint64(int64(m.SqlEntry.Tx) + int64(rapid.SampledFrom([]int{1, -1, 2}).Draw(rt, "sqlTxDelta")))
		return "sql.tx"
	case "nil":
		switch rapid.IntRange(0, 2).Draw(rt, "sqlNil") {
		case 0:
			m.SqlEntry = nil
			return "nil.sqlEntry"
		case 1:
			m.InclusionProof = nil
			return "nil.inclusionProof"
		default:
			m.VerifiableTx = nil
			return "nil.verifiableTx"
		}
	case "iproof":
		if m.InclusionProof == nil {
			return "iproof:absent"
		}
		m.InclusionProof.Leaf += int32(rapid.SampledFrom([]int{1, -1}).Draw(rt, "sqlLeaf"))
		return "iproof.leaf"
	default: // catalog information carried by the reply
		switch rapid.IntRange(0, 3).Draw(rt, "catWhat") {
		case 0:
			// swap the ids two column names resolve to
			var ka, kb string
			for k := range m.ColIdsByName {
				if len(k) > 0 {
					switch k[len(k)-2] {
					case 'a':
						ka = k
					case 'b':
						kb = k
					}
				}
			}
			if ka == "" || kb == "" {
				return "catalog:no-columns"
			}
			m.ColIdsByName[ka], m.ColIdsByName[kb] = m.ColIdsByName[kb], m.ColIdsByName[ka]
			return "catalog.swap-column-ids"
		case 1:
			m.TableId++
			return "catalog.tableId+1"
		case 2:
			m.TableId--
			return "catalog.tableId-1"
		default:
			m.DatabaseId++
			return "catalog.databaseId"
		}
	}
}

type rowCall struct {
	table  string
	id     int
	row    *schema.Row
	forged string // how the caller's row differs from the stored one ("" = it is the stored row)
}

func (f *e2eFixture) genRowCall(rt *rapid.T, ctx context.Context) (*rowCall, error) {
	rc := &rowCall{table: rapid.SampledFrom([]string{"t", "t", "u"}).Draw(rt, "sqlTable"), id: rapid.IntRange(1, 3).Draw(rt, "sqlID")}
	row, err := f.rowOf(ctx, rc.table, rc.id)
	if err != nil {
		return nil, err
	}
	rc.row = row
	switch rapid.IntRange(0, 5).Draw(rt, "rowForge") {
	case 0:
		row.Values[1], row.Values[2] = row.Values[2], row.Values[1]
		rc.forged = "a<->b"
	case 1:
		row.Values[1] = &schema.SQLValue{Value: &schema.SQLValue_S{S: "forged"}}
		rc.forged = "a=forged"
	case 2:
		other := "u"
		if rc.table == "u" {
			other = "t"
		}
		o := f.sql.rows[other][rc.id]
		row.Values[1] = &schema.SQLValue{Value: &schema.SQLValue_S{S: o.a}}
		row.Values[2] = &schema.SQLValue{Value: &schema.SQLValue_S{S: o.b}}
		rc.forged = "row-of-table-" + other
	}
	return rc, nil
}

// checkRow: a successful VerifyRow means the caller's row is the stored one.
func (f *e2eFixture) checkRow(rt *rapid.T, c *vk.Case, e vk.Enum, what string, rc *rowCall, done string) {
	want := f.sql.rows[rc.table][rc.id]
	got := sqlRow{a: strVal(rc.row.Values[1]), b: strVal(rc.row.Values[2])}
	if got == want {
		return
	}
	if len(done) >= 7 && done[:7] == "catalog" {
		if !vk.Excluded(kSQLCatalog) {
			c.Failf(rt, nil, "FORGED ROW VERIFIED: %s succeeded for row %+v although %s/%d holds %+v", what, got, rc.table, rc.id, want)
		}
		vk.CountExcluded(kSQLCatalog)
		e.Label("forged-row-verified-via-catalog(K01f)")
		return
	}
	c.Failf(rt, nil, "FORGED ROW VERIFIED: %s succeeded for row %+v although %s/%d holds %+v", what, got, rc.table, rc.id, want)
}

// probeSQLCatalog: VerifyRow resolves column names through the reply's own ColIdsByName (and builds the row key
// from the reply's TableId): a row whose a and b values were swapped verifies when the reply swaps the two ids.
func probeSQLCatalog() (bool, string) {
	e2eOnce.Do(func() { e2eFix, e2eErr = buildE2E() })
	if e2eErr != nil {
		return false, ""
	}
	f := e2eFix
	ctx := context.Background()
	row, err := f.rowOf(ctx, "t", 1)
	if err != nil {
		return false, ""
	}
	row.Values[1], row.Values[2] = row.Values[2], row.Values[1]
	f.st.SetState("defaultdb", &schema.ImmutableState{Db: "defaultdb", TxId: 1, TxHash: f.txs[0].alh[:]})
	f.mitm.arm("VerifiableSQLGet", func(m proto.Message) string {
		r := m.(*schema.VerifiableSQLEntry)
		var ka, kb string
		for k := range r.ColIdsByName {
			switch k[len(k)-2] {
			case 'a':
				ka = k
			case 'b':
				kb = k
			}
		}
		if ka != "" && kb != "" {
			r.ColIdsByName[ka], r.ColIdsByName[kb] = r.ColIdsByName[kb], r.ColIdsByName[ka]
		}
		return "forged"
	})
	res := guard(func() opResult {
		return opResult{err: f.cl.VerifyRow(ctx, row, "t", []*schema.SQLValue{row.Values[0]})}
	})
	f.mitm.result()
	if res.panicked == "" && res.err == nil {
		return true, "VerifyRow of a row of t whose a and b values were swapped returns nil when the reply's ColIdsByName swaps the ids of a and b"
	}
	return false, ""
}
