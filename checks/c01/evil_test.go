package c01

import (
	"crypto/sha256"
	"fmt"
	"os"
	"sort"
	"testing"

	"github.com/codenotary/immudb/embedded/ahtree"
	"github.com/codenotary/immudb/embedded/store"
	"pgregory.net/rapid"

	"verif/internal/refmodel"
	"verif/internal/vk"
)

// An equivocating server: ONE linear chain of headers (so every Alh it ever shows chains correctly), but the
// main Merkle tree its headers commit to holds, at a few positions, the Alh of an ALTERNATIVE transaction
// (same id / PrevAlh / binary linking, other entries). This is the shape of the documented "linear-fake"
// attack. The client-observable failure is: two different transactions accepted under one id.

type evilTx struct {
	hdr    *store.TxHeader
	alh    H
	inner  H
	alt    *store.TxHeader
	altAlh H
}

type equivocation struct {
	p    uint64 // position whose leaf is the alternative Alh
	from uint64 // first tx id whose tree shows it (trees of earlier txs, if they cover p, show the real Alh)
}

type evil struct {
	n      uint64
	txs    []*evilTx
	events []equivocation
	trees  map[string]*ahtree.AHtree // one real AHT per distinct set of active equivocations
	dirs   []string
}

func (e *evil) tx(id uint64) *evilTx { return e.txs[id-1] }

// active equivocations in the tree that tx k's header commits to
func (e *evil) version(k uint64) []uint64 {
	var ps []uint64
	for _, ev := range e.events {
		if k >= ev.from {
			ps = append(ps, ev.p)
		}
	}
	sort.Slice(ps, func(i, j int) bool { return ps[i] < ps[j] })
	return ps
}

func (e *evil) leafData(k, p uint64) H {
	for _, q := range e.version(k) {
		if q == p {
			return e.tx(p).altAlh
		}
	}
	return e.tx(p).alh
}

func (e *evil) activeIn(k, p uint64) bool { return e.leafData(k, p) != e.tx(p).alh }

func (e *evil) close() {
	for _, t := range e.trees {
		t.Close()
	}
	for _, d := range e.dirs {
		os.RemoveAll(d)
	}
}

// treeFor opens (once) the real AHT holding the leaves as tx k's header sees them.
func (e *evil) treeFor(k uint64) (*ahtree.AHtree, error) {
	key := fmt.Sprint(e.version(k))
	if t, ok := e.trees[key]; ok {
		return t, nil
	}
	dir := vk.Dir()
	e.dirs = append(e.dirs, dir)
	t, err := ahtree.Open(dir, ahtree.DefaultOptions().WithWriteBufferSize(4096).WithReadBufferSize(4096).WithFileSize(1<<20))
	if err != nil {
		return nil, err
	}
	for p := uint64(1); p <= e.n; p++ {
		d := e.leafData(k, p)
		if _, _, err := t.Append(d[:]); err != nil {
			return nil, err
		}
	}
	e.trees[key] = t
	return t, nil
}

// buildEvil: bl[k] is the binary-linking position of tx k (monotone, < k).
func buildEvil(bl []uint64, events []equivocation) *evil {
	e := &evil{n: uint64(len(bl)), events: events, trees: map[string]*ahtree.AHtree{}}
	prev := H(sha256.Sum256(nil))
	for k := uint64(1); k <= e.n; k++ {
		hdr := &store.TxHeader{ID: k, Ts: 1_700_000_000 + int64(k), BlTxID: bl[k-1], PrevAlh: prev, Version: 1, NEntries: 1}
		hdr.Eh = sha256.Sum256([]byte(fmt.Sprintf("entries-of-%d", k)))
		if b := bl[k-1]; b > 0 {
			leaves := make([]H, b)
			for p := uint64(1); p <= b; p++ {
				leaves[p-1] = refLeaf(e.leafData(k, p))
			}
			hdr.BlRoot = refmodel.MerkleRoot(leaves)
		}
		t := &evilTx{hdr: hdr, alh: refAlh(hdr), inner: refInner(hdr)}
		alt := *hdr
		alt.Eh = sha256.Sum256([]byte(fmt.Sprintf("FORGED-entries-of-%d", k)))
		t.alt, t.altAlh = &alt, refAlh(&alt)
		e.txs = append(e.txs, t)
		prev = t.alh
	}
	return e
}

// answer assembles the DualProof the way ImmuStore.DualProof does, over the evil structure.
// srcHdr/tgtHdr are the headers the server chooses to show; lieSrc makes it rewrite the source header's BlRoot
// to match the target's tree.
// treeOf names the tx whose version of the tree is used (normally the target); when it is not the target's own, the
// server also rewrites the target header's BlRoot to match (lying target header).
func (e *evil) answer(srcHdr, tgtHdr *store.TxHeader, lieSrc bool, treeOf uint64) (*store.DualProof, error) {
	t, err := e.treeFor(treeOf)
	if err != nil {
		return nil, err
	}
	src, tgt := cloneHdr(srcHdr), cloneHdr(tgtHdr)
	if lieSrc && src.BlTxID > 0 {
		if src.BlRoot, err = t.RootAt(src.BlTxID); err != nil {
			return nil, err
		}
	}
	if treeOf != tgt.ID && tgt.BlTxID > 0 {
		if tgt.BlRoot, err = t.RootAt(tgt.BlTxID); err != nil {
			return nil, err
		}
	}
	p := &store.DualProof{SourceTxHeader: src, TargetTxHeader: tgt}
	if src.ID < tgt.BlTxID {
		if p.InclusionProof, err = t.InclusionProof(src.ID, tgt.BlTxID); err != nil {
			return nil, err
		}
	}
	if src.BlTxID > 0 {
		if p.ConsistencyProof, err = t.ConsistencyProof(src.BlTxID, tgt.BlTxID); err != nil {
			return nil, err
		}
	}
	if tgt.BlTxID > 0 {
		if src.ID < tgt.BlTxID {
			p.TargetBlTxAlh = e.tx(tgt.BlTxID).alh // must start the linear proof towards the target
		} else {
			p.TargetBlTxAlh = e.leafData(treeOf, tgt.BlTxID) // only has to be the last leaf
		}
		if p.LastInclusionProof, err = t.InclusionProof(tgt.BlTxID, tgt.BlTxID); err != nil {
			return nil, err
		}
	}
	from := max(src.ID, tgt.BlTxID)
	lp := &store.LinearProof{SourceTxID: from, TargetTxID: tgt.ID}
	if from == src.ID {
		lp.Terms = append(lp.Terms, refAlh(src))
	} else {
		lp.Terms = append(lp.Terms, e.tx(from).alh)
	}
	for k := from + 1; k <= tgt.ID; k++ {
		lp.Terms = append(lp.Terms, e.tx(k).inner)
	}
	p.LinearProof = lp
	// linear advance
	start, end := src.BlTxID, min(src.ID, tgt.BlTxID)
	if end > start+1 {
		la := &store.LinearAdvanceProof{}
		la.LinearProofTerms = append(la.LinearProofTerms, e.tx(start+1).alh)
		for k := start + 1; k < end; k++ {
			ip, err := t.InclusionProof(k, tgt.BlTxID)
			if err != nil {
				return nil, err
			}
			la.InclusionProofs = append(la.InclusionProofs, ip)
			in := e.tx(k + 1).inner
			if k+1 == end && src.ID >= tgt.BlTxID && e.activeIn(treeOf, end) {
				in = refInner(e.tx(end).alt) // chain ends in the (alternative) last leaf
			}
			la.LinearProofTerms = append(la.LinearProofTerms, in)
		}
		p.LinearAdvanceProof = la
	}
	return p, nil
}

type step struct {
	from, to uint64 // client state before the request, requested tx
	src, tgt uint64 // ids as passed to VerifyDualProof
	srcAlh   H      // Alh on the source side (trusted state, or the claimed old tx)
	accepted bool
	lieSrc   bool
	lieTgt   bool
	branch   string // "merkle" (source < target.BlTxID) or "linear"
}

func (st step) String() string {
	return fmt.Sprintf("{state %d asks %d: verify(%d->%d) %s lie=%v accepted=%v}", st.from, st.to, st.src, st.tgt, st.branch, st.lieSrc, st.accepted)
}

const (
	kBlLeaf = "K01b-dualproof-linear-branch-unbound-tree-leaf"
	kBlLag  = "K01h-dualproof-linear-branch-lagging-tree-unbound"
)

// session: the client of pkg/client (state = last verified tx; direction of the proof chosen by comparing ids).
type session struct {
	e        *evil
	state    uint64
	stateAlh H
	accepted map[uint64]H // tx id -> Alh the client accepted for it (as a read or as its state)
	steps    []step
}

func (s *session) request(t uint64, lieSrc, lieTgt bool) (st step, alh H, err error) {
	e := s.e
	var p *store.DualProof
	st = step{from: s.state, to: t, lieSrc: lieSrc}
	if s.state <= t {
		p, err = e.answer(e.tx(s.state).hdr, e.tx(t).hdr, lieSrc, t)
		if err != nil {
			return st, H{}, err
		}
		st.src, st.tgt, st.srcAlh = s.state, t, s.stateAlh
	} else {
		// reading an old tx: show the alternative if the trusted tree holds it
		src := e.tx(t).hdr
		treeOf := s.state
		if t < e.tx(s.state).hdr.BlTxID && e.activeIn(s.state, t) {
			src = e.tx(t).alt
		} else if lieTgt && t < e.tx(s.state).hdr.BlTxID && e.activeIn(e.n, t) {
			// the trusted state's own tree holds the real leaf: show the alternative anyway, with a target header
			// whose BlRoot was rewritten to a tree that holds it
			src, treeOf = e.tx(t).alt, e.n
			st.lieTgt = true
		}
		p, err = e.answer(src, e.tx(s.state).hdr, false, treeOf)
		if err != nil {
			return st, H{}, err
		}
		st.src, st.tgt, st.srcAlh = t, s.state, refAlh(src)
	}
	st.branch = "linear"
	if st.src < e.tx(st.tgt).hdr.BlTxID {
		st.branch = "merkle"
	}
	v := clientVerify(s.stateAlh, claim{t: s.state, c: t, proof: p})
	st.accepted = v.accepted
	s.steps = append(s.steps, st)
	if !v.accepted {
		return st, H{}, nil
	}
	if t > s.state {
		s.state, s.stateAlh = v.newID, v.newAlh
	}
	return st, v.claimedAlh, nil
}

// contradictions lists, for an accepted verification (src -> tgt), the positions at which the Merkle tree of the
// target holds something else than the linear chain the source Alh commits to. kind: "rewrite" (the source's own,
// smaller tree showed the real leaf), "new" (position entered the tree between the two).
func (e *evil) contradictions(st step) (rewrite, fresh []uint64) {
	bs, bt := e.tx(st.src).hdr.BlTxID, e.tx(st.tgt).hdr.BlTxID
	for _, ev := range e.events {
		p := ev.p
		if p > bt || !e.activeIn(st.tgt, p) {
			continue
		}
		if p > st.src && !(st.branch == "merkle" && p == bt) {
			// beyond what the source chain fixes; only the last leaf of the target's tree is pinned by the proof
			// (PROOFS.md step 6: it starts the linear proof towards the target)
			continue
		}
		implied := e.tx(p).alh
		if p == st.src {
			implied = st.srcAlh
		}
		if e.leafData(st.tgt, p) == implied {
			continue
		}
		if p <= bs {
			if !e.activeIn(st.src, p) {
				rewrite = append(rewrite, p)
			}
			continue
		}
		fresh = append(fresh, p)
	}
	return
}

func genBl(rt *rapid.T, n int) ([]uint64, string) {
	mode := rapid.SampledFrom([]string{"none", "none", "some", "long", "long"}).Draw(rt, "lagMode")
	bl := make([]uint64, n)
	for k := 2; k <= n; k++ {
		bl[k-1] = nextBl(rt, mode, uint64(k), bl[k-2])
	}
	return bl, mode
}

func TestEquivocationSessions(t *testing.T) {
	vk.Check(t, 1600, 60000, func(rt *rapid.T, c *vk.Case) {
		n := rapid.IntRange(3, 22).Draw(rt, "n")
		bl, mode := genBl(rt, n)
		// equivocation events
		var events []equivocation
		used := map[uint64]bool{}
		for q := rapid.IntRange(1, 2).Draw(rt, "nEvents"); q > 0; q-- {
			p := uint64(rapid.IntRange(1, n-1).Draw(rt, "evilPos"))
			if used[p] {
				continue
			}
			used[p] = true
			// first tx whose tree covers p
			first := uint64(0)
			for k := p + 1; k <= uint64(n); k++ {
				if bl[k-1] >= p {
					first = k
					break
				}
			}
			if first == 0 {
				continue // no tree ever covers p: nothing to equivocate about
			}
			from := first
			if rapid.IntRange(0, 2).Draw(rt, "rewriteLater") == 0 {
				from = uint64(rapid.IntRange(int(first), n).Draw(rt, "rewriteFrom")) // the tree is rewritten after it was published
			}
			events = append(events, equivocation{p: p, from: from})
		}
		if len(events) == 0 {
			rt.Skip("no equivocation possible")
		}
		e := buildEvil(bl, events)
		defer e.close()
		c.Descf("n=%d lag=%s bl=%v events=%v", n, mode, bl, events)

		// the client: first contact is trusted (as pkg/client does when it has no state)
		ev0 := events[0]
		s0 := uint64(rapid.IntRange(1, n).Draw(rt, "firstState"))
		if rapid.IntRange(0, 2).Draw(rt, "startNearEvent") > 0 {
			s0 = uint64(rapid.IntRange(1, int(ev0.p)).Draw(rt, "firstStateBefore"))
		}
		s := &session{e: e, state: s0, stateAlh: e.tx(s0).alh, accepted: map[uint64]H{s0: e.tx(s0).alh}}
		nSteps := rapid.IntRange(3, 14).Draw(rt, "steps")
		seenBefore, conflictKnown := false, false
		knownAt := map[uint64]bool{} // positions for which an accepted verification of the known class was recorded
		reached := map[uint64]bool{}
		for q := 0; q < nSteps; q++ {
			var t uint64
			switch rapid.IntRange(0, 9).Draw(rt, "stepKind") {
			case 0, 1, 2, 3:
				t = s.state + 1
			case 4:
				t = s.state + uint64(rapid.IntRange(1, 4).Draw(rt, "jump"))
			case 5:
				t = uint64(rapid.IntRange(1, n).Draw(rt, "any"))
			case 6, 7:
				t = events[rapid.IntRange(0, len(events)-1).Draw(rt, "evIdx")].p
			default:
				t = uint64(rapid.IntRange(1, int(s.state)).Draw(rt, "back"))
			}
			if t > uint64(n) {
				t = uint64(n)
			}
			lie := t > s.state && rapid.IntRange(0, 4).Draw(rt, "lieSrc") == 0
			lieTgt := t < s.state && rapid.Bool().Draw(rt, "lieTgt")
			st, alh, err := s.request(t, lie, lieTgt)
			if err != nil {
				rt.Fatalf("harness: evil answer (%d -> %d): %v", s.state, t, err)
			}
			c.Descf("%d", t)
			if st.lieTgt {
				c.Label("lying-target-header-attempted")
			}
			if st.lieSrc {
				c.Label("lying-source-header-attempted")
			}
			if !st.accepted {
				continue
			}
			ctx := fmt.Sprintf("bl=%v events=%v steps=%v", bl, events, s.steps)
			// (1) latent: the accepted pair (source Alh, target Alh) is contradictory: the target's Merkle tree holds, at a
			// position the source chain already fixes, a different transaction
			rewrite, fresh := e.contradictions(st)
			for _, p := range rewrite {
				c.Failf(rt, nil, "REWRITTEN TREE ACCEPTED: verify(%d->%d) succeeded although the target's tree (size %d) differs at position %d from the source's own tree (size %d); %s",
					st.src, st.tgt, e.tx(st.tgt).hdr.BlTxID, p, e.tx(st.src).hdr.BlTxID, ctx)
			}
			for _, p := range fresh {
				reached[p] = true
				if st.branch == "linear" {
					// source >= target.BlTxID: neither TargetBlTxAlh nor the linear-advance chain is tied to the source Alh.
					// source == target.BlTxID is K01b (repaired: TargetBlTxAlh must equal the source Alh); source > target.BlTxID
					// (only possible when binary linking lags) is K01h: the proof format carries no linear proof target.BlTxID -> source
					id, tag := kBlLag, "K01h"
					if st.src == e.tx(st.tgt).hdr.BlTxID {
						id, tag = kBlLeaf, "K01b"
					}
					if !vk.Excluded(id) {
						c.Failf(rt, nil, "verify(%d->%d) [source BlTxID %d, target BlTxID %d, linear branch] succeeded although the target's Merkle tree holds a different transaction "+
							"at position %d than the chain of the source Alh; %s", st.src, st.tgt, e.tx(st.src).hdr.BlTxID, e.tx(st.tgt).hdr.BlTxID, p, ctx)
					}
					vk.CountExcluded(id)
					knownAt[p] = true
					c.Label("accepted-contradicting-tree-linear-branch(" + tag + ")")
				} else {
					c.Failf(rt, nil, "CONTRADICTING TREE ACCEPTED: verify(%d->%d) [source BlTxID %d, target BlTxID %d, Merkle branch, lying source header: %v] succeeded although the "+
						"target's Merkle tree holds a different transaction at position %d than the chain of the source Alh (inclusion / linear-advance must reject); %s",
						st.src, st.tgt, e.tx(st.src).hdr.BlTxID, e.tx(st.tgt).hdr.BlTxID, st.lieSrc, p, ctx)
				}
			}
			// (3) an old transaction accepted against the trusted state is the one its chain, or at least its own tree, holds
			if st.to < st.from {
				okClaim := alh == e.tx(t).alh || (t <= e.tx(st.from).hdr.BlTxID && alh == e.leafData(st.from, t))
				if !okClaim {
					c.Failf(rt, nil, "FALSE CLAIM ACCEPTED: client trusting (%d, Alh) accepted for tx %d an Alh that is neither in the chain nor in the Merkle tree the trusted "+
						"header commits to (lying target header: %v); %s", st.from, t, st.lieTgt, ctx)
				}
				if st.lieTgt {
					c.Label("lying-target-header")
				}
			}
			// (2) observable: two different transactions accepted under one id
			if prev, seen := s.accepted[t]; seen {
				seenBefore = true
				if prev != alh {
					if knownAt[t] {
						conflictKnown = true
					} else {
						c.Failf(rt, nil, "EQUIVOCATION ACCEPTED: the client verified tx %d twice and got two different transactions (Alh %x vs %x); %s", t, prev[:6], alh[:6], ctx)
					}
				}
			} else {
				s.accepted[t] = alh
			}
		}
		acc, merkle := 0, 0
		for _, st := range s.steps {
			if st.accepted {
				acc++
			}
			if st.branch == "merkle" {
				merkle++
			}
		}
		if acc > 0 {
			c.Label("some-step-accepted")
		}
		if acc < len(s.steps) {
			c.Label("some-step-rejected")
		}
		if merkle > 0 {
			c.Label("merkle-branch-step")
		}
		if conflictKnown {
			c.Label("observable-equivocation(K01b/K01h)")
		}
		if mode != "none" {
			c.Label("lagging")
		}
		for _, ev := range events {
			if reached[ev.p] {
				c.Label("evil-position-reached")
			}
			if _, ok := s.accepted[ev.p]; ok {
				c.Label("evil-position-read-by-client")
			}
		}
		if seenBefore {
			c.Label("re-read-of-a-verified-tx")
		}
		if c.Has("evil-position-read-by-client") || c.Has("some-step-rejected") {
			c.NonTrivial()
		}
	})
}
