package c01

import (
	"crypto/sha256"
	"encoding/binary"

	"github.com/codenotary/immudb/embedded/store"

	"verif/internal/refmodel"
	"verif/internal/stx"
)

// Reference (independent) re-statement of the hashing rules of docs/security/PROOFS.md.
// Everything the oracle calls "the history" is computed with these, never with the code under test.

type H = [sha256.Size]byte

// refInner = hash(ts + version + (mdLen + md)? + nentries + eH + blTxID + blRoot)
func refInner(h *store.TxHeader) H {
	var b []byte
	b = binary.BigEndian.AppendUint64(b, uint64(h.Ts))
	b = binary.BigEndian.AppendUint16(b, uint16(h.Version))
	switch h.Version {
	case 0:
		b = binary.BigEndian.AppendUint16(b, uint16(h.NEntries))
	default:
		var md []byte
		if h.Metadata != nil {
			md = h.Metadata.Bytes()
		}
		b = binary.BigEndian.AppendUint16(b, uint16(len(md)))
		b = append(b, md...)
		b = binary.BigEndian.AppendUint32(b, uint32(h.NEntries))
	}
	b = append(b, h.Eh[:]...)
	b = binary.BigEndian.AppendUint64(b, h.BlTxID)
	b = append(b, h.BlRoot[:]...)
	return sha256.Sum256(b)
}

// refAlh = hash(txID + prevAlh + innerHash)
func refAlh(h *store.TxHeader) H {
	in := refInner(h)
	return refAdvance(h.PrevAlh, h.ID, in)
}

func refAdvance(prev H, id uint64, inner H) H {
	var b []byte
	b = binary.BigEndian.AppendUint64(b, id)
	b = append(b, prev[:]...)
	b = append(b, inner[:]...)
	return sha256.Sum256(b)
}

// leaf of the main Merkle tree for an Alh
func refLeaf(alh H) H { return refmodel.LeafHash(alh[:]) }

func mdBytes(e stx.Entry) []byte {
	md := e.MD()
	if md == nil {
		return nil
	}
	return md.Bytes()
}

// refEntryDigest: version 0 = hash(key + hash(value)); version 1 = hash(mdLen + md + kLen + key + hash(value))
func refEntryDigest(version int, key, md, value []byte) H {
	hv := sha256.Sum256(value)
	var b []byte
	if version != 0 {
		b = binary.BigEndian.AppendUint16(b, uint16(len(md)))
		b = append(b, md...)
		b = binary.BigEndian.AppendUint16(b, uint16(len(key)))
	}
	b = append(b, key...)
	b = append(b, hv[:]...)
	return sha256.Sum256(b)
}

// refEh: root of the per-transaction Merkle tree over the entry digests
func refEh(version int, es []stx.Entry) H {
	ls := make([]H, len(es))
	for i, e := range es {
		d := refEntryDigest(version, e.Key, mdBytes(e), e.Value)
		ls[i] = refmodel.LeafHash(d[:])
	}
	return refmodel.MerkleRoot(ls)
}
