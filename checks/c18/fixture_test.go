package c18

import (
	"context"
	"encoding/binary"
	"fmt"
	"os"
	"sort"
	"strings"
	"sync"
	"time"

	"github.com/codenotary/immudb/pkg/api/protomodel"
	"github.com/codenotary/immudb/pkg/api/schema"
	"github.com/codenotary/immudb/pkg/server"
	"github.com/codenotary/immudb/pkg/server/sessions"
	"google.golang.org/grpc"
	"google.golang.org/grpc/credentials/insecure"
	"google.golang.org/grpc/metadata"
	"google.golang.org/grpc/test/bufconn"
	"google.golang.org/protobuf/proto"
	"google.golang.org/protobuf/types/known/emptypb"
	"google.golang.org/protobuf/types/known/structpb"

	"net"

	"verif/internal/vk"
)

// ---------------------------------------------------------------------------
// quiet logger

type nullLogger struct{}

func (nullLogger) Errorf(string, ...interface{})   {}
func (nullLogger) Warningf(string, ...interface{}) {}
func (nullLogger) Infof(string, ...interface{})    {}
func (nullLogger) Debugf(string, ...interface{})   {}
func (nullLogger) Close() error                    { return nil }

// ---------------------------------------------------------------------------
// in-process server: the production Initialize()/Start() path (real interceptor
// chain, all three gRPC services registered) on a bufconn listener.

const (
	sysUser = "immudb"
	sysPass = "immudb"
	userPw  = "Passw0rd!x"
	sysDB   = "systemdb"
	defDB   = "defaultdb"
)

type srv struct {
	s    *server.ImmuServer
	lis  *bufconn.Listener
	conn *grpc.ClientConn
	dir  string
	ic   schema.ImmuServiceClient
	dc   protomodel.DocumentServiceClient
	ac   protomodel.AuthorizationServiceClient

	mu        sync.Mutex
	obs       map[string]*cred // observer (sysadmin) sessions per db
	obsBorn   map[string]time.Time
	maxObsAge time.Duration
	stopped   bool
}

type srvConfig struct {
	sess        *sessions.Options
	tokenExpMin int
}

func startServer(cfg srvConfig) (*srv, error) {
	dir := vk.Dir()
	lis := bufconn.Listen(4 << 20)
	opts := server.DefaultOptions().
		WithDir(dir).
		WithAuth(true).
		WithListener(lis).
		WithMetricsServer(false).
		WithWebServer(false).
		WithPgsqlServer(false).
		WithAdminPassword(sysPass)
	opts.LogFormat = "json" // keeps the banner off stdout
	opts.NoHistograms = true
	opts.GRPCReflectionServerEnabled = false
	opts.TokenExpiryTimeMin = cfg.tokenExpMin
	if cfg.sess != nil {
		opts.SessionsOptions = cfg.sess
	} else {
		opts.SessionsOptions = sessions.DefaultOptions().
			WithMaxSessions(100000).
			WithSessionGuardCheckInterval(time.Hour).
			WithMaxSessionInactivityTime(24 * time.Hour).
			WithTimeout(24 * time.Hour)
	}
	s := server.DefaultServer().WithOptions(opts).WithLogger(nullLogger{}).(*server.ImmuServer)
	if err := s.Initialize(); err != nil {
		return nil, fmt.Errorf("initialize: %w", err)
	}
	go s.Start()
	conn, err := grpc.Dial("bufnet",
		grpc.WithContextDialer(func(ctx context.Context, _ string) (net.Conn, error) { return lis.DialContext(ctx) }),
		grpc.WithTransportCredentials(insecure.NewCredentials()),
		grpc.WithDefaultCallOptions(grpc.MaxCallRecvMsgSize(64<<20)))
	if err != nil {
		return nil, err
	}
	x := &srv{s: s, lis: lis, conn: conn, dir: dir, obs: map[string]*cred{},
		ic: schema.NewImmuServiceClient(conn), dc: protomodel.NewDocumentServiceClient(conn), ac: protomodel.NewAuthorizationServiceClient(conn)}
	// wait until the server answers (Start() is asynchronous)
	deadline := time.Now().Add(60 * time.Second)
	for {
		_, err := x.ic.Health(context.Background(), &emptypb.Empty{})
		if err == nil {
			break
		}
		if time.Now().After(deadline) {
			return nil, fmt.Errorf("server does not answer: %v", err)
		}
		time.Sleep(5 * time.Millisecond)
	}
	return x, nil
}

func (x *srv) stop() {
	x.mu.Lock()
	x.stopped = true
	x.mu.Unlock()
	x.conn.Close()
	if x.s.GrpcServer != nil {
		x.s.GrpcServer.Stop()
	}
	x.s.Stop()
	os.RemoveAll(x.dir)
}

// ---------------------------------------------------------------------------
// credentials: what the caller puts in the request metadata

type cred struct {
	kind  string // "none" | "session" | "token"
	value string // session id or token
	user  string
	db    string // database selected when the credential was minted ("" = none)
}

func (c *cred) ctx() context.Context {
	ctx := context.Background()
	if c == nil {
		return ctx
	}
	switch c.kind {
	case "session":
		return metadata.AppendToOutgoingContext(ctx, "sessionid", c.value)
	case "token":
		return metadata.AppendToOutgoingContext(ctx, "authorization", c.value)
	}
	return ctx
}

func (c *cred) String() string {
	if c == nil {
		return "anon"
	}
	return fmt.Sprintf("%s:%s@%s", c.kind, c.user, c.db)
}

func (x *srv) openSession(user, pass, db string) (*cred, error) {
	r, err := x.ic.OpenSession(context.Background(), &schema.OpenSessionRequest{Username: []byte(user), Password: []byte(pass), DatabaseName: db})
	if err != nil {
		return nil, err
	}
	return &cred{kind: "session", value: r.SessionID, user: user, db: db}, nil
}

// login does Login (+ UseDatabase when db != "").
func (x *srv) login(user, pass, db string) (*cred, error) {
	r, err := x.ic.Login(context.Background(), &schema.LoginRequest{User: []byte(user), Password: []byte(pass)})
	if err != nil {
		return nil, err
	}
	c := &cred{kind: "token", value: r.Token, user: user}
	if db == "" {
		return c, nil
	}
	u, err := x.ic.UseDatabase(c.ctx(), &schema.Database{DatabaseName: db})
	if err != nil {
		return nil, fmt.Errorf("usedatabase %s: %w", db, err)
	}
	return &cred{kind: "token", value: u.Token, user: user, db: db}, nil
}

// observer returns a sysadmin session on db (re-opened when the server dropped it).
func (x *srv) observer(db string) (*cred, error) {
	x.mu.Lock()
	c, ok := x.obs[db]
	born := x.obsBorn[db]
	x.mu.Unlock()
	if ok && x.maxObsAge > 0 && time.Since(born) > x.maxObsAge {
		// fixtures with a session age limit: do not start a (possibly multi-step)
		// administrative action on a session that is about to be dropped
		x.dropObserver(db)
		ok = false
	}
	if ok {
		return c, nil
	}
	c, err := x.openSession(sysUser, sysPass, db)
	if err != nil {
		return nil, err
	}
	x.mu.Lock()
	x.obs[db] = c
	if x.obsBorn == nil {
		x.obsBorn = map[string]time.Time{}
	}
	x.obsBorn[db] = time.Now()
	x.mu.Unlock()
	return c, nil
}

func (x *srv) dropObserver(db string) {
	x.mu.Lock()
	c := x.obs[db]
	delete(x.obs, db)
	x.mu.Unlock()
	if c != nil {
		// keep the server-side session count in step with len(x.obs)
		x.ic.CloseSession(c.ctx(), &emptypb.Empty{})
	}
}

func isSessionGone(err error) bool {
	return err != nil && (strings.Contains(err.Error(), "session not found") || strings.Contains(err.Error(), "no session found"))
}

// asAdmin runs f with a sysadmin session on db; one retry when the observer
// session itself was dropped by the server (expiry fixtures).
func (x *srv) asAdmin(db string, f func(ctx context.Context) error) error {
	for attempt := 0; ; attempt++ {
		c, err := x.observer(db)
		if err != nil {
			return err
		}
		err = f(c.ctx())
		if isSessionGone(err) && attempt < 20 {
			x.dropObserver(db)
			continue
		}
		return err
	}
}

// asAdminDirect is asAdmin for direct calls of ImmuServer methods: the
// credential goes into the INCOMING metadata.
func (x *srv) asAdminDirect(db string, f func(ctx context.Context) error) error {
	for attempt := 0; ; attempt++ {
		c, err := x.observer(db)
		if err != nil {
			return err
		}
		err = f(metadata.NewIncomingContext(context.Background(), metadata.Pairs("sessionid", c.value)))
		if isSessionGone(err) && attempt < 20 {
			x.dropObserver(db)
			continue
		}
		return err
	}
}

// keepObserversAlive (fixtures with tiny session timeouts): the observer
// sessions get their activity time refreshed in the background; when one is
// dropped anyway (age limit, starvation) asAdmin re-opens it.
func (x *srv) keepObserversAlive() {
	go func() {
		for {
			time.Sleep(10 * time.Millisecond)
			x.mu.Lock()
			ids := make([]string, 0, len(x.obs))
			for _, c := range x.obs {
				ids = append(ids, c.value)
			}
			stopped := x.stopped
			x.mu.Unlock()
			if stopped {
				return
			}
			for _, id := range ids {
				x.s.SessManager.UpdateSessionActivityTime(id)
			}
		}
	}()
}

func must(err error) {
	if err != nil {
		panic(err)
	}
}

// ---------------------------------------------------------------------------
// fingerprint: everything the property calls "contents or settings"

type dbFP struct {
	Loaded bool
	TxID   uint64
	TxHash string
	Err    string
}

type fingerprint struct {
	DBs      map[string]dbFP // includes systemdb (users, settings live there)
	Sessions int
}

func (f fingerprint) String() string {
	names := make([]string, 0, len(f.DBs))
	for n := range f.DBs {
		names = append(names, n)
	}
	sort.Strings(names)
	var sb strings.Builder
	for _, n := range names {
		d := f.DBs[n]
		fmt.Fprintf(&sb, "%s[l=%v tx=%d h=%s e=%s] ", n, d.Loaded, d.TxID, d.TxHash, d.Err)
	}
	return sb.String()
}

// diff returns the names of databases whose fingerprint differs ("+name"/"-name" for created/deleted).
func (f fingerprint) diff(g fingerprint) []string {
	var out []string
	for n, d := range f.DBs {
		e, ok := g.DBs[n]
		if !ok {
			out = append(out, "-"+n)
		} else if d != e {
			out = append(out, n)
		}
	}
	for n := range g.DBs {
		if _, ok := f.DBs[n]; !ok {
			out = append(out, "+"+n)
		}
	}
	sort.Strings(out)
	return out
}

func (x *srv) stateOf(db string) dbFP {
	var fp dbFP
	err := x.asAdminDirect(db, func(ctx context.Context) error {
		// direct in-process call of the service method (no transport): the
		// observer must be cheap, it runs around every cell
		st, err := x.s.CurrentState(ctx, &emptypb.Empty{})
		if err != nil {
			return err
		}
		fp = dbFP{Loaded: true, TxID: st.TxId, TxHash: fmt.Sprintf("%x", st.TxHash)}
		return nil
	})
	if err != nil {
		if strings.Contains(err.Error(), "already closed") {
			return dbFP{Loaded: false} // unloaded database (handles are lazy: the session works again after a reload)
		}
		return dbFP{Err: err.Error()}
	}
	return fp
}

// fingerprint of the named databases plus systemdb. Databases are not listed
// on every call (DatabaseListV2 walks the data directories): creating or
// deleting a database always writes its settings record into systemdb, and
// load / unload shows as Loaded of a known database.
func (x *srv) fingerprint(names []string) fingerprint {
	fp := fingerprint{DBs: map[string]dbFP{}}
	for _, n := range names {
		fp.DBs[n] = x.stateOf(n)
	}
	fp.DBs[sysDB] = x.stateOf(sysDB)
	x.mu.Lock()
	fp.Sessions = x.s.SessManager.SessionCount() - len(x.obs)
	x.mu.Unlock()
	return fp
}

// ---------------------------------------------------------------------------
// admin helpers (sysadmin)

// smallSettings keeps the per-database memory footprint (tx pools, caches)
// small: the fixture opens several databases per process.
func smallSettings() *schema.DatabaseNullableSettings {
	u := func(v uint32) *schema.NullableUint32 { return &schema.NullableUint32{Value: v} }
	return &schema.DatabaseNullableSettings{
		MaxTxEntries:          u(64),
		MaxConcurrency:        u(4),
		MaxIOConcurrency:      u(1),
		TxLogCacheSize:        u(16),
		VLogCacheSize:         u(16),
		ReadTxPoolSize:        u(4),
		MaxActiveTransactions: u(16),
		WriteBufferSize:       u(1 << 16),
		IndexSettings:         &schema.IndexNullableSettings{CacheSize: u(64), FlushBufferSize: u(1 << 16), MaxActiveSnapshots: u(16)},
	}
}

func (x *srv) createDB(name string) error {
	return x.asAdmin(defDB, func(ctx context.Context) error {
		_, err := x.ic.CreateDatabaseV2(ctx, &schema.CreateDatabaseRequest{Name: name, Settings: smallSettings()})
		return err
	})
}

func (x *srv) createUser(name, db string, perm uint32) error {
	return x.asAdmin(defDB, func(ctx context.Context) error {
		_, err := x.ic.CreateUser(ctx, &schema.CreateUserRequest{User: []byte(name), Password: []byte(userPw), Database: db, Permission: perm})
		return err
	})
}

func (x *srv) grant(name, db string, perm uint32) error {
	return x.asAdmin(defDB, func(ctx context.Context) error {
		_, err := x.ic.ChangePermission(ctx, &schema.ChangePermissionRequest{Action: schema.PermissionAction_GRANT, Username: name, Database: db, Permission: perm})
		return err
	})
}

func (x *srv) revoke(name, db string, perm uint32) error {
	return x.asAdmin(defDB, func(ctx context.Context) error {
		_, err := x.ic.ChangePermission(ctx, &schema.ChangePermissionRequest{Action: schema.PermissionAction_REVOKE, Username: name, Database: db, Permission: perm})
		return err
	})
}

func (x *srv) setActive(name string, active bool) error {
	return x.asAdmin(defDB, func(ctx context.Context) error {
		_, err := x.ic.SetActiveUser(ctx, &schema.SetActiveUserRequest{Username: name, Active: active})
		return err
	})
}

func (x *srv) changePassword(name, newPw string) error {
	return x.asAdmin(defDB, func(ctx context.Context) error {
		_, err := x.ic.ChangePassword(ctx, &schema.ChangePasswordRequest{User: []byte(name), NewPassword: []byte(newPw)})
		return err
	})
}

// ---------------------------------------------------------------------------
// seeding: every database gets KV / zset / reference / SQL / document content
// that carries a database-specific marker string.

func marker(db string) string { return "MRK_" + db + "_KRM" }

const (
	seedKey   = "seedkey"
	seedZSet  = "seedzset"
	seedRef   = "seedref"
	seedTable = "seedtbl"
	seedColl  = "seedcoll"
	// schema-changing document requests (AddField, RemoveField, CreateIndex, ...) aim
	// at a collection that never holds documents: altering a table whose rows are
	// being indexed concurrently can crash the server (unsynchronised
	// Table.colsByID: "fatal error: concurrent map read and map write" between
	// sql.indexEntryMapperFor in the indexer goroutine and Table.newColumn) - a
	// defect outside this property that would only make the check flaky
	ddlColl = "ddlcoll"
)

func (x *srv) seed(db string) error {
	m := marker(db)
	return x.asAdmin(db, func(ctx context.Context) error {
		if _, err := x.ic.Set(ctx, &schema.SetRequest{KVs: []*schema.KeyValue{
			{Key: []byte(seedKey), Value: []byte("v1-" + m)},
			{Key: []byte(seedKey + "2"), Value: []byte("w-" + m)}}}); err != nil {
			return fmt.Errorf("seed set: %w", err)
		}
		if _, err := x.ic.Set(ctx, &schema.SetRequest{KVs: []*schema.KeyValue{{Key: []byte(seedKey), Value: []byte("v2-" + m)}}}); err != nil {
			return err
		}
		if _, err := x.ic.ZAdd(ctx, &schema.ZAddRequest{Set: []byte(seedZSet), Score: 1.5, Key: []byte(seedKey)}); err != nil {
			return fmt.Errorf("seed zadd: %w", err)
		}
		if _, err := x.ic.SetReference(ctx, &schema.ReferenceRequest{Key: []byte(seedRef), ReferencedKey: []byte(seedKey)}); err != nil {
			return fmt.Errorf("seed ref: %w", err)
		}
		if _, err := x.ic.SQLExec(ctx, &schema.SQLExecRequest{Sql: fmt.Sprintf(
			"CREATE TABLE IF NOT EXISTS %s (id INTEGER, s VARCHAR[64], PRIMARY KEY id); UPSERT INTO %s (id, s) VALUES (1, 'row-%s'), (2, 'row2-%s');", seedTable, seedTable, m, m)}); err != nil {
			return fmt.Errorf("seed sql: %w", err)
		}
		if _, err := x.dc.CreateCollection(ctx, &protomodel.CreateCollectionRequest{Name: seedColl, DocumentIdFieldName: "_id",
			Fields:  []*protomodel.Field{{Name: "tag", Type: protomodel.FieldType_STRING}, {Name: "n", Type: protomodel.FieldType_INTEGER}},
			Indexes: []*protomodel.Index{{Fields: []string{"n"}}}}); err != nil && !strings.Contains(err.Error(), "already exists") {
			// ("already exists": the step is repeated when the administrative session was lost half-way)
			return fmt.Errorf("seed collection: %w", err)
		}
		if _, err := x.dc.CreateCollection(ctx, &protomodel.CreateCollectionRequest{Name: ddlColl, DocumentIdFieldName: "_id",
			Fields: []*protomodel.Field{{Name: "tag", Type: protomodel.FieldType_STRING}}}); err != nil && !strings.Contains(err.Error(), "already exists") {
			return fmt.Errorf("seed ddl collection: %w", err)
		}
		doc, _ := structpb.NewStruct(map[string]interface{}{"tag": "doc-" + m, "n": 1})
		doc2, _ := structpb.NewStruct(map[string]interface{}{"tag": "doc2-" + m, "n": 2})
		if _, err := x.dc.InsertDocuments(ctx, &protomodel.InsertDocumentsRequest{CollectionName: seedColl, Documents: []*structpb.Struct{doc, doc2}}); err != nil {
			return fmt.Errorf("seed docs: %w", err)
		}
		return nil
	})
}

// firstDocID returns the id of the first seeded document of db.
func (x *srv) firstDocID(db string) (string, uint64, error) {
	var id string
	var tx uint64
	err := x.asAdmin(db, func(ctx context.Context) error {
		r, err := x.dc.SearchDocuments(ctx, &protomodel.SearchDocumentsRequest{Query: &protomodel.Query{CollectionName: seedColl,
			Expressions: []*protomodel.QueryExpression{{FieldComparisons: []*protomodel.FieldComparison{{Field: "n", Operator: protomodel.ComparisonOperator_EQ, Value: structpb.NewNumberValue(1)}}}}}, Page: 1, PageSize: 1})
		if err != nil {
			return err
		}
		if len(r.Revisions) == 0 {
			return fmt.Errorf("no seeded document")
		}
		id = r.Revisions[0].DocumentId
		tx = r.Revisions[0].TransactionId
		return nil
	})
	return id, tx, err
}

// ---------------------------------------------------------------------------
// stream wire helpers (pkg/stream framing: 8-byte big-endian length + content)

func frame(b []byte) *schema.Chunk {
	buf := make([]byte, 8+len(b))
	binary.BigEndian.PutUint64(buf, uint64(len(b)))
	copy(buf[8:], b)
	return &schema.Chunk{Content: buf}
}

func wire(m proto.Message) []byte {
	b, _ := proto.MarshalOptions{Deterministic: true}.Marshal(m)
	return b
}

func timeIt(f func()) time.Duration {
	t0 := time.Now()
	f()
	return time.Since(t0)
}

func nocred() context.Context { return context.Background() }
