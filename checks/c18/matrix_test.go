package c18

import (
	"bytes"
	"fmt"
	"os"
	"sort"
	"strings"
	"sync"
	"testing"
	"time"

	"pgregory.net/rapid"

	"verif/internal/vk"
)

const (
	kSysTx   = "K18-sysdb-sql-transaction-write"
	kSysDoc  = "K18-sysdb-document-write"
	kTxSwite = "K18-tx-survives-database-switch"
	kMultiLg = "K18-multi-login-stale-permissions"
)

// allowed is the model's verdict: may principal p use variant v at all?
func (e *env) allowed(p *principal, v *variant) bool {
	switch v.need {
	case lvNone:
		return true
	case lvNever:
		return false
	}
	if !p.live {
		return false
	}
	if v.need == lvAuth {
		return true
	}
	if v.need == lvSys {
		return p.sys
	}
	db := e.real(v.scope)
	switch v.scope {
	case "any":
		return p.adminAny()
	case "sel":
		db = p.sel
	}
	if db == "" {
		return false
	}
	if v.need == lvRW && db == sysDB {
		return false // "the system database cannot be written through the public API"
	}
	return p.eff(db) >= v.need
}

type outcome struct {
	Method    string   `json:"method"`
	Variant   string   `json:"variant"`
	Principal string   `json:"principal"`
	Desc      string   `json:"desc,omitempty"`
	Allowed   bool     `json:"allowed_by_model"`
	Err       string   `json:"error,omitempty"`
	Msgs      int      `json:"response_messages"`
	Changed   []string `json:"changed,omitempty"`
	SessDelta int      `json:"sessions_delta,omitempty"`
	Markers   []string `json:"markers_in_response,omitempty"`
	Violation string   `json:"violation,omitempty"`
	effect    bool
	skipped   string
}

func (e *env) mayRead(p *principal, db string) bool {
	if !p.live {
		return false
	}
	if p.sys {
		return true
	}
	if db == sysDB {
		// the name of the secret user: its database admins and readers of systemdb may see it
		return p.perms[dbB] >= lvAdmin || p.perms[sysDB] >= lvR
	}
	return p.perms[db] >= lvR
}

// runCell executes one (method, variant, principal) cell and applies the oracles.
func (e *env) runCell(m *rpc, v *variant, p *principal, ch chooser) (o outcome) {
	o = outcome{Method: m.key(), Variant: v.name, Principal: p.name}
	isDocWrite := m.svc == "DocumentService" && v.need == lvRW
	if isDocWrite && p.sel == sysDB && p.eff(sysDB) >= lvAdmin {
		if excluded(kSysDoc) {
			vk.CountExcluded(kSysDoc)
			o.skipped = kSysDoc
			return o
		}
	}
	isTxWrite := m.svc == "ImmuService" && (m.name == "TxSQLExec" || m.name == "Commit") && v.need == lvRW
	if isTxWrite && p.sel == sysDB && p.eff(sysDB) >= lvAdmin {
		if excluded(kSysTx) {
			vk.CountExcluded(kSysTx)
			o.skipped = kSysTx
			return o
		}
	}
	if v.victims || v.vicLoaded != nil {
		if err := e.ensureVictims(); err != nil {
			panic(fmt.Sprintf("harness: victims: %v", err))
		}
	}
	if v.vicLoaded != nil {
		if err := e.setVicLoaded(*v.vicLoaded); err != nil {
			panic(fmt.Sprintf("harness: victim database: %v", err))
		}
	}
	c := p.c
	if v.ephemeral && p.live && p.state == "valid" && p.user != "" {
		fresh, err := e.mint(p.user, p.pass, p.auth, p.sel)
		if err != nil {
			panic(fmt.Sprintf("harness: mint %s: %v", p.name, err))
		}
		c = fresh
	}
	cl := v.build(e, p, c, ch)
	o.Desc = cl.desc
	before := e.fp()
	res := e.x.invoke(m, c, cl.reqs, cl.md...)
	if cl.reveal != nil {
		cl.reveal(res)
	}
	after := e.x.fingerprint(e.known)
	e.setFP(after)

	ok := e.allowed(p, v)
	o.Allowed = ok
	if res.err != nil {
		o.Err = res.err.Error()
	}
	o.Msgs = len(res.msgs)
	o.Changed = before.diff(after)
	o.SessDelta = after.Sessions - before.Sessions
	body := res.bytes()
	for _, db := range append([]string{sysDB}, e.known...) {
		if bytes.Contains(body, []byte(marker(db))) {
			o.Markers = append(o.Markers, db)
		}
	}
	// "has an effect": changed something, or was answered (at least one response message)
	o.effect = len(o.Changed) > 0 || len(res.msgs) > 0 || (res.err == nil && o.SessDelta != 0)
	if ok && o.effect {
		e.twin[m.key()+"/"+v.name] = true
	}

	var viol []string
	if !ok {
		if res.err == nil {
			viol = append(viol, fmt.Sprintf("call was accepted although the caller lacks %s (scope %s)", v.need, v.scope))
		}
		if len(res.msgs) > 0 {
			viol = append(viol, fmt.Sprintf("%d response message(s) returned to a caller without the required permission", len(res.msgs)))
		}
		if len(o.Changed) > 0 {
			viol = append(viol, fmt.Sprintf("refused-by-model call changed %v", o.Changed))
		}
		if !e.timed && o.SessDelta != 0 {
			viol = append(viol, fmt.Sprintf("refused-by-model call changed the number of sessions by %d", o.SessDelta))
		}
	}
	// scope oracles, independent of the class table
	for _, ch := range o.Changed {
		name := strings.TrimLeft(ch, "+-")
		switch {
		case name == sysDB:
			if !(ok && v.sysEffect) {
				viol = append(viol, "the system database was changed by a call that is not a permitted administrative operation")
			}
		case ch != name || before.DBs[name].Loaded != after.DBs[name].Loaded:
			if !(ok && v.dbListEffect) {
				viol = append(viol, fmt.Sprintf("database list / load state changed (%s) by a call that may not do that", ch))
			}
		default:
			if p.eff(name) < lvRW {
				viol = append(viol, fmt.Sprintf("database %s changed although the caller holds %s on it", name, p.eff(name)))
			}
		}
	}
	for _, db := range o.Markers {
		if !e.mayRead(p, db) {
			viol = append(viol, fmt.Sprintf("response carries content of %s although the caller holds %s on it", db, p.eff(db)))
		}
	}
	if len(viol) > 0 {
		o.Violation = strings.Join(viol, "; ")
	}
	if cl.after != nil {
		cl.after(res)
		e.dirty()
	}
	if c != p.c && c != nil {
		// throw-away credential: nothing to restore
		e.dirty()
	}
	if v.victims && (ok || res.err == nil || len(o.Changed) > 0) {
		e.victimsOK = false
	}
	return o
}

// twinOf names the variant whose permitted execution shows that the request
// of v does something when it is let through.
func twinOf(vs []variant, v *variant) *variant {
	if v.need != lvNever {
		return v
	}
	for i := range vs {
		if vs[i].need != lvNever && vs[i].few == v.few {
			return &vs[i]
		}
	}
	return v
}

// hasEffectiveTwin reports whether a permitted execution of (the twin of) v was
// observed to have an effect or return data; when none was seen yet it runs one
// with a sufficiently privileged principal.
func (e *env) hasEffectiveTwin(m *rpc, vs []variant, v *variant, run bool) bool {
	tv := twinOf(vs, v)
	key := m.key() + "/" + tv.name
	if e.twin[key] {
		return true
	}
	if !run || tv.need == lvNever {
		return false
	}
	if _, tried := e.twin[key]; tried {
		return false
	}
	e.twin[key] = false
	for _, name := range []string{"immudb/session@dba", "immudb/session@dbrep", "anon"} {
		p := e.byName[name]
		if p == nil || !e.allowed(p, tv) {
			continue
		}
		if o := e.runCell(m, tv, p, fixedChoice{}); o.Violation == "" && o.effect {
			return true
		}
	}
	return false
}

// ---------------------------------------------------------------------------

var (
	mainOnce sync.Once
	mainEnv  *env
	mainErr  error
)

func theEnv(t testing.TB) *env {
	mainOnce.Do(func() { mainEnv, mainErr = newEnv() })
	if mainErr != nil {
		t.Fatalf("INFRA: fixture: %v", mainErr)
	}
	return mainEnv
}

func fewPrincipal(p *principal) bool {
	switch p.name {
	case "anon", "badsession", "ur/session@dba", "immudb/token@dba":
		return true
	}
	return false
}

func classLabel(v *variant) string {
	s := "need-" + v.need.String()
	if v.need >= lvR && v.need <= lvAdmin {
		switch v.scope {
		case "sel", "any":
			s += "-" + v.scope
		default:
			s += "-named"
		}
	}
	return s
}

// TestMatrix walks every RPC of the reflected universe against every principal.
func TestMatrix(t *testing.T) {
	us, err := universe()
	if err != nil {
		t.Fatalf("universe: %v", err)
	}
	sp := specs()
	if drop := os.Getenv("C18_DROP_SPEC"); drop != "" {
		delete(sp, drop) // development aid: shows what happens when an RPC has no entry in the table
	}
	// the oracle table must cover the universe exactly
	var unclassified, stale []string
	seen := map[string]bool{}
	for _, m := range us {
		seen[m.key()] = true
		if len(sp[m.key()]) == 0 {
			unclassified = append(unclassified, m.key())
		}
	}
	for k := range sp {
		if !seen[k] {
			stale = append(stale, k)
		}
	}
	sort.Strings(stale)
	if len(unclassified) > 0 {
		if vk.Shard() == 0 {
			vk.ReportViolation("TestMatrix", map[string]any{"message": "unclassified method(s): the RPC exists in the service descriptors but the access-control oracle table has no entry", "methods": unclassified})
		}
		t.Fatalf("unclassified methods: %v", unclassified)
	}
	if len(stale) > 0 {
		t.Fatalf("INFRA: oracle table has entries for RPCs that do not exist: %v", stale)
	}
	e := theEnv(t)
	cells, denied := 0, 0
	for i, m := range us {
		if i%vk.Shards() != vk.Shard() {
			continue
		}
		if only := os.Getenv("C18_ONLY"); only != "" && !strings.Contains(m.key(), only) {
			continue // development aid: walk only the methods whose name contains $C18_ONLY
		}
		vs := sp[m.key()]
		t0 := time.Now()
		type rec struct {
			o outcome
			v *variant
			p *principal
		}
		var recs []rec
		for vi := range vs {
			v := &vs[vi]
			for _, p := range e.principals {
				if v.few && !fewPrincipal(p) {
					continue
				}
				o := e.runCell(m, v, p, fixedChoice{})
				if o.skipped != "" {
					continue
				}
				if o.Violation != "" {
					en := vk.NewEnum("TestMatrix")
					en.Descf("%s/%s %s", o.Method, o.Variant, o.Principal)
					en.Failf(t, o, "%s/%s as %s: %s", o.Method, o.Variant, o.Principal, o.Violation)
					return
				}
				recs = append(recs, rec{o, v, p})
			}
		}
		for _, r := range recs {
			en := vk.NewEnum("TestMatrix")
			en.Descf("%s/%s %s", r.o.Method, r.o.Variant, r.o.Principal)
			en.Label(classLabel(r.v))
			en.Label("auth-" + r.p.auth)
			en.Label("state-" + r.p.state)
			en.Label("sel-" + orNone(r.p.sel))
			if m.clientStream || m.serverStream {
				en.Label("streaming")
			}
			cells++
			if r.o.Allowed {
				en.Label("permitted")
				if r.o.Err == "" {
					en.Label("permitted-ok")
				}
				if r.o.effect {
					en.Label("permitted-with-effect")
				}
			} else {
				denied++
				en.Label("denied")
				if e.hasEffectiveTwin(m, vs, r.v, false) {
					en.Label("denied-with-effective-twin")
					en.NonTrivial()
				}
			}
			en.Done()
		}
		if d := time.Since(t0); d > 2*time.Second {
			t.Logf("%s took %v (%d cells)", m.key(), d, len(recs))
		}
		for vi := range vs {
			if !e.hasEffectiveTwin(m, vs, &vs[vi], false) {
				vk.AddLabel("TestMatrix/variants-without-effective-twin", 1)
				t.Logf("no permitted execution of %s/%s was answered or changed anything (its denied cells are not counted as non-trivial)", m.key(), vs[vi].name)
			}
		}
	}
	t.Logf("cells=%d denied=%d", cells, denied)
	vk.SetExhaustive(fmt.Sprintf("every RPC of the 3 service descriptors (%d) x every variant of the oracle table x %d principals (credential kind x role x selected database x session state)", len(us), len(e.principals)))
}

// rapidChoice draws payload variation from rapid.
type rapidChoice struct {
	rt *rapid.T
	sb *strings.Builder
}

func (r rapidChoice) pick(label string, n int) int {
	v := rapid.IntRange(0, n-1).Draw(r.rt, label)
	fmt.Fprintf(r.sb, " %s=%d", label, v)
	return v
}

// TestCellsRandom: the same cell oracle over randomly drawn (method, variant,
// principal, payload variation), in random order (cells interact through the
// server state: users, victims, selections).
func TestCellsRandom(t *testing.T) {
	us, err := universe()
	if err != nil {
		t.Fatalf("universe: %v", err)
	}
	sp := specs()
	e := theEnv(t)
	vk.Check(t, 3200, 96000, func(rt *rapid.T, c *vk.Case) {
		m := us[rapid.IntRange(0, len(us)-1).Draw(rt, "method")]
		vs := sp[m.key()]
		if len(vs) == 0 {
			rt.Skip("unclassified (reported by TestMatrix)")
		}
		v := &vs[rapid.IntRange(0, len(vs)-1).Draw(rt, "variant")]
		var p *principal
		if v.few {
			var few []*principal
			for _, q := range e.principals {
				if fewPrincipal(q) {
					few = append(few, q)
				}
			}
			p = few[rapid.IntRange(0, len(few)-1).Draw(rt, "principal")]
		} else {
			p = e.principals[rapid.IntRange(0, len(e.principals)-1).Draw(rt, "principal")]
		}
		var sb strings.Builder
		o := e.runCell(m, v, p, rapidChoice{rt, &sb})
		c.Descf("%s/%s %s%s", o.Method, o.Variant, o.Principal, sb.String())
		if o.skipped != "" {
			c.Label("excluded-" + o.skipped)
			return
		}
		c.Label(classLabel(v))
		c.Label("state-" + p.state)
		if o.Violation != "" {
			c.Failf(rt, o, "%s/%s as %s: %s", o.Method, o.Variant, o.Principal, o.Violation)
		}
		if o.Allowed {
			c.Label("permitted")
			if o.effect {
				c.Label("permitted-with-effect")
			}
		} else {
			c.Label("denied")
			if e.hasEffectiveTwin(m, vs, v, true) {
				c.Label("denied-with-effective-twin")
				c.NonTrivial()
			}
		}
	})
}
