package c18

import (
	"context"
	"encoding/binary"
	"fmt"
	"io"
	"strings"

	"github.com/codenotary/immudb/pkg/api/protomodel"
	"github.com/codenotary/immudb/pkg/api/schema"
	"github.com/codenotary/immudb/pkg/stream"
	"google.golang.org/grpc/metadata"
	"google.golang.org/protobuf/proto"
	"google.golang.org/protobuf/types/known/emptypb"
	"google.golang.org/protobuf/types/known/structpb"
)

// chooser abstracts the source of payload variation: the enumeration uses the
// fixed choice 0, the rapid-driven tests draw.
type chooser interface {
	pick(label string, n int) int
}

type fixedChoice struct{}

func (fixedChoice) pick(string, int) int { return 0 }

// call = the concrete request(s) for one cell.
type call struct {
	reqs   []proto.Message
	md     []string
	desc   string
	reveal func(res result) // runs before the "after" fingerprint: makes a deferred effect visible
	after  func(res result) // clean-up
}

// variant = one way of using an RPC, together with what the INDEPENDENT model
// (written from the proto documentation and the property text, not from
// pkg/auth) says the caller must hold for it.
type variant struct {
	name  string
	need  level  // minimum level required
	scope string // "sel": on the selected database; "any": admin of any database; otherwise a database name
	// legitimate side effects of a PERMITTED call (a denied call must have none at all)
	sysEffect     bool // writes user / settings records into systemdb
	dbListEffect  bool // creates / deletes / loads / unloads a database
	sessionEffect bool // opens / closes sessions
	few           bool // the request authenticates by its payload: only a few principals are crossed
	ephemeral     bool // a permitted call consumes the credential: use a fresh one
	victims       bool // a permitted call alters the victim objects
	vicLoaded     *bool
	build         func(e *env, p *principal, c *cred, ch chooser) call
}

var yes, no = true, false

func one(m proto.Message) []proto.Message { return []proto.Message{m} }

func keyFor(e *env, ch chooser) []byte {
	if ch.pick("newKey", 2) == 1 {
		return []byte(e.uniq("k"))
	}
	return []byte(seedKey)
}

func kv(e *env, ch chooser) *schema.KeyValue {
	return &schema.KeyValue{Key: keyFor(e, ch), Value: []byte(e.uniq("val"))}
}

func be64(v uint64) []byte {
	var b [8]byte
	binary.BigEndian.PutUint64(b[:], v)
	return b[:]
}

func proveSince(e *env, p *principal, ch chooser) uint64 {
	if ch.pick("proveSince", 2) == 1 {
		return 1
	}
	return 0
}

func simple(name string, need level, scope string, f func(e *env, p *principal, ch chooser) proto.Message) variant {
	return variant{name: name, need: need, scope: scope, build: func(e *env, p *principal, c *cred, ch chooser) call {
		return call{reqs: one(f(e, p, ch))}
	}}
}

func readV(f func(e *env, p *principal, ch chooser) proto.Message) []variant {
	return []variant{simple("read", lvR, "sel", f)}
}

func writeV(f func(e *env, p *principal, ch chooser) proto.Message) []variant {
	return []variant{simple("write", lvRW, "sel", f)}
}

func seededQuery() *protomodel.Query {
	return &protomodel.Query{CollectionName: seedColl, Expressions: []*protomodel.QueryExpression{{FieldComparisons: []*protomodel.FieldComparison{
		{Field: "n", Operator: protomodel.ComparisonOperator_GE, Value: structpb.NewNumberValue(1)}}}}}
}

func docIDFor(e *env, p *principal) (string, uint64) {
	if id, ok := e.docID[p.sel]; ok {
		return id, e.docTx[p.sel]
	}
	return e.docID[dbA], e.docTx[dbA]
}

// txSetup opens a transaction with the caller's own credential (when it is a
// session) and optionally runs a statement in it.
func txSetup(e *env, c *cred, mode schema.TxMode, sql string) []string {
	if c == nil || c.kind != "session" {
		return []string{"transactionid", "bogus-transaction-id"}
	}
	r, err := e.x.ic.NewTx(c.ctx(), &schema.NewTxRequest{Mode: mode})
	if err != nil {
		return []string{"transactionid", "bogus-transaction-id"}
	}
	md := []string{"transactionid", r.TransactionID}
	if sql != "" {
		e.x.ic.TxSQLExec(metadata.AppendToOutgoingContext(c.ctx(), md...), &schema.SQLExecRequest{Sql: sql})
	}
	return md
}

func rollbackAfter(e *env, c *cred, md []string) func(result) {
	return func(result) {
		if c != nil && c.kind == "session" {
			e.x.ic.Rollback(metadata.AppendToOutgoingContext(c.ctx(), md...), &emptypb.Empty{})
		}
	}
}

func insertSQL(e *env) string {
	e.ctr++
	return fmt.Sprintf("INSERT INTO %s (id, s) VALUES (%d, 'ins')", seedTable, 1000+e.ctr)
}

func loginVariants(mk func(user, pass, db string) proto.Message, closeFn func(e *env, res result)) []variant {
	mkv := func(name string, need level, user, pass, db string) variant {
		return variant{name: name, need: need, scope: "sel", few: true, sessionEffect: true, build: func(e *env, p *principal, c *cred, ch chooser) call {
			return call{reqs: one(mk(user, pass, db)), after: func(res result) {
				if res.err == nil {
					closeFn(e, res)
				}
			}}
		}}
	}
	return []variant{
		mkv("good-password", lvNone, "ur", userPw, dbA),
		mkv("wrong-password", lvNever, "ur", "Wr0ng!Passw0rd", dbA),
		mkv("wrong-password-sysadmin", lvNever, sysUser, "Wr0ng!Passw0rd", dbA),
		mkv("unknown-user", lvNever, "nosuchuser", userPw, dbA),
		mkv("deactivated-user", lvNever, "ddeact", userPw, dbA),
		mkv("old-password", lvNever, "dpw", userPw, dbA),
	}
}

func exportTx(x *srv, db string, tx uint64) ([]byte, error) {
	var out []byte
	err := x.asAdmin(db, func(ctx context.Context) error {
		st, err := x.ic.ExportTx(ctx, &schema.ExportTxRequest{Tx: tx})
		if err != nil {
			return err
		}
		var buf []byte
		for {
			c, err := st.Recv()
			if err == io.EOF {
				break
			}
			if err != nil {
				return err
			}
			buf = append(buf, c.Content...)
		}
		if len(buf) < 8 {
			return fmt.Errorf("short export")
		}
		out = buf[8:]
		return nil
	})
	return out, err
}

// sacrificial returns the name of an object (collection, field, index,
// document) of database db that a destructive request may aim at. It is created
// by sysadmin on first use and re-created only after a call consumed it.
func (e *env) sacrificial(kind, db string, create func(ctx context.Context, name string) error) string {
	if db == "" || db == sysDB || db == dbRep {
		return "absent" + kind
	}
	key := kind + "@" + db
	if n, ok := e.sacr[key]; ok {
		return n
	}
	name := e.uniq(kind)
	e.dirty()
	if err := e.x.asAdmin(db, func(ctx context.Context) error { return create(ctx, name) }); err != nil {
		panic(fmt.Sprintf("harness: sacrificial %s on %s: %v", kind, db, err))
	}
	e.sacr[key] = name
	return name
}

func (e *env) consumed(kind, db string) func(result) {
	return func(res result) {
		if res.err == nil {
			delete(e.sacr, kind+"@"+db)
		}
	}
}

// dropTmpDB removes a database a permitted CreateDatabase cell made, without
// ever opening it (a database with default settings allocates a lot).
func (e *env) dropTmpDB(name string) func(result) {
	return func(res result) {
		if res.err != nil {
			return
		}
		e.x.asAdmin(defDB, func(ctx context.Context) error {
			e.x.ic.UnloadDatabase(ctx, &schema.UnloadDatabaseRequest{Database: name})
			_, err := e.x.ic.DeleteDatabase(ctx, &schema.DeleteDatabaseRequest{Database: name})
			return err
		})
	}
}

// specs is the oracle table. An RPC of the reflected universe that has no
// entry here fails the check ("unclassified method").
func specs() map[string][]variant {
	m := map[string][]variant{}

	// ----------------------------------------------------------------- public
	m["ImmuService.Health"] = []variant{simple("public", lvNone, "sel", func(*env, *principal, chooser) proto.Message { return &emptypb.Empty{} })}
	m["ImmuService.ServerInfo"] = []variant{simple("public", lvNone, "sel", func(*env, *principal, chooser) proto.Message { return &schema.ServerInfoRequest{} })}

	// ------------------------------------------------- payload-authenticated
	m["ImmuService.Login"] = func() []variant {
		vs := loginVariants(func(u, pw, _ string) proto.Message {
			return &schema.LoginRequest{User: []byte(u), Password: []byte(pw)}
		},
			func(e *env, res result) {
				tok := res.msgs[0].(*schema.LoginResponse).Token
				e.x.ic.Logout((&cred{kind: "token", value: tok}).ctx(), &emptypb.Empty{})
			})
		for i := range vs {
			vs[i].sessionEffect = false
		}
		return vs
	}()
	m["ImmuService.OpenSession"] = append(loginVariants(func(u, pw, db string) proto.Message {
		return &schema.OpenSessionRequest{Username: []byte(u), Password: []byte(pw), DatabaseName: db}
	}, func(e *env, res result) {
		id := res.msgs[0].(*schema.OpenSessionResponse).SessionID
		e.x.ic.CloseSession((&cred{kind: "session", value: id}).ctx(), &emptypb.Empty{})
	}), func() []variant {
		mk := func(name, user, db string) variant {
			return variant{name: name, need: lvNever, scope: "sel", few: true, build: func(e *env, p *principal, c *cred, ch chooser) call {
				return call{reqs: one(&schema.OpenSessionRequest{Username: []byte(user), Password: []byte(userPw), DatabaseName: db})}
			}}
		}
		return []variant{mk("no-permission-on-db", "ur", dbB), mk("no-permission-on-systemdb", "uadm", sysDB), mk("revoked-db", "drev", dbA)}
	}()...)
	m["AuthorizationService.OpenSession"] = append(loginVariants(func(u, pw, db string) proto.Message {
		return &protomodel.OpenSessionRequest{Username: u, Password: pw, Database: db}
	}, func(e *env, res result) {
		id := res.msgs[0].(*protomodel.OpenSessionResponse).SessionID
		e.x.ic.CloseSession((&cred{kind: "session", value: id}).ctx(), &emptypb.Empty{})
	}), variant{name: "no-permission-on-db", need: lvNever, scope: "sel", few: true, build: func(e *env, p *principal, c *cred, ch chooser) call {
		return call{reqs: one(&protomodel.OpenSessionRequest{Username: "ur", Password: userPw, Database: dbB})}
	}})

	// --------------------------------------------------- session housekeeping
	empty := func(*env, *principal, chooser) proto.Message { return &emptypb.Empty{} }
	m["ImmuService.Logout"] = []variant{{name: "auth", need: lvAuth, scope: "sel", ephemeral: true, build: func(e *env, p *principal, c *cred, ch chooser) call {
		return call{reqs: one(&emptypb.Empty{})}
	}}}
	m["ImmuService.CloseSession"] = []variant{{name: "auth", need: lvAuth, scope: "sel", ephemeral: true, sessionEffect: true, build: func(e *env, p *principal, c *cred, ch chooser) call {
		return call{reqs: one(&emptypb.Empty{})}
	}}}
	m["AuthorizationService.CloseSession"] = []variant{{name: "auth", need: lvAuth, scope: "sel", ephemeral: true, sessionEffect: true, build: func(e *env, p *principal, c *cred, ch chooser) call {
		return call{reqs: one(&protomodel.CloseSessionRequest{})}
	}}}
	m["ImmuService.KeepAlive"] = []variant{simple("auth", lvAuth, "sel", empty)}
	m["AuthorizationService.KeepAlive"] = []variant{simple("auth", lvAuth, "sel", func(*env, *principal, chooser) proto.Message { return &protomodel.KeepAliveRequest{} })}

	useDB := func(db string) variant {
		return variant{name: "select-" + db, need: lvR, scope: db, build: func(e *env, p *principal, c *cred, ch chooser) call {
			return call{reqs: one(&schema.Database{DatabaseName: db}), after: func(res result) {
				// a session remembers the selection: put it back
				if res.err == nil && c != nil && c.kind == "session" && p.sel != "" {
					if _, err := e.x.ic.UseDatabase(c.ctx(), &schema.Database{DatabaseName: p.sel}); err != nil {
						panic(fmt.Sprintf("harness: cannot restore the selection of %s: %v", p.name, err))
					}
				}
			}}
		}}
	}
	m["ImmuService.UseDatabase"] = []variant{useDB(dbA), useDB(dbB), useDB(sysDB), useDB(defDB)}
	m["ImmuService.DatabaseList"] = []variant{simple("auth", lvAuth, "sel", empty)}
	m["ImmuService.DatabaseListV2"] = []variant{simple("auth", lvAuth, "sel", func(*env, *principal, chooser) proto.Message { return &schema.DatabaseListRequestV2{} })}
	m["ImmuService.ListUsers"] = []variant{simple("auth", lvAuth, "sel", empty)}

	// ------------------------------------------------------------ transactions
	m["ImmuService.NewTx"] = []variant{{name: "auth", need: lvAuth, scope: "sel", build: func(e *env, p *principal, c *cred, ch chooser) call {
		mode := []schema.TxMode{schema.TxMode_ReadWrite, schema.TxMode_ReadOnly}[ch.pick("txmode", 2)]
		return call{reqs: one(&schema.NewTxRequest{Mode: mode}), desc: mode.String(), after: func(res result) {
			if res.err == nil && c != nil {
				id := res.msgs[0].(*schema.NewTxResponse).TransactionID
				e.x.ic.Rollback(metadata.AppendToOutgoingContext(c.ctx(), "transactionid", id), &emptypb.Empty{})
			}
		}}
	}}}
	m["ImmuService.Commit"] = []variant{
		{name: "empty", need: lvAuth, scope: "sel", build: func(e *env, p *principal, c *cred, ch chooser) call {
			md := txSetup(e, c, schema.TxMode_ReadWrite, "")
			return call{reqs: one(&emptypb.Empty{}), md: md, after: rollbackAfter(e, c, md)}
		}},
		{name: "after-insert", need: lvRW, scope: "sel", build: func(e *env, p *principal, c *cred, ch chooser) call {
			md := txSetup(e, c, schema.TxMode_ReadWrite, insertSQL(e))
			return call{reqs: one(&emptypb.Empty{}), md: md, after: rollbackAfter(e, c, md)}
		}},
		{name: "after-create-table", need: lvRW, scope: "sel", build: func(e *env, p *principal, c *cred, ch chooser) call {
			md := txSetup(e, c, schema.TxMode_ReadWrite, fmt.Sprintf("CREATE TABLE %s (id INTEGER AUTO_INCREMENT, PRIMARY KEY id)", e.uniq("t")))
			return call{reqs: one(&emptypb.Empty{}), md: md, after: rollbackAfter(e, c, md)}
		}},
	}
	// a transaction id that belongs to somebody else's session (sysadmin, with a pending insert)
	foreignTx := func(e *env, p *principal) (md []string, cleanup func(result)) {
		db := p.sel
		if db == "" || db == sysDB || db == dbRep {
			db = dbA
		}
		id := ""
		e.x.asAdmin(db, func(ctx context.Context) error {
			r, err := e.x.ic.NewTx(ctx, &schema.NewTxRequest{Mode: schema.TxMode_ReadWrite})
			if err != nil {
				return err
			}
			id = r.TransactionID
			_, err = e.x.ic.TxSQLExec(metadata.AppendToOutgoingContext(ctx, "transactionid", id), &schema.SQLExecRequest{Sql: insertSQL(e)})
			return err
		})
		if id == "" {
			panic("harness: cannot open the foreign transaction")
		}
		return []string{"transactionid", id}, func(result) {
			e.x.asAdmin(db, func(ctx context.Context) error {
				_, err := e.x.ic.Rollback(metadata.AppendToOutgoingContext(ctx, "transactionid", id), &emptypb.Empty{})
				return err
			})
		}
	}
	m["ImmuService.Commit"] = append(m["ImmuService.Commit"], variant{name: "foreign-transaction", need: lvNever, scope: "sel", build: func(e *env, p *principal, c *cred, ch chooser) call {
		md, cleanup := foreignTx(e, p)
		return call{reqs: one(&emptypb.Empty{}), md: md, after: cleanup}
	}})
	m["ImmuService.Rollback"] = []variant{{name: "empty", need: lvAuth, scope: "sel", build: func(e *env, p *principal, c *cred, ch chooser) call {
		md := txSetup(e, c, schema.TxMode_ReadWrite, "")
		return call{reqs: one(&emptypb.Empty{}), md: md, after: rollbackAfter(e, c, md)}
	}}}
	txExec := func(name string, mk func(e *env) string) variant {
		return variant{name: name, need: lvRW, scope: "sel", build: func(e *env, p *principal, c *cred, ch chooser) call {
			md := txSetup(e, c, schema.TxMode_ReadWrite, "")
			sql := mk(e)
			return call{reqs: one(&schema.SQLExecRequest{Sql: sql}), md: md, desc: sql, reveal: func(res result) {
				if res.err == nil && c != nil {
					// make the effect of a (wrongly or rightly) accepted statement visible
					e.x.ic.Commit(metadata.AppendToOutgoingContext(c.ctx(), md...), &emptypb.Empty{})
				}
			}, after: rollbackAfter(e, c, md)}
		}}
	}
	createTableSQL := func(e *env) string {
		return fmt.Sprintf("CREATE TABLE %s (id INTEGER AUTO_INCREMENT, PRIMARY KEY id)", e.uniq("t"))
	}
	m["ImmuService.TxSQLExec"] = []variant{txExec("insert", insertSQL), txExec("create-table", createTableSQL),
		{name: "foreign-transaction", need: lvNever, scope: "sel", build: func(e *env, p *principal, c *cred, ch chooser) call {
			md, cleanup := foreignTx(e, p)
			return call{reqs: one(&schema.SQLExecRequest{Sql: insertSQL(e)}), md: md, after: cleanup}
		}}}
	m["ImmuService.TxSQLQuery"] = []variant{{name: "read", need: lvR, scope: "sel", build: func(e *env, p *principal, c *cred, ch chooser) call {
		md := txSetup(e, c, schema.TxMode_ReadOnly, "")
		return call{reqs: one(&schema.SQLQueryRequest{Sql: "SELECT id, s FROM " + seedTable}), md: md, after: rollbackAfter(e, c, md)}
	}}}

	// ----------------------------------------------------------------- KV write
	m["ImmuService.Set"] = writeV(func(e *env, p *principal, ch chooser) proto.Message {
		return &schema.SetRequest{KVs: []*schema.KeyValue{kv(e, ch)}}
	})
	m["ImmuService.VerifiableSet"] = writeV(func(e *env, p *principal, ch chooser) proto.Message {
		return &schema.VerifiableSetRequest{SetRequest: &schema.SetRequest{KVs: []*schema.KeyValue{kv(e, ch)}}, ProveSinceTx: proveSince(e, p, ch)}
	})
	m["ImmuService.Delete"] = writeV(func(e *env, p *principal, ch chooser) proto.Message {
		return &schema.DeleteKeysRequest{Keys: [][]byte{[]byte(seedKey + "2")}}
	})
	m["ImmuService.ExecAll"] = writeV(func(e *env, p *principal, ch chooser) proto.Message {
		ops := []*schema.Op{{Operation: &schema.Op_Kv{Kv: kv(e, ch)}}}
		if ch.pick("withZAdd", 2) == 1 {
			ops = append(ops, &schema.Op{Operation: &schema.Op_ZAdd{ZAdd: &schema.ZAddRequest{Set: []byte(seedZSet), Score: 2, Key: []byte(seedKey)}}})
		}
		return &schema.ExecAllRequest{Operations: ops}
	})
	m["ImmuService.SetReference"] = writeV(func(e *env, p *principal, ch chooser) proto.Message {
		return &schema.ReferenceRequest{Key: []byte(e.uniq("ref")), ReferencedKey: []byte(seedKey)}
	})
	m["ImmuService.VerifiableSetReference"] = writeV(func(e *env, p *principal, ch chooser) proto.Message {
		return &schema.VerifiableReferenceRequest{ReferenceRequest: &schema.ReferenceRequest{Key: []byte(e.uniq("ref")), ReferencedKey: []byte(seedKey)}, ProveSinceTx: proveSince(e, p, ch)}
	})
	m["ImmuService.ZAdd"] = writeV(func(e *env, p *principal, ch chooser) proto.Message {
		return &schema.ZAddRequest{Set: []byte(seedZSet), Score: float64(e.ctr), Key: []byte(seedKey)}
	})
	m["ImmuService.VerifiableZAdd"] = writeV(func(e *env, p *principal, ch chooser) proto.Message {
		return &schema.VerifiableZAddRequest{ZAddRequest: &schema.ZAddRequest{Set: []byte(seedZSet), Score: float64(e.ctr), Key: []byte(seedKey)}, ProveSinceTx: proveSince(e, p, ch)}
	})
	m["ImmuService.streamSet"] = []variant{{name: "write", need: lvRW, scope: "sel", build: func(e *env, p *principal, c *cred, ch chooser) call {
		k := kv(e, ch)
		return call{reqs: []proto.Message{frame(k.Key), frame(k.Value)}}
	}}}
	m["ImmuService.streamVerifiableSet"] = []variant{{name: "write", need: lvRW, scope: "sel", build: func(e *env, p *principal, c *cred, ch chooser) call {
		k := kv(e, ch)
		return call{reqs: []proto.Message{frame(be64(proveSince(e, p, ch))), frame(k.Key), frame(k.Value)}}
	}}}
	m["ImmuService.streamExecAll"] = []variant{{name: "write", need: lvRW, scope: "sel", build: func(e *env, p *principal, c *cred, ch chooser) call {
		k := kv(e, ch)
		return call{reqs: []proto.Message{frame([]byte{stream.TOp_Kv}), frame(k.Key), frame(k.Value)}}
	}}}
	m["ImmuService.replicateTx"] = []variant{{name: "write", need: lvRW, scope: "sel", build: func(e *env, p *principal, c *cred, ch chooser) call {
		next := e.fp().DBs[dbRep].TxID + 1
		bs, err := exportTx(e.x, dbA, next)
		if err != nil {
			panic(fmt.Sprintf("export tx %d of %s: %v", next, dbA, err))
		}
		return call{reqs: []proto.Message{frame(bs)}, desc: fmt.Sprintf("tx=%d", next)}
	}}}

	// ------------------------------------------------------------------ KV read
	keyReq := func(e *env, ch chooser) *schema.KeyRequest {
		switch ch.pick("keyreq", 3) {
		case 1:
			return &schema.KeyRequest{Key: []byte(seedRef)}
		case 2:
			return &schema.KeyRequest{Key: []byte(seedKey), AtRevision: 1}
		}
		return &schema.KeyRequest{Key: []byte(seedKey)}
	}
	m["ImmuService.Get"] = readV(func(e *env, p *principal, ch chooser) proto.Message { return keyReq(e, ch) })
	m["ImmuService.VerifiableGet"] = readV(func(e *env, p *principal, ch chooser) proto.Message {
		return &schema.VerifiableGetRequest{KeyRequest: keyReq(e, ch), ProveSinceTx: proveSince(e, p, ch)}
	})
	m["ImmuService.streamGet"] = readV(func(e *env, p *principal, ch chooser) proto.Message { return keyReq(e, ch) })
	m["ImmuService.streamVerifiableGet"] = readV(func(e *env, p *principal, ch chooser) proto.Message {
		return &schema.VerifiableGetRequest{KeyRequest: keyReq(e, ch), ProveSinceTx: proveSince(e, p, ch)}
	})
	m["ImmuService.GetAll"] = readV(func(e *env, p *principal, ch chooser) proto.Message {
		return &schema.KeyListRequest{Keys: [][]byte{[]byte(seedKey), []byte(seedKey + "2")}}
	})
	scanReq := func(e *env, p *principal, ch chooser) proto.Message {
		if ch.pick("scanAll", 2) == 1 {
			return &schema.ScanRequest{}
		}
		return &schema.ScanRequest{Prefix: []byte("seed")}
	}
	m["ImmuService.Scan"] = readV(scanReq)
	m["ImmuService.streamScan"] = readV(scanReq)
	m["ImmuService.Count"] = readV(func(e *env, p *principal, ch chooser) proto.Message { return &schema.KeyPrefix{Prefix: []byte("seed")} })
	m["ImmuService.CountAll"] = readV(empty)
	txNum := func(ch chooser) uint64 { return uint64(1 + ch.pick("tx", 3)) }
	m["ImmuService.TxById"] = readV(func(e *env, p *principal, ch chooser) proto.Message { return &schema.TxRequest{Tx: txNum(ch)} })
	m["ImmuService.VerifiableTxById"] = readV(func(e *env, p *principal, ch chooser) proto.Message {
		return &schema.VerifiableTxRequest{Tx: txNum(ch) + 1, ProveSinceTx: 1}
	})
	m["ImmuService.TxScan"] = readV(func(e *env, p *principal, ch chooser) proto.Message {
		return &schema.TxScanRequest{InitialTx: 1, Limit: 5}
	})
	histReq := func(e *env, p *principal, ch chooser) proto.Message {
		return &schema.HistoryRequest{Key: []byte(seedKey)}
	}
	m["ImmuService.History"] = readV(histReq)
	m["ImmuService.streamHistory"] = readV(histReq)
	zscan := func(e *env, p *principal, ch chooser) proto.Message {
		return &schema.ZScanRequest{Set: []byte(seedZSet)}
	}
	m["ImmuService.ZScan"] = readV(zscan)
	m["ImmuService.streamZScan"] = readV(zscan)
	m["ImmuService.CurrentState"] = readV(empty)
	m["ImmuService.DatabaseHealth"] = readV(empty)
	m["ImmuService.GetDatabaseSettings"] = readV(empty)
	m["ImmuService.GetDatabaseSettingsV2"] = readV(func(*env, *principal, chooser) proto.Message { return &schema.DatabaseSettingsRequest{} })
	m["ImmuService.exportTx"] = readV(func(e *env, p *principal, ch chooser) proto.Message { return &schema.ExportTxRequest{Tx: txNum(ch)} })
	m["ImmuService.streamExportTx"] = readV(func(e *env, p *principal, ch chooser) proto.Message { return &schema.ExportTxRequest{Tx: txNum(ch)} })

	// ---------------------------------------------------------------------- SQL
	sqlExec := func(name string, need level, scope string, sys, dbl, vict bool, mk func(e *env) string) variant {
		return variant{name: name, need: need, scope: scope, sysEffect: sys, dbListEffect: dbl, victims: vict, build: func(e *env, p *principal, c *cred, ch chooser) call {
			s := mk(e)
			cl := call{reqs: one(&schema.SQLExecRequest{Sql: s}), desc: s}
			if strings.HasPrefix(s, "CREATE DATABASE ") {
				cl.after = e.dropTmpDB(strings.TrimPrefix(s, "CREATE DATABASE "))
			}
			return cl
		}}
	}
	m["ImmuService.SQLExec"] = []variant{
		sqlExec("insert", lvRW, "sel", false, false, false, insertSQL),
		sqlExec("create-table", lvRW, "sel", false, false, false, func(e *env) string {
			return fmt.Sprintf("CREATE TABLE %s (id INTEGER AUTO_INCREMENT, PRIMARY KEY id)", e.uniq("t"))
		}),
		sqlExec("update", lvRW, "sel", false, false, false, func(e *env) string {
			return fmt.Sprintf("UPDATE %s SET s = '%s' WHERE id = 2", seedTable, e.uniq("upd"))
		}),
		sqlExec("create-user", lvAdmin, "sel", true, false, false, func(e *env) string {
			return fmt.Sprintf("CREATE USER %s WITH PASSWORD '%s' READWRITE", e.uniq("sqlusr"), userPw)
		}),
		sqlExec("drop-user", lvAdmin, "any", true, false, true, func(e *env) string { return "DROP USER vic_act" }),
		sqlExec("alter-user", lvAdmin, "sel", true, false, true, func(e *env) string {
			return fmt.Sprintf("ALTER USER vic_perm WITH PASSWORD '%s' ADMIN", userPw)
		}),
		sqlExec("grant", lvAdmin, dbA, true, false, true, func(e *env) string {
			return "GRANT INSERT ON DATABASE " + dbA + " TO USER vic_perm"
		}),
		sqlExec("create-database", lvSys, "sel", true, true, true, func(e *env) string { return "CREATE DATABASE " + e.uniq("tmpsql") }),
		// database selection from SQL, then a write into the newly selected database
		{name: "use-dbb-then-insert", need: lvRW, scope: dbB, build: func(e *env, p *principal, c *cred, ch chooser) call {
			s := "USE DATABASE " + dbB + "; " + insertSQL(e)
			return call{reqs: one(&schema.SQLExecRequest{Sql: s}), desc: s, after: func(result) {
				if c != nil && c.kind == "session" && p.sel != "" && p.live {
					if _, err := e.x.ic.UseDatabase(c.ctx(), &schema.Database{DatabaseName: p.sel}); err != nil && p.state == "valid" {
						panic(fmt.Sprintf("harness: cannot restore the selection of %s: %v", p.name, err))
					}
				}
			}}
		}},
	}
	sqlQ := func(ch chooser) proto.Message {
		switch ch.pick("query", 3) {
		case 1:
			return &schema.SQLQueryRequest{Sql: "SELECT COUNT(*) FROM " + seedTable}
		case 2:
			return &schema.SQLQueryRequest{Sql: "SELECT s FROM " + seedTable + " WHERE id = 2"}
		}
		return &schema.SQLQueryRequest{Sql: "SELECT id, s FROM " + seedTable}
	}
	sqlQueryVariants := func() []variant {
		q := func(name string, need level, sql string) variant {
			return simple(name, need, "sel", func(*env, *principal, chooser) proto.Message { return &schema.SQLQueryRequest{Sql: sql} })
		}
		return []variant{
			simple("select", lvR, "sel", func(e *env, p *principal, ch chooser) proto.Message { return sqlQ(ch) }),
			q("show-users", lvAuth, "SHOW USERS"),
			q("show-databases", lvAuth, "SHOW DATABASES"),
			q("show-tables", lvR, "SHOW TABLES"),
		}
	}
	m["ImmuService.SQLQuery"] = sqlQueryVariants()
	m["ImmuService.UnarySQLQuery"] = sqlQueryVariants()
	m["ImmuService.ListTables"] = readV(empty)
	m["ImmuService.DescribeTable"] = readV(func(*env, *principal, chooser) proto.Message { return &schema.Table{TableName: seedTable} })
	m["ImmuService.VerifiableSQLGet"] = readV(func(e *env, p *principal, ch chooser) proto.Message {
		return &schema.VerifiableSQLGetRequest{SqlGetRequest: &schema.SQLGetRequest{Table: seedTable, PkValues: []*schema.SQLValue{{Value: &schema.SQLValue_N{N: 1}}}}, ProveSinceTx: proveSince(e, p, ch)}
	})

	// ---------------------------------------------------------------- documents
	m["DocumentService.CreateCollection"] = writeV(func(e *env, p *principal, ch chooser) proto.Message {
		return &protomodel.CreateCollectionRequest{Name: e.uniq("coll"), DocumentIdFieldName: "_id", Fields: []*protomodel.Field{{Name: "f", Type: protomodel.FieldType_STRING}}}
	})
	m["DocumentService.UpdateCollection"] = writeV(func(e *env, p *principal, ch chooser) proto.Message {
		return &protomodel.UpdateCollectionRequest{Name: ddlColl, DocumentIdFieldName: e.uniq("_id")}
	})
	m["DocumentService.DeleteCollection"] = []variant{{name: "write", need: lvRW, scope: "sel", build: func(e *env, p *principal, c *cred, ch chooser) call {
		name := e.sacrificial("delcoll", p.sel, func(ctx context.Context, name string) error {
			_, err := e.x.dc.CreateCollection(ctx, &protomodel.CreateCollectionRequest{Name: name, DocumentIdFieldName: "_id"})
			return err
		})
		return call{reqs: one(&protomodel.DeleteCollectionRequest{Name: name}), after: e.consumed("delcoll", p.sel)}
	}}}
	m["DocumentService.AddField"] = writeV(func(e *env, p *principal, ch chooser) proto.Message {
		return &protomodel.AddFieldRequest{CollectionName: ddlColl, Field: &protomodel.Field{Name: e.uniq("fld"), Type: protomodel.FieldType_INTEGER}}
	})
	m["DocumentService.RemoveField"] = []variant{{name: "write", need: lvRW, scope: "sel", build: func(e *env, p *principal, c *cred, ch chooser) call {
		name := e.sacrificial("rmfld", p.sel, func(ctx context.Context, name string) error {
			_, err := e.x.dc.AddField(ctx, &protomodel.AddFieldRequest{CollectionName: ddlColl, Field: &protomodel.Field{Name: name, Type: protomodel.FieldType_INTEGER}})
			return err
		})
		return call{reqs: one(&protomodel.RemoveFieldRequest{CollectionName: ddlColl, FieldName: name}), after: e.consumed("rmfld", p.sel)}
	}}}
	m["DocumentService.CreateIndex"] = []variant{{name: "write", need: lvRW, scope: "sel", build: func(e *env, p *principal, c *cred, ch chooser) call {
		name := e.sacrificial("ixfld", p.sel, func(ctx context.Context, name string) error {
			_, err := e.x.dc.AddField(ctx, &protomodel.AddFieldRequest{CollectionName: ddlColl, Field: &protomodel.Field{Name: name, Type: protomodel.FieldType_INTEGER}})
			return err
		})
		return call{reqs: one(&protomodel.CreateIndexRequest{CollectionName: ddlColl, Fields: []string{name}}), after: e.consumed("ixfld", p.sel)}
	}}}
	m["DocumentService.DeleteIndex"] = []variant{{name: "write", need: lvRW, scope: "sel", build: func(e *env, p *principal, c *cred, ch chooser) call {
		name := e.sacrificial("dxfld", p.sel, func(ctx context.Context, name string) error {
			if _, err := e.x.dc.AddField(ctx, &protomodel.AddFieldRequest{CollectionName: ddlColl, Field: &protomodel.Field{Name: name, Type: protomodel.FieldType_INTEGER}}); err != nil && !strings.Contains(err.Error(), "already exists") {
				return err
			}
			_, err := e.x.dc.CreateIndex(ctx, &protomodel.CreateIndexRequest{CollectionName: ddlColl, Fields: []string{name}})
			return err
		})
		return call{reqs: one(&protomodel.DeleteIndexRequest{CollectionName: ddlColl, Fields: []string{name}}), after: e.consumed("dxfld", p.sel)}
	}}}
	m["DocumentService.InsertDocuments"] = writeV(func(e *env, p *principal, ch chooser) proto.Message {
		d, _ := structpb.NewStruct(map[string]interface{}{"tag": e.uniq("ins"), "n": 100 + e.ctr})
		return &protomodel.InsertDocumentsRequest{CollectionName: seedColl, Documents: []*structpb.Struct{d}}
	})
	m["DocumentService.ReplaceDocuments"] = writeV(func(e *env, p *principal, ch chooser) proto.Message {
		d, _ := structpb.NewStruct(map[string]interface{}{"tag": e.uniq("repl"), "n": 2})
		return &protomodel.ReplaceDocumentsRequest{Query: &protomodel.Query{CollectionName: seedColl, Expressions: []*protomodel.QueryExpression{{FieldComparisons: []*protomodel.FieldComparison{
			{Field: "n", Operator: protomodel.ComparisonOperator_EQ, Value: structpb.NewNumberValue(2)}}}}}, Document: d}
	})
	m["DocumentService.DeleteDocuments"] = []variant{{name: "write", need: lvRW, scope: "sel", build: func(e *env, p *principal, c *cred, ch chooser) call {
		tag := e.sacrificial("deldoc", p.sel, func(ctx context.Context, name string) error {
			d, _ := structpb.NewStruct(map[string]interface{}{"tag": name, "n": 7777})
			_, err := e.x.dc.InsertDocuments(ctx, &protomodel.InsertDocumentsRequest{CollectionName: seedColl, Documents: []*structpb.Struct{d}})
			return err
		})
		return call{reqs: one(&protomodel.DeleteDocumentsRequest{Query: &protomodel.Query{CollectionName: seedColl, Expressions: []*protomodel.QueryExpression{{FieldComparisons: []*protomodel.FieldComparison{
			{Field: "tag", Operator: protomodel.ComparisonOperator_EQ, Value: structpb.NewStringValue(tag)}}}}}}), after: e.consumed("deldoc", p.sel)}
	}}}
	m["DocumentService.GetCollection"] = readV(func(*env, *principal, chooser) proto.Message { return &protomodel.GetCollectionRequest{Name: seedColl} })
	m["DocumentService.GetCollections"] = readV(func(*env, *principal, chooser) proto.Message { return &protomodel.GetCollectionsRequest{} })
	m["DocumentService.SearchDocuments"] = readV(func(e *env, p *principal, ch chooser) proto.Message {
		return &protomodel.SearchDocumentsRequest{Query: seededQuery(), Page: 1, PageSize: 10, KeepOpen: ch.pick("keepOpen", 2) == 1}
	})
	m["DocumentService.CountDocuments"] = readV(func(*env, *principal, chooser) proto.Message {
		return &protomodel.CountDocumentsRequest{Query: seededQuery()}
	})
	m["DocumentService.AuditDocument"] = readV(func(e *env, p *principal, ch chooser) proto.Message {
		id, _ := docIDFor(e, p)
		return &protomodel.AuditDocumentRequest{CollectionName: seedColl, DocumentId: id, Page: 1, PageSize: 10}
	})
	m["DocumentService.ProofDocument"] = readV(func(e *env, p *principal, ch chooser) proto.Message {
		id, tx := docIDFor(e, p)
		return &protomodel.ProofDocumentRequest{CollectionName: seedColl, DocumentId: id, TransactionId: tx}
	})

	// ------------------------------------------------- index / storage admin
	m["ImmuService.FlushIndex"] = []variant{simple("admin", lvAdmin, "sel", func(*env, *principal, chooser) proto.Message {
		return &schema.FlushIndexRequest{CleanupPercentage: 1, Synced: true}
	})}
	m["ImmuService.CompactIndex"] = []variant{simple("admin", lvAdmin, "sel", empty)}

	// -------------------------------------------------------- user management
	for _, db := range []string{dbA, dbB} {
		db := db
		m["ImmuService.CreateUser"] = append(m["ImmuService.CreateUser"], variant{name: "on-" + db, need: lvAdmin, scope: db, sysEffect: true, build: func(e *env, p *principal, c *cred, ch chooser) call {
			perm := []uint32{2, 1, 254}[ch.pick("perm", 3)]
			return call{reqs: one(&schema.CreateUserRequest{User: []byte(e.uniq("newusr")), Password: []byte(userPw), Database: db, Permission: perm}), desc: fmt.Sprintf("perm=%d", perm)}
		}})
		m["ImmuService.ChangePermission"] = append(m["ImmuService.ChangePermission"], variant{name: "grant-on-" + db, need: lvAdmin, scope: db, sysEffect: true, victims: true, build: func(e *env, p *principal, c *cred, ch chooser) call {
			perm := []uint32{2, 254, 1}[ch.pick("perm", 3)]
			return call{reqs: one(&schema.ChangePermissionRequest{Action: schema.PermissionAction_GRANT, Username: "vic_perm", Database: db, Permission: perm}), desc: fmt.Sprintf("perm=%d", perm)}
		}}, variant{name: "revoke-on-" + db, need: lvAdmin, scope: db, sysEffect: true, victims: true, build: func(e *env, p *principal, c *cred, ch chooser) call {
			return call{reqs: one(&schema.ChangePermissionRequest{Action: schema.PermissionAction_REVOKE, Username: "vic_perm", Database: db, Permission: 1})}
		}})
		m["ImmuService.ChangeSQLPrivileges"] = append(m["ImmuService.ChangeSQLPrivileges"], variant{name: "grant-on-" + db, need: lvAdmin, scope: db, sysEffect: true, victims: true, build: func(e *env, p *principal, c *cred, ch chooser) call {
			priv := []string{"INSERT", "DROP", "SELECT"}[ch.pick("priv", 3)]
			return call{reqs: one(&schema.ChangeSQLPrivilegesRequest{Action: schema.PermissionAction_GRANT, Username: "vic_perm", Database: db, Privileges: []string{priv}}), desc: priv}
		}})
	}
	m["ImmuService.ChangePermission"] = append(m["ImmuService.ChangePermission"], variant{name: "grant-on-systemdb", need: lvAdmin, scope: sysDB, sysEffect: true, victims: true, build: func(e *env, p *principal, c *cred, ch chooser) call {
		return call{reqs: one(&schema.ChangePermissionRequest{Action: schema.PermissionAction_GRANT, Username: "vic_perm", Database: sysDB, Permission: 254})}
	}})
	m["ImmuService.ChangePassword"] = []variant{
		{name: "of-user", need: lvAdmin, scope: "any", sysEffect: true, victims: true, build: func(e *env, p *principal, c *cred, ch chooser) call {
			return call{reqs: one(&schema.ChangePasswordRequest{User: []byte("vic_pw"), OldPassword: []byte(userPw), NewPassword: []byte("N3w!Passw0rd" + fmt.Sprint(e.ctr%7))})}
		}},
		{name: "of-sysadmin-wrong-old", need: lvNever, scope: "sel", build: func(e *env, p *principal, c *cred, ch chooser) call {
			return call{reqs: one(&schema.ChangePasswordRequest{User: []byte(sysUser), OldPassword: []byte("Wr0ng!Passw0rd"), NewPassword: []byte("N3w!Passw0rd")})}
		}},
	}
	m["ImmuService.SetActiveUser"] = []variant{{name: "deactivate", need: lvAdmin, scope: "any", sysEffect: true, victims: true, build: func(e *env, p *principal, c *cred, ch chooser) call {
		return call{reqs: one(&schema.SetActiveUserRequest{Username: "vic_act", Active: false})}
	}}}
	m["ImmuService.UpdateAuthConfig"] = []variant{simple("deprecated", lvSys, "sel", func(*env, *principal, chooser) proto.Message { return &schema.AuthConfig{Kind: 0} })}
	m["ImmuService.UpdateMTLSConfig"] = []variant{simple("deprecated", lvSys, "sel", func(*env, *principal, chooser) proto.Message { return &schema.MTLSConfig{Enabled: true} })}

	// ---------------------------------------------------- database management
	m["ImmuService.CreateDatabase"] = []variant{{name: "sysadmin", need: lvSys, scope: "sel", sysEffect: true, dbListEffect: true, victims: true, build: func(e *env, p *principal, c *cred, ch chooser) call {
		name := e.uniq("tmpa")
		return call{reqs: one(&schema.Database{DatabaseName: name}), after: e.dropTmpDB(name)}
	}}}
	m["ImmuService.CreateDatabaseWith"] = []variant{{name: "sysadmin", need: lvSys, scope: "sel", sysEffect: true, dbListEffect: true, victims: true, build: func(e *env, p *principal, c *cred, ch chooser) call {
		name := e.uniq("tmpb")
		return call{reqs: one(&schema.DatabaseSettings{DatabaseName: name, MaxTxEntries: 64, FileSize: 1 << 20}), after: e.dropTmpDB(name)}
	}}}
	m["ImmuService.CreateDatabaseV2"] = []variant{{name: "sysadmin", need: lvSys, scope: "sel", sysEffect: true, dbListEffect: true, victims: true, build: func(e *env, p *principal, c *cred, ch chooser) call {
		name := e.uniq("tmpc")
		return call{reqs: one(&schema.CreateDatabaseRequest{Name: name, IfNotExists: ch.pick("ifNotExists", 2) == 1, Settings: smallSettings()}), after: e.dropTmpDB(name)}
	}}}
	vic := func(name string, loaded *bool, f func(e *env, ch chooser) proto.Message) []variant {
		return []variant{{name: name, need: lvAdmin, scope: dbVic, sysEffect: true, dbListEffect: true, victims: true, vicLoaded: loaded, build: func(e *env, p *principal, c *cred, ch chooser) call {
			return call{reqs: one(f(e, ch))}
		}}}
	}
	m["ImmuService.LoadDatabase"] = vic("victim", &no, func(e *env, _ chooser) proto.Message { return &schema.LoadDatabaseRequest{Database: e.vicName} })
	m["ImmuService.UnloadDatabase"] = vic("victim", &yes, func(e *env, _ chooser) proto.Message { return &schema.UnloadDatabaseRequest{Database: e.vicName} })
	m["ImmuService.DeleteDatabase"] = vic("victim", &no, func(e *env, _ chooser) proto.Message { return &schema.DeleteDatabaseRequest{Database: e.vicName} })
	m["ImmuService.TruncateDatabase"] = vic("victim", &yes, func(e *env, _ chooser) proto.Message {
		return &schema.TruncateDatabaseRequest{Database: e.vicName, RetentionPeriod: 0}
	})
	m["ImmuService.UpdateDatabase"] = vic("victim", &yes, func(e *env, ch chooser) proto.Message {
		return &schema.DatabaseSettings{DatabaseName: e.vicName}
	})
	m["ImmuService.UpdateDatabaseV2"] = vic("victim", &yes, func(e *env, ch chooser) proto.Message {
		if ch.pick("setting", 2) == 1 {
			return &schema.UpdateDatabaseRequest{Database: e.vicName, Settings: &schema.DatabaseNullableSettings{Autoload: &schema.NullableBool{Value: e.ctr%2 == 0}}}
		}
		return &schema.UpdateDatabaseRequest{Database: e.vicName, Settings: &schema.DatabaseNullableSettings{MaxConcurrency: &schema.NullableUint32{Value: uint32(20 + e.ctr%50)}}}
	})
	return m
}
