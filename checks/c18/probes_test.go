package c18

import (
	"fmt"

	"github.com/codenotary/immudb/pkg/api/protomodel"
	"github.com/codenotary/immudb/pkg/api/schema"
	"google.golang.org/grpc/metadata"
	"google.golang.org/protobuf/types/known/emptypb"
)

// The probes are pinned minimal reproductions. They run on the main fixture
// (built on first use; every server of a process opens two databases with
// default settings, which is the expensive part), with users of their own.

func probeEnv() *env {
	mainOnce.Do(func() { mainEnv, mainErr = newEnv() })
	if mainErr != nil {
		return nil
	}
	return mainEnv
}

// probeSysDoc: sysadmin, systemdb selected, CreateCollection.
func probeSysDoc() (bool, string) {
	e := probeEnv()
	if e == nil {
		return false, ""
	}
	defer e.dirty()
	x := e.x
	c, err := x.openSession(sysUser, sysPass, sysDB)
	if err != nil {
		return false, ""
	}
	defer x.ic.CloseSession(c.ctx(), &emptypb.Empty{})
	before := x.stateOf(sysDB)
	_, err = x.dc.CreateCollection(c.ctx(), &protomodel.CreateCollectionRequest{Name: "probecoll", DocumentIdFieldName: "_id"})
	after := x.stateOf(sysDB)
	if err == nil || before != after {
		return true, fmt.Sprintf("CreateCollection on systemdb: err=%v, systemdb tx %d -> %d", err, before.TxID, after.TxID)
	}
	return false, ""
}

// probeSysTx: sysadmin, systemdb selected, NewTx + TxSQLExec(CREATE TABLE) + Commit.
func probeSysTx() (bool, string) {
	e := probeEnv()
	if e == nil {
		return false, ""
	}
	defer e.dirty()
	x := e.x
	c, err := x.openSession(sysUser, sysPass, sysDB)
	if err != nil {
		return false, ""
	}
	defer x.ic.CloseSession(c.ctx(), &emptypb.Empty{})
	before := x.stateOf(sysDB)
	ntx, err := x.ic.NewTx(c.ctx(), &schema.NewTxRequest{Mode: schema.TxMode_ReadWrite})
	if err != nil {
		return false, ""
	}
	txctx := metadata.AppendToOutgoingContext(c.ctx(), "transactionid", ntx.TransactionID)
	_, e1 := x.ic.TxSQLExec(txctx, &schema.SQLExecRequest{Sql: "CREATE TABLE probetbl (id INTEGER, PRIMARY KEY id)"})
	_, e2 := x.ic.Commit(txctx, &emptypb.Empty{})
	after := x.stateOf(sysDB)
	if before != after {
		return true, fmt.Sprintf("SQL transaction on systemdb: TxSQLExec err=%v, Commit err=%v, systemdb tx %d -> %d", e1, e2, before.TxID, after.TxID)
	}
	return false, ""
}

// probeTxSwitch: R on dba, RW on dbb; tx opened on dba, database switched, insert, commit.
func probeTxSwitch() (bool, string) {
	e := probeEnv()
	if e == nil {
		return false, ""
	}
	defer e.dirty()
	x := e.x
	if err := e.mkUser("probe_tx", map[string]level{dbA: lvR, dbB: lvRW}); err != nil {
		return false, ""
	}
	c, err := x.openSession("probe_tx", userPw, dbA)
	if err != nil {
		return false, ""
	}
	defer x.ic.CloseSession(c.ctx(), &emptypb.Empty{})
	before := x.stateOf(dbA)
	ntx, err := x.ic.NewTx(c.ctx(), &schema.NewTxRequest{Mode: schema.TxMode_ReadWrite})
	if err != nil {
		return false, ""
	}
	txctx := metadata.AppendToOutgoingContext(c.ctx(), "transactionid", ntx.TransactionID)
	if _, err := x.ic.UseDatabase(c.ctx(), &schema.Database{DatabaseName: dbB}); err != nil {
		return false, ""
	}
	_, e1 := x.ic.TxSQLExec(txctx, &schema.SQLExecRequest{Sql: "INSERT INTO " + seedTable + " (id, s) VALUES (900001, 'probe')"})
	_, e2 := x.ic.Commit(txctx, &emptypb.Empty{})
	after := x.stateOf(dbA)
	if before != after {
		return true, fmt.Sprintf("read-only user committed into %s: TxSQLExec err=%v, Commit err=%v, tx %d -> %d", dbA, e1, e2, before.TxID, after.TxID)
	}
	return false, ""
}

// probeMultiLogin: two Login tokens, deactivate, Set with the old token.
func probeMultiLogin() (bool, string) {
	e := probeEnv()
	if e == nil {
		return false, ""
	}
	defer e.dirty()
	x := e.x
	if err := e.mkUser("probe_ml", map[string]level{dbA: lvRW}); err != nil {
		return false, ""
	}
	a, err := x.login("probe_ml", userPw, dbA)
	if err != nil {
		return false, ""
	}
	if _, err := x.login("probe_ml", userPw, dbA); err != nil {
		return false, ""
	}
	if err := x.setActive("probe_ml", false); err != nil {
		return false, ""
	}
	before := x.stateOf(dbA)
	_, err = x.ic.Set(a.ctx(), &schema.SetRequest{KVs: []*schema.KeyValue{{Key: []byte("probekey"), Value: []byte("v")}}})
	after := x.stateOf(dbA)
	if err == nil || before != after {
		return true, fmt.Sprintf("deactivated user wrote with a token issued before: err=%v, tx %d -> %d", err, before.TxID, after.TxID)
	}
	return false, ""
}
