// C18 — access control: every operation is gated by the caller's database permission.
package c18

import (
	"os"
	"strings"
	"testing"

	"verif/internal/vk"
)

func TestMain(m *testing.M) {
	vk.Main(m, vk.Config{
		Property: "C18",
		Level:    "exploration",
		Rule: "Cells = (RPC, variant, principal). The RPC universe is reflected from the three gRPC service descriptors (ImmuService incl. streams, DocumentService, " +
			"AuthorizationService); an independent table (specs_test.go, written from the proto docs / property text, not from pkg/auth) gives per RPC the request builders " +
			"and the level the caller must hold (none/auth/R/RW/admin/sysadmin/never, on the selected, a named, or any database); an RPC without entry fails as " +
			"'unclassified method'. Principals = credential kind (none, bogus/tampered, session, token) x role (R, RW, admin, admin of another db, admin of systemdb, sysadmin) x " +
			"selected database (granted, other with lower permission, systemdb, replica, none) x session state (valid, closed/logged out, user deactivated, password changed, " +
			"permission revoked, permission downgraded, idle-expired, age-expired, expired token). TestMatrix/TestExpired walk all cells on a real in-process server " +
			"(production Initialize/Start path over bufconn); TestCellsRandom draws cells and payload variation with rapid in random order; TestCredentialHistories generates, per case, a fresh " +
			"user and a random interleaving of its logins/sessions/database switches/SQL transactions/reads/writes with administrators' grant/revoke/deactivate/activate/password changes. " +
			"TestStreamConversations: for every bidirectional RPC (several requests on ONE open stream; table conversations(), a bidi RPC without entry fails) a generated user opens the stream while authorized, is served, " +
			"then its credential state changes (revoke, downgrade, deactivate, password change, CloseSession/Logout; TestExpired: idle/age expiry) and further requests go over the SAME stream, plus fresh streams; " +
			"each request is judged by the model and by a fresh call of the unary twin with the same credential (served on the stream but refused there = violation). " +
			"Oracle (one-directional): caller below the required level => error AND zero response messages AND unchanged fingerprint (tx id + state hash of every database incl. systemdb, " +
			"load state, session count); independent of the table: a database may change only if the caller currently holds >=RW on it (systemdb only by a permitted administrative request), " +
			"content markers of a database may appear in a response only if the caller holds >=R on it. " +
			"NON-TRIVIAL: a denied cell whose permitted twin (same request builder, sufficiently privileged principal) was observed to change state or be answered; " +
			"a history with a write attempt the model refuses plus an accepted write or an administrative change; a conversation with a request on the same stream after an event that followed a served request. DISTINCT: hash of method/variant/principal(+drawn payload choices) or of the history trace.",
		Assumptions: []string{
			"Health, ServerInfo, Login and OpenSession are public by design (ServerInfo's server-wide counters are not treated as database content)",
			"permitted cells are not asserted to succeed (one-directional property); they only provide the effective-twin evidence",
			"ExportTx/streamExportTx are classed as reads and ReplicateTx as a write (immudb is stricter: admin); FlushIndex/CompactIndex as admin operations without observable content effect",
			"a user explicitly granted Admin or R on systemdb by a sysadmin may read systemdb (user records) - the property only says systemdb cannot be WRITTEN through the public API",
			"SQL privileges granted on top of a read-only permission (ChangeSQLPrivileges GRANT INSERT to an R user) are not generated in histories: the property text does not say which of the two wins",
			"Logout of one of several concurrent token logins of the same user is not asserted to kill that token (tokens of a user share one signing key by design); all tokens must be dead once the last login is logged out",
			"a credential that survives a re-permissioning is only flagged when it is used beyond the user's CURRENT permissions (immudb terminates such sessions; the check does not require that)",
			"expiry is established by polling the server's own session manager (SessionPresent): fixture 'idle' = 1.5s inactivity timeout, no age limit; fixture 'age' = 10s age limit with the session kept active; guard every 10ms; a session the server still knows 90s later is reported as 'sessions do not expire'",
			"token expiry is exercised with TokenExpiryTimeMin=-1 (tokens are issued already expired), no wall-clock wait",
			"pgsql wire protocol, REST gateway, mTLS and the embedded web console are not driven; maintenance mode (auth off) is out of scope of the auth-on matrix",
			"client-streaming RPCs (streamSet, streamVerifiableSet, streamExecAll, replicateTx) carry one request split over several messages and are authorized when the call starts; nothing is claimed about a credential change in the middle of such a request",
			"DB-level side channels (timing, error text) are not examined",
		},
		Probes: []vk.Probe{
			{ID: kSysDoc, Present: probeSysDoc},
			{ID: kSysTx, Present: probeSysTx},
			{ID: kTxSwite, Present: probeTxSwitch},
			{ID: kMultiLg, Present: probeMultiLogin},
		},
	})
}

// excluded wraps vk.Excluded. C18_IGNORE_KNOWN=1 (development only) generates
// the classes of the known findings anyway, to see the generators re-find them.
func excluded(id string) bool {
	if v := os.Getenv("C18_IGNORE_KNOWN"); v == "1" || (v != "" && strings.Contains(v, id)) {
		return false
	}
	return vk.Excluded(id)
}
