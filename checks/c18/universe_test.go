package c18

import (
	"context"
	"fmt"
	"io"
	"sort"
	"strings"
	"time"

	"github.com/codenotary/immudb/pkg/api/protomodel"
	"github.com/codenotary/immudb/pkg/api/schema"
	"google.golang.org/grpc"
	"google.golang.org/grpc/metadata"
	"google.golang.org/protobuf/proto"
	"google.golang.org/protobuf/reflect/protoreflect"
	"google.golang.org/protobuf/reflect/protoregistry"
)

// rpc is one method of the public gRPC surface, taken from the generated
// service descriptors by reflection.
type rpc struct {
	svc          string // short service name, e.g. "ImmuService"
	name         string // method name as registered, e.g. "Set", "streamGet"
	full         string // "/immudb.schema.ImmuService/Set"
	clientStream bool
	serverStream bool
	in, out      protoreflect.MessageType
}

func (r *rpc) key() string { return r.svc + "." + r.name }

func shortSvc(full string) string {
	if i := strings.LastIndex(full, "."); i >= 0 {
		return full[i+1:]
	}
	return full
}

// universe enumerates every RPC of the three public services.
func universe() ([]*rpc, error) {
	var out []*rpc
	for _, sd := range []*grpc.ServiceDesc{&schema.ImmuService_ServiceDesc, &protomodel.DocumentService_ServiceDesc, &protomodel.AuthorizationService_ServiceDesc} {
		d, err := protoregistry.GlobalFiles.FindDescriptorByName(protoreflect.FullName(sd.ServiceName))
		if err != nil {
			return nil, fmt.Errorf("service %s: %v", sd.ServiceName, err)
		}
		svcDesc, ok := d.(protoreflect.ServiceDescriptor)
		if !ok {
			return nil, fmt.Errorf("%s is not a service", sd.ServiceName)
		}
		seen := map[string]bool{}
		add := func(name string, cs, ss bool) error {
			md := svcDesc.Methods().ByName(protoreflect.Name(name))
			if md == nil {
				return fmt.Errorf("%s/%s: no method descriptor", sd.ServiceName, name)
			}
			if md.IsStreamingClient() != cs || md.IsStreamingServer() != ss {
				return fmt.Errorf("%s/%s: streaming flags differ between ServiceDesc and descriptor", sd.ServiceName, name)
			}
			in, err := protoregistry.GlobalTypes.FindMessageByName(md.Input().FullName())
			if err != nil {
				return err
			}
			o, err := protoregistry.GlobalTypes.FindMessageByName(md.Output().FullName())
			if err != nil {
				return err
			}
			seen[name] = true
			out = append(out, &rpc{svc: shortSvc(sd.ServiceName), name: name, full: "/" + sd.ServiceName + "/" + name, clientStream: cs, serverStream: ss, in: in, out: o})
			return nil
		}
		for _, m := range sd.Methods {
			if err := add(m.MethodName, false, false); err != nil {
				return nil, err
			}
		}
		for _, s := range sd.Streams {
			if err := add(s.StreamName, s.ClientStreams, s.ServerStreams); err != nil {
				return nil, err
			}
		}
		// the file descriptor must not know methods the ServiceDesc does not serve
		for i := 0; i < svcDesc.Methods().Len(); i++ {
			if n := string(svcDesc.Methods().Get(i).Name()); !seen[n] {
				return nil, fmt.Errorf("%s/%s is in the proto descriptor but not in the gRPC ServiceDesc", sd.ServiceName, n)
			}
		}
	}
	sort.Slice(out, func(i, j int) bool { return out[i].key() < out[j].key() })
	return out, nil
}

// result of one call: the error (nil = OK) and every response message received.
type result struct {
	err  error
	msgs []proto.Message
}

func (r result) bytes() []byte {
	var b []byte
	for _, m := range r.msgs {
		b = append(b, wire(m)...)
	}
	return b
}

const callTimeout = 60 * time.Second

// invoke performs the RPC with the given credential metadata. For
// client-streaming methods every element of reqs is sent, then the send side
// is closed; for the others reqs[0] is the request.
func (x *srv) invoke(m *rpc, c *cred, reqs []proto.Message, extraMD ...string) result {
	ctx, cancel := context.WithTimeout(c.ctx(), callTimeout)
	defer cancel()
	if len(extraMD) > 0 {
		ctx = metadata.AppendToOutgoingContext(ctx, extraMD...)
	}
	if !m.clientStream && !m.serverStream {
		resp := m.out.New().Interface()
		var req proto.Message = m.in.New().Interface()
		if len(reqs) > 0 {
			req = reqs[0]
		}
		if err := x.conn.Invoke(ctx, m.full, req, resp); err != nil {
			return result{err: err}
		}
		return result{msgs: []proto.Message{resp}}
	}
	st, err := x.conn.NewStream(ctx, &grpc.StreamDesc{StreamName: m.name, ClientStreams: m.clientStream, ServerStreams: m.serverStream}, m.full)
	if err != nil {
		return result{err: err}
	}
	var res result
	for _, r := range reqs {
		if err := st.SendMsg(r); err != nil {
			// the server already ended the RPC: the status comes from RecvMsg
			break
		}
		if m.clientStream && m.serverStream {
			// bidirectional (streamExportTx): one answer per request
			for {
				resp := m.out.New().Interface()
				if err := st.RecvMsg(resp); err != nil {
					if err != io.EOF {
						res.err = err
					}
					return res
				}
				res.msgs = append(res.msgs, resp)
				if bidiAnswerComplete(res.msgs) {
					break
				}
			}
		}
	}
	st.CloseSend()
	for {
		resp := m.out.New().Interface()
		err := st.RecvMsg(resp)
		if err == io.EOF {
			return res
		}
		if err != nil {
			res.err = err
			return res
		}
		res.msgs = append(res.msgs, resp)
		if !m.serverStream {
			// client-streaming: exactly one response, then EOF
			if err := st.RecvMsg(m.out.New().Interface()); err != nil && err != io.EOF {
				res.err = err
			}
			return res
		}
	}
}

// bidiAnswerComplete: an exported tx is one framed message; it is complete when
// the announced length has been received.
func bidiAnswerComplete(msgs []proto.Message) bool {
	var buf []byte
	for _, m := range msgs {
		if c, ok := m.(*schema.Chunk); ok {
			buf = append(buf, c.Content...)
		}
	}
	if len(buf) < 8 {
		return false
	}
	n := uint64(0)
	for _, b := range buf[:8] {
		n = n<<8 | uint64(b)
	}
	return uint64(len(buf)-8) >= n
}
