package c18

import (
	"context"
	"fmt"
	"sync"

	"github.com/codenotary/immudb/pkg/api/schema"
	"google.golang.org/protobuf/types/known/emptypb"
)

// permission levels of the independent model (NOT taken from pkg/auth tables)
type level int

const (
	lvNone  level = iota
	lvAuth        // any valid credential
	lvR           // read
	lvRW          // read-write
	lvAdmin       // database admin
	lvSys         // sysadmin
	lvNever       // nobody (e.g. writing systemdb, wrong password)
)

func (l level) String() string {
	return [...]string{"none", "auth", "R", "RW", "admin", "sysadmin", "never"}[l]
}

func permCode(l level) uint32 {
	switch l {
	case lvR:
		return 1
	case lvRW:
		return 2
	case lvAdmin:
		return 254
	}
	return 0
}

const (
	dbA   = "dba"
	dbB   = "dbb"
	dbRep = "dbrep"
	// scope name of the victim database (deleted databases leave a tombstone,
	// so the victim gets a new real name every time it is re-created)
	dbVic = "<victim>"
)

// principal = who is calling, with which kind of credential, on which selected
// database, in which session state. perms is the model's view of the user's
// CURRENT permissions (after any admin change); live=false means the
// credential was terminated (closed, logged out, deactivated, password changed,
// expired) and every non-public call must be refused.
type principal struct {
	name  string
	user  string
	pass  string
	auth  string // "none" | "session" | "token" | "badsession" | "badtoken"
	sel   string // selected database ("" = none)
	state string // "valid" | "closed" | "deactivated" | "pwchanged" | "revoked" | "downgraded" | "expired" | "none"
	sys   bool
	perms map[string]level
	live  bool
	c     *cred
}

func (p *principal) eff(db string) level {
	if !p.live {
		return lvNone
	}
	if p.sys {
		return lvSys
	}
	return p.perms[db]
}

func (p *principal) adminAny() bool {
	if !p.live {
		return false
	}
	if p.sys {
		return true
	}
	for _, l := range p.perms {
		if l >= lvAdmin {
			return true
		}
	}
	return false
}

// env = one server + the fixed population of databases, users and principals.
type env struct {
	x          *srv
	principals []*principal
	byName     map[string]*principal
	users      map[string]map[string]level // user -> db -> level (model)
	docID      map[string]string
	docTx      map[string]uint64
	ctr        int
	fpCache    *fingerprint
	victimsOK  bool
	repNext    uint64 // next tx of dbA to replicate into dbRep
	timed      bool   // expiry fixture: sessions may vanish concurrently
	secretUser string
	vicName    string // current real name of the victim database
	vicGen     int
	known      []string // databases whose state is part of the fingerprint
	twin       map[string]bool
	sacr       map[string]string // sacrificial objects: kind@db -> name
	base       map[string]*cred  // one shared Login per user
	baseMu     sync.Mutex
}

func (e *env) real(db string) string {
	if db == dbVic {
		return e.vicName
	}
	return db
}

func (e *env) uniq(prefix string) string {
	e.ctr++
	return fmt.Sprintf("%s%d", prefix, e.ctr)
}

func (e *env) uniqN() int {
	e.ctr++
	return e.ctr
}

func (e *env) fp() fingerprint {
	if e.fpCache != nil {
		return *e.fpCache
	}
	f := e.x.fingerprint(e.known)
	e.fpCache = &f
	return f
}

func (e *env) dirty() { e.fpCache = nil }

func (e *env) setFP(f fingerprint) { e.fpCache = &f }

var userSpecs = []struct {
	name  string
	perms map[string]level
}{
	{"ur", map[string]level{dbA: lvR, dbRep: lvR}},
	{"urw", map[string]level{dbA: lvRW, dbB: lvR, dbRep: lvRW}},
	{"uadm", map[string]level{dbA: lvAdmin, dbB: lvR, dbRep: lvAdmin}},
	{"uvic", map[string]level{dbA: lvR}}, // + Admin on the current victim database
	{"uadmb", map[string]level{dbB: lvAdmin}},
	{"usys", map[string]level{sysDB: lvAdmin, dbA: lvR}},
	// users whose credentials are minted first and then invalidated
	{"dclosed", map[string]level{dbA: lvAdmin}},
	{"ddeact", map[string]level{dbA: lvAdmin}},
	{"dpw", map[string]level{dbA: lvAdmin}},
	{"drev", map[string]level{dbA: lvAdmin}},
	{"ddown", map[string]level{dbA: lvAdmin}},
	// victims of administrative requests
	{"vic_pw", map[string]level{dbA: lvRW}},
	{"vic_act", map[string]level{dbA: lvRW}},
	{"vic_perm", map[string]level{dbA: lvR, dbB: lvR}},
}

func (e *env) mkUser(name string, perms map[string]level) error {
	first := true
	// deterministic order
	for _, db := range []string{dbA, dbB, dbRep, defDB, sysDB} {
		l, ok := perms[db]
		if !ok {
			continue
		}
		if first {
			if db == sysDB {
				return fmt.Errorf("first grant of %s cannot be systemdb", name)
			}
			if err := e.x.createUser(name, db, permCode(l)); err != nil {
				return fmt.Errorf("create user %s: %w", name, err)
			}
			first = false
			continue
		}
		if err := e.x.grant(name, db, permCode(l)); err != nil {
			return fmt.Errorf("grant %s %s: %w", name, db, err)
		}
	}
	return nil
}

// mint makes a brand-new credential (its own OpenSession / Login).
func (e *env) mint(user, pass, auth, sel string) (*cred, error) {
	e.dirty()
	switch auth {
	case "session":
		return e.x.openSession(user, pass, sel)
	case "token":
		return e.x.login(user, pass, sel)
	}
	return nil, fmt.Errorf("mint: auth kind %q", auth)
}

// mintShared: token credentials of one user on several databases come from
// ONE Login (bcrypt is expensive) followed by UseDatabase per database.
func (e *env) mintShared(user, pass, auth, sel string) (*cred, error) {
	if auth != "token" {
		return e.mint(user, pass, auth, sel)
	}
	e.dirty()
	e.baseMu.Lock()
	base := e.base[user]
	e.baseMu.Unlock()
	if base == nil {
		var err error
		if base, err = e.x.login(user, pass, ""); err != nil {
			return nil, err
		}
		e.baseMu.Lock()
		e.base[user] = base
		e.baseMu.Unlock()
	}
	if sel == "" {
		return base, nil
	}
	u, err := e.x.ic.UseDatabase(base.ctx(), &schema.Database{DatabaseName: sel})
	if err != nil {
		return nil, fmt.Errorf("usedatabase %s: %w", sel, err)
	}
	return &cred{kind: "token", value: u.Token, user: user, db: sel}, nil
}

// parallel runs the jobs on a few goroutines and returns the first error.
func parallel(jobs []func() error) error {
	errs := make([]error, len(jobs))
	sem := make(chan struct{}, 8)
	var wg sync.WaitGroup
	for i, j := range jobs {
		wg.Add(1)
		sem <- struct{}{}
		go func(i int, j func() error) {
			defer func() { <-sem; wg.Done() }()
			errs[i] = j()
		}(i, j)
	}
	wg.Wait()
	for _, err := range errs {
		if err != nil {
			return err
		}
	}
	return nil
}

func (e *env) addPrincipal(p *principal) *principal {
	if _, dup := e.byName[p.name]; dup {
		panic("duplicate principal " + p.name)
	}
	e.principals = append(e.principals, p)
	e.byName[p.name] = p
	return p
}

// addLive registers a principal with a valid credential; the credential itself
// is minted later (in parallel) by the returned job.
func (e *env) addLive(user, auth, sel string) func() error {
	p := &principal{name: fmt.Sprintf("%s/%s@%s", user, auth, orNone(sel)), user: user, pass: userPw, auth: auth, sel: sel, state: "valid", live: true}
	if user == sysUser {
		p.sys, p.pass = true, sysPass
		p.perms = map[string]level{}
	} else {
		p.perms = e.users[user]
	}
	e.addPrincipal(p)
	return func() error {
		c, err := e.mintShared(user, p.pass, auth, sel)
		if err != nil {
			return fmt.Errorf("mint %s: %w", p.name, err)
		}
		p.c = c
		return nil
	}
}

func orNone(s string) string {
	if s == "" {
		return "none"
	}
	return s
}

// newEnv builds the main fixture: databases, seeded content, users, principals.
func newEnv() (*env, error) { return newEnvWith(srvConfig{tokenExpMin: 1440}, true) }

// newEnvWith: full=false builds the same databases, content and users but no
// principals (the expiry fixture adds its own).
func newEnvWith(cfg srvConfig, full bool) (*env, error) {
	x, err := startServer(cfg)
	if err != nil {
		return nil, err
	}
	if cfg.sess != nil {
		x.keepObserversAlive()
		x.maxObsAge = cfg.sess.MaxSessionAgeTime / 4
	}
	e := &env{x: x, byName: map[string]*principal{}, users: map[string]map[string]level{}, docID: map[string]string{}, docTx: map[string]uint64{}, twin: map[string]bool{}, base: map[string]*cred{}, sacr: map[string]string{}}
	e.known = []string{dbA, dbB, dbRep, defDB}
	for _, db := range []string{dbA, dbB} {
		if err := x.createDB(db); err != nil {
			return nil, fmt.Errorf("create %s: %w", db, err)
		}
	}
	// a replica database without a primary: only ReplicateTx can write it
	if err := x.asAdmin(defDB, func(ctx context.Context) error {
		_, err := x.ic.CreateDatabaseV2(ctx, &schema.CreateDatabaseRequest{Name: dbRep, Settings: &schema.DatabaseNullableSettings{
			ReplicationSettings: &schema.ReplicationNullableSettings{Replica: &schema.NullableBool{Value: true}},
			MaxTxEntries:        &schema.NullableUint32{Value: 64}, MaxConcurrency: &schema.NullableUint32{Value: 4}, MaxIOConcurrency: &schema.NullableUint32{Value: 1}}})
		return err
	}); err != nil {
		return nil, fmt.Errorf("create %s: %w", dbRep, err)
	}
	e.repNext = 1
	for _, db := range []string{dbA, dbB, defDB} {
		if err := x.seed(db); err != nil {
			return nil, fmt.Errorf("seed %s: %w", db, err)
		}
		if db == dbA || db == dbB {
			id, tx, err := x.firstDocID(db)
			if err != nil {
				return nil, err
			}
			e.docID[db], e.docTx[db] = id, tx
		}
	}
	// a user nobody but sysadmin / the admins of dbb may learn about
	e.secretUser = marker(sysDB)
	{
		var usersMu sync.Mutex
		var jobs []func() error
		mk := func(name string, perms map[string]level) {
			jobs = append(jobs, func() error {
				usersMu.Lock()
				e.users[name] = perms
				usersMu.Unlock()
				return e.mkUser(name, perms)
			})
		}
		for _, u := range userSpecs {
			mk(u.name, u.perms)
		}
		mk(e.secretUser, map[string]level{dbB: lvR})
		if err := parallel(jobs); err != nil {
			return nil, err
		}
	}

	if !full {
		e.timed = true
		e.dirty()
		if err := e.ensureVictims(); err != nil {
			return nil, err
		}
		return e, nil
	}

	// --- no / bogus credentials
	e.addPrincipal(&principal{name: "anon", auth: "none", state: "none"})
	e.addPrincipal(&principal{name: "badsession", auth: "badsession", state: "none", c: &cred{kind: "session", value: "AAAAAAAAAAAAAAAAAAAAAAAAAAAAAAAAAAAAAAAAAAA="}})
	e.addPrincipal(&principal{name: "badtoken", auth: "badtoken", state: "none", c: &cred{kind: "token", value: "Bearer v2.public.bm90LWEtdG9rZW4"}})

	// --- valid credentials
	{
		// one Login per user first, so that the per-database tokens share it
		var logins, jobs []func() error
		for _, user := range []string{"ur", "urw", "uadm", "uadmb", "usys", "uvic", sysUser} {
			user, pass := user, userPw
			if user == sysUser {
				pass = sysPass
			}
			logins = append(logins, func() error { _, err := e.mintShared(user, pass, "token", ""); return err })
		}
		if err := parallel(logins); err != nil {
			return nil, err
		}
		for _, auth := range []string{"session", "token"} {
			for _, us := range []struct{ user, sel string }{
				{"ur", dbA}, {"urw", dbA}, {"uadm", dbA}, {"urw", dbB}, {"uadm", dbB}, {"uadmb", dbB},
				{sysUser, dbA}, {sysUser, sysDB}, {"usys", sysDB}, {"usys", dbA},
				{"ur", dbRep}, {"urw", dbRep}, {"uadm", dbRep}, {sysUser, dbRep}, {"uvic", dbA},
			} {
				jobs = append(jobs, e.addLive(us.user, auth, us.sel))
			}
		}
		for _, user := range []string{"urw", sysUser} {
			jobs = append(jobs, e.addLive(user, "token", ""))
		}
		if err := parallel(jobs); err != nil {
			return nil, err
		}
	}
	// a token of ur whose signature was altered
	{
		c, err := e.mint("ur", userPw, "token", dbA)
		if err != nil {
			return nil, err
		}
		v := []byte(c.value)
		i := len(v) - 12 // inside the signature part, before the footer
		if v[i] == 'A' {
			v[i] = 'B'
		} else {
			v[i] = 'A'
		}
		e.addPrincipal(&principal{name: "tampered-token", auth: "badtoken", state: "none", c: &cred{kind: "token", value: string(v)}})
	}

	// --- credentials that were valid and then invalidated
	type dead struct {
		user, state string
		kill        func() error
		perms       map[string]level
		live        bool
	}
	deads := []dead{
		{"ddeact", "deactivated", func() error { return x.setActive("ddeact", false) }, nil, false},
		{"dpw", "pwchanged", func() error { return x.changePassword("dpw", "An0ther!Passw") }, nil, false},
		{"drev", "revoked", func() error { return x.revoke("drev", dbA, permCode(lvAdmin)) }, map[string]level{}, true},
		{"ddown", "downgraded", func() error { return x.grant("ddown", dbA, permCode(lvR)) }, map[string]level{dbA: lvR}, true},
	}
	for _, d := range deads {
		var cs []*principal
		for _, auth := range []string{"session", "token"} {
			c, err := e.mint(d.user, userPw, auth, dbA)
			if err != nil {
				return nil, fmt.Errorf("mint %s: %w", d.user, err)
			}
			cs = append(cs, &principal{name: fmt.Sprintf("%s/%s@%s[%s]", d.user, auth, dbA, d.state), user: d.user, auth: auth, sel: dbA, state: d.state, c: c, live: d.live, perms: d.perms})
		}
		if err := d.kill(); err != nil {
			return nil, fmt.Errorf("%s: %w", d.state, err)
		}
		if d.perms != nil {
			e.users[d.user] = d.perms
		}
		for _, p := range cs {
			e.addPrincipal(p)
		}
	}
	{
		c, err := e.mint("dclosed", userPw, "session", dbA)
		if err != nil {
			return nil, err
		}
		if _, err := x.ic.CloseSession(c.ctx(), &emptypb.Empty{}); err != nil {
			return nil, fmt.Errorf("close session: %w", err)
		}
		e.addPrincipal(&principal{name: "dclosed/session@dba[closed]", user: "dclosed", auth: "session", sel: dbA, state: "closed", c: c})
		c, err = e.mint("dclosed", userPw, "token", dbA)
		if err != nil {
			return nil, err
		}
		if _, err := x.ic.Logout(c.ctx(), &emptypb.Empty{}); err != nil {
			return nil, fmt.Errorf("logout: %w", err)
		}
		e.addPrincipal(&principal{name: "dclosed/token@dba[logout]", user: "dclosed", auth: "token", sel: dbA, state: "closed", c: c})
	}
	e.dirty()
	if err := e.ensureVictims(); err != nil {
		return nil, err
	}
	return e, nil
}

// newVictimDB creates a fresh victim database and hands its admin (uvic) the
// permission on it; uvic's credentials are re-minted because a permission
// change terminates them.
func (e *env) newVictimDB() error {
	x := e.x
	e.dirty()
	old := e.vicName
	e.vicGen++
	e.vicName = fmt.Sprintf("vicdb%d", e.vicGen)
	if old != "" {
		x.dropObserver(old)
	}
	if err := x.createDB(e.vicName); err != nil {
		return fmt.Errorf("create %s: %w", e.vicName, err)
	}
	if err := x.seed(e.vicName); err != nil {
		return err
	}
	known := e.known[:0:0]
	for _, n := range e.known {
		if n != old {
			known = append(known, n)
		}
	}
	e.known = append(known, e.vicName)
	if err := x.grant("uvic", e.vicName, permCode(lvAdmin)); err != nil {
		return fmt.Errorf("grant uvic: %w", err)
	}
	perms := e.users["uvic"]
	delete(perms, old)
	perms[e.vicName] = lvAdmin
	e.baseMu.Lock()
	delete(e.base, "uvic")
	e.baseMu.Unlock()
	for _, p := range e.principals {
		if p.user == "uvic" && p.state == "valid" {
			c, err := e.mintShared(p.user, p.pass, p.auth, p.sel)
			if err != nil {
				return fmt.Errorf("re-mint %s: %w", p.name, err)
			}
			p.c = c
		}
	}
	return nil
}

// ensureVictims (re-)establishes the objects administrative requests aim at.
func (e *env) ensureVictims() error {
	if e.victimsOK {
		return nil
	}
	e.dirty()
	x := e.x
	found, loaded := false, false
	if e.vicName != "" {
		// (no DatabaseListV2 here: it walks every data directory)
		st := x.stateOf(e.vicName)
		found, loaded = st.Err == "", st.Loaded
	}
	if !found {
		if err := e.newVictimDB(); err != nil {
			return err
		}
	} else if !loaded {
		x.dropObserver(e.vicName)
		if err := x.asAdmin(defDB, func(ctx context.Context) error {
			_, err := x.ic.LoadDatabase(ctx, &schema.LoadDatabaseRequest{Database: e.vicName})
			return err
		}); err != nil {
			return fmt.Errorf("reload %s: %w", e.vicName, err)
		}
	}
	// users
	var ul *schema.UserList
	if err := x.asAdmin(defDB, func(ctx context.Context) error {
		var err error
		ul, err = x.ic.ListUsers(ctx, &emptypb.Empty{})
		return err
	}); err != nil {
		return err
	}
	for _, u := range ul.Users {
		name := string(u.User)
		switch name {
		case "vic_act", "vic_pw", "vic_perm":
			if !u.Active {
				if err := x.setActive(name, true); err != nil {
					return err
				}
			}
		}
		if name == "vic_perm" {
			want := e.users["vic_perm"]
			ok := len(u.Permissions) == len(want)
			for _, p := range u.Permissions {
				if permCode(want[p.Database]) != p.Permission {
					ok = false
				}
			}
			if !ok {
				for _, p := range u.Permissions {
					if _, keep := want[p.Database]; !keep {
						if err := x.revoke(name, p.Database, p.Permission); err != nil {
							return err
						}
					}
				}
				for db, l := range want {
					if err := x.grant(name, db, permCode(l)); err != nil {
						return err
					}
				}
			}
		}
	}
	e.victimsOK = true
	return nil
}

// setVicLoaded puts the victim database into the loaded / unloaded state.
func (e *env) setVicLoaded(want bool) error {
	x := e.x
	cur := e.fp().DBs[e.vicName]
	if cur.Loaded == want {
		return nil
	}
	e.dirty()
	x.dropObserver(e.vicName)
	return x.asAdmin(defDB, func(ctx context.Context) error {
		var err error
		if want {
			_, err = x.ic.LoadDatabase(ctx, &schema.LoadDatabaseRequest{Database: e.vicName})
		} else {
			_, err = x.ic.UnloadDatabase(ctx, &schema.UnloadDatabaseRequest{Database: e.vicName})
		}
		return err
	})
}
