package c18

import (
	"context"
	"fmt"
	"io"
	"strings"
	"testing"
	"time"

	"github.com/codenotary/immudb/pkg/api/schema"
	"google.golang.org/grpc"
	"google.golang.org/protobuf/proto"
	"google.golang.org/protobuf/types/known/emptypb"
	"pgregory.net/rapid"

	"verif/internal/vk"
)

// Long-lived streams: RPCs on which the client sends SEVERAL requests over one
// open stream (bidirectional streaming). Authorization has to be decided per
// request, not once when the stream opens: a stream opened while the caller
// was authorized must stop being served when the caller's credential state
// changes. (Client-streaming RPCs - streamSet, replicateTx, ... - carry ONE
// request split over several messages and are authorized when they start;
// nothing is claimed about a change in the middle of such a request.)
//
// conversations is the oracle table for them; a bidirectional RPC of the
// reflected universe without an entry fails the check.
type conversationSpec struct {
	unary   string // key of the RPC that serves the same request on a fresh call (the per-message reference)
	need    level  // level the caller must hold on the selected database for one request
	request func(e *env, ch chooser) proto.Message
	// complete reports whether the answer to one request has been received completely
	complete func(msgs []proto.Message) bool
}

func conversations() map[string]conversationSpec {
	return map[string]conversationSpec{
		"ImmuService.streamExportTx": {
			unary: "ImmuService.exportTx",
			need:  lvR,
			request: func(e *env, ch chooser) proto.Message {
				last := e.fp().DBs[dbA].TxID
				switch ch.pick("whichTx", 3) {
				case 0:
					return &schema.ExportTxRequest{Tx: last} // the newest one: possibly committed after the event
				case 1:
					return &schema.ExportTxRequest{Tx: 1}
				}
				return &schema.ExportTxRequest{Tx: 1 + uint64(ch.pick("tx", int(last)))}
			},
			complete: bidiAnswerComplete,
		},
	}
}

// conversation = one open stream.
type conversation struct {
	st     grpc.ClientStream
	cancel context.CancelFunc
	m      *rpc
	dead   bool
}

func (x *srv) openConversation(m *rpc, c *cred) (*conversation, error) {
	ctx, cancel := context.WithTimeout(c.ctx(), 5*time.Minute)
	st, err := x.conn.NewStream(ctx, &grpc.StreamDesc{StreamName: m.name, ClientStreams: true, ServerStreams: true}, m.full)
	if err != nil {
		cancel()
		return nil, err
	}
	return &conversation{st: st, cancel: cancel, m: m}, nil
}

// exchange sends one request on the open stream and reads its answer.
func (cv *conversation) exchange(req proto.Message, complete func([]proto.Message) bool) result {
	var res result
	if cv.dead {
		res.err = fmt.Errorf("stream already ended")
		return res
	}
	if err := cv.st.SendMsg(req); err != nil {
		// the server ended the RPC: the status is delivered by RecvMsg
		cv.dead = true
	}
	for {
		resp := cv.m.out.New().Interface()
		err := cv.st.RecvMsg(resp)
		if err != nil {
			cv.dead = true
			if err == io.EOF {
				err = fmt.Errorf("stream closed by the server")
			}
			res.err = err
			return res
		}
		res.msgs = append(res.msgs, resp)
		if complete(res.msgs) {
			return res
		}
	}
}

func (cv *conversation) close() {
	if cv == nil {
		return
	}
	cv.st.CloseSend()
	cv.cancel()
	cv.dead = true
}

// TestStreamConversations: a generated user opens a long-lived stream while
// authorized, exchanges requests on it, then its credential state is changed
// in one of the ways TestCredentialHistories generates (revoke, downgrade,
// deactivate, password change, the user closing the session / logging out),
// and further requests are sent on the SAME stream; fresh streams and fresh
// unary calls with the same credential are probed as well.
//
// Oracle, per request (nothing timing-based): (1) model - a request is refused
// (error, no answer message) when the user is inactive, the credential was
// ended / issued under an older password, or the user holds less than the
// required level on the database; (2) reference - a request that a FRESH call
// of the unary twin with the same credential refuses must not be served on the
// open stream either.
func TestStreamConversations(t *testing.T) {
	e := theEnv(t)
	us, err := universe()
	if err != nil {
		t.Fatal(err)
	}
	byKey := map[string]*rpc{}
	convs := conversations()
	var bidi []*rpc
	for _, m := range us {
		byKey[m.key()] = m
		if m.clientStream && m.serverStream {
			if _, ok := convs[m.key()]; !ok {
				if vk.Shard() == 0 {
					vk.ReportViolation("TestStreamConversations", map[string]any{"message": "unclassified long-lived stream: a bidirectional RPC exists in the service descriptors but the conversation table has no entry", "method": m.key()})
				}
				t.Fatalf("unclassified bidirectional RPC %s", m.key())
			}
			bidi = append(bidi, m)
		}
	}
	for k := range convs {
		if byKey[k] == nil {
			t.Fatalf("INFRA: conversation table names %s, which does not exist", k)
		}
	}
	x := e.x
	vk.Check(t, 200, 6000, func(rt *rapid.T, c *vk.Case) {
		m := bidi[rapid.IntRange(0, len(bidi)-1).Draw(rt, "rpc")]
		spec := convs[m.key()]
		unary := byKey[spec.unary]
		user := fmt.Sprintf("s%d_%d", vk.Shard(), e.uniqN())
		perms := map[string]level{dbA: lvAdmin}
		if rapid.IntRange(0, 5).Draw(rt, "startLower") == 0 {
			perms[dbA] = lvRW
		}
		kind := rapid.SampledFrom([]string{"session", "token"}).Draw(rt, "credential")
		c.Descf("%s %s start=%s", m.key(), kind, perms[dbA])
		c.Label("cred-" + kind)
		if err := e.mkUser(user, perms); err != nil {
			rt.Fatalf("harness: %v", err)
		}
		e.dirty()
		pw, pwEpoch, active := userPw, 0, true
		var sb strings.Builder
		ch := rapidChoice{rt, &sb}
		var trace []string
		step := func(f string, a ...any) {
			s := fmt.Sprintf(f, a...)
			trace = append(trace, s)
			c.Descf("%s", s)
		}

		type holder struct {
			c       *cred
			epoch   int
			ended   bool
			cv      *conversation
			served  int  // requests answered on the currently open stream
			invalid bool // an event happened after the open stream had answered
			stale   bool // an administrative change terminated the credential on the server
		}
		mint := func() *holder {
			var cr *cred
			var err error
			if kind == "session" {
				cr, err = x.openSession(user, pw, dbA)
			} else {
				cr, err = x.login(user, pw, dbA)
			}
			e.dirty()
			if err != nil {
				rt.Fatalf("harness: cannot authenticate an active user holding %s on %s: %v", perms[dbA], dbA, err)
			}
			return &holder{c: cr, epoch: pwEpoch}
		}
		h := mint()
		defer func() {
			h.cv.close()
			if kind == "session" && !h.ended {
				x.ic.CloseSession(h.c.ctx(), &emptypb.Empty{})
			}
			e.dirty()
		}()

		modelAllows := func() bool {
			return active && !h.ended && h.epoch == pwEpoch && perms[dbA] >= spec.need
		}
		servedBeforeEvent, afterEvent, refusedAfterEvent, freshAfterEvent, events := 0, 0, 0, 0, 0
		lastEvent := ""

		// judge one request (on the open stream or on a fresh one) against both oracles
		judge := func(where string, res result, req proto.Message) {
			served := len(res.msgs) > 0
			if !modelAllows() && (served || res.err == nil) {
				c.Failf(rt, map[string]any{"trace": trace, "messages": len(res.msgs), "error": fmt.Sprint(res.err)},
					"%s: request on %s was served (%d message(s), err=%v) although the caller now holds %s on %s (active=%v, credential ended=%v, issued under password #%d, current #%d)",
					m.key(), where, len(res.msgs), res.err, perms[dbA], dbA, active, h.ended, h.epoch, pwEpoch)
			}
			// the reference: the same request as a fresh unary-twin call with the same credential
			ref := x.invoke(unary, h.c, []proto.Message{req})
			refServed := len(ref.msgs) > 0
			if served && !refServed {
				c.Failf(rt, map[string]any{"trace": trace, "reference_error": fmt.Sprint(ref.err)},
					"%s: request on %s was served although a fresh %s call with the same credential and request is refused (%v)", m.key(), where, unary.key(), ref.err)
			}
			if served {
				c.Label("served")
			} else {
				c.Label("refused")
			}
		}

		nSteps := rapid.IntRange(3, 14).Draw(rt, "steps")
		for i := 0; i < nSteps; i++ {
			// construct the interesting order rather than wait for it: open, be served,
			// event, then again a request on the same stream
			var ops []string
			switch {
			case h.cv == nil || h.cv.dead:
				ops = []string{"open", "open", "open", "event", "fresh"}
			case h.served == 0 && !h.invalid:
				ops = []string{"request"}
			case !h.invalid:
				ops = []string{"event", "event", "event", "request", "fresh"}
			default:
				ops = []string{"request", "request", "request", "request", "fresh"}
			}
			switch op := ops[rapid.IntRange(0, len(ops)-1).Draw(rt, "op")]; op {
			case "open":
				if h.ended || h.epoch != pwEpoch || !active || h.stale {
					if !active || perms[dbA] < lvR {
						continue // the user cannot authenticate again
					}
					h.cv.close()
					nh := mint()
					h.c, h.epoch, h.ended, h.stale = nh.c, nh.epoch, false, false
					step("reauth")
				}
				h.cv.close()
				cv, err := x.openConversation(m, h.c)
				if err != nil {
					rt.Fatalf("harness: open stream: %v", err)
				}
				h.cv, h.served, h.invalid = cv, 0, false
				step("open")
			case "request":
				req := spec.request(e, ch)
				res := h.cv.exchange(req, spec.complete)
				step("req(%v)->%d msg,err=%v", req, len(res.msgs), res.err != nil)
				if h.invalid {
					afterEvent++
					c.Label("same-stream-request-after-" + lastEvent)
					if len(res.msgs) == 0 {
						refusedAfterEvent++
					}
				} else if len(res.msgs) > 0 {
					h.served++
					servedBeforeEvent++
				}
				judge("the open stream", res, req)
			case "fresh":
				req := spec.request(e, ch)
				cv, err := x.openConversation(m, h.c)
				if err != nil {
					rt.Fatalf("harness: open stream: %v", err)
				}
				res := cv.exchange(req, spec.complete)
				cv.close()
				step("fresh(%v)->%d msg,err=%v", req, len(res.msgs), res.err != nil)
				if events > 0 {
					freshAfterEvent++
					c.Label("fresh-stream-after-event")
				}
				judge("a fresh stream", res, req)
			case "event":
				ev := rapid.SampledFrom([]string{"revoke", "downgrade-R", "downgrade-RW", "deactivate", "password", "close", "regrant", "activate", "commit"}).Draw(rt, "event")
				var err error
				switch ev {
				case "revoke":
					if !active || perms[dbA] == lvNone {
						continue
					}
					err = x.revoke(user, dbA, permCode(lvR))
					delete(perms, dbA)
				case "downgrade-R", "downgrade-RW":
					to := map[string]level{"downgrade-R": lvR, "downgrade-RW": lvRW}[ev]
					if !active || perms[dbA] <= to {
						continue
					}
					err = x.grant(user, dbA, permCode(to))
					perms[dbA] = to
				case "regrant":
					if !active || perms[dbA] == lvAdmin {
						continue
					}
					err = x.grant(user, dbA, permCode(lvAdmin))
					perms[dbA] = lvAdmin
				case "deactivate":
					if !active {
						continue
					}
					err = x.setActive(user, false)
					active = false
				case "activate":
					if active {
						continue
					}
					err = x.setActive(user, true)
					active = true
				case "password":
					if pwEpoch >= 2 {
						continue
					}
					pw = fmt.Sprintf("Ch4nged!Pw%d", pwEpoch+1)
					err = x.changePassword(user, pw)
					pwEpoch++
				case "close":
					if h.ended {
						continue
					}
					if kind == "session" {
						_, err = x.ic.CloseSession(h.c.ctx(), &emptypb.Empty{})
					} else {
						_, err = x.ic.Logout(h.c.ctx(), &emptypb.Empty{})
					}
					if err != nil {
						err = nil // the credential was already dead on the server: nothing ended by the user
						continue
					}
					h.ended = true
				case "commit":
					// data committed after whatever happened before: a later request for the newest tx asks for it
					err = x.asAdmin(dbA, func(ctx context.Context) error {
						_, err := x.ic.Set(ctx, &schema.SetRequest{KVs: []*schema.KeyValue{{Key: []byte(e.uniq("late")), Value: []byte("late-" + marker(dbA))}}})
						return err
					})
				}
				e.dirty()
				if err != nil {
					rt.Fatalf("harness: event %s: %v", ev, err)
				}
				step("EVENT %s", ev)
				if ev != "commit" {
					if ev != "close" {
						h.stale = true
					}
					events++
					c.Label("event-" + ev)
					if h.cv != nil && !h.cv.dead && h.served > 0 && ev != "regrant" && ev != "activate" {
						h.invalid = true
						lastEvent = ev
					}
				}
			}
		}
		c.Descf("%s", sb.String())
		if servedBeforeEvent > 0 {
			c.Label("stream-served-before-event")
		}
		if afterEvent > 0 {
			c.Label("same-stream-request-after-event")
		}
		if refusedAfterEvent > 0 {
			c.Label("same-stream-request-refused-after-event")
		}
		// non-trivial: a stream that answered at least one request, then an event that
		// changes the caller's credential state, then another request on the SAME stream
		if afterEvent > 0 {
			c.NonTrivial()
		}
	})
}
