package c18

import (
	"bytes"
	"fmt"
	"strings"
	"testing"

	"github.com/codenotary/immudb/pkg/api/protomodel"
	"github.com/codenotary/immudb/pkg/api/schema"
	"google.golang.org/grpc/metadata"
	"google.golang.org/protobuf/proto"
	"google.golang.org/protobuf/types/known/emptypb"
	"google.golang.org/protobuf/types/known/structpb"
	"pgregory.net/rapid"

	"verif/internal/vk"
)

// hcred is one credential held by the generated user.
type hcred struct {
	id      int
	kind    string // "session" | "token"
	value   string
	sel     string // selected database
	ended   bool   // the user closed the session / logged the (only) token out
	pwEpoch int    // password generation it was issued under
	txID    string // open SQL transaction ("" = none)
	txDB    string // database the transaction was opened on
	txDirty bool   // a write statement was accepted inside the transaction
}

func (c *hcred) cred() *cred { return &cred{kind: c.kind, value: c.value} }

var histDBs = []string{dbA, dbB}

// TestCredentialHistories: one generated user, a random interleaving of what
// the user does (login, sessions, database selection, SQL transactions, reads
// and writes through several RPC families) with what administrators do to the
// user (grant, revoke, deactivate, re-activate, change password). After every
// step of the user: a database may only have changed if the user CURRENTLY
// holds read-write or more on it and the credential was not ended; content of
// a database may only be returned if the user currently holds read or more.
func TestCredentialHistories(t *testing.T) {
	e := theEnv(t)
	us, err := universe()
	if err != nil {
		t.Fatal(err)
	}
	byKey := map[string]*rpc{}
	for _, m := range us {
		byKey[m.key()] = m
	}
	x := e.x
	vk.Check(t, 160, 4000, func(rt *rapid.T, c *vk.Case) {
		user := fmt.Sprintf("h%d_%d", vk.Shard(), e.uniqN())
		perms := map[string]level{}
		perms[dbA] = []level{lvR, lvRW, lvAdmin}[rapid.IntRange(0, 2).Draw(rt, "permA")]
		if l := []level{lvNone, lvR, lvRW}[rapid.IntRange(0, 2).Draw(rt, "permB")]; l != lvNone {
			perms[dbB] = l
		}
		c.Descf("A=%s B=%s", perms[dbA], perms[dbB])
		if err := e.mkUser(user, perms); err != nil {
			rt.Fatalf("harness: %v", err)
		}
		e.dirty()
		active, pw, pwEpoch, logins := true, userPw, 0, 0
		var creds []*hcred
		nextID := 0
		var trace []string
		step := func(f string, a ...any) {
			s := fmt.Sprintf(f, a...)
			trace = append(trace, s)
			c.Descf("%s", s)
		}
		adminChanges, staleUse, deniedWrites, okWrites, txOps, switches := 0, 0, 0, 0, 0, 0

		mayWrite := func(cr *hcred, db string) bool {
			return active && !cr.ended && cr.pwEpoch == pwEpoch && perms[db] >= lvRW
		}
		mayRead := func(cr *hcred, db string) bool {
			return active && !cr.ended && cr.pwEpoch == pwEpoch && perms[db] >= lvR
		}
		// check applies the scope oracles to one call of the user.
		check := func(cr *hcred, what string, before fingerprint, res result, writeTarget string) {
			after := x.fingerprint(e.known)
			e.setFP(after)
			for _, ch := range before.diff(after) {
				name := strings.TrimLeft(ch, "+-")
				if name == sysDB || ch != name || !mayWrite(cr, name) {
					c.Failf(rt, map[string]any{"trace": trace, "changed": before.diff(after)},
						"%s changed %s although the user now holds %s on it (active=%v, credential ended=%v, issued under password #%d, current #%d)",
						what, ch, perms[name], active, cr.ended, cr.pwEpoch, pwEpoch)
				}
			}
			body := res.bytes()
			for _, db := range append([]string{sysDB}, e.known...) {
				if db == sysDB && mayRead(cr, dbB) && perms[dbB] >= lvAdmin {
					continue // the secret user has a permission on dbb: the admins of dbb may list it
				}
				if bytes.Contains(body, []byte(marker(db))) && !mayRead(cr, db) {
					c.Failf(rt, map[string]any{"trace": trace}, "%s returned content of %s although the user now holds %s on it (active=%v, ended=%v)", what, db, perms[db], active, cr.ended)
				}
			}
			if writeTarget != "" {
				if !mayWrite(cr, writeTarget) {
					deniedWrites++
					if res.err == nil {
						c.Failf(rt, map[string]any{"trace": trace}, "%s on %s was accepted although the user now holds %s on it (active=%v, ended=%v)", what, writeTarget, perms[writeTarget], active, cr.ended)
					}
					if cr.ended || !active || cr.pwEpoch != pwEpoch {
						staleUse++
					}
				} else if res.err == nil {
					okWrites++
				}
			}
		}
		var forced *hcred // set while a composite flow drives the single-step actions
		forcedDB := ""
		pickCred := func(rt *rapid.T, pred func(*hcred) bool) *hcred {
			if forced != nil {
				if pred == nil || pred(forced) {
					return forced
				}
				return nil
			}
			var cs []*hcred
			for _, cr := range creds {
				if pred == nil || pred(cr) {
					cs = append(cs, cr)
				}
			}
			if len(cs) == 0 {
				return nil
			}
			return cs[rapid.IntRange(0, len(cs)-1).Draw(rt, "cred")]
		}
		dbsWith := func(min level) []string {
			var out []string
			for _, db := range histDBs {
				if perms[db] >= min {
					out = append(out, db)
				}
			}
			return out
		}
		// logins mirrors the server's per-user login counter: +1 per Login, -1 per
		// Logout and per administrative change of the user (floor 0).
		adminDecrement := func() {
			if logins > 0 {
				logins--
			}
		}
		// known finding: an administrative change that does not bring the counter to
		// zero leaves the cached user data (old permissions, Active) in force
		multiLoginClass := func() (avoid bool) {
			if logins >= 2 {
				if excluded(kMultiLg) {
					vk.CountExcluded(kMultiLg)
					c.Label("admin-change-with-2-logins-avoided")
					return true
				}
			}
			return false
		}

		var do func(name string, rt *rapid.T)
		actions := map[string]func(*rapid.T){
			"login": func(rt *rapid.T) {
				dbs := dbsWith(lvR)
				if !active || len(dbs) == 0 || len(creds) > 8 {
					return
				}
				db := dbs[rapid.IntRange(0, len(dbs)-1).Draw(rt, "db")]
				cr, err := x.login(user, pw, db)
				e.dirty()
				if err != nil {
					rt.Fatalf("harness: login of an active user with %s on %s failed: %v", perms[db], db, err)
				}
				nextID++
				logins++
				creds = append(creds, &hcred{id: nextID, kind: "token", value: cr.value, sel: db, pwEpoch: pwEpoch})
				step("login#%d@%s", nextID, db)
			},
			"openSession": func(rt *rapid.T) {
				dbs := dbsWith(lvR)
				if !active || len(dbs) == 0 || len(creds) > 8 {
					return
				}
				db := dbs[rapid.IntRange(0, len(dbs)-1).Draw(rt, "db")]
				cr, err := x.openSession(user, pw, db)
				e.dirty()
				if err != nil {
					rt.Fatalf("harness: OpenSession of an active user with %s on %s failed: %v", perms[db], db, err)
				}
				nextID++
				creds = append(creds, &hcred{id: nextID, kind: "session", value: cr.value, sel: db, pwEpoch: pwEpoch})
				step("session#%d@%s", nextID, db)
			},
			"useDatabase": func(rt *rapid.T) {
				cr := pickCred(rt, func(c *hcred) bool { return c.kind == "session" })
				if cr == nil {
					return
				}
				db := forcedDB
				if db == "" {
					db = histDBs[rapid.IntRange(0, 1).Draw(rt, "db")]
				}
				if cr.txID != "" && db != cr.txDB {
					// known finding: a transaction keeps its database while the session's selection moves on
					if excluded(kTxSwite) {
						vk.CountExcluded(kTxSwite)
						c.Label("switch-with-open-tx-avoided")
						return
					}
				}
				before := e.fp()
				_, err := x.ic.UseDatabase(cr.cred().ctx(), &schema.Database{DatabaseName: db})
				step("use#%d->%s:%v", cr.id, db, err == nil)
				if err == nil && cr.txID != "" && db != cr.txDB {
					c.Label("switched-database-with-open-tx")
				}
				if err == nil {
					if !mayRead(cr, db) {
						c.Failf(rt, map[string]any{"trace": trace}, "UseDatabase(%s) accepted although the user holds %s on it (active=%v, ended=%v)", db, perms[db], active, cr.ended)
					}
					cr.sel = db
					switches++
				}
				check(cr, "UseDatabase", before, result{}, "")
			},
			"newTx": func(rt *rapid.T) {
				cr := pickCred(rt, func(c *hcred) bool { return c.kind == "session" && c.txID == "" })
				if cr == nil {
					return
				}
				before := e.fp()
				r, err := x.ic.NewTx(cr.cred().ctx(), &schema.NewTxRequest{Mode: schema.TxMode_ReadWrite})
				step("newtx#%d@%s:%v", cr.id, cr.sel, err == nil)
				if err == nil {
					cr.txID, cr.txDB, cr.txDirty = r.TransactionID, cr.sel, false
					txOps++
				}
				check(cr, "NewTx", before, result{}, "")
			},
			"txExec": func(rt *rapid.T) {
				cr := pickCred(rt, func(c *hcred) bool { return c.txID != "" })
				if cr == nil {
					return
				}
				before := e.fp()
				ctx := metadata.AppendToOutgoingContext(cr.cred().ctx(), "transactionid", cr.txID)
				_, err := x.ic.TxSQLExec(ctx, &schema.SQLExecRequest{Sql: insertSQL(e)})
				step("txexec#%d(tx@%s,sel=%s):%v", cr.id, cr.txDB, cr.sel, err == nil)
				if err == nil {
					cr.txDirty = true
					if cr.sel != cr.txDB {
						c.Label("statement-accepted-in-tx-of-another-database")
					}
				} else {
					cr.txID = "" // a failed statement cancels the transaction
				}
				txOps++
				check(cr, "TxSQLExec", before, result{}, "")
			},
			"txQuery": func(rt *rapid.T) {
				cr := pickCred(rt, func(c *hcred) bool { return c.txID != "" })
				if cr == nil {
					return
				}
				before := e.fp()
				res := x.invoke(byKey["ImmuService.TxSQLQuery"], cr.cred(), []proto.Message{&schema.SQLQueryRequest{Sql: "SELECT id, s FROM " + seedTable}}, "transactionid", cr.txID)
				step("txquery#%d(tx@%s,sel=%s):%v", cr.id, cr.txDB, cr.sel, res.err == nil)
				txOps++
				check(cr, "TxSQLQuery", before, res, "")
			},
			"commit": func(rt *rapid.T) {
				cr := pickCred(rt, func(c *hcred) bool { return c.txID != "" })
				if cr == nil {
					return
				}
				before := e.fp()
				ctx := metadata.AppendToOutgoingContext(cr.cred().ctx(), "transactionid", cr.txID)
				_, err := x.ic.Commit(ctx, &emptypb.Empty{})
				step("commit#%d(tx@%s,sel=%s,dirty=%v):%v", cr.id, cr.txDB, cr.sel, cr.txDirty, err == nil)
				target := ""
				if cr.txDirty {
					target = cr.txDB
				}
				cr.txID = ""
				txOps++
				check(cr, "Commit", before, result{err: err}, target)
			},
			"write": func(rt *rapid.T) {
				cr := pickCred(rt, nil)
				if cr == nil {
					return
				}
				kind := rapid.SampledFrom([]string{"Set", "SQLExec", "InsertDocuments", "streamSet", "ExecAll", "ZAdd"}).Draw(rt, "write")
				before := e.fp()
				var res result
				switch kind {
				case "Set":
					res = x.invoke(byKey["ImmuService.Set"], cr.cred(), []proto.Message{&schema.SetRequest{KVs: []*schema.KeyValue{{Key: []byte(e.uniq("hk")), Value: []byte("v")}}}})
				case "SQLExec":
					res = x.invoke(byKey["ImmuService.SQLExec"], cr.cred(), []proto.Message{&schema.SQLExecRequest{Sql: insertSQL(e)}})
				case "InsertDocuments":
					d, _ := structpb.NewStruct(map[string]interface{}{"tag": e.uniq("hd"), "n": 9})
					res = x.invoke(byKey["DocumentService.InsertDocuments"], cr.cred(), []proto.Message{&protomodel.InsertDocumentsRequest{CollectionName: seedColl, Documents: []*structpb.Struct{d}}})
				case "streamSet":
					res = x.invoke(byKey["ImmuService.streamSet"], cr.cred(), []proto.Message{frame([]byte(e.uniq("hs"))), frame([]byte("v"))})
				case "ExecAll":
					res = x.invoke(byKey["ImmuService.ExecAll"], cr.cred(), []proto.Message{&schema.ExecAllRequest{Operations: []*schema.Op{{Operation: &schema.Op_Kv{Kv: &schema.KeyValue{Key: []byte(e.uniq("he")), Value: []byte("v")}}}}}})
				case "ZAdd":
					res = x.invoke(byKey["ImmuService.ZAdd"], cr.cred(), []proto.Message{&schema.ZAddRequest{Set: []byte(seedZSet), Score: 3, Key: []byte(seedKey)}})
				}
				step("%s#%d@%s:%v", kind, cr.id, cr.sel, res.err == nil)
				check(cr, kind, before, res, cr.sel)
			},
			"read": func(rt *rapid.T) {
				cr := pickCred(rt, nil)
				if cr == nil {
					return
				}
				kind := rapid.SampledFrom([]string{"Get", "SQLQuery", "Scan", "SearchDocuments", "streamGet", "ListUsers"}).Draw(rt, "read")
				before := e.fp()
				var res result
				switch kind {
				case "Get":
					res = x.invoke(byKey["ImmuService.Get"], cr.cred(), []proto.Message{&schema.KeyRequest{Key: []byte(seedKey)}})
				case "SQLQuery":
					res = x.invoke(byKey["ImmuService.SQLQuery"], cr.cred(), []proto.Message{&schema.SQLQueryRequest{Sql: "SELECT id, s FROM " + seedTable}})
				case "Scan":
					res = x.invoke(byKey["ImmuService.Scan"], cr.cred(), []proto.Message{&schema.ScanRequest{Prefix: []byte("seed")}})
				case "SearchDocuments":
					res = x.invoke(byKey["DocumentService.SearchDocuments"], cr.cred(), []proto.Message{&protomodel.SearchDocumentsRequest{Query: seededQuery(), Page: 1, PageSize: 5}})
				case "streamGet":
					res = x.invoke(byKey["ImmuService.streamGet"], cr.cred(), []proto.Message{&schema.KeyRequest{Key: []byte(seedKey)}})
				case "ListUsers":
					res = x.invoke(byKey["ImmuService.ListUsers"], cr.cred(), []proto.Message{&emptypb.Empty{}})
				}
				step("%s#%d@%s:%v", kind, cr.id, cr.sel, res.err == nil)
				if res.err == nil && kind != "ListUsers" && !mayRead(cr, cr.sel) {
					c.Failf(rt, map[string]any{"trace": trace}, "%s on %s was answered although the user now holds %s on it (active=%v, ended=%v)", kind, cr.sel, perms[cr.sel], active, cr.ended)
				}
				check(cr, kind, before, res, "")
			},
			"closeSession": func(rt *rapid.T) {
				cr := pickCred(rt, func(c *hcred) bool { return c.kind == "session" && !c.ended })
				if cr == nil {
					return
				}
				_, err := x.ic.CloseSession(cr.cred().ctx(), &emptypb.Empty{})
				e.dirty()
				cr.ended, cr.txID = true, ""
				step("close#%d:%v", cr.id, err == nil)
			},
			"logout": func(rt *rapid.T) {
				cr := pickCred(rt, func(c *hcred) bool { return c.kind == "token" && !c.ended })
				if cr == nil {
					return
				}
				_, err := x.ic.Logout(cr.cred().ctx(), &emptypb.Empty{})
				e.dirty()
				step("logout#%d:%v", cr.id, err == nil)
				if err == nil {
					logins--
					if logins <= 0 {
						// the last token login of the user is gone: every token is ended.
						// (Tokens of one user share a signing key; with other logins still
						// open nothing is claimed about the logged-out one.)
						logins = 0
						for _, o := range creds {
							if o.kind == "token" {
								o.ended = true
							}
						}
					}
				}
			},
			// a transaction the way clients run it: begin, statements, commit — possibly
			// selecting another database on the way
			"txFlow": func(rt *rapid.T) {
				cr := pickCred(rt, func(c *hcred) bool { return c.kind == "session" && c.txID == "" && !c.ended && c.pwEpoch == pwEpoch })
				if cr == nil {
					return
				}
				forced = cr
				defer func() { forced, forcedDB = nil, "" }()
				other := func() string {
					if cr.sel == dbA {
						return dbB
					}
					return dbA
				}
				shape := rapid.SampledFrom([]string{"ec", "uec", "euc", "ueuc", "uc"}).Draw(rt, "txShape")
				step("txflow[%s]", shape)
				do("newTx", rt)
				for _, st := range shape {
					if cr.txID == "" {
						return
					}
					switch st {
					case 'u':
						forcedDB = other()
						do("useDatabase", rt)
						forcedDB = ""
					case 'e':
						do("txExec", rt)
					case 'c':
						do("commit", rt)
					}
				}
			},
			// ---- administrators
			"grant": func(rt *rapid.T) {
				if !active {
					return
				}
				if multiLoginClass() {
					return
				}
				db := histDBs[rapid.IntRange(0, 1).Draw(rt, "db")]
				l := []level{lvR, lvRW, lvAdmin}[rapid.IntRange(0, 2).Draw(rt, "level")]
				if err := x.grant(user, db, permCode(l)); err != nil {
					rt.Fatalf("harness: grant: %v", err)
				}
				e.dirty()
				perms[db] = l
				adminDecrement()
				adminChanges++
				step("GRANT %s=%s", db, l)
			},
			"revoke": func(rt *rapid.T) {
				if !active {
					return
				}
				if multiLoginClass() {
					return
				}
				db := histDBs[rapid.IntRange(0, 1).Draw(rt, "db")]
				if err := x.revoke(user, db, permCode(lvR)); err != nil {
					rt.Fatalf("harness: revoke: %v", err)
				}
				e.dirty()
				delete(perms, db)
				adminDecrement()
				adminChanges++
				step("REVOKE %s", db)
			},
			"deactivate": func(rt *rapid.T) {
				if !active {
					return
				}
				if multiLoginClass() {
					return
				}
				if err := x.setActive(user, false); err != nil {
					rt.Fatalf("harness: deactivate: %v", err)
				}
				e.dirty()
				active = false
				adminDecrement()
				adminChanges++
				step("DEACTIVATE")
			},
			"activate": func(rt *rapid.T) {
				if active {
					return
				}
				if multiLoginClass() {
					return
				}
				if err := x.setActive(user, true); err != nil {
					rt.Fatalf("harness: activate: %v", err)
				}
				e.dirty()
				active = true
				adminDecrement()
				adminChanges++
				step("ACTIVATE")
			},
			"changePassword": func(rt *rapid.T) {
				if pwEpoch >= 2 {
					return
				}
				npw := fmt.Sprintf("Ch4nged!Pw%d", pwEpoch+1)
				if err := x.changePassword(user, npw); err != nil {
					rt.Fatalf("harness: change password: %v", err)
				}
				e.dirty()
				pw = npw
				pwEpoch++
				adminDecrement()
				adminChanges++
				step("PASSWORD#%d", pwEpoch)
			},
		}
		do = func(name string, rt *rapid.T) { actions[name](rt) }
		type wop struct {
			name string
			w    int
			ok   func() bool
		}
		// bias towards finishing what a transaction started (a transaction is the only
		// multi-request unit of work of the API): select another database while it is
		// open, run a statement, commit
		txBoost := func(name string) int {
			for _, cr := range creds {
				if cr.txID == "" {
					continue
				}
				switch {
				case name == "useDatabase" && cr.sel == cr.txDB && !cr.txDirty:
					return 8
				case name == "txExec" && !cr.txDirty:
					return 6
				case name == "commit" && cr.txDirty:
					return 10
				}
			}
			return 0
		}
		has := func(pred func(*hcred) bool) bool {
			for _, cr := range creds {
				if pred(cr) {
					return true
				}
			}
			return false
		}
		canAuth := func() bool { return active && len(dbsWith(lvR)) > 0 && len(creds) <= 8 }
		ops := []wop{
			// (with the multi-login finding excluded, a third concurrent login adds nothing:
			// administrative changes are left out while two are open)
			{"login", 3, func() bool { return canAuth() && !(excluded(kMultiLg) && logins >= 2) }},
			{"openSession", 3, canAuth},
			{"useDatabase", 3, func() bool { return has(func(c *hcred) bool { return c.kind == "session" }) }},
			{"newTx", 3, func() bool { return has(func(c *hcred) bool { return c.kind == "session" && c.txID == "" }) }},
			{"txExec", 4, func() bool { return has(func(c *hcred) bool { return c.txID != "" }) }},
			{"txQuery", 1, func() bool { return has(func(c *hcred) bool { return c.txID != "" }) }},
			{"commit", 3, func() bool { return has(func(c *hcred) bool { return c.txID != "" }) }},
			{"txFlow", 4, func() bool {
				return active && has(func(c *hcred) bool { return c.kind == "session" && c.txID == "" && !c.ended && c.pwEpoch == pwEpoch })
			}},
			{"write", 6, func() bool { return len(creds) > 0 }},
			{"read", 3, func() bool { return len(creds) > 0 }},
			{"closeSession", 1, func() bool { return has(func(c *hcred) bool { return c.kind == "session" && !c.ended }) }},
			{"logout", 1, func() bool { return has(func(c *hcred) bool { return c.kind == "token" && !c.ended }) }},
			{"logout", 3, func() bool { return logins >= 2 && has(func(c *hcred) bool { return c.kind == "token" && !c.ended }) }},
			{"grant", 2, func() bool { return active }},
			{"revoke", 1, func() bool { return active }},
			{"deactivate", 1, func() bool { return active }},
			{"activate", 3, func() bool { return !active }},
			{"changePassword", 1, func() bool { return pwEpoch < 2 }},
		}
		nSteps := rapid.IntRange(4, 40).Draw(rt, "steps")
		for i := 0; i < nSteps; i++ {
			var names []string
			for _, o := range ops {
				if o.ok() {
					for k := 0; k < o.w+txBoost(o.name); k++ {
						names = append(names, o.name)
					}
				}
			}
			name := names[rapid.IntRange(0, len(names)-1).Draw(rt, "op")]
			actions[name](rt)
		}

		// leave nothing behind that costs: close what is still open
		for _, cr := range creds {
			if cr.kind == "session" && !cr.ended {
				x.ic.CloseSession(cr.cred().ctx(), &emptypb.Empty{})
			}
		}
		e.dirty()
		if adminChanges > 0 {
			c.Label("admin-change")
		}
		if staleUse > 0 {
			c.Label("write-with-ended-or-stale-credential")
		}
		if deniedWrites > 0 {
			c.Label("denied-write")
		}
		if okWrites > 0 {
			c.Label("accepted-write")
		}
		if txOps > 0 {
			c.Label("sql-transaction")
		}
		if switches > 0 {
			c.Label("database-switch")
		}
		if deniedWrites > 0 && okWrites > 0 {
			c.Label("both-denied-and-accepted-write")
		}
		// non-trivial: the history contains a write attempt the model refuses, and the
		// same user also got a write accepted (the user is not simply locked out)
		if deniedWrites > 0 && (okWrites > 0 || adminChanges > 0) {
			c.NonTrivial()
		}
	})
}
