package c18

import (
	"fmt"
	"sync"
	"testing"
	"time"

	"github.com/codenotary/immudb/pkg/api/schema"
	"github.com/codenotary/immudb/pkg/server/sessions"
	"google.golang.org/protobuf/types/known/emptypb"

	"verif/internal/vk"
)

// The expiry fixtures: two more servers (each on one shard only).
//
//	"idle": sessions time out after 1.5 s without activity (no age limit), guard
//	        every 10 ms; tokens are issued already expired (TokenExpiryTimeMin=-1).
//	"age" : sessions are dropped 10 s after creation however active they are.
//
// The limits are small but not tiny: the harness' own administrative sessions
// live on the same servers (refreshed every 10 ms / re-opened well before the
// age limit) and must survive a badly overloaded machine.
//
// "Expired" is never assumed from a sleep: the harness polls the server's own
// session manager until the server has dropped the session.
const (
	expTimeout = 1500 * time.Millisecond
	expMaxAge  = 10 * time.Second
	// if the server still knows a session that long after it should have gone,
	// expiry does not work at all (9x the age limit, 60x the inactivity timeout)
	expGiveUp = 90 * time.Second
)

var (
	expMu   sync.Mutex
	expEnvs = map[string]*env{}
)

func theExpiryEnv(t testing.TB, kind string) *env {
	expMu.Lock()
	defer expMu.Unlock()
	if e := expEnvs[kind]; e != nil {
		return e
	}
	so := sessions.DefaultOptions().
		WithSessionGuardCheckInterval(10 * time.Millisecond).
		WithMaxSessions(100000)
	cfg := srvConfig{sess: so, tokenExpMin: 1440}
	switch kind {
	case "idle":
		so.WithMaxSessionInactivityTime(expTimeout / 2).WithTimeout(expTimeout).WithMaxSessionAgeTime(0)
		cfg.tokenExpMin = -1
	case "age":
		so.WithMaxSessionInactivityTime(0).WithTimeout(0).WithMaxSessionAgeTime(expMaxAge)
	}
	e, err := newEnvWith(cfg, false)
	if err != nil {
		t.Fatalf("INFRA: expiry fixture (%s): %v", kind, err)
	}
	expEnvs[kind] = e
	return e
}

// waitDropped polls until the server itself no longer knows the session.
func waitDropped(e *env, id string, keepAlive []*cred) (time.Duration, bool) {
	t0 := time.Now()
	for e.x.s.SessManager.SessionPresent(id) {
		if time.Since(t0) > expGiveUp {
			return time.Since(t0), false
		}
		for _, c := range keepAlive {
			e.x.ic.KeepAlive(c.ctx(), &emptypb.Empty{})
		}
		time.Sleep(5 * time.Millisecond)
	}
	return time.Since(t0), true
}

// TestExpired: every RPC with credentials the server has expired.
func TestExpired(t *testing.T) {
	ran := false
	for i, kind := range []string{"idle", "age"} {
		if vk.Shards() > 1 && vk.Shard() != (i+1)%vk.Shards() {
			continue
		}
		ran = true
		runExpired(t, kind)
	}
	if !ran {
		t.Skip("runs on two shards only")
	}
}

func runExpired(t *testing.T, kind string) {
	us, err := universe()
	if err != nil {
		t.Fatal(err)
	}
	sp := specs()
	e := theExpiryEnv(t, kind)
	x := e.x

	type pending struct {
		name, user string
		c          *cred
		cv         *conversation // a long-lived stream opened (and served) while the session was valid
	}
	var longLived *rpc
	for _, m := range us {
		if m.key() == "ImmuService.streamExportTx" {
			longLived = m
		}
	}
	conv := conversations()["ImmuService.streamExportTx"]
	var ps []pending
	for _, user := range []string{sysUser, "uadm"} {
		pass := userPw
		if user == sysUser {
			pass = sysPass
		}
		c, err := x.openSession(user, pass, dbA)
		if err != nil {
			t.Fatalf("INFRA: open session: %v", err)
		}
		p := pending{name: fmt.Sprintf("%s/session@%s[expired-%s]", user, dbA, kind), user: user, c: c}
		if longLived != nil {
			cv, err := x.openConversation(longLived, c)
			if err != nil {
				t.Fatalf("INFRA: open stream: %v", err)
			}
			if res := cv.exchange(&schema.ExportTxRequest{Tx: 1}, conv.complete); len(res.msgs) == 0 {
				t.Fatalf("INFRA: %s is not served on a fresh stream with a valid session: %v", longLived.key(), res.err)
			}
			p.cv = cv
		}
		ps = append(ps, p)
	}
	for _, p := range ps {
		var active []*cred
		if kind == "age" {
			// every session stays active (KeepAlive every 5 ms) until the server drops it for its age
			for _, q := range ps {
				active = append(active, q.c)
			}
		}
		waited, ok := waitDropped(e, p.c.value, active)
		if !ok {
			en := vk.NewEnum("TestExpired")
			en.Descf("%s never expired", p.name)
			en.Failf(t, map[string]any{"principal": p.name, "waited": waited.String(), "fixture": kind, "inactivity_timeout": expTimeout.String(), "max_age": expMaxAge.String()},
				"session %s is still known to the server after %v (fixture %q: inactivity timeout %v / max age %v, guard every 10ms): sessions do not expire", p.name, waited, kind, expTimeout, expMaxAge)
			return
		}
		t.Logf("%s dropped by the server after %v", p.name, waited)
		if p.cv != nil {
			// the stream that was opened and served before the expiry: the next request on it must be refused
			res := p.cv.exchange(&schema.ExportTxRequest{Tx: 1}, conv.complete)
			p.cv.close()
			en := vk.NewEnum("TestExpired")
			en.Descf("%s same-stream request after expiry %s", longLived.key(), p.name)
			en.Label("same-stream-request-after-expiry")
			if len(res.msgs) > 0 || res.err == nil {
				en.Failf(t, map[string]any{"principal": p.name, "messages": len(res.msgs), "error": fmt.Sprint(res.err)},
					"%s: a request on a stream opened before the session expired was served (%d message(s), err=%v) after the server had dropped session %s", longLived.key(), len(res.msgs), res.err, p.name)
				return
			}
			en.NonTrivial()
			en.Done()
		}
		e.addPrincipal(&principal{name: p.name, user: p.user, auth: "session", sel: dbA, state: "expired-" + kind, c: p.c, live: false, sys: p.user == sysUser})
	}
	if kind == "idle" {
		// a token that is expired when issued
		r, err := x.ic.Login(nocred(), &schema.LoginRequest{User: []byte(sysUser), Password: []byte(sysPass)})
		if err != nil {
			t.Fatalf("INFRA: login: %v", err)
		}
		e.addPrincipal(&principal{name: "immudb/token[expired]", user: sysUser, auth: "token", state: "expired-token", c: &cred{kind: "token", value: r.Token}, live: false, sys: true})
	}
	e.dirty()

	cells := 0
	for _, m := range us {
		vs := sp[m.key()]
		for vi := range vs {
			v := &vs[vi]
			if v.few {
				continue // authenticates by payload, not by the credential
			}
			for _, p := range e.principals {
				o := e.runCell(m, v, p, fixedChoice{})
				if o.skipped != "" {
					continue
				}
				en := vk.NewEnum("TestExpired")
				en.Descf("%s/%s %s", o.Method, o.Variant, o.Principal)
				if o.Violation != "" {
					en.Failf(t, o, "%s/%s as %s: %s", o.Method, o.Variant, o.Principal, o.Violation)
					return
				}
				en.Label(classLabel(v))
				en.Label("state-" + p.state)
				en.Label("auth-" + p.auth)
				if !o.Allowed {
					en.Label("denied")
					// the permitted twin is run on the main fixture (same content, same request builders)
					if theEnv(t).hasEffectiveTwin(m, vs, v, true) {
						en.Label("denied-with-effective-twin")
						en.NonTrivial()
					}
				}
				en.Done()
				cells++
			}
		}
	}
	t.Logf("%s: cells=%d", kind, cells)
	vk.SetExhaustive(fmt.Sprintf("every RPC x every variant x %d credentials expired by %s", len(e.principals), kind))
}
