package c18

import (
	"fmt"
	"sync"
	"testing"
	"time"

	"github.com/codenotary/immudb/pkg/api/schema"
	"github.com/codenotary/immudb/pkg/server/sessions"
	"google.golang.org/protobuf/types/known/emptypb"

	"verif/internal/vk"
)

// The expiry fixture: a second server whose sessions time out after 120 ms of
// inactivity or 4 s of age (guard every 10 ms) and whose tokens are issued
// already expired (TokenExpiryTimeMin = -1). "Expired" is never assumed from a
// sleep: the harness polls the server's own session manager until the server
// has dropped the session.
const (
	expTimeout = 120 * time.Millisecond
	expMaxAge  = 4 * time.Second
	// if the server still knows a session that long after it went idle, expiry does
	// not work at all (several hundred times the configured limits)
	expGiveUp = 60 * time.Second
)

var (
	expOnce sync.Once
	expEnv  *env
	expErr  error
)

func theExpiryEnv(t testing.TB) *env {
	expOnce.Do(func() {
		so := sessions.DefaultOptions().
			WithSessionGuardCheckInterval(10 * time.Millisecond).
			WithMaxSessionInactivityTime(60 * time.Millisecond).
			WithTimeout(expTimeout).
			WithMaxSessionAgeTime(expMaxAge).
			WithMaxSessions(100000)
		expEnv, expErr = newEnvWith(srvConfig{sess: so, tokenExpMin: -1}, false)
	})
	if expErr != nil {
		t.Fatalf("INFRA: expiry fixture: %v", expErr)
	}
	return expEnv
}

// waitDropped polls until the server itself no longer knows the session.
func waitDropped(e *env, id string, keepAlive *cred) (time.Duration, bool) {
	t0 := time.Now()
	for e.x.s.SessManager.SessionPresent(id) {
		if time.Since(t0) > expGiveUp {
			return time.Since(t0), false
		}
		if keepAlive != nil {
			e.x.ic.KeepAlive(keepAlive.ctx(), &emptypb.Empty{})
		}
		time.Sleep(5 * time.Millisecond)
	}
	return time.Since(t0), true
}

// TestExpired: every RPC with credentials the server has expired.
func TestExpired(t *testing.T) {
	if vk.Shard() != 1%vk.Shards() {
		t.Skip("runs on one shard")
	}
	us, err := universe()
	if err != nil {
		t.Fatal(err)
	}
	sp := specs()
	e := theExpiryEnv(t)
	x := e.x

	type mk struct {
		name, user, pass, state string
		keepAlive               bool
	}
	for _, m := range []mk{
		{"immudb/session@dba[expired-idle]", sysUser, sysPass, "expired", false},
		{"immudb/session@dba[expired-age]", sysUser, sysPass, "expired", true},
		{"uadm/session@dba[expired-idle]", "uadm", userPw, "expired", false},
	} {
		c, err := x.openSession(m.user, m.pass, dbA)
		if err != nil {
			t.Fatalf("INFRA: open session: %v", err)
		}
		var ka *cred
		if m.keepAlive {
			ka = c
		}
		waited, ok := waitDropped(e, c.value, ka)
		if !ok {
			en := vk.NewEnum("TestExpired")
			en.Descf("%s never expired", m.name)
			en.Failf(t, map[string]any{"principal": m.name, "waited": waited.String(), "timeout": expTimeout.String(), "max_age": expMaxAge.String()},
				"session %s is still known to the server %v after its last permitted activity (inactivity timeout %v, max age %v, guard every 10ms): sessions do not expire", m.name, waited, expTimeout, expMaxAge)
			return
		}
		t.Logf("%s dropped by the server after %v", m.name, waited)
		e.addPrincipal(&principal{name: m.name, user: m.user, auth: "session", sel: dbA, state: m.state, c: c, live: false, sys: m.user == sysUser})
	}
	// a token that is expired when issued
	{
		r, err := x.ic.Login(nocred(), &schema.LoginRequest{User: []byte(sysUser), Password: []byte(sysPass)})
		if err != nil {
			t.Fatalf("INFRA: login: %v", err)
		}
		e.addPrincipal(&principal{name: "immudb/token[expired]", user: sysUser, auth: "token", state: "expired", c: &cred{kind: "token", value: r.Token}, live: false, sys: true})
	}
	e.dirty()

	cells := 0
	for _, m := range us {
		vs := sp[m.key()]
		for vi := range vs {
			v := &vs[vi]
			if v.few {
				continue // authenticates by payload, not by the credential
			}
			for _, p := range e.principals {
				o := e.runCell(m, v, p, fixedChoice{})
				if o.skipped != "" {
					continue
				}
				en := vk.NewEnum("TestExpired")
				en.Descf("%s/%s %s", o.Method, o.Variant, o.Principal)
				if o.Violation != "" {
					en.Failf(t, o, "%s/%s as %s: %s", o.Method, o.Variant, o.Principal, o.Violation)
					return
				}
				en.Label(classLabel(v))
				en.Label("state-" + p.state)
				en.Label("auth-" + p.auth)
				if !o.Allowed {
					en.Label("denied")
					// the permitted twin is run on the main fixture (same content, same request builders)
					if theEnv(t).hasEffectiveTwin(m, vs, v, true) {
						en.Label("denied-with-effective-twin")
						en.NonTrivial()
					}
				}
				en.Done()
				cells++
			}
		}
	}
	t.Logf("cells=%d", cells)
	vk.SetExhaustive(fmt.Sprintf("every RPC x every variant x %d expired credentials (idle-expired and age-expired sessions, expired token)", len(e.principals)))
}
