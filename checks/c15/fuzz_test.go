package c15

import (
	"bytes"
	"encoding/binary"
	"fmt"
	"math"
	"testing"
	"time"

	"github.com/codenotary/immudb/embedded/sql"
	"github.com/codenotary/immudb/embedded/store"
	"github.com/google/uuid"

	"verif/internal/vk"
)

// Native fuzz targets: byte-level round-trips on values that were themselves
// decoded from arbitrary bytes. Quick runs execute the seed corpus only; the
// thorough tier runs each target coverage-guided (vcheck.json).
//
// Whether a decoder survives arbitrary bytes is property C16: a panic inside a
// decoder is swallowed here (the input counts as rejected).

var fuzzTypes = []sql.SQLValueType{sql.IntegerType, sql.VarcharType, sql.BLOBType, sql.Float64Type, sql.TimestampType, sql.BooleanType, sql.UUIDType, sql.JSONType}

func quietly(f func()) (panicked bool) {
	defer func() {
		if r := recover(); r != nil {
			panicked = true
		}
	}()
	f()
	return false
}

// sameTV: exact equality of two engine values of one type.
func sameTV(a, b sql.TypedValue) error {
	if a.Type() != b.Type() || a.IsNull() != b.IsNull() {
		return fmt.Errorf("type/null differ: %s/%v vs %s/%v", a.Type(), a.IsNull(), b.Type(), b.IsNull())
	}
	if a.IsNull() {
		return nil
	}
	switch x := a.RawValue().(type) {
	case float64:
		if y, ok := b.RawValue().(float64); !ok || (math.Float64bits(x) != math.Float64bits(y) && !(x == 0 && y == 0)) {
			return fmt.Errorf("%v vs %v", x, b.RawValue())
		}
	case time.Time:
		if y, ok := b.RawValue().(time.Time); !ok || !x.Equal(y) {
			return fmt.Errorf("%v vs %v", x, b.RawValue())
		}
	case []byte:
		if y, ok := b.RawValue().([]byte); !ok || !bytes.Equal(x, y) {
			return fmt.Errorf("%x vs %x", x, b.RawValue())
		}
	default:
		if a.Type() == sql.JSONType {
			if !sameJSON(a.RawValue(), b.RawValue()) {
				return fmt.Errorf("%v vs %v", a.RawValue(), b.RawValue())
			}
			return nil
		}
		if a.RawValue() != b.RawValue() {
			return fmt.Errorf("%v vs %v", a.RawValue(), b.RawValue())
		}
	}
	return nil
}

type vseed struct {
	typeSel uint8
	b       []byte
}

func typeIndex(typ sql.SQLValueType) uint8 {
	for i, t := range fuzzTypes {
		if t == typ {
			return uint8(i)
		}
	}
	return 0
}

func valueSeeds() []vseed {
	var out []vseed
	add := func(tv sql.TypedValue, typ sql.SQLValueType) {
		if b, err := sql.EncodeValue(tv, typ, 0); err == nil {
			out = append(out, vseed{typeIndex(typ), b})
		}
	}
	for _, i := range []int64{0, -1, 1, math.MinInt64, math.MaxInt64, 256} {
		add(sql.NewInteger(i), sql.IntegerType)
		add(sql.NewInteger(i), sql.TimestampType) // same 8-byte payload shape
	}
	for _, f := range []float64{0, math.Copysign(0, -1), math.Inf(1), math.Inf(-1), math.NaN(), math.SmallestNonzeroFloat64, -1.5} {
		add(sql.NewFloat64(f), sql.Float64Type)
	}
	for _, s := range []string{"", "a", "a\x00", "\xff\xfe", "hello world"} {
		add(sql.NewVarchar(s), sql.VarcharType)
		add(sql.NewBlob([]byte(s)), sql.BLOBType)
	}
	add(sql.NewBool(true), sql.BooleanType)
	add(sql.NewBool(false), sql.BooleanType)
	add(sql.NewUUID(uuid.UUID{}), sql.UUIDType)
	add(sql.NewUUID(allFF), sql.UUIDType)
	for _, j := range []string{`{"a":[1,2.5,null,"x"],"b":{"c":true}}`, `[]`, `"s"`, `-0`, `1e308`} {
		if v, err := sql.NewJsonFromString(j); err == nil {
			add(v, sql.JSONType)
		}
	}
	out = append(out, vseed{5, []byte{0, 0, 0, 1, 2}}, vseed{1, []byte{0, 0, 0, 0}}, vseed{7, []byte{0, 0, 0, 5, '{', '"', 'a', '"', ':'}})
	return out
}

func FuzzSQLValueBytes(f *testing.F) {
	for i, s := range valueSeeds() {
		f.Add(s.typeSel, i%2 == 0, s.b)
		if i%3 == 0 {
			f.Add(s.typeSel+1, i%2 == 1, append(append([]byte{}, s.b...), 0xAA, 0xBB))
		}
	}
	f.Fuzz(func(t *testing.T, typeSel uint8, nullable bool, b []byte) {
		typ := fuzzTypes[int(typeSel)%len(fuzzTypes)]
		dec, enc := sql.DecodeValue, sql.EncodeValue
		if nullable {
			dec, enc = sql.DecodeNullableValue, sql.EncodeNullableValue
		}
		var d sql.TypedValue
		var n int
		var err error
		if quietly(func() { d, n, err = dec(b, typ) }) || err != nil {
			return
		}
		if n < 4 || n > len(b) {
			t.Fatalf("%s: decoder consumed %d of %d bytes", typ, n, len(b))
		}
		if typ == sql.JSONType && d.RawValue() == nil {
			return // JSON null literal: the SQL NULL, not encodable as a value
		}
		// (an empty payload is the empty string/blob: NULL has its own marker since the K5c fix;
		// the round-trip below is what is asserted)
		e1, err := enc(d, typ, 0)
		if err != nil {
			t.Fatalf("%s: value %v decoded from %x cannot be encoded: %v", typ, d.RawValue(), b[:n], err)
		}
		d2, n2, err := dec(e1, typ)
		if err != nil || n2 != len(e1) {
			t.Fatalf("%s: encode(decode(%x)) = %x does not decode: n=%d err=%v", typ, b[:n], e1, n2, err)
		}
		if nullable && vk.Excluded(kfK5c) && !d.IsNull() && n == 4 {
			return
		}
		if err := sameTV(d, d2); err != nil {
			t.Fatalf("%s: decode(encode(v)) != v for v decoded from %x: %v", typ, b[:n], err)
		}
		e2, err := enc(d2, typ, 0)
		if err != nil || !bytes.Equal(e1, e2) {
			t.Fatalf("%s: encoding is not stable: %x then %x (%v)", typ, e1, e2, err)
		}
		// canonical inputs re-encode to themselves (BOOLEAN accepts any byte, JSON any spelling)
		canonical := typ != sql.JSONType && !(typ == sql.BooleanType && n == 5 && b[4] > 1)
		if canonical && !bytes.Equal(e1, b[:n]) {
			t.Fatalf("%s: encode(decode(%x)) = %x", typ, b[:n], e1)
		}
	})
}

func fuzzKeySpec(typeSel uint8, lenSel uint8) (colSpec, bool) {
	typ := fuzzTypes[int(typeSel)%len(fuzzTypes)]
	switch typ {
	case sql.JSONType:
		return colSpec{}, false
	case sql.IntegerType, sql.Float64Type, sql.TimestampType:
		return colSpec{typ, 8}, true
	case sql.BooleanType:
		return colSpec{typ, 1}, true
	case sql.UUIDType:
		return colSpec{typ, 16}, true
	}
	return colSpec{typ, 1 + int(lenSel)%40}, true
}

func FuzzSQLKeyBytes(f *testing.F) {
	add := func(tv sql.TypedValue, typ sql.SQLValueType, typeSel int, maxLen int, lenSel uint8) {
		if b, _, err := sql.EncodeValueAsKey(tv, typ, maxLen); err == nil {
			f.Add(uint8(typeSel), lenSel, b)
			f.Add(uint8(typeSel), lenSel, append(append([]byte{}, b...), 0x80, 0x01))
		}
	}
	for _, i := range []int64{0, -1, 1, math.MinInt64, math.MaxInt64} {
		add(sql.NewInteger(i), sql.IntegerType, 0, 8, 0)
	}
	for _, fl := range []float64{0, math.Copysign(0, -1), math.Inf(1), math.Inf(-1), math.NaN(), -2.5, 1e-310} {
		add(sql.NewFloat64(fl), sql.Float64Type, 3, 8, 0)
	}
	for _, s := range []string{"", "a", "a\x00", "abc", "\xff\xff\xff"} {
		add(sql.NewVarchar(s), sql.VarcharType, 1, 3, 2)
		add(sql.NewBlob([]byte(s)), sql.BLOBType, 2, 3, 2)
	}
	add(sql.NewBool(true), sql.BooleanType, 5, 1, 0)
	add(sql.NewUUID(allFF), sql.UUIDType, 6, 16, 0)
	for _, us := range []int64{0, -1, 1700000000123456, -usWindow, usWindow} {
		if tv, err := tsValue(us); err == nil {
			add(tv, sql.TimestampType, 4, 8, 0)
		}
	}
	f.Add(uint8(0), uint8(0), []byte{0x20})
	f.Add(uint8(1), uint8(2), []byte{0x80, 'a', 'b', 'c', 0, 0, 0, 2})
	f.Fuzz(func(t *testing.T, typeSel uint8, lenSel uint8, b []byte) {
		spec, ok := fuzzKeySpec(typeSel, lenSel)
		if !ok {
			return
		}
		var d sql.TypedValue
		var n int
		var err error
		if quietly(func() { d, n, err = sql.DecodeValueFromKey(b, spec.typ, spec.maxLen) }) || err != nil {
			return
		}
		if n < 1 || n > len(b) {
			t.Fatalf("%s: key decoder consumed %d of %d bytes", spec, n, len(b))
		}
		e1, _, err := sql.EncodeValueAsKey(d, spec.typ, spec.maxLen)
		if err != nil {
			t.Fatalf("%s: value %v decoded from key %x cannot be encoded: %v", spec, d.RawValue(), b[:n], err)
		}
		if len(e1) != n {
			t.Fatalf("%s: decoder consumed %d bytes, the encoder produces %d", spec, n, len(e1))
		}
		d2, n2, err := sql.DecodeValueFromKey(e1, spec.typ, spec.maxLen)
		if err != nil || n2 != len(e1) {
			t.Fatalf("%s: key(decode(%x)) = %x does not decode: n=%d err=%v", spec, b[:n], e1, n2, err)
		}
		if err := sameTV(d, d2); err != nil {
			t.Fatalf("%s: decode(key(v)) != v for v decoded from %x: %v", spec, b[:n], err)
		}
		// canonical keys (zero padding, booleans 0/1) re-encode to themselves
		canonical := true
		switch {
		case d.IsNull():
		case spec.typ == sql.Float64Type:
			canonical = d.RawValue().(float64) != 0 // the two zeros are one SQL value: either key may be the canonical one
		case spec.typ == sql.BooleanType:
			canonical = b[1] <= 1
		case spec.variable():
			l := int(binary.BigEndian.Uint32(b[1+spec.maxLen:]))
			for _, c := range b[1+l : 1+spec.maxLen] {
				canonical = canonical && c == 0
			}
		}
		if canonical && !bytes.Equal(e1, b[:n]) {
			t.Fatalf("%s: key(decode(%x)) = %x", spec, b[:n], e1)
		}
	})
}

// FuzzSQLKeyOrder: two values of one type decoded from arbitrary value bytes;
// their keys must order like the values.
func FuzzSQLKeyOrder(f *testing.F) {
	seeds := valueSeeds()
	for i := range seeds {
		for j := range seeds {
			if i != j && seeds[i].typeSel == seeds[j].typeSel && (i+j)%2 == 1 {
				f.Add(seeds[i].typeSel, uint8(7), seeds[i].b, seeds[j].b)
			}
		}
	}
	f.Fuzz(func(t *testing.T, typeSel uint8, lenSel uint8, b1, b2 []byte) {
		spec, ok := fuzzKeySpec(typeSel, lenSel)
		if !ok {
			return
		}
		var v [2]sql.TypedValue
		for i, b := range [][]byte{b1, b2} {
			var err error
			if quietly(func() { v[i], _, err = sql.DecodeNullableValue(b, spec.typ) }) || err != nil {
				return
			}
			if v[i].IsNull() {
				continue
			}
			switch x := v[i].RawValue().(type) {
			case float64:
				if x != x {
					return
				}
			case time.Time:
				if vk.Excluded(kfK7) && !inNanoWindow(sql.TimeToInt64(x)) {
					return
				}
			case string:
				if len(x) > spec.maxLen {
					return
				}
			case []byte:
				if len(x) > spec.maxLen {
					return
				}
			}
		}
		want, err := v[0].Compare(v[1])
		if err != nil {
			t.Fatalf("%s: Compare(%v, %v): %v", spec, v[0].RawValue(), v[1].RawValue(), err)
		}
		if f0, ok := v[0].RawValue().(float64); ok && want == 0 && vk.Excluded(kfK6) {
			if f1, ok := v[1].RawValue().(float64); ok && math.Signbit(f0) != math.Signbit(f1) {
				return // K6: {-0.0, +0.0}
			}
		}
		k0, _, err0 := sql.EncodeValueAsKey(v[0], spec.typ, spec.maxLen)
		k1, _, err1 := sql.EncodeValueAsKey(v[1], spec.typ, spec.maxLen)
		if err0 != nil || err1 != nil {
			t.Fatalf("%s: keys of %v / %v: %v / %v", spec, v[0].RawValue(), v[1].RawValue(), err0, err1)
		}
		if got := bytes.Compare(k0, k1); got != sign(want) {
			t.Fatalf("%s: Compare(%v, %v) = %d but the keys %x / %x compare %d", spec, v[0].RawValue(), v[1].RawValue(), want, k0, k1, got)
		}
	})
}

func headerSeeds() [][]byte {
	var out [][]byte
	md := store.NewTxMetadata()
	md.WithTruncatedTxID(7)
	md.WithExtra([]byte("user"))
	for _, h := range []*store.TxHeader{
		{ID: 1, Ts: 1, Version: 0, NEntries: 1},
		{ID: 2, Ts: -5, BlTxID: 1, Version: 1, NEntries: 70000},
		{ID: math.MaxUint64, Ts: math.MaxInt64, BlTxID: 9, Version: 1, NEntries: 3, Metadata: md},
	} {
		if b, err := h.Bytes(); err == nil {
			out = append(out, b)
		}
	}
	return out
}

func FuzzTxHeaderBytes(f *testing.F) {
	for _, s := range headerSeeds() {
		f.Add(s)
		f.Add(append(append([]byte{}, s...), 1, 2, 3))
	}
	f.Fuzz(func(t *testing.T, b []byte) {
		h := &store.TxHeader{}
		var err error
		if quietly(func() { err = h.ReadFrom(b) }) || err != nil {
			return
		}
		if h.Metadata != nil && len(h.Metadata.Extra()) > 256 {
			return // not a value the system serialises (WithExtra refuses it); accepting it is a decoder matter (C16)
		}
		e1, err := h.Bytes()
		if err != nil {
			t.Fatalf("header decoded from %x cannot be serialised: %v", b, err)
		}
		h2 := &store.TxHeader{}
		if err := h2.ReadFrom(e1); err != nil {
			t.Fatalf("Bytes(ReadFrom(%x)) = %x does not decode: %v", b, e1, err)
		}
		if err := sameHeader(h, h2); err != nil {
			t.Fatalf("ReadFrom(Bytes(h)) != h for h decoded from %x: %v", b, err)
		}
		if e2, err := h2.Bytes(); err != nil || !bytes.Equal(e1, e2) {
			t.Fatalf("header serialisation is not stable: %x then %x (%v)", e1, e2, err)
		}
		// canonical inputs (metadata attributes in code order, once each) re-serialise to themselves.
		// An input shorter than its own serialisation is a truncated v1 header that ReadFrom let
		// through (its minimum-length test ignores the metadata): a decoder matter (C16), not a codec one.
		if len(e1) <= len(b) {
			canonical := true
			if h.Version == 1 {
				mdLen := int(binary.BigEndian.Uint16(b[50:]))
				var mb []byte
				if h.Metadata != nil {
					mb = h.Metadata.Bytes()
				}
				canonical = bytes.Equal(mb, b[52:52+mdLen])
			}
			if canonical && !bytes.Equal(e1, b[:len(e1)]) {
				t.Fatalf("Bytes(ReadFrom(%x)) = %x", b, e1)
			}
		}
	})
}

func FuzzTxMetadataBytes(f *testing.F) {
	f.Add([]byte{})
	f.Add([]byte{0, 0, 0, 0, 0, 0, 0, 0, 9})
	f.Add([]byte{1, 0, 3, 'a', 'b', 'c'})
	f.Add([]byte{0, 0, 0, 0, 0, 0, 0, 0, 9, 1, 0, 1, 'x'})
	f.Add([]byte{1, 0, 1, 'x', 0, 1, 2, 3, 4, 5, 6, 7, 8})
	f.Add([]byte{1, 0, 0})
	f.Fuzz(func(t *testing.T, b []byte) {
		md := store.NewTxMetadata()
		var err error
		if quietly(func() { err = md.ReadFrom(b) }) || err != nil {
			return
		}
		if len(md.Extra()) > 256 {
			return // see FuzzTxHeaderBytes
		}
		e1 := md.Bytes()
		md2 := store.NewTxMetadata()
		if err := md2.ReadFrom(e1); err != nil {
			t.Fatalf("Bytes(ReadFrom(%x)) = %x does not decode: %v", b, e1, err)
		}
		if !bytes.Equal(md2.Bytes(), e1) || md.HasTruncatedTxID() != md2.HasTruncatedTxID() || !bytes.Equal(md.Extra(), md2.Extra()) {
			t.Fatalf("ReadFrom(Bytes(md)) != md for md decoded from %x", b)
		}
		if md.HasTruncatedTxID() {
			x, _ := md.GetTruncatedTxID()
			y, _ := md2.GetTruncatedTxID()
			if x != y {
				t.Fatalf("truncated tx id %d becomes %d", x, y)
			}
		}
		if len(e1) > len(b) {
			t.Fatalf("Bytes(ReadFrom(%x)) = %x is longer than the input", b, e1)
		}
	})
}
