// C15 — codecs round-trip, and key encodings preserve SQL order.
package c15

import (
	"bytes"
	"encoding/binary"
	"fmt"
	"math"
	"os"
	"testing"
	"time"

	"github.com/codenotary/immudb/embedded/sql"
	"github.com/google/uuid"
	"pgregory.net/rapid"

	"verif/internal/vk"
)

const (
	kfK6  = "K6-float-negzero-key"
	kfK7  = "K7-timestamp-key-unixnano-overflow"
	kfK5c = "K5c-nullable-codec-empty-is-null"
)

func TestMain(m *testing.M) {
	vk.Main(m, vk.Config{
		Property: "C15",
		Rule: "rapid-generated values of every SQL type with boundary bias (and JSON documents), pairs (a, neighbour-of-a) of one type, composite tuples of 1-8 columns with a shared prefix, " +
			"TxHeader/TxMetadata/KVMetadata field combinations, small two-store histories (commit, ExportTx, harness parse + re-serialise, ReplicateTx on a twin, proto conversions over the protobuf wire), " +
			"SQL tables with composite primary keys and secondary indexes read back through every index, and document collections. " +
			"Oracles: decode(encode(x)) = x with consumed length = encoded length, re-encoding is byte-identical, sign(bytes.Compare(key(a),key(b))) = sign(SQL Compare(a,b)) cross-checked against a harness comparator, NULL first, " +
			"lexicographic composite order, replica Alh = primary Alh. " +
			"Non-trivial: a single value at a type boundary (min/max, -0, Inf, subnormal, empty, NUL/0xFF bytes, maximal length, pre-1970 or sub-second timestamp), a pair that straddles a boundary " +
			"(sign change, length change, prefix/padding vs content, NULL vs value, adjacent values), a tuple pair whose first difference is after column 0 or that holds NULL/var-length columns, " +
			"a header with metadata or an extreme field, a tx with entry metadata / empty values / tx metadata; distinct by hash of the case descriptor.",
		Assumptions: []string{
			"SQL order is defined by the engine's TypedValue.Compare; it is cross-checked against an independent comparator (integers, IEEE < on non-NaN floats, bytes.Compare for VARCHAR/BLOB/UUID, false<true, instants) and any disagreement fails the check",
			"NaN is left out of order checks (Compare(NaN,x) = -1 in both directions, the property quantifier lists -0 and infinities only); NaN is kept in the round-trip checks (bitwise)",
			"TIMESTAMP values are generated at microsecond precision in UTC (every engine constructor truncates to microseconds); nanosecond components are never generated",
			"JSON values are generated as produced by parsing JSON text (float64 numbers, valid UTF-8 strings); int64 numbers inside JSON (CAST of an INTEGER) come back as float64 and are not generated; a top-level JSON null is the SQL NULL and is not generated as a value",
			"FLOAT equality after a round trip is bitwise, except that -0.0 and 0.0 (one SQL value, Compare = 0) may come back as either zero",
			"VARCHAR values sent through the protobuf conversions are valid UTF-8 (proto3 string fields refuse anything else at Marshal time); the embedded codecs are exercised with arbitrary bytes",
			"rows are written with UPSERT and parameters; UUID columns take CAST(@p AS UUID) (there is no UUID parameter type)",
			"TxHeader: v0 NEntries <= 65535 and empty metadata, v1 NEntries <= 2^32-1 for the byte codec and <= 2^31-1 for the proto conversion (int32 field); ID >= 1, BlTxID < ID, NEntries >= 1 as ReadFrom requires",
			"TxMetadata truncated-tx-id 0 is generated for the byte codec only: the proto conversion represents 'absent' as 0 and the truncator never writes 0",
			"KVMetadata expiration is generated at whole seconds (the API takes int64 seconds)",
			"KVMetadata has no exported byte decoder: its byte codec is exercised through commit/ReadTx, ExportTx/ReplicateTx and index reads on real stores",
			"document/type_conversions.go is unexported: it is exercised through document.Engine (insert, read back, equality query through the typed SQL columns); INTEGER fields are generated with integral values in +-2^53, the conversion of other numbers truncates by design",
			"exported transactions are generated without truncated values (value-log truncation belongs to C14)",
			"on-disk format compatibility with other immudb versions is not part of the property; the harness parser of the export framing follows the layout documented in the code comments",
		},
		Probes: []vk.Probe{
			{ID: kfK6, Present: probeK6},
			{ID: kfK7, Present: probeK7},
			{ID: kfK5c, Present: probeK5c},
		},
	})
}

func removeAll(d string) { os.RemoveAll(d) }

// ---------------------------------------------------------------------------
// pinned probes

// probeK6: -0.0 and 0.0 are equal for SQL but have different index keys.
func probeK6() (bool, string) {
	nz := math.Copysign(0, -1)
	a, _, err1 := sql.EncodeValueAsKey(sql.NewFloat64(nz), sql.Float64Type, 8)
	b, _, err2 := sql.EncodeValueAsKey(sql.NewFloat64(0), sql.Float64Type, 8)
	if err1 != nil || err2 != nil {
		return false, ""
	}
	c, err := sql.NewFloat64(nz).Compare(sql.NewFloat64(0))
	if err == nil && c == 0 && !bytes.Equal(a, b) {
		return true, fmt.Sprintf("Compare(-0.0, 0.0)=0 but key(-0.0)=%x key(0.0)=%x", a, b)
	}
	return false, ""
}

// usWindow: the microsecond instants whose UnixNano() does not overflow.
const usWindow = int64(math.MaxInt64 / 1000)

func inNanoWindow(us int64) bool { return us >= -usWindow && us <= usWindow }

// probeK7: TIMESTAMP keys hold UnixNano, which overflows outside 1677..2262.
func probeK7() (bool, string) {
	t1 := time.Date(2200, 1, 1, 0, 0, 0, 0, time.UTC)
	t2 := time.Date(2300, 1, 1, 0, 0, 0, 0, time.UTC)
	k1, _, err1 := sql.EncodeRawValueAsKey(t1, sql.TimestampType, 8)
	k2, _, err2 := sql.EncodeRawValueAsKey(t2, sql.TimestampType, 8)
	if err1 != nil || err2 != nil {
		return false, ""
	}
	if bytes.Compare(k1, k2) >= 0 {
		return true, fmt.Sprintf("key(2200-01-01)=%x >= key(2300-01-01)=%x", k1, k2)
	}
	d, _, err := sql.DecodeValueFromKey(k2, sql.TimestampType, 8)
	if err == nil && !d.RawValue().(time.Time).Equal(t2) {
		return true, fmt.Sprintf("DecodeValueFromKey(key(2300-01-01)) = %v", d.RawValue())
	}
	return false, ""
}

// probeK5c: the nullable value codec cannot tell '' (or an empty BLOB) from NULL.
func probeK5c() (bool, string) {
	enc, err := sql.EncodeNullableValue(sql.NewVarchar(""), sql.VarcharType, 10)
	if err != nil {
		return false, ""
	}
	d, _, err := sql.DecodeNullableValue(enc, sql.VarcharType)
	if err == nil && d.IsNull() {
		return true, "DecodeNullableValue(EncodeNullableValue('')) = NULL"
	}
	return false, ""
}

// ---------------------------------------------------------------------------
// harness-side values

type colSpec struct {
	typ    sql.SQLValueType
	maxLen int // declared length (VARCHAR/BLOB); the fixed width otherwise
}

func (c colSpec) String() string { return fmt.Sprintf("%s[%d]", c.typ, c.maxLen) }

func (c colSpec) variable() bool { return c.typ == sql.VarcharType || c.typ == sql.BLOBType }

// keyLen is the width of a non-NULL key of this column.
func (c colSpec) keyLen() int {
	if c.variable() {
		return 1 + c.maxLen + 4
	}
	return 1 + c.maxLen
}

// val is the harness' own representation of a SQL value.
type val struct {
	typ  sql.SQLValueType
	null bool
	i    int64 // INTEGER; TIMESTAMP as microseconds since the epoch
	f    float64
	s    []byte // VARCHAR / BLOB
	b    bool
	u    uuid.UUID
}

func (v val) String() string {
	if v.null {
		return "NULL"
	}
	switch v.typ {
	case sql.IntegerType:
		return fmt.Sprintf("%d", v.i)
	case sql.TimestampType:
		return fmt.Sprintf("ts%d", v.i)
	case sql.Float64Type:
		return fmt.Sprintf("f%016x", math.Float64bits(v.f))
	case sql.VarcharType:
		return fmt.Sprintf("s%d:%x", len(v.s), clip(v.s))
	case sql.BLOBType:
		return fmt.Sprintf("b%d:%x", len(v.s), clip(v.s))
	case sql.BooleanType:
		return fmt.Sprintf("%v", v.b)
	case sql.UUIDType:
		return fmt.Sprintf("u%x", v.u[:])
	}
	return "?"
}

func clip(b []byte) []byte {
	if len(b) > 24 {
		return append(append([]byte{}, b[:12]...), b[len(b)-12:]...)
	}
	return b
}

func refTime(us int64) time.Time {
	sec := us / 1e6
	rem := us % 1e6
	if rem < 0 {
		rem += 1e6
		sec--
	}
	return time.Unix(sec, rem*1000).UTC()
}

// tsValue builds a *sql.Timestamp (there is no exported constructor): the value
// bytes are built by hand and decoded; the result is checked against refTime.
func tsValue(us int64) (sql.TypedValue, error) {
	var b [12]byte
	binary.BigEndian.PutUint32(b[:], 8)
	binary.BigEndian.PutUint64(b[4:], uint64(us))
	tv, n, err := sql.DecodeValue(b[:], sql.TimestampType)
	if err != nil || n != 12 {
		return nil, fmt.Errorf("DecodeValue(timestamp %d us) = n=%d err=%v", us, n, err)
	}
	got, ok := tv.RawValue().(time.Time)
	if !ok || !got.Equal(refTime(us)) || got.Location() != time.UTC {
		return nil, fmt.Errorf("DecodeValue(timestamp %d us) = %v, want %v", us, tv.RawValue(), refTime(us))
	}
	return tv, nil
}

// tv converts to the engine's value.
func (v val) tv() (sql.TypedValue, error) {
	if v.null {
		return sql.NewNull(v.typ), nil
	}
	switch v.typ {
	case sql.IntegerType:
		return sql.NewInteger(v.i), nil
	case sql.TimestampType:
		return tsValue(v.i)
	case sql.Float64Type:
		return sql.NewFloat64(v.f), nil
	case sql.VarcharType:
		return sql.NewVarchar(string(v.s)), nil
	case sql.BLOBType:
		return sql.NewBlob(append([]byte{}, v.s...)), nil
	case sql.BooleanType:
		return sql.NewBool(v.b), nil
	case sql.UUIDType:
		return sql.NewUUID(v.u), nil
	}
	return nil, fmt.Errorf("unknown type %s", v.typ)
}

// raw is the Go value a caller passes to the Raw encoders / as a parameter.
func (v val) raw() interface{} {
	if v.null {
		return nil
	}
	switch v.typ {
	case sql.IntegerType:
		return v.i
	case sql.TimestampType:
		return refTime(v.i)
	case sql.Float64Type:
		return v.f
	case sql.VarcharType:
		return string(v.s)
	case sql.BLOBType:
		return append([]byte{}, v.s...)
	case sql.BooleanType:
		return v.b
	case sql.UUIDType:
		return v.u
	}
	return nil
}

// same reports whether the engine value d is exactly the harness value v.
func (v val) same(d sql.TypedValue) error {
	if d == nil {
		return fmt.Errorf("nil value")
	}
	if d.Type() != v.typ {
		return fmt.Errorf("type %s, want %s", d.Type(), v.typ)
	}
	if d.IsNull() != v.null {
		return fmt.Errorf("IsNull=%v, want %v", d.IsNull(), v.null)
	}
	if v.null {
		if d.RawValue() != nil {
			return fmt.Errorf("NULL with raw value %v", d.RawValue())
		}
		return nil
	}
	r := d.RawValue()
	switch v.typ {
	case sql.IntegerType:
		if x, ok := r.(int64); !ok || x != v.i {
			return fmt.Errorf("got %v, want %d", r, v.i)
		}
	case sql.TimestampType:
		x, ok := r.(time.Time)
		if !ok || !x.Equal(refTime(v.i)) || x.Nanosecond()%1000 != 0 {
			return fmt.Errorf("got %v, want %v (%d us)", r, refTime(v.i), v.i)
		}
		if _, off := x.Zone(); off != 0 {
			return fmt.Errorf("got %v: not UTC", r)
		}
	case sql.Float64Type:
		// bitwise, except that the two zeros are one SQL value (Compare = 0): either may come back
		if x, ok := r.(float64); !ok || (math.Float64bits(x) != math.Float64bits(v.f) && !(x == 0 && v.f == 0)) {
			return fmt.Errorf("got %v (%016x), want %v (%016x)", r, math.Float64bits(x), v.f, math.Float64bits(v.f))
		}
	case sql.VarcharType:
		if x, ok := r.(string); !ok || x != string(v.s) {
			return fmt.Errorf("got %q, want %q", r, v.s)
		}
	case sql.BLOBType:
		if x, ok := r.([]byte); !ok || !bytes.Equal(x, v.s) {
			return fmt.Errorf("got %x, want %x", r, v.s)
		}
	case sql.BooleanType:
		if x, ok := r.(bool); !ok || x != v.b {
			return fmt.Errorf("got %v, want %v", r, v.b)
		}
	case sql.UUIDType:
		if x, ok := r.(uuid.UUID); !ok || x != v.u {
			return fmt.Errorf("got %v, want %v", r, v.u)
		}
	}
	return nil
}

func sign(x int) int {
	switch {
	case x < 0:
		return -1
	case x > 0:
		return 1
	}
	return 0
}

// refCmp is the harness' definition of SQL order (NULL first). NaN never gets here.
func refCmp(a, b val) int {
	if a.null || b.null {
		switch {
		case a.null && b.null:
			return 0
		case a.null:
			return -1
		}
		return 1
	}
	switch a.typ {
	case sql.IntegerType, sql.TimestampType:
		switch {
		case a.i < b.i:
			return -1
		case a.i > b.i:
			return 1
		}
		return 0
	case sql.Float64Type:
		switch {
		case a.f < b.f:
			return -1
		case a.f > b.f:
			return 1
		}
		return 0
	case sql.VarcharType, sql.BLOBType:
		return bytes.Compare(a.s, b.s)
	case sql.BooleanType:
		switch {
		case a.b == b.b:
			return 0
		case b.b:
			return -1
		}
		return 1
	case sql.UUIDType:
		return bytes.Compare(a.u[:], b.u[:])
	}
	panic("refCmp: type")
}

// boundary names the boundary class of a single value ("" = ordinary).
func (v val) boundary(c colSpec) string {
	if v.null {
		return "null"
	}
	switch v.typ {
	case sql.IntegerType:
		switch {
		case v.i == math.MinInt64 || v.i == math.MaxInt64:
			return "int-minmax"
		case v.i == 0 || v.i == -1:
			return "int-zero-or-minus-one"
		case v.i < 0:
			return "int-negative"
		}
	case sql.TimestampType:
		switch {
		case !inNanoWindow(v.i):
			return "ts-outside-nano-window"
		case v.i < 0 && v.i%1e6 != 0:
			return "ts-pre1970-subsecond"
		case v.i < 0:
			return "ts-pre1970"
		case v.i%1e6 != 0:
			return "ts-subsecond"
		}
	case sql.Float64Type:
		bits := math.Float64bits(v.f)
		switch {
		case v.f != v.f:
			return "float-nan"
		case bits == 1<<63:
			return "float-negzero"
		case math.IsInf(v.f, 0):
			return "float-inf"
		case v.f != 0 && math.Abs(v.f) < 2.2250738585072014e-308:
			return "float-subnormal"
		case math.Abs(v.f) == math.MaxFloat64:
			return "float-max"
		case v.f < 0:
			return "float-negative"
		case v.f == 0:
			return "float-zero"
		}
	case sql.VarcharType, sql.BLOBType:
		switch {
		case len(v.s) == 0:
			return "empty"
		case len(v.s) == c.maxLen:
			return "maximal-length"
		case bytes.IndexByte(v.s, 0) >= 0:
			return "has-nul"
		case bytes.IndexByte(v.s, 0xFF) >= 0:
			return "has-0xff"
		}
	case sql.UUIDType:
		if v.u == (uuid.UUID{}) || v.u == allFF {
			return "uuid-extreme"
		}
	case sql.BooleanType:
		return "bool"
	}
	return ""
}

var allFF = func() (u uuid.UUID) {
	for i := range u {
		u[i] = 0xFF
	}
	return
}()

// ---------------------------------------------------------------------------
// generators

var keyTypes = []sql.SQLValueType{sql.IntegerType, sql.VarcharType, sql.BLOBType, sql.Float64Type, sql.TimestampType, sql.BooleanType, sql.UUIDType}

func genSpec(rt *rapid.T, maxVar int) colSpec {
	t := rapid.SampledFrom(keyTypes).Draw(rt, "type")
	return specFor(rt, t, maxVar)
}

func specFor(rt *rapid.T, t sql.SQLValueType, maxVar int) colSpec {
	switch t {
	case sql.IntegerType, sql.Float64Type, sql.TimestampType:
		return colSpec{t, 8}
	case sql.BooleanType:
		return colSpec{t, 1}
	case sql.UUIDType:
		return colSpec{t, 16}
	}
	cands := []int{1, 2, 3, 4, 5, 8, 16, 31, 64, 255, 256, 1000, 1024}
	var ok []int
	for _, c := range cands {
		if c <= maxVar {
			ok = append(ok, c)
		}
	}
	return colSpec{t, rapid.SampledFrom(ok).Draw(rt, "maxLen")}
}

var intEdges = []int64{math.MinInt64, math.MinInt64 + 1, -1 << 32, -1<<31 - 1, -1 << 31, -65536, -256, -255, -129, -128, -2, -1, 0, 1, 2, 127, 128, 255, 256, 65535, 1 << 31, 1<<32 - 1, 1 << 32, 1 << 53, math.MaxInt64 - 1, math.MaxInt64}

func genInt(rt *rapid.T) int64 {
	switch rapid.IntRange(0, 3).Draw(rt, "intKind") {
	case 0:
		return rapid.SampledFrom(intEdges).Draw(rt, "intEdge")
	case 1:
		return int64(rapid.IntRange(-300, 300).Draw(rt, "intSmall"))
	case 2:
		// one byte of the big-endian form set, everything else zero / all ones
		sh := uint(rapid.IntRange(0, 7).Draw(rt, "intByte")) * 8
		x := int64(rapid.IntRange(0, 255).Draw(rt, "intByteVal")) << sh
		if rapid.Bool().Draw(rt, "intNeg") {
			x = ^x
		}
		return x
	}
	return rapid.Int64().Draw(rt, "int")
}

var floatEdges = []float64{0, math.Copysign(0, -1), math.Inf(1), math.Inf(-1), math.MaxFloat64, -math.MaxFloat64,
	math.SmallestNonzeroFloat64, -math.SmallestNonzeroFloat64, 2.2250738585072014e-308, -2.2250738585072014e-308,
	math.Float64frombits(0x000FFFFFFFFFFFFF), -math.Float64frombits(0x000FFFFFFFFFFFFF), 1, -1, 0.5, -0.5, 1 << 53, -(1 << 53), 1e-300, -1e-300, 255, 256, -255, -256}

func genFloat(rt *rapid.T, nan bool) float64 {
	switch rapid.IntRange(0, 3).Draw(rt, "floatKind") {
	case 0:
		return rapid.SampledFrom(floatEdges).Draw(rt, "floatEdge")
	case 1:
		return float64(rapid.IntRange(-20, 20).Draw(rt, "floatSmall")) / 4
	case 2:
		f := math.Float64frombits(rapid.Uint64().Draw(rt, "floatBits"))
		if f != f {
			if nan {
				return f
			}
			return 1.5
		}
		return f
	}
	if nan && pct(rt, "nan", 6) {
		return math.NaN()
	}
	return rapid.Float64().Draw(rt, "float")
}

var tsEdges = []int64{0, 1, -1, 999999, 1000000, 1000001, -999999, -1000000, -1000001, 1700000000123456, -62135596800000000, // year 1
	253402300799999999, // 9999-12-31
	usWindow, usWindow - 1, usWindow + 1, -usWindow, -usWindow + 1, -usWindow - 1, math.MaxInt64, math.MinInt64, math.MaxInt64 - 1, math.MinInt64 + 1,
	7258118400000000,  // 2200-01-01
	10413792000000000, // 2300-01-01
}

// genTS: microseconds since the epoch. window restricts to instants whose UnixNano does not overflow.
func genTS(rt *rapid.T, window bool) int64 {
	var us int64
	switch rapid.IntRange(0, 4).Draw(rt, "tsKind") {
	case 0:
		us = rapid.SampledFrom(tsEdges).Draw(rt, "tsEdge")
	case 1:
		us = int64(rapid.IntRange(-3000000, 3000000).Draw(rt, "tsNearEpoch"))
	case 2:
		us = rapid.Int64Range(-usWindow, usWindow).Draw(rt, "tsWindow")
	case 3:
		us = rapid.Int64Range(0, 4102444800000000).Draw(rt, "tsModern") // 1970..2100
	default:
		us = rapid.Int64().Draw(rt, "tsAny")
	}
	if window && !inNanoWindow(us) {
		vk.CountExcluded(kfK7)
		us %= usWindow
	}
	return us
}

var fillBytes = []byte{0x00, 0x00, 0x01, 0x20, 'a', 'b', 0x7F, 0x80, 0xFE, 0xFF, 0xFF}

func genBytes(rt *rapid.T, maxLen int) []byte {
	var n int
	switch rapid.IntRange(0, 4).Draw(rt, "lenKind") {
	case 0:
		n = 0
	case 1:
		n = maxLen
	case 2:
		n = maxLen - 1
	case 3:
		n = rapid.IntRange(0, min(maxLen, 4)).Draw(rt, "lenSmall")
	default:
		n = rapid.IntRange(0, maxLen).Draw(rt, "len")
	}
	if n < 0 {
		n = 0
	}
	b := make([]byte, n)
	switch rapid.IntRange(0, 3).Draw(rt, "fillKind") {
	case 0: // one repeated byte
		c := rapid.SampledFrom(fillBytes).Draw(rt, "fill")
		for i := range b {
			b[i] = c
		}
	case 1: // drawn from the hostile alphabet
		if n <= 64 {
			for i := range b {
				b[i] = rapid.SampledFrom(fillBytes).Draw(rt, "c")
			}
		} else {
			seed := rapid.IntRange(0, 1<<20).Draw(rt, "fillSeed")
			for i := range b {
				b[i] = fillBytes[(seed+i*7+i*i)%len(fillBytes)]
			}
		}
	case 2: // text followed by NUL padding (padding vs content)
		k := 0
		if n > 0 {
			k = rapid.IntRange(0, n).Draw(rt, "textLen")
		}
		for i := 0; i < k; i++ {
			b[i] = 'a' + byte(i%3)
		}
	default:
		if n <= 64 {
			copy(b, rapid.SliceOfN(rapid.Byte(), n, n).Draw(rt, "bytes"))
		} else {
			seed := rapid.Uint64().Draw(rt, "bytesSeed")
			for i := range b {
				seed = seed*6364136223846793005 + 1442695040888963407
				b[i] = byte(seed >> 56)
			}
		}
	}
	return b
}

func genUUID(rt *rapid.T) uuid.UUID {
	var u uuid.UUID
	switch rapid.SampledFrom([]int{3, 3, 3, 2, 2, 1, 0}).Draw(rt, "uuidKind") {
	case 0:
	case 1:
		u = allFF
	case 2:
		u[rapid.IntRange(0, 15).Draw(rt, "uuidByte")] = byte(rapid.IntRange(0, 255).Draw(rt, "uuidVal"))
	default:
		copy(u[:], rapid.SliceOfN(rapid.Byte(), 16, 16).Draw(rt, "uuid"))
	}
	return u
}

var hundred = func() (h []int) {
	for i := 99; i >= 0; i-- {
		h = append(h, i)
	}
	return
}()

// pct is true in about p percent of the draws (rapid's integer generators are
// biased towards small values, SampledFrom towards the first element: the
// "true" outcomes sit at the far end).
func pct(rt *rapid.T, label string, p int) bool {
	return rapid.SampledFrom(hundred).Draw(rt, label) < p
}

type genOpt struct {
	nan      bool // allow NaN
	tsWindow bool // TIMESTAMP restricted to the nano-representable window (K7 excluded)
	nullPct  int  // percentage of NULLs
}

func genVal(rt *rapid.T, c colSpec, o genOpt) val {
	v := val{typ: c.typ}
	if o.nullPct > 0 && pct(rt, "nullDie", o.nullPct) {
		v.null = true
		return v
	}
	switch c.typ {
	case sql.IntegerType:
		v.i = genInt(rt)
	case sql.TimestampType:
		v.i = genTS(rt, o.tsWindow)
	case sql.Float64Type:
		v.f = genFloat(rt, o.nan)
	case sql.VarcharType, sql.BLOBType:
		v.s = genBytes(rt, c.maxLen)
	case sql.BooleanType:
		v.b = rapid.Bool().Draw(rt, "bool")
	case sql.UUIDType:
		v.u = genUUID(rt)
	}
	return v
}

// neighbour derives a value close to a (same column): the pairs that decide
// whether an order-preserving encoding is right.
func neighbour(rt *rapid.T, a val, c colSpec, o genOpt) (val, string) {
	kind := rapid.SampledFrom([]string{"adjacent", "adjacent", "adjacent", "mutate", "mutate", "fresh", "fresh", "negate", "null", "equal"}).Draw(rt, "nbKind")
	b := a
	b.s = append([]byte{}, a.s...)
	if a.null {
		if kind != "equal" {
			return genVal(rt, c, genOpt{nan: o.nan, tsWindow: o.tsWindow}), "fresh"
		}
		return b, kind
	}
	switch kind {
	case "equal":
		return b, kind
	case "fresh":
		return genVal(rt, c, genOpt{nan: o.nan, tsWindow: o.tsWindow}), kind
	case "null":
		return val{typ: a.typ, null: true}, kind
	}
	up := rapid.Bool().Draw(rt, "up")
	switch a.typ {
	case sql.IntegerType, sql.TimestampType:
		switch kind {
		case "adjacent":
			d := rapid.SampledFrom([]int64{1, 1, 2, 255, 256, 1000, 1000000}).Draw(rt, "delta")
			if up && a.i <= math.MaxInt64-d {
				b.i = a.i + d
			} else if a.i >= math.MinInt64+d {
				b.i = a.i - d
			}
		case "negate":
			if a.i != math.MinInt64 {
				b.i = -a.i
			} else {
				b.i = math.MaxInt64
			}
		case "mutate":
			b.i = a.i ^ (1 << uint(rapid.IntRange(0, 63).Draw(rt, "bit")))
		}
		if a.typ == sql.TimestampType && o.tsWindow && !inNanoWindow(b.i) {
			vk.CountExcluded(kfK7)
			b.i = a.i
		}
	case sql.Float64Type:
		switch kind {
		case "adjacent":
			if up {
				b.f = math.Nextafter(a.f, math.Inf(1))
			} else {
				b.f = math.Nextafter(a.f, math.Inf(-1))
			}
		case "negate":
			b.f = -a.f
		case "mutate":
			b.f = math.Float64frombits(math.Float64bits(a.f) ^ (1 << uint(rapid.IntRange(0, 63).Draw(rt, "bit"))))
		}
		if b.f != b.f && !o.nan {
			b.f = a.f
		}
	case sql.VarcharType, sql.BLOBType:
		op := rapid.SampledFrom([]string{"app00", "appFF", "app01", "drop", "inc", "dec", "prefix", "padnul", "flip"}).Draw(rt, "bytesOp")
		if kind == "negate" {
			op = "padnul"
		}
		switch op {
		case "app00":
			b.s = append(b.s, 0)
		case "appFF":
			b.s = append(b.s, 0xFF)
		case "app01":
			b.s = append(b.s, 1)
		case "drop":
			if len(b.s) > 0 {
				b.s = b.s[:len(b.s)-1]
			}
		case "inc":
			if len(b.s) > 0 {
				b.s[len(b.s)-1]++
			}
		case "dec":
			if len(b.s) > 0 {
				b.s[len(b.s)-1]--
			}
		case "prefix":
			if len(b.s) > 0 {
				b.s = b.s[:rapid.IntRange(0, len(b.s)-1).Draw(rt, "prefixLen")]
			}
		case "padnul":
			for len(b.s) < c.maxLen && len(b.s) < len(a.s)+1+rapid.IntRange(0, 3).Draw(rt, "padN") {
				b.s = append(b.s, 0)
			}
		case "flip":
			if len(b.s) > 0 {
				b.s[rapid.IntRange(0, len(b.s)-1).Draw(rt, "flipAt")] ^= byte(1 << uint(rapid.IntRange(0, 7).Draw(rt, "flipBit")))
			}
		}
		if len(b.s) > c.maxLen {
			b.s = b.s[:c.maxLen]
		}
		kind = kind + "-" + op
	case sql.BooleanType:
		b.b = !a.b
	case sql.UUIDType:
		k := rapid.IntRange(0, 15).Draw(rt, "uuidAt")
		if up {
			b.u[k]++
		} else {
			b.u[k]--
		}
	}
	return b, kind
}

// straddle names the boundary a pair straddles ("" = none).
func straddle(a, b val) string {
	switch {
	case a.null && b.null:
		return ""
	case a.null != b.null:
		return "null-vs-value"
	}
	switch a.typ {
	case sql.IntegerType, sql.TimestampType:
		switch {
		case (a.i < 0) != (b.i < 0):
			return "sign-change"
		case a.i != b.i && (a.i-b.i == 1 || b.i-a.i == 1):
			return "adjacent"
		case a.i != b.i && (a.i < b.i) != (a.i&0xFF < b.i&0xFF):
			return "low-byte-disagrees"
		}
	case sql.Float64Type:
		ab, bb := math.Float64bits(a.f), math.Float64bits(b.f)
		switch {
		case ab>>63 != bb>>63:
			return "sign-change"
		case a.f < 0 && b.f < 0 && a.f != b.f:
			return "both-negative"
		case ab != bb && (ab-bb == 1 || bb-ab == 1):
			return "adjacent"
		case (ab>>52)&0x7FF != (bb>>52)&0x7FF:
			return "exponent-change"
		}
	case sql.VarcharType, sql.BLOBType:
		switch {
		case len(a.s) != len(b.s) && (bytes.HasPrefix(a.s, b.s) || bytes.HasPrefix(b.s, a.s)):
			return "prefix-length-change"
		case len(a.s) != len(b.s):
			return "length-change"
		case !bytes.Equal(a.s, b.s):
			return "same-length-content"
		}
	case sql.BooleanType:
		if a.b != b.b {
			return "bool-flip"
		}
	case sql.UUIDType:
		if a.u != b.u {
			return "uuid-differs"
		}
	}
	return ""
}

// ---------------------------------------------------------------------------
// value codec

func TestSQLValueCodec(t *testing.T) {
	vk.Check(t, 800000, 6400000, func(rt *rapid.T, c *vk.Case) {
		spec := genSpec(rt, 1024)
		if spec.variable() && pct(rt, "unlimited", 15) {
			spec.maxLen = 0 // no declared length: values of any length
		}
		gl := spec
		if gl.maxLen == 0 {
			gl.maxLen = rapid.SampledFrom([]int{70000, 5000, 300, 7, 1}).Draw(rt, "genLen")
		}
		v := genVal(rt, gl, genOpt{nan: true, nullPct: 8})
		c.Descf("%s %s", spec, v)
		tv, err := v.tv()
		if err != nil {
			c.Failf(rt, nil, "%v", err)
		}
		if bd := v.boundary(gl); bd != "" {
			c.Label(bd)
			c.NonTrivial()
		}
		c.Label("type-" + spec.typ)

		// NOT NULL codec
		enc, err := sql.EncodeValue(tv, spec.typ, spec.maxLen)
		if v.null {
			if err == nil {
				c.Failf(rt, nil, "EncodeValue(NULL) succeeded with %x", enc)
			}
		} else {
			if err != nil {
				c.Failf(rt, nil, "EncodeValue(%s): %v", v, err)
			}
			checkDecode(rt, c, "DecodeValue", sql.DecodeValue, enc, spec, v)
			// the Raw entry point used for parameters gives the same bytes
			enc2, err := sql.EncodeRawValue(v.raw(), spec.typ, spec.maxLen, false)
			if err != nil || !bytes.Equal(enc, enc2) {
				c.Failf(rt, nil, "EncodeRawValue(%s) = %x, %v; EncodeValue = %x", v, enc2, err, enc)
			}
			if vlen, off, err := sql.DecodeValueLength(enc); err != nil || off != 4 || vlen != len(enc)-4 {
				c.Failf(rt, nil, "DecodeValueLength(%x) = %d,%d,%v", enc, vlen, off, err)
			}
		}

		// nullable codec
		nenc, err := sql.EncodeNullableValue(tv, spec.typ, spec.maxLen)
		if err != nil {
			c.Failf(rt, nil, "EncodeNullableValue(%s): %v", v, err)
		}
		if !v.null && spec.variable() && len(v.s) == 0 && vk.Excluded(kfK5c) {
			// known finding: '' / empty BLOB come back as NULL from the nullable codec
			vk.CountExcluded(kfK5c)
			c.Label("nullable-empty-skipped-K5c")
		} else {
			checkDecode(rt, c, "DecodeNullableValue", sql.DecodeNullableValue, nenc, spec, v)
		}

		// values over the declared length are refused, not truncated
		if spec.variable() && spec.maxLen > 0 && !v.null {
			long := v
			long.s = append(append([]byte{}, v.s...), bytes.Repeat([]byte{'x'}, spec.maxLen-len(v.s)+1)...)
			ltv, _ := long.tv()
			if e, err := sql.EncodeValue(ltv, spec.typ, spec.maxLen); err == nil {
				c.Failf(rt, nil, "EncodeValue of %d bytes into %s succeeded: %x", len(long.s), spec, clip(e))
			}
			c.Label("over-length-refused")
		}
	})
}

type decodeFn func([]byte, sql.SQLValueType) (sql.TypedValue, int, error)

func checkDecode(rt *rapid.T, c *vk.Case, name string, dec decodeFn, enc []byte, spec colSpec, v val) {
	d, n, err := dec(enc, spec.typ)
	if err != nil {
		c.Failf(rt, nil, "%s(%x) of %s: %v", name, clip(enc), v, err)
	}
	if n != len(enc) {
		c.Failf(rt, nil, "%s of %s consumed %d of %d bytes", name, v, n, len(enc))
	}
	if err := v.same(d); err != nil {
		c.Failf(rt, nil, "%s(encode(%s)) differs: %v", name, v, err)
	}
	// values are decoded one after the other out of a row: trailing bytes must not matter
	tail := rapid.SampledFrom([][]byte{{0}, {0xFF, 0xFF, 0xFF, 0xFF}, {0, 0, 0, 1, 'x'}}).Draw(rt, "tail")
	d2, n2, err := dec(append(append([]byte{}, enc...), tail...), spec.typ)
	if err != nil || n2 != len(enc) {
		c.Failf(rt, nil, "%s of %s followed by %x: n=%d err=%v", name, v, tail, n2, err)
	}
	if err := v.same(d2); err != nil {
		c.Failf(rt, nil, "%s(encode(%s)+tail) differs: %v", name, v, err)
	}
	// re-encoding what was decoded gives the same bytes
	var re []byte
	if name == "DecodeNullableValue" {
		re, err = sql.EncodeNullableValue(d, spec.typ, spec.maxLen)
	} else {
		re, err = sql.EncodeValue(d, spec.typ, spec.maxLen)
	}
	if err != nil || !bytes.Equal(re, enc) {
		c.Failf(rt, nil, "re-encoding %s gives %x (%v), first encoding %x", v, clip(re), err, clip(enc))
	}
}

// ---------------------------------------------------------------------------
// key codec: single values

func keyOf(v val, c colSpec) ([]byte, int, error) {
	tv, err := v.tv()
	if err != nil {
		return nil, 0, err
	}
	return sql.EncodeValueAsKey(tv, c.typ, c.maxLen)
}

func k7opt() bool { return vk.Excluded(kfK7) }

func TestSQLKeyCodec(t *testing.T) {
	vk.Check(t, 800000, 6400000, func(rt *rapid.T, c *vk.Case) {
		spec := genSpec(rt, 1024)
		v := genVal(rt, spec, genOpt{nan: true, tsWindow: k7opt(), nullPct: 8})
		c.Descf("%s %s", spec, v)
		c.Label("type-" + spec.typ)
		if bd := v.boundary(spec); bd != "" {
			c.Label(bd)
			c.NonTrivial()
		}
		key, n, err := keyOf(v, spec)
		if err != nil {
			c.Failf(rt, nil, "EncodeValueAsKey(%s, %s): %v", v, spec, err)
		}
		// widths: NULL is the bare tag, everything else is fixed-width for the column
		wantLen, wantN := spec.keyLen(), spec.maxLen
		switch {
		case v.null:
			wantLen, wantN = 1, 0
		case spec.variable():
			wantN = len(v.s)
		}
		if len(key) != wantLen || n != wantN {
			c.Failf(rt, nil, "key(%s) in %s has %d bytes, n=%d; want %d, n=%d", v, spec, len(key), n, wantLen, wantN)
		}
		rk, _, err := sql.EncodeRawValueAsKey(v.raw(), spec.typ, spec.maxLen)
		if err != nil || !bytes.Equal(rk, key) {
			c.Failf(rt, nil, "EncodeRawValueAsKey(%s) = %x, %v; EncodeValueAsKey = %x", v, clip(rk), err, clip(key))
		}
		for _, tail := range [][]byte{nil, {0x80, 1, 2, 3}} {
			d, used, err := sql.DecodeValueFromKey(append(append([]byte{}, key...), tail...), spec.typ, spec.maxLen)
			if err != nil {
				c.Failf(rt, nil, "DecodeValueFromKey(key(%s)) in %s: %v", v, spec, err)
			}
			if used != len(key) {
				c.Failf(rt, nil, "DecodeValueFromKey(key(%s)) consumed %d of %d bytes", v, used, len(key))
			}
			if err := v.same(d); err != nil {
				c.Failf(rt, nil, "DecodeValueFromKey(key(%s)) in %s differs: %v", v, spec, err)
			}
			re, _, err := sql.EncodeValueAsKey(d, spec.typ, spec.maxLen)
			if err != nil || !bytes.Equal(re, key) {
				c.Failf(rt, nil, "re-encoding the decoded key of %s gives %x (%v), want %x", v, clip(re), err, clip(key))
			}
		}
		// over-long values are refused
		if spec.variable() && !v.null {
			long := v
			long.s = append(append([]byte{}, v.s...), bytes.Repeat([]byte{0}, spec.maxLen-len(v.s)+1)...)
			if k, _, err := keyOf(long, spec); err == nil {
				c.Failf(rt, nil, "key of %d bytes in %s accepted: %x", len(long.s), spec, clip(k))
			}
		}
	})
}

// ---------------------------------------------------------------------------
// key order: pairs of one column

// engineCmp is the engine's SQL comparison.
func engineCmp(a, b val) (int, error) {
	at, err := a.tv()
	if err != nil {
		return 0, err
	}
	bt, err := b.tv()
	if err != nil {
		return 0, err
	}
	return at.Compare(bt)
}

func k6pair(a, b val) bool {
	return a.typ == sql.Float64Type && !a.null && !b.null && a.f == 0 && b.f == 0 && math.Signbit(a.f) != math.Signbit(b.f)
}

func TestSQLKeyOrder(t *testing.T) {
	vk.Check(t, 1600000, 12800000, func(rt *rapid.T, c *vk.Case) {
		spec := genSpec(rt, 1024)
		if spec.variable() && pct(rt, "short", 60) {
			spec.maxLen = rapid.SampledFrom([]int{1, 2, 3, 4, 5, 8}).Draw(rt, "shortLen")
		}
		o := genOpt{tsWindow: k7opt(), nullPct: 6}
		a := genVal(rt, spec, o)
		b, kind := neighbour(rt, a, spec, o)
		if k6pair(a, b) && vk.Excluded(kfK6) {
			// known finding K6: exactly the pair {-0.0, +0.0}
			vk.CountExcluded(kfK6)
			c.Label("negzero-pair-skipped-K6")
			b = a
			kind = "equal"
		}
		c.Descf("%s a=%s b=%s (%s)", spec, a, b, kind)
		c.Label("type-" + spec.typ)
		c.Label("nb-" + kind)
		if s := straddle(a, b); s != "" {
			c.Label("straddle-" + s)
			c.NonTrivial()
		}
		checkPair(rt, c, spec, a, b)
	})
}

func checkPair(rt *rapid.T, c *vk.Case, spec colSpec, a, b val) {
	want := refCmp(a, b)
	got, err := engineCmp(a, b)
	if err != nil {
		c.Failf(rt, nil, "Compare(%s, %s): %v", a, b, err)
	}
	if sign(got) != want {
		c.Failf(rt, nil, "engine Compare(%s, %s) = %d, harness comparator says %d", a, b, got, want)
	}
	rgot, err := engineCmp(b, a)
	if err != nil || sign(rgot) != -want {
		c.Failf(rt, nil, "engine Compare(%s, %s) = %d (%v), want %d (antisymmetry)", b, a, rgot, err, -want)
	}
	ka, _, err := keyOf(a, spec)
	if err != nil {
		c.Failf(rt, nil, "key(%s): %v", a, err)
	}
	kb, _, err := keyOf(b, spec)
	if err != nil {
		c.Failf(rt, nil, "key(%s): %v", b, err)
	}
	kc := bytes.Compare(ka, kb)
	if kc != want {
		c.Failf(rt, map[string]string{"keyA": fmt.Sprintf("%x", ka), "keyB": fmt.Sprintf("%x", kb)},
			"%s: SQL order of a=%s and b=%s is %d but bytes.Compare(key(a), key(b)) = %d", spec, a, b, want, kc)
	}
	switch {
	case want == 0:
		c.Label("equal")
	case a.null || b.null:
		c.Label("null-first")
	}
}
