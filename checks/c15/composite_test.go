package c15

import (
	"bytes"
	"fmt"
	"strings"
	"testing"

	"github.com/codenotary/immudb/embedded/sql"
	"pgregory.net/rapid"

	"verif/internal/vk"
)

// composite keys are the concatenation of the per-column keys (sql.encodedKey,
// doUpsert): they must order lexicographically by column and decode back
// column by column.

func tupleKey(specs []colSpec, t []val) ([]byte, error) {
	var k []byte
	for i, v := range t {
		p, _, err := keyOf(v, specs[i])
		if err != nil {
			return nil, fmt.Errorf("column %d: %w", i, err)
		}
		k = append(k, p...)
	}
	return k, nil
}

func tupleString(t []val) string {
	var sb strings.Builder
	sb.WriteByte('(')
	for i, v := range t {
		if i > 0 {
			sb.WriteByte(',')
		}
		sb.WriteString(v.String())
	}
	sb.WriteByte(')')
	return sb.String()
}

func refTupleCmp(a, b []val) (int, int) {
	for i := range a {
		if c := refCmp(a[i], b[i]); c != 0 {
			return c, i
		}
	}
	return 0, -1
}

func TestCompositeKeyOrder(t *testing.T) {
	vk.Check(t, 480000, 3200000, func(rt *rapid.T, c *vk.Case) {
		ncols := rapid.SampledFrom([]int{1, 2, 2, 3, 3, 4, 5, 6, 7, 8}).Draw(rt, "ncols")
		specs := make([]colSpec, ncols)
		var sd []string
		for i := range specs {
			specs[i] = genSpec(rt, 16)
			sd = append(sd, specs[i].String())
		}
		o := genOpt{tsWindow: k7opt(), nullPct: 10}
		a := make([]val, ncols)
		for i := range a {
			a[i] = genVal(rt, specs[i], o)
		}
		// b shares a prefix with a, differs (maybe) at column k through a neighbour, the rest is free
		k := rapid.SampledFrom(seq(ncols)).Draw(rt, "firstDiff")
		if pct(rt, "sameTuple", 4) {
			k = ncols
		}
		b := make([]val, ncols)
		copy(b, a)
		kinds := ""
		for i := k; i < ncols; i++ {
			if i == k {
				b[i], kinds = neighbour(rt, a[i], specs[i], o)
			} else if pct(rt, "restFresh", 70) {
				b[i] = genVal(rt, specs[i], o)
			}
			if k6pair(a[i], b[i]) && vk.Excluded(kfK6) {
				vk.CountExcluded(kfK6)
				b[i] = a[i]
			}
		}
		c.Descf("cols=%s a=%s b=%s (%s at %d)", strings.Join(sd, ","), tupleString(a), tupleString(b), kinds, k)

		want, at := refTupleCmp(a, b)
		// the engine's own tuple comparison
		ta, tb := make(sql.Tuple, ncols), make(sql.Tuple, ncols)
		for i := range a {
			var err error
			if ta[i], err = a[i].tv(); err != nil {
				c.Failf(rt, nil, "%v", err)
			}
			if tb[i], err = b[i].tv(); err != nil {
				c.Failf(rt, nil, "%v", err)
			}
		}
		got, gotAt, err := ta.Compare(tb)
		if err != nil || sign(got) != want || (want != 0 && gotAt != at) {
			c.Failf(rt, nil, "Tuple.Compare(%s, %s) = %d at %d (%v); harness comparator %d at %d", tupleString(a), tupleString(b), got, gotAt, err, want, at)
		}
		ka, err := tupleKey(specs, a)
		if err != nil {
			c.Failf(rt, nil, "key(a): %v", err)
		}
		kb, err := tupleKey(specs, b)
		if err != nil {
			c.Failf(rt, nil, "key(b): %v", err)
		}
		if kc := bytes.Compare(ka, kb); kc != want {
			c.Failf(rt, map[string]string{"keyA": fmt.Sprintf("%x", ka), "keyB": fmt.Sprintf("%x", kb)},
				"columns %s: SQL order of %s and %s is %d (first difference at column %d) but the composite keys compare %d", strings.Join(sd, ","), tupleString(a), tupleString(b), want, at, kc)
		}
		// column-by-column decoding of the composite key
		off := 0
		for i, v := range a {
			d, n, err := sql.DecodeValueFromKey(ka[off:], specs[i].typ, specs[i].maxLen)
			if err != nil {
				c.Failf(rt, nil, "decoding column %d of key(%s): %v", i, tupleString(a), err)
			}
			if err := v.same(d); err != nil {
				c.Failf(rt, nil, "column %d of key(%s) decodes differently: %v", i, tupleString(a), err)
			}
			off += n
		}
		if off != len(ka) {
			c.Failf(rt, nil, "decoding key(%s) consumed %d of %d bytes", tupleString(a), off, len(ka))
		}

		hasNull, hasVar := false, false
		for i := range a {
			hasNull = hasNull || a[i].null || b[i].null
			hasVar = hasVar || specs[i].variable()
		}
		switch {
		case want == 0:
			c.Label("equal-tuples")
		case at == 0:
			c.Label("differ-at-col-0")
		default:
			c.Label("differ-after-shared-prefix")
		}
		if hasNull {
			c.Label("has-null")
		}
		if hasVar {
			c.Label("has-var-length-col")
		}
		if want != 0 && at < ncols-1 && refCmp(a[ncols-1], b[ncols-1]) == -want {
			c.Label("later-column-disagrees")
		}
		c.Label(fmt.Sprintf("ncols-%d", ncols))
		if at > 0 || (ncols > 1 && (hasNull || hasVar)) {
			c.NonTrivial()
		}
	})
}
