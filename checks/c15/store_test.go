package c15

import (
	"bytes"
	"context"
	"crypto/sha256"
	"encoding/binary"
	"errors"
	"fmt"
	"math"
	"sort"
	"testing"
	"time"

	"github.com/codenotary/immudb/embedded/htree"
	"github.com/codenotary/immudb/embedded/logger"
	"github.com/codenotary/immudb/embedded/store"
	"github.com/codenotary/immudb/pkg/api/schema"
	"google.golang.org/protobuf/proto"
	"pgregory.net/rapid"

	"verif/internal/vk"
)

// ---------------------------------------------------------------------------
// harness models of metadata

type txmdModel struct {
	present   bool // a metadata object is attached
	truncated bool
	truncID   uint64
	extra     []byte
}

func (m txmdModel) empty() bool { return !m.present || (!m.truncated && len(m.extra) == 0) }

func (m txmdModel) build() (*store.TxMetadata, error) {
	if !m.present {
		return nil, nil
	}
	md := store.NewTxMetadata()
	if m.truncated {
		md.WithTruncatedTxID(m.truncID)
	}
	if err := md.WithExtra(m.extra); err != nil {
		return nil, err
	}
	return md, nil
}

// bytes is the layout documented in tx_metadata.go: [0][txid u64] then [1][len u16][extra].
func (m txmdModel) bytes() []byte {
	var b []byte
	if !m.present {
		return nil
	}
	if m.truncated {
		b = append(b, 0)
		b = binary.BigEndian.AppendUint64(b, m.truncID)
	}
	if len(m.extra) > 0 {
		b = append(b, 1)
		b = binary.BigEndian.AppendUint16(b, uint16(len(m.extra)))
		b = append(b, m.extra...)
	}
	return b
}

func (m txmdModel) String() string {
	if !m.present {
		return "nil"
	}
	return fmt.Sprintf("{trunc=%v:%d extra=%d:%x}", m.truncated, m.truncID, len(m.extra), clip(m.extra))
}

func (m txmdModel) check(md *store.TxMetadata) error {
	if md == nil {
		if !m.empty() {
			return fmt.Errorf("metadata is nil, want %s", m)
		}
		return nil
	}
	if md.HasTruncatedTxID() != (m.present && m.truncated) {
		return fmt.Errorf("HasTruncatedTxID=%v, want %s", md.HasTruncatedTxID(), m)
	}
	if m.present && m.truncated {
		if id, err := md.GetTruncatedTxID(); err != nil || id != m.truncID {
			return fmt.Errorf("GetTruncatedTxID=%d,%v want %s", id, err, m)
		}
	}
	var wantExtra []byte
	if m.present {
		wantExtra = m.extra
	}
	if !bytes.Equal(md.Extra(), wantExtra) {
		return fmt.Errorf("Extra=%x, want %s", md.Extra(), m)
	}
	if !bytes.Equal(md.Bytes(), m.bytes()) {
		return fmt.Errorf("Bytes=%x, want %x", md.Bytes(), m.bytes())
	}
	return nil
}

func genTxmd(rt *rapid.T, zeroTrunc bool) txmdModel {
	m := txmdModel{}
	switch rapid.SampledFrom([]string{"nil", "empty", "trunc", "extra", "extra", "both", "both"}).Draw(rt, "txmdKind") {
	case "nil":
		return m
	case "empty":
		m.present = true
	case "trunc":
		m.present, m.truncated = true, true
	case "extra":
		m.present = true
		m.extra = genExtra(rt)
	case "both":
		m.present, m.truncated = true, true
		m.extra = genExtra(rt)
	}
	if m.truncated {
		ids := []uint64{1, 2, 255, 256, 1 << 32, math.MaxUint64 - 1, math.MaxUint64}
		if zeroTrunc {
			ids = append(ids, 0)
		}
		m.truncID = rapid.SampledFrom(ids).Draw(rt, "truncID")
		if pct(rt, "truncAny", 40) {
			m.truncID = rapid.Uint64Range(1, math.MaxUint64).Draw(rt, "truncIDAny")
		}
	}
	return m
}

func genExtra(rt *rapid.T) []byte {
	n := rapid.SampledFrom([]int{1, 1, 2, 3, 8, 31, 255, 256}).Draw(rt, "extraLen")
	b := make([]byte, n)
	fill := rapid.SampledFrom([]byte{0, 1, 'u', 0xFF}).Draw(rt, "extraFill")
	for i := range b {
		b[i] = fill + byte(i)
	}
	if pct(rt, "extraFlat", 30) {
		for i := range b {
			b[i] = fill
		}
	}
	return b
}

type kvmdModel struct {
	present      bool
	deleted      bool
	expirable    bool
	expiresAt    int64 // seconds
	nonIndexable bool
}

func (m kvmdModel) String() string {
	if !m.present {
		return "nil"
	}
	s := "{"
	if m.deleted {
		s += "D"
	}
	if m.expirable {
		s += fmt.Sprintf("E%d", m.expiresAt)
	}
	if m.nonIndexable {
		s += "N"
	}
	return s + "}"
}

func (m kvmdModel) empty() bool { return !m.present || (!m.deleted && !m.expirable && !m.nonIndexable) }

func (m kvmdModel) build() *store.KVMetadata {
	if !m.present {
		return nil
	}
	md := store.NewKVMetadata()
	md.AsDeleted(m.deleted)
	if m.expirable {
		md.ExpiresAt(time.Unix(m.expiresAt, 0))
	}
	md.AsNonIndexable(m.nonIndexable)
	return md
}

// bytes is the layout documented in kv_metadata.go: [0] deleted, [1][secs u64] expiration, [2] non-indexable.
func (m kvmdModel) bytes() []byte {
	var b []byte
	if !m.present {
		return nil
	}
	if m.deleted {
		b = append(b, 0)
	}
	if m.expirable {
		b = append(b, 1)
		b = binary.BigEndian.AppendUint64(b, uint64(m.expiresAt))
	}
	if m.nonIndexable {
		b = append(b, 2)
	}
	return b
}

func (m kvmdModel) check(md *store.KVMetadata) error {
	if md == nil {
		if !m.empty() {
			return fmt.Errorf("kv metadata is nil, want %s", m)
		}
		return nil
	}
	if md.Deleted() != (m.present && m.deleted) || md.NonIndexable() != (m.present && m.nonIndexable) || md.IsExpirable() != (m.present && m.expirable) {
		return fmt.Errorf("deleted=%v nonIndexable=%v expirable=%v, want %s", md.Deleted(), md.NonIndexable(), md.IsExpirable(), m)
	}
	if m.present && m.expirable {
		if at, err := md.ExpirationTime(); err != nil || at.Unix() != m.expiresAt || at.Nanosecond() != 0 {
			return fmt.Errorf("ExpirationTime=%v (%d),%v want %s", at, at.Unix(), err, m)
		}
	}
	if !bytes.Equal(md.Bytes(), m.bytes()) {
		return fmt.Errorf("Bytes=%x, want %x", md.Bytes(), m.bytes())
	}
	return nil
}

var expEdges = []int64{0, 1, -1, 946684800, 4102444800, 1 << 31, 1<<32 - 1, 1 << 32, 253402300799, -62135596800, math.MaxInt64, math.MinInt64, math.MaxInt32}

func genKvmd(rt *rapid.T, fullRange bool) kvmdModel {
	m := kvmdModel{}
	kind := rapid.SampledFrom([]string{"nil", "nil", "empty", "D", "E", "N", "DE", "DN", "EN", "DEN"}).Draw(rt, "kvmdKind")
	if kind == "nil" {
		return m
	}
	m.present = true
	for _, ch := range kind {
		switch ch {
		case 'D':
			m.deleted = true
		case 'E':
			m.expirable = true
		case 'N':
			m.nonIndexable = true
		}
	}
	if m.expirable {
		if fullRange {
			m.expiresAt = rapid.SampledFrom(expEdges).Draw(rt, "expEdge")
			if pct(rt, "expAny", 40) {
				m.expiresAt = rapid.Int64().Draw(rt, "expAny64")
			}
		} else {
			// inside a store: far past or far future, never near "now"
			m.expiresAt = rapid.SampledFrom([]int64{1, 946684800, 32503680000, 253402300799}).Draw(rt, "expStore")
		}
	}
	return m
}

// ---------------------------------------------------------------------------
// TxMetadata / KVMetadata

func TestTxMetadataCodec(t *testing.T) {
	vk.Check(t, 200000, 1600000, func(rt *rapid.T, c *vk.Case) {
		m := genTxmd(rt, true)
		c.Descf("txmd=%s", m)
		md, err := m.build()
		if err != nil {
			c.Failf(rt, nil, "building %s: %v", m, err)
		}
		if md == nil {
			md = store.NewTxMetadata()
			m.present = true
		}
		if err := m.check(md); err != nil {
			c.Failf(rt, nil, "freshly built %s: %v", m, err)
		}
		b := md.Bytes()
		back := store.NewTxMetadata()
		if err := back.ReadFrom(b); err != nil {
			c.Failf(rt, nil, "ReadFrom(%x) of %s: %v", b, m, err)
		}
		if err := m.check(back); err != nil {
			c.Failf(rt, nil, "ReadFrom(Bytes(%s)): %v", m, err)
		}
		if !md.Equal(back) || md.IsEmpty() != back.IsEmpty() || md.HasExtraOnly() != back.HasExtraOnly() {
			c.Failf(rt, nil, "decoded metadata of %s is not Equal to the original", m)
		}
		// over-long extra is refused, not truncated
		if err := store.NewTxMetadata().WithExtra(make([]byte, 257)); err == nil {
			c.Failf(rt, nil, "WithExtra(257 bytes) accepted")
		}
		// proto conversion (over the wire); truncated id 0 means "absent" there
		if !(m.truncated && m.truncID == 0) {
			p := schema.TxMetadataToProto(md)
			p2 := &schema.TxMetadata{}
			if err := wire(p, p2); err != nil {
				c.Failf(rt, nil, "%v", err)
			}
			if err := m.check(schema.TxMetadataFromProto(p2)); err != nil {
				c.Failf(rt, nil, "TxMetadataFromProto(TxMetadataToProto(%s)): %v", m, err)
			}
			c.Label("proto")
		}
		switch {
		case m.truncated && len(m.extra) > 0:
			c.Label("truncated+extra")
		case m.truncated:
			c.Label("truncated")
		case len(m.extra) > 0:
			c.Label("extra")
		default:
			c.Label("empty")
		}
		if len(m.extra) == 256 {
			c.Label("extra-max")
		}
		if !m.empty() {
			c.NonTrivial()
		}
	})
}

func wire(src, dst proto.Message) error {
	b, err := proto.Marshal(src)
	if err != nil {
		return fmt.Errorf("proto.Marshal: %w", err)
	}
	if err := proto.Unmarshal(b, dst); err != nil {
		return fmt.Errorf("proto.Unmarshal: %w", err)
	}
	return nil
}

func TestKVMetadataCodec(t *testing.T) {
	vk.Check(t, 200000, 1600000, func(rt *rapid.T, c *vk.Case) {
		m := genKvmd(rt, true)
		c.Descf("kvmd=%s", m)
		md := m.build()
		if err := m.check(md); err != nil {
			c.Failf(rt, nil, "freshly built %s: %v", m, err)
		}
		p := schema.KVMetadataToProto(md)
		if (p == nil) != (md == nil) {
			c.Failf(rt, nil, "KVMetadataToProto(%s) nil-ness", m)
		}
		var back *store.KVMetadata
		if p != nil {
			p2 := &schema.KVMetadata{}
			if err := wire(p, p2); err != nil {
				c.Failf(rt, nil, "%v", err)
			}
			back = schema.KVMetadataFromProto(p2)
		}
		if err := m.check(back); err != nil {
			c.Failf(rt, nil, "KVMetadataFromProto(KVMetadataToProto(%s)): %v", m, err)
		}
		// the entry digest (what proofs are checked against) is the same for both
		key := []byte("k")
		hv := sha256.Sum256([]byte("v"))
		d1, err1 := store.TxEntryDigest_v1_2(store.NewTxEntry(key, md, 1, hv, 0))
		d2, err2 := store.TxEntryDigest_v1_2(store.NewTxEntry(key, back, 1, hv, 0))
		if err1 != nil || err2 != nil || d1 != d2 {
			c.Failf(rt, nil, "entry digest changes through the proto conversion of %s", m)
		}
		c.Label(fmt.Sprintf("attrs-%d", len(m.bytes())))
		if m.expirable && (m.expiresAt < 0 || m.expiresAt > 1<<32) {
			c.Label("expiry-extreme")
		}
		if !m.empty() {
			c.NonTrivial()
		}
	})
}

// ---------------------------------------------------------------------------
// TxHeader

type hdrModel struct {
	id, blTxID            uint64
	ts                    int64
	version               int
	nentries              int
	eh, blRoot, prevAlh   [32]byte
	md                    txmdModel
	idKind, neKind, tsTag string
}

func genDigest(rt *rapid.T, label string) (d [32]byte) {
	switch rapid.IntRange(0, 3).Draw(rt, label) {
	case 0:
	case 1:
		for i := range d {
			d[i] = 0xFF
		}
	default:
		seed := rapid.Uint64().Draw(rt, label+"Seed")
		binary.BigEndian.PutUint64(d[:], seed)
		d = sha256.Sum256(d[:8])
	}
	return
}

func genHeader(rt *rapid.T, forProto bool) hdrModel {
	h := hdrModel{}
	h.id = rapid.SampledFrom([]uint64{1, 2, 3, 255, 256, 1 << 32, math.MaxUint64 - 1, math.MaxUint64}).Draw(rt, "id")
	if pct(rt, "idAny", 40) {
		h.id = rapid.Uint64Range(1, math.MaxUint64).Draw(rt, "idAny64")
	}
	switch rapid.IntRange(0, 2).Draw(rt, "blKind") {
	case 0:
		h.blTxID = 0
	case 1:
		h.blTxID = h.id - 1
	default:
		h.blTxID = rapid.Uint64Range(0, h.id-1).Draw(rt, "blTxID")
	}
	h.ts = rapid.SampledFrom([]int64{0, 1, -1, 1700000000, math.MaxInt64, math.MinInt64, 1 << 32}).Draw(rt, "ts")
	if pct(rt, "tsAny", 40) {
		h.ts = rapid.Int64().Draw(rt, "tsAny64")
	}
	h.version = rapid.SampledFrom([]int{0, 1, 1, 1}).Draw(rt, "version")
	if h.version == 0 {
		h.nentries = rapid.SampledFrom([]int{1, 2, 255, 256, 257, 1024, 65534, 65535}).Draw(rt, "ne0")
		if pct(rt, "ne0Any", 40) {
			h.nentries = rapid.IntRange(1, 65535).Draw(rt, "ne0AnyV")
		}
		// v0 carries no metadata: nil or an empty object
		h.md.present = rapid.Bool().Draw(rt, "emptyMd")
	} else {
		maxNE := math.MaxUint32
		if forProto {
			maxNE = math.MaxInt32
		}
		h.nentries = rapid.SampledFrom([]int{1, 2, 255, 256, 65535, 65536, 65537, 1 << 24, math.MaxInt32 - 1, math.MaxInt32, maxNE - 1, maxNE}).Draw(rt, "ne1")
		if pct(rt, "ne1Any", 40) {
			h.nentries = rapid.IntRange(1, maxNE).Draw(rt, "ne1AnyV")
		}
		h.md = genTxmd(rt, !forProto)
	}
	h.eh = genDigest(rt, "eh")
	h.blRoot = genDigest(rt, "blRoot")
	h.prevAlh = genDigest(rt, "prevAlh")
	return h
}

func (h hdrModel) build() (*store.TxHeader, error) {
	md, err := h.md.build()
	if err != nil {
		return nil, err
	}
	return &store.TxHeader{ID: h.id, Ts: h.ts, BlTxID: h.blTxID, BlRoot: h.blRoot, PrevAlh: h.prevAlh, Version: h.version, Metadata: md, NEntries: h.nentries, Eh: h.eh}, nil
}

// bytes follows the layout comment of TxHeader.Bytes:
// ID + PrevAlh + Ts + Version + (v0: NEntries u16 | v1: MDLen + MD + NEntries u32) + Eh + BlTxID + BlRoot
func (h hdrModel) bytes() []byte {
	var b []byte
	b = binary.BigEndian.AppendUint64(b, h.id)
	b = append(b, h.prevAlh[:]...)
	b = binary.BigEndian.AppendUint64(b, uint64(h.ts))
	b = binary.BigEndian.AppendUint16(b, uint16(h.version))
	if h.version == 0 {
		b = binary.BigEndian.AppendUint16(b, uint16(h.nentries))
	} else {
		md := h.md.bytes()
		b = binary.BigEndian.AppendUint16(b, uint16(len(md)))
		b = append(b, md...)
		b = binary.BigEndian.AppendUint32(b, uint32(h.nentries))
	}
	b = append(b, h.eh[:]...)
	b = binary.BigEndian.AppendUint64(b, h.blTxID)
	b = append(b, h.blRoot[:]...)
	return b
}

func (h hdrModel) String() string {
	return fmt.Sprintf("hdr{id=%d bl=%d ts=%d v=%d ne=%d md=%s eh=%x blRoot=%x prev=%x}", h.id, h.blTxID, h.ts, h.version, h.nentries, h.md, h.eh[:2], h.blRoot[:2], h.prevAlh[:2])
}

func (h hdrModel) check(g *store.TxHeader) error {
	if g == nil {
		return errors.New("nil header")
	}
	if g.ID != h.id || g.Ts != h.ts || g.BlTxID != h.blTxID || g.Version != h.version || g.NEntries != h.nentries {
		return fmt.Errorf("scalar fields differ: got id=%d ts=%d bl=%d v=%d ne=%d, want %s", g.ID, g.Ts, g.BlTxID, g.Version, g.NEntries, h)
	}
	if g.Eh != h.eh || g.BlRoot != h.blRoot || g.PrevAlh != h.prevAlh {
		return fmt.Errorf("digest fields differ: got eh=%x blRoot=%x prev=%x, want %s", g.Eh[:2], g.BlRoot[:2], g.PrevAlh[:2], h)
	}
	return h.md.check(g.Metadata)
}

func TestTxHeaderCodec(t *testing.T) {
	vk.Check(t, 400000, 3200000, func(rt *rapid.T, c *vk.Case) {
		forProto := rapid.Bool().Draw(rt, "forProto")
		h := genHeader(rt, forProto)
		c.Descf("%s proto=%v", h, forProto)
		hdr, err := h.build()
		if err != nil {
			c.Failf(rt, nil, "%v", err)
		}
		alh := hdr.Alh()
		b, err := hdr.Bytes()
		if err != nil {
			c.Failf(rt, nil, "Bytes(%s): %v", h, err)
		}
		if want := h.bytes(); !bytes.Equal(b, want) {
			c.Failf(rt, map[string]string{"got": fmt.Sprintf("%x", b), "want": fmt.Sprintf("%x", want)}, "Bytes(%s) differs from the documented layout", h)
		}
		back := &store.TxHeader{}
		if err := back.ReadFrom(b); err != nil {
			c.Failf(rt, nil, "ReadFrom(Bytes(%s)): %v", h, err)
		}
		if err := h.check(back); err != nil {
			c.Failf(rt, nil, "ReadFrom(Bytes(%s)): %v", h, err)
		}
		if back.Alh() != alh {
			c.Failf(rt, nil, "Alh changes through Bytes/ReadFrom of %s", h)
		}
		if b2, err := back.Bytes(); err != nil || !bytes.Equal(b, b2) {
			c.Failf(rt, nil, "re-serialising the decoded header of %s gives %x (%v), want %x", h, b2, err, b)
		}
		if forProto {
			p := schema.TxHeaderToProto(hdr)
			p2 := &schema.TxHeader{}
			if err := wire(p, p2); err != nil {
				c.Failf(rt, nil, "%v", err)
			}
			ph := schema.TxHeaderFromProto(p2)
			if err := h.check(ph); err != nil {
				c.Failf(rt, nil, "TxHeaderFromProto(TxHeaderToProto(%s)): %v", h, err)
			}
			if ph.Alh() != alh {
				c.Failf(rt, nil, "Alh changes through the proto conversion of %s", h)
			}
			c.Label("proto")
		}
		// v0 cannot carry metadata; unknown versions are refused
		if h.version == 0 {
			x := *hdr
			x.Metadata = store.NewTxMetadata()
			x.Metadata.WithExtra([]byte{1})
			if _, err := x.Bytes(); err == nil {
				c.Failf(rt, nil, "v0 header with metadata serialised")
			}
		}
		c.Label(fmt.Sprintf("v%d", h.version))
		if !h.md.empty() {
			c.Label("with-metadata")
		}
		if h.nentries >= 65535 {
			c.Label("nentries-large")
		}
		if h.ts < 0 {
			c.Label("negative-ts")
		}
		if h.id > 1<<32 {
			c.Label("id-large")
		}
		if !h.md.empty() || h.nentries >= 65535 || h.ts < 0 || h.id > 1<<32 || h.blTxID == h.id-1 {
			c.NonTrivial()
		}
	})
}

// ---------------------------------------------------------------------------
// exported transactions: harness parser of the ExportTx framing

type expEntry struct {
	key, md, value []byte
}

type expTx struct {
	hdr       []byte
	h         parsedHdr
	entries   []expEntry
	flagLen   int
	truncated byte
}

type parsedHdr struct {
	id, blTxID          uint64
	ts                  int64
	version             int
	nentries            int
	md                  []byte
	eh, blRoot, prevAlh [32]byte
}

type rd struct {
	b   []byte
	off int
	err error
}

func (r *rd) take(n int) []byte {
	if r.err != nil {
		return nil
	}
	if n < 0 || r.off+n > len(r.b) {
		r.err = fmt.Errorf("short input: need %d bytes at offset %d of %d", n, r.off, len(r.b))
		return nil
	}
	s := r.b[r.off : r.off+n]
	r.off += n
	return s
}
func (r *rd) u16() int {
	if s := r.take(2); s != nil {
		return int(binary.BigEndian.Uint16(s))
	}
	return 0
}
func (r *rd) u32() int {
	if s := r.take(4); s != nil {
		return int(binary.BigEndian.Uint32(s))
	}
	return 0
}
func (r *rd) u64() uint64 {
	if s := r.take(8); s != nil {
		return binary.BigEndian.Uint64(s)
	}
	return 0
}
func (r *rd) digest() (d [32]byte) {
	copy(d[:], r.take(32))
	return
}

func parseHdr(b []byte) (parsedHdr, error) {
	r := &rd{b: b}
	var h parsedHdr
	h.id = r.u64()
	h.prevAlh = r.digest()
	h.ts = int64(r.u64())
	h.version = r.u16()
	switch h.version {
	case 0:
		h.nentries = r.u16()
	case 1:
		h.md = append([]byte{}, r.take(r.u16())...)
		h.nentries = r.u32()
	default:
		return h, fmt.Errorf("header version %d", h.version)
	}
	h.eh = r.digest()
	h.blTxID = r.u64()
	h.blRoot = r.digest()
	if r.err == nil && r.off != len(b) {
		r.err = fmt.Errorf("%d trailing header bytes", len(b)-r.off)
	}
	return h, r.err
}

func parseExport(b []byte) (*expTx, error) {
	r := &rd{b: b}
	e := &expTx{}
	e.hdr = append([]byte{}, r.take(r.u32())...)
	if r.err != nil {
		return nil, r.err
	}
	var err error
	if e.h, err = parseHdr(e.hdr); err != nil {
		return nil, err
	}
	for i := 0; i < e.h.nentries; i++ {
		var x expEntry
		x.key = append([]byte{}, r.take(r.u16())...)
		x.md = append([]byte{}, r.take(r.u16())...)
		x.value = append([]byte{}, r.take(r.u32())...)
		if r.err != nil {
			return nil, fmt.Errorf("entry %d: %w", i, r.err)
		}
		e.entries = append(e.entries, x)
	}
	e.flagLen = r.u16()
	fl := r.take(e.flagLen)
	if r.err != nil {
		return nil, r.err
	}
	if len(fl) != 1 {
		return nil, fmt.Errorf("truncation flag of %d bytes", len(fl))
	}
	e.truncated = fl[0]
	if r.off != len(b) {
		return nil, fmt.Errorf("%d trailing bytes", len(b)-r.off)
	}
	return e, nil
}

func (e *expTx) serialise() []byte {
	var b []byte
	b = binary.BigEndian.AppendUint32(b, uint32(len(e.hdr)))
	b = append(b, e.hdr...)
	for _, x := range e.entries {
		b = binary.BigEndian.AppendUint16(b, uint16(len(x.key)))
		b = append(b, x.key...)
		b = binary.BigEndian.AppendUint16(b, uint16(len(x.md)))
		b = append(b, x.md...)
		b = binary.BigEndian.AppendUint32(b, uint32(len(x.value)))
		b = append(b, x.value...)
	}
	b = binary.BigEndian.AppendUint16(b, 1)
	return append(b, e.truncated)
}

// ---------------------------------------------------------------------------
// ExportTx -> ReplicateTx on a twin store, proto conversions of real txs/proofs

type entryModel struct {
	key, value []byte
	md         kvmdModel
}

type txModel struct {
	md      txmdModel
	entries []entryModel // unique keys
	hdr     *store.TxHeader
}

type storeCfg struct {
	fileSize    int
	embedded    bool
	version     int
	maxTxEnt    int
	compression int
}

var quiet = logger.NewMemoryLoggerWithLevel(logger.LogError)

func (s storeCfg) opts(clock *int64) *store.Options {
	o := store.DefaultOptions().WithAHTOptions(store.DefaultAHTOptions().WithWriteBufferSize(1<<16)).WithWriteBufferSize(1<<16).WithSynced(false).WithFileSize(s.fileSize).WithEmbeddedValues(s.embedded).
		WithWriteTxHeaderVersion(s.version).WithMaxTxEntries(s.maxTxEnt).WithMaxConcurrency(4).WithMaxActiveTransactions(16).
		WithCompressionFormat(s.compression).WithLogger(quiet)
	o.WithIndexOptions(o.IndexOpts.WithMaxActiveSnapshots(8))
	if clock != nil {
		o.WithTimeFunc(func() time.Time {
			*clock += 7
			return time.Unix(*clock, 0)
		})
	}
	return o
}

func genKey(rt *rapid.T) []byte {
	prefix := rapid.SampledFrom([]string{"", "k", "key/", "key/long/shared/prefix/", "\x00", "\xff\xff"}).Draw(rt, "keyPrefix")
	n := rapid.SampledFrom([]int{1, 1, 2, 3, 8, 40}).Draw(rt, "keyLen")
	b := []byte(prefix)
	tag := rapid.IntRange(0, 11).Draw(rt, "keyTag")
	for i := 0; i < n; i++ {
		b = append(b, byte('a'+(tag+i)%26))
	}
	if pct(rt, "keyNul", 15) {
		b = append(b, 0)
	}
	return b
}

func genValue(rt *rapid.T) []byte {
	n := rapid.SampledFrom([]int{0, 0, 1, 2, 7, 32, 33, 200, 1500}).Draw(rt, "valLen")
	b := make([]byte, n)
	seed := rapid.IntRange(0, 255).Draw(rt, "valSeed")
	for i := range b {
		b[i] = byte(seed + i*13)
	}
	if pct(rt, "valZero", 15) {
		for i := range b {
			b[i] = 0
		}
	}
	return b
}

func sameHeader(a, b *store.TxHeader) error {
	if a.ID != b.ID || a.Ts != b.Ts || a.BlTxID != b.BlTxID || a.BlRoot != b.BlRoot || a.PrevAlh != b.PrevAlh || a.Version != b.Version || a.NEntries != b.NEntries || a.Eh != b.Eh {
		return fmt.Errorf("headers differ: %+v vs %+v", a, b)
	}
	var ab, bb []byte
	if a.Metadata != nil {
		ab = a.Metadata.Bytes()
	}
	if b.Metadata != nil {
		bb = b.Metadata.Bytes()
	}
	if !bytes.Equal(ab, bb) {
		return fmt.Errorf("header metadata differ: %x vs %x", ab, bb)
	}
	if a.Alh() != b.Alh() {
		return fmt.Errorf("Alh differ")
	}
	return nil
}

func mdBytes(md *store.KVMetadata) []byte {
	if md == nil {
		return nil
	}
	return md.Bytes()
}

func TestExportReplicate(t *testing.T) {
	ctx := context.Background()
	vk.Check(t, 1200, 8000, func(rt *rapid.T, c *vk.Case) {
		pc := storeCfg{
			fileSize:    rapid.SampledFrom([]int{256, 1024, 1 << 16, 1 << 20}).Draw(rt, "pFileSize"),
			embedded:    rapid.Bool().Draw(rt, "pEmbedded"),
			version:     rapid.SampledFrom([]int{0, 1, 1, 1, 1}).Draw(rt, "hdrVersion"),
			maxTxEnt:    rapid.SampledFrom([]int{8, 64, 1024}).Draw(rt, "maxTxEntries"),
			compression: rapid.SampledFrom([]int{0, 0, 1, 2, 3}).Draw(rt, "pCompression"),
		}
		rc := pc
		rc.fileSize = rapid.SampledFrom([]int{256, 1024, 1 << 16, 1 << 20}).Draw(rt, "rFileSize")
		rc.embedded = rapid.Bool().Draw(rt, "rEmbedded")
		rc.compression = rapid.SampledFrom([]int{0, 0, 1, 2, 3}).Draw(rt, "rCompression")
		c.Descf("primary=%+v replica=%+v", pc, rc)

		pdir, rdir := vk.Dir(), vk.Dir()
		defer removeAll(pdir)
		defer removeAll(rdir)
		clock := int64(1_600_000_000)
		primary, err := store.Open(pdir, pc.opts(&clock))
		if err != nil {
			c.Failf(rt, nil, "open primary: %v", err)
		}
		defer primary.Close()
		replica, err := store.Open(rdir, rc.opts(nil))
		if err != nil {
			c.Failf(rt, nil, "open replica: %v", err)
		}
		defer replica.Close()

		ntx := rapid.IntRange(1, 5).Draw(rt, "ntx")
		var txs []*txModel
		withKvmd, withTxmd, emptyVals, bigVals := 0, 0, 0, 0
		for i := 0; i < ntx; i++ {
			m := &txModel{}
			if pc.version == 1 {
				m.md = genTxmd(rt, false)
			}
			ne := rapid.IntRange(1, min(8, pc.maxTxEnt)).Draw(rt, "nentries")
			seen := map[string]bool{}
			for len(m.entries) < ne {
				e := entryModel{key: genKey(rt), value: genValue(rt)}
				if seen[string(e.key)] {
					e.key = append(e.key, byte('0'+len(m.entries)))
				}
				if seen[string(e.key)] {
					continue
				}
				seen[string(e.key)] = true
				if pc.version == 1 {
					e.md = genKvmd(rt, false)
				}
				m.entries = append(m.entries, e)
			}
			otx, err := primary.NewWriteOnlyTx(ctx)
			if err != nil {
				c.Failf(rt, nil, "NewWriteOnlyTx: %v", err)
			}
			txmd, err := m.md.build()
			if err != nil {
				c.Failf(rt, nil, "%v", err)
			}
			if txmd != nil {
				otx.WithMetadata(txmd)
			}
			for _, e := range m.entries {
				if err := otx.Set(e.key, e.md.build(), e.value); err != nil {
					c.Failf(rt, nil, "Set(%x, %s, %d bytes): %v", e.key, e.md, len(e.value), err)
				}
				if !e.md.empty() {
					withKvmd++
				}
				if len(e.value) == 0 {
					emptyVals++
				}
				if len(e.value) > 256 {
					bigVals++
				}
			}
			if !m.md.empty() {
				withTxmd++
			}
			m.hdr, err = otx.Commit(ctx)
			if err != nil {
				c.Failf(rt, nil, "Commit of tx %d: %v", i+1, err)
			}
			c.Descf("tx%d md=%s ne=%d", i+1, m.md, len(m.entries))
			for _, e := range m.entries {
				c.Descf("%x/%s/%d", clip(e.key), e.md, len(e.value))
			}
			txs = append(txs, m)
		}

		pHolder := store.NewTx(primary.MaxTxEntries(), primary.MaxKeyLen())
		rHolder := store.NewTx(replica.MaxTxEntries(), replica.MaxKeyLen())
		for i, m := range txs {
			id := uint64(i + 1)
			if m.hdr.ID != id || m.hdr.Version != pc.version || m.hdr.NEntries != len(m.entries) {
				c.Failf(rt, nil, "committed header of tx %d: %+v", id, m.hdr)
			}
			if err := m.md.check(m.hdr.Metadata); err != nil {
				c.Failf(rt, nil, "committed header of tx %d: %v", id, err)
			}
			exp, err := primary.ExportTx(id, false, false, pHolder)
			if err != nil {
				c.Failf(rt, nil, "ExportTx(%d): %v", id, err)
			}
			// what ExportTx left in the holder is the tx as read from the log
			if err := sameHeader(pHolder.Header(), m.hdr); err != nil {
				c.Failf(rt, nil, "tx %d read back from the primary: %v", id, err)
			}
			checkEntries(rt, c, fmt.Sprintf("primary tx %d", id), primary, pHolder, m)

			// harness parser: framing, header layout, content, canonical re-serialisation
			px, err := parseExport(exp)
			if err != nil {
				c.Failf(rt, map[string]string{"export": fmt.Sprintf("%x", exp)}, "exported tx %d does not parse: %v", id, err)
			}
			if !bytes.Equal(px.serialise(), exp) {
				c.Failf(rt, nil, "exported tx %d does not re-serialise to the same bytes", id)
			}
			ph := &store.TxHeader{ID: px.h.id, Ts: px.h.ts, BlTxID: px.h.blTxID, BlRoot: px.h.blRoot, PrevAlh: px.h.prevAlh, Version: px.h.version, NEntries: px.h.nentries, Eh: px.h.eh}
			if len(px.h.md) > 0 {
				ph.Metadata = store.NewTxMetadata()
				if err := ph.Metadata.ReadFrom(px.h.md); err != nil {
					c.Failf(rt, nil, "tx metadata %x in exported tx %d: %v", px.h.md, id, err)
				}
			}
			if !bytes.Equal(px.h.md, m.md.bytes()) {
				c.Failf(rt, nil, "exported tx %d carries tx metadata %x, want %x", id, px.h.md, m.md.bytes())
			}
			if err := sameHeader(ph, m.hdr); err != nil {
				c.Failf(rt, nil, "header inside exported tx %d: %v", id, err)
			}
			if px.truncated != 0 || len(px.entries) != len(m.entries) {
				c.Failf(rt, nil, "exported tx %d: truncated=%d entries=%d want 0/%d", id, px.truncated, len(px.entries), len(m.entries))
			}
			for j, pe := range pHolder.Entries() {
				x := px.entries[j]
				if !bytes.Equal(x.key, pe.Key()) {
					c.Failf(rt, nil, "exported tx %d entry %d has key %x, the log has %x", id, j, x.key, pe.Key())
				}
				em := findEntry(m, x.key)
				if em == nil {
					c.Failf(rt, nil, "exported tx %d entry %d has unknown key %x", id, j, x.key)
				}
				if !bytes.Equal(x.md, em.md.bytes()) || !bytes.Equal(x.value, em.value) {
					c.Failf(rt, nil, "exported tx %d entry %x: md=%x value=%x, want md=%x value=%x", id, x.key, x.md, clip(x.value), em.md.bytes(), clip(em.value))
				}
			}

			// replicate on the twin
			rh, err := replica.ReplicateTx(ctx, exp, false, false)
			if err != nil {
				c.Failf(rt, nil, "ReplicateTx(ExportTx(%d)): %v", id, err)
			}
			if err := sameHeader(rh, m.hdr); err != nil {
				c.Failf(rt, nil, "header returned by ReplicateTx for tx %d: %v", id, err)
			}
			if err := replica.ReadTx(id, false, rHolder); err != nil {
				c.Failf(rt, nil, "replica ReadTx(%d): %v", id, err)
			}
			if err := sameHeader(rHolder.Header(), m.hdr); err != nil {
				c.Failf(rt, nil, "tx %d read back from the replica: %v", id, err)
			}
			checkEntries(rt, c, fmt.Sprintf("replica tx %d", id), replica, rHolder, m)
			// a second export, from the replica, is byte-identical
			exp2, err := replica.ExportTx(id, false, false, rHolder)
			if err != nil || !bytes.Equal(exp, exp2) {
				c.Failf(rt, nil, "tx %d exported from the replica differs from the primary's export (err=%v)", id, err)
			}

			// schema conversions of the real tx, over the wire
			ptx := schema.TxToProto(pHolder)
			ptx2 := &schema.Tx{}
			if err := wire(ptx, ptx2); err != nil {
				c.Failf(rt, nil, "%v", err)
			}
			back := schema.TxFromProto(ptx2)
			if err := sameHeader(back.Header(), m.hdr); err != nil {
				// TxFromProto rebuilds Eh from the converted entries: a lossy entry conversion shows up here
				c.Failf(rt, nil, "TxFromProto(TxToProto(tx %d)): %v", id, err)
			}
			for j, be := range back.Entries() {
				pe := pHolder.Entries()[j]
				if !bytes.Equal(be.Key(), pe.Key()) || !bytes.Equal(mdBytes(be.Metadata()), mdBytes(pe.Metadata())) || be.HVal() != pe.HVal() || be.VLen() != pe.VLen() {
					c.Failf(rt, nil, "TxFromProto(TxToProto(tx %d)) entry %d differs", id, j)
				}
				// inclusion proof of the entry: conversion keeps it valid
				ip, err := pHolder.Proof(pe.Key())
				if err != nil {
					c.Failf(rt, nil, "Proof(%x): %v", pe.Key(), err)
				}
				pip := &schema.InclusionProof{}
				if err := wire(schema.InclusionProofToProto(ip), pip); err != nil {
					c.Failf(rt, nil, "%v", err)
				}
				ip2 := schema.InclusionProofFromProto(pip)
				if ip2.Leaf != ip.Leaf || ip2.Width != ip.Width || !sameDigests(ip2.Terms, ip.Terms) {
					c.Failf(rt, nil, "InclusionProofFromProto(ToProto) differs for tx %d entry %d", id, j)
				}
				dg, err := store.TxEntryDigest_v1_2(be)
				if pc.version == 0 {
					dg, err = store.TxEntryDigest_v1_1(be)
				}
				if err != nil || !htree.VerifyInclusion(ip2, dg, m.hdr.Eh) {
					c.Failf(rt, nil, "converted inclusion proof + converted entry %d of tx %d do not verify against Eh (err=%v)", j, id, err)
				}
			}
		}

		// dual / linear proofs between random committed txs, through the proto conversion
		for q := 0; q < 3; q++ {
			j := rapid.IntRange(1, ntx).Draw(rt, "proofTarget")
			i := rapid.IntRange(1, j).Draw(rt, "proofSource")
			sh, th := txs[i-1].hdr, txs[j-1].hdr
			dp, err := primary.DualProof(sh, th)
			if err != nil {
				c.Failf(rt, nil, "DualProof(%d,%d): %v", i, j, err)
			}
			pdp := &schema.DualProof{}
			if err := wire(schema.DualProofToProto(dp), pdp); err != nil {
				c.Failf(rt, nil, "%v", err)
			}
			dp2 := schema.DualProofFromProto(pdp)
			if err := sameDualProof(dp, dp2); err != nil {
				c.Failf(rt, nil, "DualProofFromProto(DualProofToProto(%d,%d)): %v", i, j, err)
			}
			if !store.VerifyDualProof(dp2, uint64(i), uint64(j), sh.Alh(), th.Alh()) {
				c.Failf(rt, nil, "converted dual proof (%d,%d) does not verify", i, j)
			}
			dpv2, err := primary.DualProofV2(sh, th)
			if err != nil {
				c.Failf(rt, nil, "DualProofV2(%d,%d): %v", i, j, err)
			}
			pdv2 := &schema.DualProofV2{}
			if err := wire(schema.DualProofV2ToProto(dpv2), pdv2); err != nil {
				c.Failf(rt, nil, "%v", err)
			}
			dv2 := schema.DualProofV2FromProto(pdv2)
			if sameHeader(dv2.SourceTxHeader, sh) != nil || sameHeader(dv2.TargetTxHeader, th) != nil ||
				!sameDigests(dv2.InclusionProof, dpv2.InclusionProof) || !sameDigests(dv2.ConsistencyProof, dpv2.ConsistencyProof) {
				c.Failf(rt, nil, "DualProofV2FromProto(ToProto(%d,%d)) differs", i, j)
			}
			if err := store.VerifyDualProofV2(dv2, uint64(i), uint64(j), sh.Alh(), th.Alh()); err != nil {
				c.Failf(rt, nil, "converted dual proof v2 (%d,%d) does not verify: %v", i, j, err)
			}
			lp, err := primary.LinearProof(uint64(i), uint64(j))
			if err != nil {
				c.Failf(rt, nil, "LinearProof(%d,%d): %v", i, j, err)
			}
			plp := &schema.LinearProof{}
			if err := wire(schema.LinearProofToProto(lp), plp); err != nil {
				c.Failf(rt, nil, "%v", err)
			}
			lp2 := schema.LinearProofFromProto(plp)
			if lp2.SourceTxID != lp.SourceTxID || lp2.TargetTxID != lp.TargetTxID || !sameDigests(lp2.Terms, lp.Terms) ||
				!store.VerifyLinearProof(lp2, uint64(i), uint64(j), sh.Alh(), th.Alh()) {
				c.Failf(rt, nil, "LinearProofFromProto(ToProto(%d,%d)) differs or does not verify", i, j)
			}
		}

		// both stores end in the same state, and the replica's index decodes the same metadata
		pid, palh := primary.CommittedAlh()
		rid, ralh := replica.CommittedAlh()
		if pid != rid || palh != ralh || pid != uint64(ntx) {
			c.Failf(rt, nil, "final states differ: primary (%d,%x) replica (%d,%x)", pid, palh[:4], rid, ralh[:4])
		}
		for _, st := range []*store.ImmuStore{primary, replica} {
			if err := st.WaitForIndexingUpto(ctx, uint64(ntx)); err != nil {
				c.Failf(rt, nil, "WaitForIndexingUpto: %v", err)
			}
		}
		latest := map[string]int{} // key -> tx index of the latest indexable write
		var keys []string
		for i, m := range txs {
			for _, e := range m.entries {
				if e.md.present && e.md.nonIndexable {
					continue
				}
				if _, ok := latest[string(e.key)]; !ok {
					keys = append(keys, string(e.key))
				}
				latest[string(e.key)] = i
			}
		}
		sort.Strings(keys)
		for _, k := range keys {
			m := txs[latest[k]]
			e := findEntry(m, []byte(k))
			for name, st := range map[string]*store.ImmuStore{"primary": primary, "replica": replica} {
				ref, err := st.GetWithFilters(ctx, []byte(k))
				if err != nil {
					c.Failf(rt, nil, "%s index: Get(%x): %v", name, k, err)
				}
				if ref.Tx() != m.hdr.ID {
					c.Failf(rt, nil, "%s index: key %x resolves to tx %d, want %d", name, k, ref.Tx(), m.hdr.ID)
				}
				if err := e.md.check(ref.KVMetadata()); err != nil {
					c.Failf(rt, nil, "%s index: kv metadata of %x: %v", name, k, err)
				}
				if err := m.md.check(ref.TxMetadata()); err != nil {
					c.Failf(rt, nil, "%s index: tx metadata of %x: %v", name, k, err)
				}
				if int(ref.Len()) != len(e.value) || ref.HVal() != sha256.Sum256(e.value) {
					c.Failf(rt, nil, "%s index: value reference of %x: len=%d", name, k, ref.Len())
				}
			}
		}

		c.Label(fmt.Sprintf("hdr-v%d", pc.version))
		if withKvmd > 0 {
			c.Label("entry-metadata")
		}
		if withTxmd > 0 {
			c.Label("tx-metadata")
		}
		if emptyVals > 0 {
			c.Label("empty-value")
		}
		if bigVals > 0 {
			c.Label("value-over-256B")
		}
		if pc.embedded != rc.embedded {
			c.Label("embedded-differs")
		}
		if ntx > 1 {
			c.Label("multi-tx")
		}
		if withKvmd > 0 || withTxmd > 0 || emptyVals > 0 {
			c.NonTrivial()
		}
	})
}

func findEntry(m *txModel, key []byte) *entryModel {
	for i := range m.entries {
		if bytes.Equal(m.entries[i].key, key) {
			return &m.entries[i]
		}
	}
	return nil
}

// checkEntries compares the entries of a tx read from a store with the model.
func checkEntries(rt *rapid.T, c *vk.Case, what string, st *store.ImmuStore, tx *store.Tx, m *txModel) {
	es := tx.Entries()
	if len(es) != len(m.entries) {
		c.Failf(rt, nil, "%s has %d entries, want %d", what, len(es), len(m.entries))
	}
	seen := map[string]bool{}
	for _, e := range es {
		em := findEntry(m, e.Key())
		if em == nil || seen[string(e.Key())] {
			c.Failf(rt, nil, "%s: unexpected or repeated key %x", what, e.Key())
		}
		seen[string(e.Key())] = true
		if err := em.md.check(e.Metadata()); err != nil {
			c.Failf(rt, nil, "%s key %x: %v", what, e.Key(), err)
		}
		if e.VLen() != len(em.value) || e.HVal() != sha256.Sum256(em.value) {
			c.Failf(rt, nil, "%s key %x: vLen=%d hVal=%x, want %d/%x", what, e.Key(), e.VLen(), e.HVal(), len(em.value), sha256.Sum256(em.value))
		}
		v, err := st.ReadValue(e)
		if em.md.present && em.md.expirable && em.md.expiresAt < 4102444800 {
			// expired long ago: the value is withheld
			if !errors.Is(err, store.ErrExpiredEntry) {
				c.Failf(rt, nil, "%s key %x (expired in %d): ReadValue = %x, %v", what, e.Key(), em.md.expiresAt, clip(v), err)
			}
		} else if err != nil || !bytes.Equal(v, em.value) {
			c.Failf(rt, nil, "%s key %x: ReadValue = %x, %v; want %x", what, e.Key(), clip(v), err, clip(em.value))
		}
	}
}

func sameDigests(a, b [][sha256.Size]byte) bool {
	if len(a) != len(b) {
		return false
	}
	for i := range a {
		if a[i] != b[i] {
			return false
		}
	}
	return true
}

func sameDualProof(a, b *store.DualProof) error {
	if err := sameHeader(a.SourceTxHeader, b.SourceTxHeader); err != nil {
		return fmt.Errorf("source: %w", err)
	}
	if err := sameHeader(a.TargetTxHeader, b.TargetTxHeader); err != nil {
		return fmt.Errorf("target: %w", err)
	}
	if !sameDigests(a.InclusionProof, b.InclusionProof) || !sameDigests(a.ConsistencyProof, b.ConsistencyProof) || !sameDigests(a.LastInclusionProof, b.LastInclusionProof) || a.TargetBlTxAlh != b.TargetBlTxAlh {
		return errors.New("tree proofs differ")
	}
	if (a.LinearProof == nil) != (b.LinearProof == nil) {
		return errors.New("linear proof nil-ness")
	}
	if a.LinearProof != nil && (a.LinearProof.SourceTxID != b.LinearProof.SourceTxID || a.LinearProof.TargetTxID != b.LinearProof.TargetTxID || !sameDigests(a.LinearProof.Terms, b.LinearProof.Terms)) {
		return errors.New("linear proofs differ")
	}
	al, bl := a.LinearAdvanceProof, b.LinearAdvanceProof
	if (al == nil) != (bl == nil) {
		return errors.New("linear advance proof nil-ness")
	}
	if al != nil {
		if !sameDigests(al.LinearProofTerms, bl.LinearProofTerms) || len(al.InclusionProofs) != len(bl.InclusionProofs) {
			return errors.New("linear advance proofs differ")
		}
		for i := range al.InclusionProofs {
			if !sameDigests(al.InclusionProofs[i], bl.InclusionProofs[i]) {
				return errors.New("linear advance inclusion proofs differ")
			}
		}
	}
	return nil
}
