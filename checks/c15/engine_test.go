package c15

import (
	"bytes"
	"context"
	"encoding/hex"
	"errors"
	"fmt"
	"math"
	"reflect"
	"sort"
	"strings"
	"testing"
	"unicode/utf8"

	"github.com/codenotary/immudb/embedded/document"
	"github.com/codenotary/immudb/embedded/sql"
	"github.com/codenotary/immudb/embedded/store"
	"github.com/codenotary/immudb/pkg/api/protomodel"
	"github.com/codenotary/immudb/pkg/api/schema"
	"github.com/google/uuid"
	"google.golang.org/protobuf/proto"
	"google.golang.org/protobuf/types/known/structpb"
	"pgregory.net/rapid"

	"verif/internal/vk"
)

// ---------------------------------------------------------------------------
// JSON values (as produced by parsing JSON text)

func genJSONString(rt *rapid.T) string {
	return rapid.SampledFrom([]string{"", "a", "é", "日本", "\u0000", "<&>", "\"q\"", "\\", "line\nbreak", " ", "k e y", "😀"}).Draw(rt, "jsonStr")
}

func genJSON(rt *rapid.T, depth int) interface{} {
	kinds := []string{"num", "num", "str", "str", "bool", "null"}
	if depth > 0 {
		kinds = append(kinds, "arr", "obj", "obj")
	}
	switch rapid.SampledFrom(kinds).Draw(rt, "jsonKind") {
	case "num":
		f := genFloat(rt, false)
		if math.IsInf(f, 0) {
			f = math.MaxFloat64
		}
		return f
	case "str":
		return genJSONString(rt)
	case "bool":
		return rapid.Bool().Draw(rt, "jsonBool")
	case "null":
		return nil
	case "arr":
		n := rapid.IntRange(0, 3).Draw(rt, "arrLen")
		a := make([]interface{}, n)
		for i := range a {
			a[i] = genJSON(rt, depth-1)
		}
		return a
	default:
		n := rapid.IntRange(0, 3).Draw(rt, "objLen")
		o := map[string]interface{}{}
		for i := 0; i < n; i++ {
			o[genJSONString(rt)+fmt.Sprint(i)] = genJSON(rt, depth-1)
		}
		return o
	}
}

// sameJSON: DeepEqual, but floats by bits (so that -0 vs 0 is a difference).
func sameJSON(a, b interface{}) bool {
	switch x := a.(type) {
	case float64:
		y, ok := b.(float64)
		return ok && math.Float64bits(x) == math.Float64bits(y)
	case []interface{}:
		y, ok := b.([]interface{})
		if !ok || len(x) != len(y) {
			return false
		}
		for i := range x {
			if !sameJSON(x[i], y[i]) {
				return false
			}
		}
		return true
	case map[string]interface{}:
		y, ok := b.(map[string]interface{})
		if !ok || len(x) != len(y) {
			return false
		}
		for k, v := range x {
			w, ok := y[k]
			if !ok || !sameJSON(v, w) {
				return false
			}
		}
		return true
	}
	return reflect.DeepEqual(a, b)
}

func TestJSONValueCodec(t *testing.T) {
	vk.Check(t, 200000, 1600000, func(rt *rapid.T, c *vk.Case) {
		doc := genJSON(rt, 3)
		if doc == nil {
			doc = []interface{}{nil} // a top-level JSON null is the SQL NULL (not encodable as a value)
		}
		j := sql.NewJson(doc)
		text := j.String()
		c.Descf("json=%s", text)
		enc, err := sql.EncodeValue(j, sql.JSONType, 0)
		if err != nil {
			c.Failf(rt, nil, "EncodeValue(JSON %s): %v", text, err)
		}
		d, n, err := sql.DecodeValue(append(append([]byte{}, enc...), 0xFF), sql.JSONType)
		if err != nil || n != len(enc) {
			c.Failf(rt, nil, "DecodeValue(JSON %s): n=%d of %d, err=%v", text, n, len(enc), err)
		}
		if d.Type() != sql.JSONType || !sameJSON(d.RawValue(), doc) {
			c.Failf(rt, nil, "JSON %s decodes to %v", text, d.RawValue())
		}
		if re, err := sql.EncodeValue(d, sql.JSONType, 0); err != nil || !bytes.Equal(re, enc) {
			c.Failf(rt, nil, "re-encoding JSON %s gives %q (%v), want %q", text, re, err, enc)
		}
		// the text form a client sends (VARCHAR into a JSON column) and gets back (TypedValueToRowValue)
		enc2, err := sql.EncodeValue(sql.NewVarchar(text), sql.JSONType, 0)
		if err != nil {
			c.Failf(rt, nil, "EncodeValue(VARCHAR %s as JSON): %v", text, err)
		}
		d2, _, err := sql.DecodeValue(enc2, sql.JSONType)
		if err != nil || !sameJSON(d2.RawValue(), doc) {
			c.Failf(rt, nil, "JSON text %s stored through a VARCHAR decodes to %v (%v)", text, d2, err)
		}
		rv := schema.TypedValueToRowValue(d)
		rv2 := &schema.SQLValue{}
		if err := wire(rv, rv2); err != nil {
			c.Failf(rt, nil, "%v", err)
		}
		back, err := sql.NewJsonFromString(rv2.GetS())
		if err != nil || !sameJSON(back.RawValue(), doc) {
			c.Failf(rt, nil, "JSON %s through TypedValueToRowValue comes back as %q (%v)", text, rv2.GetS(), err)
		}
		switch doc.(type) {
		case map[string]interface{}:
			c.Label("object")
			c.NonTrivial()
		case []interface{}:
			c.Label("array")
			c.NonTrivial()
		case string:
			c.Label("string")
			if s := doc.(string); s == "" || strings.ContainsAny(s, "\u0000<\"\\\n ") {
				c.NonTrivial()
			}
		case float64:
			c.Label("number")
			if f := doc.(float64); f != math.Trunc(f) || math.Abs(f) > 1<<53 || math.Signbit(f) {
				c.NonTrivial()
			}
		default:
			c.Label("literal")
		}
	})
}

// ---------------------------------------------------------------------------
// row values through the API conversions (schema.SQLValue)

func TestRowValueProto(t *testing.T) {
	vk.Check(t, 400000, 3200000, func(rt *rapid.T, c *vk.Case) {
		spec := genSpec(rt, 64)
		v := genVal(rt, spec, genOpt{nan: true})
		if spec.typ == sql.VarcharType && !utf8.Valid(v.s) {
			// protobuf string fields carry UTF-8 only (Marshal refuses anything else)
			v.s = []byte(strings.ToValidUTF8(string(v.s), "?"))
			c.Label("utf8-sanitised")
		}
		c.Descf("%s %s", spec, v)
		c.Label("type-" + spec.typ)
		tv, err := v.tv()
		if err != nil {
			c.Failf(rt, nil, "%v", err)
		}
		want, err := sql.EncodeValue(tv, spec.typ, spec.maxLen)
		if err != nil {
			c.Failf(rt, nil, "EncodeValue(%s): %v", v, err)
		}
		// server -> client: a row value; client -> server: the same value as a parameter of the same column
		rv := schema.TypedValueToRowValue(tv)
		rv2 := &schema.SQLValue{}
		if err := wire(rv, rv2); err != nil {
			c.Failf(rt, nil, "%v", err)
		}
		raw := schema.RawValue(rv2)
		got, err := sql.EncodeRawValue(raw, spec.typ, spec.maxLen, false)
		if err != nil || !bytes.Equal(got, want) {
			c.Failf(rt, nil, "%s -> TypedValueToRowValue -> wire -> RawValue = %#v: encodes as %x (%v), the original as %x", v, raw, clip(got), err, clip(want))
		}
		if eq, err := rv.Value.(schema.SqlValue).Equal(rv2.Value.(schema.SqlValue)); v.boundary(spec) != "float-nan" && (err != nil || !eq) {
			c.Failf(rt, nil, "row value of %s is not Equal to itself after the wire (%v)", v, err)
		}
		// parameters: AsSQLValue / RawValue
		in := v.raw()
		if spec.typ == sql.UUIDType {
			in = v.u.String() // there is no UUID parameter type: clients send the text form
		}
		pv, err := schema.AsSQLValue(in)
		if err != nil {
			c.Failf(rt, nil, "AsSQLValue(%#v): %v", in, err)
		}
		pv2 := &schema.SQLValue{}
		if err := wire(pv, pv2); err != nil {
			c.Failf(rt, nil, "%v", err)
		}
		got, err = sql.EncodeRawValue(schema.RawValue(pv2), spec.typ, spec.maxLen, false)
		if err != nil || !bytes.Equal(got, want) {
			c.Failf(rt, nil, "parameter %s -> AsSQLValue -> wire -> RawValue encodes as %x (%v), want %x", v, clip(got), err, clip(want))
		}
		// NULL
		np, _ := schema.AsSQLValue(nil)
		np2 := &schema.SQLValue{}
		if err := wire(np, np2); err != nil || schema.RawValue(np2) != nil {
			c.Failf(rt, nil, "NULL parameter comes back as %#v (%v)", schema.RawValue(np2), err)
		}
		if bd := v.boundary(spec); bd != "" {
			c.Label(bd)
			c.NonTrivial()
		}
	})
}

// ---------------------------------------------------------------------------
// rows through a real engine: composite primary keys, secondary indexes

type tableModel struct {
	specs   []colSpec
	pk      []int
	indexes [][]int
	rows    [][]val
}

func colName(i int) string { return fmt.Sprintf("c%d", i) }

func (tm *tableModel) ddl() []string {
	var cols []string
	for i, s := range tm.specs {
		d := colName(i) + " " + s.typ
		if s.variable() {
			d += fmt.Sprintf("[%d]", s.maxLen)
		}
		cols = append(cols, d)
	}
	var pk []string
	for _, i := range tm.pk {
		pk = append(pk, colName(i))
	}
	out := []string{fmt.Sprintf("CREATE TABLE t (%s, PRIMARY KEY (%s))", strings.Join(cols, ", "), strings.Join(pk, ", "))}
	for _, ix := range tm.indexes {
		var cs []string
		for _, i := range ix {
			cs = append(cs, colName(i))
		}
		out = append(out, fmt.Sprintf("CREATE INDEX ON t(%s)", strings.Join(cs, ", ")))
	}
	return out
}

func project(row []val, cols []int) []val {
	out := make([]val, len(cols))
	for i, c := range cols {
		out[i] = row[c]
	}
	return out
}

func param(v val) interface{} {
	if v.null {
		return nil
	}
	if v.typ == sql.UUIDType {
		return v.u.String()
	}
	return v.raw()
}

func openEngine(rt *rapid.T, c *vk.Case) (*sql.Engine, func()) {
	dir := vk.Dir()
	st, err := store.Open(dir, store.DefaultOptions().WithAHTOptions(store.DefaultAHTOptions().WithWriteBufferSize(1<<16)).WithWriteBufferSize(1<<16).WithMultiIndexing(true).WithSynced(false).WithLogger(quiet))
	if err != nil {
		removeAll(dir)
		c.Failf(rt, nil, "open store: %v", err)
	}
	e, err := sql.NewEngine(st, sql.DefaultOptions().WithPrefix([]byte("sql")))
	if err != nil {
		st.Close()
		removeAll(dir)
		c.Failf(rt, nil, "NewEngine: %v", err)
	}
	return e, func() { st.Close(); removeAll(dir) }
}

func TestSQLRowsThroughEngine(t *testing.T) {
	ctx := context.Background()
	vk.Check(t, 1200, 8000, func(rt *rapid.T, c *vk.Case) {
		tm := &tableModel{}
		ncols := rapid.IntRange(2, 6).Draw(rt, "ncols")
		for i := 0; i < ncols; i++ {
			tm.specs = append(tm.specs, genSpec(rt, 8))
		}
		perm := rapid.Permutation(seq(ncols)).Draw(rt, "pkPerm")
		tm.pk = perm[:rapid.IntRange(1, min(3, ncols)).Draw(rt, "npk")]
		keyCol := map[int]bool{}
		for _, i := range tm.pk {
			keyCol[i] = true
		}
		nidx := rapid.IntRange(0, 2).Draw(rt, "nindexes")
		for k := 0; k < nidx; k++ {
			p := rapid.Permutation(seq(ncols)).Draw(rt, "idxPerm")
			ix := p[:rapid.IntRange(1, min(3, ncols)).Draw(rt, "idxCols")]
			if sameInts(ix, tm.pk) || (len(tm.indexes) > 0 && sameInts(ix, tm.indexes[0])) {
				continue
			}
			tm.indexes = append(tm.indexes, ix)
			for _, i := range ix {
				keyCol[i] = true
			}
		}
		c.Descf("ddl=%s", strings.Join(tm.ddl(), "; "))

		e, closeAll := openEngine(rt, c)
		defer closeAll()
		for _, stmt := range tm.ddl() {
			if _, _, err := e.Exec(ctx, nil, stmt, nil); err != nil {
				c.Failf(rt, nil, "%s: %v", stmt, err)
			}
		}

		var names, holders []string
		for i := range tm.specs {
			names = append(names, colName(i))
			if tm.specs[i].typ == sql.UUIDType {
				// there is no UUID parameter type; an explicit cast keeps the statement independent of
				// how a VARCHAR parameter is coerced when it meets an existing row
				holders = append(holders, "CAST(@p"+fmt.Sprint(i)+" AS UUID)")
			} else {
				holders = append(holders, "@p"+fmt.Sprint(i))
			}
		}
		upsert := fmt.Sprintf("UPSERT INTO t (%s) VALUES (%s)", strings.Join(names, ", "), strings.Join(holders, ", "))
		nrows := rapid.IntRange(1, 10).Draw(rt, "nrows")
		updates := 0
		for r := 0; r < nrows; r++ {
			var row []val
			if len(tm.rows) > 0 && pct(rt, "nearRow", 50) {
				// a neighbour of an existing row: shared key prefixes, updates of the same key
				base := tm.rows[rapid.IntRange(0, len(tm.rows)-1).Draw(rt, "baseRow")]
				row = append([]val{}, base...)
				k := rapid.IntRange(0, ncols-1).Draw(rt, "mutCol")
				row[k], _ = neighbour(rt, base[k], tm.specs[k], genOpt{tsWindow: keyCol[k] && k7opt()})
			} else {
				for i, s := range tm.specs {
					row = append(row, genVal(rt, s, genOpt{tsWindow: keyCol[i] && k7opt(), nullPct: 15}))
				}
			}
			params := map[string]interface{}{}
			for i := range row {
				if inInts(tm.pk, i) && row[i].null {
					row[i] = genVal(rt, tm.specs[i], genOpt{tsWindow: k7opt()})
				}
				if keyCol[i] && row[i].typ == sql.Float64Type && !row[i].null && row[i].f == 0 && math.Signbit(row[i].f) && vk.Excluded(kfK6) {
					// known finding K6: -0.0 in a key column is a different key than 0.0
					vk.CountExcluded(kfK6)
					row[i].f = 0
				}
				params["p"+fmt.Sprint(i)] = param(row[i])
			}
			if _, _, err := e.Exec(ctx, nil, upsert, params); err != nil {
				c.Failf(rt, nil, "%s with %s: %v", upsert, tupleString(row), err)
			}
			c.Descf("row=%s", tupleString(row))
			replaced := false
			for k, old := range tm.rows {
				if cmp, _ := refTupleCmp(project(old, tm.pk), project(row, tm.pk)); cmp == 0 {
					tm.rows[k] = row
					replaced = true
					updates++
				}
			}
			if !replaced {
				tm.rows = append(tm.rows, row)
			}
		}

		all := seq(ncols)
		orders := append([][]int{tm.pk}, tm.indexes...)
		usedIndex := 0
		for oi, ord := range orders {
			var oc []string
			for _, i := range ord {
				oc = append(oc, colName(i))
			}
			for _, hint := range []bool{false, true} {
				q := fmt.Sprintf("SELECT %s FROM t", strings.Join(names, ", "))
				if hint {
					q += fmt.Sprintf(" USE INDEX ON (%s)", strings.Join(oc, ", "))
				}
				q += " ORDER BY " + strings.Join(oc, ", ")
				rr, err := e.Query(ctx, nil, q, nil)
				if err != nil {
					c.Failf(rt, nil, "%s: %v", q, err)
				}
				if sp := rr.ScanSpecs(); sp != nil && sp.Index != nil && sameIndexCols(sp.Index, ord) {
					usedIndex++
				}
				var got [][]sql.TypedValue
				for {
					row, err := rr.Read(ctx)
					if errors.Is(err, sql.ErrNoMoreRows) {
						break
					}
					if err != nil {
						rr.Close()
						c.Failf(rt, nil, "%s: Read: %v", q, err)
					}
					got = append(got, row.ValuesByPosition)
				}
				rr.Close()
				if len(got) != len(tm.rows) {
					c.Failf(rt, nil, "%s returned %d rows, the table holds %d", q, len(got), len(tm.rows))
				}
				// every returned row is a stored row (all values round-trip) and none repeats
				taken := make([]bool, len(tm.rows))
				var seqRows [][]val
				for _, g := range got {
					found := -1
					for k, mr := range tm.rows {
						if taken[k] {
							continue
						}
						ok := true
						for _, i := range all {
							if mr[i].same(g[i]) != nil {
								ok = false
								break
							}
						}
						if ok {
							found = k
							break
						}
					}
					if found < 0 {
						c.Failf(rt, nil, "%s returned row %s that was never stored like this (stored: %s)", q, renderRow(g), renderRows(tm.rows))
					}
					taken[found] = true
					seqRows = append(seqRows, tm.rows[found])
				}
				// and the sequence follows the SQL order of the ORDER BY columns (NULL first)
				for k := 1; k < len(seqRows); k++ {
					if cmp, at := refTupleCmp(project(seqRows[k-1], ord), project(seqRows[k], ord)); cmp > 0 {
						c.Failf(rt, nil, "%s: row %s comes before row %s, but column %s orders them the other way", q, tupleString(seqRows[k-1]), tupleString(seqRows[k]), oc[at])
					}
				}
			}
			_ = oi
		}

		hasVar, hasNull := false, false
		for i, s := range tm.specs {
			hasVar = hasVar || (s.variable() && keyCol[i])
			for _, r := range tm.rows {
				hasNull = hasNull || (r[i].null && keyCol[i])
			}
		}
		if len(tm.pk) > 1 {
			c.Label("composite-pk")
		}
		if len(tm.indexes) > 0 {
			c.Label("secondary-index")
		}
		if hasNull {
			c.Label("null-in-index")
		}
		if hasVar {
			c.Label("var-length-key-col")
		}
		if updates > 0 {
			c.Label("row-updated")
		}
		if usedIndex > 0 {
			c.Label("order-served-by-index")
		}
		if len(tm.rows) > 1 && (len(tm.pk) > 1 || len(tm.indexes) > 0) {
			c.NonTrivial()
		}
	})
}

func sameIndexCols(ix *sql.Index, cols []int) bool {
	ic := ix.Cols()
	if len(ic) != len(cols) {
		return false
	}
	for i, col := range ic {
		if col.Name() != colName(cols[i]) {
			return false
		}
	}
	return true
}

func renderRow(g []sql.TypedValue) string {
	var parts []string
	for _, v := range g {
		if v.IsNull() {
			parts = append(parts, "NULL")
		} else {
			parts = append(parts, fmt.Sprintf("%v", v.RawValue()))
		}
	}
	return "(" + strings.Join(parts, ",") + ")"
}

func renderRows(rows [][]val) string {
	var parts []string
	for _, r := range rows {
		parts = append(parts, tupleString(r))
	}
	return strings.Join(parts, " ")
}

func seq(n int) []int {
	s := make([]int, n)
	for i := range s {
		s[i] = i
	}
	return s
}

func sameInts(a, b []int) bool {
	if len(a) != len(b) {
		return false
	}
	for i := range a {
		if a[i] != b[i] {
			return false
		}
	}
	return true
}

func inInts(a []int, x int) bool {
	for _, y := range a {
		if x == y {
			return true
		}
	}
	return false
}

// ---------------------------------------------------------------------------
// documents: structpb -> SQL row -> structpb

type docField struct {
	name    string
	typ     protomodel.FieldType
	indexed bool
}

func genStructValue(rt *rapid.T, depth int) *structpb.Value {
	kinds := []string{"num", "str", "bool", "null"}
	if depth > 0 {
		kinds = append(kinds, "list", "struct")
	}
	switch rapid.SampledFrom(kinds).Draw(rt, "svKind") {
	case "num":
		f := genFloat(rt, false)
		return structpb.NewNumberValue(f)
	case "str":
		return structpb.NewStringValue(genJSONString(rt))
	case "bool":
		return structpb.NewBoolValue(rapid.Bool().Draw(rt, "svBool"))
	case "null":
		return structpb.NewNullValue()
	case "list":
		n := rapid.IntRange(0, 3).Draw(rt, "svListLen")
		l := &structpb.ListValue{}
		for i := 0; i < n; i++ {
			l.Values = append(l.Values, genStructValue(rt, depth-1))
		}
		return structpb.NewListValue(l)
	default:
		n := rapid.IntRange(0, 3).Draw(rt, "svStructLen")
		s := &structpb.Struct{Fields: map[string]*structpb.Value{}}
		for i := 0; i < n; i++ {
			s.Fields[fmt.Sprintf("n%d", i)] = genStructValue(rt, depth-1)
		}
		return structpb.NewStructValue(s)
	}
}

func genFieldValue(rt *rapid.T, f docField) *structpb.Value {
	switch f.typ {
	case protomodel.FieldType_STRING:
		s := string(genBytes(rt, 12))
		if !utf8.ValidString(s) { // protobuf strings are UTF-8
			s = hex.EncodeToString([]byte(s))
		}
		return structpb.NewStringValue(s)
	case protomodel.FieldType_INTEGER:
		i := genInt(rt)
		if i > 1<<53 || i < -(1<<53) {
			i >>= 11
		}
		return structpb.NewNumberValue(float64(i))
	case protomodel.FieldType_DOUBLE:
		x := genFloat(rt, false)
		if math.IsInf(x, 0) {
			x = math.Copysign(math.MaxFloat64, x)
		}
		if f.indexed && x == 0 && math.Signbit(x) && vk.Excluded(kfK6) {
			vk.CountExcluded(kfK6)
			x = 0
		}
		return structpb.NewNumberValue(x)
	case protomodel.FieldType_BOOLEAN:
		return structpb.NewBoolValue(rapid.Bool().Draw(rt, "fvBool"))
	default:
		return structpb.NewStringValue(genUUID(rt).String())
	}
}

func readDocs(ctx context.Context, e *document.Engine, q *protomodel.Query) (map[string]*structpb.Struct, error) {
	r, err := e.GetDocuments(ctx, q, 0)
	if err != nil {
		return nil, err
	}
	defer r.Close()
	out := map[string]*structpb.Struct{}
	for {
		d, err := r.Read(ctx)
		if errors.Is(err, document.ErrNoMoreDocuments) {
			return out, nil
		}
		if err != nil {
			return nil, err
		}
		if _, dup := out[d.DocumentId]; dup {
			return nil, fmt.Errorf("document %s returned twice", d.DocumentId)
		}
		out[d.DocumentId] = d.Document
	}
}

func TestDocumentRoundTrip(t *testing.T) {
	ctx := context.Background()
	types := []protomodel.FieldType{protomodel.FieldType_STRING, protomodel.FieldType_INTEGER, protomodel.FieldType_DOUBLE, protomodel.FieldType_BOOLEAN, protomodel.FieldType_UUID}
	vk.Check(t, 800, 4800, func(rt *rapid.T, c *vk.Case) {
		nf := rapid.IntRange(1, 4).Draw(rt, "nfields")
		var fields []docField
		var pf []*protomodel.Field
		var pi []*protomodel.Index
		for i := 0; i < nf; i++ {
			f := docField{name: fmt.Sprintf("f%d", i), typ: rapid.SampledFrom(types).Draw(rt, "ftype"), indexed: rapid.Bool().Draw(rt, "indexed")}
			fields = append(fields, f)
			pf = append(pf, &protomodel.Field{Name: f.name, Type: f.typ})
			if f.indexed {
				pi = append(pi, &protomodel.Index{Fields: []string{f.name}})
			}
			c.Descf("%s:%s:%v", f.name, f.typ, f.indexed)
		}
		dir := vk.Dir()
		defer removeAll(dir)
		st, err := store.Open(dir, store.DefaultOptions().WithAHTOptions(store.DefaultAHTOptions().WithWriteBufferSize(1<<16)).WithWriteBufferSize(1<<16).WithMultiIndexing(true).WithSynced(false).WithLogger(quiet))
		if err != nil {
			c.Failf(rt, nil, "open store: %v", err)
		}
		defer st.Close()
		e, err := document.NewEngine(st, document.DefaultOptions().WithPrefix([]byte{3}))
		if err != nil {
			c.Failf(rt, nil, "document.NewEngine: %v", err)
		}
		if err := e.CreateCollection(ctx, "u", "col", "", pf, pi); err != nil {
			c.Failf(rt, nil, "CreateCollection: %v", err)
		}

		ndocs := rapid.IntRange(1, 6).Draw(rt, "ndocs")
		want := map[string]*structpb.Struct{}
		var ids []string
		nested, missing, nulls := 0, 0, 0
		for d := 0; d < ndocs; d++ {
			doc := &structpb.Struct{Fields: map[string]*structpb.Value{}}
			for _, f := range fields {
				switch rapid.SampledFrom([]string{"set", "set", "set", "set", "missing", "null"}).Draw(rt, "fieldPresence") {
				case "set":
					if len(ids) > 0 && pct(rt, "reuse", 30) {
						// same value as an earlier document: equality queries with several hits
						if v, ok := want[ids[0]].Fields[f.name]; ok {
							doc.Fields[f.name] = proto.Clone(v).(*structpb.Value)
							break
						}
					}
					doc.Fields[f.name] = genFieldValue(rt, f)
				case "null":
					doc.Fields[f.name] = structpb.NewNullValue()
					nulls++
				default:
					missing++
				}
			}
			for x := 0; x < rapid.IntRange(0, 3).Draw(rt, "nextra"); x++ {
				v := genStructValue(rt, 2)
				doc.Fields[fmt.Sprintf("x%d", x)] = v
				if v.GetStructValue() != nil || v.GetListValue() != nil {
					nested++
				}
			}
			sent := proto.Clone(doc).(*structpb.Struct)
			if sent.Fields == nil {
				sent.Fields = map[string]*structpb.Value{}
			}
			db, _ := proto.MarshalOptions{Deterministic: true}.Marshal(sent)
			c.Descf("doc=%x", db)
			_, id, err := e.InsertDocument(ctx, "u", "col", doc)
			if err != nil {
				c.Failf(rt, nil, "InsertDocument(%v): %v", sent, err)
			}
			hexID := id.EncodeToHexString()
			sent.Fields["_id"] = structpb.NewStringValue(hexID)
			want[hexID] = sent
			ids = append(ids, hexID)
			if back, err := document.NewDocumentIDFromHexEncodedString(hexID); err != nil || !bytes.Equal(back, id) {
				c.Failf(rt, nil, "document id %x does not round-trip through its hex form (%v)", []byte(id), err)
			}
		}

		got, err := readDocs(ctx, e, &protomodel.Query{CollectionName: "col"})
		if err != nil {
			c.Failf(rt, nil, "GetDocuments: %v", err)
		}
		if len(got) != len(want) {
			c.Failf(rt, nil, "collection returns %d documents, %d were inserted", len(got), len(want))
		}
		for id, w := range want {
			g, ok := got[id]
			if !ok || !proto.Equal(g, w) {
				c.Failf(rt, nil, "document %s comes back as %v, inserted %v", id, g, w)
			}
		}

		// the typed SQL columns behind the fields hold the converted values (structpb -> SQL row)
		se, err := sql.NewEngine(st, sql.DefaultOptions().WithPrefix([]byte{3}).WithLazyIndexConstraintValidation(true))
		if err != nil {
			c.Failf(rt, nil, "sql.NewEngine over the collection store: %v", err)
		}
		cols := []string{"_id"}
		for _, f := range fields {
			cols = append(cols, f.name)
		}
		rr, err := se.Query(ctx, nil, "SELECT "+strings.Join(cols, ", ")+" FROM col", nil)
		if err != nil {
			c.Failf(rt, nil, "SELECT over the collection table: %v", err)
		}
		nrows := 0
		for {
			row, err := rr.Read(ctx)
			if errors.Is(err, sql.ErrNoMoreRows) {
				break
			}
			if err != nil {
				rr.Close()
				c.Failf(rt, nil, "reading the collection table: %v", err)
			}
			nrows++
			idb, _ := row.ValuesByPosition[0].RawValue().([]byte)
			w, ok := want[hex.EncodeToString(idb)]
			if !ok {
				rr.Close()
				c.Failf(rt, nil, "collection table holds a row with unknown _id %x", idb)
			}
			for i, f := range fields {
				if err := fieldColumn(f, w.Fields[f.name], row.ValuesByPosition[i+1]); err != nil {
					rr.Close()
					c.Failf(rt, nil, "document %x field %s=%v: SQL column holds %v: %v", idb, f.name, w.Fields[f.name], row.ValuesByPosition[i+1].RawValue(), err)
				}
			}
		}
		rr.Close()
		if nrows != len(want) {
			c.Failf(rt, nil, "collection table holds %d rows, %d documents were inserted", nrows, len(want))
		}

		// equality on a typed field goes through the structpb -> SQL conversion (and the field's index)
		f := fields[rapid.IntRange(0, nf-1).Draw(rt, "queryField")]
		probeID := ids[rapid.IntRange(0, len(ids)-1).Draw(rt, "queryDoc")]
		if pv, ok := want[probeID].Fields[f.name]; ok {
			if _, isNull := pv.Kind.(*structpb.Value_NullValue); !isNull {
				q := &protomodel.Query{CollectionName: "col", Expressions: []*protomodel.QueryExpression{{FieldComparisons: []*protomodel.FieldComparison{{Field: f.name, Operator: protomodel.ComparisonOperator_EQ, Value: pv}}}}}
				hits, err := readDocs(ctx, e, q)
				if err != nil {
					c.Failf(rt, nil, "query %s == %v: %v", f.name, pv, err)
				}
				var exp []string
				for id, w := range want {
					if v, ok := w.Fields[f.name]; ok && structEq(f, v, pv) {
						exp = append(exp, id)
					}
				}
				var gotIDs []string
				for id := range hits {
					gotIDs = append(gotIDs, id)
				}
				sort.Strings(exp)
				sort.Strings(gotIDs)
				if !reflect.DeepEqual(exp, gotIDs) {
					c.Failf(rt, nil, "query %s == %v (indexed=%v) returns %v, want %v", f.name, pv, f.indexed, gotIDs, exp)
				}
				c.Label("eq-query")
				if len(exp) > 1 {
					c.Label("eq-query-several-hits")
				}
				if f.indexed {
					c.Label("eq-query-indexed-field")
				}
			}
		}
		if nested > 0 {
			c.Label("nested-values")
		}
		if missing > 0 {
			c.Label("missing-field")
		}
		if nulls > 0 {
			c.Label("null-field")
		}
		if nested > 0 || missing > 0 || nulls > 0 || ndocs > 1 {
			c.NonTrivial()
		}
	})
}

// fieldColumn: the SQL column of a typed field holds the converted structpb value.
func fieldColumn(f docField, v *structpb.Value, col sql.TypedValue) error {
	if v == nil {
		if !col.IsNull() {
			return errors.New("field is missing, column is not NULL")
		}
		return nil
	}
	if _, isNull := v.Kind.(*structpb.Value_NullValue); isNull {
		if !col.IsNull() {
			return errors.New("field is null, column is not NULL")
		}
		return nil
	}
	if col.IsNull() {
		return errors.New("column is NULL")
	}
	switch f.typ {
	case protomodel.FieldType_STRING:
		if x, ok := col.RawValue().(string); !ok || x != v.GetStringValue() {
			return errors.New("want the same string")
		}
	case protomodel.FieldType_INTEGER:
		if x, ok := col.RawValue().(int64); !ok || x != int64(v.GetNumberValue()) {
			return fmt.Errorf("want %d", int64(v.GetNumberValue()))
		}
	case protomodel.FieldType_DOUBLE:
		x, ok := col.RawValue().(float64)
		if !ok || (math.Float64bits(x) != math.Float64bits(v.GetNumberValue()) && !(x == 0 && v.GetNumberValue() == 0)) {
			return errors.New("want the same float")
		}
	case protomodel.FieldType_BOOLEAN:
		if x, ok := col.RawValue().(bool); !ok || x != v.GetBoolValue() {
			return errors.New("want the same boolean")
		}
	default:
		u, err := uuid.Parse(v.GetStringValue())
		if x, ok := col.RawValue().(uuid.UUID); !ok || err != nil || x != u {
			return fmt.Errorf("want %v", u)
		}
	}
	return nil
}

// structEq: equality of two values of a typed field as SQL sees them.
func structEq(f docField, a, b *structpb.Value) bool {
	if _, isNull := a.Kind.(*structpb.Value_NullValue); isNull {
		return false
	}
	switch f.typ {
	case protomodel.FieldType_STRING:
		return a.GetStringValue() == b.GetStringValue()
	case protomodel.FieldType_INTEGER:
		return int64(a.GetNumberValue()) == int64(b.GetNumberValue())
	case protomodel.FieldType_DOUBLE:
		return a.GetNumberValue() == b.GetNumberValue()
	case protomodel.FieldType_BOOLEAN:
		return a.GetBoolValue() == b.GetBoolValue()
	default:
		x, err1 := uuid.Parse(a.GetStringValue())
		y, err2 := uuid.Parse(b.GetStringValue())
		return err1 == nil && err2 == nil && x == y
	}
}
