package c07

import (
	"context"
	"encoding/binary"
	"fmt"
	"os"

	"github.com/codenotary/immudb/embedded/logger"
	"github.com/codenotary/immudb/embedded/store"

	"verif/internal/stx"
	"verif/internal/vk"
)

func probeOpts() *store.Options {
	return store.DefaultOptions().WithLogger(logger.NewMemoryLoggerWithLevel(logger.LogError)).WithSynced(false).
		WithMaxConcurrency(3).WithMaxTxEntries(16).WithMaxKeyLen(64).WithMaxValueLen(256).
		WithIndexOptions(store.DefaultIndexOptions().WithCacheSize(16)).
		WithAHTOptions(store.DefaultAHTOptions().WithWriteBufferSize(4096))
}

// probeUnbound: an export whose timestamp was changed is accepted by ReplicateTx with integrity checks on; the
// replica then holds a transaction with another Alh than the primary's and refuses the primary's next transaction.
func probeUnbound() (bool, string) {
	dir := vk.Dir()
	defer os.RemoveAll(dir)
	p, err := store.Open(dir+"/p", probeOpts())
	if err != nil {
		return false, ""
	}
	defer p.Close()
	r, err := store.Open(dir+"/r", probeOpts())
	if err != nil {
		return false, ""
	}
	defer r.Close()
	var blobs [][]byte
	var alhs [][32]byte
	for i := 0; i < 2; i++ {
		hdr, err := commitTx(p, entriesOf(fmt.Sprintf("k%d", i), "v"), nil)
		if err != nil {
			return false, ""
		}
		b, err := p.ExportTx(hdr.ID, false, false, store.NewTx(16, 64))
		if err != nil {
			return false, ""
		}
		blobs = append(blobs, b)
		alhs = append(alhs, hdr.Alh())
	}
	forged := append([]byte(nil), blobs[0]...)
	// hdrLen(4) id(8) prevAlh(32) ts(8): one second later
	ts := binary.BigEndian.Uint64(forged[44:])
	binary.BigEndian.PutUint64(forged[44:], ts+1)
	hdr, err := r.ReplicateTx(context.Background(), forged, false, false)
	if err != nil {
		return false, ""
	}
	_, err2 := r.ReplicateTx(context.Background(), blobs[1], false, false)
	return hdr.Alh() != alhs[0], fmt.Sprintf("export of tx 1 with ts+1 accepted (skipIntegrityCheck=false): replica Alh %x, primary Alh %x; the primary's tx 2 is then refused: %v", hdr.Alh(), alhs[0], err2)
}

// probeZeroEntry: a transaction with truncation metadata and no entries (what pkg/database CopySQLCatalog commits on a
// database without SQL tables / collections when the truncator runs) is exported by the primary and refused by a replica.
func probeZeroEntry() (bool, string) {
	dir := vk.Dir()
	defer os.RemoveAll(dir)
	p, err := store.Open(dir+"/p", probeOpts())
	if err != nil {
		return false, ""
	}
	defer p.Close()
	r, err := store.Open(dir+"/r", probeOpts())
	if err != nil {
		return false, ""
	}
	defer r.Close()
	ctx := context.Background()
	h1, err := commitTx(p, entriesOf("k", "v"), nil)
	if err != nil {
		return false, ""
	}
	tx, _ := p.NewWriteOnlyTx(ctx)
	tx.WithMetadata(store.NewTxMetadata().WithTruncatedTxID(1))
	h2, err := tx.AsyncCommit(ctx)
	if err != nil {
		return false, "" // the primary refuses such a transaction: nothing to replicate
	}
	holder := store.NewTx(16, 64)
	for _, id := range []uint64{h1.ID, h2.ID} {
		b, err := p.ExportTx(id, false, false, holder)
		if err != nil {
			return true, fmt.Sprintf("ExportTx(%d) of the committed zero-entry tx: %v", id, err)
		}
		if _, err := r.ReplicateTx(ctx, b, false, false); err != nil {
			return true, fmt.Sprintf("primary committed tx %d (truncation marker, 0 entries); its honest export is refused by the replica: %v", id, err)
		}
	}
	return false, ""
}

// probeEmbeddedReopen: a replica with embedded values and external commit allowance loses transactions it
// acknowledged as durably precommitted when it is closed and reopened before they are committed.
func probeEmbeddedReopen() (bool, string) {
	dir := vk.Dir()
	defer os.RemoveAll(dir)
	p, err := store.Open(dir+"/p", probeOpts())
	if err != nil {
		return false, ""
	}
	defer p.Close()
	ropts := func() *store.Options {
		return probeOpts().WithEmbeddedValues(true).WithMaxIOConcurrency(1).WithExternalCommitAllowance(true)
	}
	r, err := store.Open(dir+"/r", ropts())
	if err != nil {
		return false, ""
	}
	ctx := context.Background()
	holder := store.NewTx(16, 64)
	for i := 0; i < 3; i++ {
		hdr, err := commitTx(p, entriesOf(fmt.Sprintf("k%d", i), fmt.Sprintf("value-%d", i)), nil)
		if err != nil {
			r.Close()
			return false, ""
		}
		b, err := p.ExportTx(hdr.ID, false, false, holder)
		if err != nil {
			r.Close()
			return false, ""
		}
		if _, err := r.ReplicateTx(ctx, b, false, false); err != nil {
			r.Close()
			return false, ""
		}
	}
	if err := r.AllowCommitUpto(1); err != nil {
		r.Close()
		return false, ""
	}
	before, _ := r.PrecommittedAlh()
	if err := r.Close(); err != nil {
		return false, ""
	}
	r, err = store.Open(dir+"/r", ropts())
	if err != nil {
		return true, "reopen of the replica failed: " + err.Error()
	}
	defer r.Close()
	after, _ := r.PrecommittedAlh()
	if after < before {
		return true, fmt.Sprintf("replica (EmbeddedValues, external commit allowance): 3 txs replicated (durably precommitted), 1 committed; after Close+Open PrecommittedAlh id = %d (was %d)", after, before)
	}
	return false, ""
}

func entriesOf(k, v string) []stx.Entry { return []stx.Entry{{Key: []byte(k), Value: []byte(v)}} }

// probeStaleBlRoot: tx 1 precommitted again after DiscardPrecommittedTxsSince(1) is stored with the BlRoot left in the
// pooled tx holder by an earlier transaction (performPrecommit sets BlRoot only when BlTxID > 0).
func probeStaleBlRoot() (bool, string) {
	dir := vk.Dir()
	defer os.RemoveAll(dir)
	p, err := store.Open(dir+"/p", probeOpts())
	if err != nil {
		return false, ""
	}
	defer p.Close()
	r, err := store.Open(dir+"/r", probeOpts().WithExternalCommitAllowance(true))
	if err != nil {
		return false, ""
	}
	defer r.Close()
	ctx := context.Background()
	holder := store.NewTx(16, 64)
	var blobs [][]byte
	var alh1 [32]byte
	for i := 0; i < 3; i++ {
		hdr, err := commitTx(p, entriesOf(fmt.Sprintf("k%d", i), fmt.Sprintf("value-%d", i)), nil)
		if err != nil {
			return false, ""
		}
		if i == 0 {
			alh1 = hdr.Alh()
		}
		b, err := p.ExportTx(hdr.ID, false, false, holder)
		if err != nil {
			return false, ""
		}
		blobs = append(blobs, b)
	}
	for round := 0; round < 4; round++ {
		for _, b := range blobs {
			if _, err := r.ReplicateTx(ctx, b, false, false); err != nil {
				return false, ""
			}
		}
		if _, err := r.DiscardPrecommittedTxsSince(1); err != nil {
			return false, ""
		}
		hdr, err := r.ReplicateTx(ctx, blobs[0], false, false)
		if err != nil {
			return true, fmt.Sprintf("txs 1-3 replicated, DiscardPrecommittedTxsSince(1), the honest export of tx 1 is refused: %v", err)
		}
		if hdr.Alh() != alh1 {
			_, err2 := r.ReplicateTx(ctx, blobs[1], false, false)
			return true, fmt.Sprintf("txs 1-3 replicated, DiscardPrecommittedTxsSince(1), honest tx 1 replicated again: stored with BlTxID=%d BlRoot=%x (primary: zero), Alh %x instead of %x; the primary's tx 2 is then refused: %v",
				hdr.BlTxID, hdr.BlRoot[:8], hdr.Alh(), alh1, err2)
		}
		if _, err := r.DiscardPrecommittedTxsSince(1); err != nil {
			return false, ""
		}
	}
	return false, ""
}
