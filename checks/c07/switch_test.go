package c07

import (
	"bytes"
	"context"
	"fmt"
	"os"
	"strings"
	"testing"
	"time"

	"github.com/codenotary/immudb/embedded/store"
	"github.com/codenotary/immudb/pkg/api/schema"
	"github.com/codenotary/immudb/pkg/database"
	"pgregory.net/rapid"

	"verif/internal/vk"
)

// ---------------------------------------------------------------------------
// pkg/database level, synchronous replication with a PRIMARY SWITCH: a replica holds
// precommitted-but-uncommitted transactions of an old primary that went away before committing
// them; another replica is promoted and commits its own transactions under the same ids. The
// stale replica then follows the new primary through the replicator's loop played by the harness
// (ExportTxByID with its state, discard on "replica precommit state diverged", AllowCommitUpto,
// ReplicateTx). It must never commit anything the primary it follows did not commit, and it must
// converge to the new primary's history.

type follower struct {
	uuid    string
	primary database.DB
	replica database.DB
	name    string

	discards int
	checked  uint64 // committed ids of the replica already compared with the primary
}

var errFatalDiverged = fmt.Errorf("replica commit state diverged from primary's (the replicator stops)")

// step is one iteration of TxReplicator.fetchNextTx followed by replicateSingleTx (allowTxDiscarding = true).
func (f *follower) step() error {
	ctx := context.Background()
	st, err := f.replica.CurrentState()
	if err != nil {
		return err
	}
	req := &schema.ExportTxRequest{
		Tx:                st.PrecommittedTxId + 1,
		AllowPreCommitted: true,
		ReplicaState: &schema.ReplicaState{UUID: f.uuid, CommittedTxID: st.TxId, CommittedAlh: st.TxHash,
			PrecommittedTxID: st.PrecommittedTxId, PrecommittedAlh: st.PrecommittedTxHash},
	}
	bs, upto, alh, err := f.primary.ExportTxByID(ctx, req)
	if err != nil {
		switch {
		case strings.Contains(err.Error(), "replica commit state diverged from primary"):
			return errFatalDiverged
		case strings.Contains(err.Error(), "replica precommit state diverged from primary"):
			if derr := f.replica.DiscardPrecommittedTxsSince(st.TxId + 1); derr != nil {
				return fmt.Errorf("DiscardPrecommittedTxsSince(%d) after %q: %w", st.TxId+1, err, derr)
			}
			f.discards++
			return nil
		}
		return fmt.Errorf("ExportTxByID(tx %d, replica committed %d precommitted %d): %w", req.Tx, st.TxId, st.PrecommittedTxId, err)
	}
	if upto > st.TxId {
		if err := f.replica.AllowCommitUpto(upto, alh); err != nil {
			if strings.Contains(err.Error(), "replica commit state diverged from") {
				return errFatalDiverged
			}
			return fmt.Errorf("AllowCommitUpto(%d): %w", upto, err)
		}
	}
	if len(bs) > 0 {
		_, err := f.replica.ReplicateTx(ctx, bs, false, false)
		if err != nil && !strings.Contains(err.Error(), "tx already committed") &&
			!strings.Contains(err.Error(), store.ErrMaxActiveTransactionsLimitExceeded.Error()) && !strings.Contains(err.Error(), store.ErrBufferIsFull.Error()) {
			// the replicator retries for ever; a refusal of the primary's own export for another reason never heals
			return fmt.Errorf("ReplicateTx of the primary's tx %d refused: %w", req.Tx, err)
		}
	}
	return nil
}

func alhOfTx(db database.DB, id uint64) ([32]byte, error) {
	tx, err := db.TxByID(context.Background(), &schema.TxRequest{Tx: id})
	if err != nil {
		return [32]byte{}, err
	}
	return schema.TxHeaderFromProto(tx.Header).Alh(), nil
}

// onlyPrimaryHistory: everything the replica reports committed is what the primary it follows committed.
func (f *follower) onlyPrimaryHistory(rt *rapid.T, c *vk.Case, when string) {
	rs, err := f.replica.CurrentState()
	if err != nil {
		c.Failf(rt, nil, "%s CurrentState: %v", f.name, err)
	}
	ps, err := f.primary.CurrentState()
	if err != nil {
		c.Failf(rt, nil, "primary CurrentState: %v", err)
	}
	if rs.TxId > ps.TxId {
		c.Failf(rt, nil, "%s: %s reports tx %d committed, the primary it follows committed only %d", when, f.name, rs.TxId, ps.TxId)
	}
	if rs.TxId > 0 {
		palh, err := alhOfTx(f.primary, rs.TxId)
		if err != nil {
			c.Failf(rt, nil, "%s: primary TxByID(%d): %v", when, rs.TxId, err)
		}
		if !bytes.Equal(palh[:], rs.TxHash) {
			c.Failf(rt, nil, "%s: %s committed state is (%d, %x); the primary it follows committed tx %d with Alh %x: the replica committed a transaction no primary committed",
				when, f.name, rs.TxId, rs.TxHash, rs.TxId, palh)
		}
	}
	for id := f.checked + 1; id <= rs.TxId; id++ {
		palh, err1 := alhOfTx(f.primary, id)
		ralh, err2 := alhOfTx(f.replica, id)
		if err1 != nil || err2 != nil {
			c.Failf(rt, nil, "%s: TxByID(%d): primary err=%v, %s err=%v", when, id, err1, f.name, err2)
		}
		if palh != ralh {
			c.Failf(rt, nil, "%s: tx %d committed on %s (Alh %x) is not the tx %d committed by the primary it follows (Alh %x)", when, id, f.name, ralh, id, palh)
		}
		f.checked = id
	}
}

func TestSyncReplicationPrimarySwitch(t *testing.T) {
	vk.Check(t, 64, 1200, func(rt *rapid.T, c *vk.Case) {
		root := vk.Dir()
		defer os.RemoveAll(root)
		nOld := rapid.IntRange(2, 3).Draw(rt, "oldReplicas")
		before := rapid.IntRange(0, 4).Draw(rt, "txsBeforeSwitch")
		stale := rapid.IntRange(1, 3).Draw(rt, "stalePrecommitted")
		// how far the new primary gets: mostly beyond the stale replica's precommitted id
		adv := stale + rapid.IntRange(1, 3).Draw(rt, "beyond")
		if rapid.IntRange(0, 4).Draw(rt, "notBeyond") == 0 {
			adv = rapid.IntRange(1, stale).Draw(rt, "advance")
		}
		staleIdx := rapid.IntRange(0, nOld-1).Draw(rt, "staleReplica")
		promIdx := (staleIdx + 1 + rapid.IntRange(0, nOld-2).Draw(rt, "promoted")) % nOld
		joinAfter := rapid.IntRange(0, adv).Draw(rt, "staleJoinsAfter") // new-primary txs committed before the stale replica connects
		if rapid.IntRange(0, 2).Draw(rt, "joinAtEnd") > 0 {
			joinAfter = adv
		}
		synced := rapid.IntRange(0, 3).Draw(rt, "synced") == 0
		embedded := rapid.Bool().Draw(rt, "embeddedValues")
		mat := rapid.SampledFrom([]int{16, 1000}).Draw(rt, "maxActiveTx")
		c.Descf("old=%d before=%d stale=%d adv=%d staleReplica=%d promoted=%d joinAfter=%d synced=%v emb=%v mat=%d", nOld, before, stale, adv, staleIdx, promIdx, joinAfter, synced, embedded, mat)
		sopts := func() *store.Options {
			o := store.DefaultOptions().WithSynced(synced).WithSyncFrequency(time.Millisecond).
				WithMaxConcurrency(8).WithMaxTxEntries(32).WithMaxKeyLen(64).WithMaxValueLen(256).
				WithMaxActiveTransactions(mat).WithEmbeddedValues(embedded).WithMaxWaitees(64).
				WithIndexOptions(store.DefaultIndexOptions().WithCacheSize(32).WithMaxActiveSnapshots(20)).
				WithAHTOptions(store.DefaultAHTOptions().WithWriteBufferSize(4096))
			if embedded {
				o.WithMaxIOConcurrency(1)
			}
			return o
		}
		var dbs []database.DB
		defer func() {
			for _, d := range dbs {
				d.Close()
			}
		}()
		newDB := func(name string, replica bool, acks int) database.DB {
			o := database.DefaultOptions().WithDBRootPath(root).WithStoreOptions(sopts()).AsReplica(replica).WithSyncReplication(true).WithSyncAcks(acks)
			d, err := database.NewDB(name, nil, o, quietLog())
			if err != nil {
				c.Failf(rt, nil, "NewDB(%s): %v", name, err)
			}
			dbs = append(dbs, d)
			return d
		}
		// the old primary needs the acknowledgement of every old replica: transactions that reach only the stale one stay uncommitted
		A := newDB("a", false, nOld)
		var olds []database.DB
		var fromA []*follower
		for i := 0; i < nOld; i++ {
			r := newDB(fmt.Sprintf("r%d", i), true, 0)
			olds = append(olds, r)
			fromA = append(fromA, &follower{uuid: fmt.Sprintf("uuid-r%d", i), primary: A, replica: r, name: fmt.Sprintf("replica %d", i)})
		}
		setAsync := func(ctx context.Context, d database.DB, k, v string) chan error {
			done := make(chan error, 1)
			go func() {
				var err error
				for attempt := 0; attempt < 2000; attempt++ {
					_, err = d.Set(ctx, &schema.SetRequest{KVs: []*schema.KeyValue{{Key: []byte(k), Value: []byte(v)}}})
					if err != nil && ctx.Err() == nil &&
						(strings.Contains(err.Error(), store.ErrMaxActiveTransactionsLimitExceeded.Error()) || strings.Contains(err.Error(), store.ErrBufferIsFull.Error())) {
						time.Sleep(time.Millisecond)
						continue
					}
					break
				}
				done <- err
			}()
			return done
		}
		// drive runs follower steps until cond holds
		drive := func(what string, fs []*follower, cond func() bool) {
			deadline := time.Now().Add(60 * time.Second)
			for !cond() {
				if time.Now().After(deadline) {
					c.Failf(rt, nil, "%s: no progress within 60s", what)
				}
				for _, f := range fs {
					err := f.step()
					f.onlyPrimaryHistory(rt, c, what) // first: what did the replica commit, whatever the replicator ran into
					if err != nil {
						c.Failf(rt, nil, "%s: %s: %v", what, f.name, err)
					}
				}
			}
		}
		committed := func(d database.DB) uint64 {
			st, err := d.CurrentState()
			if err != nil {
				c.Failf(rt, nil, "CurrentState: %v", err)
			}
			return st.TxId
		}
		precommitted := func(d database.DB) uint64 {
			st, err := d.CurrentState()
			if err != nil {
				c.Failf(rt, nil, "CurrentState: %v", err)
			}
			return st.PrecommittedTxId
		}
		ctx := context.Background()
		// 1. transactions committed everywhere
		for i := 1; i <= before; i++ {
			done := setAsync(ctx, A, fmt.Sprintf("k%d", i), fmt.Sprintf("v%d-common", i))
			id := uint64(i)
			drive("before the switch", fromA, func() bool {
				for _, r := range olds {
					if committed(r) < id {
						return false
					}
				}
				return committed(A) >= id
			})
			if err := <-done; err != nil {
				c.Failf(rt, nil, "Set %d on the old primary: %v", i, err)
			}
		}
		// 2. transactions of the old primary that only reach the stale replica; the old primary goes away
		ctxA, cancelA := context.WithCancel(ctx)
		var pend []chan error
		for j := 1; j <= stale; j++ {
			pend = append(pend, setAsync(ctxA, A, fmt.Sprintf("k%d", before+j), fmt.Sprintf("from-A-%d", j)))
		}
		S := olds[staleIdx]
		want := uint64(before + stale)
		drive("stale phase", []*follower{fromA[staleIdx]}, func() bool { return precommitted(S) >= want })
		cancelA()
		for _, d := range pend {
			if err := <-d; err == nil {
				c.Failf(rt, nil, "a Set on the old primary returned success although only one of %d replicas held the transaction", nOld)
			}
		}
		if got := committed(A); got != uint64(before) {
			c.Failf(rt, nil, "the old primary committed tx %d with the acknowledgement of one of %d replicas", got, nOld)
		}
		if committed(S) != uint64(before) || precommitted(S) != want {
			c.Failf(rt, nil, "stale replica: committed %d precommitted %d, expected %d / %d", committed(S), precommitted(S), before, want)
		}
		// 3. another replica is promoted; a fresh replica acknowledges its writes
		P := olds[promIdx]
		P.AsReplica(false, true, 1)
		fresh := newDB("fresh", true, 0)
		followers := []*follower{{uuid: "uuid-fresh", primary: P, replica: fresh, name: "fresh replica"}}
		for i, r := range olds {
			if i != staleIdx && i != promIdx {
				followers = append(followers, &follower{uuid: fmt.Sprintf("uuid-r%d", i), primary: P, replica: r, name: fmt.Sprintf("replica %d", i), checked: 0})
			}
		}
		sf := &follower{uuid: fmt.Sprintf("uuid-r%d", staleIdx), primary: P, replica: S, name: "stale replica"}
		joined := false
		nontrivial := false
		join := func() {
			if joined {
				return
			}
			joined = true
			ss, _ := S.CurrentState()
			ps, _ := P.CurrentState()
			if ss.PrecommittedTxId > ss.TxId && ss.PrecommittedTxId <= ps.TxId {
				nontrivial = true // the stale tail lies at or below the new primary's commit point
				c.Label("stale-tail-below-new-commit-point")
			}
			if ss.PrecommittedTxId > ps.PrecommittedTxId {
				c.Label("stale-tail-beyond-new-primary")
			}
			followers = append(followers, sf)
		}
		for j := 1; j <= adv; j++ {
			if joinAfter == j-1 {
				join()
			}
			id := uint64(before + j)
			done := setAsync(ctx, P, fmt.Sprintf("k%d", before+j), fmt.Sprintf("from-P-%d", j))
			drive("after the switch", followers, func() bool { return committed(P) >= id && committed(fresh) >= id })
			if err := <-done; err != nil {
				c.Failf(rt, nil, "Set %d on the new primary: %v", j, err)
			}
		}
		join()
		// 4. everybody converges to the new primary's history
		final := uint64(before + adv)
		drive("convergence", followers, func() bool {
			for _, f := range followers {
				if committed(f.replica) < final {
					return false
				}
			}
			return true
		})
		if synced {
			time.Sleep(5 * time.Millisecond) // a pending allowance is applied by the syncer
		}
		ps, _ := P.CurrentState()
		if ps.TxId != final {
			c.Failf(rt, nil, "new primary committed %d, expected %d", ps.TxId, final)
		}
		for _, f := range followers {
			f.onlyPrimaryHistory(rt, c, "final")
			rs, _ := f.replica.CurrentState()
			if rs.TxId != ps.TxId || !bytes.Equal(rs.TxHash, ps.TxHash) {
				c.Failf(rt, nil, "final state of %s (%d, %x) differs from the new primary's (%d, %x)", f.name, rs.TxId, rs.TxHash, ps.TxId, ps.TxHash)
			}
			for i := 1; i <= before+adv; i++ {
				k := []byte(fmt.Sprintf("k%d", i))
				pe, err1 := P.Get(ctx, &schema.KeyRequest{Key: k})
				re, err2 := f.replica.Get(ctx, &schema.KeyRequest{Key: k})
				if err1 != nil || err2 != nil {
					c.Failf(rt, nil, "Get(%s): primary err=%v, %s err=%v", k, err1, f.name, err2)
				}
				if pe.Tx != re.Tx || !bytes.Equal(pe.Value, re.Value) {
					c.Failf(rt, nil, "Get(%s) on %s = (tx %d, %q), the primary it follows has (tx %d, %q)", k, f.name, re.Tx, re.Value, pe.Tx, pe.Value)
				}
				if i > before && !strings.HasPrefix(string(re.Value), "from-P-") {
					c.Failf(rt, nil, "Get(%s) on %s serves %q, a value no primary committed", k, f.name, re.Value)
				}
			}
		}
		if sf.discards > 0 {
			c.Label("stale-replica-discarded")
		}
		if sf.discards == 0 {
			c.Failf(rt, nil, "the stale replica converged without ever discarding its %d precommitted transactions of the old primary", stale)
		}
		if nontrivial {
			c.NonTrivial()
		}
	})
}
