// C07 — replication reproduces exactly the primary's history, nothing else.
package c07

import (
	"bytes"
	"context"
	"crypto/sha256"
	"encoding/binary"
	"errors"
	"fmt"
	"os"
	"sort"
	"strings"
	"sync"
	"testing"
	"time"

	"github.com/codenotary/immudb/embedded/store"
	"pgregory.net/rapid"

	"verif/internal/stx"
	"verif/internal/vk"
)

const (
	kfUnbound   = "K7a-replicated-header-fields-unauthenticated"
	kfZeroEntry = "K7b-zero-entry-tx-not-replicable"
	kfEmbedded  = "K7c-embedded-values-precommitted-lost-on-reopen"
	kfStaleBl   = "K7e-tx1-stale-blroot-after-discard"
)

func TestMain(m *testing.M) {
	vk.Main(m, vk.Config{
		Property: "C07",
		Rule: "store level: a rapid-generated primary history (stx configurations; kv metadata, tx metadata extra bytes / truncation marker, empty and max-length values, " +
			"header v0 and v1 mixed by a primary restart, value-log truncation followed by a second export) is fed to 1-3 replica stores (own generated configuration, with and " +
			"without external commit allowance, synced or not) by a harness-owned schedule: concurrent rounds from 1-4 goroutines (in order, shuffled, duplicated, with gaps, beyond the " +
			"MaxActiveTransactions window, full or digest-only form), structure-aware alterations of the export (every length, count, flag, header field, key/value/metadata byte; forged chain links) " +
			"delivered alone or racing with the honest export, with integrity checks on and off, DiscardPrecommittedTxsSince, " +
			"AllowCommitUpto, close/reopen; every step is followed by the comparison of the replica with the primary. Database level: a primary with synchronous replication (1-3 acks) " +
			"and 1-3 replica databases, the harness playing the replicator step by step while writers block in Set; and a primary switch (generated: transactions before the switch, " +
			"precommitted-only transactions of the old primary held by one stale replica, which replica is promoted, how far the new primary advances, when the stale replica connects), " +
			"the harness playing the replicator including the discard on 'replica precommit state diverged'. " +
			"Concurrent pullers: 2-8 replica stores of one primary, each fed by its own goroutine (ExportTx on the primary, ReplicateTx with retries of the same bytes), some starting empty while others follow the tip, some with skipIntegrityCheck, " +
			"0-2 further export clients and the primary committing multi-entry transactions with small distinct values meanwhile; every export is compared with the committed transaction, a refusal repeated 3 times is a stuck replica, every replica must end with the primary's ids, Alh, entries and values (ReadValue / Get). " +
			"Durable acknowledgement: a synced replica store with external commit allowance on the recording appendables of internal/fsim (slow fsync of the tx log), 1-3 feeders and a poller of PrecommittedAlh: every reported (id, Alh) is the primary's and the tx-log record of id was followed by a completed fsync before the answer was obtained. " +
			"NON-TRIVIAL (store level): the schedule of at least one replica contains >=1 out-of-order or duplicated delivery AND >=1 refused delivery followed by a successful catch-up; " +
			"(database level): at least one step at which fewer than syncAcks replicas held a transaction the primary had precommitted; (durable acknowledgement): at least two distinct durable ids were observed while deliveries were in flight; (concurrent pullers): at least two goroutines export from the primary at the same time; (primary switch): the stale replica's uncommitted tail lies at or below the new primary's commit point when it connects. DISTINCT by hash of (configurations, history shape, schedule).",
		Assumptions: []string{
			"SHA-256 is collision resistant: equal Alh / Eh means equal header and entry digests (values are compared byte by byte in addition)",
			"an export is delivered to ReplicateTx either honest or altered by the harness; with skipIntegrityCheck=true an altered export may be accepted (that is what the flag means): only 'no effect when refused' and the internal consistency of the replica are asserted then, and the replica is treated as diverged",
			"rewriting a full export into its digest-only form (values replaced by their hashes, flag 1) is not generated as an alteration: the format gives a replica no way to tell it from an export of a truncated primary",
			"deliveries that wait for a missing predecessor are bounded by a context timeout chosen by the harness; an error caused by that timeout is not a refusal (the transaction may have been precommitted)",
			"a replica of a replica (re-export of digest-only transactions) is not driven",
			"DiscardPrecommittedTxsSince does not truncate the tx log (documented: 'if the store is reopened some precommitted transactions may be reloaded. Discarding may need to be redone after re-opening the store'): after a restart of a replica that discarded above its committed id the harness acts like the replicator (discards the tail that is not the primary's again, delivers the stream again) and asserts only that the stream is then accepted and the final state is the primary's; transactions precommitted after the discard may be missing after such a restart",
			"out of order / concurrently, an honest export may be refused with errors other than the documented ones (e.g. after a discard the in-memory precommit watcher is not moved back, so a delivery that should wait fails at once): the replicator retries, so only 'a refusal has no effect' and 'in-order delivery on an idle replica succeeds' are asserted",
			"an export refused with 'buffer is full' (window of uncommitted transactions exhausted) has already been written after the last precommitted transaction and is found precommitted after a restart: tolerated, because it is a transaction the replica would have accepted with room in the window (it matters only together with K7a / skipIntegrityCheck)",
			"store level has no live primary: 'a replica commits only after the primary did' and the acknowledgement rule are checked at database level; the database-level tests do not restart a primary and do not alter exports; the promoted replica of the primary-switch scenario holds no uncommitted transaction of the old primary",
			"pkg/replication's replicator and the gRPC stream are only exercised by the thorough-tier smoke run (TestE2EReplicatorSmoke); if loopback sockets are unavailable it is reported as skipped, never as a pass",
			"liveness bounds (60 s per round, 30 s for a commit/indexing to become visible) only guard against hangs; no outcome depends on the wall clock",
		},
		Probes: []vk.Probe{
			{ID: kfUnbound, Present: probeUnbound},
			{ID: kfZeroEntry, Present: probeZeroEntry},
			{ID: kfEmbedded, Present: probeEmbeddedReopen},
			{ID: kfStaleBl, Present: probeStaleBlRoot},
		},
	})
}

var bg = context.Background()

// ---------------------------------------------------------------------------
// primary

type ptx struct {
	id      uint64
	hdr     *store.TxHeader
	alh     [sha256.Size]byte
	entries []stx.Entry
	full    []byte // honest export with the values
	x       *xTx
	digest  []byte // honest export after truncation (digest-only form), nil when the values are still there
	dx      *xTx
}

type primary struct {
	cfg   stx.Cfg
	dir   string
	st    *store.ImmuStore
	txs   []*ptx
	model stx.Model
	hold  *store.Tx
}

func (p *primary) n() uint64 { return uint64(len(p.txs)) }
func (p *primary) hdrOf(id uint64) *store.TxHeader {
	if id == 0 || id > p.n() {
		return nil
	}
	return p.txs[id-1].hdr
}
func (p *primary) alhOf(id uint64) [sha256.Size]byte {
	if id == 0 || id > p.n() {
		return sha256.Sum256(nil) // Alh of the empty history
	}
	return p.txs[id-1].alh
}

func commitTx(st *store.ImmuStore, entries []stx.Entry, md *store.TxMetadata) (*store.TxHeader, error) {
	tx, err := st.NewWriteOnlyTx(bg)
	if err != nil {
		return nil, err
	}
	if md != nil {
		tx.WithMetadata(md)
	}
	for _, e := range entries {
		if err := tx.Set(e.Key, e.MD(), e.Value); err != nil {
			tx.Cancel()
			return nil, err
		}
	}
	return tx.AsyncCommit(bg)
}

type histGen struct {
	rt      *rapid.T
	cfg     *stx.Cfg
	keyPool [][]byte
	ctr     int
	big     bool // mostly values of 60-300 bytes (histories that are truncated)
}

func (g *histGen) key(label string) []byte {
	rt := g.rt
	if len(g.keyPool) > 0 && rapid.IntRange(0, 9).Draw(rt, label+"Reuse") < 5 {
		return g.keyPool[rapid.IntRange(0, len(g.keyPool)-1).Draw(rt, label+"Idx")]
	}
	var k []byte
	switch rapid.IntRange(0, 11).Draw(rt, label+"Shape") {
	case 0:
		k = bytes.Repeat([]byte("z"), g.cfg.MaxKeyLen)
		k[len(k)-1] = byte('a' + rapid.IntRange(0, 3).Draw(rt, label+"Sfx"))
	case 1:
		k = append(bytes.Repeat([]byte("p"), 40), byte('a'+rapid.IntRange(0, 5).Draw(rt, label+"Sfx")))
	case 2:
		k = []byte{byte(rapid.IntRange(0, 255).Draw(rt, label+"Bin")), 0, 0xff}
	default:
		k = []byte(rapid.StringMatching(`[a-d]{1,3}`).Draw(rt, label+"Body"))
	}
	g.keyPool = append(g.keyPool, k)
	return k
}

func (g *histGen) entry(i int) stx.Entry {
	rt := g.rt
	en := stx.Entry{Key: g.key(fmt.Sprintf("k%d", i))}
	g.ctr++
	vshape := rapid.IntRange(0, 11).Draw(rt, "vshape")
	if g.big && vshape != 0 {
		en.Value = bytes.Repeat([]byte{byte('a' + g.ctr%26)}, rapid.IntRange(60, 300).Draw(rt, "bigLen"))
		copy(en.Value, fmt.Sprintf("v%d-", g.ctr))
		vshape = -1
	}
	switch vshape {
	case -1:
	case 0, 1:
		en.Value = []byte{}
	case 2:
		en.Value = bytes.Repeat([]byte{byte('A' + g.ctr%26)}, g.cfg.MaxValueLen)
	case 3:
		en.Value = bytes.Repeat([]byte{byte('a' + g.ctr%26)}, 32) // as long as a digest
	default:
		en.Value = []byte(fmt.Sprintf("v%d-%s", g.ctr, rapid.StringMatching(`[0-9]{0,12}`).Draw(rt, "val")))
		if len(en.Value) > g.cfg.MaxValueLen {
			en.Value = en.Value[:g.cfg.MaxValueLen]
		}
	}
	if g.cfg.HdrVersion == 0 {
		return en // header version 0 cannot carry metadata
	}
	switch rapid.IntRange(0, 9).Draw(rt, "md") {
	case 0:
		en.Deleted = true
	case 1:
		en.Expire = 1
	case 2:
		en.Expire = 2
	case 3:
		en.NonIndexable = true
	case 4:
		en.Deleted, en.Expire, en.NonIndexable = true, 2, true
	}
	return en
}

func openStore(dir string, cfg stx.Cfg) (*store.ImmuStore, error) {
	return store.Open(dir, cfg.Options().WithMaxWaitees(64))
}

// genPrimary builds the primary's history and the honest exports of every transaction.
func genPrimary(rt *rapid.T, c *vk.Case) *primary {
	p := &primary{cfg: stx.GenCfg(rt), dir: vk.Dir()}
	p.cfg.Synced = false // the primary's durability is not under test
	p.cfg.ExternalAllow = false
	truncate := !p.cfg.Embedded && rapid.IntRange(0, 2).Draw(rt, "truncation") == 0
	if truncate {
		// small chunks and values that fill them, so that whole chunks lie below the truncation point
		p.cfg.FileSize = rapid.SampledFrom([]int{256, 512}).Draw(rt, "truncFileSize")
		p.cfg.IOConc = 1 + rapid.IntRange(0, 3).Draw(rt, "truncIOConc")/3
		if p.cfg.MaxValueLen < 512 {
			p.cfg.MaxValueLen = 512
		}
		if p.cfg.WriteBuf > 512 {
			p.cfg.WriteBuf = 512 // with a write buffer larger than the history no chunk is ever written before the truncation
		}
		if rapid.IntRange(0, 2).Draw(rt, "truncNoValueCache") > 0 {
			p.cfg.VLogCache = 0 // a cached value is exported in full even when its chunk is gone
		}
	}
	maxTx := 12
	if vk.Thorough() {
		maxTx = 30
	}
	minTx := 2
	if truncate {
		minTx = 5
	}
	n := rapid.IntRange(minTx, maxTx).Draw(rt, "nTx")
	flipAt := -1
	if rapid.IntRange(0, 2).Draw(rt, "mixVersions") == 0 {
		flipAt = rapid.IntRange(1, n-1).Draw(rt, "flipAt")
	}
	fail := func(format string, args ...any) {
		p.close()
		c.Failf(rt, nil, format, args...)
	}
	var err error
	if p.st, err = openStore(p.dir, p.cfg); err != nil {
		fail("open primary: %v", err)
	}
	p.hold = store.NewTx(p.cfg.MaxTxEntries, p.cfg.MaxKeyLen)
	g := &histGen{rt: rt, cfg: &p.cfg, big: truncate}
	shape := ""
	for i := 0; i < n; i++ {
		if i == flipAt {
			if err := p.st.Close(); err != nil {
				fail("close primary: %v", err)
			}
			p.cfg.HdrVersion = 1 - p.cfg.HdrVersion
			if p.st, err = openStore(p.dir, p.cfg); err != nil {
				fail("reopen primary: %v", err)
			}
			shape += "|"
			c.Label("primary-mixes-header-v0-v1")
		}
		ne := 1
		switch rapid.IntRange(0, 5).Draw(rt, "nEntries") {
		case 0:
			ne = rapid.IntRange(2, 5).Draw(rt, "n")
		case 1:
			max := p.cfg.MaxTxEntries
			if max > 24 {
				max = 24
			}
			ne = rapid.IntRange(2, max).Draw(rt, "nBig")
		}
		var es []stx.Entry
		for j := 0; j < ne; j++ {
			es = append(es, g.entry(j))
		}
		es = stx.Dedup(es)
		var md *store.TxMetadata
		if p.cfg.HdrVersion == 1 && rapid.IntRange(0, 19).Draw(rt, "zeroEntryTx") == 0 {
			// a transaction with a truncation marker and no entries: what pkg/database commits before truncating a
			// database without SQL catalog
			if vk.Excluded(kfZeroEntry) {
				vk.CountExcluded(kfZeroEntry) // known finding: replicas refuse it; an ordinary transaction is generated instead
			} else {
				es = nil
				md = store.NewTxMetadata().WithTruncatedTxID(uint64(i + 1))
				c.Label("zero-entry-tx")
			}
		}
		if p.cfg.HdrVersion == 1 && md == nil {
			switch rapid.IntRange(0, 7).Draw(rt, "txmd") {
			case 0:
				md = store.NewTxMetadata()
				md.WithExtra([]byte(fmt.Sprintf("extra-%d", i)))
			case 1:
				md = store.NewTxMetadata()
				md.WithExtra(bytes.Repeat([]byte{0xEE}, 256))
			case 2:
				md = store.NewTxMetadata().WithTruncatedTxID(uint64(i + 1))
				if rapid.Bool().Draw(rt, "both") {
					md.WithExtra([]byte{1, 2, 3})
				}
			}
		}
		hdr, err := commitTx(p.st, es, md)
		if err != nil {
			fail("primary commit %d (%v): %v", i+1, es, err)
		}
		blob, err := p.st.ExportTx(hdr.ID, false, false, p.hold)
		if err != nil {
			fail("ExportTx(%d): %v", hdr.ID, err)
		}
		x, err := decodeExport(blob)
		if err != nil {
			fail("harness: cannot decode the export of tx %d: %v", hdr.ID, err)
		}
		if x.hdr.Alh() != hdr.Alh() || x.truncated || len(x.entries) != len(es) {
			fail("ExportTx(%d) does not carry the committed transaction: export Alh %x, committed Alh %x, truncated=%v, %d/%d entries",
				hdr.ID, x.hdr.Alh(), hdr.Alh(), x.truncated, len(x.entries), len(es))
		}
		for j, e := range es {
			if !bytes.Equal(x.entries[j].key, e.Key) || !bytes.Equal(x.entries[j].val, e.Value) || !bytes.Equal(x.entries[j].md, mdBytes(e)) {
				fail("ExportTx(%d): entry %d differs from what was committed: exported key=%q md=%x val=%q, committed %v",
					hdr.ID, j, short(x.entries[j].key), x.entries[j].md, short(x.entries[j].val), e)
			}
		}
		p.txs = append(p.txs, &ptx{id: hdr.ID, hdr: hdr, alh: hdr.Alh(), entries: es, full: blob, x: x})
		p.model.Add(hdr, es)
		s := fmt.Sprintf("%d", len(es))
		if md != nil {
			s += "m"
			c.Label("tx-metadata")
		}
		shape += s + " "
	}
	c.Descf("primary=%s hist=[%s]", p.cfg, shape)
	if truncate {
		p.truncateAndReexport(rt, c)
	}
	return p
}

func mdBytes(e stx.Entry) []byte {
	md := e.MD()
	if md == nil {
		return nil
	}
	return md.Bytes()
}

func short(b []byte) []byte {
	if len(b) > 16 {
		return append(append([]byte{}, b[:12]...), []byte(fmt.Sprintf("..%d", len(b)))...)
	}
	return b
}

// truncateAndReexport drops the value-log chunks below a transaction and exports the history again:
// transactions whose values are gone must come out in digest-only form, with the same header and hashes.
func (p *primary) truncateAndReexport(rt *rapid.T, c *vk.Case) {
	n := p.n()
	m := uint64(rapid.IntRange(3, int(n)).Draw(rt, "truncateUpto"))
	if err := p.st.TruncateUptoTx(m); err != nil {
		c.Label("truncation-error-(C14)")
		return
	}
	c.Descf("truncate<%d", m)
	nDigest := 0
	for id := uint64(1); id <= n; id++ {
		t := p.txs[id-1]
		var blob []byte
		var err error
		done := make(chan struct{})
		go func() {
			defer close(done)
			blob, err = p.st.ExportTx(id, false, false, p.hold)
		}()
		select {
		case <-done:
		case <-time.After(30 * time.Second):
			// defect F2 (C14): an earlier "partially truncated" error left ExportTx's value buffer locked
			c.Label("export-after-truncation-hang-(C14-F2)")
			return
		}
		if err != nil {
			// "partially truncated transaction" (some values gone, some still there or empty) is by design; whether the
			// primary stays usable afterwards is C14's business: use a fresh store object for the remaining exports
			c.Label("export-after-truncation-refused")
			if cerr := p.st.Close(); cerr != nil {
				c.Failf(rt, nil, "close primary: %v", cerr)
			}
			if p.st, err = openStore(p.dir, p.cfg); err != nil {
				c.Failf(rt, nil, "reopen primary: %v", err)
			}
			continue
		}
		x, err := decodeExport(blob)
		if err != nil {
			c.Failf(rt, nil, "harness: cannot decode the export of tx %d after truncation: %v", id, err)
		}
		if os.Getenv("VERIF_C07_DEBUG") != "" {
			sz := ""
			for _, e := range t.x.entries {
				sz += fmt.Sprintf("%d,", len(e.val))
			}
			fmt.Printf("  tx %d truncated=%v values=%s\n", id, x.truncated, sz)
		}
		if !x.truncated {
			if !bytes.Equal(blob, t.full) {
				c.Failf(rt, map[string]any{"before": fmt.Sprintf("%x", t.full), "after": fmt.Sprintf("%x", blob)},
					"tx %d exported with values after TruncateUptoTx(%d) differs from its export before the truncation", id, m)
			}
			continue
		}
		// digest-only form: same header, same keys/metadata, digest of the value
		if x.hdr.Alh() != t.alh || len(x.entries) != len(t.x.entries) {
			c.Failf(rt, nil, "digest-only export of tx %d: Alh/entry count differ from the primary's transaction", id)
		}
		for j := range x.entries {
			h := sha256.Sum256(t.x.entries[j].val)
			if !bytes.Equal(x.entries[j].key, t.x.entries[j].key) || !bytes.Equal(x.entries[j].md, t.x.entries[j].md) || !bytes.Equal(x.entries[j].val, h[:]) {
				c.Failf(rt, nil, "digest-only export of tx %d: entry %d (key %q) does not carry the key/metadata/value digest of the committed entry", id, j, short(t.x.entries[j].key))
			}
		}
		if id >= m {
			c.Label("values-above-truncation-point-gone")
		}
		t.digest, t.dx = blob, x
		nDigest++
	}
	if os.Getenv("VERIF_C07_DEBUG") != "" {
		fmt.Printf("TRUNC n=%d m=%d digest=%d cfg=%s\n", n, m, nDigest, p.cfg)
	}
	if nDigest > 0 {
		c.Label("digest-form-available")
		c.Descf("digest=%d", nDigest)
	}
}

func (p *primary) close() {
	if p.st != nil {
		p.st.Close()
		p.st = nil
	}
	os.RemoveAll(p.dir)
}

// ---------------------------------------------------------------------------
// replica

type rstate struct {
	c, p       uint64
	calh, palh [sha256.Size]byte
	count      uint64
}

func (s rstate) String() string {
	return fmt.Sprintf("committed=%d/%x precommitted=%d/%x count=%d", s.c, s.calh[:4], s.p, s.palh[:4], s.count)
}

type replica struct {
	i    int
	cfg  stx.Cfg
	dir  string
	st   *store.ImmuStore
	hold *store.Tx

	forms   map[uint64]map[string]bool // forms ("full"/"digest") that may be what the replica holds for an id
	allowed uint64                     // highest id passed to AllowCommitUpto (capped by the precommitted id at that time)
	// ids at which a forged transaction was precommitted and then discarded (it may be found again after a restart)
	discardedForged map[uint64]bool
	discardPoints   []uint64 // ids given to DiscardPrecommittedTxsSince that are still above the committed id: the tx log keeps the discarded records in front of what was precommitted afterwards
	everHeld2       bool     // the replica has held a transaction with id >= 2 at some point (K7e)
	everHeld1       bool     // the replica has held a transaction at some point: its tx log is not empty
	retired         bool     // holds a committed transaction that is not the primary's: only its prefix is compared
	forgedAt        uint64   // first id that is not the primary's (0: none)

	// schedule statistics (non-triviality rule)
	outOfOrder, refused, caughtUpAfterRefusal int
	pendingRefusal                            bool
}

func (r *replica) state() rstate {
	var s rstate
	s.c, s.calh = r.st.CommittedAlh()
	s.p, s.palh = r.st.PrecommittedAlh()
	s.count = r.st.TxCount()
	if s.p >= 2 {
		r.everHeld2 = true
	}
	if s.p >= 1 {
		r.everHeld1 = true
	}
	return s
}

type harness struct {
	rt *rapid.T
	c  *vk.Case
	p  *primary
	rs []*replica
}

func (h *harness) failf(r *replica, dump any, format string, args ...any) {
	msg := fmt.Sprintf(format, args...)
	h.c.Failf(h.rt, dump, "replica %d %s: %s", r.i, r.cfg, msg)
}

type dres struct {
	id       uint64
	form     string
	timed    bool // delivered with a timeout context
	done     bool // the call was made (a sequential round stops at the first refusal)
	hdr      *store.TxHeader
	err      error
	panicked bool
}

func deliver(st *store.ImmuStore, ctx context.Context, blob []byte, skip, waitIdx bool) (hdr *store.TxHeader, err error, panicked bool) {
	defer func() {
		if r := recover(); r != nil {
			// totality of ReplicateTx on malformed input is property C16's business
			hdr, err, panicked = nil, fmt.Errorf("panic: %v", r), true
		}
	}()
	hdr, err = st.ReplicateTx(ctx, blob, skip, waitIdx)
	return
}

func isCtxErr(err error) bool {
	return errors.Is(err, context.DeadlineExceeded) || errors.Is(err, context.Canceled) ||
		(err != nil && (strings.Contains(err.Error(), "context deadline exceeded") || strings.Contains(err.Error(), "context canceled")))
}

// honest picks the bytes of an honest delivery of tx id.
func (h *harness) honest(id uint64, label string) (blob []byte, form string) {
	t := h.p.txs[id-1]
	if t.digest != nil && rapid.IntRange(0, 2).Draw(h.rt, label+"Form") > 0 {
		return t.digest, "digest"
	}
	return t.full, "full"
}

// verifyHeader compares what the replica holds under id with the primary's transaction (header only; Eh binds the entries).
func (h *harness) verifyHeader(r *replica, id uint64, when string) {
	hdr, err := r.st.ReadTxHeader(id, true, false)
	if err != nil {
		h.failf(r, nil, "%s: tx %d is reported (pre)committed but cannot be read back with integrity checks: %v", when, id, err)
	}
	want := h.p.txs[id-1].hdr
	if d := hdrDiff(hdr, want); d != "" {
		h.failf(r, map[string]any{"replica": fmt.Sprintf("%+v", hdr), "primary": fmt.Sprintf("%+v", want)},
			"%s: tx %d on the replica differs from the primary's: %s", when, id, d)
	}
}

func txmdBytes(hdr *store.TxHeader) []byte {
	if hdr.Metadata == nil {
		return nil
	}
	return hdr.Metadata.Bytes()
}

func hdrDiff(a, b *store.TxHeader) string {
	var d []string
	if a.ID != b.ID {
		d = append(d, fmt.Sprintf("ID %d/%d", a.ID, b.ID))
	}
	if a.Ts != b.Ts {
		d = append(d, fmt.Sprintf("Ts %d/%d", a.Ts, b.Ts))
	}
	if a.BlTxID != b.BlTxID {
		d = append(d, fmt.Sprintf("BlTxID %d/%d", a.BlTxID, b.BlTxID))
	}
	if a.BlRoot != b.BlRoot {
		d = append(d, "BlRoot")
	}
	if a.PrevAlh != b.PrevAlh {
		d = append(d, "PrevAlh")
	}
	if a.Version != b.Version {
		d = append(d, fmt.Sprintf("Version %d/%d", a.Version, b.Version))
	}
	if !bytes.Equal(txmdBytes(a), txmdBytes(b)) {
		d = append(d, fmt.Sprintf("Metadata %x/%x", txmdBytes(a), txmdBytes(b)))
	}
	if a.NEntries != b.NEntries {
		d = append(d, fmt.Sprintf("NEntries %d/%d", a.NEntries, b.NEntries))
	}
	if a.Eh != b.Eh {
		d = append(d, "Eh")
	}
	if len(d) == 0 && a.Alh() != b.Alh() {
		d = append(d, "Alh")
	}
	return strings.Join(d, ", ")
}

// verifyTx compares header, entries and values of tx id.
func (h *harness) verifyTx(r *replica, id uint64, when string) {
	h.verifyHeader(r, id, when)
	t := h.p.txs[id-1]
	forms := r.forms[id]
	if len(forms) == 1 && forms["full"] {
		// the replica must be able to export the very bytes it was given (values checked against their hashes)
		blob, err := r.st.ExportTx(id, true, false, r.hold)
		if err != nil {
			h.failf(r, nil, "%s: ExportTx(%d) on the replica: %v", when, id, err)
		}
		if !bytes.Equal(blob, t.full) {
			h.failf(r, map[string]any{"replica": fmt.Sprintf("%x", blob), "primary": fmt.Sprintf("%x", t.full)},
				"%s: the replica's export of tx %d differs from the primary's export", when, id)
		}
		return
	}
	blob, err := r.st.ExportTx(id, true, true, r.hold)
	if err != nil {
		h.failf(r, nil, "%s: ExportTx(%d, skipIntegrityCheck) on the replica: %v", when, id, err)
	}
	x, err := decodeExport(blob)
	if err != nil || len(x.entries) != len(t.x.entries) {
		h.failf(r, nil, "%s: export of tx %d on the replica is malformed or has a different number of entries (%v)", when, id, err)
	}
	for j, e := range x.entries {
		pe := t.x.entries[j]
		if !bytes.Equal(e.key, pe.key) || !bytes.Equal(e.md, pe.md) {
			h.failf(r, nil, "%s: tx %d entry %d: key/metadata %q/%x, primary %q/%x", when, id, j, short(e.key), e.md, short(pe.key), pe.md)
		}
		okFull := forms["full"] && !x.truncated && bytes.Equal(e.val, pe.val)
		okDigest := forms["digest"] && !x.truncated && len(e.val) == 0
		if !okFull && !okDigest {
			h.failf(r, nil, "%s: tx %d entry %d (key %q): the replica holds value %q (delivered forms %v), the primary's value is %q",
				when, id, j, short(e.key), short(e.val), formList(forms), short(pe.val))
		}
	}
}

func formList(m map[string]bool) []string {
	var out []string
	for k := range m {
		out = append(out, k)
	}
	sort.Strings(out)
	return out
}

// verifyState: the replica's (pre)committed state is the primary's state at those ids.
func (h *harness) verifyState(r *replica, when string) rstate {
	h.settle(r)
	s := r.state()
	limit := h.p.n()
	if r.forgedAt > 0 {
		limit = r.forgedAt - 1
	}
	if s.c > s.p {
		h.failf(r, nil, "%s: committed id %d > precommitted id %d", when, s.c, s.p)
	}
	if s.count != s.c {
		h.failf(r, nil, "%s: TxCount()=%d, committed id %d", when, s.count, s.c)
	}
	if s.c <= limit && s.calh != h.p.alhOf(s.c) {
		h.failf(r, nil, "%s: CommittedAlh=(%d,%x), the primary's Alh of tx %d is %x", when, s.c, s.calh, s.c, h.p.alhOf(s.c))
	}
	if s.p <= limit && s.palh != h.p.alhOf(s.p) {
		diff := ""
		if hdr, err := r.st.ReadTxHeader(s.p, true, false); err == nil {
			diff = fmt.Sprintf("; the stored tx %d differs from the primary's in: %s (replica header %+v)", s.p, hdrDiff(hdr, h.p.txs[s.p-1].hdr), hdr)
		}
		h.failf(r, nil, "%s: PrecommittedAlh=(%d,%x), the primary's Alh of tx %d is %x%s", when, s.p, s.palh, s.p, h.p.alhOf(s.p), diff)
	}
	if r.forgedAt == 0 && s.p > h.p.n() {
		h.failf(r, nil, "%s: the replica holds %d transactions, the primary only %d", when, s.p, h.p.n())
	}
	return s
}

func (h *harness) verifyAll(r *replica, when string) {
	s := h.verifyState(r, when)
	upto := s.p
	if r.forgedAt > 0 && upto >= r.forgedAt {
		upto = r.forgedAt - 1
	}
	for id := uint64(1); id <= upto; id++ {
		h.verifyTx(r, id, when)
	}
}

func (h *harness) openReplica(r *replica) {
	st, err := openStore(r.dir, r.cfg)
	if err != nil {
		h.failf(r, nil, "open replica: %v", err)
	}
	r.st = st
}

func (r *replica) setForm(id uint64, forms ...string) {
	m := map[string]bool{}
	for _, f := range forms {
		m[f] = true
	}
	r.forms[id] = m
}

// ---------------------------------------------------------------------------
// steps of the schedule

const roundLimit = 60 * time.Second

// round delivers honest exports from 1-4 goroutines.
func (h *harness) round(r *replica) {
	rt := h.rt
	before := h.verifyState(r, "before round")
	P, N := before.p, h.p.n()
	window := uint64(r.cfg.MaxActiveTx)
	pattern := rapid.SampledFrom([]string{"in-order", "in-order", "shuffled", "dups", "gap", "beyond-window", "old"}).Draw(rt, "pattern")
	k := rapid.IntRange(1, 6).Draw(rt, "k")
	var ids []uint64
	add := func(id uint64) {
		if id >= 1 && id <= N {
			ids = append(ids, id)
		}
	}
	for j := 1; j <= k; j++ {
		add(P + uint64(j))
	}
	switch pattern {
	case "shuffled":
		ids = rapid.Permutation(ids).Draw(rt, "perm")
	case "dups":
		for j := 0; j < 3 && len(ids) > 0; j++ {
			ids = append(ids, ids[rapid.IntRange(0, len(ids)-1).Draw(rt, "dup")])
		}
		ids = rapid.Permutation(ids).Draw(rt, "perm")
	case "gap":
		if len(ids) > 1 {
			g := rapid.IntRange(0, len(ids)-2).Draw(rt, "gapAt")
			ids = append(ids[:g], ids[g+1:]...)
		}
	case "beyond-window":
		add(P + window + 1)
		add(P + window + 2)
		add(P + window)
		ids = rapid.Permutation(ids).Draw(rt, "perm")
	case "old":
		if P > 0 {
			add(uint64(rapid.IntRange(1, int(P)).Draw(rt, "oldId")))
			add(P)
		}
		ids = rapid.Permutation(ids).Draw(rt, "perm")
	}
	if len(ids) == 0 {
		return
	}
	g := rapid.IntRange(1, 4).Draw(rt, "goroutines")
	if g > len(ids) {
		g = len(ids)
	}
	skip := rapid.IntRange(0, 5).Draw(rt, "skipIntegrity") == 0 // honest bytes: the flag must not matter
	// a delivery may block until its predecessor arrives: only a strictly in-order single-goroutine round runs unbounded
	sequential := g == 1 && pattern == "in-order"
	res := make([]dres, len(ids))
	lists := make([][]int, g)
	desc := fmt.Sprintf("R%d:%s/g%d", r.i, pattern, g)
	for j, id := range ids {
		blob, form := h.honest(id, "h")
		_ = blob
		res[j] = dres{id: id, form: form}
		w := j % g
		lists[w] = append(lists[w], j)
		desc += fmt.Sprintf(" %d%s", id, form[:1])
	}
	if skip {
		desc += " skip"
	}
	h.c.Descf("%s", desc)
	var wg sync.WaitGroup
	for w := 0; w < g; w++ {
		wg.Add(1)
		go func(list []int) {
			defer wg.Done()
			for _, j := range list {
				d := &res[j]
				t := h.p.txs[d.id-1]
				blob := t.full
				if d.form == "digest" {
					blob = t.digest
				}
				ctx, cancel := bg, context.CancelFunc(func() {})
				if !sequential {
					d.timed = true
					ctx, cancel = context.WithTimeout(bg, 250*time.Millisecond)
				}
				d.hdr, d.err, d.panicked = deliver(r.st, ctx, blob, skip, false)
				cancel()
				d.done = true
				if sequential && d.err != nil {
					return // the following deliveries would wait for this transaction for ever
				}
			}
		}(lists[w])
	}
	done := make(chan struct{})
	go func() { wg.Wait(); close(done) }()
	select {
	case <-done:
	case <-time.After(roundLimit):
		h.failf(r, nil, "round %s did not terminate within %v", desc, roundLimit)
	}
	h.settle(r)
	after := h.verifyState(r, "after round "+desc)
	if after.p < P || after.c < before.c {
		h.failf(r, nil, "round %s: the replica went back: before %s, after %s", desc, before, after)
	}
	delivered := map[uint64][]*dres{}
	for j := range res {
		d := &res[j]
		if !d.done {
			continue
		}
		delivered[d.id] = append(delivered[d.id], d)
		if d.panicked {
			h.failf(r, nil, "round %s: ReplicateTx panicked on the honest export of tx %d: %v", desc, d.id, d.err)
		}
		if d.err == nil {
			if d.hdr == nil || d.hdr.ID != d.id || d.hdr.Alh() != h.p.alhOf(d.id) {
				h.failf(r, nil, "round %s: ReplicateTx of tx %d returned header %+v, the primary's Alh is %x", desc, d.id, d.hdr, h.p.alhOf(d.id))
			}
			if d.id <= P || d.id > after.p {
				h.failf(r, nil, "round %s: ReplicateTx of tx %d returned success, but the replica held %d transactions before and %d after", desc, d.id, P, after.p)
			}
			continue
		}
		// refusals of honest exports. Out of order / concurrently, the store may refuse with several errors (the replicator
		// retries): what is required is that a refusal has no effect (checked below through the final state) and that
		// in-order deliveries on an idle replica go through (sequential rounds and the catch-up). The documented reasons
		// are checked for consistency with the state.
		switch {
		case errors.Is(d.err, store.ErrTxAlreadyCommitted):
			if d.id > after.p {
				h.failf(r, nil, "round %s: tx %d refused with %q but the replica only holds %d transactions", desc, d.id, d.err, after.p)
			}
			h.c.Label("honest-refused:already-committed")
		case errors.Is(d.err, store.ErrMaxActiveTransactionsLimitExceeded) || errors.Is(d.err, store.ErrBufferIsFull):
			if !r.cfg.Synced && d.id <= P+window && !(r.cfg.ExternalAllow && d.id > before.c+window) {
				h.failf(r, nil, "round %s: tx %d refused with %q although it is within the window (before: %s, MaxActiveTransactions=%d)", desc, d.id, d.err, before, window)
			}
			h.c.Label("honest-refused:window")
		case isCtxErr(d.err) && d.timed:
			h.c.Label("honest-delivery-timed-out")
		default:
			if sequential {
				h.failf(r, map[string]any{"export": fmt.Sprintf("%x", h.p.txs[d.id-1].full)}, "round %s: honest export of tx %d (%s form) refused: %v (replica before: %s)", desc, d.id, d.form, d.err, before)
			}
			h.c.Label("honest-refused:other-(out-of-order)")
		}
		if !isCtxErr(d.err) {
			r.refused++
			r.pendingRefusal = true
		}
	}
	for id := P + 1; id <= after.p; id++ {
		ds := delivered[id]
		if len(ds) == 0 {
			h.failf(r, nil, "round %s: the replica now holds tx %d, which was not delivered in this round (before: %s, after: %s, results %s)", desc, id, before, after, resList(res))
		}
		ok, maybe := 0, 0
		var forms []string
		for _, d := range ds {
			if d.err == nil {
				ok++
				forms = append(forms, d.form)
			} else if isCtxErr(d.err) {
				maybe++
			}
		}
		if ok > 1 {
			h.failf(r, nil, "round %s: %d deliveries of tx %d returned success", desc, ok, id)
		}
		if ok == 0 {
			if maybe == 0 {
				h.failf(r, nil, "round %s: the replica holds tx %d but every delivery of it was refused (before: %s, after: %s, results %s)", desc, id, before, after, resList(res))
			}
			for _, d := range ds {
				if isCtxErr(d.err) {
					forms = append(forms, d.form)
				}
			}
		}
		r.setForm(id, forms...)
		h.verifyHeader(r, id, "after round "+desc)
	}
	if sequential && !r.cfg.Synced {
		// quiescent in-order delivery: everything within the window must have been accepted
		want := P + uint64(len(ids))
		if N < want {
			want = N
		}
		if lim := P + window; want > lim {
			want = lim
		}
		if lim := before.c + window; r.cfg.ExternalAllow && want > lim {
			want = lim // precommitted-but-uncommitted transactions are limited by the same window
		}
		if after.p < want {
			h.failf(r, nil, "round %s: in-order honest deliveries on an idle replica ended at tx %d, expected %d; results: %s", desc, after.p, want, resList(res))
		}
	}
	if pattern != "in-order" || g > 1 {
		r.outOfOrder++
	}
	if after.p > P && r.pendingRefusal {
		r.caughtUpAfterRefusal++
		r.pendingRefusal = false
	}
	h.afterAccept(r, after)
}

// settle waits until a synced replica has made durable (and, without external allowance, committed) what it precommitted in
// memory: the states compared by the harness are the durable ones.
func (h *harness) settle(r *replica) {
	if !r.cfg.Synced {
		return
	}
	deadline := time.Now().Add(30 * time.Second)
	for {
		last := r.st.LastPrecommittedTxID()
		p, _ := r.st.PrecommittedAlh()
		c, _ := r.st.CommittedAlh()
		target := last
		if r.cfg.ExternalAllow {
			target = r.allowed
			if target > last {
				target = last
			}
		}
		if p == last && c >= target {
			return
		}
		if time.Now().After(deadline) {
			h.failf(r, nil, "synced replica did not make its precommitted transactions durable/committed within 30s: in-memory %d, durable %d, committed %d", last, p, c)
		}
		time.Sleep(200 * time.Microsecond)
	}
}

func resList(res []dres) string {
	var sb strings.Builder
	for _, d := range res {
		if d.done {
			fmt.Fprintf(&sb, "[%d %s err=%v]", d.id, d.form, d.err)
		}
	}
	return sb.String()
}

// afterAccept keeps a synced replica with external allowance from exhausting its window: commits what the primary committed.
func (h *harness) afterAccept(r *replica, s rstate) {
	if r.cfg.ExternalAllow && s.p-s.c >= uint64(r.cfg.MaxActiveTx) && r.forgedAt == 0 && rapid.Bool().Draw(h.rt, "freeWindow") {
		h.allow(r, s.p)
	}
}

func (h *harness) waitCommitted(r *replica, id uint64, when string) {
	ctx, cancel := context.WithTimeout(bg, 30*time.Second)
	defer cancel()
	if err := r.st.WaitForTx(ctx, id, false); err != nil {
		h.failf(r, nil, "%s: tx %d not committed within 30s after AllowCommitUpto: %v (state %s)", when, id, err, r.state())
	}
}

func (h *harness) allow(r *replica, y uint64) {
	before := h.verifyState(r, "before allow")
	if err := r.st.AllowCommitUpto(y); err != nil {
		h.failf(r, nil, "AllowCommitUpto(%d): %v", y, err)
	}
	eff := y
	if eff > before.p {
		eff = before.p
	}
	if eff > r.allowed {
		r.allowed = eff
	}
	h.c.Descf("R%d:allow%d", r.i, y)
	if r.allowed > before.c {
		h.waitCommitted(r, r.allowed, "allow")
	}
	after := h.verifyState(r, "after allow")
	if after.c != r.allowed && after.c != before.c || after.c < before.c || after.p != before.p {
		h.failf(r, nil, "AllowCommitUpto(%d): before %s, after %s, allowance %d", y, before, after, r.allowed)
	}
	if after.c > r.allowed {
		h.failf(r, nil, "AllowCommitUpto(%d): the replica committed tx %d beyond the allowance %d", y, after.c, r.allowed)
	}
}

func (h *harness) stepAllow(r *replica) {
	s := r.state()
	if !r.cfg.ExternalAllow {
		// the call must be refused when the mode is off
		if err := r.st.AllowCommitUpto(s.p); err == nil {
			h.failf(r, nil, "AllowCommitUpto accepted although external commit allowance is off")
		}
		return
	}
	hi := s.p + 2
	if r.forgedAt > 0 && hi >= r.forgedAt {
		hi = r.forgedAt - 1 // the harness never lets a forged transaction be committed through the allowance
	}
	if hi < s.c {
		return
	}
	h.allow(r, uint64(rapid.IntRange(int(s.c), int(hi)).Draw(h.rt, "allowUpto")))
}

func (h *harness) stepDiscard(r *replica) {
	rt := h.rt
	before := h.verifyState(r, "before discard")
	lo := before.c
	if r.allowed > lo {
		lo = r.allowed
	}
	// invalid calls first: they must not change anything
	if before.c > 0 {
		if _, err := r.st.DiscardPrecommittedTxsSince(uint64(rapid.IntRange(0, int(before.c)).Draw(rt, "badSince"))); err == nil {
			h.failf(r, nil, "DiscardPrecommittedTxsSince of a committed transaction did not fail")
		}
	}
	if n, err := r.st.DiscardPrecommittedTxsSince(before.p + 1); err != nil || n != 0 {
		h.failf(r, nil, "DiscardPrecommittedTxsSince(%d) beyond the last precommitted tx: n=%d err=%v", before.p+1, n, err)
	}
	if s := r.state(); s != before {
		h.failf(r, nil, "refused/empty discard changed the replica: before %s, after %s", before, s)
	}
	if !r.cfg.ExternalAllow || before.p <= lo {
		return
	}
	x := uint64(rapid.IntRange(int(lo)+1, int(before.p)).Draw(rt, "discardSince"))
	if x == 1 && r.everHeld2 && vk.Excluded(kfStaleBl) {
		// known finding: tx 1 precommitted again after the discard would get the BlRoot an earlier transaction left in the tx holder
		vk.CountExcluded(kfStaleBl)
		if before.p < 2 || lo+1 > 2 {
			return
		}
		x = 2
	}
	n, err := r.st.DiscardPrecommittedTxsSince(x)
	if err != nil || uint64(n) != before.p-x+1 {
		h.failf(r, nil, "DiscardPrecommittedTxsSince(%d) with %s: n=%d err=%v", x, before, n, err)
	}
	h.c.Descf("R%d:discard%d", r.i, x)
	r.discardPoints = append(r.discardPoints, x)
	for id := x; id <= before.p; id++ {
		delete(r.forms, id)
	}
	if r.forgedAt >= x {
		r.discardedForged[r.forgedAt] = true
		r.forgedAt = 0
	}
	after := h.verifyState(r, "after discard")
	if after.p != x-1 || after.c != before.c {
		h.failf(r, nil, "DiscardPrecommittedTxsSince(%d): before %s, after %s", x, before, after)
	}
	r.refused++ // the discarded transactions have to be delivered again
	r.pendingRefusal = true
}

func (h *harness) stepReopen(r *replica) {
	rt := h.rt
	before := h.verifyState(r, "before reopen")
	if err := r.st.Close(); err != nil {
		h.failf(r, nil, "Close: %v", err)
	}
	r.cfg.TxLogCache = rapid.SampledFrom([]int{1, 10, 1000}).Draw(rt, "txLogCache2")
	h.openReplica(r)
	h.c.Descf("R%d:reopen", r.i)
	after := r.state()
	if after.c != before.c || after.calh != before.calh {
		h.failf(r, nil, "close+reopen changed the committed state: before %s, after %s", before, after)
	}
	if r.cfg.ExternalAllow {
		r.allowed = after.c
	}
	stale := r.staleTail(after.c)
	if after.p < before.p {
		switch {
		case stale:
			// by design (see staleTail): the replicator discards again and fetches the stream again
			h.c.Label("precommitted-tail-replaced-on-reopen-after-discard-(documented)")
		case r.cfg.Embedded && vk.Excluded(kfEmbedded):
			vk.CountExcluded(kfEmbedded)
			h.c.Label("precommitted-lost-on-reopen-(" + kfEmbedded + ")")
		default:
			h.failf(r, nil, "close+reopen lost durably precommitted transactions: before %s, after %s (no discard above the committed id)", before, after)
		}
		for id := after.p + 1; id <= before.p; id++ {
			delete(r.forms, id)
		}
		r.refused++
		r.pendingRefusal = true
	}
	if after.p == 0 && r.everHeld1 && vk.Excluded(kfStaleBl) {
		// known finding K7e: the store is back at the empty history with used tx holders: tx 1 would now be stored with
		// a stale BlRoot (here: bytes of the values block the recovery tried to read as a header)
		vk.CountExcluded(kfStaleBl)
		r.retired = true
		r.forgedAt = 0
		h.c.Label("replica-retired-(" + kfStaleBl + ")")
		return
	}
	if stale {
		// what is found after the committed transactions may be what was precommitted before a discard
		for id := after.c + 1; id <= after.p; id++ {
			delete(r.forms, id)
		}
		if r.forgedAt > after.c {
			r.discardedForged[r.forgedAt] = true
			r.forgedAt = 0
		}
	}
	// transactions found after the committed ones: the primary's, or forged ones that were discarded before (documented:
	// "discarding may need to be redone after re-opening the store")
	for id := after.c + 1; id <= after.p; id++ {
		hdr, err := r.st.ReadTxHeader(id, true, false)
		if err != nil {
			h.failf(r, nil, "after reopen: precommitted tx %d unreadable: %v", id, err)
		}
		honest := id <= h.p.n() && hdr.Alh() == h.p.alhOf(id)
		if honest {
			if r.forms[id] == nil {
				// a discarded honest transaction came back: both forms may have been delivered at some point
				r.setForm(id, "full", "digest")
			}
			continue
		}
		if r.forgedAt == id {
			break
		}
		if !r.discardedForged[id] && !anyBelow(r.discardedForged, id) {
			h.failf(r, nil, "after reopen: precommitted tx %d is not the primary's and was never accepted as a forged one: %+v", id, hdr)
		}
		// the replicator's reaction to "replica precommit state diverged": discard the tail again, fetch again
		h.c.Label("discarded-forged-tx-back-after-reopen-(discarded-again)")
		if _, err := r.st.DiscardPrecommittedTxsSince(id); err != nil {
			h.failf(r, nil, "after reopen: DiscardPrecommittedTxsSince(%d): %v", id, err)
		}
		r.discardPoints = append(r.discardPoints, id)
		r.refused++
		r.pendingRefusal = true
		for j := id; j <= after.p; j++ {
			delete(r.forms, j)
		}
		break
	}
	h.verifyAll(r, "after reopen")
}

// staleTail: DiscardPrecommittedTxsSince does not truncate the tx log ("if the store is reopened some precommitted
// transactions may be reloaded. Discarding may need to be redone after re-opening the store"): until the replica commits
// past a discard point, a restart finds the discarded records first and what was precommitted after them is not reloaded.
// The harness then does what the replicator does: discards the diverging tail again and delivers the primary's stream.
func (r *replica) staleTail(committed uint64) bool {
	keep := r.discardPoints[:0]
	for _, x := range r.discardPoints {
		if x > committed {
			keep = append(keep, x)
		}
	}
	r.discardPoints = keep
	return len(keep) > 0
}

func anyBelow(m map[uint64]bool, id uint64) bool {
	for k := range m {
		if k <= id {
			return true
		}
	}
	return false
}

// stepAltered delivers one altered export on the idle replica.
func (h *harness) stepAltered(r *replica) {
	rt := h.rt
	before := h.verifyState(r, "before altered delivery")
	N := h.p.n()
	if before.p >= N {
		return
	}
	id := before.p + 1
	if rapid.IntRange(0, 5).Draw(rt, "altOther") == 0 {
		id = uint64(rapid.IntRange(1, int(N)).Draw(rt, "altId"))
	}
	t := h.p.txs[id-1]
	base, x, form := t.full, t.x, "full"
	if t.digest != nil && rapid.Bool().Draw(rt, "altDigestBase") {
		base, x, form = t.digest, t.dx, "digest"
	}
	a := alter(rt, x, base, h.p)
	skip := rapid.IntRange(0, 4).Draw(rt, "altSkipIntegrity") == 0
	if a.class == altUnbound && vk.Excluded(kfUnbound) && rapid.IntRange(0, 2).Draw(rt, "keepUnbound") != 0 {
		// known finding: such forgeries are accepted; most of them are left out so that schedules go on
		vk.CountExcluded(kfUnbound)
		return
	}
	desc := fmt.Sprintf("R%d:alt(tx%d %s %s skip=%v)", r.i, id, form, a.desc, skip)
	h.c.Descf("%s", desc)
	h.c.Label("alt-" + strings.SplitN(a.desc, ":", 2)[0])
	// an altered id may make the call wait for a predecessor that never comes
	timeout := 20 * time.Second
	if len(a.blob) >= 12 {
		if aid := binary.BigEndian.Uint64(a.blob[4:]); aid > before.p+1 {
			timeout = 100 * time.Millisecond
		}
	}
	ctx, cancel := context.WithTimeout(bg, timeout)
	var hdr *store.TxHeader
	var err error
	var panicked bool
	done := make(chan struct{})
	go func() {
		defer close(done)
		hdr, err, panicked = deliver(r.st, ctx, a.blob, skip, false)
	}()
	select {
	case <-done:
	case <-time.After(roundLimit):
		cancel()
		h.failf(r, map[string]any{"input": fmt.Sprintf("%x", a.blob)}, "%s did not terminate within %v", desc, roundLimit)
	}
	cancel()
	h.settle(r)
	dump := map[string]any{"input": fmt.Sprintf("%x", a.blob), "honest": fmt.Sprintf("%x", base), "alteration": a.desc, "skipIntegrityCheck": skip, "before": before.String()}
	after := r.state()
	if panicked {
		h.c.Label("replicatetx-panic-(C16)")
		vk.AddLabel("TestStoreReplication/panics-recovered-(C16)", 1)
	}
	effect := after != before
	if !effect {
		if err == nil {
			h.failf(r, dump, "%s: ReplicateTx returned success (header %+v) but the replica did not change: %s", desc, hdr, after)
		}
		// refused without effect: the last transaction is still intact, the honest one still goes through (checked by the next rounds)
		h.c.Label("altered-refused")
		if errors.Is(err, store.ErrBufferIsFull) && (skip || a.class == altUnbound) {
			// the window of uncommitted transactions was full: the store had already written the (acceptable) forgery
			// after the last precommitted transaction; a restart finds it there (like a discarded forged transaction)
			r.discardedForged[before.p+1] = true
			h.c.Label("forgery-refused-after-being-written-(window-full)")
		}
		if skip {
			h.c.Label("altered-refused-with-skipIntegrity")
		}
		if before.p > 0 && before.p <= N && (r.forgedAt == 0 || before.p < r.forgedAt) {
			h.verifyHeader(r, before.p, "after refused "+desc)
		}
		r.refused++
		r.pendingRefusal = true
		return
	}
	if err != nil && !isCtxErr(err) {
		h.failf(r, dump, "%s: refused with %q but the replica changed: before %s, after %s", desc, err, before, after)
	}
	// accepted: exactly one more transaction
	if after.p != before.p+1 || after.c < before.c || after.c > after.p {
		h.failf(r, dump, "%s: accepted, but the replica did not grow by exactly one transaction: before %s, after %s", desc, before, after)
	}
	got, rerr := r.st.ReadTxHeader(after.p, true, false)
	if rerr != nil {
		h.failf(r, dump, "%s: accepted, but tx %d cannot be read back with integrity checks: %v", desc, after.p, rerr)
	}
	if got.Alh() != after.palh {
		h.failf(r, dump, "%s: accepted, PrecommittedAlh %x is not the Alh %x of the stored tx %d", desc, after.palh, got.Alh(), after.p)
	}
	identical := after.p <= N && hdrDiff(got, h.p.txs[after.p-1].hdr) == ""
	if identical {
		// an equivalent encoding of the honest transaction (or the honest transaction under another id's place): fine
		h.c.Label("altered-accepted-identical")
		r.setForm(after.p, form)
		h.verifyTx(r, after.p, "after accepted "+desc)
		h.afterAccept(r, after)
		return
	}
	diff := "no such tx on the primary"
	if after.p <= N {
		diff = hdrDiff(got, h.p.txs[after.p-1].hdr)
	}
	switch {
	case skip:
		h.c.Label("altered-accepted-with-skipIntegrity")
	case a.class == altUnbound:
		if !vk.Excluded(kfUnbound) {
			h.failf(r, dump, "%s: ACCEPTED with integrity checks on; the replica's tx %d differs from the primary's in: %s", desc, after.p, diff)
		}
		vk.CountExcluded(kfUnbound)
		h.c.Label("altered-accepted-(" + kfUnbound + ")")
	default:
		h.failf(r, dump, "%s: ACCEPTED with integrity checks on; the replica's tx %d differs from the primary's in: %s", desc, after.p, diff)
	}
	// the replica now holds a transaction that is not the primary's
	r.forgedAt = after.p
	delete(r.forms, after.p)
	h.divergenceEpilogue(r, after)
}

// stepAlteredRace delivers the honest export of the next transaction and altered versions of it at the same time.
func (h *harness) stepAlteredRace(r *replica) {
	rt := h.rt
	before := h.verifyState(r, "before altered race")
	N := h.p.n()
	if before.p >= N {
		return
	}
	id := before.p + 1
	t := h.p.txs[id-1]
	base, x, form := t.full, t.x, "full"
	if t.digest != nil && rapid.Bool().Draw(rt, "altDigestBase") {
		base, x, form = t.digest, t.dx, "digest"
	}
	skip := rapid.IntRange(0, 4).Draw(rt, "altSkipIntegrity") == 0
	nAlt := rapid.IntRange(1, 3).Draw(rt, "altCopies")
	var alts []alteration
	unbound := false
	for i := 0; i < nAlt; i++ {
		a := alter(rt, x, base, h.p)
		if a.class == altUnbound && vk.Excluded(kfUnbound) && rapid.IntRange(0, 2).Draw(rt, "keepUnbound") != 0 {
			vk.CountExcluded(kfUnbound)
			continue
		}
		if a.class == altUnbound {
			unbound = true
		}
		alts = append(alts, a)
	}
	if len(alts) == 0 {
		return
	}
	desc := fmt.Sprintf("R%d:race(tx%d %s skip=%v", r.i, id, form, skip)
	for _, a := range alts {
		desc += " | " + a.desc
		h.c.Label("alt-" + strings.SplitN(a.desc, ":", 2)[0])
	}
	desc += ")"
	h.c.Descf("%s", desc)
	type out struct {
		hdr      *store.TxHeader
		err      error
		panicked bool
	}
	res := make([]out, len(alts)+1)
	var wg sync.WaitGroup
	for i := range res {
		wg.Add(1)
		go func(i int) {
			defer wg.Done()
			blob, sk, timeout := base, false, 30*time.Second
			if i > 0 {
				blob, sk, timeout = alts[i-1].blob, skip, 2*time.Second
				if len(blob) >= 12 && binary.BigEndian.Uint64(blob[4:]) > id {
					timeout = 100 * time.Millisecond
				}
			}
			ctx, cancel := context.WithTimeout(bg, timeout)
			defer cancel()
			res[i].hdr, res[i].err, res[i].panicked = deliver(r.st, ctx, blob, sk, false)
		}(i)
	}
	done := make(chan struct{})
	go func() { wg.Wait(); close(done) }()
	select {
	case <-done:
	case <-time.After(roundLimit):
		h.failf(r, nil, "%s did not terminate within %v", desc, roundLimit)
	}
	h.settle(r)
	after := r.state()
	dump := map[string]any{"honest": fmt.Sprintf("%x", base), "before": before.String(), "after": after.String()}
	for i, a := range alts {
		dump[fmt.Sprintf("altered%d", i)] = fmt.Sprintf("%x", a.blob)
		dump[fmt.Sprintf("altered%d-result", i)] = fmt.Sprintf("%v", res[i+1].err)
		if res[i+1].panicked {
			h.c.Label("replicatetx-panic-(C16)")
			vk.AddLabel("TestStoreReplication/panics-recovered-(C16)", 1)
		}
	}
	dump["honest-result"] = fmt.Sprintf("%v", res[0].err)
	if res[0].panicked {
		h.failf(r, dump, "%s: ReplicateTx panicked on the honest export: %v", desc, res[0].err)
	}
	successes := 0
	for _, o := range res {
		if o.err == nil {
			successes++
		}
	}
	switch {
	case after == before:
		if successes > 0 {
			h.failf(r, dump, "%s: %d deliveries returned success but the replica did not change", desc, successes)
		}
		windowFull := (r.cfg.Synced || r.cfg.ExternalAllow) && before.p-before.c >= uint64(r.cfg.MaxActiveTx) &&
			(errors.Is(res[0].err, store.ErrMaxActiveTransactionsLimitExceeded) || errors.Is(res[0].err, store.ErrBufferIsFull))
		if !windowFull {
			h.failf(r, dump, "%s: the honest export of the next transaction was refused (%v) while altered copies of it were delivered", desc, res[0].err)
		}
		for i, a := range alts {
			if errors.Is(res[i+1].err, store.ErrBufferIsFull) && (skip || a.class == altUnbound) {
				r.discardedForged[id] = true // written after the last precommitted transaction before being refused: a restart may find it
				h.c.Label("forgery-refused-after-being-written-(window-full)")
			}
		}
		r.refused++
		r.pendingRefusal = true
		return
	case after.p != before.p+1 || after.c < before.c || after.c > after.p:
		h.failf(r, dump, "%s: the replica did not grow by exactly one transaction: before %s, after %s", desc, before, after)
	}
	if successes > 1 {
		h.failf(r, dump, "%s: %d deliveries for tx %d returned success", desc, successes, id)
	}
	got, rerr := r.st.ReadTxHeader(after.p, true, false)
	if rerr != nil {
		h.failf(r, dump, "%s: tx %d cannot be read back with integrity checks: %v", desc, after.p, rerr)
	}
	if d := hdrDiff(got, t.hdr); d != "" {
		// one of the altered copies won
		if res[0].err == nil {
			h.failf(r, dump, "%s: the honest delivery returned success but the stored tx %d differs from the primary's in: %s", desc, id, d)
		}
		switch {
		case skip:
			h.c.Label("altered-accepted-with-skipIntegrity")
		case unbound && vk.Excluded(kfUnbound):
			vk.CountExcluded(kfUnbound)
			h.c.Label("altered-accepted-(" + kfUnbound + ")")
		default:
			h.failf(r, dump, "%s: an altered copy was ACCEPTED with integrity checks on; the replica's tx %d differs from the primary's in: %s", desc, id, d)
		}
		r.forgedAt = after.p
		delete(r.forms, after.p)
		h.divergenceEpilogue(r, after)
		return
	}
	h.c.Label("race-honest-content-won")
	r.setForm(id, form) // honest and altered copies derive from the same form
	h.verifyTx(r, id, "after "+desc)
	r.outOfOrder++
	r.refused++ // at least one of the concurrent deliveries was refused
	if r.pendingRefusal {
		r.caughtUpAfterRefusal++
		r.pendingRefusal = false
	}
	h.afterAccept(r, after)
}

// divergenceEpilogue: a replica whose last transaction is not the primary's must refuse the primary's next transactions
// (they do not extend its chain); if the forged transaction is only precommitted it can be discarded and replaced.
func (h *harness) divergenceEpilogue(r *replica, s rstate) {
	N := h.p.n()
	f := r.forgedAt
	for _, id := range []uint64{f, f + 1} {
		if id < 1 || id > N {
			continue
		}
		ctx, cancel := context.WithTimeout(bg, 20*time.Second)
		hdr, err, _ := deliver(r.st, ctx, h.p.txs[id-1].full, false, false)
		cancel()
		now := r.state()
		if err == nil || now != s {
			h.failf(r, nil, "the replica holds a forged tx %d; the primary's tx %d was not refused without effect: hdr=%+v err=%v, before %s, after %s", f, id, hdr, err, s, now)
		}
		h.c.Label("honest-refused-by-diverged-replica")
	}
	if f+1 <= N {
		// the same transaction claiming no binary-linking (nothing to compare with the replica's hash tree): it still does
		// not extend the replica's chain
		fs := cloneFields(h.p.txs[f].x.fields)
		fs[idx(fs, "hdr.blTxID")].b = be64(0)
		fs[idx(fs, "hdr.blRoot")].b = make([]byte, 32)
		ctx, cancel := context.WithTimeout(bg, 20*time.Second)
		hdr, err, _ := deliver(r.st, ctx, encode(fs), false, false)
		cancel()
		now := r.state()
		if err == nil || now != s {
			h.failf(r, nil, "the replica holds a forged tx %d; the primary's tx %d with BlTxID=0/BlRoot=0 (PrevAlh = the primary's Alh of tx %d, not the replica's) was not refused without effect: hdr=%+v err=%v, before %s, after %s", f, f+1, f, hdr, err, s, now)
		}
	}
	if r.cfg.ExternalAllow && f > s.c && f > r.allowed && !(f == 1 && r.everHeld2 && vk.Excluded(kfStaleBl)) {
		n, err := r.st.DiscardPrecommittedTxsSince(f)
		if err != nil || n != 1 {
			h.failf(r, nil, "DiscardPrecommittedTxsSince(%d) of the forged tx: n=%d err=%v (%s)", f, n, err, s)
		}
		r.discardedForged[f] = true
		r.forgedAt = 0
		r.discardPoints = append(r.discardPoints, f)
		h.c.Label("forged-tx-discarded")
		h.verifyState(r, "after discarding the forged tx")
		r.refused++
		r.pendingRefusal = true
		return
	}
	r.retired = true
	h.c.Label("replica-retired-(committed-forged-tx)")
}

// catchUp delivers the rest of the history in order and compares everything.
func (h *harness) catchUp(r *replica) {
	N := h.p.n()
	for attempt := 0; ; attempt++ {
		s := h.verifyState(r, "catch-up")
		if s.p >= N {
			break
		}
		if attempt > 4*int(N)+50 {
			h.failf(r, nil, "catch-up does not make progress: %s", s)
		}
		id := s.p + 1
		blob, form := h.honest(id, "cu")
		ctx, cancel := context.WithTimeout(bg, 30*time.Second)
		hdr, err, panicked := deliver(r.st, ctx, blob, false, !r.cfg.ExternalAllow && rapid.IntRange(0, 3).Draw(h.rt, "waitIdx") == 0)
		cancel()
		if panicked {
			h.failf(r, nil, "catch-up: ReplicateTx panicked on the honest export of tx %d: %v", id, err)
		}
		if err != nil {
			if (r.cfg.Synced || r.cfg.ExternalAllow) && s.p-s.c >= uint64(r.cfg.MaxActiveTx) &&
				(errors.Is(err, store.ErrMaxActiveTransactionsLimitExceeded) || errors.Is(err, store.ErrBufferIsFull)) {
				// retry after error: let the replica commit what it holds
				if r.cfg.ExternalAllow {
					h.allow(r, s.p)
				} else {
					h.waitCommitted(r, s.p, "catch-up")
				}
				continue
			}
			h.failf(r, map[string]any{"export": fmt.Sprintf("%x", blob)}, "catch-up: the honest export of tx %d (%s form) is refused by an idle replica at %s: %v", id, form, s, err)
		}
		if hdr.ID != id || hdr.Alh() != h.p.alhOf(id) {
			h.failf(r, nil, "catch-up: ReplicateTx(%d) returned %+v", id, hdr)
		}
		r.setForm(id, form)
		if r.pendingRefusal {
			r.caughtUpAfterRefusal++
			r.pendingRefusal = false
		}
		h.afterAccept(r, r.state())
	}
	if r.cfg.ExternalAllow {
		h.allow(r, N)
	} else {
		h.waitCommitted(r, N, "catch-up")
	}
	s := h.verifyState(r, "final")
	if s.c != N || s.p != N || s.calh != h.p.alhOf(N) {
		h.failf(r, nil, "after the whole history was delivered: %s, primary has %d transactions, Alh %x", s, N, h.p.alhOf(N))
	}
	h.verifyAll(r, "final")
	h.compareIndexes(r)
	h.compareProofs(r)
}

// ---------------------------------------------------------------------------
// queries and proofs

type refView struct {
	err          string
	tx, hc       uint64
	hval         [sha256.Size]byte
	md           []byte
	txmd         []byte
	resolved     []byte
	resolveError bool
}

func errClass(err error) string {
	switch {
	case err == nil:
		return ""
	case errors.Is(err, store.ErrKeyNotFound):
		return "not-found"
	case errors.Is(err, store.ErrExpiredEntry):
		return "expired"
	default:
		return err.Error()
	}
}

func viewOf(ref store.ValueRef, err error) refView {
	v := refView{err: errClass(err)}
	if err != nil || ref == nil {
		return v
	}
	v.tx, v.hc, v.hval = ref.Tx(), ref.HC(), ref.HVal()
	if md := ref.KVMetadata(); md != nil {
		v.md = md.Bytes()
	}
	if md := ref.TxMetadata(); md != nil {
		v.txmd = md.Bytes()
	}
	val, rerr := ref.Resolve()
	v.resolved, v.resolveError = val, rerr != nil
	return v
}

func (h *harness) sameRef(r *replica, what string, key []byte, pv, rv refView) {
	if pv.err != rv.err || pv.tx != rv.tx || pv.hc != rv.hc || pv.hval != rv.hval || !bytes.Equal(pv.md, rv.md) || !bytes.Equal(pv.txmd, rv.txmd) {
		h.failf(r, nil, "%s(%q): primary {err=%q tx=%d rev=%d hval=%x md=%x txmd=%x}, replica {err=%q tx=%d rev=%d hval=%x md=%x txmd=%x}",
			what, short(key), pv.err, pv.tx, pv.hc, pv.hval[:4], pv.md, pv.txmd, rv.err, rv.tx, rv.hc, rv.hval[:4], rv.md, rv.txmd)
	}
	if rv.err != "" || rv.tx == 0 {
		return
	}
	// the value: the model's when the replica was given the values, empty when it was given digests
	var want []byte
	found := false
	for _, e := range h.p.txs[rv.tx-1].entries {
		if bytes.Equal(e.Key, key) {
			want, found = e.Value, true
		}
	}
	if !found {
		h.failf(r, nil, "%s(%q): replica refers to tx %d, which does not write the key", what, short(key), rv.tx)
	}
	forms := r.forms[rv.tx]
	if rv.resolveError {
		if pv.resolveError {
			return // e.g. expired
		}
		if forms["full"] && !forms["digest"] {
			h.failf(r, nil, "%s(%q): value of tx %d cannot be resolved on the replica although it was delivered with its values", what, short(key), rv.tx)
		}
		return
	}
	okFull := forms["full"] && bytes.Equal(rv.resolved, want)
	okDigest := forms["digest"] && len(rv.resolved) == 0
	if !okFull && !okDigest {
		h.failf(r, nil, "%s(%q): replica resolves tx %d to %q, the primary wrote %q (delivered forms %v)", what, short(key), rv.tx, short(rv.resolved), short(want), formList(forms))
	}
}

func waitIndexed(st *store.ImmuStore, n uint64) error {
	ctx, cancel := context.WithTimeout(bg, 60*time.Second)
	defer cancel()
	return st.WaitForIndexingUpto(ctx, n)
}

func scanAll(st *store.ImmuStore, n uint64, desc bool) ([][]byte, []refView, error) {
	snap, err := st.SnapshotMustIncludeTxID(bg, nil, n)
	if err != nil {
		return nil, nil, err
	}
	defer snap.Close()
	rd, err := snap.NewKeyReader(store.KeyReaderSpec{DescOrder: desc, Filters: []store.FilterFn{store.IgnoreExpired, store.IgnoreDeleted}})
	if err != nil {
		return nil, nil, err
	}
	defer rd.Close()
	var keys [][]byte
	var refs []refView
	for {
		k, ref, err := rd.Read(bg)
		if errors.Is(err, store.ErrNoMoreEntries) {
			return keys, refs, nil
		}
		if err != nil {
			return nil, nil, err
		}
		keys = append(keys, append([]byte{}, k...))
		refs = append(refs, viewOf(ref, nil))
	}
}

func (h *harness) compareIndexes(r *replica) {
	N := h.p.n()
	if err := waitIndexed(h.p.st, N); err != nil {
		h.failf(r, nil, "primary: indexing did not reach tx %d within 60s: %v", N, err)
	}
	if err := waitIndexed(r.st, N); err != nil {
		h.failf(r, nil, "replica: indexing did not reach tx %d within 60s: %v", N, err)
	}
	keys := h.p.model.Keys(nil, N)
	for _, k := range keys {
		pr, perr := h.p.st.Get(bg, k)
		rr, rerr := r.st.Get(bg, k)
		h.sameRef(r, "Get", k, viewOf(pr, perr), viewOf(rr, rerr))
		pr, perr = h.p.st.GetWithFilters(bg, k)
		rr, rerr = r.st.GetWithFilters(bg, k)
		h.sameRef(r, "GetWithFilters", k, viewOf(pr, perr), viewOf(rr, rerr))
		vers := h.p.model.Versions(k, N)
		prefs, pc, perr := h.p.st.History(k, 0, false, len(vers)+1)
		rrefs, rc, rerr := r.st.History(k, 0, false, len(vers)+1)
		if errClass(perr) != errClass(rerr) || pc != rc || len(prefs) != len(rrefs) || pc != uint64(len(vers)) {
			h.failf(r, nil, "History(%q): primary %d versions (count %d, err %v), replica %d versions (count %d, err %v), model %d", short(k), len(prefs), pc, perr, len(rrefs), rc, rerr, len(vers))
		}
		for i := range prefs {
			h.sameRef(r, fmt.Sprintf("History[%d]", i), k, viewOf(prefs[i], nil), viewOf(rrefs[i], nil))
			if prefs[i].Tx() != vers[i].Tx {
				h.failf(r, nil, "History(%q)[%d]: tx %d, model %d", short(k), i, prefs[i].Tx(), vers[i].Tx)
			}
		}
		if len(vers) > 1 {
			a := vers[0].Tx
			b := vers[len(vers)-2].Tx
			pr, perr = h.p.st.GetBetween(bg, k, a, b)
			rr, rerr = r.st.GetBetween(bg, k, a, b)
			h.sameRef(r, fmt.Sprintf("GetBetween[%d,%d]", a, b), k, viewOf(pr, perr), viewOf(rr, rerr))
		}
	}
	for _, desc := range []bool{false, true} {
		pk, pv, perr := scanAll(h.p.st, N, desc)
		rk, rv, rerr := scanAll(r.st, N, desc)
		if perr != nil || rerr != nil {
			h.failf(r, nil, "scan: primary err=%v replica err=%v", perr, rerr)
		}
		if len(pk) != len(rk) {
			h.failf(r, nil, "scan(desc=%v): primary returns %d keys, replica %d", desc, len(pk), len(rk))
		}
		for i := range pk {
			if !bytes.Equal(pk[i], rk[i]) {
				h.failf(r, nil, "scan(desc=%v)[%d]: primary key %q, replica key %q", desc, i, short(pk[i]), short(rk[i]))
			}
			h.sameRef(r, "scan", pk[i], pv[i], rv[i])
		}
	}
	if _, err := r.st.Get(bg, []byte("~never~written~")); !errors.Is(err, store.ErrKeyNotFound) {
		h.failf(r, nil, "Get(absent key) on the replica: %v", err)
	}
}

func (h *harness) compareProofs(r *replica) {
	rt := h.rt
	N := h.p.n()
	for q := 0; q < 6; q++ {
		j := uint64(rapid.IntRange(1, int(N)).Draw(rt, "proofTarget"))
		i := uint64(rapid.IntRange(1, int(j)).Draw(rt, "proofSource"))
		// replica proves, states taken from the primary
		sh, err1 := r.st.ReadTxHeader(i, false, false)
		th, err2 := r.st.ReadTxHeader(j, false, false)
		if err1 != nil || err2 != nil {
			h.failf(r, nil, "replica ReadTxHeader(%d/%d): %v %v", i, j, err1, err2)
		}
		dp, err := r.st.DualProof(sh, th)
		if err != nil {
			h.failf(r, nil, "replica DualProof(%d,%d): %v", i, j, err)
		}
		if !store.VerifyDualProof(dp, i, j, h.p.alhOf(i), h.p.alhOf(j)) {
			h.failf(r, nil, "dual proof (%d -> %d) produced by the replica does not verify against the primary's states (%d,%x) (%d,%x)", i, j, i, h.p.alhOf(i), j, h.p.alhOf(j))
		}
		dp2, err := r.st.DualProofV2(sh, th)
		if err != nil {
			h.failf(r, nil, "replica DualProofV2(%d,%d): %v", i, j, err)
		}
		if err := store.VerifyDualProofV2(dp2, i, j, h.p.alhOf(i), h.p.alhOf(j)); err != nil {
			h.failf(r, nil, "dual proof v2 (%d -> %d) produced by the replica does not verify against the primary's states: %v", i, j, err)
		}
		// primary proves, states taken from the replica
		rsi, rsj := sh, th
		pdp, err := h.p.st.DualProof(h.p.hdrOf(i), h.p.hdrOf(j))
		if err != nil {
			h.failf(r, nil, "primary DualProof(%d,%d): %v", i, j, err)
		}
		if !store.VerifyDualProof(pdp, i, j, rsi.Alh(), rsj.Alh()) {
			h.failf(r, nil, "dual proof (%d -> %d) produced by the primary does not verify against the replica's states", i, j)
		}
		// inclusion of an entry proven by the replica against the primary's Eh
		t := h.p.txs[j-1]
		if len(t.x.entries) == 0 {
			continue
		}
		e := t.x.entries[rapid.IntRange(0, len(t.x.entries)-1).Draw(rt, "proofEntry")]
		holder := r.hold
		if err := r.st.ReadTx(j, false, holder); err != nil {
			h.failf(r, nil, "replica ReadTx(%d): %v", j, err)
		}
		ip, err := holder.Proof(e.key)
		if err != nil {
			h.failf(r, nil, "replica inclusion proof for key %q in tx %d: %v", short(e.key), j, err)
		}
		var md *store.KVMetadata
		for _, me := range t.entries {
			if bytes.Equal(me.Key, e.key) {
				md = me.MD()
			}
		}
		es := &store.EntrySpec{Key: e.key, Metadata: md, Value: e.val}
		digestOf, derr := store.EntrySpecDigestFor(t.hdr.Version)
		if derr != nil {
			h.failf(r, nil, "EntrySpecDigestFor(%d): %v", t.hdr.Version, derr)
		}
		if !store.VerifyInclusion(ip, digestOf(es), t.hdr.Eh) {
			h.failf(r, nil, "inclusion proof of key %q in tx %d produced by the replica does not verify against the primary's Eh", short(e.key), j)
		}
	}
}

// ---------------------------------------------------------------------------

func TestStoreReplication(t *testing.T) {
	vk.Check(t, 320, 4800, func(rt *rapid.T, c *vk.Case) {
		p := genPrimary(rt, c)
		defer p.close()
		h := &harness{rt: rt, c: c, p: p}
		nr := rapid.IntRange(1, 3).Draw(rt, "replicas")
		defer func() {
			for _, r := range h.rs {
				if r.st != nil {
					r.st.Close()
				}
				os.RemoveAll(r.dir)
			}
		}()
		for i := 0; i < nr; i++ {
			cfg := stx.GenCfg(rt)
			cfg.MaxKeyLen, cfg.MaxValueLen, cfg.MaxTxEntries = p.cfg.MaxKeyLen, p.cfg.MaxValueLen, p.cfg.MaxTxEntries
			cfg.Synced = rapid.IntRange(0, 5).Draw(rt, "replicaSynced") == 0
			cfg.ExternalAllow = rapid.Bool().Draw(rt, "externalAllow")
			r := &replica{i: i, cfg: cfg, dir: vk.Dir(), forms: map[uint64]map[string]bool{}, discardedForged: map[uint64]bool{},
				hold: store.NewTx(cfg.MaxTxEntries, cfg.MaxKeyLen)}
			h.rs = append(h.rs, r)
			h.openReplica(r)
			c.Descf("replica%d=%s", i, cfg)
		}
		steps := rapid.IntRange(4, 28).Draw(rt, "steps")
		for s := 0; s < steps; s++ {
			r := h.rs[rapid.IntRange(0, nr-1).Draw(rt, "replica")]
			if r.retired {
				continue
			}
			switch rapid.SampledFrom([]string{"round", "round", "round", "round", "altered", "altered", "altered", "altered-race", "discard", "allow", "reopen", "check"}).Draw(rt, "step") {
			case "round":
				h.round(r)
			case "altered":
				h.stepAltered(r)
			case "altered-race":
				h.stepAlteredRace(r)
				c.Label("altered-race")
			case "discard":
				h.stepDiscard(r)
			case "allow":
				h.stepAllow(r)
			case "reopen":
				h.stepReopen(r)
				c.Label("replica-reopen")
			case "check":
				h.verifyAll(r, "check")
			}
		}
		nontrivial := false
		for _, r := range h.rs {
			if r.retired {
				// the prefix before the forged transaction is still the primary's
				h.verifyAll(r, "retired replica")
				continue
			}
			h.catchUp(r)
			c.Label("replica-caught-up")
			if r.outOfOrder > 0 {
				c.Label("out-of-order-or-duplicated")
			}
			if r.caughtUpAfterRefusal > 0 {
				c.Label("refusal-then-catch-up")
			}
			if r.cfg.ExternalAllow {
				c.Label("replica-external-allowance")
			}
			if r.cfg.Synced {
				c.Label("replica-synced")
			}
			if r.cfg.Embedded != p.cfg.Embedded {
				c.Label("embedded-values-differ-from-primary")
			}
			if r.outOfOrder > 0 && r.caughtUpAfterRefusal > 0 {
				nontrivial = true
			}
		}
		c.Descf("n=%d", p.n())
		if nontrivial {
			c.NonTrivial()
		}
	})
}
