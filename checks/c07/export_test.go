package c07

import (
	"bytes"
	"crypto/sha256"
	"encoding/binary"
	"fmt"

	"github.com/codenotary/immudb/embedded/store"
	"pgregory.net/rapid"
)

// ---------------------------------------------------------------------------
// the wire format of an exported transaction (ImmuStore.ExportTx), decoded into
// named fields so that alterations can be structure-aware:
//
//	hdrLen(4) | id(8) prevAlh(32) ts(8) version(2) [v0: nentries(2)] [v1: txmdLen(2) txmd nentries(4)] eh(32) blTxID(8) blRoot(32)
//	| { kLen(2) key mdLen(2) md vLen(4) value }*nentries | tLen(2) tFlag(1)
type field struct {
	name string
	b    []byte
}

type xEntry struct {
	key, md, val []byte
}

// xTx is a decoded honest export.
type xTx struct {
	fields    []field
	hdr       store.TxHeader
	entries   []xEntry
	truncated bool // digest-only form: val holds sha256 of the value
}

func be16(v int) []byte { b := make([]byte, 2); binary.BigEndian.PutUint16(b, uint16(v)); return b }
func be32(v int) []byte { b := make([]byte, 4); binary.BigEndian.PutUint32(b, uint32(v)); return b }
func be64(v uint64) []byte {
	b := make([]byte, 8)
	binary.BigEndian.PutUint64(b, v)
	return b
}

// decodeExport parses a WELL-FORMED export (one produced by ExportTx). It returns an error for anything else.
func decodeExport(blob []byte) (x *xTx, err error) {
	defer func() {
		if r := recover(); r != nil {
			x, err = nil, fmt.Errorf("decodeExport: malformed export: %v", r)
		}
	}()
	x = &xTx{}
	i := 0
	take := func(name string, n int) []byte {
		b := append([]byte(nil), blob[i:i+n]...)
		x.fields = append(x.fields, field{name, b})
		i += n
		return b
	}
	hdrLen := int(binary.BigEndian.Uint32(take("hdrLen", 4)))
	if err := x.hdr.ReadFrom(blob[4 : 4+hdrLen]); err != nil {
		return nil, err
	}
	take("hdr.id", 8)
	take("hdr.prevAlh", 32)
	take("hdr.ts", 8)
	ver := int(binary.BigEndian.Uint16(take("hdr.version", 2)))
	if ver == 0 {
		take("hdr.nentries", 2)
	} else {
		ml := int(binary.BigEndian.Uint16(take("hdr.txmdLen", 2)))
		take("hdr.txmd", ml)
		take("hdr.nentries", 4)
	}
	take("hdr.eh", 32)
	take("hdr.blTxID", 8)
	take("hdr.blRoot", 32)
	if i != 4+hdrLen {
		return nil, fmt.Errorf("decodeExport: header is %d bytes, hdrLen says %d", i-4, hdrLen)
	}
	for e := 0; e < x.hdr.NEntries; e++ {
		p := fmt.Sprintf("e%d.", e)
		kl := int(binary.BigEndian.Uint16(take(p+"kLen", 2)))
		k := take(p+"key", kl)
		ml := int(binary.BigEndian.Uint16(take(p+"mdLen", 2)))
		md := take(p+"md", ml)
		vl := int(binary.BigEndian.Uint32(take(p+"vLen", 4)))
		v := take(p+"val", vl)
		x.entries = append(x.entries, xEntry{k, md, v})
	}
	if i < len(blob) {
		tl := int(binary.BigEndian.Uint16(take("tLen", 2)))
		f := take("tFlag", tl)
		x.truncated = len(f) > 0 && f[0] == 1
	}
	if i != len(blob) {
		return nil, fmt.Errorf("decodeExport: %d trailing bytes", len(blob)-i)
	}
	return x, nil
}

func encode(fs []field) []byte {
	var out []byte
	for _, f := range fs {
		out = append(out, f.b...)
	}
	return out
}

func cloneFields(fs []field) []field {
	out := make([]field, len(fs))
	for i, f := range fs {
		out[i] = field{f.name, append([]byte(nil), f.b...)}
	}
	return out
}

func idx(fs []field, name string) int {
	for i, f := range fs {
		if f.name == name {
			return i
		}
	}
	return -1
}

// fixHdrLen recomputes hdrLen after a change of the header's size.
func fixHdrLen(fs []field) {
	n := 0
	for _, f := range fs {
		if len(f.name) > 4 && f.name[:4] == "hdr." {
			n += len(f.b)
		}
	}
	fs[0].b = be32(n)
}

// valueDigests tells what the replica has to hold for an entry of x.
func (x *xTx) valueHash(e int) [sha256.Size]byte {
	if x.truncated {
		var h [sha256.Size]byte
		copy(h[:], x.entries[e].val)
		return h
	}
	return sha256.Sum256(x.entries[e].val)
}

// ---------------------------------------------------------------------------
// alterations

// altClass says what the property requires of the replica for an altered export delivered with integrity checks ON.
type altClass int

const (
	// mustReject: the alteration changes the content or breaks the chain in a way the replica is able to see
	// (or the framing); an acceptance must leave a tx identical to the primary's (equivalent encoding).
	altMustRejectOrIdentical altClass = iota
	// altUnbound: the alteration touches only header fields that nothing but the transaction's own Alh covers
	// (ts, tx metadata, a consistent (BlTxID, BlRoot) pair): known finding K7-replicated-header-fields-unauthenticated.
	altUnbound
)

type alteration struct {
	desc  string
	class altClass
	blob  []byte
}

// primaryView is what the mutator may borrow from the primary's history to build "plausible" forgeries.
type primaryView interface {
	hdrOf(id uint64) *store.TxHeader
	alhOf(id uint64) [sha256.Size]byte
	n() uint64
}

func flip(rt *rapid.T, b []byte, label string) {
	if len(b) == 0 {
		return
	}
	i := rapid.IntRange(0, len(b)-1).Draw(rt, label+"At")
	b[i] ^= 1 << uint(rapid.IntRange(0, 7).Draw(rt, label+"Bit"))
}

func addBE(b []byte, d int64) {
	switch len(b) {
	case 2:
		binary.BigEndian.PutUint16(b, uint16(int64(binary.BigEndian.Uint16(b))+d))
	case 4:
		binary.BigEndian.PutUint32(b, uint32(int64(binary.BigEndian.Uint32(b))+d))
	case 8:
		binary.BigEndian.PutUint64(b, uint64(int64(binary.BigEndian.Uint64(b))+d))
	}
}

var altKinds = []string{
	"hdr.id", "hdr.prevAlh", "hdr.prevAlh-other", "hdr.prevAlh+bl0", "hdr.prevAlh+bl0", "hdr.ts", "hdr.version", "hdr.txmd", "hdr.nentries", "hdr.eh",
	"hdr.blTxID", "hdr.blRoot", "hdr.bl-pair", "hdrLen", "hdr.pad",
	"key.flip", "key.resize", "kLen", "md.flip", "md.drop", "md.add", "mdLen", "val.flip", "val.resize", "val.empty", "vLen",
	"entries.swap", "entries.drop", "entries.dup", "entries.foreign",
	"trailer.flag", "trailer.len", "trailer.drop", "tail.garbage", "cut", "byte.flip",
}

// alter builds one altered export from the honest decoded x. The result always differs from the honest bytes.
func alter(rt *rapid.T, x *xTx, honest []byte, pv primaryView) alteration {
	for try := 0; try < 20; try++ {
		a := alterOnce(rt, x, pv)
		if a.blob != nil && !bytes.Equal(a.blob, honest) {
			return a
		}
	}
	// fall back to an alteration that always applies
	fs := cloneFields(x.fields)
	fs[idx(fs, "hdr.eh")].b[0] ^= 0x80
	return alteration{"hdr.eh flip (fallback)", altMustRejectOrIdentical, encode(fs)}
}

func alterOnce(rt *rapid.T, x *xTx, pv primaryView) alteration {
	fs := cloneFields(x.fields)
	kind := rapid.SampledFrom(altKinds).Draw(rt, "altKind")
	ne := len(x.entries)
	if ne == 0 {
		switch kind {
		case "key.flip", "key.resize", "kLen", "md.flip", "md.drop", "md.add", "mdLen", "val.flip", "val.resize", "val.empty", "vLen",
			"entries.swap", "entries.drop", "entries.dup", "entries.foreign":
			return alteration{} // a transaction without entries
		}
	}
	e := 0
	if ne > 1 {
		e = rapid.IntRange(0, ne-1).Draw(rt, "altEntry")
	}
	p := fmt.Sprintf("e%d.", e)
	f := func(name string) *field {
		i := idx(fs, name)
		if i < 0 {
			return nil
		}
		return &fs[i]
	}
	small := func(label string) int64 {
		return int64(rapid.SampledFrom([]int{-1, 1, -2, 2, 7, 255, 256, -256}).Draw(rt, label))
	}
	done := func(desc string, cl altClass) alteration { return alteration{kind + ": " + desc, cl, encode(fs)} }
	none := alteration{}
	switch kind {
	case "hdr.id":
		d := small("d")
		addBE(f("hdr.id").b, d)
		return done(fmt.Sprintf("%+d", d), altMustRejectOrIdentical)
	case "hdr.prevAlh":
		flip(rt, f("hdr.prevAlh").b, "prevAlh")
		return done("bit flip", altMustRejectOrIdentical)
	case "hdr.prevAlh-other":
		// the Alh of another transaction of the same primary
		if pv.n() < 2 {
			return none
		}
		o := uint64(rapid.IntRange(1, int(pv.n())).Draw(rt, "otherTx"))
		if o == x.hdr.ID-1 {
			return none
		}
		a := pv.alhOf(o)
		copy(f("hdr.prevAlh").b, a[:])
		return done(fmt.Sprintf("Alh of tx %d", o), altMustRejectOrIdentical)
	case "hdr.prevAlh+bl0":
		// a transaction that does not extend the replica's chain and claims no binary-linking at all (BlTxID = 0,
		// BlRoot = 0: nothing to compare with the replica's hash tree): only the PrevAlh comparison can refuse it
		if rapid.Bool().Draw(rt, "otherAlh") && pv.n() >= 2 {
			o := uint64(rapid.IntRange(1, int(pv.n())).Draw(rt, "otherTx"))
			if o == x.hdr.ID-1 {
				return none
			}
			a := pv.alhOf(o)
			copy(f("hdr.prevAlh").b, a[:])
		} else {
			flip(rt, f("hdr.prevAlh").b, "prevAlh")
		}
		f("hdr.blTxID").b = be64(0)
		f("hdr.blRoot").b = make([]byte, 32)
		return done("PrevAlh changed, BlTxID=0, BlRoot=0", altMustRejectOrIdentical)
	case "hdr.ts":
		d := small("d")
		addBE(f("hdr.ts").b, d)
		return done(fmt.Sprintf("%+d", d), altUnbound)
	case "hdr.version":
		b := f("hdr.version").b
		b[1] ^= byte(rapid.SampledFrom([]int{1, 2, 3}).Draw(rt, "verXor"))
		return done(fmt.Sprintf("-> %d", binary.BigEndian.Uint16(b)), altMustRejectOrIdentical)
	case "hdr.txmd":
		if x.hdr.Version == 0 {
			return none
		}
		md := f("hdr.txmd")
		switch rapid.IntRange(0, 3).Draw(rt, "txmdHow") {
		case 0: // different extra bytes (consistent lengths)
			extra := []byte(fmt.Sprintf("forged-%d", rapid.IntRange(0, 999).Draw(rt, "extra")))
			var nb []byte
			if x.hdr.Metadata != nil && x.hdr.Metadata.HasTruncatedTxID() {
				t, _ := x.hdr.Metadata.GetTruncatedTxID()
				nb = append(nb, 0)
				nb = append(nb, be64(t)...)
			}
			nb = append(nb, 1)
			nb = append(nb, be16(len(extra))...)
			nb = append(nb, extra...)
			md.b = nb
			f("hdr.txmdLen").b = be16(len(nb))
			fixHdrLen(fs)
			return done("extra replaced", altUnbound)
		case 1: // metadata removed
			if len(md.b) == 0 {
				return none
			}
			md.b = nil
			f("hdr.txmdLen").b = be16(0)
			fixHdrLen(fs)
			return done("removed", altUnbound)
		case 2: // truncation marker added / changed
			var nb []byte
			nb = append(nb, 0)
			nb = append(nb, be64(uint64(rapid.IntRange(1, 9).Draw(rt, "truncUpto")))...)
			if x.hdr.Metadata != nil && x.hdr.Metadata.Extra() != nil {
				ex := x.hdr.Metadata.Extra()
				nb = append(nb, 1)
				nb = append(nb, be16(len(ex))...)
				nb = append(nb, ex...)
			}
			md.b = nb
			f("hdr.txmdLen").b = be16(len(nb))
			fixHdrLen(fs)
			return done("truncation marker set", altUnbound)
		default: // raw damage
			if len(md.b) == 0 {
				addBE(f("hdr.txmdLen").b, 1)
				return done("txmdLen 0 -> 1", altMustRejectOrIdentical)
			}
			flip(rt, md.b, "txmd")
			// a flipped bit in the payload of an attribute keeps the metadata well-formed: unbound; in a code/length: malformed
			return done("bit flip", altUnbound)
		}
	case "hdr.nentries":
		d := small("d")
		addBE(f("hdr.nentries").b, d)
		return done(fmt.Sprintf("%+d", d), altMustRejectOrIdentical)
	case "hdr.eh":
		flip(rt, f("hdr.eh").b, "eh")
		return done("bit flip", altMustRejectOrIdentical)
	case "hdr.blTxID":
		d := small("d")
		if rapid.Bool().Draw(rt, "zero") {
			d = -int64(x.hdr.BlTxID)
			if d == 0 {
				return none
			}
		}
		addBE(f("hdr.blTxID").b, d)
		return done(fmt.Sprintf("%+d", d), altMustRejectOrIdentical)
	case "hdr.blRoot":
		flip(rt, f("hdr.blRoot").b, "blRoot")
		return done("bit flip", altMustRejectOrIdentical)
	case "hdr.bl-pair":
		// a (BlTxID, BlRoot) pair that is consistent with the replica's hash tree, but not the one of this tx:
		// the pair of an earlier tx of the primary
		if x.hdr.ID < 3 {
			return none
		}
		o := uint64(rapid.IntRange(2, int(x.hdr.ID)-1).Draw(rt, "pairOf"))
		oh := pv.hdrOf(o)
		if oh == nil || oh.BlTxID == x.hdr.BlTxID {
			return none
		}
		f("hdr.blTxID").b = be64(oh.BlTxID)
		copy(f("hdr.blRoot").b, oh.BlRoot[:])
		return done(fmt.Sprintf("pair of tx %d (BlTxID=%d)", o, oh.BlTxID), altUnbound)
	case "hdrLen":
		d := small("d")
		addBE(f("hdrLen").b, d)
		return done(fmt.Sprintf("%+d", d), altMustRejectOrIdentical)
	case "hdr.pad":
		// bytes appended inside the header record (hdrLen adjusted): TxHeader.ReadFrom ignores them
		i := idx(fs, "hdr.blRoot")
		pad := make([]byte, rapid.IntRange(1, 9).Draw(rt, "pad"))
		fs[i].b = append(fs[i].b, pad...)
		fixHdrLen(fs)
		return done(fmt.Sprintf("%d bytes", len(pad)), altMustRejectOrIdentical)
	case "key.flip":
		flip(rt, f(p+"key").b, "key")
		return done(p+"bit flip", altMustRejectOrIdentical)
	case "key.resize":
		k := f(p + "key")
		if rapid.Bool().Draw(rt, "grow") || len(k.b) < 2 {
			k.b = append(k.b, 'Z')
		} else {
			k.b = k.b[:len(k.b)-1]
		}
		f(p + "kLen").b = be16(len(k.b))
		return done(p+"consistent length change", altMustRejectOrIdentical)
	case "kLen":
		d := small("d")
		addBE(f(p+"kLen").b, d)
		return done(fmt.Sprintf("%s%+d", p, d), altMustRejectOrIdentical)
	case "md.flip":
		md := f(p + "md")
		if len(md.b) == 0 {
			return none
		}
		flip(rt, md.b, "md")
		return done(p+"bit flip", altMustRejectOrIdentical)
	case "md.drop":
		md := f(p + "md")
		if len(md.b) == 0 {
			return none
		}
		md.b = nil
		f(p + "mdLen").b = be16(0)
		return done(p+"kv metadata removed", altMustRejectOrIdentical)
	case "md.add":
		md := f(p + "md")
		attr := rapid.SampledFrom([]string{"deleted", "nonindexable", "expiry"}).Draw(rt, "attr")
		var nb []byte
		has := func(code byte) bool { // canonical order: deleted(0) expiresAt(1)+8 nonIndexable(2)
			for i := 0; i < len(md.b); {
				if md.b[i] == code {
					return true
				}
				if md.b[i] == 1 {
					i += 8
				}
				i++
			}
			return false
		}
		switch attr {
		case "deleted":
			if has(0) {
				return none
			}
			nb = append([]byte{0}, md.b...)
		case "nonindexable":
			if has(2) {
				return none
			}
			nb = append(append([]byte{}, md.b...), 2)
		default:
			if has(1) {
				return none
			}
			nb = append(append([]byte{1}, be64(32503680000)...), md.b...) // year 3000; attribute order is not canonical on purpose
		}
		md.b = nb
		f(p + "mdLen").b = be16(len(nb))
		return done(p+attr, altMustRejectOrIdentical)
	case "mdLen":
		d := small("d")
		addBE(f(p+"mdLen").b, d)
		return done(fmt.Sprintf("%s%+d", p, d), altMustRejectOrIdentical)
	case "val.flip":
		v := f(p + "val")
		if len(v.b) == 0 {
			return none
		}
		flip(rt, v.b, "val")
		return done(p+"bit flip", altMustRejectOrIdentical)
	case "val.resize":
		v := f(p + "val")
		if rapid.Bool().Draw(rt, "grow") || len(v.b) == 0 {
			v.b = append(v.b, 'Z')
		} else {
			v.b = v.b[:len(v.b)-1]
		}
		f(p + "vLen").b = be32(len(v.b))
		return done(p+"consistent length change", altMustRejectOrIdentical)
	case "val.empty":
		v := f(p + "val")
		if len(v.b) == 0 {
			return none
		}
		v.b = nil
		f(p + "vLen").b = be32(0)
		return done(p+"value emptied", altMustRejectOrIdentical)
	case "vLen":
		d := small("d")
		addBE(f(p+"vLen").b, d)
		return done(fmt.Sprintf("%s%+d", p, d), altMustRejectOrIdentical)
	case "entries.swap":
		if ne < 2 {
			return none
		}
		o := (e + 1 + rapid.IntRange(0, ne-2).Draw(rt, "swapWith")) % ne
		q := fmt.Sprintf("e%d.", o)
		for _, s := range []string{"kLen", "key", "mdLen", "md", "vLen", "val"} {
			a, b := f(p+s), f(q+s)
			a.b, b.b = b.b, a.b
		}
		return done(fmt.Sprintf("entries %d and %d", e, o), altMustRejectOrIdentical)
	case "entries.drop", "entries.dup":
		fix := rapid.Bool().Draw(rt, "fixCount")
		i0 := idx(fs, p+"kLen")
		rec := cloneFields(fs[i0 : i0+6])
		var nfs []field
		if kind == "entries.drop" {
			if ne < 2 {
				return none
			}
			nfs = append(append(nfs, fs[:i0]...), fs[i0+6:]...)
		} else {
			if rapid.Bool().Draw(rt, "dupOtherKey") {
				rec[1].b = append(append([]byte{}, rec[1].b...), '2')
				rec[0].b = be16(len(rec[1].b))
			}
			nfs = append(append(append(nfs, fs[:i0+6]...), rec...), fs[i0+6:]...)
		}
		fs = nfs
		if fix {
			d := int64(1)
			if kind == "entries.drop" {
				d = -1
			}
			addBE(fs[idx(fs, "hdr.nentries")].b, d)
		}
		return done(fmt.Sprintf("entry %d, count fixed=%v", e, fix), altMustRejectOrIdentical)
	case "entries.foreign":
		// the entries of another tx of the primary under this header are not generated here (the harness delivers
		// whole foreign transactions as out-of-order deliveries); instead: this entry's value replaced by another entry's
		if ne < 2 {
			return none
		}
		o := (e + 1) % ne
		q := fmt.Sprintf("e%d.", o)
		if bytes.Equal(f(p+"val").b, f(q+"val").b) {
			return none
		}
		f(p + "val").b = append([]byte(nil), f(q+"val").b...)
		f(p + "vLen").b = append([]byte(nil), f(q+"vLen").b...)
		return done(fmt.Sprintf("value of entry %d := value of entry %d", e, o), altMustRejectOrIdentical)
	case "trailer.flag":
		t := f("tFlag")
		if t == nil || len(t.b) == 0 {
			return none
		}
		nv := byte(rapid.SampledFrom([]int{0, 1, 2, 255}).Draw(rt, "flag"))
		if nv == t.b[0] {
			return none
		}
		t.b[0] = nv
		return done(fmt.Sprintf("-> %d", nv), altMustRejectOrIdentical)
	case "trailer.len":
		t := f("tLen")
		if t == nil {
			return none
		}
		if rapid.Bool().Draw(rt, "longer") {
			t.b = be16(2)
			tf := f("tFlag")
			tf.b = append(tf.b, 0)
			return done("2 bytes", altMustRejectOrIdentical)
		}
		addBE(t.b, small("d"))
		return done("length only", altMustRejectOrIdentical)
	case "trailer.drop":
		i := idx(fs, "tLen")
		if i < 0 {
			return none
		}
		fs = fs[:i]
		return done("trailer removed", altMustRejectOrIdentical)
	case "tail.garbage":
		fs = append(fs, field{"garbage", make([]byte, rapid.IntRange(1, 5).Draw(rt, "garbage"))})
		return done("", altMustRejectOrIdentical)
	case "cut":
		b := encode(fs)
		n := rapid.IntRange(0, len(b)-1).Draw(rt, "cutAt")
		return alteration{fmt.Sprintf("cut: to %d of %d bytes", n, len(b)), altMustRejectOrIdentical, b[:n]}
	case "byte.flip":
		b := encode(fs)
		i := rapid.IntRange(0, len(b)-1).Draw(rt, "flipAt")
		b[i] ^= 1 << uint(rapid.IntRange(0, 7).Draw(rt, "flipBit"))
		// classify by the field hit
		off := 0
		name := ""
		for _, fl := range fs {
			if i < off+len(fl.b) {
				name = fl.name
				break
			}
			off += len(fl.b)
		}
		cl := altMustRejectOrIdentical
		if name == "hdr.ts" || name == "hdr.txmd" {
			cl = altUnbound
		}
		return alteration{fmt.Sprintf("byte.flip: offset %d (%s)", i, name), cl, b}
	}
	return none
}
