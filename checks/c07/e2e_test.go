package c07

import (
	"bytes"
	"context"
	"fmt"
	"math/rand"
	"net"
	"os"
	"testing"
	"time"

	"github.com/codenotary/immudb/pkg/api/schema"
	"github.com/codenotary/immudb/pkg/auth"
	"github.com/codenotary/immudb/pkg/client"
	"github.com/codenotary/immudb/pkg/server"

	"verif/internal/vk"
)

// ---------------------------------------------------------------------------
// thorough tier only: the real pkg/replication replicator between in-process servers on loopback
// (the fixture of pkg/integration/replication), random primary load, replica restarts, final states compared.

type e2eServer struct {
	dir  string
	port int
	srv  *server.ImmuServer
}

func (s *e2eServer) start() error {
	opts := server.DefaultOptions().WithMetricsServer(false).WithWebServer(false).WithPgsqlServer(false).
		WithPort(s.port).WithDir(s.dir)
	opts.LogFormat = "json" // keeps the banner off stdout
	srv := server.DefaultServer().WithOptions(opts).WithLogger(quietLog()).(*server.ImmuServer)
	if err := srv.Initialize(); err != nil {
		return err
	}
	if s.port == 0 {
		s.port = srv.Listener.Addr().(*net.TCPAddr).Port
	}
	go srv.Start()
	deadline := time.Now().Add(10 * time.Second)
	for {
		conn, err := net.DialTimeout("tcp", fmt.Sprintf("localhost:%d", s.port), 50*time.Millisecond)
		if err == nil {
			conn.Close()
			break
		}
		if time.Now().After(deadline) {
			return fmt.Errorf("server on port %d not reachable: %v", s.port, err)
		}
		time.Sleep(10 * time.Millisecond)
	}
	s.srv = srv
	return nil
}

func (s *e2eServer) stop() {
	if s.srv != nil {
		s.srv.Stop()
		s.srv = nil
	}
}

func (s *e2eServer) session(stateDir, db string) (client.ImmuClient, error) {
	c := client.NewClient().WithOptions(client.DefaultOptions().WithDir(stateDir).WithAddress("localhost").WithPort(s.port))
	if err := c.OpenSession(context.Background(), []byte("immudb"), []byte("immudb"), db); err != nil {
		return nil, err
	}
	return c, nil
}

func loopbackWorks() error {
	l, err := net.Listen("tcp", "localhost:0")
	if err != nil {
		return err
	}
	defer l.Close()
	go func() {
		if c, err := l.Accept(); err == nil {
			c.Close()
		}
	}()
	c, err := net.DialTimeout("tcp", l.Addr().String(), time.Second)
	if err != nil {
		return err
	}
	return c.Close()
}

func TestE2EReplicatorSmoke(t *testing.T) {
	if !vk.Thorough() {
		t.Skip("thorough tier only")
	}
	if vk.Shard() > 3 {
		t.Skip("runs on 4 shards")
	}
	if err := loopbackWorks(); err != nil {
		vk.AddLabel("TestE2EReplicatorSmoke/SKIPPED-no-loopback-sockets", 1)
		t.Logf("loopback sockets unavailable (%v): the end-to-end smoke run did NOT run", err)
		return
	}
	// configurations are derived from the shard: sync with 1 ack, async, sync with 2 replicas
	type cfg struct {
		sync     bool
		acks     int
		replicas int
	}
	cfgs := []cfg{{true, 1, 1}, {false, 0, 1}, {true, 1, 2}, {true, 2, 2}}
	cf := cfgs[vk.Shard()%len(cfgs)]
	rnd := rand.New(rand.NewSource(int64(vk.SeedFor("e2e")))) // load shape only; no oracle depends on it
	e := vk.NewEnum("TestE2EReplicatorSmoke")
	e.Descf("sync=%v acks=%d replicas=%d seed=%d", cf.sync, cf.acks, cf.replicas, vk.Seed())
	fail := func(format string, args ...any) {
		e.Failf(t, nil, format, args...)
	}
	root := vk.Dir()
	defer os.RemoveAll(root)
	stateDir := root + "/client"
	os.MkdirAll(stateDir, 0o755)
	mk := func(name string) *e2eServer {
		d := root + "/" + name
		os.MkdirAll(d, 0o755)
		return &e2eServer{dir: d}
	}
	prim := mk("primary")
	if err := prim.start(); err != nil {
		t.Logf("cannot start the primary server: %v", err)
		vk.AddLabel("TestE2EReplicatorSmoke/SKIPPED-server-start-failed", 1)
		return
	}
	defer prim.stop()
	ctx := context.Background()
	pc, err := prim.session(stateDir, "defaultdb")
	if err != nil {
		fail("primary session: %v", err)
		return
	}
	settings := &schema.DatabaseNullableSettings{}
	if cf.sync {
		settings.ReplicationSettings = &schema.ReplicationNullableSettings{
			SyncReplication: &schema.NullableBool{Value: true}, SyncAcks: &schema.NullableUint32{Value: uint32(cf.acks)}}
	}
	if _, err := pc.CreateDatabaseV2(ctx, "primarydb", settings); err != nil {
		fail("create primarydb: %v", err)
		return
	}
	if _, err := pc.UseDatabase(ctx, &schema.Database{DatabaseName: "primarydb"}); err != nil {
		fail("use primarydb: %v", err)
		return
	}
	if err := pc.CreateUser(ctx, []byte("replicator"), []byte("replicator1Pwd!"), auth.PermissionAdmin, "primarydb"); err != nil {
		fail("create replicator user: %v", err)
		return
	}
	defer pc.CloseSession(ctx)
	var reps []*e2eServer
	for i := 0; i < cf.replicas; i++ {
		r := mk(fmt.Sprintf("replica%d", i))
		if err := r.start(); err != nil {
			fail("start replica %d: %v", i, err)
			return
		}
		defer r.stop()
		rc, err := r.session(stateDir, "defaultdb")
		if err != nil {
			fail("replica session: %v", err)
			return
		}
		_, err = rc.CreateDatabaseV2(ctx, "replicadb", &schema.DatabaseNullableSettings{ReplicationSettings: &schema.ReplicationNullableSettings{
			Replica: &schema.NullableBool{Value: true}, SyncReplication: &schema.NullableBool{Value: cf.sync},
			PrimaryDatabase: &schema.NullableString{Value: "primarydb"}, PrimaryHost: &schema.NullableString{Value: "localhost"},
			PrimaryPort: &schema.NullableUint32{Value: uint32(prim.port)}, PrimaryUsername: &schema.NullableString{Value: "replicator"},
			PrimaryPassword: &schema.NullableString{Value: "replicator1Pwd!"}}})
		rc.CloseSession(ctx)
		if err != nil {
			fail("create replicadb: %v", err)
			return
		}
		reps = append(reps, r)
	}
	// load with replica restarts in between (with sync replication a Set blocks while too few replicas are up:
	// restarts are done between writes, and only as many replicas are down as the acks allow)
	nTx := 40 + rnd.Intn(60)
	want := map[string][]byte{}
	restarts := 0
	for i := 0; i < nTx; i++ {
		n := 1 + rnd.Intn(3)
		var kvs []*schema.KeyValue
		seen := map[string]bool{}
		for j := 0; j < n; j++ {
			k := fmt.Sprintf("key-%d", rnd.Intn(25))
			if seen[k] {
				continue
			}
			seen[k] = true
			v := []byte(fmt.Sprintf("value-%d-%d", i, j))
			if rnd.Intn(6) == 0 {
				v = []byte{}
			}
			kvs = append(kvs, &schema.KeyValue{Key: []byte(k), Value: v})
			want[k] = v
		}
		sctx, cancel := context.WithTimeout(ctx, 60*time.Second)
		_, err := pc.SetAll(sctx, &schema.SetRequest{KVs: kvs})
		cancel()
		if err != nil {
			fail("Set %d on the primary: %v", i, err)
			return
		}
		if rnd.Intn(12) == 0 {
			// with synchronous replication a Set blocks while too few replicas are up: restarts happen between two writes
			ri := rnd.Intn(len(reps))
			reps[ri].stop()
			time.Sleep(time.Duration(rnd.Intn(50)) * time.Millisecond)
			if err := reps[ri].start(); err != nil {
				fail("restart replica %d: %v", ri, err)
				return
			}
			restarts++
		}
	}
	ps, err := pc.CurrentState(ctx)
	if err != nil {
		fail("primary CurrentState: %v", err)
		return
	}
	for i, r := range reps {
		rc, err := r.session(stateDir, "replicadb")
		if err != nil {
			fail("replica %d session: %v", i, err)
			return
		}
		deadline := time.Now().Add(90 * time.Second)
		var rs *schema.ImmutableState
		for {
			rs, err = rc.CurrentState(ctx)
			if err == nil && rs.TxId >= ps.TxId {
				break
			}
			if time.Now().After(deadline) {
				fail("replica %d did not reach the primary's state (tx %d) within 90s: %+v err=%v", i, ps.TxId, rs, err)
				return
			}
			time.Sleep(20 * time.Millisecond)
		}
		if rs.TxId != ps.TxId || !bytes.Equal(rs.TxHash, ps.TxHash) {
			fail("replica %d final state (%d, %x) differs from the primary's (%d, %x)", i, rs.TxId, rs.TxHash, ps.TxId, ps.TxHash)
			return
		}
		for k, v := range want {
			en, err := rc.Get(ctx, []byte(k))
			if err != nil || !bytes.Equal(en.Value, v) {
				fail("replica %d Get(%s) = %v, %v; the primary wrote %q", i, k, en, err, v)
				return
			}
			pe, err := pc.Get(ctx, []byte(k))
			if err != nil || pe.Tx != en.Tx || pe.Revision != en.Revision {
				fail("replica %d Get(%s): tx %d rev %d, primary: %+v %v", i, k, en.Tx, en.Revision, pe, err)
				return
			}
		}
		rc.CloseSession(ctx)
	}
	if restarts > 0 {
		e.NonTrivial()
	}
	e.Label("e2e-ran")
	if cf.sync {
		e.Label("e2e-sync")
	} else {
		e.Label("e2e-async")
	}
	e.Done()
}
