package c07

import (
	"context"
	"encoding/binary"
	"fmt"
	"os"
	"runtime"
	"sync"
	"sync/atomic"
	"testing"
	"time"

	"github.com/codenotary/immudb/embedded/store"
	"pgregory.net/rapid"

	"verif/internal/fsim"
	"verif/internal/stx"
	"verif/internal/vk"
)

// ---------------------------------------------------------------------------
// what a replica reports as its DURABLE precommit state (PrecommittedAlh: the acknowledgement of synchronous
// replication) must be durable when it is reported. The replica store (synced, external commit allowance) runs on the
// recording appendables of internal/fsim with a syncer that is slow relative to the feeders; a poller reads
// PrecommittedAlh while ReplicateTx calls are in flight. For every answer (N, alh): alh is the primary's Alh of tx N and
// the record of tx N in the tx log is followed by a completed fsync of the tx log in the events recorded up to the
// moment the answer was obtained (the event list is read AFTER the poll: the store publishes the durable id only after
// its fsync returned, so this can never fire on a correct store; no clock is involved).

func TestDurableAckIsDurable(t *testing.T) {
	vk.Check(t, 96, 2400, func(rt *rapid.T, c *vk.Case) {
		nTx := rapid.IntRange(6, 24).Draw(rt, "nTx")
		feeders := rapid.IntRange(1, 3).Draw(rt, "feeders")
		allowFirst := rapid.IntRange(0, 3).Draw(rt, "committedBefore")
		syncFreqMs := rapid.SampledFrom([]int{1, 2, 5}).Draw(rt, "syncFrequencyMs")
		syncDelayUs := rapid.SampledFrom([]int{0, 200, 1000, 3000}).Draw(rt, "fsyncDelayUs") // schedule perturbation only
		pollYields := rapid.SampledFrom([]int{0, 0, 1, 10}).Draw(rt, "pollPace")
		ioConc := rapid.IntRange(1, 2).Draw(rt, "ioConc")
		c.Descf("n=%d feeders=%d committedBefore=%d syncFreq=%dms fsyncDelay=%dus pollPace=%d io=%d", nTx, feeders, allowFirst, syncFreqMs, syncDelayUs, pollYields, ioConc)
		root := vk.Dir()
		defer os.RemoveAll(root)
		p, err := store.Open(root+"/primary", lightOpts(false, 256, 1<<20, 0, 1))
		if err != nil {
			c.Failf(rt, nil, "open primary: %v", err)
		}
		defer p.Close()
		hold := store.NewTx(16, 32)
		blobs := make([][]byte, nTx+1)
		alhs := make([][32]byte, nTx+1)
		for i := 1; i <= nTx; i++ {
			ne := rapid.IntRange(1, 4).Draw(rt, "entries")
			var es []stx.Entry
			for j := 0; j < ne; j++ {
				es = append(es, stx.Entry{Key: []byte(fmt.Sprintf("k%d.%d", i, j)), Value: []byte(fmt.Sprintf("value-%d-%d", i, j))})
			}
			hdr, err := commitTx(p, es, nil)
			if err != nil {
				c.Failf(rt, nil, "primary commit: %v", err)
			}
			alhs[i] = hdr.Alh()
			if blobs[i], err = p.ExportTx(hdr.ID, false, false, hold); err != nil {
				c.Failf(rt, nil, "ExportTx(%d): %v", i, err)
			}
		}
		rdir := root + "/replica"
		fs := fsim.New(rdir)
		if syncDelayUs > 0 {
			fs.Yield = func(log string, k fsim.Kind) {
				if k == fsim.Sync && log == "tx" {
					time.Sleep(time.Duration(syncDelayUs) * time.Microsecond)
				}
			}
		}
		ropts := lightOpts(false, 256, 1<<20, 0, ioConc).WithSynced(true).WithSyncFrequency(time.Duration(syncFreqMs) * time.Millisecond).
			WithExternalCommitAllowance(true).WithAppFactory(fs.Factory())
		r, err := store.Open(rdir, ropts)
		if err != nil {
			c.Failf(rt, nil, "open replica: %v", err)
		}
		defer r.Close()
		ctx, cancel := context.WithTimeout(bg, 120*time.Second) // liveness bound only
		defer cancel()
		if allowFirst >= nTx {
			allowFirst = nTx - 1
		}
		for i := 1; i <= allowFirst; i++ {
			if _, err := r.ReplicateTx(ctx, blobs[i], false, false); err != nil {
				c.Failf(rt, nil, "ReplicateTx(%d): %v", i, err)
			}
		}
		if allowFirst > 0 {
			if err := r.AllowCommitUpto(uint64(allowFirst)); err != nil {
				c.Failf(rt, nil, "AllowCommitUpto(%d): %v", allowFirst, err)
			}
			if err := r.WaitForTx(ctx, uint64(allowFirst), false); err != nil {
				c.Failf(rt, nil, "tx %d not committed after AllowCommitUpto: %v", allowFirst, err)
			}
		}
		// feeders deliver the rest (each call waits for its predecessor inside ReplicateTx), nothing more is allowed to commit
		type sample struct {
			k   int // number of storage events recorded when the answer had been obtained
			alh [32]byte
		}
		first := map[uint64]sample{} // per reported id: the earliest answer
		var polls int64
		var stop int32
		var feedErr atomic.Value
		var wg, pw sync.WaitGroup
		for f := 0; f < feeders; f++ {
			wg.Add(1)
			go func(f int) {
				defer wg.Done()
				for i := allowFirst + 1 + f; i <= nTx; i += feeders {
					if _, err := r.ReplicateTx(ctx, blobs[i], false, false); err != nil {
						feedErr.Store(fmt.Sprintf("ReplicateTx(%d): %v", i, err))
						return
					}
				}
			}(f)
		}
		pw.Add(1)
		go func() {
			defer pw.Done()
			for atomic.LoadInt32(&stop) == 0 {
				id, alh := r.PrecommittedAlh()
				k := fs.Len()
				polls++
				if _, seen := first[id]; !seen {
					first[id] = sample{k, alh}
				}
				for y := 0; y < pollYields; y++ {
					runtime.Gosched()
				}
			}
		}()
		wg.Wait()
		atomic.StoreInt32(&stop, 1)
		pw.Wait()
		if m := feedErr.Load(); m != nil {
			c.Failf(rt, nil, "%s", m)
		}
		// evaluation
		evs := fs.Events()
		appendAt := map[uint64]int{}
		var syncs []int // indexes of completed fsyncs of the tx log
		for i, e := range evs {
			if e.Log != "tx" {
				continue
			}
			switch e.Kind {
			case fsim.Append:
				if len(e.Data) >= 8 {
					appendAt[binary.BigEndian.Uint64(e.Data)] = i // the tx record starts with the id (values are not embedded)
				}
			case fsim.Sync:
				syncs = append(syncs, i)
			}
		}
		reportedAhead := 0
		for id, s := range first {
			if id > uint64(nTx) {
				c.Failf(rt, nil, "PrecommittedAlh reported tx %d, only %d were delivered", id, nTx)
			}
			if id == 0 {
				continue
			}
			if s.alh != alhs[id] {
				c.Failf(rt, nil, "PrecommittedAlh reported (%d, %x); the primary's Alh of tx %d is %x", id, s.alh, id, alhs[id])
			}
			if id <= uint64(allowFirst) {
				continue // committed before the recording of samples started
			}
			a, ok := appendAt[id]
			if !ok {
				c.Failf(rt, nil, "PrecommittedAlh reported tx %d as durably precommitted; no record of tx %d was ever appended to the tx log", id, id)
			}
			durable := false
			for _, si := range syncs {
				if si > a && si < s.k {
					durable = true
					break
				}
			}
			if !durable {
				c.Failf(rt, map[string]any{"append_event": a, "events_at_poll": s.k, "tx_log_fsyncs": syncs},
					"PrecommittedAlh (the replica's synchronous-replication acknowledgement) reported tx %d as DURABLY precommitted when %d storage events had happened; "+
						"its tx-log record was appended at event %d and no fsync of the tx log completed between the two: the primary would count an ack for a transaction no replica durably holds",
					id, s.k, a)
			}
			reportedAhead++
		}
		id, alh := r.PrecommittedAlh()
		if id != uint64(nTx) || alh != alhs[nTx] {
			c.Failf(rt, nil, "after all deliveries returned PrecommittedAlh = (%d, %x), expected (%d, %x)", id, alh, nTx, alhs[nTx])
		}
		if cid, _ := r.CommittedAlh(); cid != uint64(allowFirst) {
			c.Failf(rt, nil, "the replica committed tx %d, only %d were allowed", cid, allowFirst)
		}
		vk.AddLabel("TestDurableAckIsDurable/polls", polls)
		c.Label(fmt.Sprintf("feeders-%d", feeders))
		if syncDelayUs > 0 {
			c.Label("slow-fsync")
		}
		if reportedAhead >= 2 {
			c.Label("several-distinct-durable-ids-observed")
			c.NonTrivial()
		}
	})
}
