package c07

import (
	"bytes"
	"context"
	"errors"
	"fmt"
	"os"
	"runtime"
	"sync"
	"sync/atomic"
	"testing"
	"time"

	"github.com/codenotary/immudb/embedded/logger"
	"github.com/codenotary/immudb/embedded/store"
	"pgregory.net/rapid"

	"verif/internal/stx"
	"verif/internal/vk"
)

// ---------------------------------------------------------------------------
// several replicas of ONE primary pulling concurrently: every replica has its own puller goroutine
// (ExportTx on the primary, ReplicateTx on the replica), some start from an empty store while others
// already follow the tip, some replicate with skipIntegrityCheck; the primary keeps committing and
// other clients export at the same time. Concurrent exports are independent of each other: every
// export is the committed transaction, every replica ends with exactly the primary's history.

const stuckAfter = 3 // the same bytes refused this many times in a row: the replicator would retry them for ever

type pullTx struct {
	entries []stx.Entry
	hdr     atomic.Pointer[store.TxHeader] // set by the committer right after the commit returned
}

type pullFailures struct {
	mu   sync.Mutex
	msgs []string
}

func (f *pullFailures) add(format string, args ...any) {
	f.mu.Lock()
	if len(f.msgs) < 8 {
		f.msgs = append(f.msgs, fmt.Sprintf(format, args...))
	}
	f.mu.Unlock()
}

func (f *pullFailures) any() bool {
	f.mu.Lock()
	defer f.mu.Unlock()
	return len(f.msgs) > 0
}

func lightOpts(embedded bool, maxValueLen, fileSize, vlogCache, ioConc int) *store.Options {
	o := store.DefaultOptions().WithLogger(logger.NewMemoryLoggerWithLevel(logger.LogError)).WithSynced(false).
		WithMaxConcurrency(12).WithMaxTxEntries(16).WithMaxKeyLen(32).WithMaxValueLen(maxValueLen).
		WithEmbeddedValues(embedded).WithFileSize(fileSize).WithVLogCacheSize(vlogCache).WithMaxWaitees(64).
		WithMaxActiveTransactions(1000).WithWriteBufferSize(4096).
		WithIndexOptions(store.DefaultIndexOptions().WithCacheSize(32).WithMaxActiveSnapshots(20)).
		WithAHTOptions(store.DefaultAHTOptions().WithWriteBufferSize(4096))
	if embedded {
		o.WithMaxIOConcurrency(1)
	} else {
		o.WithMaxIOConcurrency(ioConc)
	}
	return o
}

// checkExport compares an export produced by the primary with the committed transaction.
func checkExport(blob []byte, id uint64, t *pullTx, skip bool) string {
	x, err := decodeExport(blob)
	if err != nil {
		return fmt.Sprintf("ExportTx(%d): undecodable export: %v", id, err)
	}
	if x.hdr.ID != id || x.truncated || len(x.entries) != len(t.entries) {
		return fmt.Sprintf("ExportTx(%d): export carries id %d, %d entries (truncated=%v); committed: %d entries", id, x.hdr.ID, len(x.entries), x.truncated, len(t.entries))
	}
	if h := t.hdr.Load(); h != nil && !skip && x.hdr.Alh() != h.Alh() {
		return fmt.Sprintf("ExportTx(%d): header of the export has Alh %x, the committed tx %x", id, x.hdr.Alh(), h.Alh())
	}
	for j, e := range t.entries {
		if !bytes.Equal(x.entries[j].key, e.Key) || !bytes.Equal(x.entries[j].md, mdBytes(e)) {
			return fmt.Sprintf("ExportTx(%d): entry %d key/metadata %q/%x, committed %q/%x", id, j, x.entries[j].key, x.entries[j].md, e.Key, mdBytes(e))
		}
		if !bytes.Equal(x.entries[j].val, e.Value) {
			return fmt.Sprintf("ExportTx(%d): entry %d (key %q) exported with value %q, the committed value is %q (export made while other exports were running)",
				id, j, e.Key, short(x.entries[j].val), short(e.Value))
		}
	}
	return ""
}

func TestConcurrentPullers(t *testing.T) {
	vk.Check(t, 320, 8000, func(rt *rapid.T, c *vk.Case) {
		embedded := rapid.IntRange(0, 3).Draw(rt, "primaryEmbedded") == 0
		maxVal := rapid.SampledFrom([]int{64, 256, 4096}).Draw(rt, "maxValueLen")
		fileSize := rapid.SampledFrom([]int{512, 4096, 1 << 20}).Draw(rt, "fileSize")
		vcache := rapid.SampledFrom([]int{0, 0, 4, 100}).Draw(rt, "vlogCache")
		ioConc := rapid.IntRange(1, 3).Draw(rt, "ioConc")
		nTx := rapid.IntRange(8, 40).Draw(rt, "nTx")
		n0 := rapid.IntRange(1, nTx-1).Draw(rt, "committedBeforePulling")
		nRep := rapid.IntRange(2, 8).Draw(rt, "replicas")
		nClients := rapid.IntRange(0, 2).Draw(rt, "exportClients")
		// history: multi-entry transactions with small distinct values
		txs := make([]*pullTx, nTx)
		shape := ""
		for i := range txs {
			ne := rapid.IntRange(1, 8).Draw(rt, "entries")
			var es []stx.Entry
			for j := 0; j < ne; j++ {
				k := []byte(fmt.Sprintf("k%d", rapid.IntRange(0, 30).Draw(rt, "key")))
				v := []byte(fmt.Sprintf("v%d.%d/", i+1, j))
				switch rapid.IntRange(0, 9).Draw(rt, "vshape") {
				case 0:
					v = []byte{}
				case 1, 2:
					v = append(v, bytes.Repeat([]byte{byte('a' + (i+j)%26)}, rapid.IntRange(1, maxVal-len(v)).Draw(rt, "pad"))...)
				default:
					v = append(v, bytes.Repeat([]byte{byte('A' + (i*7+j)%26)}, rapid.IntRange(0, 24).Draw(rt, "pad"))...)
				}
				e := stx.Entry{Key: k, Value: v}
				if rapid.IntRange(0, 9).Draw(rt, "md") == 0 {
					e.Deleted = true
				}
				es = append(es, e)
			}
			txs[i] = &pullTx{entries: stx.Dedup(es)}
			shape += fmt.Sprintf("%d ", len(txs[i].entries))
		}
		type repSpec struct {
			atTip    bool // already holds the first n0 transactions when the pullers start
			skip     bool
			embedded bool
			yields   int // Gosched calls between two pulls: the pace
		}
		specs := make([]repSpec, nRep)
		tips, catchers, skips := 0, 0, 0
		for i := range specs {
			specs[i] = repSpec{
				atTip:    rapid.Bool().Draw(rt, "atTip"),
				skip:     rapid.IntRange(0, 3).Draw(rt, "skipIntegrity") == 0,
				embedded: rapid.Bool().Draw(rt, "replicaEmbedded"),
				yields:   rapid.SampledFrom([]int{0, 0, 1, 5, 50}).Draw(rt, "pace"),
			}
			if specs[i].atTip {
				tips++
			} else {
				catchers++
			}
			if specs[i].skip {
				skips++
			}
		}
		committerYields := rapid.SampledFrom([]int{0, 1, 10, 100}).Draw(rt, "committerPace")
		c.Descf("emb=%v mv=%d fs=%d vc=%d io=%d n=%d n0=%d clients=%d commitPace=%d hist=[%s] replicas=%+v", embedded, maxVal, fileSize, vcache, ioConc, nTx, n0, nClients, committerYields, shape, specs)

		root := vk.Dir()
		defer os.RemoveAll(root)
		p, err := store.Open(root+"/primary", lightOpts(embedded, maxVal, fileSize, vcache, ioConc))
		if err != nil {
			c.Failf(rt, nil, "open primary: %v", err)
		}
		defer p.Close()
		commit := func(i int) error {
			hdr, err := commitTx(p, txs[i].entries, nil)
			if err != nil {
				return err
			}
			if hdr.ID != uint64(i+1) {
				return fmt.Errorf("commit %d returned id %d", i+1, hdr.ID)
			}
			txs[i].hdr.Store(hdr)
			return nil
		}
		for i := 0; i < n0; i++ {
			if err := commit(i); err != nil {
				c.Failf(rt, nil, "primary commit: %v", err)
			}
		}
		reps := make([]*store.ImmuStore, nRep)
		defer func() {
			for _, r := range reps {
				if r != nil {
					r.Close()
				}
			}
		}()
		hold := store.NewTx(16, 32)
		for i, sp := range specs {
			r, err := store.Open(fmt.Sprintf("%s/replica%d", root, i), lightOpts(sp.embedded, maxVal, 1<<20, 0, 1))
			if err != nil {
				c.Failf(rt, nil, "open replica %d: %v", i, err)
			}
			reps[i] = r
			if sp.atTip {
				// brought to the tip before the concurrent phase (one export at a time)
				for id := uint64(1); id <= uint64(n0); id++ {
					blob, err := p.ExportTx(id, false, sp.skip, hold)
					if err != nil {
						c.Failf(rt, nil, "ExportTx(%d): %v", id, err)
					}
					if m := checkExport(blob, id, txs[id-1], sp.skip); m != "" {
						c.Failf(rt, nil, "%s", m)
					}
					if _, err := r.ReplicateTx(bg, blob, sp.skip, false); err != nil {
						c.Failf(rt, nil, "replica %d refuses the export of tx %d (sequential phase): %v", i, id, err)
					}
				}
			}
		}

		var fails pullFailures
		var exports, retries int64
		var stop int32
		var pullers, others sync.WaitGroup
		ctx, cancel := context.WithTimeout(bg, 120*time.Second) // liveness bound only
		defer cancel()
		// the primary keeps committing
		others.Add(1)
		go func() {
			defer others.Done()
			for i := n0; i < nTx; i++ {
				for y := 0; y < committerYields; y++ {
					runtime.Gosched()
				}
				if err := commit(i); err != nil {
					fails.add("primary commit %d: %v", i+1, err)
					return
				}
			}
		}()
		// other export clients: any committed transaction, all the time
		for k := 0; k < nClients; k++ {
			others.Add(1)
			go func(k int) {
				defer others.Done()
				h := store.NewTx(16, 32)
				id := uint64(k)
				for atomic.LoadInt32(&stop) == 0 && !fails.any() {
					last := p.LastCommittedTxID()
					if last == 0 {
						continue
					}
					id = id%last + 1
					blob, err := p.ExportTx(id, false, false, h)
					atomic.AddInt64(&exports, 1)
					if err != nil {
						fails.add("export client: ExportTx(%d): %v", id, err)
						return
					}
					if m := checkExport(blob, id, txs[id-1], false); m != "" {
						fails.add("export client: %s", m)
						return
					}
					id += uint64(3 + k)
				}
			}(k)
		}
		for i := range specs {
			pullers.Add(1)
			go func(i int) {
				defer pullers.Done()
				sp, r := specs[i], reps[i]
				h := store.NewTx(16, 32)
				next, _ := r.CommittedAlh()
				for next++; next <= uint64(nTx); next++ {
					if fails.any() {
						return
					}
					for y := 0; y < sp.yields; y++ {
						runtime.Gosched()
					}
					if err := p.WaitForTx(ctx, next, false); err != nil {
						fails.add("replica %d: waiting for tx %d on the primary: %v", i, next, err)
						return
					}
					blob, err := p.ExportTx(next, false, sp.skip, h)
					atomic.AddInt64(&exports, 1)
					if err != nil {
						fails.add("replica %d: ExportTx(%d) on the primary: %v", i, next, err)
						return
					}
					exportDiag := checkExport(blob, next, txs[next-1], sp.skip)
					// the replicator retries the same bytes until they are accepted
					var last error
					same := 0
					for {
						_, err := r.ReplicateTx(ctx, blob, sp.skip, false)
						if err == nil || errors.Is(err, store.ErrTxAlreadyCommitted) {
							last = nil
							break
						}
						atomic.AddInt64(&retries, 1)
						if last != nil && err.Error() == last.Error() {
							same++
						} else {
							same = 1
						}
						last = err
						if same >= stuckAfter {
							break
						}
					}
					if last != nil {
						fails.add("replica %d (skipIntegrityCheck=%v) is stuck: the primary's export of tx %d was refused %d times in a row with %q [%s]", i, sp.skip, next, stuckAfter, last, exportDiag)
						return
					}
					if exportDiag != "" {
						// accepted (skipIntegrityCheck) or not, the primary handed out something it never committed
						fails.add("replica %d (skipIntegrityCheck=%v): %s", i, sp.skip, exportDiag)
						return
					}
				}
			}(i)
		}
		done := make(chan struct{})
		go func() { pullers.Wait(); atomic.StoreInt32(&stop, 1); others.Wait(); close(done) }()
		select {
		case <-done:
		case <-time.After(150 * time.Second):
			c.Failf(rt, nil, "pullers did not finish within 150s")
		}
		if fails.any() {
			c.Failf(rt, map[string]any{"all": fails.msgs}, "%s", fails.msgs[0])
		}
		// every replica holds exactly the primary's history: ids, Alh, entries and values
		pid, palh := p.CommittedAlh()
		if pid != uint64(nTx) {
			c.Failf(rt, nil, "primary committed %d of %d", pid, nTx)
		}
		model := map[string][]byte{}
		deleted := map[string]bool{}
		for _, t := range txs {
			for _, e := range t.entries {
				model[string(e.Key)] = e.Value
				deleted[string(e.Key)] = e.Deleted
			}
		}
		for i, r := range reps {
			rid, ralh := r.CommittedAlh()
			if rid != pid || ralh != palh {
				c.Failf(rt, nil, "replica %d ends at (%d, %x), the primary at (%d, %x)", i, rid, ralh, pid, palh)
			}
			if err := waitIndexed(r, pid); err != nil {
				c.Failf(rt, nil, "replica %d: indexing: %v", i, err)
			}
			for id := uint64(1); id <= pid; id++ {
				if err := r.ReadTx(id, false, hold); err != nil {
					c.Failf(rt, nil, "replica %d ReadTx(%d): %v", i, id, err)
				}
				t := txs[id-1]
				ph := t.hdr.Load()
				if hold.Header().Alh() != ph.Alh() || len(hold.Entries()) != len(t.entries) {
					c.Failf(rt, nil, "replica %d: tx %d differs from the primary's (Alh %x / %x, %d / %d entries)", i, id, hold.Header().Alh(), ph.Alh(), len(hold.Entries()), len(t.entries))
				}
				for j, e := range hold.Entries() {
					v, err := r.ReadValue(e)
					if err != nil || !bytes.Equal(e.Key(), t.entries[j].Key) || !bytes.Equal(v, t.entries[j].Value) {
						c.Failf(rt, nil, "replica %d (skipIntegrityCheck=%v): tx %d entry %d: key %q value %q err=%v; the primary committed key %q value %q",
							i, specs[i].skip, id, j, e.Key(), short(v), err, t.entries[j].Key, short(t.entries[j].Value))
					}
				}
			}
			for k, want := range model {
				ref, err := r.Get(bg, []byte(k))
				if deleted[k] {
					if !errors.Is(err, store.ErrKeyNotFound) {
						c.Failf(rt, nil, "replica %d Get(%s): err=%v, the latest version is a delete", i, k, err)
					}
					continue
				}
				if err != nil {
					c.Failf(rt, nil, "replica %d Get(%s): %v", i, k, err)
				}
				v, err := ref.Resolve()
				if err != nil || !bytes.Equal(v, want) {
					c.Failf(rt, nil, "replica %d Get(%s) = %q (err %v), the primary's value is %q", i, k, short(v), err, short(want))
				}
			}
		}
		c.Label(fmt.Sprintf("replicas-%d", nRep))
		if tips > 0 && catchers > 0 {
			c.Label("catching-up-and-tip-followers")
		}
		if skips > 0 {
			c.Label("with-skipIntegrity-replicas")
		}
		if nClients > 0 {
			c.Label("with-export-clients")
		}
		if retries > 0 {
			c.Label("refusals-retried")
		}
		vk.AddLabel("TestConcurrentPullers/concurrent-exports", exports)
		if nRep+nClients >= 2 {
			c.NonTrivial()
		}
	})
}
