package c07

import (
	"bytes"
	"context"
	"fmt"
	"os"
	"sort"
	"strings"
	"sync"
	"testing"
	"time"

	"github.com/codenotary/immudb/embedded/logger"
	"github.com/codenotary/immudb/embedded/store"
	"github.com/codenotary/immudb/pkg/api/schema"
	"github.com/codenotary/immudb/pkg/database"
	"pgregory.net/rapid"

	"verif/internal/vk"
)

// ---------------------------------------------------------------------------
// pkg/database level, synchronous replication: the harness plays the replicator
// (ExportTxByID with the replica's state, AllowCommitUpto, ReplicateTx) one call at a
// time, writers block in Set on the primary.

type dbReplica struct {
	i        int
	uuid     string
	name     string
	opts     *database.Options
	db       database.DB
	last     []byte // last export fetched for this replica (for duplicated deliveries)
	lastSkip bool
	lastID   uint64
}

type syncHarness struct {
	rt      *rapid.T
	c       *vk.Case
	acks    int
	mat     int
	synced  bool
	primary database.DB
	rs      []*dbReplica

	mu        sync.Mutex
	returned  uint64 // highest tx id a Set has returned for
	writerErr []string

	waited bool // at some sampling point the primary had precommitted more than `acks` replicas held
}

func quietLog() logger.Logger { return logger.NewMemoryLoggerWithLevel(logger.LogError) }

func (h *syncHarness) failf(format string, args ...any) {
	h.c.Failf(h.rt, nil, format, args...)
}

type dbStates struct {
	pc, pp uint64
	rc, rp []uint64
}

func (h *syncHarness) sample() dbStates {
	var s dbStates
	ps, err := h.primary.CurrentState()
	if err != nil {
		h.failf("primary CurrentState: %v", err)
	}
	s.pc, s.pp = ps.TxId, ps.PrecommittedTxId
	for _, r := range h.rs {
		st, err := r.db.CurrentState()
		if err != nil {
			h.failf("replica %d CurrentState: %v", r.i, err)
		}
		s.rc = append(s.rc, st.TxId)
		s.rp = append(s.rp, st.PrecommittedTxId)
	}
	return s
}

// invariants of synchronous replication. Replica states only change through calls made by this goroutine, the primary's
// committed id only grows: sampling before every call that advances a replica and after every step sees every violation
// that lasts until the next such call.
func (h *syncHarness) inv(when string) dbStates {
	// no call of this goroutine is in flight here: the replicas' states are stable while they are read
	s := h.sample()
	held := append([]uint64(nil), s.rp...)
	sort.Slice(held, func(i, j int) bool { return held[i] > held[j] })
	kth := held[h.acks-1]
	if s.pc > kth {
		h.failf("%s: the primary reports tx %d committed, but only %d replica(s) durably hold it (syncAcks=%d): replicas' precommitted ids %v, committed ids %v",
			when, s.pc, countGE(s.rp, s.pc), h.acks, s.rp, s.rc)
	}
	for i := range s.rc {
		if s.rc[i] > s.pc {
			h.failf("%s: replica %d reports tx %d committed, the primary only %d", when, i, s.rc[i], s.pc)
		}
		if s.rc[i] > s.rp[i] {
			h.failf("%s: replica %d: committed id %d > precommitted id %d", when, i, s.rc[i], s.rp[i])
		}
	}
	h.mu.Lock()
	ret := h.returned
	h.mu.Unlock()
	if ret > kth {
		h.failf("%s: Set has returned for tx %d, but only %d replica(s) durably hold it (syncAcks=%d): replicas' precommitted ids %v", when, ret, countGE(s.rp, ret), h.acks, s.rp)
	}
	if s.pp > kth {
		h.waited = true
	}
	return s
}

func countGE(xs []uint64, v uint64) int {
	n := 0
	for _, x := range xs {
		if x >= v {
			n++
		}
	}
	return n
}

// fetch is one iteration of the replicator's loop for replica r.
func (h *syncHarness) fetch(r *dbReplica, allowFirst, skipIntegrity bool) {
	st, err := r.db.CurrentState()
	if err != nil {
		h.failf("replica %d CurrentState: %v", r.i, err)
	}
	req := &schema.ExportTxRequest{
		Tx:                 st.PrecommittedTxId + 1,
		AllowPreCommitted:  true,
		SkipIntegrityCheck: skipIntegrity,
		ReplicaState: &schema.ReplicaState{UUID: r.uuid, CommittedTxID: st.TxId, CommittedAlh: st.TxHash,
			PrecommittedTxID: st.PrecommittedTxId, PrecommittedAlh: st.PrecommittedTxHash},
	}
	bs, upto, alh, err := h.primary.ExportTxByID(context.Background(), req)
	if err != nil {
		h.failf("ExportTxByID(tx %d) with the honest state of replica %d (committed %d, precommitted %d) failed: %v", req.Tx, r.i, st.TxId, st.PrecommittedTxId, err)
	}
	s := h.inv(fmt.Sprintf("after ExportTxByID for replica %d", r.i))
	if upto > s.pc {
		h.failf("ExportTxByID tells replica %d it may commit up to tx %d, the primary committed only %d", r.i, upto, s.pc)
	}
	allow := func() {
		if upto > st.TxId {
			if err := r.db.AllowCommitUpto(upto, alh); err != nil {
				h.failf("replica %d AllowCommitUpto(%d) with the primary's Alh: %v", r.i, upto, err)
			}
		}
	}
	if allowFirst {
		allow()
	}
	if len(bs) > 0 {
		r.last, r.lastSkip, r.lastID = bs, skipIntegrity, req.Tx
		h.inv(fmt.Sprintf("before ReplicateTx on replica %d", r.i))
		before, _ := r.db.CurrentState()
		hdr, err := r.db.ReplicateTx(context.Background(), bs, skipIntegrity, false)
		if err != nil {
			after, _ := r.db.CurrentState()
			// (synced stores: the check is made on in-memory counters that run ahead of the durable ones sampled here)
			windowFull := (h.synced || before.PrecommittedTxId-before.TxId >= uint64(h.mat)) &&
				(strings.Contains(err.Error(), store.ErrMaxActiveTransactionsLimitExceeded.Error()) || strings.Contains(err.Error(), store.ErrBufferIsFull.Error()))
			if !windowFull {
				h.failf("replica %d (committed %d, precommitted %d) refuses the primary's export of tx %d: %v", r.i, before.TxId, before.PrecommittedTxId, req.Tx, err)
			}
			// back-pressure: the replica holds MaxActiveTransactions uncommitted transactions; the replicator retries later
			if after.PrecommittedTxId != before.PrecommittedTxId || after.TxId < before.TxId {
				h.failf("replica %d refused tx %d (%v) but its state changed: precommitted %d -> %d", r.i, req.Tx, err, before.PrecommittedTxId, after.PrecommittedTxId)
			}
			h.c.Label("replica-window-full-(retry)")
		} else if hdr.Id != req.Tx {
			h.failf("replica %d: ReplicateTx of tx %d returned id %d", r.i, req.Tx, hdr.Id)
		}
	}
	if !allowFirst {
		allow()
	}
}

func (h *syncHarness) dup(r *dbReplica) {
	if r.last == nil {
		return
	}
	before, _ := r.db.CurrentState()
	_, err := r.db.ReplicateTx(context.Background(), r.last, r.lastSkip, false)
	after, _ := r.db.CurrentState()
	if after.TxId < before.TxId {
		h.failf("replica %d: committed id went back %d -> %d", r.i, before.TxId, after.TxId)
	}
	// (the committed id may move on its own: an allowed commit is performed by the syncer)
	unchanged := before.PrecommittedTxId == after.PrecommittedTxId && bytes.Equal(before.PrecommittedTxHash, after.PrecommittedTxHash)
	switch {
	case r.lastID <= before.PrecommittedTxId:
		// a true duplicate
		if err == nil || !strings.Contains(err.Error(), "tx already committed") {
			h.failf("replica %d: duplicated delivery of tx %d (precommitted %d): err=%v", r.i, r.lastID, before.PrecommittedTxId, err)
		}
		if !unchanged {
			h.failf("replica %d: duplicated delivery changed the state", r.i)
		}
	case err == nil:
		// the previous delivery had been refused (window full): this one is the retry
		if after.PrecommittedTxId != r.lastID {
			h.failf("replica %d: retried delivery of tx %d accepted, precommitted id %d", r.i, r.lastID, after.PrecommittedTxId)
		}
	default:
		if !unchanged {
			h.failf("replica %d: retried delivery of tx %d refused (%v) but the state changed", r.i, r.lastID, err)
		}
	}
}

func (h *syncHarness) restart(r *dbReplica) {
	before, _ := r.db.CurrentState()
	if err := r.db.Close(); err != nil {
		h.failf("replica %d Close: %v", r.i, err)
	}
	db, err := database.OpenDB(r.name, nil, r.opts, quietLog())
	if err != nil {
		h.failf("replica %d OpenDB: %v", r.i, err)
	}
	r.db = db
	after, _ := r.db.CurrentState()
	// (a commit that was allowed but not yet performed by the syncer may complete while closing)
	if after.TxId < before.TxId || after.TxId > before.PrecommittedTxId || after.PrecommittedTxId < before.PrecommittedTxId {
		h.failf("replica %d restart: committed %d -> %d, durably precommitted %d -> %d", r.i, before.TxId, after.TxId, before.PrecommittedTxId, after.PrecommittedTxId)
	}
}

type writeReq struct {
	kvs []*schema.KeyValue
}

func TestSyncReplicationDB(t *testing.T) {
	vk.Check(t, 96, 1200, func(rt *rapid.T, c *vk.Case) {
		root := vk.Dir()
		defer os.RemoveAll(root)
		acks := rapid.IntRange(1, 3).Draw(rt, "syncAcks")
		nr := rapid.IntRange(acks, 3).Draw(rt, "replicas")
		synced := rapid.IntRange(0, 3).Draw(rt, "synced") == 0
		restarts := rapid.IntRange(0, 2).Draw(rt, "withRestarts") == 0
		embedded := rapid.Bool().Draw(rt, "embeddedValues")
		if embedded && restarts && vk.Excluded(kfEmbedded) {
			// known finding: a restarted replica with embedded values forgets what it acknowledged
			vk.CountExcluded(kfEmbedded)
			embedded = false
		}
		mat := rapid.SampledFrom([]int{4, 16, 1000}).Draw(rt, "maxActiveTx")
		sopts := func() *store.Options {
			o := store.DefaultOptions().WithSynced(synced).WithSyncFrequency(time.Millisecond).
				WithMaxConcurrency(8).WithMaxTxEntries(32).WithMaxKeyLen(64).WithMaxValueLen(256).
				WithMaxActiveTransactions(mat).WithEmbeddedValues(embedded).WithMaxWaitees(64).
				WithIndexOptions(store.DefaultIndexOptions().WithCacheSize(32).WithMaxActiveSnapshots(20)).
				WithAHTOptions(store.DefaultAHTOptions().WithWriteBufferSize(4096))
			if embedded {
				o.WithMaxIOConcurrency(1)
			}
			return o
		}
		h := &syncHarness{rt: rt, c: c, acks: acks, mat: mat, synced: synced}
		var err error
		h.primary, err = database.NewDB("primary", nil,
			database.DefaultOptions().WithDBRootPath(root).WithStoreOptions(sopts()).WithSyncReplication(true).WithSyncAcks(acks), quietLog())
		if err != nil {
			c.Failf(rt, nil, "NewDB(primary): %v", err)
		}
		defer func() { h.primary.Close() }()
		for i := 0; i < nr; i++ {
			r := &dbReplica{i: i, uuid: fmt.Sprintf("replica-uuid-%d", i), name: fmt.Sprintf("replica%d", i)}
			r.opts = database.DefaultOptions().WithDBRootPath(root).WithStoreOptions(sopts()).AsReplica(true).WithSyncReplication(true)
			r.db, err = database.NewDB(r.name, nil, r.opts, quietLog())
			if err != nil {
				c.Failf(rt, nil, "NewDB(replica %d): %v", i, err)
			}
			h.rs = append(h.rs, r)
		}
		defer func() {
			for _, r := range h.rs {
				r.db.Close()
			}
		}()
		// writers
		nw := rapid.IntRange(1, 3).Draw(rt, "writers")
		perW := rapid.IntRange(1, 5).Draw(rt, "setsPerWriter")
		reqs := make([][]writeReq, nw)
		model := map[string]string{} // only for keys written by exactly one writer the last value is known; all keys are compared primary vs replica
		ctr := 0
		for w := 0; w < nw; w++ {
			for j := 0; j < perW; j++ {
				var kvs []*schema.KeyValue
				nkv := rapid.IntRange(1, 3).Draw(rt, "kvs")
				used := map[string]bool{}
				for e := 0; e < nkv; e++ {
					ctr++
					k := fmt.Sprintf("k%d", rapid.IntRange(0, 7).Draw(rt, "key"))
					if used[k] {
						continue // duplicated keys are refused in one Set
					}
					used[k] = true
					v := fmt.Sprintf("v%d", ctr)
					if rapid.IntRange(0, 5).Draw(rt, "emptyVal") == 0 {
						v = ""
					}
					kvs = append(kvs, &schema.KeyValue{Key: []byte(k), Value: []byte(v)})
					model[k] = v
				}
				reqs[w] = append(reqs[w], writeReq{kvs})
			}
		}
		total := uint64(nw * perW)
		c.Descf("acks=%d replicas=%d synced=%v emb=%v mat=%d restarts=%v writers=%d x %d", acks, nr, synced, embedded, mat, restarts, nw, perW)
		ctx, cancelWriters := context.WithCancel(context.Background())
		var wg sync.WaitGroup
		for w := 0; w < nw; w++ {
			wg.Add(1)
			go func(w int) {
				defer wg.Done()
				for _, q := range reqs[w] {
					var hdr *schema.TxHeader
					var err error
					for attempt := 0; ; attempt++ {
						hdr, err = h.primary.Set(ctx, &schema.SetRequest{KVs: q.kvs})
						if err != nil && ctx.Err() == nil && attempt < 2000 &&
							(strings.Contains(err.Error(), store.ErrMaxActiveTransactionsLimitExceeded.Error()) || strings.Contains(err.Error(), store.ErrBufferIsFull.Error())) {
							time.Sleep(time.Millisecond) // window of precommitted transactions exhausted: retry, as a client would
							continue
						}
						break
					}
					if err != nil {
						if ctx.Err() == nil {
							h.mu.Lock()
							h.writerErr = append(h.writerErr, fmt.Sprintf("writer %d: Set: %v", w, err))
							h.mu.Unlock()
						}
						return
					}
					ps, _ := h.primary.CurrentState()
					h.mu.Lock()
					if ps.TxId < hdr.Id {
						h.writerErr = append(h.writerErr, fmt.Sprintf("writer %d: Set returned tx %d but the primary's committed id is %d", w, hdr.Id, ps.TxId))
					}
					if hdr.Id > h.returned {
						h.returned = hdr.Id
					}
					h.mu.Unlock()
				}
			}(w)
		}
		writersDone := make(chan struct{})
		go func() { wg.Wait(); close(writersDone) }()
		defer func() {
			cancelWriters()
			<-writersDone
		}()

		// the drawn part of the schedule: a favourite replica runs ahead, the others lag
		fav := rapid.IntRange(0, nr-1).Draw(rt, "favourite")
		steps := rapid.IntRange(3, 30).Draw(rt, "steps")
		sched := ""
		for s := 0; s < steps; s++ {
			ri := fav
			if rapid.IntRange(0, 2).Draw(rt, "other") == 0 {
				ri = rapid.IntRange(0, nr-1).Draw(rt, "replica")
			}
			r := h.rs[ri]
			kinds := []string{"fetch", "fetch", "fetch", "fetch", "fetch-allow-last", "dup", "pause"}
			if restarts {
				kinds = append(kinds, "restart")
			}
			kind := rapid.SampledFrom(kinds).Draw(rt, "step")
			sched += fmt.Sprintf(" %d%s", ri, kind[:1])
			switch kind {
			case "fetch":
				h.fetch(r, true, rapid.IntRange(0, 7).Draw(rt, "skipIntegrity") == 0)
			case "fetch-allow-last":
				h.fetch(r, false, false)
			case "dup":
				h.dup(r)
			case "pause":
				time.Sleep(time.Duration(rapid.IntRange(0, 3).Draw(rt, "pauseMs")) * time.Millisecond)
			case "restart":
				h.restart(r)
				c.Label("replica-restart")
			}
			h.inv("after step" + sched)
			h.checkWriters()
		}
		c.Descf("sched=%s", sched)
		// deterministic part: everybody fetches until the writers are done and the replicas have everything
		deadline := time.Now().Add(60 * time.Second)
		for {
			s := h.inv("catch-up")
			h.checkWriters()
			finished := false
			select {
			case <-writersDone:
				finished = true
			default:
			}
			if finished && s.pc == total && allEqual(s.rc, total) {
				break
			}
			if time.Now().After(deadline) {
				c.Failf(rt, nil, "synchronous replication made no progress for 60s: primary committed %d precommitted %d of %d, replicas committed %v precommitted %v, writers finished=%v",
					s.pc, s.pp, total, s.rc, s.rp, finished)
			}
			for _, r := range h.rs {
				h.fetch(r, true, false)
			}
		}
		h.checkWriters()
		// final comparison
		ps, _ := h.primary.CurrentState()
		for _, r := range h.rs {
			st, _ := r.db.CurrentState()
			if st.TxId != ps.TxId || !bytes.Equal(st.TxHash, ps.TxHash) {
				c.Failf(rt, nil, "final state of replica %d (%d, %x) differs from the primary's (%d, %x)", r.i, st.TxId, st.TxHash, ps.TxId, ps.TxHash)
			}
			for id := uint64(1); id <= total; id++ {
				pt, err1 := h.primary.TxByID(context.Background(), &schema.TxRequest{Tx: id})
				rtx, err2 := r.db.TxByID(context.Background(), &schema.TxRequest{Tx: id})
				if err1 != nil || err2 != nil {
					c.Failf(rt, nil, "TxByID(%d): primary err=%v, replica %d err=%v", id, err1, r.i, err2)
				}
				if !bytes.Equal(pt.Header.EH, rtx.Header.EH) || !bytes.Equal(pt.Header.PrevAlh, rtx.Header.PrevAlh) || pt.Header.Ts != rtx.Header.Ts || len(pt.Entries) != len(rtx.Entries) {
					c.Failf(rt, nil, "tx %d on replica %d differs from the primary's", id, r.i)
				}
			}
			keys := make([]string, 0, len(model))
			for k := range model {
				keys = append(keys, k)
			}
			sort.Strings(keys)
			for _, k := range keys {
				pe, err1 := h.primary.Get(context.Background(), &schema.KeyRequest{Key: []byte(k)})
				re, err2 := r.db.Get(context.Background(), &schema.KeyRequest{Key: []byte(k)})
				if err1 != nil || err2 != nil {
					c.Failf(rt, nil, "Get(%s): primary err=%v, replica %d err=%v", k, err1, r.i, err2)
				}
				if pe.Tx != re.Tx || !bytes.Equal(pe.Value, re.Value) || pe.Revision != re.Revision {
					c.Failf(rt, nil, "Get(%s): primary (tx %d rev %d %q), replica %d (tx %d rev %d %q)", k, pe.Tx, pe.Revision, pe.Value, r.i, re.Tx, re.Revision, re.Value)
				}
				if nw == 1 && string(pe.Value) != model[k] {
					c.Failf(rt, nil, "Get(%s) on the primary = %q, last written %q", k, pe.Value, model[k])
				}
			}
		}
		c.Label(fmt.Sprintf("acks=%d", acks))
		c.Label(fmt.Sprintf("replicas=%d", nr))
		if synced {
			c.Label("synced-stores")
		}
		if h.waited {
			c.Label("primary-waited-for-acks")
			c.NonTrivial()
		}
	})
}

func allEqual(xs []uint64, v uint64) bool {
	for _, x := range xs {
		if x != v {
			return false
		}
	}
	return true
}

func (h *syncHarness) checkWriters() {
	h.mu.Lock()
	msg := strings.Join(h.writerErr, "; ")
	h.mu.Unlock()
	if msg != "" {
		h.failf("%s", msg)
	}
}
